/-
C35 — Bloom filters never report a false negative.

Chain from the Lua/Go source to these theorems:
 1. `Rv.Gen.LuaScripts` is regenerated from /repo on every run; the `*_pinned` theorems
    below fix the exact script texts the model `Rv.Bloom` was transcribed from. An edited
    script breaks the pin, and the property is reported as no longer proved.
 2. `Rv.Bloom.addScript/existsScript/…` are hand transcriptions of those texts (trusted),
    `Rv.Bloom.addMulti/existsMulti/…` of the Go glue; both are tied to the real code by the
    `bloom` correspondence suite (fake server validated against the script model, real glue
    run end-to-end against the fake).
 3. Everything below is proved for all hash values, all m ≥ 1, all k ≥ 1 and all histories.
-/
import Rv.Gen.LuaScripts
import Rv.Model.Bloom
import Rv.Lemmas.GroupLoop

namespace Rv.C35
open Rv.Bloom Rv.GroupLoop

/-! ### 1. pins -/
theorem bloom_add_script_pinned : Rv.Gen.rueidisprob_bloomFilterAddMultiScript =
  "\nlocal hashIterations = tonumber(ARGV[1])\nlocal numElements = tonumber(#ARGV) - 1\nlocal filterKey = KEYS[1]\nlocal counterKey = KEYS[2]\n\nlocal counter = 0\nlocal oneBits = 0\nfor i=1, numElements do\n\tlocal bitset = redis.call('BITFIELD', filterKey, 'SET', 'u1', ARGV[i+1], '1')\n\n\toneBits = oneBits + bitset[1]\n\tif i % hashIterations == 0 then\n\t\tif oneBits ~= hashIterations then\n\t\t\tcounter = counter + 1\n\t\tend\n\n\t\toneBits = 0\n\tend\nend\n\nreturn redis.call('INCRBY', counterKey, counter)\n" := rfl

theorem bloom_exists_script_pinned : Rv.Gen.rueidisprob_bloomFilterExistsMultiScript =
  "\nlocal hashIterations = tonumber(ARGV[1])\nlocal numElements = tonumber(#ARGV) - 1\nlocal filterKey = KEYS[1]\n\nlocal result = {}\nlocal oneBits = 0\nfor i=1, numElements do\n\tlocal index = tonumber(ARGV[i+1])\n\tlocal bitset = redis.call('BITFIELD', filterKey, 'GET', 'u1', index)\n\n\toneBits = oneBits + bitset[1]\n\tif i % hashIterations == 0 then\n\t\ttable.insert(result, oneBits == hashIterations)\n\n\t\toneBits = 0\n\tend\nend\n\nreturn result\n" := rfl

theorem bloom_exists_ro_script_pinned : Rv.Gen.rueidisprob_bloomFilterExistsMultiReadOnlyScript =
  "\nlocal hashIterations = tonumber(ARGV[1])\nlocal numElements = tonumber(#ARGV) - 1\nlocal filterKey = KEYS[1]\n\nlocal result = {}\nlocal oneBits = 0\nfor i=1, numElements do\n\tlocal index = tonumber(ARGV[i+1])\n\tlocal bitset = redis.call('BITFIELD_RO', filterKey, 'GET', 'u1', index)\n\n\toneBits = oneBits + bitset[1]\n\tif i % hashIterations == 0 then\n\t\ttable.insert(result, oneBits == hashIterations)\n\n\t\toneBits = 0\n\tend\nend\n\nreturn result\n" := rfl

theorem bloom_reset_script_pinned : Rv.Gen.rueidisprob_bloomFilterResetScript =
  "\nlocal filterKey = KEYS[1]\nlocal counterKey = KEYS[2]\n\nredis.call('SET', filterKey, \"\")\nredis.call('SET', counterKey, 0)\n\nreturn 1\n" := rfl

theorem bloom_delete_script_pinned : Rv.Gen.rueidisprob_bloomFilterDeleteScript =
  "\nlocal filterKey = KEYS[1]\nlocal counterKey = KEYS[2]\n\nredis.call('DEL', filterKey)\nredis.call('DEL', counterKey)\n\nreturn 1\n" := rfl

/-! ### 2. the index function -/

/-- `index` (uint64 arithmetic with wrap-around, as Go computes it) is the statement's formula. -/
theorem index_eq_formula (h1 h2 i m : Nat) :
    indexGo h1 h2 i m = ((h1 + i * h2) % 2 ^ 64) % m := by
  unfold indexGo
  rw [Nat.add_mod_mod]

/-- every index addresses a bit inside the filter -/
theorem index_lt (h1 h2 i m : Nat) (hm : 1 ≤ m) : indexGo h1 h2 i m < m := by
  unfold indexGo
  exact Nat.mod_lt _ (by omega)

/-! ### 3. the constructor -/

/-- the clamp in `numberOfBloomFilterHashFunctions`: at least one hash function, whatever the
floating-point computation produced -/
theorem hashFunctions_ge_one (raw : Nat) : 1 ≤ hashFunctions raw := by
  unfold hashFunctions; omega

/-- every configuration `NewBloomFilter` accepts has `1 ≤ m ≤ 2^32` bits and `k ≥ 1` hash functions -/
theorem accepted_cfg_usable (nameLen : Nat) (rc : Int) (bitsRaw hashRaw : Nat) (c : Cfg)
    (h : newBloomFilter nameLen rc bitsRaw hashRaw = .ok c) :
    1 ≤ c.m ∧ c.m ≤ 2 ^ 32 ∧ 1 ≤ c.k := by
  unfold newBloomFilter at h
  split at h <;> try contradiction
  split at h <;> try contradiction
  split at h <;> try contradiction
  split at h <;> try contradiction
  split at h <;> try contradiction
  injection h with h
  subst h
  simp only [maxSize] at *
  refine ⟨by omega, by omega, hashFunctions_ge_one _⟩

/-- non-vacuity: accepted configurations exist (n = 100, rate 0.9 gives bitsRaw = 22, hashRaw = 0) -/
example : newBloomFilter 2 0 22 0 = .ok ⟨22, 1⟩ := by rfl

/-! ### 4. scripts -/

private theorem sum_bitVal_le (b : Bits) (g : List Nat) : (g.map (bitVal b)).sum ≤ g.length := by
  induction g with
  | nil => simp
  | cons x g ih =>
    simp only [List.map_cons, List.sum_cons, List.length_cons]
    unfold bitVal at *
    split <;> omega

private theorem sum_bitVal_eq_iff (b : Bits) (g : List Nat) :
    (g.map (bitVal b)).sum = g.length ↔ g.all b = true := by
  induction g with
  | nil => simp
  | cons x g ih =>
    have hle := sum_bitVal_le b g
    simp only [List.map_cons, List.sum_cons, List.length_cons, List.all_cons, Bool.and_eq_true]
    cases hb : b x
    · simp [bitVal, hb]; omega
    · simp only [bitVal, hb, if_true, true_and]
      rw [← ih]; omega

private theorem gfold_exists (b : Bits) : ∀ (g : List Nat) (a : Nat) (res : List Bool),
    gfold (fun (res : List Bool) x => (res, bitVal b x)) (· + ·) g a res
      = (res, a + (g.map (bitVal b)).sum) := by
  intro g
  induction g with
  | nil => intro a res; simp [gfold]
  | cons x g ih => intro a res; simp [gfold, ih, Nat.add_assoc]

private theorem gspec_exists (b : Bits) (k : Nat) : ∀ (gs : List (List Nat)) (res : List Bool),
    (∀ g ∈ gs, g.length = k) →
    gspec (fun (res : List Bool) x => (res, bitVal b x)) (· + ·) 0
      (fun res one => res ++ [one == k]) gs res = res ++ gs.map (fun g => g.all b) := by
  intro gs
  induction gs with
  | nil => intro res _; simp [gspec]
  | cons g gs ih =>
    intro res hlen
    have hg : g.length = k := hlen g (by simp)
    rw [gspec, gfold_exists, ih _ (fun g' h' => hlen g' (by simp [h']))]
    have : ((0 + (g.map (bitVal b)).sum) == k) = g.all b := by
      rw [Nat.zero_add, ← hg]
      cases hall : g.all b
      · have := mt (sum_bitVal_eq_iff b g).mp (by simp [hall])
        simpa using this
      · have := (sum_bitVal_eq_iff b g).mpr hall
        simpa using this
    rw [this]; simp

/-- The exists script over the concatenation of groups of `k ≥ 1` indexes answers, per group
and in order, whether all bits of the group are set. -/
theorem existsScript_groups (k : Nat) (hk : 1 ≤ k) (gs : List (List Nat)) (b : Bits)
    (hlen : ∀ g ∈ gs, g.length = k) :
    existsScript k gs.flatten b = gs.map (fun g => g.all b) := by
  unfold existsScript
  have := gloop_eq_gspec k hk (fun (res : List Bool) x => (res, bitVal b x)) (· + ·) 0
    (fun res one => res ++ [one == k]) gs 0 [] hlen
  simp only [Nat.zero_mul, Nat.zero_add] at this
  rw [this, gspec_exists b k gs [] hlen]
  simp

private theorem gloop_add_bits (k : Nat) : ∀ (idxs : List Nat) (i a : Nat) (st : Bits × Nat),
    (gloop k (fun (st : Bits × Nat) x => ((setBit st.1 x, st.2), bitVal st.1 x)) (· + ·) 0
      (fun st one => (st.1, if one ≠ k then st.2 + 1 else st.2)) idxs i a st).1
      = idxs.foldl setBit st.1 := by
  intro idxs
  induction idxs with
  | nil => intro i a st; simp [gloop]
  | cons x xs ih =>
    intro i a st
    unfold gloop
    split <;> (rw [ih]; rfl)

/-- whatever `k` is, the add script sets exactly the bits it was given (and clears none) -/
theorem addScript_bits (k : Nat) (idxs : List Nat) (s : St) :
    (addScript k idxs s).1.bits = idxs.foldl setBit s.bits := by
  unfold addScript addLoop
  exact gloop_add_bits k idxs 1 0 (s.bits, 0)

private theorem foldl_setBit_mono (idxs : List Nat) : ∀ (b : Bits) (x : Nat),
    b x = true → (idxs.foldl setBit b) x = true := by
  induction idxs with
  | nil => intro b x h; simpa using h
  | cons y ys ih =>
    intro b x h
    simp only [List.foldl_cons]
    apply ih
    unfold setBit
    split <;> simp [h]

private theorem foldl_setBit_mem (idxs : List Nat) : ∀ (b : Bits) (x : Nat),
    x ∈ idxs → (idxs.foldl setBit b) x = true := by
  induction idxs with
  | nil => intro b x h; simp at h
  | cons y ys ih =>
    intro b x h
    simp only [List.foldl_cons]
    rcases List.mem_cons.mp h with h | h
    · apply foldl_setBit_mono
      simp [setBit, h]
    · exact ih _ _ h

/-- the counter never decreases through the add script -/
theorem addScript_counter (k : Nat) (idxs : List Nat) (s : St) :
    s.counter.getD 0 ≤ (addScript k idxs s).1.counter.getD 0 := by
  simp [addScript]

/-! ### 5. glue + scripts: histories -/

/-- an item is present in a state: all its `k` bits are set -/
def present (c : Cfg) (s : St) (key : Nat × Nat) : Bool := (itemIdx c.m c.k key).all s.bits

private theorem itemIdx_length (m k : Nat) (key : Nat × Nat) : (itemIdx m k key).length = k := by
  simp [itemIdx]

/-- `per_key_in_order`: for `k ≥ 1`, `ExistsMulti` returns exactly one answer per input key, in
input order, and the answer for a key is whether all of that key's bits are set. -/
theorem per_key_in_order (c : Cfg) (hk : 1 ≤ c.k) (keys : List (Nat × Nat)) (s : St)
    (hne : keys ≠ []) :
    existsMulti c keys s = .ok (keys.map (present c s)) := by
  unfold existsMulti
  have hemp : keys.isEmpty = false := by
    cases keys with
    | nil => exact absurd rfl hne
    | cons _ _ => rfl
  have hscript : existsScript c.k (allIdx c.m c.k keys) s.bits = keys.map (present c s) := by
    unfold allIdx
    rw [existsScript_groups c.k hk (keys.map (itemIdx c.m c.k)) s.bits]
    · simp [List.map_map, present, Function.comp_def]
    · intro g hg
      rcases List.mem_map.mp hg with ⟨key, _, rfl⟩
      exact itemIdx_length _ _ _
  simp [hemp, hscript]

/-- `argv_depends_only_on_item`: the arguments `AddMulti` / `ExistsMulti` hand to the client are a
function of the call's own keys and of (m, k) only — the same whatever the server state, whatever
ran before and whatever other call on the same filter value is in flight — namely `k` followed by
the `k` indexes of each key in input order; and the state change of `AddMulti` is the add script
run on exactly these arguments. The `bloom` suite ties this to the code by comparing the argv the
client consumed (also for a call parked while another one ran) with this argv. -/
theorem argv_depends_only_on_item (c : Cfg) (keys : List (Nat × Nat)) (hne : keys ≠ []) (s s' : St) :
    (addMultiTrace c keys s).2 = some (c.k :: (keys.map (itemIdx c.m c.k)).flatten) ∧
    (addMultiTrace c keys s).2 = (addMultiTrace c keys s').2 ∧
    (existsMultiTrace c keys s).2 = (addMultiTrace c keys s').2 ∧
    (addMultiTrace c keys s).1 = addMulti c keys s ∧
    addMulti c keys s = (addScript c.k (keys.map (itemIdx c.m c.k)).flatten s).1 := by
  have hemp : keys.isEmpty = false := by
    cases keys with
    | nil => exact absurd rfl hne
    | cons _ _ => rfl
  simp [addMultiTrace, existsMultiTrace, addMulti, allIdx, hemp]

/-- the argv of a multi-key call is the concatenation of the per-item index groups: an item's
indexes do not depend on which other items travel in the same call -/
theorem allIdx_append (m k : Nat) (a b : List (Nat × Nat)) :
    allIdx m k (a ++ b) = allIdx m k a ++ allIdx m k b := by
  simp [allIdx]

/-- operations of a history -/
inductive Op where
  | add (keys : List (Nat × Nat))
  | exists_ (keys : List (Nat × Nat))
  | count
  | reset
  | delete

def Op.keeps : Op → Bool
  | .reset => false
  | .delete => false
  | _ => true

/-- state transition of one glue operation (queries do not change the server state) -/
def apply (c : Cfg) (s : St) : Op → St
  | .add keys => addMulti c keys s
  | .exists_ _ => s
  | .count => s
  | .reset => resetScript s
  | .delete => deleteScript s

def run (c : Cfg) (s : St) (ops : List Op) : St := ops.foldl (apply c) s

private theorem addMulti_bits_mono (c : Cfg) (keys : List (Nat × Nat)) (s : St) (x : Nat)
    (h : s.bits x = true) : (addMulti c keys s).bits x = true := by
  unfold addMulti
  split
  · exact h
  · rw [addScript_bits]; exact foldl_setBit_mono _ _ _ h

private theorem present_mono_bits (c : Cfg) (s s' : St) (key : Nat × Nat)
    (h : ∀ x, s.bits x = true → s'.bits x = true) (hp : present c s key = true) :
    present c s' key = true := by
  unfold present at *
  rw [List.all_eq_true] at *
  intro x hx
  exact h x (hp x hx)

private theorem apply_bits_mono (c : Cfg) (s : St) (op : Op) (hop : op.keeps = true) (x : Nat)
    (h : s.bits x = true) : (apply c s op).bits x = true := by
  cases op with
  | add keys => exact addMulti_bits_mono c keys s x h
  | exists_ _ => exact h
  | count => exact h
  | reset => simp [Op.keeps] at hop
  | delete => simp [Op.keeps] at hop

private theorem run_bits_mono (c : Cfg) (ops : List Op) : ∀ (s : St),
    (∀ op ∈ ops, op.keeps = true) → ∀ x, s.bits x = true → (run c s ops).bits x = true := by
  induction ops with
  | nil => intro s _ x h; exact h
  | cons op ops ih =>
    intro s hk x h
    simp only [run, List.foldl_cons]
    exact ih (apply c s op) (fun o ho => hk o (by simp [ho])) x
      (apply_bits_mono c s op (hk op (by simp)) x h)

/-- right after `AddMulti keys`, every key of the call is present (needs `k ≥ 1` only so
that "present" is not vacuous; the bits are set for every `k`) -/
theorem present_after_add (c : Cfg) (keys : List (Nat × Nat)) (s : St) (key : Nat × Nat)
    (hmem : key ∈ keys) : present c (addMulti c keys s) key = true := by
  unfold present addMulti
  have hemp : keys.isEmpty = false := by
    cases keys with
    | nil => simp at hmem
    | cons _ _ => rfl
  simp only [hemp, Bool.false_eq_true, if_false]
  rw [addScript_bits, List.all_eq_true]
  intro x hx
  apply foldl_setBit_mem
  unfold allIdx
  rw [List.mem_flatten]
  exact ⟨itemIdx c.m c.k key, List.mem_map.mpr ⟨key, hmem, rfl⟩, hx⟩

/-- `exists_after_add` (state form): after a successful `Add`/`AddMulti` of `key`, through any
history without `Reset`/`Delete` — from any starting state, for any hash values, any `m`, any
`k` — all of the key's bits are set. -/
theorem present_after_add_history (c : Cfg) (s : St) (keys : List (Nat × Nat)) (key : Nat × Nat)
    (hist : List Op) (hmem : key ∈ keys) (hkeep : ∀ op ∈ hist, op.keeps = true) :
    present c (run c (addMulti c keys s) hist) key = true :=
  present_mono_bits c _ _ key (run_bits_mono c hist _ hkeep) (present_after_add c keys s key hmem)

/-- `exists_after_add`: for `k ≥ 1`, after a successful add of `key` and any later history
without `Reset`/`Delete`, `ExistsMulti qs` answers `true` at every position holding `key`
(and `Exists key`, i.e. `ExistsMulti [key]` then `[0]`, answers `true`). -/
theorem exists_after_add (c : Cfg) (hk : 1 ≤ c.k) (s : St) (keys : List (Nat × Nat))
    (key : Nat × Nat) (hist : List Op) (hmem : key ∈ keys)
    (hkeep : ∀ op ∈ hist, op.keeps = true) (qs : List (Nat × Nat)) (hq : qs ≠ []) :
    ∃ r, existsMulti c qs (run c (addMulti c keys s) hist) = .ok r ∧ r.length = qs.length ∧
      ∀ i (hi : i < qs.length) (hr : i < r.length), qs[i] = key → r[i] = true := by
  refine ⟨_, per_key_in_order c hk qs _ hq, by simp, ?_⟩
  intro i hi hr hqi
  simp only [List.getElem_map, hqi]
  exact present_after_add_history c s keys key hist hmem hkeep

/-- `Exists key` (single-key form) -/
theorem exists1_after_add (c : Cfg) (hk : 1 ≤ c.k) (s : St) (keys : List (Nat × Nat))
    (key : Nat × Nat) (hist : List Op) (hmem : key ∈ keys)
    (hkeep : ∀ op ∈ hist, op.keeps = true) :
    existsMulti c [key] (run c (addMulti c keys s) hist) = .ok [true] := by
  rw [per_key_in_order c hk [key] _ (by simp)]
  simp [present_after_add_history c s keys key hist hmem hkeep]

/-- the statement for every configuration the (repaired) constructor accepts -/
theorem exists_after_add_accepted (nameLen : Nat) (rc : Int) (bitsRaw hashRaw : Nat) (c : Cfg)
    (hacc : newBloomFilter nameLen rc bitsRaw hashRaw = .ok c)
    (s : St) (keys : List (Nat × Nat)) (key : Nat × Nat) (hist : List Op) (hmem : key ∈ keys)
    (hkeep : ∀ op ∈ hist, op.keeps = true) :
    existsMulti c [key] (run c (addMulti c keys s) hist) = .ok [true] :=
  exists1_after_add c (accepted_cfg_usable nameLen rc bitsRaw hashRaw c hacc).2.2 s keys key hist hmem hkeep

/-- why the clamp matters: with `k = 0` (accepted before the repair, e.g. n = 100, rate 0.9)
an added item is reported absent -/
theorem k0_false_negative :
    existsMulti ⟨22, 0⟩ [(5, 7)] (addMulti ⟨22, 0⟩ [(5, 7)] St.init) = .ok [false] := by
  decide

/-- `count_monotone`: `Count` never decreases through a history without `Reset`/`Delete` -/
theorem count_monotone (c : Cfg) (ops : List Op) : ∀ (s : St),
    (∀ op ∈ ops, op.keeps = true) → count s ≤ count (run c s ops) := by
  induction ops with
  | nil => intro s _; exact Nat.le_refl _
  | cons op ops ih =>
    intro s hk
    simp only [run, List.foldl_cons]
    refine Nat.le_trans ?_ (ih (apply c s op) (fun o ho => hk o (by simp [ho])))
    have hop := hk op (by simp)
    cases op with
    | add keys =>
      simp only [apply, addMulti, count]
      split
      · exact Nat.le_refl _
      · exact addScript_counter _ _ _
    | exists_ _ => exact Nat.le_refl _
    | count => exact Nat.le_refl _
    | reset => simp [Op.keeps] at hop
    | delete => simp [Op.keeps] at hop

/-- non-vacuity of the history hypotheses -/
example : ∀ op ∈ [Op.add [(1, 2)], Op.exists_ [(3, 4)], Op.count], op.keeps = true := by decide

end Rv.C35
