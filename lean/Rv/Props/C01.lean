/-
C01 — auto-pipelined calls always receive their own replies, in order.

Property theorems about the model of /repo/pipe.go `_backgroundRead` + `handlePush`
(Rv/Model/Reader.lean; tied to the code by the `reader` / `reader-flow` trace-replay suites)
against the Redis answer discipline (Rv/Spec/ReaderSpec.lean, trusted), for ALL event
sequences: any number of batches, commands, channels per SUBSCRIBE, pushes, in any
interleaving of writes and arriving frames that the discipline allows.

`queue` of the model is a FIFO in wire order: that is C02's theorem (`Rv.C02.ring_refines_fifo`,
`Rv.C02.flow_refines_fifo`); the server answering in order is the trusted assumption `Disciplined`.
The refinement proof (invariant `Rel`, one lemma per command kind × frame kind) lives in
Rv/Lemmas/ReaderRefine.lean, the specification-side list lemmas in Rv/Lemmas/ReaderSpecL.lean.

Abandoned callers (`abandon_safe` of the design): the model has no notion of the caller — a
batch whose caller gave up on its context stays in the queue (pipe.go keeps draining its
result channel in a helper goroutine) and is matched like any other, so every theorem below
covers it: the deliveries for the abandoned batch are still made, exactly once, and the
batches written after it get their own answers.
-/
import Rv.Lemmas.ReaderRefine
namespace Rv.C01
open Rv.Reader Rv.Spec.Reader Rv.ReaderL

/-! ### The discipline is satisfiable, and it is needed -/

private def get (id : Nat) : Cmd := { id := id, noReply := false, isUnsub := false, nargs := 2 }
private def subAB : Cmd := { id := 10, noReply := true, isUnsub := false, nargs := 3 }   -- SUBSCRIBE a b
private def unsubA : Cmd := { id := 20, noReply := true, isUnsub := true, nargs := 2 }   -- UNSUBSCRIBE a

/-- two batches (a DoMulti of GET, SUBSCRIBE a b, GET and a single UNSUBSCRIBE a written while
    the first is being answered), data pushes and notifications interleaved -/
private def demo : List Ev :=
  [ .m (.push 100 .unsub),                       -- unsolicited, nothing pending
    .w [get 1, subAB, get 2],
    .m (.push 101 .data),
    .m (.reply 1 false false),                   -- GET 1
    .m (.push 102 .unsub),
    .m (.push 103 .sub),                         -- subscribe a
    .w [unsubA],
    .m (.push 104 .data),                        -- a message between the two confirmations
    .m (.push 105 .sub),                         -- subscribe b
    .m (.push 106 .data),
    .m (.reply 2 false false),                   -- GET 2, completes the batch
    .m (.push 107 .unsub),                       -- solicited notification of UNSUBSCRIBE a
    .m (.reply 3 true false),                    -- PONG
    .m (.push 108 .unsub) ]

example : Disciplined demo := by decide

example : run {} demo =
    [.skipped, .skipped, .deliver 1 (some 1) false, .skipped, .deliver 10 none false, .skipped, .skipped,
     .skipped, .deliver 2 (some 2) true, .skipped, .deliver 20 (some 3) true, .skipped] := by rfl

/-- a refused UNSUBSCRIBE (error reply, then the PONG of the appended PING) and a refused SUBSCRIBE -/
example : Disciplined
    [.w [unsubA], .w [subAB, get 1], .m (.reply 1 false false), .m (.push 2 .unsub), .m (.reply 3 true false),
     .m (.reply 4 false false), .m (.reply 5 false false)] := by decide

/-- why the discipline excludes an unsubscribe notification *inside* the confirmations of one
    SUBSCRIBE: it would be counted as a confirmation and the real one hits `panic(protocolbug)` -/
example : run {} [.w [subAB], .m (.push 1 .sub), .m (.push 2 .unsub), .m (.push 3 .sub)] =
    [.deliver 10 none true, .skipped, .panic "protocolbug"] := by rfl

example : ¬ Disciplined [.w [subAB], .m (.push 1 .sub), .m (.push 2 .unsub), .m (.push 3 .sub)] := by decide

/-- a reply nobody asked for: the automaton panics, the discipline rejects it -/
example : run {} [.m (.reply 1 false false)] = [.panic "protocolbug"] := by rfl
example : ¬ Disciplined [.m (.reply 1 false false)] := by decide

/-! ### The reader computes the specified matching -/

/-- **refinement**: for every disciplined event list the reader automaton produces, frame by
    frame, exactly the outputs of the FIFO specification (each significant frame goes to the
    oldest pending command; everything else is skipped) -/
theorem reader_refines_spec (es : List Ev) (h : Disciplined es) : run {} es = specRun {} es :=
  run_refines es {} {} rel_init h

/-- the protocol-bug / multiexecsub panics of `_backgroundRead` are unreachable -/
theorem reader_never_panics (es : List Ev) (h : Disciplined es) (w : String) : Out.panic w ∉ run {} es := by
  rw [reader_refines_spec es h]; exact specRun_no_panic es {} w

/-- **reader_matches**: for every disciplined event list
    * the automaton never panics and produces one output per arriving frame;
    * the written commands (wire order) split into an answered prefix `ds` and the commands
      whose block has not arrived yet (`specEnd`'s FIFO);
    * `Matched`: the k-th command of `ds` received the k-th delivery — exactly one — and that
      delivery was made on a frame that answers this command (`answers`), hands out that very
      frame (`payload`: the reply, or `none` = empty message for a SUBSCRIBE confirmation), and
      carries `done = true` exactly when the command is the last of its batch (`written` flags).
    No reply is lost, duplicated, reordered or handed to another command. -/
theorem reader_matches (es : List Ev) (h : Disciplined es) :
    (∀ w, Out.panic w ∉ run {} es) ∧
    (run {} es).length = (frames es).length ∧
    ∃ ds, written es = ds ++ (specEnd {} es).pend ∧ Matched ds (deliveries (frames es) (run {} es)) := by
  refine ⟨reader_never_panics es h, ?_, ?_⟩
  · rw [reader_refines_spec es h]; exact (spec_payload es {} h).1
  · rw [reader_refines_spec es h]
    obtain ⟨ds, h1, h2⟩ := spec_matched es {} h
    exact ⟨ds, by simpa using h1, h2⟩

/-- every output made on a frame is either `skipped` or a delivery of that very frame
    (never a stored, earlier or foreign one) -/
theorem reader_hands_own_frame (es : List Ev) (h : Disciplined es) :
    ((frames es).zip (run {} es)).all (fun p => okPayload p.1 p.2) = true := by
  rw [reader_refines_spec es h]; exact (spec_payload es {} h).2

/-- **conservation** (no loss, no duplication): the delivered (command, done) pairs followed
    by the still pending ones are exactly the written ones, in written order -/
theorem reader_conservation (es : List Ev) (h : Disciplined es) :
    delivered (run {} es) ++ (specEnd {} es).pend.map key = (written es).map key := by
  rw [reader_refines_spec es h]
  simpa using spec_conservation es {} h

/-- **order**: the deliveries are a prefix of the written commands, in written order -/
theorem reader_in_order (es : List Ev) (h : Disciplined es) :
    delivered (run {} es) <+: (written es).map key :=
  ⟨_, reader_conservation es h⟩

/-- **completeness**: once the block of every written command has arrived, every command has
    received its delivery: the deliveries are exactly the written commands -/
theorem reader_complete (es : List Ev) (h : Disciplined es) (hq : (specEnd {} es).pend = []) :
    delivered (run {} es) = (written es).map key := by
  have := reader_conservation es h
  rw [hq] at this; simpa using this

/-- the `done` flag (`ch <- resp`, the caller is released) is set exactly on the last command
    of a batch -/
theorem done_on_last (b : Batch) (hb : b ≠ []) :
    (mark b).map Prod.snd = List.replicate (b.length - 1) false ++ [true] := by
  induction b with
  | nil => exact absurd rfl hb
  | cons c l ih =>
    cases l with
    | nil => rfl
    | cons c' l' =>
      rw [mark_cons, List.map_cons, ih (by simp)]
      simp [List.replicate_succ]

/-! ### Writes may come earlier -/

/-- **write_commutes**: moving a write event before the frame that precedes it keeps a
    disciplined history disciplined and changes no output of the reader. (Repeating it moves a
    write arbitrarily far to the front: the only ordering the discipline demands between writes
    and frames is that a block does not start before the write of its batch.) -/
theorem write_commutes (pre es : List Ev) (i : In) (b : Batch)
    (h : Disciplined (pre ++ .m i :: .w b :: es)) :
    Disciplined (pre ++ .w b :: .m i :: es) ∧
    run {} (pre ++ .w b :: .m i :: es) = run {} (pre ++ .m i :: .w b :: es) := by
  obtain ⟨h1, h2⟩ := spec_write_earlier pre es i b {} h
  exact ⟨h1, by rw [reader_refines_spec _ h1, reader_refines_spec _ h, h2]⟩

/-! ### The acceptor agrees with the block grammar -/

/-- cross-check of the acceptor `onMsg` against the prose discipline written as a grammar
    (`Blocks`: noise*, block of the 1st command, noise*, block of the 2nd command, …): all
    batches written, then any frame stream of that shape, is disciplined and leaves nothing
    pending — -/
theorem blocks_disciplined (bs : List Batch) (fs : List In) (hw : ∀ b, b ∈ bs → wfBatch b = true)
    (h : Blocks bs.flatten fs) : Disciplined (bs.map .w ++ fs.map .m) :=
  (blocks_disc bs fs hw h).1

/-- — hence every written command gets its delivery, in order, the automaton never panics -/
theorem reader_answers_blocks (bs : List Batch) (fs : List In) (hw : ∀ b, b ∈ bs → wfBatch b = true)
    (h : Blocks bs.flatten fs) :
    delivered (run {} (bs.map .w ++ fs.map .m)) = (written (bs.map .w ++ fs.map .m)).map key ∧
    ∀ w, Out.panic w ∉ run {} (bs.map .w ++ fs.map .m) :=
  ⟨reader_complete _ (blocks_disciplined bs fs hw h) (blocks_disc bs fs hw h).2,
   reader_never_panics _ (blocks_disciplined bs fs hw h)⟩

/-! ### The packed waits/recvs counter (`pipe.wrCounter`, uint64: low 32 bits waits, high 32 bits recvs) -/

/-- `decrWaitsAndIncrRecvs`: `Add(decrLoIncrHi)` with `decrLoIncrHi = 2^32 − 1` decrements the
    low half and increments the high half (mod 2^32) iff the low half is ≥ 1 -/
theorem decrLoIncrHi_spec (c : Nat) :
    1 ≤ c % 2 ^ 32 ↔
      (((c + (2 ^ 32 - 1)) % 2 ^ 64) % 2 ^ 32 + 1 = c % 2 ^ 32 ∧
       ((c + (2 ^ 32 - 1)) % 2 ^ 64) / 2 ^ 32 = (c / 2 ^ 32 + 1) % 2 ^ 32) := by
  omega

/-- `decrWaits`: `Add(decrLo)` with `decrLo = 2^64 − 1` decrements the low half and leaves the
    high half intact iff the low half is ≥ 1 -/
theorem decrLo_spec (c : Nat) (hc : c < 2 ^ 64) :
    1 ≤ c % 2 ^ 32 ↔
      (((c + (2 ^ 64 - 1)) % 2 ^ 64) % 2 ^ 32 + 1 = c % 2 ^ 32 ∧
       ((c + (2 ^ 64 - 1)) % 2 ^ 64) / 2 ^ 32 = c / 2 ^ 32) := by
  omega

/-- `incrWaits`: `Add(1)` increments the low half without touching the high half iff the low
    half is < 2^32 − 1 -/
theorem incrLo_spec (c : Nat) (hc : c < 2 ^ 64) :
    c % 2 ^ 32 < 2 ^ 32 - 1 ↔
      (((c + 1) % 2 ^ 64) % 2 ^ 32 = c % 2 ^ 32 + 1 ∧
       ((c + 1) % 2 ^ 64) / 2 ^ 32 = c / 2 ^ 32) := by
  omega

/-- the value returned by `decrWaitsAndIncrRecvs` / `decrWaits` / `incrWaits` (`uint32(new)`) is
    the new low half, and `loadWaits` / `loadRecvs` read the two halves: a `uint64` is its halves -/
theorem halves (c : Nat) (hc : c < 2 ^ 64) :
    c = (c / 2 ^ 32) * 2 ^ 32 + c % 2 ^ 32 ∧ c / 2 ^ 32 < 2 ^ 32 ∧ c % 2 ^ 32 < 2 ^ 32 := by
  omega

end Rv.C01
