/-
C21 — commands reach replicas only when the caller opts in.
Theorems over the model Rv.ReplicaRoute of the routing decisions in /repo/standalone.go,
/repo/sentinel.go and /repo/cluster.go, for every command (abstracted to the value the
caller's SendToReplicas function returns for it — an arbitrary Boolean per command), every
selector result (any integer), every number of replicas and every option combination.
-/
import Rv.Model.ReplicaRoute
namespace Rv.C21
open Rv.ReplicaRoute

set_option linter.unusedVariables false

/-- the nodes a target may denote include a replica of a shard with `nrep` replicas -/
def reachesReplica (t : Target) (nrep : Nat) : Bool :=
  match t with
  | .replica _ => true
  | .someReplica => true
  | .anyNode => decide (nrep ≥ 1)     -- the map iteration covers replicas whenever there are any
  | _ => false

/-- the target is a definite member of the topology (no panic, no missing connection) -/
def wellTargeted (t : Target) (nrep : Nat) : Bool :=
  match t with
  | .primary => true
  | .replica i => decide (i < nrep)
  | .someReplica => decide (nrep ≥ 1)
  | _ => false

/-! ### helper lemmas -/

private theorem allOpted_iff (l : List Bool) : allOpted l = true ↔ ∀ o ∈ l, o = true := by
  induction l with
  | nil => simp [allOpted]
  | cons a r ih => simp [allOpted, ih]

/-! ### standalone -/

/-- Do / DoStream / Receive of the standalone client: a replica is used only if a
    SendToReplicas function is configured and returned true for this command. -/
theorem standalone_replica_only_if_opted (s : Standalone) (opted : Bool) (sel : Int)
    (h : reachesReplica (s.one opted sel) s.nrep = true) : s.hasPred = true ∧ opted = true := by
  unfold Standalone.one at h
  cases hp : s.hasPred <;> cases ho : opted <;> simp_all [reachesReplica]

/-- …and everything else goes to the primary. -/
theorem standalone_else_primary (s : Standalone) (opted : Bool) (sel : Int)
    (h : ¬ (s.hasPred = true ∧ opted = true)) : s.one opted sel = .primary := by
  unfold Standalone.one
  cases hp : s.hasPred <;> cases ho : opted <;> simp_all

/-- DoMulti / DoMultiStream of the standalone client: the batch goes to a replica only if
    SendToReplicas returned true for EVERY command of the (non-empty) batch. -/
theorem standalone_batch_needs_all (s : Standalone) (opted : List Bool) (sel : Int)
    (h : reachesReplica (s.multi opted sel) s.nrep = true) :
    s.hasPred = true ∧ opted ≠ [] ∧ ∀ o ∈ opted, o = true := by
  unfold Standalone.multi at h
  by_cases hc : ((s.hasPred && allOpted opted) && decide (opted.length > 0)) = true
  · simp only [Bool.and_eq_true, decide_eq_true_eq] at hc
    refine ⟨hc.1.1, ?_, (allOpted_iff opted).1 hc.1.2⟩
    intro he; simp [he] at hc
  · simp [hc, reachesReplica] at h

/-- one command of the batch for which SendToReplicas returned false sends the whole batch to the primary -/
theorem standalone_batch_one_unopted (s : Standalone) (opted : List Bool) (sel : Int)
    (h : false ∈ opted) : s.multi opted sel = .primary := by
  unfold Standalone.multi
  have : allOpted opted = false := by
    cases hb : allOpted opted
    · rfl
    · have := (allOpted_iff opted).1 hb false h; simp at this
  simp [this]

/-- DoCache / DoMultiCache of the standalone client never use a replica. -/
theorem standalone_cache_primary (s : Standalone) : s.cache = .primary := rfl

/-- standalone.pick: a ReadNodeSelector result outside `s.nodes` falls back to the primary
    (in particular always when EnableReplicaAZInfo is off: `s.nodes` is then empty). -/
theorem standalone_selector_out_of_range_falls_back (s : Standalone) (sel : Int) (hs : s.hasSel = true)
    (h : sel < 0 ∨ sel ≥ (s.nNodes : Int)) : s.pick sel = .primary := by
  unfold Standalone.pick
  simp [hs, h]

/-- an in-range result `k` ≥ 1 selects exactly replica `k-1`, which exists -/
theorem standalone_selector_in_range (s : Standalone) (sel : Int) (hs : s.hasSel = true)
    (h0 : 0 < sel) (h1 : sel < (s.nNodes : Int)) :
    s.pick sel = .replica (sel.toNat - 1) ∧ sel.toNat - 1 < s.nrep := by
  have hn : s.nNodes ≤ s.nrep + 1 := by unfold Standalone.nNodes; split <;> omega
  unfold Standalone.pick
  have h2 : ¬ (sel < 0 ∨ sel ≥ (s.nNodes : Int)) := by omega
  have h3 : ¬ sel = 0 := by omega
  simp only [hs, if_true, h2, if_false, h3]
  exact ⟨trivial, by omega⟩

/-- with a selector the standalone pick never panics and always names an existing node -/
theorem standalone_pick_well_targeted (s : Standalone) (sel : Int)
    (h : s.hasSel = true ∨ s.nrep ≥ 1) : wellTargeted (s.pick sel) s.nrep = true := by
  have hn : s.nNodes ≤ s.nrep + 1 := by unfold Standalone.nNodes; split <;> omega
  unfold Standalone.pick
  by_cases hs : s.hasSel = true
  · simp only [hs, if_true]
    by_cases h2 : (sel < 0 ∨ sel ≥ (s.nNodes : Int))
    · simp [h2, wellTargeted]
    · simp only [h2, if_false]
      by_cases h3 : sel = 0
      · simp [h3, wellTargeted]
      · simp only [h3, if_false, wellTargeted, decide_eq_true_eq]; omega
  · have hr : s.nrep ≥ 1 := by cases h with | inl h => exact absurd h hs | inr h => exact h
    simp only [hs, Bool.false_eq_true, if_false]
    by_cases h1 : s.nrep = 1
    · simp [h1, wellTargeted]
    · have h0 : ¬ s.nrep = 0 := by omega
      simp only [h1, if_false, h0, wellTargeted, decide_eq_true_eq]; omega

/-- SendToReplicas without any replica and without a selector (reachable through
    Standalone.EnableRedirect): `rand.IntN(0)` panics on the first opted command. -/
theorem standalone_no_replica_panics :
    (Standalone.one ⟨true, 0, false, false⟩ true 0) = .panic := by decide

/-! ### sentinel -/

/-- pick (Do, DoCache, DoStream, Receive): the replica connection is used exactly when the
    client is ReplicaOnly or SendToReplicas is configured and returned true; otherwise the master. -/
theorem sentinel_replica_iff_opted (c : Sentinel) (opted : Bool) :
    (reachesReplica (c.pick opted) 1 = true ↔ (c.replicaOnly = true ∨ (c.hasPred = true ∧ opted = true))) ∧
    (¬ (c.replicaOnly = true ∨ (c.hasPred = true ∧ opted = true)) → c.pick opted = .primary) := by
  unfold Sentinel.pick
  cases c.replicaOnly <;> cases c.hasPred <;> cases opted <;> simp [reachesReplica]

/-- pickMulti∘sendAllToReplica (DoMulti, DoMultiCache, DoMultiStream): the batch goes to the replica
    connection exactly when ReplicaOnly, or SendToReplicas returned true for EVERY command. -/
theorem sentinel_batch_needs_all (c : Sentinel) (opted : List Bool) :
    (reachesReplica (c.multi opted) 1 = true ↔
      (c.replicaOnly = true ∨ (c.hasPred = true ∧ ∀ o ∈ opted, o = true))) ∧
    (¬ (c.replicaOnly = true ∨ (c.hasPred = true ∧ ∀ o ∈ opted, o = true)) → c.multi opted = .primary) := by
  unfold Sentinel.multi Sentinel.sendAll
  have := allOpted_iff opted
  cases hr : c.replicaOnly <;> cases hp : c.hasPred <;> cases ha : allOpted opted <;>
    simp_all [reachesReplica]

theorem batch_needs_all_aux (c : Sentinel) (opted : List Bool) (hr : c.replicaOnly = false)
    (h : false ∈ opted) : c.multi opted = .primary := by
  apply (sentinel_batch_needs_all c opted).2
  rintro (h1 | ⟨_, h2⟩)
  · simp [hr] at h1
  · have := h2 false h; simp at this

/-! ### ConnLifetime recovery -/

/-- **recovery_keeps_connection_class.** Every connection call of a batch — the first one and every
    re-send of the rest after errConnExpired — goes to the connection picked for the whole batch. -/
theorem recovery_keeps_connection_class (n : Nat) (t : Target) (exp : List Nat) (start : Nat) :
    ∀ call ∈ recoverCalls n t exp start, call.2 = t := by
  induction exp generalizing start with
  | nil => intro call h; simp [recoverCalls] at h; simp [h]
  | cons p rest ih =>
    intro call h
    unfold recoverCalls at h
    split at h
    · simp only [List.mem_cons] at h
      rcases h with h | h
      · simp [h]
      · exact ih p call h
    · simp at h; simp [h]

/-- hence a sentinel batch that is not opted in as a whole (and no ReplicaOnly) reaches only the primary,
    however often its tail is re-sent because the connection expired — the SendToReplicas predicate is
    never re-evaluated on a suffix -/
theorem sentinel_recovery_needs_all (c : Sentinel) (opted : List Bool) (exp : List Nat)
    (hr : c.replicaOnly = false) (h : false ∈ opted) :
    ∀ call ∈ c.multiCalls opted exp, call.2 = .primary := by
  intro call hc
  have := recovery_keeps_connection_class _ _ _ _ call hc
  rw [this]
  exact (batch_needs_all_aux c opted hr h)

/-- the same for the standalone client -/
theorem standalone_recovery_needs_all (s : Standalone) (cache : Bool) (opted : List Bool) (sel : Int)
    (exp : List Nat) (h : false ∈ opted ∨ cache = true) :
    ∀ call ∈ s.multiCalls cache opted sel exp, call.2 = .primary := by
  intro call hc
  have := recovery_keeps_connection_class _ _ _ _ call hc
  rw [this]
  cases cache with
  | true => rfl
  | false =>
    rcases h with h | h
    · simp only [Bool.false_eq_true, if_false]; exact standalone_batch_one_unopted s opted sel h
    · simp at h

/-! ### cluster -/

/-- newClusterClient rejects ReplicaOnly together with SendToReplicas / ReadNodeSelector -/
def Cluster.valid (c : Cluster) : Prop :=
  ¬ (c.replicaOnly = true ∧ c.hasPred = true) ∧ ¬ (c.replicaOnly = true ∧ c.hasRns = true)

/-- the write table holds the shard's primary unless the client is ReplicaOnly -/
theorem cluster_wslot_primary (c : Cluster) (g : Shard) (h : c.replicaOnly = false) :
    c.wslot g = .primary := by simp [Cluster.wslot, h]

/-- ReplicaOnly clusters put a replica into the write table when the shard has one, else the primary -/
theorem cluster_wslot_replica_only (c : Cluster) (g : Shard) (h : c.replicaOnly = true) :
    c.wslot g = if g.nrep ≥ 1 then .someReplica else .primary := by
  simp [Cluster.wslot, h]

/-- ReplicaSelector (consulted once per slot by `_refresh`): a result outside the replica list stores
    the shard's primary in the read table. -/
theorem cluster_replica_selector_out_of_range_falls_back (c : Cluster) (g : Shard) (r : Int)
    (hv : c.replicaOnly = false) (hp : c.hasPred = true) (hn : c.hasRns = false)
    (h : r < 0 ∨ r ≥ (g.nrep : Int)) : c.rslot g (some r) = .single .primary := by
  unfold Cluster.rslot
  simp only [hv, hp, hn, Bool.false_eq_true, if_false, Bool.not_true]
  split
  · have : ¬ (0 ≤ r ∧ r < (g.nrep : Int)) := by omega
    simp [this]
  · rfl

/-- an in-range ReplicaSelector result stores exactly that replica -/
theorem cluster_replica_selector_in_range (c : Cluster) (g : Shard) (r : Int)
    (hv : c.replicaOnly = false) (hp : c.hasPred = true) (hn : c.hasRns = false)
    (h : 0 ≤ r ∧ r < (g.nrep : Int)) : c.rslot g (some r) = .single (.replica r.toNat) := by
  unfold Cluster.rslot
  have h1 : g.nrep ≥ 1 := by omega
  simp [hv, hp, hn, h1, h]

/-- ReadNodeSelector (consulted per command by `_pick`, `_pickMulti`, `_pickMultiCache`):
    a result outside the shard's node list falls back to the primary. -/
theorem cluster_read_selector_out_of_range_falls_back (c : Cluster) (g : Shard) (rsel : Option Int) (rns : Int)
    (hv : c.replicaOnly = false) (hp : c.hasPred = true) (hn : c.hasRns = true)
    (h : rns < 0 ∨ rns ≥ (g.nrep : Int) + 1) : c.readPick g rsel rns = .primary := by
  unfold Cluster.readPick Cluster.rslot pickR
  by_cases h1 : g.nrep ≥ 1 <;> simp [hv, hp, hn, h1, h]

/-- which table a keyed command consults in `_pick` (Do, DoCache, DoStream, Receive): the read table
    iff SendToReplicas is configured and returned true (and the read table exists), else the write table -/
theorem cluster_pick_table (c : Cluster) (g : Shard) (opted : Bool) (rsel : Option Int) (rns : Int) :
    c.pick g false opted rsel rns =
      if c.hasPred = true ∧ opted = true ∧ c.replicaOnly = false then c.readPick g rsel rns else c.wslot g := by
  unfold Cluster.pick Cluster.hasRslots
  cases c.hasPred <;> cases opted <;> cases c.replicaOnly <;> simp

/-- `_pickMulti`: per member, read table iff opted — unless the batch contains a keyless command
    (then every member uses the write table) -/
theorem cluster_multi_table (c : Cluster) (g : Shard) (init opted : Bool) (rsel : Option Int) (rns : Int) :
    c.multiOne g init opted rsel rns =
      if init = false ∧ c.hasPred = true ∧ opted = true ∧ c.replicaOnly = false
      then c.readPick g rsel rns else c.wslot g := by
  unfold Cluster.multiOne Cluster.hasRslots
  cases init <;> cases c.hasPred <;> cases opted <;> cases c.replicaOnly <;> simp

/-- `_pickMultiCache`: per member, read table iff opted -/
theorem cluster_multicache_table (c : Cluster) (g : Shard) (opted : Bool) (rsel : Option Int) (rns : Int) :
    c.multiCacheOne g opted rsel rns =
      if c.hasPred = true ∧ opted = true ∧ c.replicaOnly = false then c.readPick g rsel rns else c.wslot g := by
  unfold Cluster.multiCacheOne Cluster.hasRslots
  cases c.hasPred <;> cases opted <;> cases c.replicaOnly <;> simp

private theorem wslot_reaches (c : Cluster) (g : Shard) (h : reachesReplica (c.wslot g) g.nrep = true) :
    c.replicaOnly = true := by
  unfold Cluster.wslot at h
  cases hr : c.replicaOnly
  · simp [hr, reachesReplica] at h
  · rfl

/-- the full-strength statement for one cluster entry point -/
def ClusterOnlyIfOpted (route : Cluster → Shard → Bool → Bool → Option Int → Int → Target) : Prop :=
  ∀ (c : Cluster) (g : Shard) (keyless opted : Bool) (rsel : Option Int) (rns : Int),
    Cluster.valid c → reachesReplica (route c g keyless opted rsel rns) g.nrep = true →
      c.replicaOnly = true ∨ (c.hasPred = true ∧ opted = true)

/-- Cluster `_pick` (Do, DoCache, DoStream, Receive), **keyed commands only**: a replica is reached only
    if the client is ReplicaOnly or SendToReplicas returned true for the command.

    MISSING: keyless commands (`cmds.InitSlot`: PING, DBSIZE, FLUSHALL, SCRIPT LOAD, PUBLISH …) — see
    `cluster_keyless_reaches_replica_unopted`: the statement is false for them. -/
theorem cluster_replica_only_if_opted_partial (c : Cluster) (g : Shard) (opted : Bool) (rsel : Option Int)
    (rns : Int) (h : reachesReplica (c.pick g false opted rsel rns) g.nrep = true) :
    c.replicaOnly = true ∨ (c.hasPred = true ∧ opted = true) := by
  rw [cluster_pick_table] at h
  by_cases hc : c.hasPred = true ∧ opted = true ∧ c.replicaOnly = false
  · exact Or.inr ⟨hc.1, hc.2.1⟩
  · simp only [hc, if_false] at h
    exact Or.inl (wslot_reaches c g h)

/-- The property is FALSE for cluster `Do` on the unchanged code: a keyless command on a client with no
    SendToReplicas and no ReplicaOnly is handed to the first connection of a map iteration over all
    known nodes, replicas included (witness: one shard with one replica, `PING`). -/
theorem cluster_keyless_reaches_replica_unopted :
    ¬ ClusterOnlyIfOpted (fun c g keyless opted rsel rns => c.pick g keyless opted rsel rns) := by
  intro h
  have := h ⟨false, false, false⟩ ⟨1⟩ true false none 0 (by simp [Cluster.valid])
    (by simp [Cluster.pick, reachesReplica])
  simp at this

/-- `_pickMulti` (DoMulti): every member — keyless ones included — reaches a replica only if the
    client is ReplicaOnly or SendToReplicas returned true for that member. Full strength. -/
theorem cluster_multi_replica_only_if_opted :
    ClusterOnlyIfOpted (fun c g init opted rsel rns => c.multiOne g init opted rsel rns) := by
  intro c g init opted rsel rns _ h
  simp only [cluster_multi_table] at h
  by_cases hc : init = false ∧ c.hasPred = true ∧ opted = true ∧ c.replicaOnly = false
  · exact Or.inr ⟨hc.2.1, hc.2.2.1⟩
  · simp only [hc, if_false] at h
    exact Or.inl (wslot_reaches c g h)

/-- `_pickMultiCache` (DoMultiCache): same, per member. Full strength (cacheable commands have a key). -/
theorem cluster_multicache_replica_only_if_opted :
    ClusterOnlyIfOpted (fun c g _ opted rsel rns => c.multiCacheOne g opted rsel rns) := by
  intro c g _ opted rsel rns _ h
  simp only [cluster_multicache_table] at h
  by_cases hc : c.hasPred = true ∧ opted = true ∧ c.replicaOnly = false
  · exact Or.inr ⟨hc.1, hc.2.1⟩
  · simp only [hc, if_false] at h
    exact Or.inl (wslot_reaches c g h)

/-- cluster DoMultiStream with at least one keyed command: a replica only if ReplicaOnly or ALL opted -/
theorem cluster_multistream_needs_all (c : Cluster) (g : Shard) (opted : List Bool) (rsel : Option Int)
    (rns : Int) (h : reachesReplica (c.multiStream g false opted rsel rns) g.nrep = true) :
    c.replicaOnly = true ∨ (c.hasPred = true ∧ ∀ o ∈ opted, o = true) := by
  unfold Cluster.multiStream at h
  rcases cluster_replica_only_if_opted_partial c g _ rsel rns h with h1 | ⟨h1, h2⟩
  · exact Or.inl h1
  · exact Or.inr ⟨h1, (allOpted_iff opted).1 h2⟩

/-- keyed cluster routing never panics and never leaves the shard: it names an existing node -/
theorem cluster_pick_well_targeted (c : Cluster) (g : Shard) (opted : Bool) (rsel : Option Int) (rns : Int)
    (hv : Cluster.valid c) : wellTargeted (c.pick g false opted rsel rns) g.nrep = true := by
  rw [cluster_pick_table]
  obtain ⟨hv1, hv2⟩ := hv
  by_cases hc : c.hasPred = true ∧ opted = true ∧ c.replicaOnly = false
  · simp only [hc, and_self, if_true]
    obtain ⟨hp, _, hr⟩ := hc
    unfold Cluster.readPick Cluster.rslot pickR
    simp only [hr, hp, Bool.false_eq_true, if_false, Bool.not_true]
    by_cases h1 : g.nrep ≥ 1
    · simp only [h1, if_true]
      cases hn : c.hasRns
      · cases rsel with
        | none => simp [wellTargeted, h1]
        | some r =>
          by_cases h2 : (0 ≤ r ∧ r < (g.nrep : Int))
          · simp only [Bool.false_eq_true, if_false, h2, and_self, if_true, wellTargeted, decide_eq_true_eq]; omega
          · simp [h2, wellTargeted]
      · simp only [if_true]
        by_cases h2 : (rns < 0 ∨ rns ≥ (g.nrep : Int) + 1)
        · simp [h2, wellTargeted]
        · simp only [h2, if_false]
          by_cases h3 : rns = 0
          · simp [h3, wellTargeted]
          · simp only [h3, if_false, wellTargeted, decide_eq_true_eq]; omega
    · simp [h1, wellTargeted]
  · simp only [hc, if_false]
    unfold Cluster.wslot
    by_cases h1 : (c.replicaOnly && decide (g.nrep ≥ 1)) = true
    · simp only [h1, if_true, wellTargeted, decide_eq_true_eq]
      simp only [Bool.and_eq_true, decide_eq_true_eq] at h1; exact h1.2
    · simp [h1, wellTargeted]

/-! ### the property, all modes -/

/-- **C21, first clause.** In every mode and at every entry point a command can reach a replica only if
    the caller opted in for it (SendToReplicas true; for standalone/sentinel batches and cluster
    DoMultiStream: for every command of the batch) or the client is ReplicaOnly.

    MISSING: cluster Do/DoStream/DoMultiStream/Receive of **keyless** commands —
    `cluster_keyless_reaches_replica_unopted` proves the statement false there. -/
theorem replica_only_if_opted_partial :
    (∀ (s : Standalone) (o : Bool) (sel : Int), reachesReplica (s.one o sel) s.nrep = true →
        s.hasPred = true ∧ o = true) ∧
    (∀ (s : Standalone) (os : List Bool) (sel : Int), reachesReplica (s.multi os sel) s.nrep = true →
        s.hasPred = true ∧ os ≠ [] ∧ ∀ o ∈ os, o = true) ∧
    (∀ (s : Standalone), reachesReplica s.cache s.nrep = false) ∧
    (∀ (c : Sentinel) (o : Bool), reachesReplica (c.pick o) 1 = true →
        c.replicaOnly = true ∨ (c.hasPred = true ∧ o = true)) ∧
    (∀ (c : Sentinel) (os : List Bool), reachesReplica (c.multi os) 1 = true →
        c.replicaOnly = true ∨ (c.hasPred = true ∧ ∀ o ∈ os, o = true)) ∧
    (∀ (c : Cluster) (g : Shard) (o : Bool) (rsel : Option Int) (rns : Int),
        reachesReplica (c.pick g false o rsel rns) g.nrep = true →
        c.replicaOnly = true ∨ (c.hasPred = true ∧ o = true)) ∧
    ClusterOnlyIfOpted (fun c g init o rsel rns => c.multiOne g init o rsel rns) ∧
    ClusterOnlyIfOpted (fun c g _ o rsel rns => c.multiCacheOne g o rsel rns) :=
  ⟨standalone_replica_only_if_opted, standalone_batch_needs_all, fun _ => rfl,
   fun c o h => ((sentinel_replica_iff_opted c o).1).1 h,
   fun c os h => ((sentinel_batch_needs_all c os).1).1 h,
   cluster_replica_only_if_opted_partial, cluster_multi_replica_only_if_opted,
   cluster_multicache_replica_only_if_opted⟩

/-- **C21, batches (non-cluster).** One command without opt-in keeps the whole batch on the primary. -/
theorem batch_needs_all (os : List Bool) (h : false ∈ os) :
    (∀ (s : Standalone) (sel : Int), s.multi os sel = .primary) ∧
    (∀ (c : Sentinel), c.replicaOnly = false → c.multi os = .primary) := by
  refine ⟨fun s sel => standalone_batch_one_unopted s os sel h, fun c hr => ?_⟩
  apply (sentinel_batch_needs_all c os).2
  rintro (h1 | ⟨_, h2⟩)
  · simp [hr] at h1
  · have := h2 false h; simp at this

/-- **C21, last clause.** A node-selector result outside the candidate list falls back to the primary:
    standalone ReadNodeSelector, cluster ReplicaSelector (table build) and cluster ReadNodeSelector (pick). -/
theorem selector_out_of_range_falls_back :
    (∀ (s : Standalone) (sel : Int), s.hasSel = true → (sel < 0 ∨ sel ≥ (s.nNodes : Int)) →
        s.pick sel = .primary) ∧
    (∀ (c : Cluster) (g : Shard) (r : Int), c.replicaOnly = false → c.hasPred = true → c.hasRns = false →
        (r < 0 ∨ r ≥ (g.nrep : Int)) → c.rslot g (some r) = .single .primary) ∧
    (∀ (c : Cluster) (g : Shard) (rsel : Option Int) (rns : Int), c.replicaOnly = false →
        c.hasPred = true → c.hasRns = true → (rns < 0 ∨ rns ≥ (g.nrep : Int) + 1) →
        c.readPick g rsel rns = .primary) :=
  ⟨standalone_selector_out_of_range_falls_back, cluster_replica_selector_out_of_range_falls_back,
   cluster_read_selector_out_of_range_falls_back⟩

/-! ### non-vacuity -/

example : reachesReplica (Standalone.one ⟨true, 2, true, true⟩ true 2) 2 = true := by decide
example : Standalone.one ⟨true, 2, true, true⟩ true 2 = .replica 1 := by decide
example : Standalone.one ⟨true, 2, true, true⟩ true 3 = .primary := by decide
example : Standalone.one ⟨true, 2, true, false⟩ true 1 = .primary := by decide   -- s.nodes empty
example : Standalone.multi ⟨true, 1, false, false⟩ [true, true] 0 = .replica 0 := by decide
example : Standalone.multi ⟨true, 1, false, false⟩ [true, false] 0 = .primary := by decide
example : Cluster.pick ⟨false, true, false⟩ ⟨2⟩ false true (some 1) 0 = .replica 1 := by decide
example : Cluster.pick ⟨false, true, false⟩ ⟨2⟩ false true (some 2) 0 = .primary := by decide
example : Cluster.pick ⟨false, true, true⟩ ⟨2⟩ false true none 2 = .replica 1 := by decide
example : Cluster.pick ⟨false, true, true⟩ ⟨2⟩ false true none (-1) = .primary := by decide
example : Cluster.pick ⟨true, false, false⟩ ⟨2⟩ false false none 0 = .someReplica := by decide
example : Cluster.valid ⟨false, true, true⟩ := by simp [Cluster.valid]

end Rv.C21
