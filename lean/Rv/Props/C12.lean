/-
C12 — RESP decoding reproduces every well-formed reply.
Property theorems (helper lemmas live in Rv/Lemmas/Resp*.lean).
-/
import Rv.Lemmas.RespRound2
namespace Rv.C12
open Rv Rv.Resp Rv.Spec Rv.RespL

/-! fuel: the generous fuel `decode` uses always suffices for a well-formed frame -/

private theorem bytes_pos : ∀ w : Wire, need w + 1 ≤ (bytes w).length := by
  intro w
  refine Wire.rec (motive_1 := fun w => need w + 1 ≤ (bytes w).length)
    (motive_2 := fun xs => needL xs ≤ (bytesL xs).length ∧ needE xs ≤ (bytesL xs).length + 2)
    ?_ ?_ ?_ ?_ ?_ ?_ ?_ ?_ ?_ ?_ ?_ ?_ ?_ ?_ w
  · intro t s; simp [need, bytes, crlf]; omega
  · intro t cs; simp [need, bytes, crlf]
  · intro t; simp [need, bytes]
  · intro t s; simp [need, bytes, crlf]
  · intro v; simp [need, bytes, crlf]
  · simp [need, bytes]
  · intro b; simp [need, bytes]
  · intro t xs ih; simp [need, bytes, crlf]; have := digits_ne_nil xs.length; have := List.length_pos_iff.mpr this; omega
  · intro t xs ih; simp [need, bytes, crlf]; have := digits_ne_nil (xs.length / 2); have := List.length_pos_iff.mpr this; omega
  · intro t xs ih; simp [need, bytes, crlf]; omega
  · intro t; simp [need, bytes]
  · intro a w iha ihw; simp [need, bytes]; omega
  · simp [needL, needE, bytesL]
  · intro x xs ihx ihxs; simp [needL, needE, bytesL]; omega

/-- **C12 main theorem.** For every well-formed wire form `w` (any depth and width, all
    RESP2/RESP3 types, attributes, streamed strings and aggregates, RESP2 nulls, arbitrary
    binary payloads) followed by any further bytes `rest`, the reader returns exactly the
    value `w` denotes and leaves `rest` unread. (`B` is the bufio size; ≥ 32 so that a
    64-bit number line fits — rueidis uses ≥ 4096.) -/
theorem decode_encode (B : Nat) (hb : 32 ≤ B) (w : Wire) (hwf : WF w = true) (rest : List UInt8) :
    decode B (bytes w ++ rest) = .ok (value w [], rest) := by
  unfold decode
  apply (wire_ok B hb w).1 hwf
  have := bytes_pos w
  simp only [List.length_append]; omega

/-- consecutive replies are framed independently: decoding the concatenation of two
    well-formed frames yields the first value and then the second -/
theorem frames_independent (B : Nat) (hb : 32 ≤ B) (w1 w2 : Wire) (h1 : WF w1 = true) (h2 : WF w2 = true)
    (rest : List UInt8) :
    decode B (bytes w1 ++ (bytes w2 ++ rest)) = .ok (value w1 [], bytes w2 ++ rest) ∧
    decode B (bytes w2 ++ rest) = .ok (value w2 [], rest) :=
  ⟨decode_encode B hb w1 h1 _, decode_encode B hb w2 h2 _⟩

/-- the encoding is prefix-free on well-formed frames: the decoder stops exactly at the
    frame's end, so no well-formed frame is a proper prefix of a differently valued one -/
theorem decode_stops_at_frame_end (B : Nat) (hb : 32 ≤ B) (w : Wire) (hwf : WF w = true) (rest : List UInt8) :
    ∃ m r, decode B (bytes w ++ rest) = .ok (m, r) ∧ r = rest ∧ m = value w [] :=
  ⟨_, _, decode_encode B hb w hwf rest, rfl, rfl⟩

/-- RESP2 nulls decode to the RESP3 null and attributes attach to the next reply -/
theorem old_null_is_null (B : Nat) (hb : 32 ≤ B) (rest : List UInt8) :
    decode B ([36, 45, 49, 13, 10] ++ rest) = .ok (Msg.null, rest) ∧
    decode B ([42, 45, 49, 13, 10] ++ rest) = .ok (Msg.null, rest) := by
  constructor
  · exact decode_encode B hb (.nullBlob 36) (by decide) rest
  · exact decode_encode B hb (.nullArr 42) (by decide) rest

/-! non-vacuity: concrete well-formed frames -/
example : WF (.attr (.map 124 [.line 43 [107], .int 1])
    (.arr 42 [.blob 36 [13, 10, 0, 255], .chunked 36 [[97], [98, 99]], .stream 37 [.line 43 [97], .bool true], .nullBlob 36])) = true := by
  decide
example : (decode 4096 (bytes (.arr 42 [.int (-5), .blob 36 [97, 13, 10]]) ++ [43])) =
    .ok (value (.arr 42 [.int (-5), .blob 36 [97, 13, 10]]) [], [43]) :=
  decode_encode 4096 (by decide) _ (by decide) _

end Rv.C12
