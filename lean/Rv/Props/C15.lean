import Rv.Model.AccessorsShape
namespace Rv.C15
open Rv Rv.Acc
theorem toStr_never_panics (m : Msg) : toStr m ≠ .panic := by
  unfold toStr; repeat' split
  all_goals simp
end Rv.C15
