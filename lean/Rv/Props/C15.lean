/-
C15 — typed reply accessors never panic and propagate errors.

Model: Rv/Model/Accessors.lean + AccessorsShape.lean (the repaired message.go /
helper.go, every index/slice an explicit `.panic` arm). The theorems quantify over
ALL `Msg` trees (a superset of what the decoder produces: any type byte, any
string, any intlen, any children incl. odd-length maps and empty aggregates, any
attributes), over all float/JSON oracles `fp`/`jp`, and over all error texts.
-/
import Rv.Lemmas.AccPanic
import Rv.Lemmas.AccClass
import Rv.Spec.Shapes
namespace Rv.C15
open Rv Rv.Acc Rv.Shapes

/-! ## 1. no accessor panics -/

/-- "no accessor of the RedisMessage method set panics on `m`" -/
structure NoPanic (fp : FP) (m : Msg) : Prop where
  toString : toStr m ≠ .panic
  asReader : asBytes m ≠ .panic
  asBytes : asBytes m ≠ .panic
  decodeJSON : decodeJSON m ≠ .panic
  asInt64 : asInt64 m ≠ .panic
  asUint64 : asUint64 m ≠ .panic
  asBool : asBool m ≠ .panic
  asFloat64 : asFloat64 fp m ≠ .panic
  toInt64 : toInt64 m ≠ .panic
  toBool : Acc.toBool m ≠ .panic
  toFloat64 : toFloat64 fp m ≠ .panic
  toArray : toArray m ≠ .panic
  asStrSlice : asStrSlice m ≠ .panic
  asIntSlice : asIntSlice m ≠ .panic
  asFloatSlice : asFloatSlice fp m ≠ .panic
  asBoolSlice : asBoolSlice m ≠ .panic
  asXRangeEntry : asXRangeEntry m ≠ .panic
  asXRange : asXRange m ≠ .panic
  asXRead : asXRead m ≠ .panic
  asXRangeSlice : asXRangeSlice m ≠ .panic
  asXRangeSlices : asXRangeSlices m ≠ .panic
  asXReadSlices : asXReadSlices m ≠ .panic
  asZScore : asZScore fp m ≠ .panic
  asZScores : asZScores fp m ≠ .panic
  asScanEntry : asScanEntry m ≠ .panic
  asMap : asMap m ≠ .panic
  asStrMap : asStrMap m ≠ .panic
  asIntMap : asIntMap m ≠ .panic
  asLMPop : asLMPop m ≠ .panic
  asZMPop : asZMPop fp m ≠ .panic
  asFtSearch : asFtSearch fp m ≠ .panic
  asFtAggregate : asFtAggregate m ≠ .panic
  asFtAggregateCursor : asFtAggregateCursor m ≠ .panic
  asGeosearch : asGeosearch fp m ≠ .panic
  toMap : toMap m ≠ .panic
  toAny : toAny fp m ≠ .panic
  error : errorRes m ≠ .panic

/-- Every RedisMessage accessor returns a value or an error on every reply tree. -/
theorem accessors_never_panic (fp : FP) (m : Msg) : NoPanic fp m where
  toString := toStr_np m
  asReader := asBytes_np m
  asBytes := asBytes_np m
  decodeJSON := decodeJSON_np m
  asInt64 := asInt64_np m
  asUint64 := asUint64_np m
  asBool := asBool_np m
  asFloat64 := asFloat64_np fp m
  toInt64 := toInt64_np m
  toBool := toBool_np m
  toFloat64 := toFloat64_np fp m
  toArray := toArray_np m
  asStrSlice := asStrSlice_np m
  asIntSlice := asIntSlice_np m
  asFloatSlice := asFloatSlice_np fp m
  asBoolSlice := asBoolSlice_np m
  asXRangeEntry := asXRangeEntry_np m
  asXRange := asXRange_np m
  asXRead := asXRead_np m
  asXRangeSlice := asXRangeSlice_np m
  asXRangeSlices := asXRangeSlices_np m
  asXReadSlices := asXReadSlices_np m
  asZScore := asZScore_np fp m
  asZScores := asZScores_np fp m
  asScanEntry := asScanEntry_np m
  asMap := asMap_np m
  asStrMap := asStrMap_np m
  asIntMap := asIntMap_np m
  asLMPop := asLMPop_np m
  asZMPop := asZMPop_np fp m
  asFtSearch := asFtSearch_np fp m
  asFtAggregate := asFtAggregate_np m
  asFtAggregateCursor := asFtAggregateCursor_np m
  asGeosearch := asGeosearch_np fp m
  toMap := toMap_np m
  toAny := toAny_np fp m
  error := by unfold errorRes; split <;> simp

/-- The RedisResult form of any accessor does not panic either, whatever the result error is. -/
theorem result_accessors_never_panic {α} (acc : Msg → Res α) (h : ∀ m, acc m ≠ .panic)
    (rerr : Option String) (m : Msg) : wrap acc rerr m ≠ .panic :=
  wrap_np acc rerr m (h m)

/-- DecodeSliceOfJSON (helper.go) never panics, for any JSON oracle and any result error. -/
theorem decodeSliceOfJSON_never_panics (jp : JP) (rerr : Option String) (m : Msg) :
    decodeSliceOfJSON jp rerr m ≠ .panic :=
  decodeSliceOfJSON_np jp rerr m

/-- the `.panic` arms are real: without the evenness guard the pair loop reads past the end … -/
example (k : Msg) : strPairs [k] = .panic := rfl
example (k : Msg) : toMapPairs [k] = .panic := rfl
example (fp : FP) (k : Msg) : toAnyPairs fp [k] = .panic := by simp [toAnyPairs]
/-- … and the code before the repair did panic on `[[]]` (AsGeosearch, `info[0]`). -/
theorem old_geosearch_panics (fp : FP) :
    geoElemOld fp (Msg.agg tArray []) = .panic := by
  simp [geoElemOld, isString, Msg.agg, Msg.typ, Msg.arr, idx, tArray, tBlob, tSimple]

/-! ## 2. a non-nil result error is propagated unchanged -/

/-- `RedisResult.X()` with `r.err != nil` returns exactly `r.err`. -/
theorem result_error_propagates {α} (acc : Msg → Res α) (e : String) (m : Msg) :
    wrap acc (some e) m = .err e := rfl

/-- `RedisResult.X()` with a nil error is `RedisMessage.X()`. -/
theorem result_delegates {α} (acc : Msg → Res α) (m : Msg) : wrap acc none m = acc m := rfl

theorem decodeSliceOfJSON_error_propagates (jp : JP) (e : String) (m : Msg) :
    decodeSliceOfJSON jp (some e) m = .err e := rfl

/-! ## 3. null and error replies -/

/-- all accessors answer the error `e` -/
structure AllErr (fp : FP) (m : Msg) (e : String) : Prop where
  toString : toStr m = .err e
  asBytes : asBytes m = .err e
  decodeJSON : decodeJSON m = .err e
  asInt64 : asInt64 m = .err e
  asUint64 : asUint64 m = .err e
  asBool : asBool m = .err e
  asFloat64 : asFloat64 fp m = .err e
  toInt64 : toInt64 m = .err e
  toBool : Acc.toBool m = .err e
  toFloat64 : toFloat64 fp m = .err e
  toArray : toArray m = .err e
  asStrSlice : asStrSlice m = .err e
  asIntSlice : asIntSlice m = .err e
  asFloatSlice : asFloatSlice fp m = .err e
  asBoolSlice : asBoolSlice m = .err e
  asXRangeEntry : asXRangeEntry m = .err e
  asXRange : asXRange m = .err e
  asXRead : asXRead m = .err e
  asXRangeSlice : asXRangeSlice m = .err e
  asXRangeSlices : asXRangeSlices m = .err e
  asXReadSlices : asXReadSlices m = .err e
  asZScore : asZScore fp m = .err e
  asZScores : asZScores fp m = .err e
  asScanEntry : asScanEntry m = .err e
  asMap : asMap m = .err e
  asStrMap : asStrMap m = .err e
  asIntMap : asIntMap m = .err e
  asLMPop : asLMPop m = .err e
  asZMPop : asZMPop fp m = .err e
  asFtSearch : asFtSearch fp m = .err e
  asFtAggregate : asFtAggregate m = .err e
  asFtAggregateCursor : asFtAggregateCursor m = .err e
  asGeosearch : asGeosearch fp m = .err e
  toMap : toMap m = .err e
  toAny : toAny fp m = .err e
  error : errorRes m = .err e

private theorem toAny_err (fp : FP) (m : Msg) (e : String) (he : errOf m = some e) : toAny fp m = .err e := by
  cases m with
  | mk t s i xs a =>
    simp only [errOf, Msg.typ, Msg.str] at he
    rw [toAny]
    by_cases h1 : t = tNull
    · simp_all
    · by_cases h2 : t = tErr ∨ t = tBlobErr
      · simp_all
      · simp [h1, h2] at he

private theorem allErr_of (fp : FP) (m : Msg) (e : String) (he : errOf m = some e)
    (hs : ¬ isString m) (hi : m.typ ≠ tInt) (hf : m.typ ≠ tFloat) (hb : m.typ ≠ tBool)
    (ha : ¬ isArray m) (hm : ¬ isMap m) (hh : ¬ hasArray m) : AllErr fp m e := by
  have hts : toStr m = .err e := by simp [toStr, hs, hi, hh, he]
  have hta : toArray m = .err e := by simp [toArray, ha, errOrParse, he]
  constructor
  · exact hts
  · exact hts
  · exact hts
  · simp [asInt64, hi, hts]
  · simp [asUint64, hi, hts]
  · simp [asBool, he]
  · simp [asFloat64, hf, hts]
  · simp [toInt64, hi, errOrParse, he]
  · simp [Acc.toBool, hb, errOrParse, he]
  · simp [toFloat64, hf, errOrParse, he]
  · exact hta
  · simp [asStrSlice, hta]
  · simp [asIntSlice, hta]
  · simp [asFloatSlice, hta]
  · simp [asBoolSlice, hta]
  · simp [asXRangeEntry, hta]
  · simp [asXRange, hta]
  · simp [asXRead, xreadWith, he]
  · simp [asXRangeSlice, hta]
  · simp [asXRangeSlices, hta]
  · simp [asXReadSlices, xreadWith, he]
  · simp [asZScore, hta]
  · simp [asZScores, hta]
  · simp [asScanEntry, hta]
  · simp [asMap, he]
  · simp [asStrMap, he]
  · simp [asIntMap, he]
  · simp [asLMPop, popWith, he]
  · simp [asZMPop, popWith, he]
  · simp [asFtSearch, he]
  · simp [asFtAggregate, he]
  · simp [asFtAggregateCursor, ha, asFtAggregate, he]
  · simp [asGeosearch, hta]
  · simp [toMap, hm, errOrParse, he]
  · exact toAny_err fp m e he
  · simp [errorRes, he]

/-- A null reply (`_`, or the RESP2 `$-1` / `*-1`) makes every accessor return the `Nil` error. -/
theorem nil_is_Nil (fp : FP) (m : Msg) (h : m.typ = tNull) (hleaf : m.arr = []) : AllErr fp m eNil := by
  apply allErr_of
  · simp [errOf, h]
  all_goals simp [isString, isArray, isMap, hasArray, isAggTyp, h, hleaf, tNull, tBlob, tSimple, tInt, tFloat, tBool,
      tArray, tMap, tSet, tPush, tAttr]

/-- A simple (`-`) or blob (`!`) error reply makes every accessor return a RedisError carrying the
    reply's text (minus a leading "ERR "). -/
theorem err_is_RedisError (fp : FP) (m : Msg) (h : m.typ = tErr ∨ m.typ = tBlobErr) (hleaf : m.arr = []) :
    AllErr fp m (eRedis (trimErr m.str)) := by
  apply allErr_of
  · rcases h with h | h <;> simp [errOf, h, tErr, tBlobErr, tNull]
  all_goals
    rcases h with h | h <;>
    simp [isString, isArray, isMap, hasArray, isAggTyp, h, hleaf, tErr, tBlobErr, tBlob, tSimple, tInt, tFloat, tBool,
      tArray, tMap, tSet, tPush, tAttr]

/-- non-vacuity of the two hypotheses -/
example : (Msg.null).typ = tNull ∧ (Msg.null).arr = [] := ⟨rfl, rfl⟩

/-! ## 4. wrong shape: which error class -/

/-- ToInt64 / ToBool / ToFloat64 / ToArray / ToMap on a non-error reply of another type: parse error. -/
theorem wrong_shape_is_parse_error_strict (fp : FP) (m : Msg) (hne : errOf m = none) :
    (m.typ ≠ tInt → toInt64 m = .err eParse) ∧
    (m.typ ≠ tBool → Acc.toBool m = .err eParse) ∧
    (m.typ ≠ tFloat → toFloat64 fp m = .err eParse) ∧
    (¬ isArray m → toArray m = .err eParse) ∧
    (¬ isMap m → toMap m = .err eParse) := by
  refine ⟨?_, ?_, ?_, ?_, ?_⟩ <;> intro h <;> simp [toInt64, Acc.toBool, toFloat64, toArray, toMap, errOrParse, hne, h]

/-- ToString (and AsReader / AsBytes / DecodeJSON, AsInt64 / AsUint64 / AsFloat64 through it):
    an integer or an aggregate is a parse error; every other non-error leaf type (double, boolean,
    verbatim string, big number) is handed out as its text. -/
theorem toString_classes (m : Msg) (hs : ¬ isString m) :
    ((m.typ = tInt ∨ hasArray m) → toStr m = .err eParse) ∧
    (m.typ ≠ tInt → ¬ hasArray m → errOf m = none → toStr m = .ok m.str) := by
  constructor
  · intro h; simp [toStr, hs, h]
  · intro h1 h2 h3; simp [toStr, hs, h1, h2, h3]

/-- every accessor that starts with ToArray gives a parse error on a non-error, non-array/set reply -/
theorem wrong_shape_is_parse_error_arrays (fp : FP) (m : Msg) (hne : errOf m = none) (h : ¬ isArray m) :
    asStrSlice m = .err eParse ∧ asIntSlice m = .err eParse ∧ asFloatSlice fp m = .err eParse ∧
    asBoolSlice m = .err eParse ∧ asXRangeEntry m = .err eParse ∧ asXRange m = .err eParse ∧
    asXRangeSlice m = .err eParse ∧ asXRangeSlices m = .err eParse ∧ asZScore fp m = .err eParse ∧
    asZScores fp m = .err eParse ∧ asScanEntry m = .err eParse ∧ asGeosearch fp m = .err eParse := by
  have hta : toArray m = .err eParse := by simp [toArray, errOrParse, hne, h]
  simp [asStrSlice, asIntSlice, asFloatSlice, asBoolSlice, asXRangeEntry, asXRange, asXRangeSlice, asXRangeSlices,
    asZScore, asZScores, asScanEntry, asGeosearch, hta]

/-- the map family: anything that is not a map / array / set of even length is a parse error
    (this includes odd-length streamed maps) -/
theorem wrong_shape_is_parse_error_maps (m : Msg) (hne : errOf m = none) (h : ¬ mapLike m) :
    asMap m = .err eParse ∧ asStrMap m = .err eParse ∧ asIntMap m = .err eParse := by
  simp [asMap, asStrMap, asIntMap, hne, h]

/-- odd-length (streamed, cut short) maps are a parse error in every accessor that walks pairs -/
theorem odd_map_is_parse_error (fp : FP) (m : Msg) (ht : m.typ = tMap) (hodd : m.arr.length % 2 ≠ 0) :
    toMap m = .err eParse ∧ asMap m = .err eParse ∧ asStrMap m = .err eParse ∧ asIntMap m = .err eParse ∧
    asXRead m = .err eParse ∧ asXReadSlices m = .err eParse ∧ toAny fp m = .err eParse ∧
    asFtSearch fp m = .err eParse ∧ asFtAggregate m = .err eParse := by
  have hne : errOf m = none := by simp [errOf, ht, tMap, tNull, tErr, tBlobErr]
  have hm : isMap m := ht
  have hml : ¬ mapLike m := by simp [mapLike, hodd]
  refine ⟨?_, ?_, ?_, ?_, ?_, ?_, ?_, ?_, ?_⟩
  · simp [toMap, hm, toMapV, hodd]
  · simp [asMap, hne, hml]
  · simp [asStrMap, hne, hml]
  · simp [asIntMap, hne, hml]
  · simp [asXRead, xreadWith, hne, hm, hodd]
  · simp [asXReadSlices, xreadWith, hne, hm, hodd]
  · cases m with
    | mk t s i xs a =>
      simp only [Msg.typ, Msg.arr] at ht hodd
      subst ht
      rw [toAny]; simp [tMap, tNull, tErr, tBlobErr, tFloat, tBlob, tSimple, tVerbatim, tBig, tBool, tInt, hodd]
  · simp [asFtSearch, hne, hm, hodd]
  · simp [asFtAggregate, hne, hm, hodd]

/-- the remaining helpers: too short / wrong type -/
theorem wrong_shape_is_parse_error_helpers (fp : FP) (m : Msg) (hne : errOf m = none) :
    (¬ isMap m → ¬ isArray m → asXRead m = .err eParse ∧ asXReadSlices m = .err eParse) ∧
    (m.arr.length < 2 → asLMPop m = .err eParse ∧ asZMPop fp m = .err eParse) ∧
    (isArray m → m.arr.length < 2 → asScanEntry m = .err eParse) ∧
    (¬ isMap m → m.arr = [] → asFtSearch fp m = .err eParse ∧ asFtAggregate m = .err eParse ∧
      asFtAggregateCursor m = .err eParse) := by
  refine ⟨?_, ?_, ?_, ?_⟩
  · intro h1 h2; simp [asXRead, asXReadSlices, xreadWith, hne, h1, h2]
  · intro h
    have : ¬ m.arr.length ≥ 2 := by omega
    simp [asLMPop, asZMPop, popWith, hne, this]
  · intro h1 h2
    have : ¬ m.arr.length ≥ 2 := by omega
    simp [asScanEntry, toArray, h1, this]
  · intro h1 h2
    have h3 : asFtAggregate m = .err eParse := by simp [asFtAggregate, hne, h1, h2]
    refine ⟨by simp [asFtSearch, hne, h1, h2], h3, ?_⟩
    simp [asFtAggregateCursor, h2, h3]

/-- AsGeosearch (repaired): a location that is neither a string nor a non-empty aggregate —
    `[[]]`, `[5]`, `[nil]` — is a parse error. -/
theorem geosearch_empty_location_is_parse_error (fp : FP) (m v : Msg) (rest : List Msg) (hm : isArray m)
    (harr : m.arr = v :: rest) (hv : ¬ isString v) (he : v.arr = []) : asGeosearch fp m = .err eParse := by
  simp [asGeosearch, toArray, hm, harr, mapR, geoElem, hv, he]

/-- AsFtSearch (repaired), RESP2 form: a reply that ends inside a document is a parse error,
    e.g. `[1, "a", "1", "b"]` (detected as WITHSCORES, the last key has no score). -/
theorem ftsearch_truncated_is_parse_error :
    ∀ fp : FP, fp.ok [97] = false → fp.ok [49] = true →
      asFtSearch fp (Msg.agg tArray [Msg.leafInt tInt 1, Msg.leafStr tSimple [97], Msg.leafStr tSimple [49],
        Msg.leafStr tSimple [98]]) = .err eParse := by
  intro fp h1 h2
  simp [asFtSearch, errOf, isMap, Msg.agg, Msg.leafInt, Msg.leafStr, Msg.typ, Msg.arr, Msg.str, tArray, tNull, tErr,
    tBlobErr, tMap, tInt, tSimple, idx, ftDetect, h1, h2, ftDocs2, ftDocsKS]

/-- Wrong *lengths* inside the stream / score helpers are reported with a plain error that does
    NOT wrap the parse error (`fmt.Errorf("got %d, wanted 2")`): the property's "parse error"
    clause does not hold literally for them. -/
theorem wrong_len_is_plain_error (fp : FP) (m : Msg) (hm : isArray m) (hl : m.arr.length ≠ 2) :
    asXRangeEntry m = .err (eGot m.arr.length "wanted") ∧
    asXRangeSlice m = .err (eGot m.arr.length "wanted") ∧
    asZScore fp m = .err eZScore := by
  simp [asXRangeEntry, asXRangeSlice, asZScore, toArray, hm, hl, toZScore]

/-! ## 5. RedisError classifiers, for all error texts -/

/-- IsMoved / IsAsk / IsRedirect never panic, whatever the error text is. -/
theorem classifiers_never_panic (s : Bytes) :
    isMoved s ≠ .panic ∧ isAsk s ≠ .panic ∧ isRedirect s ≠ .panic :=
  ⟨redirectAddr_np _ _ _, redirectAddr_np _ _ _, redirectAddr_np _ _ _⟩

theorem fixIPv6HostPort_never_panics (a : Bytes) : fixIPv6HostPort a ≠ .panic := fixIPv6HostPort_np a

/-- the code before the repair panicked on short texts (`strings.Split(s, " ")[2]`) -/
theorem old_classifiers_panic :
    redirectAddrOld sMOVED 2 sMOVED = .panic ∧
    redirectAddrOld sMOVED 2 (sMOVED ++ [32, 49]) = .panic ∧
    redirectAddrOld sASK 2 sASK = .panic ∧
    redirectAddrOld sREDIRECT 1 sREDIRECT = .panic := by
  refine ⟨?_, ?_, ?_, ?_⟩ <;> rfl

/-- the repaired code answers `("", false)` on exactly those texts -/
theorem short_redirects_are_false :
    isMoved sMOVED = .ok ([], false) ∧ isMoved (sMOVED ++ [32, 49]) = .ok ([], false) ∧
    isAsk sASK = .ok ([], false) ∧ isRedirect sREDIRECT = .ok ([], false) := by
  refine ⟨?_, ?_, ?_, ?_⟩ <;> rfl

/-- `ok = true` exactly when the text starts with the word and has a `k`-th space-separated field;
    the address is then that field, normalised. -/
theorem redirect_iff (pre : Bytes) (k : Nat) (s : Bytes) :
    (∃ a, redirectAddr pre k s = .ok (a, true)) ↔ (hasPrefix pre s = true ∧ k < (splitOn 32 s).length) := by
  simp only [redirectAddr]
  constructor
  · rintro ⟨a, h⟩
    split at h
    · split at h
      · rename_i h1 h2; exact ⟨h1, h2⟩
      · simp at h
    · simp at h
  · rintro ⟨h1, h2⟩
    exact ⟨normAddr ((splitOn 32 s)[k]), by simp [h1, h2, idx_lt h2, fixIPv6_eq_normAddr]⟩

/-- … and the address returned is the `k`-th field, normalised as specified (`normAddr`). -/
theorem redirect_addr (pre : Bytes) (k : Nat) (s : Bytes) (h1 : hasPrefix pre s = true)
    (h2 : k < (splitOn 32 s).length) : redirectAddr pre k s = .ok (normAddr ((splitOn 32 s)[k]), true) := by
  simp [redirectAddr, h1, h2, idx_lt h2, fixIPv6_eq_normAddr]

/-- `fixIPv6HostPort` is the specified normalisation, for every address text. -/
theorem fixIPv6HostPort_spec (a : Bytes) : fixIPv6HostPort a = .ok (normAddr a) := fixIPv6_eq_normAddr a

/-- Texts of the documented form `MOVED <slot> <addr>` / `ASK <slot> <addr>` / `REDIRECT <addr>`
    (fields without spaces) yield exactly the normalised address. -/
theorem documented_redirects (slot addr : Bytes) (hs : 32 ∉ slot) (ha : 32 ∉ addr) :
    isMoved (redirectText sMOVED (some slot) addr) = .ok (normAddr addr, true) ∧
    isAsk (redirectText sASK (some slot) addr) = .ok (normAddr addr, true) ∧
    isRedirect (redirectText sREDIRECT none addr) = .ok (normAddr addr, true) :=
  ⟨redirectAddr_documented_slot _ (by decide) _ hs _ ha, redirectAddr_documented_slot _ (by decide) _ hs _ ha,
   redirectAddr_documented _ (by decide) _ ha⟩

/-- e.g. a bare IPv6 address gets its brackets -/
example : normAddr [58, 58, 49, 58, 54, 51, 55, 57] = [91, 58, 58, 49, 93, 58, 54, 51, 55, 57] := by decide

theorem redirect_false_otherwise (pre : Bytes) (k : Nat) (s : Bytes)
    (h : ¬ (hasPrefix pre s = true ∧ k < (splitOn 32 s).length)) : redirectAddr pre k s = .ok ([], false) := by
  simp only [redirectAddr]
  split
  · split
    · rename_i h1 h2; exact absurd ⟨h1, h2⟩ h
    · rfl
  · rfl

end Rv.C15
