/-
C23 — sentinel clients follow the current master.
Theorems over the model Rv.Sentinel of /repo/sentinel.go (`_refresh`, `listWatch`, `pickReplica`,
`_switchTarget`, `switchTargetRetry`, `refreshRetry`, the pub/sub event handler), for every
sequence of refreshes and events and every environment: the sentinel replies, dial results and
ROLE answers are arbitrary and may change between and during steps (every step takes its own
`World`, ROLE answers are queues).
-/
import Rv.Model.Sentinel
namespace Rv.C23
open Rv.Sentinel

set_option linter.unusedVariables false
set_option linter.unusedSimpArgs false

/-- a stored connection is justified: its node was reported in that role, and unless the client has
    closed the connection, the last ROLE answer received over it was that role -/
def ConnOk (want : Role) (reported : List Addr) (c : Option Conn) : Prop :=
  ∀ x, c = some x → x.addr ∈ reported ∧ (x.closed = false → x.lastRole = .arr want)

/-- the invariant of `stored_target_verified` -/
def Inv (s : St) : Prop :=
  ConnOk .master s.reportedM s.mConn ∧ ConnOk .slave s.reportedR s.rConn

/-- ghost lists only grow, mode never changes -/
def Ext (s s' : St) : Prop :=
  s'.mode = s.mode ∧ (∀ a ∈ s.reportedM, a ∈ s'.reportedM) ∧ (∀ a ∈ s.reportedR, a ∈ s'.reportedR)

theorem Ext.refl (s : St) : Ext s s := ⟨rfl, fun _ h => h, fun _ h => h⟩
theorem Ext.trans {a b c : St} (h1 : Ext a b) (h2 : Ext b c) : Ext a c :=
  ⟨h2.1.trans h1.1, fun x hx => h2.2.1 x (h1.2.1 x hx), fun x hx => h2.2.2 x (h1.2.2 x hx)⟩

/-! ### ROLE / address parsing -/

theorem roleMatches_true (ans : RoleAns) (want : Role) (h : roleMatches ans want = some true) :
    ans = .arr want := by
  cases ans with
  | arr r => simp [roleMatches] at h; simp [h]
  | empty => simp [roleMatches] at h
  | err => simp [roleMatches] at h

/-- **role_parse_total** (repaired code, commit ecf7776): every ROLE reply shape has a defined outcome —
    an array is compared by its first element, an EMPTY array counts as "not that role", anything else
    is an error; nothing panics. Likewise every GET-MASTER-ADDR-BY-NAME shape: a short array is an error. -/
theorem role_parse_total (ans : RoleAns) (want : Role) :
    (∃ r, ans = .arr r ∧ roleMatches ans want = some (r == want)) ∨
    (ans = .empty ∧ roleMatches ans want = some false) ∨
    (ans = .err ∧ roleMatches ans want = none) := by
  cases ans <;> simp [roleMatches]

theorem master_parse_total (m : Mode) (v : SentinelView) (h : v.master = .short ∨ v.master = .err)
    (hm : m ≠ .replicaOnly) : ∃ e, listWatch m v = .error e := by
  unfold listWatch
  cases hs : v.sentinels with
  | none => exact ⟨_, rfl⟩
  | some others =>
    cases m with
    | replicaOnly => exact absurd rfl hm
    | masterOnly => rcases h with h | h <;> simp [h]
    | both =>
      simp only []
      cases hp : v.replicas.bind pickReplica with
      | none => simp
      | some r => rcases h with h | h <;> simp [h]

/-- before the repair the check indexed `resp[0]` of an empty array: a panic (in a refresh goroutine
    this crashed the process; reproduced on the real client before the `fix:` commit) -/
theorem role_parse_unrepaired_panics (want : Role) : roleMatchesUnrepaired .empty want = none := rfl

/-! ### `_switchTarget` -/

/-- the three possible outcomes of `_switchTarget` on the state -/
theorem switchTarget_cases (s : St) (w : World) (addr : Addr) (isMaster : Bool) :
    let want := if isMaster then Role.master else Role.slave
    ((switchTarget s w addr isMaster).1 = s ∧
      ((switchTarget s w addr isMaster).2.2.2 = none → s.stopped = true)) ∨
    ((switchTarget s w addr isMaster).1 = closeStored s isMaster (w.roleOf addr) ∧
      roleMatches (w.roleOf addr) want ≠ some true ∧ (switchTarget s w addr isMaster).2.2.2 ≠ none) ∨
    ((switchTarget s w addr isMaster).1 = install s addr isMaster (.arr want) ∧
      w.roleOf addr = .arr want ∧ (switchTarget s w addr isMaster).2.2.2 = none ∧ s.stopped = false) := by
  intro want
  unfold switchTarget
  by_cases hs : s.stopped = true
  · simp [hs]
  · simp only [hs, Bool.false_eq_true, if_false]
    split
    · left; simp
    · cases hm : roleMatches (w.roleOf addr) (if isMaster = true then Role.master else Role.slave) with
      | none =>
        simp only []
        split
        · left; simp
        · right; left; simp [want, hm]
      | some b =>
        cases b with
        | false =>
          simp only []
          split
          · left; simp
          · right; left; simp [want, hm]
        | true =>
          right; right
          have := roleMatches_true _ _ hm
          simp only [this, want]
          simp at hs
          simp [hs]

theorem closeStored_inv (s : St) (isMaster : Bool) (ans : RoleAns) (h : Inv s) :
    Inv (closeStored s isMaster ans) ∧ Ext s (closeStored s isMaster ans) := by
  obtain ⟨h1, h2⟩ := h
  unfold closeStored
  cases isMaster
  · refine ⟨⟨h1, ?_⟩, Ext.refl _⟩
    intro x hx
    simp only [Bool.false_eq_true, if_false, Option.map_eq_some_iff] at hx
    obtain ⟨c, hc, rfl⟩ := hx
    exact ⟨(h2 c hc).1, by simp⟩
  · refine ⟨⟨?_, h2⟩, Ext.refl _⟩
    intro x hx
    simp only [if_true, Option.map_eq_some_iff] at hx
    obtain ⟨c, hc, rfl⟩ := hx
    exact ⟨(h1 c hc).1, by simp⟩

theorem install_inv (s : St) (addr : Addr) (isMaster : Bool) (h : Inv s)
    (hm : isMaster = true → addr ∈ s.reportedM) (hr : isMaster = false → addr ∈ s.reportedR) :
    Inv (install s addr isMaster (.arr (if isMaster then Role.master else Role.slave))) ∧
    Ext s (install s addr isMaster (.arr (if isMaster then Role.master else Role.slave))) := by
  obtain ⟨h1, h2⟩ := h
  unfold install
  cases isMaster
  · refine ⟨⟨h1, ?_⟩, Ext.refl _⟩
    intro x hx
    simp only [Bool.false_eq_true, if_false, Option.some.injEq] at hx
    subst hx
    exact ⟨hr rfl, fun _ => rfl⟩
  · refine ⟨⟨?_, h2⟩, Ext.refl _⟩
    intro x hx
    simp only [if_true, Option.some.injEq] at hx
    subst hx
    exact ⟨hm rfl, fun _ => rfl⟩

theorem switchTarget_inv (s : St) (w : World) (addr : Addr) (isMaster : Bool) (h : Inv s)
    (hm : isMaster = true → addr ∈ s.reportedM) (hr : isMaster = false → addr ∈ s.reportedR) :
    Inv (switchTarget s w addr isMaster).1 ∧ Ext s (switchTarget s w addr isMaster).1 := by
  rcases switchTarget_cases s w addr isMaster with ⟨h1, _⟩ | ⟨h1, _⟩ | ⟨h1, _⟩
  · rw [h1]; exact ⟨h, Ext.refl _⟩
  · rw [h1]; exact closeStored_inv s isMaster _ h
  · rw [h1]; exact install_inv s addr isMaster h hm hr

/-- **wrong_role_never_routed.** A node whose ROLE answer is not the required role (wrong string, empty
    array, error, nil, non-array) is never installed: `_switchTarget` returns an error and the stored
    target is unchanged — except that, if the failing node WAS the stored target (same address, reused
    connection), that connection is closed, so traffic sent to it fails instead of reaching the demoted
    node. What happens instead: `_refresh` closes the sentinel connection, moves that sentinel to the
    back and asks the next one (`refreshLoop`); the event handler starts `refreshRetry`. -/
theorem wrong_role_never_routed (s : St) (w : World) (addr : Addr) (isMaster : Bool)
    (hstop : s.stopped = false)
    (hrole : w.roleOf addr ≠ .arr (if isMaster then Role.master else Role.slave)) :
    (switchTarget s w addr isMaster).2.2.2 ≠ none ∧
    ((switchTarget s w addr isMaster).1 = s ∨
     (switchTarget s w addr isMaster).1 = closeStored s isMaster (w.roleOf addr)) := by
  rcases switchTarget_cases s w addr isMaster with ⟨h1, h2⟩ | ⟨h1, _, h3⟩ | ⟨_, h2, _⟩
  · refine ⟨?_, Or.inl h1⟩
    intro hn; have := h2 hn; simp [hstop] at this
  · exact ⟨h3, Or.inr h1⟩
  · exact absurd h2 hrole

/-- the stored target after a failed switch is never a LIVE connection to a node that just answered
    the wrong role -/
theorem failed_switch_leaves_no_live_wrong_target (s : St) (w : World) (addr : Addr)
    (hstop : s.stopped = false) (hrole : w.roleOf addr ≠ .arr Role.master)
    (hdial : (reuseOf s addr true).isNone = false) :
    ∀ c, (switchTarget s w addr true).1.mConn = some c → c.closed = true := by
  intro c hc
  unfold switchTarget at hc
  simp only [hstop, Bool.false_eq_true, if_false, hdial, Bool.false_and, if_true] at hc
  cases hm : roleMatches (w.roleOf addr) Role.master with
  | none =>
    simp only [hm, closeStored, if_true, Option.map_eq_some_iff] at hc
    obtain ⟨_, _, rfl⟩ := hc; rfl
  | some b =>
    cases b with
    | false =>
      simp only [hm, closeStored, if_true, Option.map_eq_some_iff] at hc
      obtain ⟨_, _, rfl⟩ := hc; rfl
    | true => exact absurd (roleMatches_true _ _ hm) hrole

/-- a successful switch installs exactly the requested address, over a live connection, and only
    after that node answered ROLE with the required role -/
theorem switch_success (s : St) (w : World) (addr : Addr) (isMaster : Bool) (hstop : s.stopped = false)
    (h : (switchTarget s w addr isMaster).2.2.2 = none) :
    w.roleOf addr = .arr (if isMaster then Role.master else Role.slave) ∧
    (switchTarget s w addr isMaster).1 =
      install s addr isMaster (.arr (if isMaster then Role.master else Role.slave)) := by
  rcases switchTarget_cases s w addr isMaster with ⟨_, h2⟩ | ⟨_, _, h3⟩ | ⟨h1, h2, _⟩
  · have := h2 h; simp [hstop] at this
  · exact absurd h h3
  · exact ⟨h2, h1⟩

/-! ### `listWatch` and the `_refresh` loop -/

theorem listWatch_shape (m : Mode) (v : SentinelView) (ma ra : Option Addr) (others : List Addr)
    (h : listWatch m v = .ok (ma, ra, others)) :
    (m ≠ .replicaOnly → ∃ a, ma = some a ∧ v.master = .addr a) ∧
    (m ≠ .masterOnly → ∃ r, ra = some r) := by
  unfold listWatch at h
  cases hs : v.sentinels with
  | none => simp [hs] at h
  | some o =>
    simp only [hs] at h
    cases m with
    | replicaOnly =>
      simp only [] at h
      cases hp : v.replicas.bind pickReplica with
      | none => simp [hp] at h
      | some r =>
        simp only [hp, Except.ok.injEq, Prod.mk.injEq] at h
        exact ⟨fun hh => absurd rfl hh, fun _ => ⟨r, h.2.1.symm⟩⟩
    | masterOnly =>
      simp only [] at h
      cases hv : v.master with
      | addr a =>
        simp [hv] at h
        exact ⟨fun _ => ⟨a, h.1.symm, rfl⟩, fun hh => absurd rfl hh⟩
      | short => simp [hv] at h
      | err => simp [hv] at h
    | both =>
      simp only [] at h
      cases hp : v.replicas.bind pickReplica with
      | none => simp [hp] at h
      | some r =>
        cases hv : v.master with
        | addr a =>
          simp [hp, hv] at h
          exact ⟨fun _ => ⟨a, h.1.symm, rfl⟩, fun _ => ⟨r, h.2.1.symm⟩⟩
        | short => simp [hp, hv] at h
        | err => simp [hp, hv] at h

theorem withSConn_inv (s : St) (c : Conn) (h : Inv s) : Inv (withSConn s c) ∧ Ext s (withSConn s c) :=
  ⟨h, Ext.refl _⟩

theorem noteReported_inv (s : St) (m r : Option Addr) (others : List Addr) (h : Inv s) :
    Inv (noteReported s m r others) ∧ Ext s (noteReported s m r others) ∧
    (∀ x, m = some x → x ∈ (noteReported s m r others).reportedM) ∧
    (∀ x, r = some x → x ∈ (noteReported s m r others).reportedR) := by
  refine ⟨⟨fun x hx => ⟨List.mem_append_right _ (h.1 x hx).1, (h.1 x hx).2⟩,
           fun x hx => ⟨List.mem_append_right _ (h.2 x hx).1, (h.2 x hx).2⟩⟩,
          ⟨rfl, fun x hx => List.mem_append_right _ hx, fun x hx => List.mem_append_right _ hx⟩, ?_, ?_⟩
  · intro x hx; subst hx; simp [noteReported]
  · intro x hx; subst hx; simp [noteReported]

theorem switchByMode_inv (s : St) (w : World) (m r : Option Addr) (h : Inv s)
    (hm : s.mode ≠ .replicaOnly → m.getD 0 ∈ s.reportedM)
    (hr : s.mode ≠ .masterOnly → r.getD 0 ∈ s.reportedR) :
    Inv (switchByMode s w m r).1 ∧ Ext s (switchByMode s w m r).1 := by
  unfold switchByMode
  cases hmode : s.mode with
  | replicaOnly =>
    exact switchTarget_inv s w _ false h (by simp) (fun _ => hr (by simp [hmode]))
  | masterOnly =>
    exact switchTarget_inv s w _ true h (fun _ => hm (by simp [hmode])) (by simp)
  | both =>
    have ha := switchTarget_inv s w (m.getD 0) true h (fun _ => hm (by simp [hmode])) (by simp)
    have hb := switchTarget_inv (switchTarget s w (m.getD 0) true).1 (switchTarget s w (m.getD 0) true).2.1
      (r.getD 0) false ha.1 (by simp) (fun _ => ha.2.2.2 _ (hr (by simp [hmode])))
    exact ⟨hb.1, ha.2.trans hb.2⟩

/-- one iteration of the refresh loop preserves the invariant -/
theorem tryFront_inv (s : St) (w : World) (h : Inv s) :
    Inv (tryFront s w).1 ∧ Ext s (tryFront s w).1 := by
  unfold tryFront
  cases hl : s.sentinels with
  | nil => exact ⟨h, Ext.refl _⟩
  | cons a rest =>
    simp only []
    have h1 : Inv (if keepSConn s a = true then s else withSConn s ⟨a, false, .err⟩) ∧
        Ext s (if keepSConn s a = true then s else withSConn s ⟨a, false, .err⟩) := by
      split
      · exact ⟨h, Ext.refl _⟩
      · exact withSConn_inv s _ h
    generalize (if keepSConn s a = true then s else withSConn s ⟨a, false, .err⟩) = s1 at h1
    have hmode1 : s1.mode = s.mode := h1.2.1
    split
    · exact h1
    · cases hlw : listWatch s.mode (w.sent a) with
      | error e => exact ⟨(withSConn_inv s1 _ h1.1).1, h1.2⟩
      | ok res =>
        obtain ⟨m, r, others⟩ := res
        have hshape := listWatch_shape _ _ _ _ _ hlw
        simp only []
        obtain ⟨hi2, he2, hm2, hr2⟩ := noteReported_inv s1 m r others h1.1
        have hsw := switchByMode_inv (noteReported s1 m r others) w m r hi2
          (by
            intro hne
            have : s.mode ≠ .replicaOnly := by rw [← hmode1]; exact hne
            obtain ⟨x, hx, _⟩ := hshape.1 this
            subst hx; exact hm2 x rfl)
          (by
            intro hne
            have : s.mode ≠ .masterOnly := by rw [← hmode1]; exact hne
            obtain ⟨x, hx⟩ := hshape.2 this
            subst hx; exact hr2 x rfl)
        have hext := h1.2.trans (he2.trans hsw.2)
        split
        · exact ⟨hsw.1, hext⟩
        · exact ⟨(withSConn_inv _ _ hsw.1).1, hext⟩

theorem refreshLoop_inv (head : Addr) (budget : Nat) (s : St) (w : World) (acts : List Act) (h : Inv s) :
    Inv (refreshLoop head budget s w acts).1 ∧ Ext s (refreshLoop head budget s w acts).1 := by
  induction budget generalizing s w acts with
  | zero => exact ⟨h, Ext.refl _⟩
  | succ n ih =>
    unfold refreshLoop
    split
    · exact ⟨h, Ext.refl _⟩
    · have ht := tryFront_inv s w h
      simp only []
      split
      · exact ht
      · generalize hs2 : ({ (tryFront s w).1 with
            sentinels := moveToBack (tryFront s w).1.sentinels (s.sentinels.headD 0) } : St) = s2
        have hi2 : Inv s2 := by subst hs2; exact ht.1
        have he2 : Ext s s2 := by subst hs2; exact ht.2
        split
        · exact ⟨hi2, he2⟩
        · split
          · exact ⟨hi2, he2⟩
          · have := ih s2 (tryFront s w).2.1 (acts ++ (tryFront s w).2.2.1) hi2
            exact ⟨this.1, he2.trans this.2⟩

theorem refresh_inv (s : St) (w : World) (budget : Nat) (h : Inv s) :
    Inv (refresh s w budget).1 ∧ Ext s (refresh s w budget).1 := by
  unfold refresh
  cases hl : s.sentinels with
  | nil => exact ⟨h, Ext.refl _⟩
  | cons head rest =>
    have := refreshLoop_inv head budget s w [] h
    simp only []
    split
    · exact this
    · split <;> exact this

theorem refreshRetry_inv (fuel : Nat) (s : St) (w : World) (budget : Nat) (h : Inv s) :
    Inv (refreshRetry fuel s w budget).1 ∧ Ext s (refreshRetry fuel s w budget).1 := by
  induction fuel generalizing s w with
  | zero => exact ⟨h, Ext.refl _⟩
  | succ n ih =>
    unfold refreshRetry
    have hr := refresh_inv s w budget h
    simp only []
    split
    · exact hr
    · have := ih (refresh s w budget).1 (refresh s w budget).2.1 hr.1
      exact ⟨this.1, hr.2.trans this.2⟩

theorem onEvent_inv (s : St) (w : World) (ev : Event) (fuel budget : Nat) (h : Inv s) :
    Inv (onEvent s w ev fuel budget).1 ∧ Ext s (onEvent s w ev fuel budget).1 := by
  have hsw : ∀ addr,
      Inv (match switchTarget { s with reportedM := addr :: s.reportedM } w addr true with
        | (s1, w1, a1, err) => match err with
          | none => (s1, w1, a1, true)
          | some _ => match refreshRetry fuel s1 w1 budget with
            | (s2, w2, a2, ok) => (s2, w2, a1 ++ a2, ok)).1 ∧
      Ext s (match switchTarget { s with reportedM := addr :: s.reportedM } w addr true with
        | (s1, w1, a1, err) => match err with
          | none => (s1, w1, a1, true)
          | some _ => match refreshRetry fuel s1 w1 budget with
            | (s2, w2, a2, ok) => (s2, w2, a1 ++ a2, ok)).1 := by
    intro addr
    have hi0 : Inv { s with reportedM := addr :: s.reportedM } :=
      ⟨fun x hx => ⟨List.mem_cons_of_mem _ (h.1 x hx).1, (h.1 x hx).2⟩, h.2⟩
    have he0 : Ext s { s with reportedM := addr :: s.reportedM } :=
      ⟨rfl, fun x hx => List.mem_cons_of_mem _ hx, fun x hx => hx⟩
    have hst := switchTarget_inv { s with reportedM := addr :: s.reportedM } w addr true hi0
      (fun _ => List.mem_cons_self) (by simp)
    generalize switchTarget { s with reportedM := addr :: s.reportedM } w addr true = res at hst
    obtain ⟨s1, w1, a1, err⟩ := res
    cases err with
    | none => exact ⟨hst.1, he0.trans hst.2⟩
    | some e =>
      have := refreshRetry_inv fuel s1 w1 budget hst.1
      exact ⟨this.1, he0.trans (hst.2.trans this.2)⟩
  unfold onEvent
  cases ev with
  | switchMaster named a =>
    cases named
    · exact ⟨h, Ext.refl _⟩
    · exact hsw a
  | rebootMaster named a =>
    cases named
    · exact ⟨h, Ext.refl _⟩
    · exact hsw a
  | slaveChange named =>
    cases named
    · exact ⟨h, Ext.refl _⟩
    · simp only []
      split
      · exact ⟨h, Ext.refl _⟩
      · exact refreshRetry_inv fuel s w budget h
  | other => exact ⟨h, Ext.refl _⟩

/-! ### the property over all histories -/

/-- every state the client can reach: any number of refreshes, retry loops and events, each under
    an arbitrary (different) environment -/
inductive Reach : St → Prop where
  | init (mode : Mode) (sentinels : List Addr) : Reach { mode := mode, sentinels := sentinels }
  | refresh {s : St} (w : World) (budget : Nat) : Reach s → Reach (refresh s w budget).1
  | refreshRetry {s : St} (w : World) (fuel budget : Nat) : Reach s → Reach (refreshRetry fuel s w budget).1
  | event {s : St} (w : World) (ev : Event) (fuel budget : Nat) : Reach s → Reach (onEvent s w ev fuel budget).1
  | stop {s : St} : Reach s → Reach { s with stopped := true }

/-- **stored_target_verified.** In every reachable state the master connection (`mConn`), if any, belongs
    to a node that a sentinel reply or a +switch-master / +reboot event named as master, and — unless
    the client itself has closed that connection — the last ROLE answer received over it was "master";
    the replica connection (`rConn`) belongs to a node a sentinel offered as a replica without
    s-down-time and whose last ROLE answer was "slave". -/
theorem stored_target_verified (s : St) (h : Reach s) : Inv s := by
  induction h with
  | init mode sentinels => exact ⟨fun x hx => by simp at hx, fun x hx => by simp at hx⟩
  | refresh w budget _ ih => exact (refresh_inv _ w budget ih).1
  | refreshRetry w fuel budget _ ih => exact (refreshRetry_inv fuel _ w budget ih).1
  | event w ev fuel budget _ ih => exact (onEvent_inv _ w ev fuel budget ih).1
  | stop _ ih => exact ih

/-- user traffic (sentinelClient.pick) therefore only reaches a live connection of a verified node -/
theorem traffic_goes_to_verified (s : St) (h : Reach s) (toReplica : Bool) (c : Conn)
    (hc : userTarget s toReplica = some c) (hlive : c.closed = false) :
    (c.lastRole = .arr .master ∧ c.addr ∈ s.reportedM) ∨ (c.lastRole = .arr .slave ∧ c.addr ∈ s.reportedR) := by
  have hinv := stored_target_verified s h
  unfold userTarget at hc
  split at hc
  · exact Or.inr ⟨(hinv.2 c hc).2 hlive, (hinv.2 c hc).1⟩
  · split at hc
    · exact Or.inr ⟨(hinv.2 c hc).2 hlive, (hinv.2 c hc).1⟩
    · exact Or.inl ⟨(hinv.1 c hc).2 hlive, (hinv.1 c hc).1⟩

/-- **switch_master_moves** (event path): a +switch-master (or +reboot master) event for our master set
    naming `a`, when `a` can be dialled and answers ROLE "master", makes `a` the master target over a
    live connection — immediately, without asking a sentinel. -/
theorem switch_master_moves (s : St) (w : World) (a : Addr) (fuel budget : Nat) (hstop : s.stopped = false)
    (hdial : w.nodeDialOk a = true) (hrole : w.roleOf a = .arr .master) :
    (onEvent s w (.switchMaster true a) fuel budget).1.mAddr = some a ∧
    (onEvent s w (.switchMaster true a) fuel budget).1.mConn = some ⟨a, false, .arr .master⟩ ∧
    (onEvent s w (.rebootMaster true a) fuel budget).1.mConn = some ⟨a, false, .arr .master⟩ := by
  have key : switchTarget { s with reportedM := a :: s.reportedM } w a true =
      (install { s with reportedM := a :: s.reportedM } a true (.arr .master), w.popRole a,
        (switchTarget { s with reportedM := a :: s.reportedM } w a true).2.2.1, none) := by
    unfold switchTarget
    simp [hstop, hdial, hrole, roleMatches]
  unfold onEvent
  simp only []
  rw [key]
  simp [install]

/-- **switch_master_moves** (refresh path): when a refresh iteration succeeds in master-only mode, the
    stored master is exactly the address the asked sentinel reported, over a live connection, and that
    node answered ROLE "master" during this iteration. -/
theorem refresh_follows_reported_master (s : St) (w : World) (hstop : s.stopped = false)
    (hmode : s.mode = .masterOnly) (hok : (tryFront s w).2.2.2 = true) :
    ∃ sent a, s.sentinels.head? = some sent ∧ (w.sent sent).master = .addr a ∧
      (tryFront s w).1.mConn = some ⟨a, false, .arr .master⟩ ∧ (tryFront s w).1.mAddr = some a ∧
      w.roleOf a = .arr .master := by
  unfold tryFront at hok ⊢
  cases hl : s.sentinels with
  | nil => simp [hl] at hok
  | cons sent rest =>
    simp only [hl] at hok ⊢
    refine ⟨sent, ?_⟩
    have hs1 : (if keepSConn s sent = true then s else withSConn s ⟨sent, false, .err⟩).stopped = false ∧
        (if keepSConn s sent = true then s else withSConn s ⟨sent, false, .err⟩).mode = .masterOnly := by
      split <;> simp [withSConn, hstop, hmode]
    generalize (if keepSConn s sent = true then s else withSConn s ⟨sent, false, .err⟩) = s1 at hs1 hok ⊢
    split at hok
    · simp at hok
    · rename_i hdial
      simp only [hdial, if_false]
      cases hlw : listWatch s.mode (w.sent sent) with
      | error e => simp [hlw] at hok
      | ok res =>
        obtain ⟨m, r, others⟩ := res
        obtain ⟨a, hma, hva⟩ := (listWatch_shape _ _ _ _ _ hlw).1 (by simp [hmode])
        simp only [hlw] at hok ⊢
        subst hma
        have hs2 : (noteReported s1 (some a) r others).stopped = false ∧
            (noteReported s1 (some a) r others).mode = .masterOnly := by simp [noteReported, hs1]
        generalize noteReported s1 (some a) r others = s2 at hs2 hok ⊢
        have hsb : switchByMode s2 w (some a) r = switchTarget s2 w a true := by
          unfold switchByMode; simp [hs2.2]
        rw [hsb] at hok ⊢
        cases herr : (switchTarget s2 w a true).2.2.2 with
        | some e => simp [herr] at hok
        | none =>
          obtain ⟨hrole, hinst⟩ := switch_success s2 w a true hs2.1 herr
          simp only [hinst]
          exact ⟨a, rfl, hva, by simp [install], by simp [install], by simpa using hrole⟩

/-! ### the role is checked in the SAME evaluation, also when the address does not change -/

/-- fields the evaluation never touches -/
def Same (s s' : St) : Prop := s'.mode = s.mode ∧ s'.stopped = s.stopped

theorem switchTarget_same (s : St) (w : World) (addr : Addr) (isMaster : Bool) :
    Same s (switchTarget s w addr isMaster).1 := by
  rcases switchTarget_cases s w addr isMaster with ⟨h1, _⟩ | ⟨h1, _⟩ | ⟨h1, _⟩ <;> rw [h1]
  · exact ⟨rfl, rfl⟩
  · unfold closeStored; cases isMaster <;> exact ⟨rfl, rfl⟩
  · unfold install; cases isMaster <;> exact ⟨rfl, rfl⟩

/-- every successful `_switchTarget` — whether it dialled a new connection or REUSED the stored one
    because the address is unchanged — sent ROLE during this call and got the required role -/
theorem switch_checks_role (s : St) (w : World) (addr : Addr) (isMaster : Bool) (hstop : s.stopped = false)
    (h : (switchTarget s w addr isMaster).2.2.2 = none) :
    Act.role addr (.arr (if isMaster then Role.master else Role.slave)) ∈ (switchTarget s w addr isMaster).2.2.1 := by
  unfold switchTarget at h ⊢
  simp only [hstop, Bool.false_eq_true, if_false] at h ⊢
  split
  · rename_i hd; simp [hd] at h
  · rename_i hd
    simp only [hd, if_false] at h
    cases hm : roleMatches (w.roleOf addr) (if isMaster = true then Role.master else Role.slave) with
    | none => simp [hm] at h
    | some b =>
      cases b with
      | false => simp [hm] at h
      | true =>
        have := roleMatches_true _ _ hm
        simp [this]

theorem switchByMode_same (s : St) (w : World) (m r : Option Addr) : Same s (switchByMode s w m r).1 := by
  unfold switchByMode
  cases s.mode with
  | replicaOnly => exact switchTarget_same s w _ false
  | masterOnly => exact switchTarget_same s w _ true
  | both =>
    have ha := switchTarget_same s w (m.getD 0) true
    have hb := switchTarget_same (switchTarget s w (m.getD 0) true).1 (switchTarget s w (m.getD 0) true).2.1 (r.getD 0) false
    exact ⟨hb.1.trans ha.1, hb.2.trans ha.2⟩

theorem tryFront_same (s : St) (w : World) : Same s (tryFront s w).1 := by
  unfold tryFront
  cases hl : s.sentinels with
  | nil => exact ⟨rfl, rfl⟩
  | cons a rest =>
    simp only []
    have h1 : Same s (if keepSConn s a = true then s else withSConn s ⟨a, false, .err⟩) := by
      split <;> exact ⟨rfl, rfl⟩
    generalize (if keepSConn s a = true then s else withSConn s ⟨a, false, .err⟩) = s1 at h1
    split
    · exact h1
    · cases hlw : listWatch s.mode (w.sent a) with
      | error e => exact h1
      | ok res =>
        obtain ⟨m, r, others⟩ := res
        simp only []
        have h2 : Same s (noteReported s1 m r others) := h1
        have h3 := switchByMode_same (noteReported s1 m r others) w m r
        split
        · exact ⟨h3.1.trans h2.1, h3.2.trans h2.2⟩
        · exact ⟨h3.1.trans h2.1, h3.2.trans h2.2⟩

/-- one successful refresh iteration in master-only mode: the stored master got ROLE "master" in it -/
theorem tryFront_ok_checked (s : St) (w : World) (hstop : s.stopped = false) (hmode : s.mode = .masterOnly)
    (hok : (tryFront s w).2.2.2 = true) :
    ∃ a, (tryFront s w).1.mConn = some ⟨a, false, .arr .master⟩ ∧ a ∈ (tryFront s w).1.reportedM ∧
      Act.role a (.arr .master) ∈ (tryFront s w).2.2.1 := by
  unfold tryFront at hok ⊢
  cases hl : s.sentinels with
  | nil => simp [hl] at hok
  | cons sent rest =>
    simp only [hl] at hok ⊢
    have hs1 : (if keepSConn s sent = true then s else withSConn s ⟨sent, false, .err⟩).stopped = false ∧
        (if keepSConn s sent = true then s else withSConn s ⟨sent, false, .err⟩).mode = .masterOnly := by
      split <;> simp [withSConn, hstop, hmode]
    generalize (if keepSConn s sent = true then s else withSConn s ⟨sent, false, .err⟩) = s1 at hs1 hok ⊢
    split at hok
    · simp at hok
    · rename_i hdial
      simp only [hdial, if_false]
      cases hlw : listWatch s.mode (w.sent sent) with
      | error e => simp [hlw] at hok
      | ok res =>
        obtain ⟨m, r, others⟩ := res
        obtain ⟨a, hma, hva⟩ := (listWatch_shape _ _ _ _ _ hlw).1 (by simp [hmode])
        simp only [hlw] at hok ⊢
        subst hma
        have hs2 : (noteReported s1 (some a) r others).stopped = false ∧
            (noteReported s1 (some a) r others).mode = .masterOnly ∧
            a ∈ (noteReported s1 (some a) r others).reportedM := by simp [noteReported, hs1]
        generalize noteReported s1 (some a) r others = s2 at hs2 hok ⊢
        have hsb : switchByMode s2 w (some a) r = switchTarget s2 w a true := by
          unfold switchByMode; simp [hs2.2.1]
        rw [hsb] at hok ⊢
        cases herr : (switchTarget s2 w a true).2.2.2 with
        | some e => simp [herr] at hok
        | none =>
          obtain ⟨hrole, hinst⟩ := switch_success s2 w a true hs2.1 herr
          have hact := switch_checks_role s2 w a true hs2.1 herr
          simp only [hinst]
          refine ⟨a, by simp [install], by simpa [install] using hs2.2.2, ?_⟩
          simp only [if_true] at hact
          simp [hact]

theorem refreshLoop_ok_checked (head : Addr) (budget : Nat) (s : St) (w : World) (acts : List Act)
    (hstop : s.stopped = false) (hmode : s.mode = .masterOnly)
    (hok : (refreshLoop head budget s w acts).2.2.2 = true) :
    ∃ a, (refreshLoop head budget s w acts).1.mConn = some ⟨a, false, .arr .master⟩ ∧
      a ∈ (refreshLoop head budget s w acts).1.reportedM ∧
      Act.role a (.arr .master) ∈ (refreshLoop head budget s w acts).2.2.1 := by
  induction budget generalizing s w acts with
  | zero => simp [refreshLoop] at hok
  | succ n ih =>
    unfold refreshLoop at hok ⊢
    simp only [hstop, Bool.false_eq_true, if_false] at hok ⊢
    by_cases ht : (tryFront s w).2.2.2 = true
    · simp only [ht, if_true] at hok ⊢
      obtain ⟨a, h1, h2, h3⟩ := tryFront_ok_checked s w hstop hmode ht
      exact ⟨a, h1, h2, List.mem_append_right _ h3⟩
    · have ht' : (tryFront s w).2.2.2 = false := by simpa using ht
      simp only [ht', Bool.false_eq_true, if_false] at hok ⊢
      have hsame := tryFront_same s w
      cases hmv : moveToBack (tryFront s w).1.sentinels (s.sentinels.headD 0) with
      | nil => simp only [hmv] at hok; simp at hok
      | cons f tail =>
        simp only [hmv] at hok ⊢
        by_cases hf : (f == head) = true
        · simp [hf] at hok
        · simp only [hf, if_false] at hok ⊢
          exact ih _ _ _ (hsame.2.trans hstop) (hsame.1.trans hmode) hok

/-- **target_was_role_checked_in_this_evaluation** (refresh). Whenever a refresh of a running master-only
    client succeeds, the master connection it leaves behind — new OR reused because the sentinel named
    the same address again — received a ROLE command during THIS refresh and answered "master", and its
    address was named by a sentinel asked during this refresh or earlier. -/
theorem target_was_role_checked_in_this_evaluation (s : St) (w : World) (budget : Nat)
    (hstop : s.stopped = false) (hmode : s.mode = .masterOnly) (hne : s.sentinels ≠ [])
    (hok : (refresh s w budget).2.2.2 = .ok) :
    ∃ a, (refresh s w budget).1.mConn = some ⟨a, false, .arr .master⟩ ∧
      Act.role a (.arr .master) ∈ (refresh s w budget).2.2.1 := by
  unfold refresh at hok ⊢
  cases hl : s.sentinels with
  | nil => exact absurd hl hne
  | cons head rest =>
    simp only [hl] at hok ⊢
    have hsame : (refreshLoop head budget s w []).1.stopped = false := by
      have : ∀ (b : Nat) (s : St) (w : World) (acts : List Act), s.stopped = false →
          (refreshLoop head b s w acts).1.stopped = false := by
        intro b
        induction b with
        | zero => intro s w acts h; simpa [refreshLoop] using h
        | succ n ih =>
          intro s w acts h
          unfold refreshLoop
          simp only [h, Bool.false_eq_true, if_false]
          have hs := tryFront_same s w
          split
          · exact hs.2.trans h
          · split
            · exact hs.2.trans h
            · split
              · exact hs.2.trans h
              · exact ih _ _ _ (hs.2.trans h)
      exact this budget s w [] hstop
    simp only [hsame, Bool.false_eq_true, if_false] at hok ⊢
    by_cases hlo : (refreshLoop head budget s w []).2.2.2 = true
    · obtain ⟨a, h1, _, h3⟩ := refreshLoop_ok_checked head budget s w [] hstop hmode hlo
      simp only [hlo, Bool.not_true, Bool.false_eq_true, if_false] at hok ⊢
      exact ⟨a, h1, h3⟩
    · simp [hlo] at hok

/-- the same for the event path: a +switch-master / +reboot event that is accepted directly sends ROLE on
    the (new or reused) connection to the named address before that connection carries primary traffic -/
theorem event_target_was_role_checked (s : St) (w : World) (a : Addr) (hstop : s.stopped = false)
    (h : (switchTarget { s with reportedM := a :: s.reportedM } w a true).2.2.2 = none) :
    Act.role a (.arr .master) ∈ (switchTarget { s with reportedM := a :: s.reportedM } w a true).2.2.1 ∧
    (switchTarget { s with reportedM := a :: s.reportedM } w a true).1.mConn = some ⟨a, false, .arr .master⟩ := by
  have h1 := switch_checks_role { s with reportedM := a :: s.reportedM } w a true hstop h
  have h2 := (switch_success { s with reportedM := a :: s.reportedM } w a true hstop h).2
  simp only [if_true] at h1 h2
  exact ⟨h1, by rw [h2]; simp [install]⟩

/-- the seeded shortcut ("same address and healthy connection: nothing to do") is exactly what these
    theorems exclude: on the reuse path the model still consumes a ROLE answer, and a demoted node fails -/
example :
    let s0 : St := { mode := .masterOnly, sentinels := [100], mAddr := some 0, mConn := some ⟨0, false, .arr .master⟩,
                     reportedM := [0] }
    let w : World := { sent := fun _ => ⟨true, some [], .addr 0, none⟩, nodeDialOk := fun _ => true,
                       roles := [(0, [.arr .slave])] }
    (refresh s0 w 8).2.2.2 = .failed ∧ (refresh s0 w 8).1.mConn = some ⟨0, true, .arr .slave⟩ ∧
    Act.role 0 (.arr .slave) ∈ (refresh s0 w 8).2.2.1 := by decide

/-! ### events that arrive during a refresh -/

theorem refreshLoop_same (head : Addr) (budget : Nat) (s : St) (w : World) (acts : List Act) :
    Same s (refreshLoop head budget s w acts).1 := by
  induction budget generalizing s w acts with
  | zero => exact ⟨rfl, rfl⟩
  | succ n ih =>
    unfold refreshLoop
    split
    · exact ⟨rfl, rfl⟩
    · have hs := tryFront_same s w
      simp only []
      split
      · exact hs
      · split
        · exact hs
        · split
          · exact hs
          · have := ih { (tryFront s w).1 with sentinels := moveToBack (tryFront s w).1.sentinels (s.sentinels.headD 0) }
              (tryFront s w).2.1 (acts ++ (tryFront s w).2.2.1)
            exact ⟨this.1.trans hs.1, this.2.trans hs.2⟩

theorem refresh_same (s : St) (w : World) (budget : Nat) : Same s (refresh s w budget).1 := by
  unfold refresh
  cases hl : s.sentinels with
  | nil => exact ⟨rfl, rfl⟩
  | cons head rest =>
    have := refreshLoop_same head budget s w []
    simp only []
    split
    · exact this
    · split <;> exact this

/-- **event_during_refresh_not_lost.** A +switch-master (or +reboot master) event for our master set that
    arrives while a refresh is running is handled right after that refresh — whatever the refresh decided,
    even if it re-confirmed the old master from a stale sentinel answer: if the named node can be dialled
    and answers ROLE "master", it is the master target afterwards. -/
theorem event_during_refresh_not_lost (s : St) (w : World) (a : Addr) (fuel budget : Nat)
    (hstop : s.stopped = false)
    (hdial : (refresh s w budget).2.1.nodeDialOk a = true)
    (hrole : (refresh s w budget).2.1.roleOf a = .arr .master) :
    (eventDuringRefresh s w (.switchMaster true a) fuel budget).1.mConn = some ⟨a, false, .arr .master⟩ ∧
    (eventDuringRefresh s w (.rebootMaster true a) fuel budget).1.mConn = some ⟨a, false, .arr .master⟩ ∧
    (eventDuringRefresh s w (.switchMaster true a) fuel budget).1.mAddr = some a := by
  have hst : (refresh s w budget).1.stopped = false := (refresh_same s w budget).2.trans hstop
  have := switch_master_moves (refresh s w budget).1 (refresh s w budget).2.1 a fuel budget hst hdial hrole
  exact ⟨this.2.1, this.2.2, this.1⟩

/-- the lost-event scenario of the seeded change, on the model: the refresh re-confirms the old master 0
    (stale sentinel, node 0 still answers "master"), the event names node 1 — the client ends on node 1 -/
example :
    let s0 : St := { mode := .masterOnly, sentinels := [100], mAddr := some 0, mConn := some ⟨0, false, .arr .master⟩,
                     reportedM := [0] }
    let w : World := { sent := fun _ => ⟨true, some [], .addr 0, none⟩, nodeDialOk := fun _ => true,
                       roles := [(0, [.arr .master]), (1, [.arr .master])] }
    (refresh s0 w 8).1.mConn = some ⟨0, false, .arr .master⟩ ∧
    (eventDuringRefresh s0 w (.switchMaster true 1) 4 8).1.mConn = some ⟨1, false, .arr .master⟩ := by decide

/-- **foreign_event_ignored.** The handler compares the FIRST FIELD of the payload with the configured master
    set (`m[0] == MasterSet`); an event of any other set — also one whose name merely starts with ours — is
    `named = false` and changes nothing, sends nothing. -/
theorem foreign_event_ignored (s : St) (w : World) (a : Addr) (fuel budget : Nat) :
    onEvent s w (.switchMaster false a) fuel budget = (s, w, [], true) ∧
    onEvent s w (.rebootMaster false a) fuel budget = (s, w, [], true) ∧
    onEvent s w (.slaveChange false) fuel budget = (s, w, [], true) := by
  refine ⟨rfl, rfl, rfl⟩

/-! ### non-vacuity -/

def demoWorld (roleN0 roleN1 : List RoleAns) (master : Addr) : World :=
  { sent := fun _ => ⟨true, some [], .addr master, some [(2, false)]⟩,
    nodeDialOk := fun _ => true,
    roles := [(0, roleN0), (1, roleN1), (2, [.arr .slave])] }

example : (refresh { mode := .masterOnly, sentinels := [100] } (demoWorld [.arr .master] [.arr .slave] 0) 8).1.mConn
    = some ⟨0, false, .arr .master⟩ := by decide
example : (refresh { mode := .masterOnly, sentinels := [100] } (demoWorld [.arr .slave] [.arr .slave] 0) 8).2.2.2
    = .failed := by decide
example : (refresh { mode := .masterOnly, sentinels := [100] } (demoWorld [.empty] [.arr .slave] 0) 8).1.mConn
    = none := by decide
example : (onEvent (refresh { mode := .masterOnly, sentinels := [100] } (demoWorld [.arr .master] [.arr .slave] 0) 8).1
    (demoWorld [.arr .slave] [.arr .master] 1) (.switchMaster true 1) 4 8).1.mConn = some ⟨1, false, .arr .master⟩ := by
  decide
example : Reach (refresh { mode := .both, sentinels := [100] } (demoWorld [.arr .master] [] 0) 8).1 :=
  .refresh _ _ (.init _ _)

end Rv.C23
