import Rv.Model.Invalidation
import Rv.Model.Dedicated
/-!
C27 — invalidation callbacks observe exactly the server's invalidations.
All theorems are for every event sequence (any interleaving of pushes, replies, hook changes).
-/
namespace Rv.C27
open Rv.Push Rv.Inval

private theorem run_append (cfg : Cfg) (st : St) (a b : List Ev) :
    run cfg st (a ++ b) = run cfg st a ++ run cfg (a.foldl (fun s e => (step cfg s e).1) st) b := by
  induction a generalizing st with
  | nil => rfl
  | cons e es ih => simp [run, ih, List.append_assoc]

def isDisconnect : Ev → Bool
  | .disconnect _ => true
  | _ => false

private theorem alive_preserved (cfg : Cfg) (st : St) (evs : List Ev) (hal : st.alive = true)
    (hnd : ∀ e ∈ evs, isDisconnect e = false) :
    (evs.foldl (fun s e => (step cfg s e).1) st).alive = true := by
  induction evs generalizing st with
  | nil => exact hal
  | cons e es ih =>
    apply ih
    · cases e <;> simp [step, hal] <;> simp_all [isDisconnect]
    · exact fun e' he' => hnd e' (List.mem_cons_of_mem _ he')

private theorem optLog_append (a b : List Call) : optLog (a ++ b) = optLog a ++ optLog b := by
  simp [optLog, List.filterMap_append]

private theorem optLog_pushCalls (cfg : Cfg) (st : St) (hopt : cfg.optCb = true) (l : List (List PV)) :
    optLog (l.flatMap (pushCalls cfg st)) = l.filterMap invArg := by
  induction l with
  | nil => rfl
  | cons vs r ih =>
    simp only [List.flatMap_cons, optLog_append, ih, List.filterMap_cons]
    cases h : invArg vs <;> cases hh : st.hookInv <;> simp [pushCalls, h, hopt, hh, optLog]

private theorem optLog_live (cfg : Cfg) (hopt : cfg.optCb = true) (st : St) (evs : List Ev) (hal : st.alive = true)
    (hnd : ∀ e ∈ evs, isDisconnect e = false) : optLog (run cfg st evs) = pushLog cfg evs := by
  induction evs generalizing st with
  | nil => rfl
  | cons e es ih =>
    have hal' : (step cfg st e).1.alive = true := by
      cases e <;> simp [step, hal] <;> simp_all [isDisconnect]
    have := ih (step cfg st e).1 hal' (fun e' he' => hnd e' (List.mem_cons_of_mem _ he'))
    simp only [run, optLog_append, this, pushLog, List.flatMap_cons]
    congr 1
    cases e with
    | frame f => simp [step, hal, optLog_pushCalls cfg st hopt]
    | setHook inv => simp [step, hal, optLog]
    | clearHook => simp [step, optLog]
    | disconnect why => simp [isDisconnect] at hnd

/-- **callback_log = push_log ++ [nil].** With `OnInvalidations` configured, for every sequence of
    frames (invalidation pushes per key / multi-key / flush, other pushes, replies, and on Redis 6
    pushes nested in replies) and hook changes, followed by the loss of the connection, the
    callback is called with exactly the argument of every invalidation push the server wrote, in
    wire order (nil for a flush), and with nil once more at the end. -/
theorem callback_log (cfg : Cfg) (hopt : cfg.optCb = true) (evs : List Ev) (hnd : ∀ e ∈ evs, isDisconnect e = false)
    (why : Exit) (after : List Ev) :
    optLog (run cfg {} (evs ++ [.disconnect why] ++ after)) = pushLog cfg evs ++ [none] := by
  rw [List.append_assoc, run_append, optLog_append, optLog_live cfg hopt {} evs rfl hnd]
  have hal := alive_preserved cfg {} evs rfl hnd
  generalize (evs.foldl (fun s e => (step cfg s e).1) {}) = st at hal
  congr 1
  have dead : ∀ (l : List Ev) (s : St), s.alive = false → run cfg s l = [] := by
    intro l
    induction l with
    | nil => intros; rfl
    | cons e es ih =>
      intro s hs
      have h1 : (step cfg s e).2 = [] ∧ (step cfg s e).1.alive = false := by
        cases e <;> simp [step, hs]
      simp [run, h1.1, ih _ h1.2]
  simp only [List.cons_append, List.nil_append, run, step, hal, if_true]
  rw [dead after _ rfl]
  cases hh : st.hookInv <;> simp [optLog, hopt]

/-- nothing is delivered after the final nil: once the connection is lost no callback runs -/
theorem nothing_after_disconnect (cfg : Cfg) (st : St) (hdead : st.alive = false) (evs : List Ev) :
    run cfg st evs = [] := by
  induction evs generalizing st with
  | nil => rfl
  | cons e es ih =>
    have h1 : (step cfg st e).2 = [] ∧ (step cfg st e).1.alive = false := by
      cases e <;> simp [step, hdead]
    simp [run, h1.1, ih _ h1.2]

/-- the hook installed by `SetOnInvalidations` sees a push iff it is installed when the push
    arrives (same argument as the option-level callback), and gets the final nil iff it is
    installed when the connection is lost -/
theorem hook_sees_while_installed (cfg : Cfg) (st : St) (hal : st.alive = true) (vs : List PV) :
    hookLog (step cfg st (.frame (.push vs))).2 =
      (if st.hookInv then (invArg vs).toList else []) ∧
    ∀ why, hookLog (step cfg st (.disconnect why)).2 = (if st.hookInv then [none] else []) := by
  constructor
  · cases h : invArg vs <;> cases hh : st.hookInv <;> cases ho : cfg.optCb <;>
      simp [step, hal, frameInvs, pushCalls, h, hh, ho, hookLog]
  · intro why
    cases hh : st.hookInv <;> cases ho : cfg.optCb <;> simp [step, hal, hh, ho, hookLog]

/-- **redis6_every_embedded_push_dispatched.** On a Redis 6 connection (`p.version == 6`) a reply that
    carries invalidation pushes embedded between its elements — any number of them — hands EVERY one
    of them to the callback, in order, like top-level pushes. -/
theorem redis6_every_embedded_push_dispatched (st : St) (hal : st.alive = true) (nested : List (List PV)) :
    optLog (step ⟨true, true⟩ st (.frame (.reply nested))).2 = nested.filterMap invArg := by
  simp only [step, hal, if_true, frameInvs]
  exact optLog_pushCalls ⟨true, true⟩ st rfl nested

/-- **both_callbacks_see_every_push.** On a wire that carries BOTH the client-wide OnInvalidations
    callback and a dedicated client's SetOnInvalidations hook (pool wires inherit the option), every
    invalidation push reaches both, with the same argument, option-level callback first; and over a
    whole frame sequence during which the hook stays installed both logs equal the server's push log. -/
theorem both_callbacks_see_every_push (cfg : Cfg) (hopt : cfg.optCb = true) (st : St) (hal : st.alive = true)
    (hh : st.hookInv = true) :
    (∀ vs, (step cfg st (.frame (.push vs))).2 = match invArg vs with | some a => [.opt a, .hook a] | none => []) ∧
    (∀ fs : List Frame, optLog (run cfg st (fs.map .frame)) = pushLog cfg (fs.map .frame) ∧
      hookLog (run cfg st (fs.map .frame)) = pushLog cfg (fs.map .frame)) := by
  constructor
  · intro vs
    cases h : invArg vs <;> simp [step, hal, frameInvs, pushCalls, h, hopt, hh]
  · intro fs
    induction fs with
    | nil => exact ⟨rfl, rfl⟩
    | cons f r ih =>
      have hst : (step cfg st (.frame f)).1 = st := by simp [step, hal]
      have hcalls : ∀ l : List (List PV), optLog (l.flatMap (pushCalls cfg st)) = l.filterMap invArg ∧
          hookLog (l.flatMap (pushCalls cfg st)) = l.filterMap invArg := by
        intro l
        induction l with
        | nil => exact ⟨rfl, rfl⟩
        | cons vs r ih2 =>
          cases h : invArg vs <;>
            simp [List.flatMap_cons, optLog, hookLog, pushCalls, h, hopt, hh] <;>
            simpa [optLog, hookLog] using ih2
      simp only [List.map_cons, run, hst, pushLog, List.flatMap_cons]
      have h1 := hcalls (frameInvs cfg f)
      simp only [optLog, hookLog, List.filterMap_append] at *
      simp only [step, hal, if_true]
      exact ⟨by rw [h1.1, ih.1]; rfl, by rw [h1.2, ih.2]; rfl⟩

/-- **teardown_notifies_for_every_exit_reason.** Whatever ended the pipe — the server killed the
    connection, the client closed it, a write failed, or ConnLifetime retired it — the clean-up makes
    the same calls: one `nil` to the OnInvalidations callback (if configured) and one `nil` to the
    SetOnInvalidations hook (if installed), exactly once, and the pipe is dead afterwards. -/
theorem teardown_notifies_for_every_exit_reason (cfg : Cfg) (st : St) (hal : st.alive = true) (why : Exit) :
    (step cfg st (.disconnect why)).2 =
      (if cfg.optCb then [.opt none] else []) ++ (if st.hookInv then [.hook none] else []) ∧
    (step cfg st (.disconnect why)).1.alive = false ∧
    (∀ why' evs, run cfg (step cfg st (.disconnect why)).1 (.disconnect why' :: evs) = []) := by
  refine ⟨by simp [step, hal], by simp [step, hal], fun why' evs => ?_⟩
  exact nothing_after_disconnect cfg _ (by simp [step, hal]) _

/-- keys are passed through unchanged: a per-key push, a multi-key push and a flush -/
example : invArg [.str "invalidate", .arr ["k"]] = some (some ["k"]) := by decide
example : invArg [.str "invalidate", .arr ["a", "b"]] = some (some ["a", "b"]) := by decide
example : invArg [.str "invalidate", .null] = some none := by decide
example : invArg [.str "invalidate"] = none := by decide
example : optLog (run ⟨false, true⟩ {} [.frame (.push [.str "invalidate", .arr ["k"]]), .frame (.reply []),
    .frame (.push [.str "invalidate", .null]), .disconnect .lifetime]) = [some ["k"], none, none] := by decide

/-- **tracking_off_before_reuse.** Releasing a dedicated client whose wire has an invalidation
    callback sends CLIENT TRACKING OFF after the hooks were reset and the subscriptions cleaned,
    and before the wire is handed back to the pool (shared with C25 `store_cleans`). -/
theorem tracking_off_before_reuse (h : Dedicated.Hooks) (hinv : h.inv = true) :
    Dedicated.storeSeq h = [.wGetHooks, .wSetHooks {}, .wClean, .wTrackingOff, .poolStore] := by
  simp [Dedicated.storeSeq, hinv]

theorem no_tracking_off_without_callback (h : Dedicated.Hooks) (hinv : h.inv = false) :
    Dedicated.storeSeq h = [.wGetHooks, .wSetHooks {}, .wClean, .poolStore] := by
  simp [Dedicated.storeSeq, hinv]

end Rv.C27
