/-
C07 — cached replies expire at the earlier of client and server TTL.
Model: Rv/Model/Lru.lean (`flight` sets the client expiry on the pending entry, `update`
keeps the earlier one, a hit needs `relativePTTL > 0`; message.go's 7-byte field and
`CacheTTL/CachePTTL/CachePXAT`; pipe.go's conversion of the server PTTL on arrival).
-/
import Rv.Lemmas.LruPending
import Rv.Lemmas.AdapterPending
import Rv.Lemmas.CachePipe
namespace Rv.C07
open Rv.Lru
open Rv.Spec.Cache (expiry)

/-! ### the 7-byte expiry field -/

/-- `getExpireAt ∘ setExpireAt` keeps exactly the low 56 bits (two's complement) -/
theorem pack_mod (v : Int) : pack v = v % 72057594037927936 := by
  simp only [pack, setExpireAt, getExpireAt]
  omega

/-- every byte written by `setExpireAt` is a byte -/
theorem setExpireAt_bytes (v : Int) : ∀ b ∈ setExpireAt v, 0 ≤ b ∧ b < 256 := by
  intro b hb
  simp only [setExpireAt, List.mem_cons, List.mem_nil_iff, or_false] at hb
  rcases hb with h | h | h | h | h | h | h <;> omega

/-- **Round trip.** Any expiry below 2^56 ms (year 2 285 000) survives the 7-byte field unchanged. -/
theorem pack_roundtrip (v : Int) (h0 : 0 ≤ v) (h1 : v < 2 ^ 56) : pack v = v := by
  rw [pack_mod]; omega

/-! ### the minimum rule -/

/-- the specification's `expiry` really is the earlier of the two when the server gave one, the client's otherwise -/
theorem expiry_spec (client server : Int) :
    (server = 0 → expiry client server = client) ∧
    (server ≠ 0 → expiry client server = min client server) := by
  unfold expiry
  constructor
  · intro h; simp [h]
  · intro h; simp only [h, if_false]; split <;> omega

/-- **Expiry is the minimum.** If `Flight` at `t0` with TTL `ttl` was answered "send" and its pending entry was
    neither updated, cancelled nor closed by the operations `ops` in between, then the `Update` that delivers the
    reply (whose own expiry field holds `raw`: the server expiry computed on arrival, or nothing) returns — and
    hands to the waiters — the earlier of the client expiry `unixMilli (t0 + ttl)` and the server expiry. -/
theorem expiry_is_min {s : State} (hi : Inv s) (hopen : s.closed = false) (k c : Bytes) (ttl t0 : Int)
    (hsend : (flight s k c ttl t0).2 = .send) (ops : List Op) (hno : ∀ op ∈ ops, op.resolves k c = false)
    (v : Nat) (vsz raw : Int) :
    let s2 := run (flight s k c ttl t0).1 ops
    (update s2 k c v vsz raw).2 = expiry (pack (unixMilli (t0 + ttl))) (pack raw) ∧
    (update s2 k c v vsz raw).1.done = s2.done ++ [(s.nextId, .val v (expiry (pack (unixMilli (t0 + ttl))) (pack raw)))] := by
  intro s2
  have o := flight_cases s k c ttl t0
  have hi1 := inv_flight hi k c ttl t0
  -- the pending entry created by the miss
  have hnew : newEntry s k c ttl t0 ∈ (flight s k c ttl t0).1.list := by
    cases o with
    | closed hc hs hr => rw [hc] at hopen; cases hopen
    | found e hc hf hv hr hl hsz hn fr =>
      rw [hr] at hsend; unfold resOf at hsend; split at hsend <;> cases hsend
    | expired e hc hf hv hr hl hsz hn fr => rw [hl]; simp
    | absent hc hf hr hl hsz hn fr => rw [hl]; simp
  have hmem : newEntry s k c ttl t0 ∈ s2.list :=
    pending_persists_run hi1 hnew rfl ops (by simpa [newEntry] using hno)
  have hi2 : Inv s2 := inv_run hi1 ops
  have hfind : find? s2.list k c = some (newEntry s k c ttl t0) := by
    have := find?_of_mem hi2.nodup hmem
    simpa [newEntry] using this
  have u := update_cases s2 k c v vsz raw
  cases u with
  | closed hc hs hp => have := hi2.closedNil hc; rw [this] at hmem; cases hmem
  | absent hc hf hs hp => rw [hf] at hfind; cases hfind
  | fill e hc hf hpend hp hl hsz hd hcl hmx hn =>
    rw [hf] at hfind; cases hfind
    rw [chooseExp_eq] at hp
    exact ⟨hp, by rw [hd, hp]; rfl⟩
  | stale e hc hf hpend hp hl hsz hd hcl hmx hn =>
    rw [hf] at hfind; cases hfind; simp [newEntry] at hpend

/-- pipe.go on arrival at `arrival` (ns): PTTL −1 (no expiry) and −2 (no key) leave the field empty, so the
    client expiry alone applies -/
theorem expiry_pttl_negative (client arrival pttl : Int) (h : pttl < 0) :
    expiry client (serverExpire arrival pttl) = client := by
  simp [serverExpire, expiry, show ¬ pttl ≥ 0 by omega]

/-- PTTL ≥ 0 (including 0): the server expiry is `arrival + pttl` in ms; with a client expiry it gives the minimum
    (all within the 56-bit range, and not exactly the epoch) -/
theorem expiry_pttl_nonneg (client arrival pttl : Int) (h : 0 ≤ pttl)
    (hr0 : 0 < unixMilli (arrival + pttl * 1000000)) (hr1 : unixMilli (arrival + pttl * 1000000) < 2 ^ 56) :
    expiry client (serverExpire arrival pttl) = min client (unixMilli (arrival + pttl * 1000000)) := by
  have hp : pack (unixMilli (arrival + pttl * 1000000)) = unixMilli (arrival + pttl * 1000000) :=
    pack_roundtrip _ (by omega) hr1
  simp only [serverExpire, show pttl ≥ 0 from h, if_true, hp]
  exact (expiry_spec _ _).2 (by omega)

/-- **Static TTL**: the reply is handed to `Update` as parsed (expiry field empty), so only the client TTL counts -/
theorem static_ttl_uses_client_only {s : State} (k c : Bytes) (v : Nat) (vsz : Int) (e : Entry)
    (hopen : s.closed = false) (hf : find? s.list k c = some e) (hp : e.pend = true) :
    (update s k c v vsz 0).2 = e.exp := by
  have u := update_cases s k c v vsz 0
  cases u with
  | closed hc hs hp' => rw [hc] at hopen; cases hopen
  | absent hc hf' hs hp' => rw [hf'] at hf; cases hf
  | fill e' hc hf' hpend hp' hl hsz hd hcl hmx hn =>
    rw [hf'] at hf; cases hf
    rw [hp']; simp [chooseExp, pack, setExpireAt, getExpireAt]
  | stale e' hc hf' hpend hp' hl hsz hd hcl hmx hn =>
    rw [hf'] at hf; cases hf; rw [hp] at hpend; cases hpend

/-- **No hit at or after expiry.** Whatever the state, a hit at `now` carries an expiry strictly after `now`
    (in ms), and that expiry is the one stored with the entry. -/
theorem no_hit_at_or_after_expiry (s : State) (k c : Bytes) (ttl now : Int) (v : Nat) (exp : Int)
    (h : (flight s k c ttl now).2 = .hit v exp) :
    unixMilli now < exp ∧ ∃ e ∈ s.list, e.key = k ∧ e.cmd = c ∧ e.pend = false ∧ e.val = v ∧ e.exp = exp := by
  have o := flight_cases s k c ttl now
  cases o with
  | closed hc hs hr => rw [hr] at h; cases h
  | expired e hc hf hv hr hl hsz hn fr => rw [hr] at h; cases h
  | absent hc hf hr hl hsz hn fr => rw [hr] at h; cases h
  | found e hc hf hv hr hl hsz hn fr =>
    have hf' := find?_some hf
    rw [hr] at h
    unfold resOf at h
    split at h
    · cases h
    · rename_i hp
      have hp : e.pend = false := by simpa using hp
      cases h
      simp [valid, hp, relativePTTL] at hv
      exact ⟨by omega, e, hf'.1, hf'.2.1, hf'.2.2, hp, rfl, rfl⟩

/-- at or after its expiry a completed entry is not served: the caller is told to fetch again -/
theorem expired_entry_is_refetched (s : State) (k c : Bytes) (ttl now : Int)
    (e : Entry) (hf : find? s.list k c = some e) (hp : e.pend = false) (hexp : e.exp ≤ unixMilli now) :
    (flight s k c ttl now).2 = .send := by
  have o := flight_cases s k c ttl now
  cases o with
  | closed hc hs hr => exact hr
  | expired e' hc hf' hv hr hl hsz hn fr => exact hr
  | absent hc hf' hr hl hsz hn fr => exact hr
  | found e' hc hf' hv hr hl hsz hn fr =>
    rw [hf'] at hf; cases hf
    simp [valid, hp, relativePTTL] at hv; omega

/-! ### the store built by `NewSimpleCacheAdapter` -/

/-- **Adapter: expiry is the minimum.** For a pending adapter entry whose client expiry `xat` fits the 7-byte field,
    `Update` returns, stores in the user cache and hands to the waiters `min(xat, server expiry)` (the client
    expiry alone when the reply carries none). -/
theorem adapter_expiry_is_min {s : Adapter.State} {fl : List (Adapter.KC × Option Adapter.AEntry)}
    (hfl : s.flights = some fl) (k c : Bytes) (e : Adapter.AEntry) (hs : Adapter.slot s k c = some (some e))
    (h0 : 0 ≤ e.xat) (h1 : e.xat < 2 ^ 56) (v : Nat) (raw : Int) :
    (Adapter.update s k c v raw).2 = expiry e.xat (pack raw) ∧
    Adapter.get (Adapter.update s k c v raw).1.store (k ++ c) = some (v, expiry e.xat (pack raw)) := by
  have hpack : pack e.xat = e.xat := pack_roundtrip _ h0 h1
  simp only [Adapter.update, hfl, hs, hpack, Adapter.get_put, if_true]
  unfold expiry
  by_cases ha : pack raw = 0
  · simp [ha]
  · by_cases hb : e.xat < pack raw
    · simp [ha, hb]
    · simp [ha, hb]

/-- the pending adapter entry created by a miss carries the client expiry `unixMilli (now + ttl)` -/
theorem adapter_client_expiry {s : Adapter.State} (k c : Bytes) (ttl now : Int) (hopen : s.flights ≠ none)
    (h : (Adapter.flight s k c ttl now).2 = .send) :
    Adapter.slot (Adapter.flight s k c ttl now).1 k c = some (some { id := s.nextId, xat := unixMilli (now + ttl) }) :=
  Adapter.send_creates_pending k c ttl now hopen h

/-- **Adapter: no hit at or after expiry.** -/
theorem adapter_no_hit_at_or_after_expiry (s : Adapter.State) (k c : Bytes) (ttl now : Int) (v : Nat) (exp : Int)
    (h : (Adapter.flight s k c ttl now).2 = .hit v exp) :
    unixMilli now < exp ∧ Adapter.get s.store (k ++ c) = some (v, exp) := by
  have hmiss : (Adapter.miss s k c ttl now).2 ≠ .hit v exp := by
    unfold Adapter.miss
    split
    · simp
    · split <;> simp
  unfold Adapter.flight at h
  split at h
  · rename_i v' exp' hg
    split at h
    · rename_i hrel
      cases h
      simp only [relativePTTL] at hrel
      exact ⟨by omega, hg⟩
    · exact absurd h hmiss
  · exact absurd h hmiss

/-! ### the reader loop's conversion of the server PTTL (`expiryOf`, used by `Rv.CachePipe`) -/

/-- `serverRaw` is what `serverExpire` packs -/
theorem serverExpire_eq (arrival pttl : Int) : serverExpire arrival pttl = pack (serverRaw arrival pttl) := by
  unfold serverExpire serverRaw
  split
  · rfl
  · simp [pack, setExpireAt, getExpireAt]

/-- **Expiry of a cached read is the minimum, including the PTTL 0 boundary.** For a call started at `start` with
    client TTL `ttl` whose reply arrives at `arrival` with server answer `pttl` (all expiries inside the 7-byte
    range, the server expiry not exactly the epoch): `pttl < 0` (−1 no expiry, −2 no key) gives the client expiry;
    `pttl ≥ 0` — zero included — gives the earlier of the client expiry and `arrival + pttl` ms. -/
theorem expiryOf_is_min (start ttl arrival pttl : Int)
    (hc0 : 0 ≤ unixMilli (start + ttl)) (hc1 : unixMilli (start + ttl) < 2 ^ 56) :
    (pttl < 0 → expiryOf start ttl arrival pttl = unixMilli (start + ttl)) ∧
    (0 ≤ pttl → 0 < unixMilli (arrival + pttl * 1000000) → unixMilli (arrival + pttl * 1000000) < 2 ^ 56 →
      expiryOf start ttl arrival pttl = min (unixMilli (start + ttl)) (unixMilli (arrival + pttl * 1000000))) := by
  have hpc := pack_roundtrip _ hc0 hc1
  constructor
  · intro h
    have hz : pack 0 = 0 := by decide
    simp only [expiryOf, serverRaw, show ¬ pttl ≥ 0 by omega, if_false, hpc, hz, chooseExp]
    simp
  · intro h h0 h1
    have hps := pack_roundtrip _ (by omega) h1
    simp only [expiryOf, serverRaw, show pttl ≥ 0 from h, if_true, hpc, hps, chooseExp]
    split <;> omega

/-- the same in whole milliseconds: the model's `expiryOf` is the specification's `expiryMs` -/
theorem expiryOf_eq_spec (start ttl arrival pttl : Int)
    (hc0 : 0 ≤ start + ttl) (hc1 : start + ttl < 2 ^ 56)
    (hs : 0 ≤ pttl → 0 < arrival + pttl ∧ arrival + pttl < 2 ^ 56) :
    expiryOf (start * 1000000) (ttl * 1000000) (arrival * 1000000) pttl = Spec.Cache.expiryMs start ttl arrival pttl := by
  have e1 : unixMilli (start * 1000000 + ttl * 1000000) = start + ttl := by unfold unixMilli; omega
  have e2 : unixMilli (arrival * 1000000 + pttl * 1000000) = arrival + pttl := by unfold unixMilli; omega
  have := expiryOf_is_min (start * 1000000) (ttl * 1000000) (arrival * 1000000) pttl (by rw [e1]; exact hc0) (by rw [e1]; exact hc1)
  unfold Spec.Cache.expiryMs
  split
  · rename_i h; rw [this.1 h, e1]
  · rename_i h
    have h : 0 ≤ pttl := by omega
    rw [this.2 h (by rw [e2]; exact (hs h).1) (by rw [e2]; exact (hs h).2), e1, e2]

/-- **PTTL 0**: the reply of a key in its last millisecond expires on arrival — it can never be served as a hit
    by a lookup at or after its arrival. -/
theorem expiryOf_pttl_zero (start ttl arrival : Int)
    (hc0 : 0 ≤ unixMilli (start + ttl)) (hc1 : unixMilli (start + ttl) < 2 ^ 56)
    (h0 : 0 < unixMilli arrival) (h1 : unixMilli arrival < 2 ^ 56) :
    expiryOf start ttl arrival 0 ≤ unixMilli arrival ∧
    ∀ now, arrival ≤ now → ¬ (relativePTTL (expiryOf start ttl arrival 0) (unixMilli now) > 0) := by
  have := (expiryOf_is_min start ttl arrival 0 hc0 hc1).2 (Int.le_refl 0) (by simpa using h0) (by simpa using h1)
  simp only [Int.zero_mul, Int.add_zero] at this
  have hle : expiryOf start ttl arrival 0 ≤ unixMilli arrival := by rw [this]; omega
  refine ⟨hle, ?_⟩
  intro now hn
  have : unixMilli arrival ≤ unixMilli now := by unfold unixMilli; omega
  simp only [relativePTTL]; omega

open Rv.CachePipe in
/-- **Connection level.** When the reader loop, at clock `now`, handles the reply of the fetch of (k, c) whose
    pending entry was created by a DoCache started at `t0` with TTL `ttl`, the reply is committed, and handed to
    every waiter, with expiry `expiryOf t0 ttl now pttl`. -/
theorem pipe_commits_expiryOf (st : St) (hi : Inv st.store) (k c : Bytes) (v : Nat) (vsz pttl : Int) (rest : List Msg)
    (hq : st.respQ = .reply k c v vsz pttl :: rest) (e : Entry) (he : e ∈ st.store.list)
    (hk : e.key = k) (hc : e.cmd = c) (hp : e.pend = true) (t0 ttl : Int)
    (hexp : e.exp = pack (unixMilli (t0 + ttl))) (now : Int) :
    (CachePipe.step st (.deliver now)).store.done = st.store.done ++ [(e.id, .val v (expiryOf t0 ttl now pttl))] := by
  have hopen : st.store.closed = false := by
    cases hcl : st.store.closed
    · rfl
    · have := hi.closedNil hcl; rw [this] at he; cases he
  have hfind : find? st.store.list k c = some e := by
    have := find?_of_mem hi.nodup he; rw [hk, hc] at this; exact this
  simp only [CachePipe.step, hq, handle]
  have u := update_cases st.store k c v vsz (serverRaw now pttl)
  cases u with
  | closed hc' hs hp' => rw [hc'] at hopen; cases hopen
  | absent hc' hf hs hp' => rw [hf] at hfind; cases hfind
  | fill e' hc' hf hpend hp' hl hsz hd hcl hmx hn =>
    rw [hf] at hfind; cases hfind
    rw [hd, hp', hexp]; rfl
  | stale e' hc' hf hpend hp' hl hsz hd hcl hmx hn =>
    rw [hf] at hfind; cases hfind; rw [hp] at hpend; cases hpend

/-! ### CacheTTL / CachePTTL / CachePXAT report that same expiry -/

/-- **The accessors report the stored expiry.** For a reply carrying expiry `exp ≠ 0`: `CachePXAT` is `exp`,
    `CachePTTL` is the remaining milliseconds (0 once expired), `CacheTTL` the remaining seconds rounded up; and
    the reply counts as a hit exactly while `CachePTTL` is positive. An empty field (`exp = 0`) reports −1. -/
theorem ttl_reports_same (exp now : Int) :
    (exp ≠ 0 → cachePXAT exp = exp ∧ cachePTTL exp now = max 0 (exp - now) ∧
               cacheTTL exp now = (max 0 (exp - now) + 999) / 1000 ∧
               (0 < cachePTTL exp now ↔ 0 < relativePTTL exp now)) ∧
    (exp = 0 → cachePXAT exp = -1 ∧ cachePTTL exp now = -1 ∧ cacheTTL exp now = -1) := by
  constructor
  · intro h
    refine ⟨by simp [cachePXAT, h], ?_, ?_, ?_⟩
    · simp only [cachePTTL, h, if_false]; split <;> omega
    · simp only [cacheTTL, cachePTTL, h, if_false]
      split <;> split <;> (try split) <;> omega
    · simp only [cachePTTL, h, if_false, relativePTTL]; split <;> omega
  · intro h; subst h; simp [cachePXAT, cachePTTL, cacheTTL]

/-! ### non-vacuity -/

example : (flight (Lru.init 1000 336) [1] [2] 5000000000 1000000).2 = .send := by decide
example : pack 1700000000000 = 1700000000000 := by decide
example : expiry 100 (serverExpire 5000000 20) = 25 := by decide
example : expiry 100 (serverExpire 5000000 (-1)) = 100 := by decide
example : expiryOf 1000000000 2000000000 1003000000 0 = 1003 := by decide
example : expiryOf 1000000000 2000000000 1003000000 (-1) = 3000 := by decide

end Rv.C07
