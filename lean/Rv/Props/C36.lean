/-
C36 — counting Bloom filters track multiplicities without false negatives.
Chain to the source: as C35 (script texts regenerated and pinned; hand transcription
`Rv.CBloom`; `cbloom` correspondence suite through the fake server).
-/
import Rv.Gen.LuaScripts
import Rv.Model.CountingBloom
import Rv.Lemmas.GroupLoop

namespace Rv.C36
open Rv.CBloom Rv.GroupLoop
open Rv.Bloom (Cfg itemIdx allIdx)

/-! ### 1. pins -/
theorem cbf_add_script_pinned : Rv.Gen.rueidisprob_countingBloomFilterAddMultiScript =
  "\nlocal itemCount = tonumber(ARGV[1])\nlocal numElements = tonumber(#ARGV) - 1\nlocal filterKey = KEYS[1]\nlocal counterKey = KEYS[2]\n\nfor i=2, numElements+1 do\n    redis.call('HINCRBY', filterKey, ARGV[i], 1)\nend\n\nreturn redis.call('INCRBY', counterKey, itemCount)\n" := rfl

theorem cbf_remove_script_pinned : Rv.Gen.rueidisprob_countingBloomFilterRemoveMultiScript =
  "\nlocal function MergeTables(t1, t2)\n\tfor i=1, #t2 do\n\t\ttable.insert(t1, t2[i])\n\tend\n\n\treturn t1\nend\n\nlocal numElements = tonumber(#ARGV) - 1\nlocal hashIterations = tonumber(ARGV[#ARGV])\nlocal filterKey = KEYS[1]\nlocal counterKey = KEYS[2]\n\nlocal indexCounter = {}\nfor i=1, numElements do\n\tlocal index = ARGV[i]\n\tlocal count = redis.call('HGET', filterKey, index)\n\n\tif (not indexCounter[index]) then\n\t\tif (not count) then\n\t\t\tindexCounter[index] = 0\n\t\telse\n\t\t\tindexCounter[index] = tonumber(count)\n\t\tend\n\tend\nend\n\nlocal decreaseIndexes = {}\nlocal deleteItemCount = 0\nfor i=1, numElements, hashIterations do\n\tlocal isAbleToRemove = true\n\tlocal temp = {}\n\tlocal rollbackIndex = i\n\n\tfor j=i, i+hashIterations-1 do\n\t\tlocal index = ARGV[j]\n\n\t\ttable.insert(temp, index)\n\t\tindexCounter[index] = indexCounter[index] - 1\n\t\t\n\t\tif indexCounter[index] < 0 then\n\t\t\tisAbleToRemove = false\n\t\t\trollbackIndex = j\n\t\t\tbreak\n\t\tend\n\tend\n\n\tif isAbleToRemove then\n\t\tdecreaseIndexes = MergeTables(decreaseIndexes, temp)\n\t\tdeleteItemCount = deleteItemCount + 1\n\telse\n\t\tfor j=i, rollbackIndex do\n\t\t\tlocal index = ARGV[j]\n\t\t\t\n\t\t\tindexCounter[index] = indexCounter[index] + 1\n\t\tend\n\tend\nend\n\nfor i=1, #decreaseIndexes do\n    redis.call('HINCRBY', filterKey, decreaseIndexes[i], -1)\nend\n\nreturn redis.call('DECRBY', counterKey, deleteItemCount)\n" := rfl

theorem cbf_delete_script_pinned : Rv.Gen.rueidisprob_countingBloomFilterDeleteScript =
  "\nlocal filterKey = KEYS[1]\nlocal counterKey = KEYS[2]\n\nredis.call('DEL', filterKey)\nredis.call('DEL', counterKey)\n\nreturn 1\n" := rfl

/-! ### 2. the inner loops of the remove script -/

private theorem upd_apply (ic : IC) (x : Nat) (v : Int) (j : Nat) :
    upd ic x v j = if j = x then v else ic j := rfl

/-- the table after the inner loop: every touched index went down by the number of times it was touched -/
theorem decGroup_apply : ∀ (g : List Nat) (ic : IC) (j : Nat),
    (decGroup ic g).1 j = ic j - ((decGroup ic g).2.1.count j : Nat) := by
  intro g
  induction g with
  | nil => intro ic j; simp [decGroup]
  | cons x xs ih =>
    intro ic j
    unfold decGroup
    split
    · by_cases hj : j = x
      · subst hj; simp [upd_apply]
      · have : (x == j) = false := by simp; exact fun h => hj h.symm
        simp [upd_apply, hj, List.count_cons, this]
    · simp only []
      rw [ih]
      by_cases hj : j = x
      · subst hj; simp [upd_apply]; omega
      · have : (x == j) = false := by simp; exact fun h => hj h.symm
        simp [upd_apply, hj, List.count_cons, this]

theorem rollback_apply : ∀ (l : List Nat) (ic : IC) (j : Nat),
    rollback ic l j = ic j + (l.count j : Nat) := by
  intro l
  induction l with
  | nil => intro ic j; simp [rollback]
  | cons x xs ih =>
    intro ic j
    unfold rollback
    rw [ih]
    by_cases hj : j = x
    · subst hj; simp [upd_apply]; omega
    · have : (x == j) = false := by simp; exact fun h => hj h.symm
      simp [upd_apply, hj, List.count_cons, this]

/-- the script's rollback loop restores the local table exactly -/
theorem rollback_restores (ic : IC) (g : List Nat) :
    rollback (decGroup ic g).1 (decGroup ic g).2.1 = ic := by
  funext j
  rw [rollback_apply, decGroup_apply]
  omega

/-- `remove_rollback_noop` (group level): an item whose removal would drive one of its counters
negative leaves the script's whole working state — local table, collected decrements, number of
deleted items — unchanged. -/
theorem groupStep_fail_noop (r : RS) (g : List Nat) (h : (decGroup r.ic g).2.2 = false) :
    groupStep r g = r := by
  unfold groupStep
  simp only [h, Bool.false_eq_true, if_false]
  rw [rollback_restores]

/-! ### 3. when does a group removal succeed -/

private theorem count_cons_int (x j : Nat) (xs : List Nat) :
    (((x :: xs).count j : Nat) : Int) = (xs.count j : Nat) + (if x = j then 1 else 0) := by
  rw [List.count_cons]
  by_cases h : x = j <;> simp [h]

/-- a successful inner loop touched exactly the group -/
theorem decGroup_ok_temp : ∀ (g : List Nat) (ic : IC), (decGroup ic g).2.2 = true → (decGroup ic g).2.1 = g := by
  intro g
  induction g with
  | nil => intro ic _; rfl
  | cons x xs ih =>
    intro ic h
    unfold decGroup at h ⊢
    split
    · rename_i hneg; simp [hneg] at h
    · rename_i hneg
      simp only [hneg, if_false] at h
      simp [ih _ h]

/-- The inner loop succeeds exactly when no counter would be driven negative: every index of the
group occurs in it at most as often as its current count. -/
theorem decGroup_ok_iff : ∀ (g : List Nat) (ic : IC),
    (decGroup ic g).2.2 = true ↔ ∀ j ∈ g, ((g.count j : Nat) : Int) ≤ ic j := by
  intro g
  induction g with
  | nil => intro ic; simp [decGroup]
  | cons x xs ih =>
    intro ic
    unfold decGroup
    by_cases hneg : (upd ic x (ic x - 1)) x < 0
    · simp only [hneg, if_true]
      have hx : ic x - 1 < 0 := by simpa [upd_apply] using hneg
      constructor
      · intro h; simp at h
      · intro h
        have := h x (by simp)
        rw [count_cons_int] at this
        simp at this
        omega
    · simp only [hneg, if_false]
      have hx : ¬ ic x - 1 < 0 := by simpa [upd_apply] using hneg
      rw [ih]
      constructor
      · intro h j hj
        rw [count_cons_int]
        by_cases hjx : x = j
        · subst hjx
          simp only [if_true]
          by_cases hmem : x ∈ xs
          · have := h x hmem
            simp [upd_apply] at this
            omega
          · have : xs.count x = 0 := List.count_eq_zero.mpr hmem
            rw [this]; simp; omega
        · simp only [hjx, if_false]
          have hjm : j ∈ xs := by
            rcases List.mem_cons.mp hj with h' | h'
            · exact absurd h'.symm hjx
            · exact h'
          have := h j hjm
          have hne : ¬ j = x := fun e => hjx e.symm
          simpa [upd_apply, hne] using this
      · intro h j hj
        have := h j (by simp [hj])
        rw [count_cons_int] at this
        by_cases hjx : x = j
        · subst hjx
          simp [upd_apply] at this ⊢
          omega
        · have hne : ¬ j = x := fun e => hjx e.symm
          simp [hjx] at this
          simpa [upd_apply, hne] using this

private theorem decGroup_nonneg : ∀ (g : List Nat) (ic : IC), (∀ j, 0 ≤ ic j) → (decGroup ic g).2.2 = true →
    ∀ j, 0 ≤ (decGroup ic g).1 j := by
  intro g
  induction g with
  | nil => intro ic h _; simpa [decGroup] using h
  | cons x xs ih =>
    intro ic h hok
    unfold decGroup at hok ⊢
    by_cases hneg : (upd ic x (ic x - 1)) x < 0
    · simp [hneg] at hok
    · simp only [hneg, if_false] at hok ⊢
      apply ih _ _ hok
      intro j
      by_cases hj : j = x
      · subst hj; omega
      · simpa [upd_apply, hj] using h j

/-- one outer iteration never leaves a negative entry in the local table -/
theorem groupStep_nonneg (r : RS) (g : List Nat) (h : ∀ j, 0 ≤ r.ic j) : ∀ j, 0 ≤ (groupStep r g).ic j := by
  unfold groupStep
  split
  · rename_i hok; exact decGroup_nonneg g r.ic h hok
  · simp only [rollback_restores]; exact h

/-! ### 4. phase 3 applies exactly what phase 2 computed -/

/-- link between the local table, the hash and the collected decrements -/
def Lnk (h : Ctrs) (r : RS) : Prop := ∀ j, r.ic j = val h j - ((r.dec.count j : Nat) : Int)

private theorem groupStep_lnk (h : Ctrs) (r : RS) (g : List Nat) (hl : Lnk h r) : Lnk h (groupStep r g) := by
  unfold groupStep
  split
  · intro j
    simp only [List.count_append]
    rw [decGroup_apply, hl j]
    omega
  · intro j
    simp only [rollback_restores]
    exact hl j

private theorem foldl_groupStep_lnk (h : Ctrs) : ∀ (gs : List (List Nat)) (r : RS), Lnk h r → Lnk h (gs.foldl groupStep r) := by
  intro gs
  induction gs with
  | nil => intro r hl; exact hl
  | cons g gs ih => intro r hl; exact ih _ (groupStep_lnk h r g hl)

private theorem foldl_groupStep_nonneg : ∀ (gs : List (List Nat)) (r : RS), (∀ j, 0 ≤ r.ic j) →
    ∀ j, 0 ≤ (gs.foldl groupStep r).ic j := by
  intro gs
  induction gs with
  | nil => intro r h; exact h
  | cons g gs ih => intro r h; exact ih _ (groupStep_nonneg r g h)

private theorem val_hincr (h : Ctrs) (x : Nat) (d : Int) (j : Nat) :
    val (hincr h x d) j = if j = x then val h x + d else val h j := by
  simp only [val, hincr]
  split <;> simp

private theorem val_foldl_decr : ∀ (l : List Nat) (h : Ctrs) (j : Nat),
    val (l.foldl (fun h i => hincr h i (-1)) h) j = val h j - ((l.count j : Nat) : Int) := by
  intro l
  induction l with
  | nil => intro h j; simp
  | cons x xs ih =>
    intro h j
    simp only [List.foldl_cons]
    rw [ih, val_hincr, count_cons_int]
    by_cases hj : j = x
    · subst hj; simp; omega
    · have : ¬ x = j := fun e => hj e.symm
      simp [hj, this]

private theorem val_foldl_incr : ∀ (l : List Nat) (h : Ctrs) (j : Nat),
    val (l.foldl (fun h i => hincr h i 1) h) j = val h j + ((l.count j : Nat) : Int) := by
  intro l
  induction l with
  | nil => intro h j; simp
  | cons x xs ih =>
    intro h j
    simp only [List.foldl_cons]
    rw [ih, val_hincr, count_cons_int]
    by_cases hj : j = x
    · subst hj; simp; omega
    · have : ¬ x = j := fun e => hj e.symm
      simp [hj, this]

/-- after the remove script every counter of the hash equals the script's local table -/
theorem removeScript_val (k : Nat) (idxs : List Nat) (s s' : St) (c : Int)
    (h : removeScript k idxs s = some (s', c)) :
    ∀ j, val s'.h j = (removePhase2 (chunks k idxs) s.h).ic j := by
  unfold removeScript at h
  split at h
  · contradiction
  · injection h with h
    injection h with hs _
    subst hs
    intro j
    have hl : Lnk s.h (removePhase2 (chunks k idxs) s.h) :=
      foldl_groupStep_lnk s.h _ _ (fun j => by simp)
    simp only [val_foldl_decr]
    rw [hl j]

/-! ### 5. no_negative_counter -/

def NonNeg (s : St) : Prop := ∀ j, 0 ≤ val s.h j

theorem addScript_nonneg (n : Int) (idxs : List Nat) (s : St) (h : NonNeg s) : NonNeg (addScript n idxs s).1 := by
  intro j
  simp only [addScript, val_foldl_incr]
  have := h j
  omega

theorem removeScript_nonneg (k : Nat) (idxs : List Nat) (s s' : St) (c : Int) (h : NonNeg s)
    (hr : removeScript k idxs s = some (s', c)) : NonNeg s' := by
  intro j
  rw [removeScript_val k idxs s s' c hr j]
  exact foldl_groupStep_nonneg (chunks k idxs) { ic := val s.h, dec := [], del := 0 } (fun j => h j) j

/-- script-level operations with arbitrary arguments (not only what the glue sends) -/
inductive SOp where
  | add (n : Int) (idxs : List Nat)
  | remove (k : Nat) (idxs : List Nat)
  | delete

def applyS (s : St) : SOp → St
  | .add n idxs => (addScript n idxs s).1
  | .remove k idxs => match removeScript k idxs s with | some r => r.1 | none => s
  | .delete => deleteScript s

/-- `no_negative_counter`: whatever is added or removed — including items that were never added,
repeated or colliding indexes — no counter of the filter ever becomes negative. -/
theorem no_negative_counter : ∀ (ops : List SOp) (s : St), NonNeg s → NonNeg (ops.foldl applyS s) := by
  intro ops
  induction ops with
  | nil => intro s h; exact h
  | cons op ops ih =>
    intro s h
    simp only [List.foldl_cons]
    apply ih
    cases op with
    | add n idxs => exact addScript_nonneg n idxs s h
    | remove k idxs =>
      simp only [applyS]
      cases hr : removeScript k idxs s with
      | none => exact h
      | some r => exact removeScript_nonneg k idxs s r.1 r.2 h hr
    | delete => intro j; simp [applyS, deleteScript, St.init, val]

example : NonNeg St.init := by intro j; simp [St.init, val]

/-! ### 6. the argument list the glue sends is cut back into the per-item groups -/

private theorem length_le_flatten (k : Nat) (hk : 1 ≤ k) : ∀ (gs : List (List Nat)), (∀ g ∈ gs, g.length = k) →
    gs.length ≤ gs.flatten.length := by
  intro gs
  induction gs with
  | nil => intro _; simp
  | cons g gs ih =>
    intro h
    have := ih (fun g' h' => h g' (by simp [h']))
    have hg := h g (by simp)
    simp only [List.flatten_cons, List.length_append, List.length_cons]
    omega

private theorem chunksAux_flatten (k : Nat) (hk : 1 ≤ k) : ∀ (gs : List (List Nat)) (fuel : Nat),
    (∀ g ∈ gs, g.length = k) → gs.length ≤ fuel → chunksAux k fuel gs.flatten = gs := by
  intro gs
  induction gs with
  | nil => intro fuel _ _; cases fuel <;> simp [chunksAux]
  | cons g gs ih =>
    intro fuel h hf
    have hg := h g (by simp)
    cases fuel with
    | zero => simp at hf
    | succ f =>
      have hne : g ≠ [] := by intro e; rw [e] at hg; simp at hg; omega
      have hemp : (g ++ gs.flatten).isEmpty = false := by
        cases g with
        | nil => exact absurd rfl hne
        | cons _ _ => rfl
      simp only [List.flatten_cons, chunksAux, hemp, Bool.false_eq_true, if_false]
      rw [List.take_left' hg, List.drop_left' hg, ih f (fun g' h' => h g' (by simp [h'])) (by simp at hf; omega)]

/-- `chunks` recovers the per-item index groups from the flat argument list -/
theorem chunks_flatten (k : Nat) (hk : 1 ≤ k) (gs : List (List Nat)) (h : ∀ g ∈ gs, g.length = k) :
    chunks k gs.flatten = gs :=
  chunksAux_flatten k hk gs _ h (length_le_flatten k hk gs h)

private theorem flatten_len_mod (k : Nat) : ∀ (gs : List (List Nat)), (∀ g ∈ gs, g.length = k) →
    gs.flatten.length % k = 0 := by
  intro gs
  induction gs with
  | nil => intro _; simp
  | cons g gs ih =>
    intro h
    have := ih (fun g' h' => h g' (by simp [h']))
    have hg := h g (by simp)
    simp only [List.flatten_cons, List.length_append, hg]
    rw [Nat.add_mod, this]; simp

/-- on the glue's domain the remove script is phase 2 over the per-item groups followed by phase 3 -/
theorem removeScript_groups (k : Nat) (hk : 1 ≤ k) (gs : List (List Nat)) (h : ∀ g ∈ gs, g.length = k) (s : St) :
    removeScript k gs.flatten s =
      some ({ h := (removePhase2 gs s.h).dec.foldl (fun h i => hincr h i (-1)) s.h,
              counter := some (s.counter.getD 0 - (removePhase2 gs s.h).del) },
            s.counter.getD 0 - (removePhase2 gs s.h).del) := by
  have h0 : ¬ (k = 0 ∨ gs.flatten.length % k ≠ 0) := by
    rw [flatten_len_mod k gs h]; omega
  simp only [removeScript, h0, if_false, chunks_flatten k hk gs h]

/-- `remove_rollback_noop`: removing one item (its `k` indexes `g`) whose removal would drive one of
its counters negative — some index occurs in `g` more often than its current count — changes
nothing: the hash is untouched and the item counter keeps its value. -/
theorem remove_rollback_noop (k : Nat) (hk : 1 ≤ k) (g : List Nat) (hg : g.length = k) (s : St)
    (hneg : ∃ j ∈ g, val s.h j < ((g.count j : Nat) : Int)) :
    ∃ s' c, removeScript k g s = some (s', c) ∧ s'.h = s.h ∧ s'.counter.getD 0 = s.counter.getD 0 := by
  have hfail : (decGroup (val s.h) g).2.2 = false := by
    cases hc : (decGroup (val s.h) g).2.2 with
    | false => rfl
    | true =>
      obtain ⟨j, hj, hlt⟩ := hneg
      have := (decGroup_ok_iff g (val s.h)).mp hc j hj
      omega
  have hp : removePhase2 [g] s.h = { ic := val s.h, dec := [], del := 0 } := by
    simp only [removePhase2, List.foldl_cons, List.foldl_nil]
    exact groupStep_fail_noop _ g hfail
  have := removeScript_groups k hk [g] (by simp [hg]) s
  simp only [List.flatten_cons, List.flatten_nil, List.append_nil, hp] at this
  exact ⟨_, _, this, by simp, by simp⟩

/-! ### 7. net multiplicities -/

/-- how many decrements of index `j` the items currently in the filter (`live`, with
multiplicity) are entitled to -/
def need (live : List (List Nat)) (j : Nat) : Int := (((live.map (fun g => g.count j)).sum : Nat) : Int)

/-- every counter covers the live items -/
def Cover (h : Ctrs) (live : List (List Nat)) : Prop := ∀ j, need live j ≤ val h j

private theorem need_nonneg (live : List (List Nat)) (j : Nat) : 0 ≤ need live j := by
  unfold need; omega

private theorem need_cons (g : List Nat) (live : List (List Nat)) (j : Nat) :
    need (g :: live) j = ((g.count j : Nat) : Int) + need live j := by
  simp [need]

private theorem need_append (gs live : List (List Nat)) (j : Nat) :
    need (gs ++ live) j = ((gs.flatten.count j : Nat) : Int) + need live j := by
  induction gs with
  | nil => simp [need]
  | cons g gs ih =>
    rw [List.cons_append, need_cons, ih]
    simp only [List.flatten_cons, List.count_append]
    omega

private theorem need_erase (g : List Nat) : ∀ (live : List (List Nat)) (j : Nat), g ∈ live →
    need live j = ((g.count j : Nat) : Int) + need (live.erase g) j := by
  intro live
  induction live with
  | nil => intro j h; simp at h
  | cons a l ih =>
    intro j h
    by_cases ha : a = g
    · subst ha; simp [need_cons]
    · have hm : g ∈ l := by
        rcases List.mem_cons.mp h with h' | h'
        · exact absurd h'.symm ha
        · exact h'
      have hbeq : (a == g) = false := by simpa using ha
      rw [List.erase_cons, hbeq]
      simp only [Bool.false_eq_true, if_false]
      rw [need_cons, need_cons, ih j hm]
      omega

private theorem count_le_need (g : List Nat) (j : Nat) (hj : j ∈ g) : ∀ (live : List (List Nat)),
    ((live.count g : Nat) : Int) ≤ need live j := by
  intro live
  induction live with
  | nil => simp [need]
  | cons a l ih =>
    rw [need_cons, List.count_cons]
    by_cases ha : a = g
    · subst ha
      have : 1 ≤ a.count j := List.count_pos_iff.mpr hj
      simp; omega
    · have hbeq : (a == g) = false := by simpa using ha
      simp only [hbeq, Bool.false_eq_true, if_false, Nat.add_zero]
      have : (0 : Int) ≤ ((a.count j : Nat) : Int) := by omega
      omega

/-- "only previously added items are removed": each group, at its turn, is still live -/
def Removable : List (List Nat) → List (List Nat) → Prop
  | _, [] => True
  | live, g :: gs => g ∈ live ∧ Removable (live.erase g) gs

def eraseAll : List (List Nat) → List (List Nat) → List (List Nat)
  | live, [] => live
  | live, g :: gs => eraseAll (live.erase g) gs

private theorem phase2_cover : ∀ (gs : List (List Nat)) (r : RS) (live : List (List Nat)),
    (∀ j, need live j ≤ r.ic j) → Removable live gs →
    ∀ j, need (eraseAll live gs) j ≤ (gs.foldl groupStep r).ic j := by
  intro gs
  induction gs with
  | nil => intro r live h _; exact h
  | cons g gs ih =>
    intro r live h hr
    obtain ⟨hmem, hrest⟩ := hr
    simp only [List.foldl_cons, eraseAll]
    apply ih _ _ _ hrest
    have hok : (decGroup r.ic g).2.2 = true := by
      rw [decGroup_ok_iff]
      intro j _
      have h1 := need_erase g live j hmem
      have h2 := need_nonneg (live.erase g) j
      have := h j
      omega
    intro j
    simp only [groupStep, hok, if_true]
    rw [decGroup_apply, decGroup_ok_temp g r.ic hok]
    have h1 := need_erase g live j hmem
    have := h j
    omega

/-- adding items keeps every counter covering the live items -/
theorem add_cover (n : Int) (gs live : List (List Nat)) (s : St) (h : Cover s.h live) :
    Cover (addScript n gs.flatten s).1.h (gs ++ live) := by
  intro j
  simp only [addScript, val_foldl_incr]
  rw [need_append]
  have := h j
  omega

/-- removing items that are live at their turn keeps every counter covering what remains -/
theorem remove_cover (k : Nat) (hk : 1 ≤ k) (gs live : List (List Nat)) (hlen : ∀ g ∈ gs, g.length = k)
    (s s' : St) (c : Int) (h : Cover s.h live) (hr : Removable live gs)
    (hs : removeScript k gs.flatten s = some (s', c)) : Cover s'.h (eraseAll live gs) := by
  intro j
  rw [removeScript_val k gs.flatten s s' c hs j, chunks_flatten k hk gs hlen]
  exact phase2_cover gs _ live (fun j => h j) hr j

/-! ### 8. histories of glue operations -/

inductive GOp where
  | add (keys : List (Nat × Nat))
  | remove (keys : List (Nat × Nat))

def groupsOf (c : Cfg) (keys : List (Nat × Nat)) : List (List Nat) := keys.map (itemIdx c.m c.k)

def applyG (c : Cfg) (s : St) : GOp → St
  | .add keys => addMulti c keys s
  | .remove keys => match removeMulti c keys s with | some s' => s' | none => s

/-- the multiset of items in the filter after an operation -/
def ghost (c : Cfg) (live : List (List Nat)) : GOp → List (List Nat)
  | .add keys => groupsOf c keys ++ live
  | .remove keys => eraseAll live (groupsOf c keys)

/-- the history only removes items that are in the filter at that moment -/
def ValidOps (c : Cfg) : List (List Nat) → List GOp → Prop
  | _, [] => True
  | live, op :: ops =>
    (match op with
      | .remove keys => Removable live (groupsOf c keys)
      | .add _ => True) ∧ ValidOps c (ghost c live op) ops

def runG (c : Cfg) (s : St) (ops : List GOp) : St := ops.foldl (applyG c) s
def ghostRun (c : Cfg) (live : List (List Nat)) (ops : List GOp) : List (List Nat) := ops.foldl (ghost c) live

private theorem groupsOf_len (c : Cfg) (keys : List (Nat × Nat)) : ∀ g ∈ groupsOf c keys, g.length = c.k := by
  intro g hg
  rcases List.mem_map.mp hg with ⟨key, _, rfl⟩
  simp [itemIdx]

private theorem applyG_cover (c : Cfg) (hk : 1 ≤ c.k) (s : St) (live : List (List Nat)) (op : GOp)
    (h : Cover s.h live)
    (hv : match op with | .remove keys => Removable live (groupsOf c keys) | .add _ => True) :
    Cover (applyG c s op).h (ghost c live op) := by
  cases op with
  | add keys =>
    by_cases hemp : keys.isEmpty
    · have : keys = [] := by simpa using hemp
      subst this
      simpa [applyG, addMulti, ghost, groupsOf] using h
    · simp only [applyG, addMulti, hemp, ghost]
      exact add_cover _ (groupsOf c keys) live s h
  | remove keys =>
    by_cases hemp : keys.isEmpty
    · have : keys = [] := by simpa using hemp
      subst this
      simpa [applyG, removeMulti, ghost, groupsOf, eraseAll] using h
    · have hs := removeScript_groups c.k hk (groupsOf c keys) (groupsOf_len c keys) s
      simp only [applyG, removeMulti, hemp, ghost, allIdx]
      have hs' : removeScript c.k (List.map (itemIdx c.m c.k) keys).flatten s = _ := hs
      rw [hs']
      simp only [Option.map_some]
      exact remove_cover c.k hk (groupsOf c keys) live (groupsOf_len c keys) s _ _ h hv hs

/-- through every history that only removes items present at that moment, every counter keeps
covering the items currently in the filter -/
theorem cover_run (c : Cfg) (hk : 1 ≤ c.k) : ∀ (ops : List GOp) (s : St) (live : List (List Nat)),
    Cover s.h live → ValidOps c live ops → Cover (runG c s ops).h (ghostRun c live ops) := by
  intro ops
  induction ops with
  | nil => intro s live h _; exact h
  | cons op ops ih =>
    intro s live h hv
    simp only [runG, ghostRun, List.foldl_cons]
    exact ih _ _ (applyG_cover c hk s live op h hv.1) hv.2

/-! ### 9. what the queries report -/

private theorem cover_nonneg (h : Ctrs) (live : List (List Nat)) (hc : Cover h live) (idxs : List Nat) :
    negative h idxs = false := by
  unfold negative
  rw [List.any_eq_false]
  intro x _
  have := hc x
  have := need_nonneg live x
  simp; omega

private theorem gfold_min (h : Ctrs) : ∀ (g : List Nat) (a : Nat) (res : List Nat),
    gfold (fun (res : List Nat) x => (res, h x)) (fun (acc : Nat) (v : Option Int) => min acc (v.getD 0).toNat) g a res
      = (res, g.foldl (fun a x => min a (val h x).toNat) a) := by
  intro g
  induction g with
  | nil => intro a res; simp [gfold]
  | cons x xs ih => intro a res; simp [gfold, ih, val]

private theorem gfold_and (h : Ctrs) : ∀ (g : List Nat) (a : Bool) (res : List Bool),
    gfold (fun (res : List Bool) x => (res, h x)) (fun (acc : Bool) (v : Option Int) => acc && (v.getD 0 != 0)) g a res
      = (res, g.foldl (fun a x => a && (val h x != 0)) a) := by
  intro g
  induction g with
  | nil => intro a res; simp [gfold]
  | cons x xs ih => intro a res; simp [gfold, ih, val]

private theorem le_foldl_min (f : Nat → Nat) (b : Nat) : ∀ (g : List Nat) (a : Nat), b ≤ a → (∀ x ∈ g, b ≤ f x) →
    b ≤ g.foldl (fun a x => min a (f x)) a := by
  intro g
  induction g with
  | nil => intro a h _; simpa using h
  | cons x xs ih =>
    intro a h hf
    simp only [List.foldl_cons]
    apply ih
    · have := hf x (by simp); omega
    · exact fun y hy => hf y (by simp [hy])

private theorem foldl_and_true (f : Nat → Bool) : ∀ (g : List Nat), (∀ x ∈ g, f x = true) →
    g.foldl (fun a x => a && f x) true = true := by
  intro g
  induction g with
  | nil => intro _; rfl
  | cons x xs ih =>
    intro hf
    simp only [List.foldl_cons, hf x (by simp), Bool.and_self]
    exact ih (fun y hy => hf y (by simp [hy]))

private theorem single_idx (c : Cfg) (key : Nat × Nat) : allIdx c.m c.k [key] = itemIdx c.m c.k key := by
  simp [allIdx]

private theorem itemIdx_nonempty (c : Cfg) (hk : 1 ≤ c.k) (key : Nat × Nat) : (itemIdx c.m c.k key).isEmpty = false := by
  have : (itemIdx c.m c.k key).length = c.k := by simp [itemIdx]
  cases h : itemIdx c.m c.k key with
  | nil => rw [h] at this; simp at this; omega
  | cons _ _ => rfl

/-- `min_count_ge_net` (state form): if every counter covers the items currently in the filter, then
`ItemMinCount key` succeeds and reports at least the number of copies of `key`'s index group among
them (its net multiplicity; bounded by uint64). -/
theorem min_count_ge_net (c : Cfg) (hk : 1 ≤ c.k) (s : St) (live : List (List Nat)) (hc : Cover s.h live)
    (key : Nat × Nat) (h64 : live.count (itemIdx c.m c.k key) ≤ maxU64) :
    ∃ v, itemMinCountMulti c [key] s = .ok [v] ∧ live.count (itemIdx c.m c.k key) ≤ v := by
  have hlen : (itemIdx c.m c.k key).length = c.k := by simp [itemIdx]
  have hloop := gloop_eq_gspec c.k hk (fun (res : List Nat) x => (res, s.h x))
    (fun (acc : Nat) (v : Option Int) => min acc (v.getD 0).toNat) maxU64 (fun res acc => res ++ [acc])
    [itemIdx c.m c.k key] 0 [] (by simp [hlen])
  simp only [List.flatten_cons, List.flatten_nil, List.append_nil, Nat.zero_mul, Nat.zero_add, gspec, gfold_min,
    List.nil_append] at hloop
  refine ⟨(itemIdx c.m c.k key).foldl (fun a x => min a (val s.h x).toNat) maxU64, ?_, ?_⟩
  · simp only [itemMinCountMulti, List.isEmpty_cons, Bool.false_eq_true, if_false, single_idx,
      itemIdx_nonempty c hk key, cover_nonneg s.h live hc, hloop]
  · apply le_foldl_min _ _ _ _ h64
    intro x hx
    have h1 := count_le_need (itemIdx c.m c.k key) x hx live
    have h2 := hc x
    omega

/-- `present_if_net_positive` (state form): an item with at least one copy in the filter is
reported present -/
theorem present_if_net_positive (c : Cfg) (hk : 1 ≤ c.k) (s : St) (live : List (List Nat)) (hc : Cover s.h live)
    (key : Nat × Nat) (hpos : 1 ≤ live.count (itemIdx c.m c.k key)) :
    existsMulti c [key] s = .ok [true] := by
  have hlen : (itemIdx c.m c.k key).length = c.k := by simp [itemIdx]
  have hloop := gloop_eq_gspec c.k hk (fun (res : List Bool) x => (res, s.h x))
    (fun (acc : Bool) (v : Option Int) => acc && (v.getD 0 != 0)) true (fun res acc => res ++ [acc])
    [itemIdx c.m c.k key] 0 [] (by simp [hlen])
  simp only [List.flatten_cons, List.flatten_nil, List.append_nil, Nat.zero_mul, Nat.zero_add, gspec, gfold_and,
    List.nil_append] at hloop
  have hall : (itemIdx c.m c.k key).foldl (fun a x => a && (val s.h x != 0)) true = true := by
    apply foldl_and_true
    intro x hx
    have h1 := count_le_need (itemIdx c.m c.k key) x hx live
    have h2 := hc x
    have : val s.h x ≠ 0 := by omega
    simpa using this
  simp only [existsMulti, List.isEmpty_cons, Bool.false_eq_true, if_false, single_idx,
    itemIdx_nonempty c hk key, cover_nonneg s.h live hc, hloop, hall]

/-- `min_count_ge_net` / `present_if_net_positive` for whole histories: start from any state without
negative counters, run any history of `Add/AddMulti/Remove/RemoveMulti` that only removes items
present at that moment (sequentially within a multi-call). Then `ItemMinCount key` is at least the
net multiplicity of `key` (adds minus removes of items with `key`'s index group), and `Exists key`
is true when that multiplicity is positive. -/
theorem history_counts (c : Cfg) (hk : 1 ≤ c.k) (s0 : St) (h0 : NonNeg s0) (ops : List GOp)
    (hv : ValidOps c [] ops) (key : Nat × Nat)
    (h64 : (ghostRun c [] ops).count (itemIdx c.m c.k key) ≤ maxU64) :
    (∃ v, itemMinCountMulti c [key] (runG c s0 ops) = .ok [v] ∧
      (ghostRun c [] ops).count (itemIdx c.m c.k key) ≤ v) ∧
    (1 ≤ (ghostRun c [] ops).count (itemIdx c.m c.k key) → existsMulti c [key] (runG c s0 ops) = .ok [true]) := by
  have hc0 : Cover s0.h [] := by
    intro j; have := h0 j; simpa [need] using this
  have hc := cover_run c hk ops s0 [] hc0 hv
  exact ⟨min_count_ge_net c hk _ _ hc key h64, present_if_net_positive c hk _ _ hc key⟩

/-- the hypothesis cannot be dropped: removing a never-added item whose indexes collide with added
ones succeeds and produces a false negative (m = 7, k = 2: `aa` has indexes 5,1; `bb` 2,4; `cc` 1,2) -/
theorem remove_of_never_added_breaks :
    let c : Cfg := ⟨7, 2⟩
    let s := runG c St.init [.add [(5, 3), (9, 2)], .add [(5, 3)], .remove [(5, 3), (1, 1)]]
    (match existsMulti c [(5, 3)] s with | .ok r => r | _ => []) = [false] := by
  decide

/-- non-vacuity of `ValidOps` -/
example : ValidOps ⟨7, 2⟩ [] [.add [(5, 3), (9, 2)], .remove [(5, 3)], .add [(5, 3)], .remove [(9, 2), (5, 3)]] := by
  simp only [ValidOps, Removable, ghost, groupsOf, eraseAll, List.map]
  decide

end Rv.C36
