/-
C18 — key slots follow the Redis Cluster hash-slot specification.
Property theorems only (helper lemmas are local and marked `private`).
-/
import Rv.Model.Slot
import Rv.Spec.Slot
namespace Rv.C18
open Rv.Slot Rv.Spec.Slot

/-! ### The regenerated table is the XMODEM table -/

theorem table_len : Rv.Gen.crc16tab.length = 256 := by decide +kernel

theorem table_ok : ∀ i, i < 256 → tab i = rounds 8 (BitVec.ofNat 16 i <<< 8) := by decide +kernel

/-! ### helper lemmas -/

private theorem round_xor (x y : W) : round (x ^^^ y) = round x ^^^ round y := by
  unfold round
  cases hx : x.msb <;> cases hy : y.msb <;>
    simp [BitVec.msb_xor, hx, hy, BitVec.shiftLeft_xor_distrib]
  · ac_rfl
  · ac_rfl
  · have : x <<< 1 ^^^ poly ^^^ (y <<< 1 ^^^ poly) = x <<< 1 ^^^ y <<< 1 ^^^ (poly ^^^ poly) := by ac_rfl
    rw [this, BitVec.xor_self, BitVec.xor_zero]

private theorem rounds_xor (n : Nat) (x y : W) : rounds n (x ^^^ y) = rounds n x ^^^ rounds n y := by
  induction n generalizing x y with
  | zero => rfl
  | succ n ih => simp [rounds, round_xor, ih]

private theorem rounds8_low : ∀ n, n < 256 → rounds 8 (BitVec.ofNat 16 n) = BitVec.ofNat 16 n <<< 8 := by
  decide +kernel

private def lo (c : W) : W := (c.setWidth 8).setWidth 16

private theorem split (c : W) : c = ((c >>> 8) <<< 8) ^^^ lo c := by
  ext i hi
  simp [lo, BitVec.getElem_shiftLeft, BitVec.getElem_setWidth, BitVec.getLsbD_setWidth]
  by_cases h : i < 8 <;> simp [h]
  · simp [BitVec.getLsbD_eq_getElem hi]
  · have : 8 + (i - 8) = i := by omega
    simp [this, BitVec.getLsbD_eq_getElem hi]

private theorem lo_shift (c : W) : (lo c) <<< 8 = c <<< 8 := by
  ext i hi
  simp [lo, BitVec.getElem_shiftLeft, BitVec.getLsbD_setWidth]
  by_cases h : i < 8 <;> simp [h]
  have : i - 8 < 8 := by omega
  have h2 : i - 8 < 16 := by omega
  simp [this, BitVec.getLsbD_eq_getElem h2]

private theorem lo_ofNat (c : W) : lo c = BitVec.ofNat 16 (c.toNat % 256) := by
  apply BitVec.eq_of_toNat_eq
  simp [lo]

/-! ### Property theorems -/

/-- one table-driven step of the Go loop equals one byte of bit-serial XMODEM, for every state and byte -/
theorem stepTab_eq_spec (crc : W) (b : UInt8) : stepTab crc b = specStep crc b := by
  have hb : b.toNat < 256 := b.toNat_lt
  have hhi : (crc >>> 8).toNat < 256 := by
    simp [BitVec.toNat_ushiftRight, Nat.shiftRight_eq_div_pow]; omega
  have hidx : ((crc >>> 8).toNat % 256 ^^^ b.toNat) % 256 = (crc >>> 8).toNat ^^^ b.toNat := by
    have : (crc >>> 8).toNat ^^^ b.toNat < 2 ^ 8 := Nat.xor_lt_two_pow (n := 8) hhi hb
    rw [Nat.mod_eq_of_lt hhi, Nat.mod_eq_of_lt this]
  have hlo : rounds 8 (lo crc) = crc <<< 8 := by
    rw [lo_ofNat, rounds8_low _ (Nat.mod_lt _ (by decide)), ← lo_ofNat, lo_shift]
  have hB : BitVec.ofNat 16 ((crc >>> 8).toNat ^^^ b.toNat) = (crc >>> 8) ^^^ BitVec.ofNat 16 b.toNat := by
    rw [BitVec.ofNat_xor, BitVec.ofNat_toNat, BitVec.setWidth_eq]
  unfold stepTab specStep
  rw [hidx, table_ok _ (Nat.xor_lt_two_pow (n := 8) hhi hb), hB]
  conv => rhs; rw [split crc]
  rw [show ((crc >>> 8) <<< 8 ^^^ lo crc) ^^^ (BitVec.ofNat 16 b.toNat <<< 8)
        = (((crc >>> 8) ^^^ BitVec.ofNat 16 b.toNat) <<< 8) ^^^ lo crc by
        rw [BitVec.shiftLeft_xor_distrib]; ac_rfl]
  rw [rounds_xor, hlo]
  ac_rfl

/-- the table-driven `crc16` of slot.go is CRC16/XMODEM on every byte string -/
theorem crc16_eq_spec (key : List UInt8) : crc16 key = crcSpec key := by
  unfold crc16 crcSpec
  generalize (0 : W) = c
  induction key generalizing c with
  | nil => rfl
  | cons b bs ih => simp [List.foldl, stepTab_eq_spec, ih]

end Rv.C18

namespace Rv.C18
open Rv.Slot Rv.Spec.Slot

/-! ### hash-tag scan (the two Go index loops) equals the Redis rule -/

private theorem scan_eq (c : UInt8) (l : List UInt8) (s : Nat) :
    scan c l s = s + (l.takeWhile (fun x => x != c)).length := by
  induction l generalizing s with
  | nil => simp [scan]
  | cons x xs ih =>
    by_cases h : x = c
    · simp [scan, h]
    · simp [scan, h, ih]; omega

private theorem take_takeWhile (p : UInt8 → Bool) (l : List UInt8) :
    l.take (l.takeWhile p).length = l.takeWhile p := by
  induction l with
  | nil => rfl
  | cons x xs ih =>
    by_cases h : p x <;> simp [List.takeWhile, h, ih]

private theorem drop_takeWhile (p : UInt8 → Bool) (l : List UInt8) :
    l.drop (l.takeWhile p).length = l.dropWhile p := by
  induction l with
  | nil => rfl
  | cons x xs ih =>
    by_cases h : p x <;> simp [List.takeWhile, List.dropWhile, h, ih]

private theorem len_split (p : UInt8 → Bool) (l : List UInt8) :
    (l.takeWhile p).length + (l.dropWhile p).length = l.length := by
  rw [← List.length_append, List.takeWhile_append_dropWhile]

/-- **C18 main theorem**: for every key byte string, the slot computed by the Go
    loops is CRC16/XMODEM of the key's hash tag modulo 16384. -/
theorem slot_eq_spec (key : List UInt8) : slot key = slotSpec key := by
  unfold slot slotSpec hashtag
  simp only [scan_eq, Nat.zero_add]
  have hlen := len_split (fun x => x != 123) key
  have hdrop := drop_takeWhile (fun x => x != 123) key
  generalize hs : (key.takeWhile (fun x => x != 123)).length = s at *
  cases hd : key.dropWhile (fun x => x != 123) with
  | nil =>
    rw [hd] at hlen
    have : s = key.length := by simpa using hlen
    simp [this, crc16_eq_spec]
  | cons b rest =>
    rw [hd, List.length_cons] at hlen
    have hne : s ≠ key.length := by omega
    have hrest : key.drop (s + 1) = rest := by
      rw [← List.drop_drop, hdrop, hd]; rfl
    have hl2 := len_split (fun x => x != 125) rest
    simp only [hne, if_false, hrest]
    generalize ht : rest.takeWhile (fun x => x != 125) = tag at *
    have he1 : (s + 1 + tag.length = key.length) ↔ (tag.length = rest.length) := by omega
    have he2 : (s + 1 + tag.length = s + 1) ↔ tag = [] := by
      rw [← List.length_eq_zero_iff]; omega
    simp only [he1, he2]
    split
    · simp [crc16_eq_spec]
    · have : s + 1 + tag.length - (s + 1) = tag.length := by omega
      rw [this, ← ht, take_takeWhile, crc16_eq_spec]

theorem slot_lt (key : List UInt8) : slot key < 16384 := by
  rw [slot_eq_spec]; unfold slotSpec; omega

/-! ### cross-slot rejection by cluster builders, acceptance by non-cluster builders -/

/-- a cluster builder (`ks = InitSlot`) accepts a key sequence iff all keys share the
    first key's slot, and then reports exactly that slot; otherwise it panics -/
theorem cluster_builder_keys (k : List UInt8) (ks : List (List UInt8)) :
    keyFold initSlot (k :: ks) =
      if ∀ x ∈ ks, slot x = slot k then some (slot k) else none := by
  have h0 : keyStep initSlot k = some (slot k) := by
    simp [keyStep, check, initSlot, noSlot]
  simp only [keyFold, h0]
  have hk := slot_lt k
  generalize slot k = v at *
  induction ks with
  | nil => simp [keyFold]
  | cons y ys ih =>
    have hy := slot_lt y
    have hn : ¬ (v / noSlot % 2 = 1) := by simp [noSlot]; omega
    have hi : v ≠ initSlot := by simp [initSlot]; omega
    by_cases e : slot y = v
    · simp [keyFold, keyStep, hn, check, hi, e, ih]
    · have e' : ¬ v = slot y := fun h => e h.symm
      simp [keyFold, keyStep, hn, check, hi, e, e']

/-- a non-cluster builder (`ks = NoSlot`) never rejects, whatever the keys' slots -/
theorem noslot_builder_accepts (keys : List (List UInt8)) (s : Nat) (hs : s < 16384) :
    ∃ v, keyFold (noSlot + s) keys = some v := by
  induction keys generalizing s with
  | nil => exact ⟨_, rfl⟩
  | cons k ks ih =>
    have h1 : (noSlot + s) / noSlot % 2 = 1 := by simp [noSlot]; omega
    simp only [keyFold, keyStep, h1, if_true]
    exact ih _ (slot_lt k)

/-! ### non-vacuity / sanity examples -/
example : crc16 "123456789".toUTF8.toList = 0x31C3#16 := by decide +kernel
example : slot "{user1000}.following".toUTF8.toList = slot "{user1000}.followers".toUTF8.toList := by
  decide +kernel
example : hashtag "foo{}{bar}".toUTF8.toList = "foo{}{bar}".toUTF8.toList := by decide +kernel
example : hashtag "foo{{bar}}zap".toUTF8.toList = "{bar".toUTF8.toList := by decide +kernel
example : keyFold initSlot ["{a}1".toUTF8.toList, "{a}2".toUTF8.toList] ≠ none := by decide +kernel
example : keyFold initSlot ["a".toUTF8.toList, "b".toUTF8.toList] = none := by decide +kernel

end Rv.C18
