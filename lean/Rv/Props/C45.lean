/-
C45 — vector and binary helpers round-trip.
Model: Rv/Model/Binary.lean (binary.go on IEEE bit patterns).
-/
import Rv.Model.Binary
namespace Rv.C45
open Rv.Binary

/-! ### helper lemmas: shifts and `|` as arithmetic -/

private theorem or_shl (lo hi k : Nat) (h : lo < 2 ^ k) : lo ||| hi <<< k = lo + hi * 2 ^ k := by
  rw [Nat.or_comm, ← Nat.shiftLeft_add_eq_or_of_lt h, Nat.shiftLeft_eq, Nat.add_comm]

private theorem fromLE32_arith (b0 b1 b2 b3 : Nat) (h0 : b0 < 256) (h1 : b1 < 256) (h2 : b2 < 256) :
    fromLE32 b0 b1 b2 b3 = b0 + b1 * 256 + b2 * 65536 + b3 * 16777216 := by
  unfold fromLE32
  rw [or_shl b0 b1 8 (by omega)]
  rw [or_shl _ b2 16 (by omega)]
  rw [or_shl _ b3 24 (by omega)]

private theorem fromLE64_arith (b0 b1 b2 b3 b4 b5 b6 b7 : Nat)
    (h0 : b0 < 256) (h1 : b1 < 256) (h2 : b2 < 256) (h3 : b3 < 256) (h4 : b4 < 256) (h5 : b5 < 256) (h6 : b6 < 256) :
    fromLE64 b0 b1 b2 b3 b4 b5 b6 b7 =
      b0 + b1 * 256 + b2 * 65536 + b3 * 16777216 + b4 * 4294967296 + b5 * 1099511627776
        + b6 * 281474976710656 + b7 * 72057594037927936 := by
  unfold fromLE64
  rw [or_shl b0 b1 8 (by omega)]
  rw [or_shl _ b2 16 (by omega)]
  rw [or_shl _ b3 24 (by omega)]
  rw [or_shl _ b4 32 (by omega)]
  rw [or_shl _ b5 40 (by omega)]
  rw [or_shl _ b6 48 (by omega)]
  rw [or_shl _ b7 56 (by omega)]

private theorem le32_arith (v : Nat) :
    le32 v = [v % 256, v / 256 % 256, v / 65536 % 256, v / 16777216 % 256] := by
  simp [le32, Nat.shiftRight_eq_div_pow]

private theorem le64_arith (v : Nat) :
    le64 v = [v % 256, v / 256 % 256, v / 65536 % 256, v / 16777216 % 256, v / 4294967296 % 256,
      v / 1099511627776 % 256, v / 281474976710656 % 256, v / 72057594037927936 % 256] := by
  simp [le64, Nat.shiftRight_eq_div_pow]

/-! ### one element -/

/-- reading back the 4 bytes written for a 32-bit pattern gives the pattern, bit for bit -/
theorem le32_roundtrip (v : Nat) (hv : v < 2 ^ 32) :
    fromLE32 (v % 256) (v / 256 % 256) (v / 65536 % 256) (v / 16777216 % 256) = v := by
  rw [fromLE32_arith _ _ _ _ (by omega) (by omega) (by omega)]
  omega

theorem le64_roundtrip (v : Nat) (hv : v < 2 ^ 64) :
    fromLE64 (v % 256) (v / 256 % 256) (v / 65536 % 256) (v / 16777216 % 256) (v / 4294967296 % 256)
      (v / 1099511627776 % 256) (v / 281474976710656 % 256) (v / 72057594037927936 % 256) = v := by
  rw [fromLE64_arith _ _ _ _ _ _ _ _ (by omega) (by omega) (by omega) (by omega) (by omega) (by omega) (by omega)]
  omega

/-! ### Property theorems -/

/-- `ToVector32(VectorString32(v)) = v` bit for bit, for every list of 32-bit patterns
    (NaN payloads, signed zeros, infinities, denormals are just patterns) -/
theorem vector32_roundtrip (v : List Nat) (hv : ∀ x ∈ v, x < 2 ^ 32) :
    toVector32 (vectorString32 v) = some v := by
  induction v with
  | nil => rfl
  | cons x xs ih =>
    have hx := hv x (List.mem_cons_self ..)
    have ih' := ih (fun y hy => hv y (List.mem_cons_of_mem _ hy))
    simp only [vectorString32, binaryString, List.flatMap_cons, le32_arith] at ih' ⊢
    simp only [List.cons_append, List.nil_append, toVector32, ih', Option.map_some, le32_roundtrip x hx]

theorem vector64_roundtrip (v : List Nat) (hv : ∀ x ∈ v, x < 2 ^ 64) :
    toVector64 (vectorString64 v) = some v := by
  induction v with
  | nil => rfl
  | cons x xs ih =>
    have hx := hv x (List.mem_cons_self ..)
    have ih' := ih (fun y hy => hv y (List.mem_cons_of_mem _ hy))
    simp only [vectorString64, binaryString, List.flatMap_cons, le64_arith] at ih' ⊢
    simp only [List.cons_append, List.nil_append, toVector64, ih', Option.map_some, le64_roundtrip x hx]

/-- the string has exactly 4 bytes per element, each a byte -/
theorem vectorString32_length (v : List Nat) : (vectorString32 v).length = 4 * v.length := by
  induction v with
  | nil => rfl
  | cons x xs ih => simp only [vectorString32, binaryString, List.flatMap_cons, List.length_append] at ih ⊢; rw [ih]; simp [le32]; omega

theorem vectorString64_length (v : List Nat) : (vectorString64 v).length = 8 * v.length := by
  induction v with
  | nil => rfl
  | cons x xs ih => simp only [vectorString64, binaryString, List.flatMap_cons, List.length_append] at ih ⊢; rw [ih]; simp [le64]; omega

theorem vectorString32_bytes (v : List Nat) : ∀ b ∈ vectorString32 v, b < 256 := by
  intro b hb
  simp only [vectorString32, binaryString, List.mem_flatMap, le32] at hb
  obtain ⟨x, _, hx⟩ := hb
  simp at hx; omega

theorem vectorString64_bytes (v : List Nat) : ∀ b ∈ vectorString64 v, b < 256 := by
  intro b hb
  simp only [vectorString64, binaryString, List.mem_flatMap, le64] at hb
  obtain ⟨x, _, hx⟩ := hb
  simp at hx; omega

/-- what `ToVector32` does on an arbitrary string: it succeeds exactly when the length is a multiple
    of 4 (then with `len/4` elements) and panics (slice bounds out of range) otherwise -/
theorem toVector32_defined_iff (s : List Nat) :
    (s.length % 4 = 0 → ∃ v, toVector32 s = some v ∧ v.length = s.length / 4) ∧
    (s.length % 4 ≠ 0 → toVector32 s = none) := by
  fun_induction toVector32 s with
  | case1 => simp
  | case2 b0 b1 b2 b3 rest ih =>
    constructor
    · intro h
      obtain ⟨v, hv, hl⟩ := ih.1 (by simp at h; omega)
      exact ⟨_, by rw [hv]; rfl, by simp [hl]; omega⟩
    · intro h
      rw [ih.2 (by simp at h; omega)]; rfl
  | case3 s h0 h4 =>
    have hlen : s.length % 4 ≠ 0 := by
      match s, h0, h4 with
      | [], h0, _ => exact absurd rfl h0
      | [_], _, _ => simp
      | [_, _], _, _ => simp
      | [_, _, _], _, _ => simp
      | a :: b :: c :: d :: r, _, h4 => exact absurd rfl (h4 a b c d r)
    exact ⟨fun h => absurd h hlen, fun _ => rfl⟩

theorem toVector64_defined_iff (s : List Nat) :
    (s.length % 8 = 0 → ∃ v, toVector64 s = some v ∧ v.length = s.length / 8) ∧
    (s.length % 8 ≠ 0 → toVector64 s = none) := by
  fun_induction toVector64 s with
  | case1 => simp
  | case2 b0 b1 b2 b3 b4 b5 b6 b7 rest ih =>
    constructor
    · intro h
      obtain ⟨v, hv, hl⟩ := ih.1 (by simp at h; omega)
      exact ⟨_, by rw [hv]; rfl, by simp [hl]; omega⟩
    · intro h
      rw [ih.2 (by simp at h; omega)]; rfl
  | case3 s h0 h8 =>
    have hlen : s.length % 8 ≠ 0 := by
      match s, h0, h8 with
      | [], h0, _ => exact absurd rfl h0
      | [_], _, _ => simp
      | [_, _], _, _ => simp
      | [_, _, _], _, _ => simp
      | [_, _, _, _], _, _ => simp
      | [_, _, _, _, _], _, _ => simp
      | [_, _, _, _, _, _], _, _ => simp
      | [_, _, _, _, _, _, _], _, _ => simp
      | a :: b :: c :: d :: e :: f :: g :: h :: r, _, h8 => exact absurd rfl (h8 a b c d e f g h r)
    exact ⟨fun h => absurd h hlen, fun _ => rfl⟩

/-- the other direction: whatever byte string `ToVector32` accepts is reproduced by `VectorString32`
    (the two functions are inverse bijections between pattern lists and strings of length 4n) -/
theorem vectorString32_toVector32 (s v : List Nat) (hs : ∀ b ∈ s, b < 256) (h : toVector32 s = some v) :
    vectorString32 v = s ∧ ∀ x ∈ v, x < 2 ^ 32 := by
  fun_induction toVector32 s generalizing v with
  | case1 => cases h; exact ⟨rfl, by simp⟩
  | case2 b0 b1 b2 b3 rest ih =>
    cases hr : toVector32 rest with
    | none => rw [hr] at h; cases h
    | some w =>
      rw [hr] at h; cases h
      have h0 := hs b0 (by simp)
      have h1 := hs b1 (by simp)
      have h2 := hs b2 (by simp)
      have h3 := hs b3 (by simp)
      obtain ⟨e, hw⟩ := ih w (fun b hb => hs b (by simp [hb])) hr
      have ha := fromLE32_arith b0 b1 b2 b3 h0 h1 h2
      constructor
      · simp only [vectorString32, binaryString, List.flatMap_cons, le32_arith] at e ⊢
        rw [e, ha]
        have e0 : (b0 + b1 * 256 + b2 * 65536 + b3 * 16777216) % 256 = b0 := by omega
        have e1 : (b0 + b1 * 256 + b2 * 65536 + b3 * 16777216) / 256 % 256 = b1 := by omega
        have e2 : (b0 + b1 * 256 + b2 * 65536 + b3 * 16777216) / 65536 % 256 = b2 := by omega
        have e3 : (b0 + b1 * 256 + b2 * 65536 + b3 * 16777216) / 16777216 % 256 = b3 := by omega
        rw [e0, e1, e2, e3]; rfl
      · intro x hx
        rcases List.mem_cons.1 hx with rfl | hx
        · rw [ha]; omega
        · exact hw x hx
  | case3 s h0 h4 => cases h

/-- `BinaryString(b)` has exactly b's bytes -/
theorem binaryString_bytes (bs : List Nat) : binaryString bs = bs := rfl

/-- `JSON(x)` is the standard encoding whenever `json.Marshal` succeeds, and panics exactly when it fails -/
theorem json_eq_marshal {α ε : Type} (marshal : α → Except ε (List Nat)) (x : α) :
    (∀ bs, marshal x = .ok bs → json marshal x = some bs) ∧
    (∀ e, marshal x = .error e → json marshal x = none) := by
  constructor
  · intro bs h; simp [json, h, binaryString]
  · intro e h; simp [json, h]

/-! ### non-vacuity (1.0f = 0x3f800000, a signalling NaN with payload, -0.0) -/

example : vectorString32 [0x3f800000] = [0, 0, 0x80, 0x3f] := by decide
example : toVector32 (vectorString32 [0x7fa00001, 0x80000000, 0x00000001]) = some [0x7fa00001, 0x80000000, 0x00000001] := by decide
example : toVector32 [1, 2, 3, 4, 5] = none := by decide
example : toVector64 (vectorString64 [0x7ff0000000000001, 0x8000000000000000]) = some [0x7ff0000000000001, 0x8000000000000000] := by decide

end Rv.C45
