/-
C04 at store level: when the connection is lost the cache store is closed, and every caller blocked on a cached
read (a waiter of a pending entry) must be released with the error — for every store state.
-/
import Rv.Props.C09
namespace Rv.C04
open Rv.Lru

/-- `lru.Close(err)` wakes the waiters of EVERY pending entry with `err`, whatever the order of the recency list
    (completed entries may sit behind pending ones after a promotion), and empties the store -/
theorem close_releases_every_pending_waiter (s : State) (err : Nat) :
    (∀ e ∈ s.list, e.pend = true → (e.id, Outcome.err err) ∈ (close s err).done) ∧ (close s err).list = [] :=
  ⟨(Rv.C09.close_releases_every_pending_waiter s err).1, rfl⟩

/-- the same for the adapter store -/
theorem adapter_close_releases_every_pending_waiter (s : Adapter.State) (err : Nat) (k c : Bytes) (e : Adapter.AEntry)
    (h : Adapter.slot s k c = some (some e)) : (e.id, Outcome.err err) ∈ (Adapter.close s err).done :=
  Rv.C09.adapter_close_releases_every_pending_waiter s err k c e h

/-- a list order with a completed entry behind a pending one (after the 1024th-hit promotion): Close still fails the
    pending flight -/
theorem close_after_promotion_witness :
    let a : Bytes := [97]; let b : Bytes := [98]; let g : Bytes := [71]
    let s := run (Lru.init 100000 336)
      [.flight b g 1000000000000 0, .update b g 1 50 0, .flight a g 1000000000000 0,
       .sethits b 1023, .flight b g 1000000000000 1000000]
    s.list.map (fun e => (e.key, e.pend)) = [(a, true), (b, false)] ∧
    (close s 7).done = s.done ++ [(1, Outcome.err 7)] := by decide

end Rv.C04
