/-
C42 — the go-redis adapter sends the same commands as go-redis.  PARTIAL BY CONSTRUCTION:
the reference (Rv.GoRedisArgv.G) is a hand transcription of go-redis v9 for the methods listed in
`Rv.GoRedisArgv.covered`; go-redis itself is not available offline.
-/
import Rv.Spec.GoRedisArgv
namespace Rv.C42
open Rv.GoRedisArgv

/-! ### normalize -/

theorem normTok_idem (t : Tok) : normTok (normTok t) = normTok t := by cases t <;> rfl

/-- normalisation is idempotent -/
theorem normalize_idem (ts : List Tok) : normalize (normalize ts) = normalize ts := by
  simp [normalize, List.map_map, Function.comp_def, normTok_idem]

theorem norm_idem (o : Out) : o.norm.norm = o.norm := by
  cases o <;> simp [Out.norm, normalize_idem]

/-- normalisation is a congruence for building argv: it distributes over cons and append, so equal
    (normalised) parts give equal (normalised) wholes -/
theorem normalize_append (a b : List Tok) : normalize (a ++ b) = normalize a ++ normalize b := by
  simp [normalize]

theorem normalize_cons (t : Tok) (ts : List Tok) : normalize (t :: ts) = normTok t :: normalize ts := rfl

theorem normalize_congr {a a' b b' : List Tok} (h1 : normalize a = normalize a') (h2 : normalize b = normalize b') :
    normalize (a ++ b) = normalize (a' ++ b') := by
  rw [normalize_append, normalize_append, h1, h2]

/-- normalisation never touches user data and keeps length and positions -/
theorem normalize_keeps_data (ts : List Tok) :
    (normalize ts).length = ts.length ∧ ∀ s, Tok.str s ∈ normalize ts ↔ Tok.str s ∈ ts := by
  refine ⟨by simp [normalize], fun s => ?_⟩
  simp only [normalize, List.mem_map]
  constructor
  · rintro ⟨t, ht, h⟩; cases t <;> simp_all [normTok]
  · intro h; exact ⟨_, h, rfl⟩

/-- keyword case is the only thing that distinguishes the two libraries' spelling of a keyword -/
theorem kw_case_irrelevant (n : String) (a b : Bool) : normTok (.kw n a) = normTok (.kw n b) := rfl

private theorem ttl_same (d : Int) : normalize (ttlToks U d) = normalize (ttlToks L d) := by
  unfold ttlToks; split <;> rfl

/-! ### Per-method statements: for ALL argument values of the modelled shape -/

/-- all 41 "name + arguments in order" methods of `simpleTable` -/
theorem simple_same (name : String) (vs : List Val) : (A.simple name vs).norm = (G.simple name vs).norm := by
  simp [A.simple, G.simple, Out.norm, normalize, normTok]

theorem set_same (k v : String) (e : Int) : (A.set k v e).norm = (G.set k v e).norm := by
  simp only [A.set, G.set, Out.norm, Out.argv.injEq]
  apply normalize_congr rfl
  split
  · exact ttl_same e
  · split <;> rfl

/-- SetArgs, whenever the adapter accepts the mode ("" / NX / XX in any letter case) -/
theorem setArgs_same (k v mode : String) (ttl : Int) (he : Bool) (ex : Int) (g kp : Bool)
    (hm : (mode.toUpper == "XX" || mode.toUpper == "NX" || mode == "") = true) :
    (A.setArgs k v mode ttl he ex g kp).norm = (G.setArgs k v mode ttl he ex g kp).norm := by
  simp only [A.setArgs, G.setArgs, hm, if_true, Out.norm, Out.argv.injEq]
  repeat rw [normalize_append]
  congr 1
  · congr 1
    · congr 1
      · congr 1
        · cases kp <;> rfl
        · cases he <;> rfl
      · split
        · exact ttl_same ttl
        · rfl
    · split <;> rfl
  · cases g <;> rfl

/-- an unknown mode: go-redis forwards it (Redis answers with a syntax error), the adapter panics
    and sends nothing -/
theorem setArgs_invalid_mode_sends_nothing (k v mode : String) (ttl : Int) (he : Bool) (ex : Int) (g kp : Bool)
    (hm : (mode.toUpper == "XX" || mode.toUpper == "NX" || mode == "") = false) :
    A.setArgs k v mode ttl he ex g kp = .nothing := by
  simp [A.setArgs, hm]

/-- same tokens and same first three positions (SET key value), options possibly in another order -/
def sameUpToOptionOrder : Out → Out → Prop
  | .argv a, .argv g => a.Perm g ∧ a.take 3 = g.take 3
  | _, _ => False

private theorem perm_tail_swap (p : List Tok) (x : Tok) (t : List Tok) :
    (p ++ x :: t).Perm (p ++ t ++ [x]) := by
  rw [List.append_assoc]
  exact List.Perm.append_left p (List.perm_append_singleton x t).symm

/-- SetNX / SetXX with an expiry: same tokens, same first three positions (SET key value), but the
    adapter's builder puts NX/XX BEFORE the expiry while go-redis appends it AFTER — equal only up to
    the order of SET's options.  MISSING: equality under `normalize` alone does not hold. -/
theorem setNX_upto_option_order_partial (k v : String) (e : Int) :
    sameUpToOptionOrder (A.setNX k v e).norm (G.setNX k v e).norm := by
  unfold A.setNX G.setNX
  by_cases h0 : (e == 0) = true
  · simp only [h0, if_true, Out.norm, sameUpToOptionOrder]
    exact ⟨List.Perm.refl _, rfl⟩
  · by_cases h1 : (e == keepTTL) = true
    · simp only [h0, h1, if_true, Out.norm, sameUpToOptionOrder]
      refine ⟨?_, rfl⟩
      show ([U "SET", S k, S v] ++ [U "NX", U "KEEPTTL"]).Perm ([U "SET", S k, S v] ++ [U "KEEPTTL", U "NX"])
      exact List.Perm.append_left _ (List.Perm.swap _ _ _)
    · simp only [h0, h1, Out.norm, sameUpToOptionOrder]
      have h := ttl_same e
      refine ⟨?_, ?_⟩
      · have e1 : normalize ([U "SET", S k, S v, U "NX"] ++ ttlToks U e)
            = [U "SET", S k, S v] ++ U "NX" :: normalize (ttlToks L e) := by
          rw [normalize_append, h]; rfl
        have e2 : normalize ([L "SET", S k, S v] ++ ttlToks L e ++ [L "NX"])
            = [U "SET", S k, S v] ++ normalize (ttlToks L e) ++ [U "NX"] := by
          rw [normalize_append, normalize_append]; rfl
        rw [e1, e2]
        exact perm_tail_swap _ _ _
      · unfold ttlToks; split <;> rfl

theorem setXX_upto_option_order_partial (k v : String) (e : Int) :
    sameUpToOptionOrder (A.setXX k v e).norm (G.setXX k v e).norm := by
  unfold A.setXX G.setXX
  simp only [Out.norm, sameUpToOptionOrder]
  have h : normalize (if 0 < e then ttlToks U e else if (e == keepTTL) = true then [U "KEEPTTL"] else [])
      = normalize (if 0 < e then ttlToks L e else if (e == keepTTL) = true then [L "KEEPTTL"] else []) := by
    split
    · exact ttl_same e
    · split <;> rfl
  refine ⟨?_, rfl⟩
  have e1 : normalize ([U "SET", S k, S v, U "XX"] ++ if 0 < e then ttlToks U e else if (e == keepTTL) = true then [U "KEEPTTL"] else [])
      = [U "SET", S k, S v] ++ U "XX" :: normalize (if 0 < e then ttlToks L e else if (e == keepTTL) = true then [L "KEEPTTL"] else []) := by
    rw [normalize_append, h]; rfl
  have e2 : normalize ([L "SET", S k, S v] ++ (if 0 < e then ttlToks L e else if (e == keepTTL) = true then [L "KEEPTTL"] else []) ++ [L "XX"])
      = [U "SET", S k, S v] ++ normalize (if 0 < e then ttlToks L e else if (e == keepTTL) = true then [L "KEEPTTL"] else []) ++ [U "XX"] := by
    rw [normalize_append, normalize_append]; rfl
  rw [e1, e2]
  exact perm_tail_swap _ _ _

/-- the option order really differs: witness -/
theorem setNX_order_differs : (A.setNX "k" "v" sec).norm ≠ (G.setNX "k" "v" sec).norm := by decide

/-- GetEx for every expiration: positive (PX/EX), zero (PERSIST), negative (plain) -/
theorem getEx_same (k : String) (e : Int) : (A.getEx k e).norm = (G.getEx k e).norm := by
  simp only [A.getEx, G.getEx, Out.norm, Out.argv.injEq]
  apply normalize_congr rfl
  split
  · exact ttl_same e
  · split <;> rfl

/-- the divergence repaired by `fix: GetEx with a zero expiration sends GETEX key PERSIST` -/
theorem getEx_old_zero_differed (k : String) : (A.getExOld k 0).norm ≠ (G.getEx k 0).norm := by
  simp [A.getExOld, G.getEx, Out.norm, normalize, normTok]

theorem expire_same (k : String) (d : Int) (mode : String) : (A.expire k d mode).norm = (G.expire k d mode).norm := by
  simp only [A.expire, G.expire, Out.norm, Out.argv.injEq]
  exact normalize_congr rfl rfl

theorem pExpire_same (k : String) (d : Int) : (A.pExpire k d).norm = (G.pExpire k d).norm := rfl
theorem expireAt_same (k : String) (u : Int) : (A.expireAt k u).norm = (G.expireAt k u).norm := rfl
theorem pExpireAt_same (k : String) (u n : Int) : (A.pExpireAt k u n).norm = (G.pExpireAt k u n).norm := rfl

/-- BitCount for every argument, including nil, an empty unit and unknown units (both send nothing) -/
theorem bitCount_same (k : String) (bc : Option (Int × Int × String)) : (A.bitCount k bc).norm = (G.bitCount k bc).norm := by
  unfold A.bitCount G.bitCount
  split
  · rfl
  · split
    · rfl
    · split <;> rfl

theorem bitPos_same (k : String) (bit : Int) (pos : List Int) : (A.bitPos k bit pos).norm = (G.bitPos k bit pos).norm := by
  unfold A.bitPos G.bitPos
  split
  · simp [Out.norm, normalize, normTok]
  · rfl

/-- BitPosSpan for the spans Redis knows (bit / byte in either letter case) -/
theorem bitPosSpan_same_partial (k : String) (bit st en : Int) (span : String)
    (h : (span.toLower = "bit" ∧ span.toUpper = "BIT") ∨ (span.toLower ≠ "bit" ∧ span.toUpper = "BYTE")) :
    (A.bitPosSpan k bit st en span).norm = (G.bitPosSpan k bit st en span).norm := by
  rcases h with ⟨h1, h2⟩ | ⟨h1, h2⟩ <;> simp [A.bitPosSpan, G.bitPosSpan, Out.norm, normalize, normTok, h1, h2]

private theorem scanTail_same (m : String) (c : Int) : normalize (A.scanTail m c) = normalize (G.scanTail m c) := by
  unfold A.scanTail G.scanTail
  apply normalize_congr <;> (split <;> rfl)

theorem scan_same (c : Int) (m : String) (n : Int) : (A.scan c m n).norm = (G.scan c m n).norm := by
  simp only [A.scan, G.scan, Out.norm, Out.argv.injEq]
  exact normalize_congr rfl (scanTail_same m n)

theorem keyScan_same (name k : String) (c : Int) (m : String) (n : Int) :
    (A.keyScan name k c m n).norm = (G.keyScan name k c m n).norm := by
  simp only [A.keyScan, G.keyScan, Out.norm, Out.argv.injEq]
  exact normalize_congr rfl (scanTail_same m n)

/-- ScanType for every argument, including an empty type (TYPE omitted by both) -/
theorem scanType_same (c : Int) (m : String) (n : Int) (ty : String) :
    (A.scanType c m n ty).norm = (G.scanType c m n ty).norm := by
  simp only [A.scanType, G.scanType, Out.norm, Out.argv.injEq]
  apply normalize_congr (normalize_congr rfl (scanTail_same m n))
  split <;> rfl

/-- the divergence repaired by `fix: ScanType omits TYPE when keyType is empty` -/
theorem scanType_old_empty_differed (c : Int) (m : String) (n : Int) :
    (A.scanTypeOld c m n "").norm ≠ (G.scanType c m n "").norm := by
  simp only [A.scanTypeOld, G.scanType, Out.norm, ne_eq, Out.argv.injEq]
  intro h
  have := congrArg List.length h
  simp [normalize] at this
  have h2 := congrArg List.length (scanTail_same m n)
  simp [normalize] at h2
  omega

theorem lInsert_same_partial (k op p v : String)
    (h : op.toUpper = "BEFORE" ∨ op.toUpper = "AFTER") :
    (A.lInsert k op p v).norm = (G.lInsert k op p v).norm := by
  rcases h with h | h <;> simp [A.lInsert, G.lInsert, Out.norm, normalize, normTok, h]

theorem lInsertBefore_same (k p v : String) : (A.lInsertBefore k p v).norm = (G.lInsertBefore k p v).norm := rfl
theorem lInsertAfter_same (k p v : String) : (A.lInsertAfter k p v).norm = (G.lInsertAfter k p v).norm := rfl

theorem copy_same (a b : String) (db : Int) (r : Bool) : (A.copy a b db r).norm = (G.copy a b db r).norm := by
  cases r <;> rfl

/-! ### Second batch: option-struct methods written in the piece language -/

private theorem piece_norm (p : Piece) : normTok (p.tok true) = normTok (p.tok false) := by cases p <;> rfl

/-- any argv written once in the piece language and sent with upper-case keywords by the adapter and
    lower-case keywords by go-redis is the same command after normalisation — for every argument -/
theorem build_norm (ps : List Piece) : normalize (build true ps) = normalize (build false ps) := by
  induction ps with
  | nil => rfl
  | cons p t ih =>
    simp only [build, normalize, List.map_cons, List.cons.injEq] at *
    exact ⟨piece_norm p, ih⟩

/-- ZAdd, ZAddNX/XX/LT/GT, ZAddArgs, ZAddArgsIncr: every flag combination, any members -/
theorem zAdd_same (k : String) (incr nx xx lt gt ch : Bool) (sc : List Int) (ms : List String) :
    normalize (build true (P.zAdd k incr nx xx lt gt ch sc ms)) = normalize (build false (P.zAdd k incr nx xx lt gt ch sc ms)) :=
  build_norm _

/-- what the flags mean (both libraries): NX alone; otherwise XX and one of GT/LT may be combined —
    in particular XX together with GT sends both (the seeded "switch" refactoring loses GT) -/
theorem zAdd_flag_semantics (k : String) (incr lt ch : Bool) (sc : List Int) (ms : List String) :
    P.zAdd k incr false true lt true ch sc ms =
      [.kw "ZADD", .str k, .kw "XX", .kw "GT"] ++ P.opt ch [.kw "CH"] ++ P.opt incr [.kw "INCR"] ++ P.pairs sc ms ∧
    P.zAdd k incr false true true false ch sc ms =
      [.kw "ZADD", .str k, .kw "XX", .kw "LT"] ++ P.opt ch [.kw "CH"] ++ P.opt incr [.kw "INCR"] ++ P.pairs sc ms ∧
    P.zAdd k incr true true true true ch sc ms =
      [.kw "ZADD", .str k, .kw "NX"] ++ P.opt ch [.kw "CH"] ++ P.opt incr [.kw "INCR"] ++ P.pairs sc ms := by
  simp [P.zAdd, P.opt]

/-- ZRangeArgs / ZRangeArgsWithScores / ZRangeStore whenever REV is not combined with BYSCORE/BYLEX
    (or start = stop) -/
theorem zRange_same_partial (cmd : String) (keys : List String) (a b : String) (bs bl rv : Bool) (o c : Int) (ws : Bool)
    (h : (rv && (bs || bl)) = false ∨ a = b) :
    normalize (build true (P.zRangeA cmd keys a b bs bl rv o c ws)) =
      normalize (build false (P.zRangeG cmd keys a b bs bl rv o c ws)) := by
  have : P.zRangeG cmd keys a b bs bl rv o c ws = P.zRangeA cmd keys a b bs bl rv o c ws := by
    unfold P.zRangeG P.zRangeA
    rcases h with h | h
    · simp [h]
    · subst h; simp
  rw [this]; exact build_norm _

/-- DIVERGENCE (pinned by the adapter's own tests, which pass max first): with REV+BYSCORE/BYLEX go-redis
    swaps <start> and <stop>, the adapter sends them as given -/
theorem zRange_rev_by_differs :
    normalize (build true (P.zRangeA "ZRANGE" ["k"] "1" "4" true false true 0 0 false)) ≠
      normalize (build false (P.zRangeG "ZRANGE" ["k"] "1" "4" true false true 0 0 false)) := by
  decide

theorem zRangeBy_same (cmd k a b : String) (ws : Bool) (o c : Int) :
    normalize (build true (P.zRangeBy cmd k a b ws o c)) = normalize (build false (P.zRangeBy cmd k a b ws o c)) :=
  build_norm _

theorem zStore_same (cmd : String) (d ks : List String) (w : List Int) (ag : String) (ws : Bool) :
    normalize (build true (P.zStore cmd d ks w ag ws)) = normalize (build false (P.zStore cmd d ks w ag ws)) :=
  build_norm _

private theorem filter_strs (xs : List String) :
    (P.strs xs).filter (fun p => p != Piece.kw "=") = P.strs xs := by
  induction xs with
  | nil => rfl
  | cons x t ih => simp only [P.strs, List.map_cons] at *; simp [ih]

/-- XAdd: the adapter writes the exact-trim operator `=` explicitly, go-redis leaves it out; apart from
    that token the argv is the same.  MISSING: equality under `normalize` alone (the extra `=` token). -/
theorem xAdd_same_upto_explicit_eq_partial (st : String) (nm : Bool) (ml : Int) (mi : String) (ap : Bool) (li : Int)
    (id : String) (vals : List String) :
    (P.xAdd true st nm ml mi ap li id vals).filter (fun p => p != Piece.kw "=") = P.xAdd false st nm ml mi ap li id vals := by
  unfold P.xAdd
  simp only [List.filter_append, filter_strs]
  cases nm <;> cases ap <;> by_cases h1 : 0 < ml <;> by_cases h2 : (mi != "") = true <;> by_cases h3 : 0 < li <;>
    by_cases h4 : (id != "") = true <;> simp [P.opt, h1, h2, h3, h4]

theorem xTrim_same_upto_explicit_eq_partial (k strat : String) (ap : Bool) (n li : Int) (hs : strat ≠ "=") :
    (P.xTrim true k strat ap (.num n) li).filter (fun p => p != Piece.kw "=") = P.xTrim false k strat ap (.num n) li := by
  unfold P.xTrim
  cases ap <;> by_cases h3 : 0 < li <;> simp [P.opt, h3, hs]

private theorem formatMs_plain (d : Int) (h : ¬ (0 < d ∧ d < ms)) : formatMs d = plainMs d := by
  unfold formatMs plainMs
  split
  · rename_i hh; simp at hh; exact absurd hh h
  · rfl

/-- XRead / XReadGroup / XPendingExt for durations that are not strictly between 0 and 1 ms
    (there the adapter rounds up to 1 ms, go-redis truncates to 0) -/
theorem xRead_same_partial (ss : List String) (c b : Int) (h : ¬ (0 < b ∧ b < ms)) :
    normalize (build true (P.xRead ss c b (formatMs b))) = normalize (build false (P.xRead ss c b (plainMs b))) := by
  rw [formatMs_plain b h]; exact build_norm _

theorem xReadGroup_same_partial (g cn : String) (ss : List String) (c b : Int) (na : Bool) (h : ¬ (0 < b ∧ b < ms)) :
    normalize (build true (P.xReadGroup g cn ss c b (formatMs b) na)) =
      normalize (build false (P.xReadGroup g cn ss c b (plainMs b) na)) := by
  rw [formatMs_plain b h]; exact build_norm _

theorem xPendingExt_same_partial (st g a e cn : String) (idle c : Int) (h : ¬ (0 < idle ∧ idle < ms)) :
    normalize (build true (P.xPendingExt st g a e cn idle (formatMs idle) c)) =
      normalize (build false (P.xPendingExt st g a e cn idle (plainMs idle) c)) := by
  rw [formatMs_plain idle h]; exact build_norm _

theorem xAutoClaim_same (st g a cn : String) (mi c : Int) (j : Bool) :
    normalize (build true (P.xAutoClaim st g a cn mi c j)) = normalize (build false (P.xAutoClaim st g a cn mi c j)) :=
  build_norm _

/-- Sort / SortRO / SortStore: the adapter upper-cases the order, go-redis forwards it as given —
    the same keyword after normalisation (for the orders the adapter accepts; others it refuses) -/
theorem sort_same (cmd k by_ ord : String) (gets : List String) (o c : Int) (al : Bool) (store : List String) :
    normalize (build true (P.sort cmd k by_ (sortOrderA ord) gets o c al store)) =
      normalize (build false (P.sort cmd k by_ (sortOrderG ord) gets o c al store)) := by
  rw [← build_norm (P.sort cmd k by_ (sortOrderG ord) gets o c al store)]
  unfold P.sort sortOrderA sortOrderG P.opt
  split <;> simp [build, normalize] <;> (split <;> simp [normTok, Piece.tok])

theorem geoQuery_same (mb ru bu so : String) (lon lat r bw bh c : Int) (any : Bool) (pre post : List Piece) :
    normalize (build true (pre ++ P.geoQuery mb ru bu so lon lat r bw bh c any ++ post)) =
      normalize (build false (pre ++ P.geoQuery mb ru bu so lon lat r bw bh c any ++ post)) :=
  build_norm _

/-! ### Value encoding of `any` arguments -/

/-- **str_matches_goredis**: for every value of the modelled sum type on which the libraries are
    expected to agree — nil, string, []byte, every integer kind, float64 (any bit pattern, incl. ±Inf, NaN,
    -0, 1e21, denormals), bool, time.Time, time.Duration, a BinaryMarshaler that succeeds — the adapter's
    `str` sends the token go-redis' `WriteArg` sends, modulo numeric spelling (fmt %v vs 'f' -1 64 of the
    same double) -/
theorem str_matches_goredis (v : AnyVal) (h : v.common = true) :
    some (normTok (A.str v)) = (G.appendArg v).map normTok := by
  cases v <;> simp_all [AnyVal.common, A.str, G.appendArg, normTok]

/-- time.Time is sent as its RFC3339Nano text by both, never as MarshalBinary bytes, although
    time.Time implements encoding.BinaryMarshaler (the order of the type switch matters) -/
theorem str_time_is_text (rfc bin : String) : A.str (.time rfc bin) = S rfc ∧ G.appendArg (.time rfc bin) = some (S rfc) :=
  ⟨rfl, rfl⟩

/-- the whole argv of every `any`-taking method agrees when the value does -/
theorem any_method_same (m : String) (v : AnyVal) (h : v.common = true) (a g : Out) (hb : bothAny m v = some (a, g)) :
    a.norm = g.norm := by
  unfold bothAny at hb
  split at hb
  · cases hb
  · rename_i pre n post _
    have hv := str_matches_goredis v h
    cases hg : G.appendArg v with
    | none => rw [hg] at hv; simp at hv
    | some gt =>
      rw [hg] at hv hb
      simp only [Option.map_some, Option.some.injEq] at hv
      simp only [Option.some.injEq, Prod.mk.injEq] at hb
      obtain ⟨rfl, rfl⟩ := hb
      simp only [Out.norm, Out.argv.injEq, normalize_append, build_norm]
      simp [normalize, List.map_replicate, hv]

/-- OBSERVATIONS (not failures: outside "same value modulo numeric spelling" only at float32 precision,
    or types go-redis rejects): float32 — the adapter sends the shortest float32 spelling, go-redis the
    float64 expansion; net.IP — text vs raw bytes; other types — fmt.Sprint vs "can't marshal" -/
theorem str_observed_differences :
    A.str (.f32 0x3dcccccd "0.10000000149011612" "0.1") = S "0.1" ∧
    G.appendArg (.f32 0x3dcccccd "0.10000000149011612" "0.1") = some (S "0.10000000149011612") ∧
    A.str (.ip "\x7f\x00\x00\x01" "127.0.0.1") = S "127.0.0.1" ∧
    G.appendArg (.ip "\x7f\x00\x00\x01" "127.0.0.1") = some (S "\x7f\x00\x00\x01") ∧
    G.appendArg (.stringer "x") = none ∧ G.appendArg (.marshaler "" "x" false) = none :=
  ⟨rfl, rfl, rfl, rfl, rfl, rfl⟩

/-- coverage: number of adapter methods with a transcribed reference -/
theorem coverage_count : covered.length = 104 := by decide

/-! ### Non-vacuity -/
example : (A.set "k" "v" (1500 * ms)).norm = .argv [U "SET", S "k", S "v", U "PX", N 1500] := by decide
example : G.set "k" "v" (2 * sec) = .argv [L "SET", S "k", S "v", L "EX", N 2] := by decide
example : G.getEx "k" 0 = .argv [L "GETEX", S "k", L "PERSIST"] := by decide

end Rv.C42
