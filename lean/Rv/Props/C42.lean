/-
C42 — the go-redis adapter sends the same commands as go-redis.  PARTIAL BY CONSTRUCTION:
the reference (Rv.GoRedisArgv.G) is a hand transcription of go-redis v9 for the methods listed in
`Rv.GoRedisArgv.covered`; go-redis itself is not available offline.
-/
import Rv.Spec.GoRedisArgv
namespace Rv.C42
open Rv.GoRedisArgv

/-! ### normalize -/

theorem normTok_idem (t : Tok) : normTok (normTok t) = normTok t := by cases t <;> rfl

/-- normalisation is idempotent -/
theorem normalize_idem (ts : List Tok) : normalize (normalize ts) = normalize ts := by
  simp [normalize, List.map_map, Function.comp_def, normTok_idem]

theorem norm_idem (o : Out) : o.norm.norm = o.norm := by
  cases o <;> simp [Out.norm, normalize_idem]

/-- normalisation is a congruence for building argv: it distributes over cons and append, so equal
    (normalised) parts give equal (normalised) wholes -/
theorem normalize_append (a b : List Tok) : normalize (a ++ b) = normalize a ++ normalize b := by
  simp [normalize]

theorem normalize_cons (t : Tok) (ts : List Tok) : normalize (t :: ts) = normTok t :: normalize ts := rfl

theorem normalize_congr {a a' b b' : List Tok} (h1 : normalize a = normalize a') (h2 : normalize b = normalize b') :
    normalize (a ++ b) = normalize (a' ++ b') := by
  rw [normalize_append, normalize_append, h1, h2]

/-- normalisation never touches user data and keeps length and positions -/
theorem normalize_keeps_data (ts : List Tok) :
    (normalize ts).length = ts.length ∧ ∀ s, Tok.str s ∈ normalize ts ↔ Tok.str s ∈ ts := by
  refine ⟨by simp [normalize], fun s => ?_⟩
  simp only [normalize, List.mem_map]
  constructor
  · rintro ⟨t, ht, h⟩; cases t <;> simp_all [normTok]
  · intro h; exact ⟨_, h, rfl⟩

/-- keyword case is the only thing that distinguishes the two libraries' spelling of a keyword -/
theorem kw_case_irrelevant (n : String) (a b : Bool) : normTok (.kw n a) = normTok (.kw n b) := rfl

private theorem ttl_same (d : Int) : normalize (ttlToks U d) = normalize (ttlToks L d) := by
  unfold ttlToks; split <;> rfl

/-! ### Per-method statements: for ALL argument values of the modelled shape -/

/-- all 41 "name + arguments in order" methods of `simpleTable` -/
theorem simple_same (name : String) (vs : List Val) : (A.simple name vs).norm = (G.simple name vs).norm := by
  simp [A.simple, G.simple, Out.norm, normalize, normTok]

theorem set_same (k v : String) (e : Int) : (A.set k v e).norm = (G.set k v e).norm := by
  simp only [A.set, G.set, Out.norm, Out.argv.injEq]
  apply normalize_congr rfl
  split
  · exact ttl_same e
  · split <;> rfl

/-- SetArgs, whenever the adapter accepts the mode ("" / NX / XX in any letter case) -/
theorem setArgs_same (k v mode : String) (ttl : Int) (he : Bool) (ex : Int) (g kp : Bool)
    (hm : (mode.toUpper == "XX" || mode.toUpper == "NX" || mode == "") = true) :
    (A.setArgs k v mode ttl he ex g kp).norm = (G.setArgs k v mode ttl he ex g kp).norm := by
  simp only [A.setArgs, G.setArgs, hm, if_true, Out.norm, Out.argv.injEq]
  repeat rw [normalize_append]
  congr 1
  · congr 1
    · congr 1
      · congr 1
        · cases kp <;> rfl
        · cases he <;> rfl
      · split
        · exact ttl_same ttl
        · rfl
    · split <;> rfl
  · cases g <;> rfl

/-- an unknown mode: go-redis forwards it (Redis answers with a syntax error), the adapter panics
    and sends nothing -/
theorem setArgs_invalid_mode_sends_nothing (k v mode : String) (ttl : Int) (he : Bool) (ex : Int) (g kp : Bool)
    (hm : (mode.toUpper == "XX" || mode.toUpper == "NX" || mode == "") = false) :
    A.setArgs k v mode ttl he ex g kp = .nothing := by
  simp [A.setArgs, hm]

/-- same tokens and same first three positions (SET key value), options possibly in another order -/
def sameUpToOptionOrder : Out → Out → Prop
  | .argv a, .argv g => a.Perm g ∧ a.take 3 = g.take 3
  | _, _ => False

private theorem perm_tail_swap (p : List Tok) (x : Tok) (t : List Tok) :
    (p ++ x :: t).Perm (p ++ t ++ [x]) := by
  rw [List.append_assoc]
  exact List.Perm.append_left p (List.perm_append_singleton x t).symm

/-- SetNX / SetXX with an expiry: same tokens, same first three positions (SET key value), but the
    adapter's builder puts NX/XX BEFORE the expiry while go-redis appends it AFTER — equal only up to
    the order of SET's options.  MISSING: equality under `normalize` alone does not hold. -/
theorem setNX_upto_option_order_partial (k v : String) (e : Int) :
    sameUpToOptionOrder (A.setNX k v e).norm (G.setNX k v e).norm := by
  unfold A.setNX G.setNX
  by_cases h0 : (e == 0) = true
  · simp only [h0, if_true, Out.norm, sameUpToOptionOrder]
    exact ⟨List.Perm.refl _, rfl⟩
  · by_cases h1 : (e == keepTTL) = true
    · simp only [h0, h1, if_true, Out.norm, sameUpToOptionOrder]
      refine ⟨?_, rfl⟩
      show ([U "SET", S k, S v] ++ [U "NX", U "KEEPTTL"]).Perm ([U "SET", S k, S v] ++ [U "KEEPTTL", U "NX"])
      exact List.Perm.append_left _ (List.Perm.swap _ _ _)
    · simp only [h0, h1, Out.norm, sameUpToOptionOrder]
      have h := ttl_same e
      refine ⟨?_, ?_⟩
      · have e1 : normalize ([U "SET", S k, S v, U "NX"] ++ ttlToks U e)
            = [U "SET", S k, S v] ++ U "NX" :: normalize (ttlToks L e) := by
          rw [normalize_append, h]; rfl
        have e2 : normalize ([L "SET", S k, S v] ++ ttlToks L e ++ [L "NX"])
            = [U "SET", S k, S v] ++ normalize (ttlToks L e) ++ [U "NX"] := by
          rw [normalize_append, normalize_append]; rfl
        rw [e1, e2]
        exact perm_tail_swap _ _ _
      · unfold ttlToks; split <;> rfl

theorem setXX_upto_option_order_partial (k v : String) (e : Int) :
    sameUpToOptionOrder (A.setXX k v e).norm (G.setXX k v e).norm := by
  unfold A.setXX G.setXX
  simp only [Out.norm, sameUpToOptionOrder]
  have h : normalize (if 0 < e then ttlToks U e else if (e == keepTTL) = true then [U "KEEPTTL"] else [])
      = normalize (if 0 < e then ttlToks L e else if (e == keepTTL) = true then [L "KEEPTTL"] else []) := by
    split
    · exact ttl_same e
    · split <;> rfl
  refine ⟨?_, rfl⟩
  have e1 : normalize ([U "SET", S k, S v, U "XX"] ++ if 0 < e then ttlToks U e else if (e == keepTTL) = true then [U "KEEPTTL"] else [])
      = [U "SET", S k, S v] ++ U "XX" :: normalize (if 0 < e then ttlToks L e else if (e == keepTTL) = true then [L "KEEPTTL"] else []) := by
    rw [normalize_append, h]; rfl
  have e2 : normalize ([L "SET", S k, S v] ++ (if 0 < e then ttlToks L e else if (e == keepTTL) = true then [L "KEEPTTL"] else []) ++ [L "XX"])
      = [U "SET", S k, S v] ++ normalize (if 0 < e then ttlToks L e else if (e == keepTTL) = true then [L "KEEPTTL"] else []) ++ [U "XX"] := by
    rw [normalize_append, normalize_append]; rfl
  rw [e1, e2]
  exact perm_tail_swap _ _ _

/-- the option order really differs: witness -/
theorem setNX_order_differs : (A.setNX "k" "v" sec).norm ≠ (G.setNX "k" "v" sec).norm := by decide

/-- GetEx for every expiration: positive (PX/EX), zero (PERSIST), negative (plain) -/
theorem getEx_same (k : String) (e : Int) : (A.getEx k e).norm = (G.getEx k e).norm := by
  simp only [A.getEx, G.getEx, Out.norm, Out.argv.injEq]
  apply normalize_congr rfl
  split
  · exact ttl_same e
  · split <;> rfl

/-- the divergence repaired by `fix: GetEx with a zero expiration sends GETEX key PERSIST` -/
theorem getEx_old_zero_differed (k : String) : (A.getExOld k 0).norm ≠ (G.getEx k 0).norm := by
  simp [A.getExOld, G.getEx, Out.norm, normalize, normTok]

theorem expire_same (k : String) (d : Int) (mode : String) : (A.expire k d mode).norm = (G.expire k d mode).norm := by
  simp only [A.expire, G.expire, Out.norm, Out.argv.injEq]
  exact normalize_congr rfl rfl

theorem pExpire_same (k : String) (d : Int) : (A.pExpire k d).norm = (G.pExpire k d).norm := rfl
theorem expireAt_same (k : String) (u : Int) : (A.expireAt k u).norm = (G.expireAt k u).norm := rfl
theorem pExpireAt_same (k : String) (u n : Int) : (A.pExpireAt k u n).norm = (G.pExpireAt k u n).norm := rfl

/-- BitCount for every argument, including nil, an empty unit and unknown units (both send nothing) -/
theorem bitCount_same (k : String) (bc : Option (Int × Int × String)) : (A.bitCount k bc).norm = (G.bitCount k bc).norm := by
  unfold A.bitCount G.bitCount
  split
  · rfl
  · split
    · rfl
    · split <;> rfl

theorem bitPos_same (k : String) (bit : Int) (pos : List Int) : (A.bitPos k bit pos).norm = (G.bitPos k bit pos).norm := by
  unfold A.bitPos G.bitPos
  split
  · simp [Out.norm, normalize, normTok]
  · rfl

/-- BitPosSpan for the spans Redis knows (bit / byte in either letter case) -/
theorem bitPosSpan_same_partial (k : String) (bit st en : Int) (span : String)
    (h : (span.toLower = "bit" ∧ span.toUpper = "BIT") ∨ (span.toLower ≠ "bit" ∧ span.toUpper = "BYTE")) :
    (A.bitPosSpan k bit st en span).norm = (G.bitPosSpan k bit st en span).norm := by
  rcases h with ⟨h1, h2⟩ | ⟨h1, h2⟩ <;> simp [A.bitPosSpan, G.bitPosSpan, Out.norm, normalize, normTok, h1, h2]

private theorem scanTail_same (m : String) (c : Int) : normalize (A.scanTail m c) = normalize (G.scanTail m c) := by
  unfold A.scanTail G.scanTail
  apply normalize_congr <;> (split <;> rfl)

theorem scan_same (c : Int) (m : String) (n : Int) : (A.scan c m n).norm = (G.scan c m n).norm := by
  simp only [A.scan, G.scan, Out.norm, Out.argv.injEq]
  exact normalize_congr rfl (scanTail_same m n)

theorem keyScan_same (name k : String) (c : Int) (m : String) (n : Int) :
    (A.keyScan name k c m n).norm = (G.keyScan name k c m n).norm := by
  simp only [A.keyScan, G.keyScan, Out.norm, Out.argv.injEq]
  exact normalize_congr rfl (scanTail_same m n)

/-- ScanType for every argument, including an empty type (TYPE omitted by both) -/
theorem scanType_same (c : Int) (m : String) (n : Int) (ty : String) :
    (A.scanType c m n ty).norm = (G.scanType c m n ty).norm := by
  simp only [A.scanType, G.scanType, Out.norm, Out.argv.injEq]
  apply normalize_congr (normalize_congr rfl (scanTail_same m n))
  split <;> rfl

/-- the divergence repaired by `fix: ScanType omits TYPE when keyType is empty` -/
theorem scanType_old_empty_differed (c : Int) (m : String) (n : Int) :
    (A.scanTypeOld c m n "").norm ≠ (G.scanType c m n "").norm := by
  simp only [A.scanTypeOld, G.scanType, Out.norm, ne_eq, Out.argv.injEq]
  intro h
  have := congrArg List.length h
  simp [normalize] at this
  have h2 := congrArg List.length (scanTail_same m n)
  simp [normalize] at h2
  omega

theorem lInsert_same_partial (k op p v : String)
    (h : op.toUpper = "BEFORE" ∨ op.toUpper = "AFTER") :
    (A.lInsert k op p v).norm = (G.lInsert k op p v).norm := by
  rcases h with h | h <;> simp [A.lInsert, G.lInsert, Out.norm, normalize, normTok, h]

theorem lInsertBefore_same (k p v : String) : (A.lInsertBefore k p v).norm = (G.lInsertBefore k p v).norm := rfl
theorem lInsertAfter_same (k p v : String) : (A.lInsertAfter k p v).norm = (G.lInsertAfter k p v).norm := rfl

theorem copy_same (a b : String) (db : Int) (r : Bool) : (A.copy a b db r).norm = (G.copy a b db r).norm := by
  cases r <;> rfl

/-- coverage: number of adapter methods with a transcribed reference -/
theorem coverage_count : covered.length = 66 := by decide

/-! ### Non-vacuity -/
example : (A.set "k" "v" (1500 * ms)).norm = .argv [U "SET", S "k", S "v", U "PX", N 1500] := by decide
example : G.set "k" "v" (2 * sec) = .argv [L "SET", S "k", S "v", L "EX", N 2] := by decide
example : G.getEx "k" 0 = .argv [L "GETEX", S "k", L "PERSIST"] := by decide

end Rv.C42
