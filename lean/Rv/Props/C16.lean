import Rv.Model.AccessorsShape
import Rv.Spec.Shapes
namespace Rv.C16
open Rv Rv.Acc
theorem placeholder_partial : True := trivial
end Rv.C16
