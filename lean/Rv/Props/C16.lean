/-
C16 — typed accessors return exactly what the reply encodes.

`Rv/Spec/Shapes.lean` turns structured data into the reply a server sends for it
(RESP2 and RESP3); the theorems say that the accessor model (Rv/Model/Accessors*.lean,
tied to message.go by the `accessors`/`shapes` suites) gives the data back, for ALL
data. Float fields are compared as the text handed to strconv (`F.str s`), under the
hypothesis that strconv accepts that text (`fp.ok s`); float parsing itself is trusted.
Go maps are modelled by their assignment log; `lookupLast` is the map.
-/
import Rv.Lemmas.AccShape
import Rv.Lemmas.AccConv
namespace Rv.C16
open Rv Rv.Acc Rv.Shapes

/-! ## sorted-set scores -/

/-- ZRANGE … WITHSCORES etc.: flat RESP2 `[member, score, …]` and nested RESP3 `[[member, score], …]`
    give the same list of (member, score) in order. -/
theorem zscores_both (fp : FP) (p : Proto) (d : Scores) (h : ∀ ms ∈ d, fp.ok ms.2 = true) :
    asZScores fp (zscores p d) = .ok (zscoresExpect d) := by
  cases p
  · exact asZScores_r2 fp d h
  · exact asZScores_nested fp .r3 d h

theorem zscore_single (fp : FP) (p : Proto) (ms : Bytes × Bytes) (h : fp.ok ms.2 = true) :
    asZScore fp (zscore p ms) = .ok ⟨ms.1, .str ms.2⟩ := by
  simp [asZScore, zscore, toZScore_pair fp p ms.1 ms.2 h]

theorem zmpop_both (fp : FP) (p : Proto) (key : Bytes) (d : Scores) (h : ∀ ms ∈ d, fp.ok ms.2 = true) :
    asZMPop fp (zmpop p key d) = .ok (key, zscoresExpect d) := by
  simp [asZMPop, popWith, zmpop, idx, asZScores_nested fp p d h]

/-! ## streams -/

/-- XRANGE: every entry, in order; the field map's assignment log is the field list in order. -/
theorem xrange_entries (es : List Entry) : asXRange (xrange es) = .ok (xrangeExpect es) := asXRange_xrange es

/-- XRANGE slices: every field/value pair in order, duplicates kept. -/
theorem xrange_slices (es : List Entry) : asXRangeSlices (xrange es) = .ok (xrangeSlicesExpect es) :=
  asXRangeSlices_xrange es

/-- XREAD: RESP2 array-of-pairs and RESP3 map give the same streams. -/
theorem xread_both (p : Proto) (d : List (Bytes × List Entry)) : asXRead (xread p d) = .ok (xreadExpect d) := by
  cases p
  · exact xreadWith_r2 asXRange xrangeExpect asXRange_xrange d
  · exact xreadWith_r3 asXRange xrangeExpect asXRange_xrange d

theorem xread_slices_both (p : Proto) (d : List (Bytes × List Entry)) :
    asXReadSlices (xread p d) = .ok (xreadSlicesExpect d) := by
  cases p
  · exact xreadWith_r2 asXRangeSlices xrangeSlicesExpect asXRangeSlices_xrange d
  · exact xreadWith_r3 asXRangeSlices xrangeSlicesExpect asXRangeSlices_xrange d

/-! ## SCAN, LMPOP -/

/-- SCAN: the decimal cursor text is parsed exactly (any uint64), elements in order. -/
theorem scan_entry (cursor : Nat) (hc : cursor < 18446744073709551616) (elems : List Bytes) :
    asScanEntry (scan cursor elems) = .ok ⟨elems, cursor⟩ := by
  have hu : asUint64 (blob (Spec.digits cursor)) = .ok cursor := by
    simp [asUint64, tBlob, tInt, liftNum, parseUint_digits cursor hc]
  have hs : asStrSlice (arr (elems.map blob)) = .ok elems := by
    simp [asStrSlice, List.map_map, Function.comp_def]
  simp [asScanEntry, scan, idx, hu, hs]

theorem lmpop_values (key : Bytes) (elems : List Bytes) : asLMPop (lmpop key elems) = .ok (key, elems) := by
  have hs : asStrSlice (arr (elems.map blob)) = .ok elems := by
    simp [asStrSlice, List.map_map, Function.comp_def]
  simp [asLMPop, popWith, lmpop, idx, hs]

/-! ## FT.SEARCH -/

/-- RESP3 (map) replies: faithful for every combination of scores / content, no precondition. -/
theorem ftsearch_resp3 (fp : FP) (ws wa : Bool) (total : Int) (ds : List SDoc) :
    asFtSearch fp (ftSearch .r3 ws wa total ds) = .ok (ftSearchExpect ws wa total ds) :=
  asFtSearch_r3 fp ws wa total ds

/-- RESP2 (flat) replies: faithful exactly under `ftFaithful2` (see Rv/Spec/Shapes.lean): the
    detection looks at elements 1–3, so the first key must not look like a float when scores
    are present, and keys 2/3 must be non-empty / not float-after-non-float otherwise. -/
theorem ftsearch_resp2 (fp : FP) (ws wa : Bool) (total : Int) (ds : List SDoc) (h : ftFaithful2 fp ws wa ds) :
    asFtSearch fp (ftSearch .r2 ws wa total ds) = .ok (ftSearchExpect ws wa total ds) :=
  asFtSearch_r2 fp ws wa total ds h

/-- content without scores needs no precondition at all -/
theorem ftsearch_resp2_content (fp : FP) (total : Int) (ds : List SDoc) :
    asFtSearch fp (ftSearch .r2 false true total ds) = .ok (ftSearchExpect false true total ds) :=
  asFtSearch_r2 fp false true total ds (by simp [ftFaithful2])

/-- non-vacuity: an ordinary WITHSCORES reply satisfies the precondition -/
example : ftFaithful2 ⟨fun s => s = [48, 46, 53]⟩ true true [⟨[100, 111, 99], [48, 46, 53], []⟩] := by
  simp [ftFaithful2]

/-- Outside the precondition the accessor is NOT faithful: `FT.SEARCH … WITHSCORES NOCONTENT`
    returning the document key "1" with score "0.5" is read as two documents "1" and "0.5"
    without scores (the key parses as a float, so WITHSCORES is not detected). -/
theorem ftsearch_resp2_outside_precondition :
    let fp : FP := ⟨fun _ => true⟩
    let ds : List SDoc := [⟨[49], [48, 46, 53], []⟩]
    ¬ ftFaithful2 fp true false ds ∧
    asFtSearch fp (ftSearch .r2 true false 1 ds) = .ok (1, [⟨none, [49], .int 0⟩, ⟨none, [48, 46, 53], .int 0⟩]) ∧
    asFtSearch fp (ftSearch .r2 true false 1 ds) ≠ .ok (ftSearchExpect true false 1 ds) := by
  refine ⟨by simp [ftFaithful2], ?_, ?_⟩
  · simp [asFtSearch, ftSearch, ftDoc2, idx, ftDetect, ftDocs2, ftDocsK]
  · simp [asFtSearch, ftSearch, ftDoc2, idx, ftDetect, ftDocs2, ftDocsK, ftSearchExpect]

/-- … and a NOCONTENT reply with keys "a", "2" is read as one document "a" with score 2. -/
theorem ftsearch_resp2_outside_precondition_nocontent :
    let fp : FP := ⟨fun s => s = [50]⟩
    let ds : List SDoc := [⟨[97], [], []⟩, ⟨[50], [], []⟩]
    ¬ ftFaithful2 fp false false ds ∧
    asFtSearch fp (ftSearch .r2 false false 2 ds) = .ok (2, [⟨none, [97], .str [50]⟩]) := by
  refine ⟨by simp [ftFaithful2], ?_⟩
  simp [asFtSearch, ftSearch, ftDoc2, idx, ftDetect, ftDocs2, ftDocsKS]

/-! ## FT.AGGREGATE -/

theorem ftaggregate_both (p : Proto) (total : Int) (rows : List Row) :
    asFtAggregate (ftAgg p total rows) = .ok (ftAggExpect total rows) :=
  asFtAggregate_shape p total rows

theorem ftaggregate_cursor_both (p : Proto) (cursor total : Int) (rows : List Row) :
    asFtAggregateCursor (ftAggCursor p cursor total rows) = .ok (cursor, total, rows.map some) :=
  asFtAggregateCursor_shape p cursor total rows

/-- a reply without cursor goes through AsFtAggregateCursor with cursor 0 -/
theorem ftaggregate_cursor_absent (p : Proto) (total : Int) (rows : List Row) :
    asFtAggregateCursor (ftAgg p total rows) = .ok (0, total, rows.map some) := by
  have h := asFtAggregate_shape p total rows
  cases p
  · cases rows with
    | nil => simp [asFtAggregateCursor, ftAgg, h, ftAggExpect] at h ⊢; simp [asFtAggregate, ftAgg, idx, tail1, mapR]
    | cons r rs =>
      cases rs with
      | nil =>
        simp only [ftAggExpect] at h
        simp [asFtAggregateCursor, ftAgg, idx, isArray, isMap, tInt, tArray, tSet, tMap]
        simp [ftAgg] at h; simp [h]
      | cons r2 rs => simp only [ftAggExpect] at h; simp [asFtAggregateCursor, ftAgg] at h ⊢; simp [h]
  · simp only [ftAggExpect] at h
    have hna : ¬ isArray (ftAgg .r3 total rows) := not_isArray_mp _
    simp [asFtAggregateCursor, hna, h]

/-! ## GEOSEARCH -/

/-- every WITHDIST / WITHHASH / WITHCOORD subset, RESP2 (numbers as text) and RESP3 (doubles) -/
theorem geosearch_both (fp : FP) (p : Proto) (wd wh wc : Bool) (ls : List Loc)
    (hd : wd = true → ∀ l ∈ ls, l.dist ≠ [] ∧ fp.ok l.dist = true)
    (hc : wc = true → ∀ l ∈ ls, fp.ok l.lon = true ∧ fp.ok l.lat = true) :
    asGeosearch fp (geosearch p wd wh wc ls) = .ok (ls.map (geoExpect wd wh wc)) := by
  simp only [asGeosearch, geosearch, toArray_arr]
  exact mapR_map_ok _ _ _ _ (fun l hl => geoElem_loc fp p wd wh wc l (fun h => hd h l hl) (fun h => hc h l hl))

/-! ## maps -/

/-- flat RESP2 `[k, v, …]` and RESP3 `%` map: every pair, in order, in the assignment log -/
theorem strmap_both (p : Proto) (kvs : List (Bytes × Bytes)) : asStrMap (kvReply p kvs) = .ok kvs := by
  cases p
  · exact asStrMap_flat kvs
  · exact asStrMap_map kvs

theorem lookupLast_append_cons {α} (k : Bytes) (v : α) (l1 l2 : Log α) (h : ∀ kv ∈ l2, kv.1 ≠ k) :
    lookupLast k (l1 ++ (k, v) :: l2) = some v := by
  have h2 : lookupLast k l2 = none := by
    induction l2 with
    | nil => rfl
    | cons x r ih =>
      have := ih (fun kv hkv => h kv (by simp [hkv]))
      have hx := h x (by simp)
      simp [lookupLast, this, hx]
  induction l1 with
  | nil => simp [lookupLast, h2]
  | cons x r ih => simp [lookupLast, ih]

/-- a repeated field keeps the LAST value (what a Go map holds after the assignments) -/
theorem asStrMap_last_wins (p : Proto) (k v : Bytes) (l1 l2 : List (Bytes × Bytes)) (h : ∀ kv ∈ l2, kv.1 ≠ k) :
    ∃ log, asStrMap (kvReply p (l1 ++ (k, v) :: l2)) = .ok log ∧ lookupLast k log = some v :=
  ⟨_, strmap_both p _, lookupLast_append_cons k v l1 l2 h⟩

/-- and a key that never occurs is absent -/
theorem lookupLast_absent {α} (k : Bytes) (l : Log α) (h : ∀ kv ∈ l, kv.1 ≠ k) : lookupLast k l = none := by
  induction l with
  | nil => rfl
  | cons x r ih =>
    have := ih (fun kv hkv => h kv (by simp [hkv]))
    have hx := h x (by simp)
    simp [lookupLast, this, hx]

/-- AsMap / ToMap keep the value messages untouched -/
theorem asMap_pairs (kvs : List (Bytes × Msg)) :
    toMap (mp (kvs.flatMap fun kv => [blob kv.1, kv.2])) = .ok kvs ∧
    asMap (arr (kvs.flatMap fun kv => [blob kv.1, kv.2])) = .ok kvs := by
  have hp : toMapPairs (kvs.flatMap fun kv => [blob kv.1, kv.2]) = .ok kvs := by
    induction kvs with
    | nil => rfl
    | cons kv r ih => simp [toMapPairs, ih]
  have hl : (kvs.flatMap fun kv => [blob kv.1, kv.2]).length % 2 = 0 := by
    clear hp
    induction kvs with
    | nil => rfl
    | cons kv r ih => simp only [List.flatMap_cons, List.length_append, List.length_cons, List.length_nil]; omega
  constructor
  · simp [toMap, toMapV, hl, hp, -List.length_flatMap]
  · simp [asMap, mapLike, toMapV, hl, hp, -List.length_flatMap]

/-- AsIntMap on a RESP3 map with integer values -/
theorem intmap_resp3 (kvs : List (Bytes × Int)) : asIntMap (intMap .r3 kvs) = .ok kvs := by
  have hp : intPairs (kvs.flatMap fun kv => [blob kv.1, Shapes.int kv.2]) = .ok kvs := by
    induction kvs with
    | nil => rfl
    | cons kv r ih => simp [intPairs, ih]
  have hl : (kvs.flatMap fun kv => [blob kv.1, Shapes.int kv.2]).length % 2 = 0 := by
    clear hp
    induction kvs with
    | nil => rfl
    | cons kv r ih => simp only [List.flatMap_cons, List.length_append, List.length_cons, List.length_nil]; omega
  simp [asIntMap, intMap, mapLike, hl, hp, -List.length_flatMap]

/-- AsIntMap on the RESP2 form (values as decimal text): the text goes through
    `strconv.ParseInt(s, 0, 64)` (base 0); a server-rendered decimal never starts with a
    redundant 0, so the value is exact over the whole int64 range. -/
theorem intmap_resp2 (kvs : List (Bytes × Int))
    (h : ∀ kv ∈ kvs, -9223372036854775808 ≤ kv.2 ∧ kv.2 < 9223372036854775808) :
    asIntMap (intMap .r2 kvs) = .ok kvs := by
  have hp : intPairs (kvs.flatMap fun kv => [blob kv.1, blob (Spec.decI kv.2)]) = .ok kvs := by
    induction kvs with
    | nil => rfl
    | cons kv r ih =>
      have hr := ih (fun x hx => h x (by simp [hx]))
      obtain ⟨h1, h2⟩ := h kv (by simp)
      have hne : Spec.decI kv.2 ≠ [] := by
        unfold Spec.decI; split
        · simp
        · exact Rv.RespL.digits_ne_nil _
      simp [intPairs, hne, liftNum, parseInt0_decI kv.2 h1 h2, hr]
  have hl : (kvs.flatMap fun kv => [blob kv.1, blob (Spec.decI kv.2)]).length % 2 = 0 := by
    clear hp h
    induction kvs with
    | nil => rfl
    | cons kv r ih => simp only [List.flatMap_cons, List.length_append, List.length_cons, List.length_nil]; omega
  simp [asIntMap, intMap, mapLike, hl, hp, -List.length_flatMap]

/-- base 0 is observable on other texts: "010" is 8 and "0x1f" is 31 for AsIntMap, while AsInt64
    (base 10) reads 10 and rejects the second -/
example : parseInt [48, 49, 48] 0 = .ok 8 ∧ parseInt [48, 49, 48] 10 = .ok 10 ∧
    parseInt [48, 120, 49, 102] 0 = .ok 31 ∧ parseInt [48, 120, 49, 102] 10 = .error .syntax := by
  refine ⟨?_, ?_, ?_, ?_⟩ <;> rfl

/-! ## integers, booleans, floats, slices -/

/-- AsInt64: a decimal text reply (RESP2) and a RESP3 number give exactly the integer, over the whole
    int64 range (sign included). -/
theorem int64_exact (p : Proto) (v : Int) (h1 : -9223372036854775808 ≤ v) (h2 : v < 9223372036854775808) :
    asInt64 (intReply p v) = .ok v := by
  cases p
  · simp [asInt64, intReply, tBlob, tInt, liftNum, parseInt_decI v h1 h2]
  · simp [asInt64, intReply]

/-- one past either end of the range is a range error, not a wrapped value -/
theorem int64_overflow_is_error :
    asInt64 (blob (Spec.decI 9223372036854775808)) = .err (numErrTag "ParseInt" .range) ∧
    asInt64 (blob (Spec.decI (-9223372036854775809))) = .err (numErrTag "ParseInt" .range) ∧
    asUint64 (blob (Spec.digits 18446744073709551616)) = .err (numErrTag "ParseUint" .range) := by
  have d1 : Spec.decI 9223372036854775808 = [57, 50, 50, 51, 51, 55, 50, 48, 51, 54, 56, 53, 52, 55, 55, 53, 56, 48, 56] := by
    simp [Spec.decI, Spec.digits]
  have d2 : Spec.decI (-9223372036854775809) = [45, 57, 50, 50, 51, 51, 55, 50, 48, 51, 54, 56, 53, 52, 55, 55, 53, 56, 48, 57] := by
    simp [Spec.decI, Spec.digits]
  have d3 : Spec.digits 18446744073709551616 = [49, 56, 52, 52, 54, 55, 52, 52, 48, 55, 51, 55, 48, 57, 53, 53, 49, 54, 49, 54] := by
    simp [Spec.digits]
  rw [d1, d2, d3]
  refine ⟨?_, ?_, ?_⟩ <;> rfl

/-- a text that is not a number is a syntax error -/
example : asInt64 (blob [49, 120]) = .err (numErrTag "ParseInt" .syntax) := by rfl
example : asInt64 (blob []) = .err (numErrTag "ParseInt" .syntax) := by rfl

theorem uint64_exact (n : Nat) (h : n < 18446744073709551616) : asUint64 (blob (Spec.digits n)) = .ok n := by
  simp [asUint64, tBlob, tInt, liftNum, parseUint_digits n h]

/-- booleans: RESP3 `#t/#f`, integer replies (non-zero), and the "OK" status string -/
theorem bool_conversions (i : Int) (s : Bytes) :
    asBool (Msg.leafInt tBool 1) = .ok true ∧ asBool (Msg.leafInt tBool 0) = .ok false ∧
    Acc.toBool (Msg.leafInt tBool 1) = .ok true ∧ Acc.toBool (Msg.leafInt tBool 0) = .ok false ∧
    asBool (Shapes.int i) = .ok (decide (i ≠ 0)) ∧
    asBool (blob s) = .ok (decide (s = okBytes)) := by
  refine ⟨by rfl, by rfl, by rfl, by rfl, ?_, ?_⟩
  · simp [asBool, isString, errOf, tInt, tBlob, tSimple, tNull, tErr, tBlobErr]
    by_cases h : i = 0 <;> simp [h]
  · simp [asBool]; congr

/-- floats: exactly the reply's text is what strconv sees (RESP2 text or RESP3 double) -/
theorem float_text_handed_to_strconv (fp : FP) (p : Proto) (s : Bytes) (h : fp.ok s = true) :
    asFloat64 fp (num p s) = .ok (.str s) ∧ toFloat64 fp (dbl s) = .ok (.str s) := by
  cases p <;> simp [asFloat64, toFloat64, num, utilFloat, h, tBlob, tFloat]

/-- slices keep every element in order -/
theorem strslice_order (xs : List Bytes) : asStrSlice (strSlice xs) = .ok xs := by
  simp [asStrSlice, strSlice, List.map_map, Function.comp_def]

theorem intslice_order (p : Proto) (xs : List Int)
    (h : ∀ v ∈ xs, -9223372036854775808 ≤ v ∧ v < 9223372036854775808) :
    asIntSlice (intSlice p xs) = .ok xs := by
  simp only [asIntSlice, intSlice, toArray_arr]
  have := mapR_map_ok intElem (intReply p) id xs (fun v hv => by
    obtain ⟨h1, h2⟩ := h v hv
    cases p
    · have hne : Spec.decI v ≠ [] := by
        unfold Spec.decI; split
        · simp
        · exact Rv.RespL.digits_ne_nil _
      simp [intElem, intReply, hne, liftNum, parseInt_decI v h1 h2]
    · simp [intElem, intReply])
  simpa using this

theorem toArray_order (xs : List Msg) : toArray (arr xs) = .ok xs := toArray_arr xs

/-! ## scalar conversions: the model agrees with the declarative specification -/

open Rv.Conv in
/-- every scalar conversion of the model agrees with Rv/Spec/Conv.lean on `m` -/
structure ConvAgree (fp : FP) (m : Msg) : Prop where
  toString : Agree (toStr m) (specToString m)
  asBytes : Agree (asBytes m) (specToString m)
  asBool : Agree (asBool m) (specAsBool m)
  toBool : Agree (Acc.toBool m) (specToBool m)
  toInt64 : Agree (toInt64 m) (specToInt64 m)
  toFloat64 : Agree (toFloat64 fp m) (specToFloat64 fp m)
  asInt64 : Agree (asInt64 m) (specAsInt64 m)
  asUint64 : Agree (asUint64 m) (specAsUint64 m)
  asFloat64 : Agree (asFloat64 fp m) (specAsFloat64 fp m)
  asStrSlice : Agree (asStrSlice m) (specAsStrSlice m)
  asIntSlice : Agree (asIntSlice m) (specAsIntSlice m)
  asFloatSlice : Agree (asFloatSlice fp m) (specAsFloatSlice fp m)
  asBoolSlice : Agree (asBoolSlice m) (specAsBoolSlice m)

open Rv.Conv in
/-- For every reply in the decoder's range whose elements (if it is an array) are scalars, the model
    of the code (which follows message.go's switch statements) and the declarative conversion rules
    of Rv/Spec/Conv.lean give the same result: same value, same error, and a strconv error exactly
    where the specification says "not a number". In particular integer → bool is `n ≠ 0`. An edit of
    the model (or a regenerated model of edited code) that changes a conversion breaks this theorem;
    the harness's `!conv` lines check the real code against the same specification. -/
theorem model_conv_eq_spec (fp : FP) (m : Msg) (h : InRange m)
    (helems : ∀ v ∈ m.arr, InRange v ∧ ¬ isAggK v) : ConvAgree fp m where
  toString := toStr_agree m h
  asBytes := toStr_agree m h
  asBool := asBool_agree m
  toBool := toBool_agree m
  toInt64 := toInt64_agree m
  toFloat64 := toFloat64_agree fp m
  asInt64 := asInt64_agree m h
  asUint64 := asUint64_agree m h
  asFloat64 := asFloat64_agree fp m h
  asStrSlice := asStrSlice_agree m
  asIntSlice := asIntSlice_agree m helems
  asFloatSlice := asFloatSlice_agree fp m helems
  asBoolSlice := asBoolSlice_agree m

/-- the specification itself: an integer reply converts to true exactly when it is non-zero -/
theorem spec_int_to_bool (i : Int) :
    Conv.specAsBool (Msg.leafInt 58 i) = .ok (decide (i ≠ 0)) := by
  simp [Conv.specAsBool, Conv.replyError, Conv.isNullK, Conv.isErrK, Conv.isStrK, Conv.isIntK, Msg.leafInt, Msg.typ, Msg.int]
  by_cases h : i = 0 <;> simp [h]

/-- e.g. `:2` and `:-1` are true, `:0` is false (the inputs a `== 1` conversion gets wrong) -/
example : Conv.specAsBool (Msg.leafInt 58 2) = .ok true ∧ Conv.specAsBool (Msg.leafInt 58 (-1)) = .ok true ∧
    Conv.specAsBool (Msg.leafInt 58 0) = .ok false ∧ asBool (Msg.leafInt 58 2) = .ok true := by
  refine ⟨?_, ?_, ?_, ?_⟩ <;> rfl

/-- non-vacuity of `InRange` -/
example : Conv.InRange (Msg.leafInt 58 2) := by
  constructor <;> simp [Conv.isAggK, Conv.isIntK, Conv.isBoolK, Conv.isNullK, Msg.leafInt, Msg.typ, Msg.arr, Msg.str]

end Rv.C16
