/-
C31 — multi-key helpers map every key to its own reply.
Theorems over the model Rv.MultiKey of helper.go / internal/cmds/cmds.go. The slot function is
an arbitrary `Key → Nat` everywhere (nothing depends on CRC16), key lists are arbitrary
(duplicates, empty keys, any length).
-/
import Rv.Model.MultiKey
namespace Rv.C31
open Rv.MultiKey

set_option linter.unusedSimpArgs false
set_option linter.unusedVariables false

/-! ### helper lemmas -/

private theorem writeAll_nil_right {α : Type} (m : KV α) (ks : List Key) : writeAll m ks [] = m := by
  cases ks <;> rfl

/-- writing the answers `g.map f` under the names `g ++ sfx`: every key of `g` ends up with
    `f key`, nothing else changes (`sfx`: the JSON path that follows the keys) -/
private theorem lookup_writeAll_map {α : Type} (f : Key → α) (g sfx : List Key) (m : KV α) (k : Key) :
    List.lookup k (writeAll m (g ++ sfx) (g.map f)) = if k ∈ g then some (f k) else List.lookup k m := by
  induction g generalizing m with
  | nil => simp [writeAll_nil_right]
  | cons x g ih =>
    simp only [List.cons_append, List.map_cons, writeAll, ih, List.mem_cons]
    by_cases hk : k ∈ g
    · simp [hk]
    · by_cases hx : k = x
      · subst hx; simp [hk, List.lookup_cons]
      · have : (k == x) = false := by simpa using hx
        simp [hk, hx, List.lookup_cons, this]

/-- positional version: whatever is found for `k` after writing `vs` under `ks` is either what
    was there before or the element at an index where `ks` holds `k` -/
private theorem lookup_writeAll_pos {α : Type} (ks : List Key) (vs : List α) (m : KV α) (k : Key) (v : α)
    (h : List.lookup k (writeAll m ks vs) = some v) :
    List.lookup k m = some v ∨ ∃ j : Nat, ks[j]? = some k ∧ vs[j]? = some v := by
  induction ks generalizing m vs with
  | nil => left; simpa [writeAll] using h
  | cons x ks ih =>
    cases vs with
    | nil => left; simpa [writeAll] using h
    | cons y vs =>
      simp only [writeAll] at h
      rcases ih vs _ h with h1 | ⟨j, hj1, hj2⟩
      · simp only [List.lookup_cons] at h1
        by_cases hx : k = x
        · subst hx
          simp at h1
          right; exact ⟨0, by simp, by simp [h1]⟩
        · have : (k == x) = false := by simpa using hx
          simp [this] at h1
          left; exact h1
      · right; exact ⟨j + 1, by simpa using hj1, by simpa using hj2⟩

private theorem mem_keys_writeAll {α : Type} (ks : List Key) (vs : List α) (m : KV α) (k : Key) :
    k ∈ (writeAll m ks vs).keys ↔ k ∈ m.keys ∨ k ∈ ks.take vs.length := by
  induction ks generalizing m vs with
  | nil => simp [writeAll]
  | cons x ks ih =>
    cases vs with
    | nil => simp [writeAll]
    | cons y vs =>
      simp only [writeAll]
      rw [ih]
      simp only [KV.keys, List.map_cons, List.mem_cons, List.length_cons, List.take_succ_cons]
      grind

/-! ### slot grouping: `slotMCMDs` / `slotMSets` / the `slotIdx` loop of clusterMGet -/

section grouping
variable {β : Type} (slot : Key → Nat) (key : β → Key)

/-- invariant of the grouping loop after the prefix `pre` of the input -/
private def GInv (g : List (Nat × List β)) (pre : List β) : Prop :=
  (g.map (·.1)).Nodup ∧
  (∀ p ∈ g, p.2 = pre.filter (fun x => slot (key x) == p.1) ∧ p.2 ≠ []) ∧
  (∀ x ∈ pre, ∃ p ∈ g, p.1 = slot (key x))

private theorem ginv_step (g : List (Nat × List β)) (pre : List β) (x : β) (h : GInv slot key g pre) :
    GInv slot key (addKey slot key g x) (pre ++ [x]) := by
  obtain ⟨h1, h2, h3⟩ := h
  unfold addKey
  by_cases hany : g.any (fun p => p.1 == slot (key x)) = true
  · rw [if_pos hany]
    refine ⟨?_, ?_, ?_⟩
    · have : (g.map fun p => if p.1 == slot (key x) then (p.1, p.2 ++ [x]) else p).map (·.1) = g.map (·.1) := by
        simp only [List.map_map]
        apply List.map_congr_left
        intro p _
        simp only [Function.comp]
        split <;> rfl
      rw [this]; exact h1
    · intro p hp
      simp only [List.mem_map] at hp
      obtain ⟨q, hq, rfl⟩ := hp
      obtain ⟨hq2, hq3⟩ := h2 q hq
      by_cases hs : (q.1 == slot (key x)) = true
      · have hs' : slot (key x) = q.1 := (by simpa using hs : q.1 = slot (key x)).symm
        rw [if_pos hs]
        refine ⟨?_, by simp⟩
        rw [List.filter_append, ← hq2]
        simp [hs']
      · have hs' : ¬ slot (key x) = q.1 := fun h => hs (by simp [h])
        rw [if_neg hs]
        refine ⟨?_, hq3⟩
        rw [List.filter_append, ← hq2]
        simp [hs']
    · intro y hy
      simp only [List.mem_append, List.mem_singleton] at hy
      have hex : ∃ p ∈ g, p.1 = slot (key y) := by
        rcases hy with hy | rfl
        · exact h3 y hy
        · simpa using hany
      obtain ⟨p, hp, hps⟩ := hex
      refine ⟨if p.1 == slot (key x) then (p.1, p.2 ++ [x]) else p, ?_, ?_⟩
      · simp only [List.mem_map]; exact ⟨p, hp, rfl⟩
      · split <;> exact hps
  · rw [if_neg hany]
    have hnone : ∀ p ∈ g, ¬ p.1 = slot (key x) := by
      intro p hp heq
      apply hany
      simp only [List.any_eq_true]
      exact ⟨p, hp, by simp [heq]⟩
    refine ⟨?_, ?_, ?_⟩
    · simp only [List.map_append, List.map_cons, List.map_nil]
      rw [List.nodup_append]
      refine ⟨h1, by simp, ?_⟩
      intro a ha b hb
      simp only [List.mem_singleton] at hb
      subst hb
      simp only [List.mem_map] at ha
      obtain ⟨p, hp, rfl⟩ := ha
      exact hnone p hp
    · intro p hp
      simp only [List.mem_append, List.mem_singleton] at hp
      rcases hp with hp | rfl
      · obtain ⟨hq2, hq3⟩ := h2 p hp
        have hs' : ¬ slot (key x) = p.1 := fun h => hnone p hp h.symm
        refine ⟨?_, hq3⟩
        rw [List.filter_append, ← hq2]
        simp [hs']
      · have hempty : pre.filter (fun y => slot (key y) == slot (key x)) = [] := by
          simp only [List.filter_eq_nil_iff]
          intro y hy hyx
          obtain ⟨p, hp, hps⟩ := h3 y hy
          exact hnone p hp (by rw [hps]; simpa using hyx)
        simp [List.filter_append, hempty]
    · intro y hy
      simp only [List.mem_append, List.mem_singleton] at hy
      rcases hy with hy | rfl
      · obtain ⟨p, hp, hps⟩ := h3 y hy
        exact ⟨p, by simp [hp], hps⟩
      · exact ⟨(slot (key y), [y]), by simp, rfl⟩
private theorem ginv_fold (xs : List β) (g : List (Nat × List β)) (pre : List β) (h : GInv slot key g pre) :
    GInv slot key (xs.foldl (addKey slot key) g) (pre ++ xs) := by
  induction xs generalizing g pre with
  | nil => simpa using h
  | cons x xs ih =>
    have := ih _ _ (ginv_step slot key g pre x h)
    simpa using this

/-- **grouping_partition**: for every slot function and every input list (keys for
    `slotMCMDs`/clusterMGet, key-value pairs in map order for `slotMSets`/`JsonMSets`) the per-slot
    commands have pairwise different slots, the command of slot `s` carries exactly the inputs
    whose key hashes to `s`, in input order (duplicates kept), none is empty, and every input
    lands in a command. Hence the commands partition the input multiset. -/
theorem grouping_partition (xs : List β) :
    ((groupBy slot key xs).map (·.1)).Nodup ∧
    (∀ p ∈ groupBy slot key xs, p.2 = xs.filter (fun x => slot (key x) == p.1) ∧ p.2 ≠ []) ∧
    (∀ x ∈ xs, ∃ p ∈ groupBy slot key xs, p.1 = slot (key x)) := by
  have := ginv_fold slot key xs [] [] ⟨by simp, by simp, by simp⟩
  simpa [GInv, groupBy] using this

end grouping

/-- an input key is in some per-slot command iff it is an input key -/
theorem group_mem (slot : Key → Nat) (keys : List Key) (k : Key) :
    (∃ p ∈ group slot keys, k ∈ p.2) ↔ k ∈ keys := by
  obtain ⟨_, h2, h3⟩ := grouping_partition slot id keys
  constructor
  · rintro ⟨p, hp, hk⟩
    rw [(h2 p hp).1] at hk
    exact (List.mem_filter.mp hk).1
  · intro hk
    obtain ⟨p, hp, hps⟩ := h3 k hk
    refine ⟨p, hp, ?_⟩
    rw [(h2 p hp).1]
    exact List.mem_filter.mpr ⟨hk, by simp [hps]⟩

private theorem count_groups (slot : Key → Nat) (keys : List Key) (k : Key) :
    ∀ (g : List (Nat × List Key)), (g.map (·.1)).Nodup →
      (∀ q ∈ g, q.2 = keys.filter (fun x => slot x == q.1)) →
      (g.map fun q => q.2.count k).sum = if slot k ∈ g.map (·.1) then keys.count k else 0 := by
  intro g
  induction g with
  | nil => simp
  | cons q g ih =>
    intro hnd hall
    simp only [List.map_cons, List.nodup_cons] at hnd
    have hq := hall q (by simp)
    have ihg := ih hnd.2 (fun r hr => hall r (by simp [hr]))
    simp only [List.map_cons, List.sum_cons, ihg, List.mem_cons]
    by_cases hs : slot k = q.1
    · have hnot : slot k ∉ g.map (·.1) := by rw [hs]; exact hnd.1
      have : q.2.count k = keys.count k := by
        rw [hq]; exact List.count_filter (by simp [hs])
      rw [this, if_neg hnot, if_pos (Or.inl hs)]; simp
    · have : q.2.count k = 0 := by
        rw [hq]
        apply List.count_eq_zero.mpr
        intro hmem
        have := (List.mem_filter.mp hmem).2
        simp at this
        exact hs this
      rw [this, Nat.zero_add]
      by_cases hm : slot k ∈ g.map (·.1) <;> simp [hm, hs]

/-- the multiset is preserved: each key occurs in the per-slot commands exactly as often as in
    the input -/
theorem group_count (slot : Key → Nat) (keys : List Key) (k : Key) :
    ((group slot keys).map fun p => p.2.count k).sum = keys.count k := by
  obtain ⟨h1, h2, h3⟩ := grouping_partition slot id keys
  rw [count_groups slot keys k (group slot keys) h1 (fun q hq => (h2 q hq).1)]
  by_cases hk : k ∈ keys
  · obtain ⟨p, hp, hps⟩ := h3 k hk
    have : slot k ∈ (group slot keys).map (·.1) := List.mem_map.mpr ⟨p, hp, hps⟩
    simp [this]
  · have hz : keys.count k = 0 := List.count_eq_zero.mpr hk
    split <;> simp [hz]

/-! ### arrayToKV / clientMGet (single, standalone, sentinel clients) -/

/-- **value_of_own_key + keys_exact, one MGET**: if the reply array answers the keys
    positionally from any function `f` of the key (a store), the returned map has exactly the
    input keys and maps each to its own answer — duplicates included -/
theorem clientMGet_store (keys : List Key) (f : Key → Val) :
    ∃ m, clientMGet keys (.arr (keys.map f)) = .ok m ∧
      (∀ k, m.get? k = if k ∈ keys then some (f k) else none) ∧
      (∀ k, k ∈ m.keys ↔ k ∈ keys) := by
  refine ⟨writeAll [] keys (keys.map f), ?_, ?_, ?_⟩
  · simp [clientMGet, toArray, arrayToKV]
  · intro k
    have := lookup_writeAll_map f keys [] [] k
    simpa [KV.get?] using this
  · intro k
    rw [mem_keys_writeAll]; simp [KV.keys]

/-- for *any* reply array: an entry of the returned map is the reply element at an index where
    the key list holds that key (never another key's element), and the reply must not be longer
    than the key list (else the Go code panics with index out of range) -/
theorem clientMGet_positional (keys : List Key) (arr : List Val) :
    (arr.length ≤ keys.length →
      ∃ m, clientMGet keys (.arr arr) = .ok m ∧
        (∀ k v, m.get? k = some v → ∃ j : Nat, keys[j]? = some k ∧ arr[j]? = some v) ∧
        (∀ k, k ∈ m.keys ↔ k ∈ keys.take arr.length)) ∧
    (keys.length < arr.length → clientMGet keys (.arr arr) = .panic) := by
  constructor
  · intro hle
    refine ⟨writeAll [] keys arr, ?_, ?_, ?_⟩
    · have : ¬ arr.length > keys.length := by omega
      simp [clientMGet, toArray, arrayToKV, this]
    · intro k v h
      rcases lookup_writeAll_pos keys arr [] k v h with h1 | h1
      · simp at h1
      · exact h1
    · intro k; rw [mem_keys_writeAll]; simp [KV.keys]
  · intro hlt
    simp [clientMGet, toArray, arrayToKV, hlt]

/-- **error_propagation, one MGET**: if the reply is not an array (transport error, error
    reply, nil, wrong type) the helper returns `(nil, that error)` -/
theorem clientMGet_error (keys : List Key) (r : Reply) (e : Err) (h : toArray r = .error e) :
    clientMGet keys r = .err e := by
  simp [clientMGet, h]

/-! ### clusterMGet / clusterJsonMGet -/

private theorem mergeResps_store (f : Key → Val) (sfx : List Key) (gs : List (List Key)) (m : KV Val) :
    ∃ m', mergeResps m (gs.map (· ++ sfx)) (gs.map fun g => .arr (g.map f)) = .ok m' ∧
      (∀ k, List.lookup k m' = if ∃ g ∈ gs, k ∈ g then some (f k) else List.lookup k m) ∧
      (∀ k, k ∈ m'.keys ↔ k ∈ m.keys ∨ ∃ g ∈ gs, k ∈ g) := by
  induction gs generalizing m with
  | nil => exact ⟨m, by simp [mergeResps], by simp, by simp⟩
  | cons g gs ih =>
    obtain ⟨m', h1, h2, h3⟩ := ih (writeAll m (g ++ sfx) (g.map f))
    refine ⟨m', ?_, ?_, ?_⟩
    · have : ¬ (g.map f).length > (g ++ sfx).length := by simp
      simp only [List.map_cons, mergeResps, toArray, this, if_false]
      exact h1
    · intro k
      rw [h2 k, lookup_writeAll_map]
      by_cases hk : ∃ g' ∈ gs, k ∈ g'
      · obtain ⟨g', hg', hkg⟩ := hk
        have : ∃ g'' ∈ g :: gs, k ∈ g'' := ⟨g', by simp [hg'], hkg⟩
        simp [this, show ∃ g' ∈ gs, k ∈ g' from ⟨g', hg', hkg⟩]
      · by_cases hg : k ∈ g
        · have : ∃ g'' ∈ g :: gs, k ∈ g'' := ⟨g, by simp, hg⟩
          simp [hk, hg, this]
        · have : ¬ ∃ g'' ∈ g :: gs, k ∈ g'' := by
            rintro ⟨g'', hg'', hk''⟩
            simp only [List.mem_cons] at hg''
            rcases hg'' with rfl | hg''
            · exact hg hk''
            · exact hk ⟨g'', hg'', hk''⟩
          simp [hk, hg, this]
    · intro k
      rw [h3 k, mem_keys_writeAll]
      simp only [List.length_map, List.take_left', List.mem_cons, exists_eq_or_imp]
      constructor
      · rintro ((h | h) | h)
        · left; exact h
        · right; left; exact h
        · right; right; exact h
      · rintro (h | h | h)
        · left; left; exact h
        · left; right; exact h
        · right; exact h

/-- **value_of_own_key + keys_exact, cluster**: for every slot function, every key list
    (duplicates, any distribution over slots) and every JSON path: if each per-slot MGET is
    answered positionally from a function `f` of the key, the merged map has exactly the input
    keys and maps each key to its own answer -/
theorem clusterMGet_store (slot : Key → Nat) (keys : List Key) (path : Option Key) (f : Key → Val) :
    ∃ m, clusterMGet slot keys path ((group slot keys).map fun p => .arr (p.2.map f)) = .ok m ∧
      (∀ k, m.get? k = if k ∈ keys then some (f k) else none) ∧
      (∀ k, k ∈ m.keys ↔ k ∈ keys) := by
  obtain ⟨m, h1, h2, h3⟩ := mergeResps_store f path.toList ((group slot keys).map (·.2)) []
  have hmem : ∀ k, (∃ g ∈ (group slot keys).map (·.2), k ∈ g) ↔ k ∈ keys := by
    intro k
    rw [← group_mem slot keys k]
    simp only [List.mem_map]
    constructor
    · rintro ⟨g, ⟨p, hp, rfl⟩, hk⟩; exact ⟨p, hp, hk⟩
    · rintro ⟨p, hp, hk⟩; exact ⟨p.2, ⟨p, hp, rfl⟩, hk⟩
  refine ⟨m, ?_, ?_, ?_⟩
  · simpa [clusterMGet, clusterNames, List.map_map, Function.comp_def] using h1
  · intro k
    have := h2 k
    simp only [hmem k, List.lookup_nil] at this
    simpa [KV.get?] using this
  · intro k
    rw [h3 k, hmem k]; simp [KV.keys]

/-- **error_propagation, cluster**: the replies are inspected in command order; as soon as one
    is not an array the helper returns `(nil, that error)` — the values already merged from
    earlier slots are dropped — provided the earlier arrays were not longer than their commands
    (else index-out-of-range panic first) -/
theorem mergeResps_first_error (names : List (List Key)) (arrs : List (List Val)) (m : KV Val)
    (rest : List Reply) (r : Reply) (e : Err) (he : toArray r = .error e)
    (hfit : ∀ i, ∀ (h1 : i < arrs.length), ∃ (h2 : i < names.length), arrs[i].length ≤ names[i].length)
    (hlen : arrs.length < names.length) :
    mergeResps m names (arrs.map .arr ++ r :: rest) = .err e := by
  induction arrs generalizing names m with
  | nil =>
    cases names with
    | nil => simp at hlen
    | cons n ns => simp [mergeResps, he]
  | cons a arrs ih =>
    cases names with
    | nil => simp at hlen
    | cons n ns =>
      obtain ⟨_, h0⟩ := hfit 0 (by simp)
      have : ¬ a.length > n.length := by simpa using h0
      simp only [List.map_cons, List.cons_append, mergeResps, toArray, this, if_false]
      apply ih
      · intro i hi
        obtain ⟨h2, h3⟩ := hfit (i + 1) (by simpa using hi)
        exact ⟨by simpa using h2, by simpa using h3⟩
      · simpa using hlen

/-! ### doMultiCache (MGetCache / JsonMGetCache) -/

private theorem doMultiCache_eq (m : KV Val) (keys : List Key) (rs : List Reply)
    (hio : ∀ r ∈ rs, ∀ t, r ≠ .io t) (hlen : rs.length ≤ keys.length) :
    doMultiCache m keys rs = .ok (writeAll m keys (rs.map msgOf)) := by
  induction rs generalizing m keys with
  | nil => simp [doMultiCache, writeAll_nil_right]
  | cons r rs ih =>
    cases keys with
    | nil => simp at hlen
    | cons k ks =>
      have hr : ∀ t, r ≠ .io t := hio r (by simp)
      cases r with
      | io t => exact absurd rfl (hr t)
      | val v =>
        simp only [doMultiCache, List.map_cons, writeAll]
        exact ih _ _ (fun r' hr' => hio r' (by simp [hr'])) (by simpa using hlen)
      | arr vs =>
        simp only [doMultiCache, List.map_cons, writeAll]
        exact ih _ _ (fun r' hr' => hio r' (by simp [hr'])) (by simpa using hlen)

/-- **value_of_own_key + keys_exact, cached GETs**: one cached GET per key; if none of the
    replies is a transport error, the map has exactly the input keys, each with its own reply —
    an error *reply* for one key stays that key's entry and does not affect the others -/
theorem doMultiCache_store (keys : List Key) (r : Key → Reply) (hio : ∀ k ∈ keys, ∀ t, r k ≠ .io t) :
    ∃ m, doMultiCache [] keys (keys.map r) = .ok m ∧
      (∀ k, m.get? k = if k ∈ keys then some (msgOf (r k)) else none) ∧
      (∀ k, k ∈ m.keys ↔ k ∈ keys) := by
  refine ⟨writeAll [] keys ((keys.map r).map msgOf), ?_, ?_, ?_⟩
  · apply doMultiCache_eq
    · intro x hx t
      simp only [List.mem_map] at hx
      obtain ⟨k, hk, rfl⟩ := hx
      exact hio k hk t
    · simp
  · intro k
    have := lookup_writeAll_map (fun k => msgOf (r k)) keys [] [] k
    simpa [KV.get?, List.map_map, Function.comp_def] using this
  · intro k
    rw [mem_keys_writeAll]; simp [KV.keys]

/-- **error_propagation, cached GETs**: the first transport error aborts the helper with
    `(nil, err)`; redis error replies before it do not -/
theorem doMultiCache_first_io (m : KV Val) (keys : List Key) (pre rest : List Reply) (t : Key)
    (hio : ∀ r ∈ pre, ∀ t', r ≠ .io t') :
    doMultiCache m keys (pre ++ .io t :: rest) = .err (.io t) ∨
    (keys.length < pre.length ∧ doMultiCache m keys (pre ++ .io t :: rest) = .panic) := by
  induction pre generalizing m keys with
  | nil => left; cases keys <;> simp [doMultiCache]
  | cons r pre ih =>
    have hr : ∀ t', r ≠ .io t' := hio r (by simp)
    cases keys with
    | nil =>
      right
      cases r with
      | io t' => exact absurd rfl (hr t')
      | val v => simp [doMultiCache]
      | arr vs => simp [doMultiCache]
    | cons k ks =>
      cases r with
      | io t' => exact absurd rfl (hr t')
      | val v =>
        simp only [List.cons_append, doMultiCache, List.length_cons]
        rcases ih _ ks (fun r' hr' => hio r' (by simp [hr'])) with h | ⟨h1, h2⟩
        · left; exact h
        · right; exact ⟨by omega, h2⟩
      | arr vs =>
        simp only [List.cons_append, doMultiCache, List.length_cons]
        rcases ih _ ks (fun r' hr' => hio r' (by simp [hr'])) with h | ⟨h1, h2⟩
        · left; exact h
        · right; exact ⟨by omega, h2⟩

/-! ### doMultiSet (MSet / MSetNX / MDel / JsonMSet on a cluster-type client) -/

private theorem doMultiSet_eq (m : KV (Option Err)) (keys : List Key) (rs : List Reply)
    (hlen : rs.length ≤ keys.length) :
    doMultiSet m keys rs = .ok (writeAll m keys (rs.map errOf)) := by
  induction rs generalizing m keys with
  | nil => simp [doMultiSet, writeAll_nil_right]
  | cons r rs ih =>
    cases keys with
    | nil => simp at hlen
    | cons k ks =>
      simp only [doMultiSet, List.map_cons, writeAll]
      exact ih _ _ (by simpa using hlen)

/-- **value_of_own_key + keys_exact + error_propagation, per-key commands**: one command per
    key; the result map has exactly the input keys and each key's entry is the error (or nil)
    of its own command — a failure of one key's command, transport errors included, never
    aborts the helper or leaks into another key's entry -/
theorem doMultiSet_store (keys : List Key) (r : Key → Reply) :
    ∃ m, doMultiSet [] keys (keys.map r) = .ok m ∧
      (∀ k, m.get? k = if k ∈ keys then some (errOf (r k)) else none) ∧
      (∀ k, k ∈ m.keys ↔ k ∈ keys) := by
  refine ⟨writeAll [] keys ((keys.map r).map errOf), doMultiSet_eq _ _ _ (by simp), ?_, ?_⟩
  · intro k
    have := lookup_writeAll_map (fun k => errOf (r k)) keys [] [] k
    simpa [KV.get?, List.map_map, Function.comp_def] using this
  · intro k
    rw [mem_keys_writeAll]; simp [KV.keys]

/-- positional version for arbitrary replies (e.g. `DEL k` twice answering 1 then 0): an entry
    is the error of a command that carried that key -/
theorem doMultiSet_positional (keys : List Key) (rs : List Reply) (hlen : rs.length ≤ keys.length) :
    ∃ m, doMultiSet [] keys rs = .ok m ∧
      (∀ k e, m.get? k = some e → ∃ (j : Nat) (r : Reply), keys[j]? = some k ∧ rs[j]? = some r ∧ e = errOf r) ∧
      (∀ k, k ∈ m.keys ↔ k ∈ keys.take rs.length) := by
  refine ⟨_, doMultiSet_eq _ _ _ hlen, ?_, ?_⟩
  · intro k e h
    rcases lookup_writeAll_pos keys (rs.map errOf) [] k e h with h1 | ⟨j, hj1, hj2⟩
    · simp at h1
    · simp only [List.getElem?_map, Option.map_eq_some_iff] at hj2
      obtain ⟨r, hr, rfl⟩ := hj2
      exact ⟨j, r, hj1, hr, rfl⟩
  · intro k; rw [mem_keys_writeAll]; simp [KV.keys]

/-! ### single-command writes (MSET / MSETNX / JSON.MSET / DEL on single, standalone, sentinel) -/

private theorem lookup_const {α : Type} (e : α) (l : KV α) (h : ∀ p ∈ l, p.2 = e) (k : Key) :
    List.lookup k l = if k ∈ l.map (·.1) then some e else none := by
  induction l with
  | nil => simp
  | cons p l ih =>
    have hp := h p (by simp)
    have ih' := ih (fun q hq => h q (by simp [hq]))
    obtain ⟨pk, pv⟩ := p
    simp only at hp
    subst hp
    simp only [List.lookup_cons, List.map_cons, List.mem_cons, ih']
    by_cases hx : k = pk
    · subst hx; simp
    · have : (k == pk) = false := by simpa using hx
      by_cases hm : k ∈ l.map (·.1) <;> simp [this, hx, hm]

/-- **error_propagation, one write command**: every input key gets the one command's error -/
theorem allKeys_spec (keys : List Key) (e : Option Err) :
    (∀ k, (allKeys keys e).get? k = if k ∈ keys then some e else none) ∧
    (∀ k, k ∈ (allKeys keys e).keys ↔ k ∈ keys) := by
  constructor
  · intro k
    have := lookup_const e (allKeys keys e) (by simp [allKeys]) k
    simpa [KV.get?, allKeys, List.map_reverse, Function.comp_def] using this
  · intro k
    simp [allKeys, KV.keys, List.map_reverse, Function.comp_def]

/-! ### the helpers end to end -/

/-- MGet / JsonMGet on any client kind, any slot function, any key list: against a server that
    answers MGET / JSON.MGET positionally from a store `f`, the returned map has exactly the
    input keys, each mapped to the store's value for that key -/
theorem mget_store (slot : Key → Nat) (single : Bool) (keys : List Key) (path : Option Key)
    (srv : List Key → Reply) (f : Key → Val)
    (hsrv : ∀ ks, srv ((if path.isSome then s "JSON.MGET" else s "MGET") :: (ks ++ path.toList)) = .arr (ks.map f)) :
    ∃ m, (mget slot single keys path srv).2 = .vals (.ok m) ∧
      (∀ k, m.get? k = if k ∈ keys then some (f k) else none) ∧
      (∀ k, k ∈ m.keys ↔ k ∈ keys) := by
  unfold mget
  by_cases hk : keys = []
  · subst hk
    exact ⟨[], by simp, by simp [KV.get?], by simp [KV.keys]⟩
  · have hne : keys.isEmpty = false := by simpa using hk
    cases single
    · obtain ⟨m, h1, h2, h3⟩ := clusterMGet_store slot keys path f
      refine ⟨m, ?_, h2, h3⟩
      simp only [hne, Bool.false_eq_true, if_false, clusterNames, List.map_map, Function.comp_def,
        List.cons_append, hsrv]
      simpa [clusterMGet, clusterNames] using congrArg Out.vals h1
    · obtain ⟨m, h1, h2, h3⟩ := clientMGet_store keys f
      refine ⟨m, ?_, h2, h3⟩
      simp only [hne, Bool.false_eq_true, if_false, if_true, List.cons_append, hsrv]
      exact congrArg Out.vals h1

/-- MSet / MSetNX on a cluster-type client: every key of the map gets the error of its own
    `SET` command -/
theorem mset_cluster_own_error (nx : Bool) (kvs : List (Key × Key)) (srv : List Key → Reply)
    (r : Key → Reply) (hne : kvs ≠ [])
    (hsrv : ∀ p ∈ kvs, srv ([s "SET", p.1, p.2] ++ (if nx then [s "NX"] else [])) = r p.1) :
    ∃ m, (mset false nx kvs srv).2 = .errs (.ok m) ∧
      (∀ k, m.get? k = if k ∈ kvs.map (·.1) then some (errOf (r k)) else none) := by
  obtain ⟨m, h1, h2, _⟩ := doMultiSet_store (kvs.map (·.1)) r
  refine ⟨m, ?_, h2⟩
  have he : kvs.isEmpty = false := by simpa using hne
  have hmap : (kvs.map fun p => [s "SET", p.1, p.2] ++ (if nx then [s "NX"] else [])).map srv =
      (kvs.map (·.1)).map r := by
    simp only [List.map_map]
    apply List.map_congr_left
    intro p hp
    simpa using hsrv p hp
  simp only [mset, he, Bool.false_eq_true, if_false]
  rw [hmap, h1]

/-- non-vacuity / sanity: duplicates and two slots -/
example :
    (clusterMGet (fun k => k.length) [[1], [2, 2], [1]] none [.arr [.int 1, .int 1], .arr [.int 2]]) =
      .ok [([2, 2], .int 2), ([1], .int 1), ([1], .int 1)] := by decide

end Rv.C31
