/-
C02 — the pipeline queue hands each command off exactly once in FIFO order.

Property theorems about the models of /repo/ring.go (Rv/Model/Ring.lean) and
/repo/flowbuffer.go (Rv/Model/FlowBuffer.lean), for ALL interleavings (= all sequences of
enabled transitions from the initial state), any number of callers, any slot count 2^k with
k ≤ 32 (the counters are uint32). The invariants and their preservation proofs live in
Rv/Lemmas/Ring*.lean; this file only states and assembles the property theorems.
-/
import Rv.Lemmas.RingLive
import Rv.Lemmas.RingLogs
import Rv.Lemmas.RingPos
import Rv.Lemmas.RingFlow
import Rv.Lemmas.RingOrder
import Rv.Lemmas.RingProgress
import Rv.Lemmas.RingOneCond
import Rv.Lemmas.RingWrap
namespace Rv.C02
open Rv.Ring Rv.Spec

/-! ### Wrap-around of the uint32 counters -/

/-- `store[counter & mask]`: reducing the counter modulo 2^32 first does not change the slot,
    so the wrap-around of `write`/`read1`/`read2` keeps the round-robin order of the slots -/
theorem wraparound (k c : Nat) (hk : k ≤ 32) : (c % 2 ^ 32) % 2 ^ k = c % 2 ^ k :=
  Nat.mod_mod_of_dvd c (Nat.pow_dvd_pow 2 hk)

/-- the slot index used by the model (and by the Go code) is the unbounded counter mod 2^k -/
theorem slot_index (k c : Nat) (hk : k ≤ 32) : slotOf k c = c % 2 ^ k := slotOf_eq k c hk

/-- Refinement "Go counters = model positions mod 2^32", made explicit: `wrap32 σ` is the state
    with `write`, `read1`, `read2` reduced modulo 2^32 (what the uint32 fields hold). The wrap is
    invisible: exactly the same transitions are enabled on the wrapped state, a step on the
    wrapped state followed by wrapping equals wrapping after the step on unbounded positions,
    hence a whole uint32 run is the image of the unbounded run (`run32` = `run` then `wrap32`) —
    because the model (like ring.go) touches the counters only by `+1` and by the slot index
    `counter mod 2^k`, never by an order comparison. -/
theorem wrap_around_invisible (k : Nat) (l : Label) (ls : List Label) (σ : State) :
    enabled k l (wrap32 σ) = enabled k l σ ∧
    wrap32 (apply k l (wrap32 σ)) = wrap32 (apply k l σ) ∧
    run32 k (wrap32 σ) ls = (run k σ ls).map wrap32 :=
  ⟨enabled_wrap32 k l σ, apply_wrap32 k l σ, run_wrap32 k ls σ⟩

/-- comparisons between counters are meaningful only as equalities on residues:
    (1) within 2^32 commands of each other two positions are equal iff their residues are;
    (2) the ORDER of residues is meaningless — one command queued across the wrap gives
        `read1 < write` but `write mod 2^32 < read1 mod 2^32`;
    (3) the equalities are sound emptiness tests: `read1 = write` implies the writer's next slot
        is not filled, `read2 = write` implies the reader's next slot is not in flight. -/
theorem counter_comparisons_on_residues (k : Nat) (hk : k ≤ 32) (σ : State) (h : Reachable k σ) :
    (∀ a b : Nat, a ≤ b → b < a + 2 ^ 32 → (a % 2 ^ 32 = b % 2 ^ 32 ↔ a = b)) ∧
    (∃ read1 write : Nat, read1 < write ∧ write = read1 + 1 ∧ write % 2 ^ 32 < read1 % 2 ^ 32) ∧
    (σ.read1 = σ.write → (σ.slot (slotOf k (σ.read1 + 1))).mark ≠ 1) ∧
    (σ.read2 = σ.write → (σ.slot (slotOf k (σ.read2 + 1))).mark ≠ 2) :=
  ⟨residue_equality_exact, residue_order_meaningless, nothing_queued_of_eq hk h, nothing_in_flight_of_eq hk h⟩

/-! ### Invariants of the ring -/

/-- counters and marks: `read2 ≤ read1 ≤ read2 + N`; one ticket per caller; every slot carries
    the queue position `gen` it serves in its current cycle, `gen ≡ slot (mod N)`,
    `read2 < gen ≤ read2 + N`; a slot is `2` (handed to the writer, reply outstanding) exactly
    when its position has been taken by the writer, otherwise `0` or `1` -/
theorem ring_invariants (k : Nat) (hk : k ≤ 32) (σ : State) (h : Reachable k σ) :
    σ.read2 ≤ σ.read1 ∧ σ.read1 ≤ σ.read2 + 2 ^ k ∧ σ.write = σ.ncalls ∧
    ∀ s, s < 2 ^ k →
      (σ.slot s).mark ≤ 2 ∧ (σ.slot s).gen % 2 ^ k = s ∧
      σ.read2 < (σ.slot s).gen ∧ (σ.slot s).gen ≤ σ.read2 + 2 ^ k ∧
      ((σ.slot s).mark = 2 ↔ (σ.slot s).gen ≤ σ.read1) := by
  have i := Inv.of_reachable hk h
  exact ⟨i.a.r21, i.a.r1N, i.b.wn, fun s hs =>
    ⟨i.a.markle s hs, i.a.genmod s hs, i.a.genlo s hs, i.a.genhi s hs, i.a.mark2 s hs⟩⟩

/-- the writer's and the reader's next slot carry exactly the positions `read1 + 1` and
    `read2 + 1` (when not all N slots are in flight): the three counters chase each other
    round the ring without skipping or repeating a position — also across the 2^32 wrap -/
theorem next_positions (k : Nat) (hk : k ≤ 32) (σ : State) (h : Reachable k σ) :
    (σ.slot (slotOf k (σ.read2 + 1))).gen = σ.read2 + 1 ∧
    (σ.read1 < σ.read2 + 2 ^ k → (σ.slot (slotOf k (σ.read1 + 1))).gen = σ.read1 + 1) := by
  have i := Inv.of_reachable hk h
  have := i.a.r21
  have := pow_pos' k
  rw [slotOf_eq k _ hk, slotOf_eq k _ hk]
  exact ⟨i.a.gen_of_window _ (by omega) (by omega), fun hlt => i.a.gen_of_window _ (by omega) (by omega)⟩

/-- per-slot cycle: a transition leaves a slot's mark alone or moves it 0→1 (filled), 1→2
    (handed to the writer) or 2→0 (reply slot taken by the reader) -/
theorem slot_cycle (k : Nat) (σ : State) (l : Label) (s : Nat) :
    let m := (σ.slot s).mark
    let m' := ((apply k l σ).slot s).mark
    m' = m ∨ (m = 0 ∧ m' = 1) ∨ (m = 1 ∧ m' = 2) ∨ (m = 2 ∧ m' = 0) := by
  cases l <;> simp only [Ring.apply, Ring.take] <;> (repeat' split) <;> simp [upd_apply] <;>
    (try split) <;> simp_all

/-- the unbuffered reply channel of a slot has at most one receiver: two callers blocked on the
    same `n.ch` are the same caller -/
theorem one_receiver (k : Nat) (hk : k ≤ 32) (σ : State) (h : Reachable k σ) (s c c' : Nat)
    (h1 : σ.pc c = .filled s) (h2 : σ.pc c' = .filled s) : c = c' := by
  have i := Inv.of_reachable hk h
  have l1 := (i.b.live c s (Or.inl h1)).2
  have l2 := (i.b.live c' s (Or.inl h2)).2
  rcases l1 with l1 | l1 <;> rcases l2 with l2 | l2
  · have := l1.2; rw [l2.2] at this; injection this with this; exact this.symm
  · exact absurd (i.a.hmark s c' l2) l1.1
  · exact absurd (i.a.hmark s c l1) l2.1
  · rw [l1] at l2; injection l2 with _ b; injection b

/-- the slot's mutex is held from NextResultCh to FinishResult: while the reader is about to
    send the reply of command r on slot s's channel, the slot is locked and free (`mark = 0`),
    no caller can enter it, and the only goroutine receiving on that channel is caller r itself -/
theorem lock_held_during_reply (k : Nat) (hk : k ≤ 32) (σ : State) (h : Reachable k σ) (s r : Nat)
    (hr : σ.rpc = .holding s (some r)) :
    locked σ s = true ∧ (σ.slot s).mark = 0 ∧
    (∀ c, σ.pc c = .ready s → enabled k (.enter c) σ = false) ∧
    (∀ c, enabled k (.rDeliver c) σ = true → c = r) := by
  have i := Inv.of_reachable hk h
  refine ⟨by simp [locked, hr], i.a.hmark s r hr, ?_, ?_⟩
  · intro c hc; simp [enabled, hc, locked, hr]
  · intro c he
    simp only [enabled, hr] at he
    exact (i.b.deliver i.a c s r hr (by simpa using he)).1

/-! ### Exactly once, FIFO -/

/-- each enqueued command is handed to the writer at most once (`wlog` is duplicate free) and
    only after its caller stored it in a slot; the replies are delivered in exactly the
    writer's order (`clog` is the doubled prefix of `wlog`), i.e. the reply of command c goes
    to caller c — the caller that enqueued it — and to nobody else, once; a caller that got a
    reply got the reply of its own command. ("Eventually handed over" is `no_stuck`.) -/
theorem exactly_once (k : Nat) (hk : k ≤ 32) (σ : State) (h : Reachable k σ) :
    σ.wlog.Nodup ∧
    σ.clog = (σ.wlog.take σ.clog.length).map (fun c => (c, c)) ∧
    σ.clog.length ≤ σ.wlog.length ∧
    (∀ c, c ∈ σ.wlog → σ.pos c ≠ 0 ∧ c < σ.ncalls) ∧
    (∀ c r, σ.pc c = .done r → r = c ∧ (c, c) ∈ σ.clog) := by
  have i := Inv.of_reachable hk h
  have hpre := clog_prefix i
  have hlen : σ.clog.length = ndeliv σ := by rw [i.b.clog_eq]; simp [posList_length]
  have hposnz : ∀ c, σ.pos c ≠ 0 → c < σ.ncalls := by
    intro c hc
    apply Classical.byContradiction; intro hn
    exact hc (i.b.idl c (i.b.fresh c (by omega)))
  refine ⟨?_, hpre, ?_, ?_, ?_⟩
  · rw [i.b.wlog_eq]; exact posList_nodup _ σ.pos _ i.b.atpos
  · rw [hlen, i.b.wlog_eq, posList_length]; exact ndeliv_le i
  · intro c hc
    rw [i.b.wlog_eq] at hc
    simp only [posList, List.mem_map, List.mem_range] at hc
    obtain ⟨j, hj, e⟩ := hc
    have := i.b.atpos (j + 1) (by omega) (by omega)
    rw [e] at this
    have hne : σ.pos c ≠ 0 := by omega
    exact ⟨hne, hposnz c hne⟩
  · intro c r hd
    obtain ⟨e, p1, p2⟩ := i.b.dne c r hd
    refine ⟨e, ?_⟩
    rw [i.b.clog_eq]
    simp only [posList, List.map_map, List.mem_map, List.mem_range]
    refine ⟨σ.pos c - 1, by omega, ?_⟩
    have : σ.pos c - 1 + 1 = σ.pos c := by omega
    simp only [Function.comp, this]
    rw [InvP.of_reachable hk h c (by omega)]

/-- FIFO in queue order: the i-th command handed to the writer is the command stored at queue
    position i (slot `i mod N` in its `⌈i/N⌉`-th cycle), for every i, and a filled slot holds
    the command of its current position — the writer can neither skip nor reorder positions -/
theorem fifo_order (k : Nat) (hk : k ≤ 32) (σ : State) (h : Reachable k σ) :
    σ.wlog = (List.range σ.read1).map (fun i => σ.atPos (i + 1)) ∧
    (∀ s c, s < 2 ^ k → (σ.slot s).mark ≠ 0 → (σ.slot s).cmd = some c →
      σ.atPos (σ.slot s).gen = c ∧ σ.pos c = (σ.slot s).gen) := by
  have i := Inv.of_reachable hk h
  refine ⟨i.b.wlog_eq, ?_⟩
  intro s c hs hm hc
  obtain ⟨c', h1, _, h3, h4⟩ := i.b.occ s hs hm
  rw [hc] at h1; injection h1 with h1; subst h1
  exact ⟨h3, h4⟩

/-- schedule of 3 callers on a ring of 2 slots: caller 0 takes ticket 1 and stalls before
    locking; caller 1 (ticket 2) completes its PutOne; caller 2 arrives afterwards, gets ticket
    3 = slot 1 again, finds it free and fills it -/
def overtakeSchedule : List Label :=
  [.arrive, .arrive, .enter 1, .arrive, .enter 2, .wTry, .wTry,
   .rBegin, .rDeliver 2, .rUnlock, .rSignal none, .enter 0, .wTry]

/-- The stronger reading "the writer sees commands in ticket order" (= call ids 0,1,2,…) does
    NOT hold for the ring as it is when more callers than slots are in flight: in the reachable
    run `overtakeSchedule` the writer receives 2, 1, 0, although caller 1's PutOne had returned
    (`pc 1 = filled`) before caller 2 had even arrived (`ncalls = 2`). The ring is therefore
    not a linearizable FIFO w.r.t. PutOne call intervals; the harness observes the same
    overtaking on the real ring (`ring:realtime-overtake`, only with callers > slots). -/
theorem ticket_order_fails :
    (run 1 (init 1) overtakeSchedule).map (·.wlog) = some [2, 1, 0] ∧
    (run 1 (init 1) (overtakeSchedule.take 3)).map (fun σ => (σ.pc 1, σ.ncalls)) = some (.filled 0, 2) := by
  decide

/-- the position a caller fills is always congruent to its slot, i.e. it can deviate from the
    caller's ticket only by a multiple of N (a whole number of ring cycles) -/
theorem fill_position_congruent (k : Nat) (hk : k ≤ 32) (σ : State) (h : Reachable k σ) (c s : Nat)
    (hc : σ.pc c = .filled s ∨ σ.pc c = .bcast s) (hm : (σ.slot s).mark ≠ 0) :
    σ.pos c % 2 ^ k = s := by
  have i := Inv.of_reachable hk h
  obtain ⟨hs, l2⟩ := i.b.live c s hc
  obtain ⟨c', h1, _, _, h4⟩ := i.b.occ s hs hm
  rcases l2 with l2 | l2
  · rw [l2.2] at h1; injection h1 with h1; subst h1
    rw [h4]; exact i.a.genmod s hs
  · exact absurd (i.a.hmark s c l2) hm

/-- Exact condition for ticket order = hand-off order: never more callers in flight than
    slots. `Bounded k σ` is the decidable state predicate `write ≤ read2 + 2^k` (tickets issued
    minus reply slots taken ≤ N; implied by "at most N caller goroutines, each waiting for its
    reply before the next call") and `ReachableB` are the runs all of whose states satisfy it.
    In every such run, for ANY interleaving: every stored command sits at the queue position of
    its caller's ticket (`pos c = c + 1`, call ids are issued in ticket order), the writer
    receives the calls' commands in ticket order `0, 1, 2, …` and the replies follow the same
    order. Outside the condition the statement is false: `ticket_order_fails`. -/
theorem fifo_ticket_order (k : Nat) (hk : k ≤ 32) (σ : State) (h : ReachableB k σ) :
    σ.wlog = List.range σ.read1 ∧
    σ.clog = (List.range σ.clog.length).map (fun c => (c, c)) ∧
    (∀ c, σ.pos c ≠ 0 → σ.pos c = c + 1) := by
  have w := wlog_ticket_order hk h
  have i := Inv.of_reachable hk h.reachable
  refine ⟨w, ?_, (InvJ.of_reachableB hk h).j2⟩
  have hp := clog_prefix i
  have hle : σ.clog.length ≤ σ.read1 := by
    have := congrArg List.length hp
    simp [w] at this; omega
  conv => lhs; rw [hp, w, List.take_range, Nat.min_eq_left hle]

/-- the ticket-order hypothesis is decidable on a run (`runB` checks it state by state), it is
    satisfiable (two callers on two slots, handed over in ticket order), and the overtaking
    schedule of `ticket_order_fails` is exactly a run that leaves it (its third arrival makes
    `write = 3 > read2 + 2`) -/
theorem fifo_ticket_order_nonvacuous :
    (runB 1 (init 1) [.arrive, .arrive, .enter 1, .enter 0, .wTry, .wTry]).map (·.wlog) = some [0, 1] ∧
    runB 1 (init 1) overtakeSchedule = none ∧
    (run 1 (init 1) overtakeSchedule).isSome = true := by
  decide

/-! ### Refinement of the FIFO specification -/

/-- every run of the ring maps to a run of the FIFO specification (forward simulation, each
    ring transition ↦ zero, one or two spec events appended in time order) with the same
    writer-dequeue sequence, the same completion sequence (command, receiving caller) and the
    same multiset of enqueued (command, owner) pairs; the enqueue is linearised immediately
    before the dequeue (see `ticket_order_fails` for why no earlier point works in general) -/
theorem ring_refines_fifo (k : Nat) (hk : k ≤ 32) (σ : State) (h : Reachable k σ) :
    ∃ evs q, Fifo.run Fifo.empty evs = some q ∧
      Fifo.deqs evs = σ.wlog ∧ Fifo.fins evs = σ.clog ∧
      Fifo.enqs evs = σ.wlog.map (fun c => (c, c)) ∧
      q.written = (σ.wlog.drop σ.clog.length).map (fun c => (c, c)) := by
  suffices ∃ evs q, Sim σ evs q by
    obtain ⟨evs, q, s⟩ := this
    exact ⟨evs, q, s.run, s.deqs, s.fins, s.enqs, s.writ⟩
  induction h with
  | init => exact ⟨[], Fifo.empty, ⟨rfl, rfl, rfl, rfl, rfl, rfl⟩⟩
  | step l hr he ih =>
    obtain ⟨evs, q, s⟩ := ih
    obtain ⟨evs', q', s'⟩ := sim_step hk (Inv.of_reachable hk hr)
      (Inv.of_reachable hk (Reachable.step l hr he)) he s
    exact ⟨_, _, s'⟩

/-! ### Deadlock freedom -/

/-- No lost wake-up, no deadlock — for any number of callers, also many more than slots.
    In every reachable state in which some caller is pending (inside PutOne/PutMulti or waiting
    for its reply) a *productive* transition is enabled, where productive excludes new
    arrivals, polls that find nothing and the writer merely going to sleep.
    Fairness / environment assumption made explicit: every goroutine with an enabled
    transition is eventually scheduled; the reader calls NextResultCh once a written command
    is outstanding ("the server answers what was written": `rBegin` counts as productive only
    when the slot is marked 2) and then sends the reply and calls FinishResult; the writer
    alternates NextWriteCmd / WaitForWrite; `sync.Cond.Wait` registers the waiter before
    releasing the mutex, `Signal` wakes one registered waiter if there is one. -/
theorem no_stuck (k : Nat) (hk : k ≤ 32) (σ : State) (h : Reachable k σ) (c : Nat)
    (hc : σ.pc c ≠ .idle ∧ ∀ r, σ.pc c ≠ .done r) :
    ∃ l, l ≠ .arrive ∧ enabled k l σ = true ∧ productive k l σ = true := by
  obtain ⟨l, h1, h2⟩ := (Full.of_reachable hk h).no_stuck hk c hc
  refine ⟨l, ?_, h1, h2⟩
  intro e; subst e; simp [productive] at h2

/-- the three wake-up invariants behind `no_stuck`, stated on their own:
    (1) `slept` is true only while the writer is parked on (or just woken from) that slot;
    (2) a caller that filled a slot whose `slept` flag was set still owes the Broadcast, and
        the writer is still parked there — the Broadcast cannot be lost or go stale;
    (3) a caller in c1's wait set is covered by a filled slot, by the reader inside
        NextResultCh…FinishResult/Signal on that slot, or by an already woken caller -/
theorem no_lost_wakeup (k : Nat) (hk : k ≤ 32) (σ : State) (h : Reachable k σ) :
    (∀ s, (σ.slot s).slept = true → σ.wpc = .sleeping s ∨ σ.wpc = .woken s) ∧
    (∀ c s, σ.pc c = .bcast s → σ.wpc = .sleeping s ∧ (σ.slot s).mark = 1) ∧
    (∀ s, σ.wpc = .sleeping s → (σ.slot s).mark = 1 → ∃ c, (σ.slot s).cmd = some c ∧ σ.pc c = .bcast s) ∧
    (∀ c s, σ.pc c = .waiting s → Covered σ s) := by
  have f := Full.of_reachable hk h
  exact ⟨f.w.sl, f.w.bc, f.w.lw2, f.s.lw1⟩

/-- `no_stuck` in the plain form: no reachable deadlock state. Whenever some caller is pending
    there is an enabled transition of a caller, the writer or the reader that is not a new
    arrival (and not an empty poll) -/
theorem ring_no_deadlock (k : Nat) (hk : k ≤ 32) (σ : State) (h : Reachable k σ)
    (hp : ∃ c, pending σ c) : ∃ l, l ≠ .arrive ∧ enabled k l σ = true ∧ productive k l σ = true := by
  obtain ⟨c, hc⟩ := hp
  exact no_stuck k hk σ h c hc

/-- the progress measure `mu σ = 6·(ncalls − read2) + 2·#ready + #bcast + (ncalls − read1) +
    readerPhase` strictly decreases on every productive transition of a caller, the writer or
    the reader (everything except: a new arrival, NextWriteCmd/NextResultCh polls that find
    nothing, the writer going to sleep), in every reachable state -/
theorem ring_progress_measure_decreases (k : Nat) (hk : k ≤ 32) (σ : State) (h : Reachable k σ)
    (l : Label) (he : enabled k l σ = true) (hpr : productive k l σ = true) :
    mu (apply k l σ) < mu σ :=
  mu_decreases hk (Full.of_reachable hk h) l he hpr

/-- hence between two arrivals at most `mu σ` productive transitions can happen (no livelock),
    and together with `ring_no_deadlock`: with finitely many arrivals, under the fairness
    assumption of `no_stuck`, every run reaches a state without productive transitions, and in
    such a state every caller that arrived has received the reply of its own command — for
    any number of callers, also many more than slots -/
theorem ring_progress (k : Nat) (hk : k ≤ 32) (σ : State) (h : Reachable k σ) :
    (∀ ls σ', runP k σ ls = some σ' → mu σ' + ls.length ≤ mu σ) ∧
    ((∀ l, enabled k l σ = true → productive k l σ = false) →
      ∀ c, c < σ.ncalls → σ.pc c = .done c) := by
  refine ⟨fun ls σ' r => (runP_bound hk ls σ σ' h r).1, ?_⟩
  intro hq c hc
  have i := Inv.of_reachable hk h
  apply Classical.byContradiction
  intro hnd
  have hpend : pending σ c := by
    refine ⟨?_, ?_⟩
    · intro hi
      -- a caller that arrived is not idle: its pc was set at arrival and never returns to idle
      exact absurd hi (arrived_not_idle k hk σ h c hc)
    · intro r hr
      have := (i.b.dne c r hr).1
      subst this; exact hnd hr
  obtain ⟨l, _, h1, h2⟩ := no_stuck k hk σ h c hpend
  rw [hq l h1] at h2; cases h2

/-! ### Who is woken by which step -/

/-- wake-up targets of the model (= of ring.go as it is): FinishResult's `c1.Signal` wakes a
    caller parked in `c1.Wait` on that slot whenever there is one — never the writer, whose pc
    it leaves untouched — and does nothing only if no caller is parked there -/
theorem signal_wakes_a_waiting_caller (k : Nat) (hk : k ≤ 32) (σ : State) (h : Reachable k σ)
    (s : Nat) (w : Option Nat) (hr : σ.rpc = .signal s) (he : enabled k (.rSignal w) σ = true) :
    (apply k (.rSignal w) σ).wpc = σ.wpc ∧
    (match w with
     | some c => σ.pc c = .waiting s ∧ (apply k (.rSignal w) σ).pc c = .ready s
     | none => ∀ c, σ.pc c ≠ .waiting s) := by
  have i := Inv.of_reachable hk h
  simp only [enabled, hr] at he
  cases w with
  | some c =>
    have hpc : σ.pc c = .waiting s := by simpa using he
    simp [Ring.apply, hr, hpc]
  | none =>
    refine ⟨by simp [Ring.apply, hr], ?_⟩
    intro c hc
    have hlt : c < σ.ncalls := lt_ncalls i c (by rw [hc]; simp)
    have := List.all_eq_true.1 he c (List.mem_range.2 hlt)
    simp [hc] at this

/-- the callers' `c2.Broadcast` wakes the writer if (and only if) it is parked on that slot and
    wakes no caller: apart from the broadcasting caller itself every pc is unchanged -/
theorem broadcast_wakes_only_the_writer (k : Nat) (σ : State) (c s : Nat) (hpc : σ.pc c = .bcast s) :
    (apply k (.bcast c) σ).wpc = (if σ.wpc = .sleeping s then .woken s else σ.wpc) ∧
    ∀ c', c' ≠ c → (apply k (.bcast c) σ).pc c' = σ.pc c' := by
  refine ⟨by simp only [Ring.apply, hpc], fun c' hne => ?_⟩
  simp only [Ring.apply, hpc, upd_apply, hne, if_false]

/-- the deadlock-freedom theorems depend on these targets: in the variant with ONE wait set per
    slot (writer and callers park on the same condition variable, Signal wakes an arbitrary
    member of it, Broadcast all of it — Rv/Lemmas/RingOneCond.lean) a deadlock is reachable on
    2 slots: ring full of written-and-unanswered commands, writer parked on the oldest slot,
    one more caller parked behind it, the reader's Signal is consumed by the writer; the final
    state has no enabled productive transition although caller 2 is still waiting -/
theorem one_cond_var_variant_deadlocks :
    (OneCond.run1 1 (init 1) OneCond.deadlockSchedule).map
      (fun σ => OneCond.stuck1 1 σ && σ.pc 2 == .waiting 1 && σ.wpc == .sleeping 1 && σ.rpc == .idle &&
        (σ.slot 1).mark == 0 && σ.read1 == 2 && σ.read2 == 2) = some true :=
  OneCond.one_cond_var_deadlocks

/-! ### Flow buffer -/

/-- token conservation: the `size` tokens are always split between the three channels, the
    callers between `<-b.f` and `b.w <- cmd`, and the reader's `b.c` -/
theorem flow_token_conservation (size : Nat) (σ : Flow.State) (h : Flow.Reachable size σ) :
    σ.f.length + σ.hold.length + σ.w.length + σ.r.length + (if σ.cur.isSome then 1 else 0) = size := by
  obtain ⟨i, hs, _⟩ := Flow.reachable_inv_sim h
  rw [← hs]; exact i.cons

/-- hence no send ever blocks: a caller holding a token finds room in `w`, the writer finds
    room in `r`, FinishResult finds room in `f` -/
theorem flow_sends_never_block (size : Nat) (σ : Flow.State) (h : Flow.Reachable size σ) :
    (∀ c ch, (c, ch) ∈ σ.hold → σ.w.length < σ.size) ∧
    (σ.w ≠ [] → σ.r.length < σ.size) ∧
    (σ.cur.isSome → σ.f.length < σ.size) := by
  obtain ⟨i, _, _⟩ := Flow.reachable_inv_sim h
  have := i.cons
  refine ⟨?_, ?_, ?_⟩
  · intro c ch hm
    have := List.length_pos_of_mem hm
    omega
  · intro hw
    have : 0 < σ.w.length := List.length_pos_iff.2 hw
    omega
  · intro hc; simp [hc] at this; omega

/-- the reply-channel ids of the `size` tokens stay pairwise distinct: every id occurs at most
    once over f, the callers between `<-b.f` and `b.w <- cmd`, w, r and b.c (the tokens are
    created once with fresh channels and only move) -/
theorem flow_channel_ids_distinct (size : Nat) (σ : Flow.State) (h : Flow.Reachable size σ) (x : Nat) :
    Flow.tcount σ x ≤ 1 := (Flow.InvU.of_reachable h).tc x

/-- the flow buffer refines the FIFO specification with `b.w <- cmd` as the linearisation point
    of the enqueue: same enqueue order (`elog`), same writer-dequeue sequence, same completion
    sequence of (command, receiving caller) pairs; the spec's pending list is `w` -/
theorem flow_refines_fifo (size : Nat) (σ : Flow.State) (h : Flow.Reachable size σ) :
    ∃ evs q, Fifo.run Fifo.empty evs = some q ∧
      Fifo.enqs evs = σ.elog.map (fun c => (c, c)) ∧
      Fifo.deqs evs = σ.wlog ∧
      Fifo.fins evs = σ.clog ∧
      q.pending = σ.w.map (fun t => (t.2, t.2)) ∧
      σ.elog = σ.wlog ++ σ.w.map (·.2) := by
  obtain ⟨i, _, evs, q, s⟩ := Flow.reachable_inv_sim h
  exact ⟨evs, q, s.run, s.enqs, s.deqs, s.fins, s.pend, i.enq⟩

/-- the reply of a command goes to the caller that enqueued it and to nobody else: the only
    caller that can receive on the channel in `b.c` is the owner of the command travelling with
    that token; every completed (command, receiver) pair is (c, c); commands leave in exactly
    the order in which callers sent them to `w` and the reader meets them in that order -/
theorem flow_reply_to_enqueuer (size : Nat) (σ : Flow.State) (h : Flow.Reachable size σ) :
    (∀ c ch cmd, σ.cur = some (ch, cmd) → Flow.enabled (.rDeliver c) σ = true → c = cmd) ∧
    (∀ p, p ∈ σ.clog → p.1 = p.2) ∧
    (∀ c ch, σ.pc c = .filled ch → Flow.inFlight σ ch c) ∧
    σ.elog = σ.wlog ++ σ.w.map (·.2) ∧
    σ.wlog = σ.clog.map (·.1) ++ Flow.pcur σ ++ σ.r.map (·.2) := by
  obtain ⟨i, _, evs, q, s⟩ := Flow.reachable_inv_sim h
  have u := Flow.InvU.of_reachable h
  refine ⟨?_, ?_, u.fil, i.enq, i.wr⟩
  · intro c ch cmd hcur he
    simp only [Flow.enabled, hcur, Bool.and_eq_true] at he
    exact u.deliver_eq hcur (by simpa using he.2)
  · -- every completion is an accepted `fin c o` step of the specification, whose in-flight
    -- entries are (c, c)
    exact Flow.clog_diag h

/-- the flow buffer never deadlocks: whenever a caller holds a token or waits for its reply, a
    transition other than a new arrival is enabled (send / writer take / reader begin /
    deliver / finish) — for any number of callers -/
theorem flow_no_deadlock (size : Nat) (σ : Flow.State) (h : Flow.Reachable size σ)
    (hp : ∃ c, Flow.pending σ c) : ∃ l, l ≠ .recv ∧ Flow.enabled l σ = true := by
  obtain ⟨c, hc⟩ := hp
  exact Flow.no_deadlock h c hc

/-! ### Non-vacuity -/

/-- the hypotheses are satisfiable: a complete hand-over on 2 slots is reachable -/
example : ∃ σ, Reachable 1 σ ∧ σ.wlog = [2, 1, 0] ∧ σ.clog = [(2, 2)] := by
  have h : ∃ σ, run 1 (init 1) overtakeSchedule = some σ ∧ σ.wlog = [2, 1, 0] ∧ σ.clog = [(2, 2)] := by
    cases hr : run 1 (init 1) overtakeSchedule with
    | none => have := ticket_order_fails.1; rw [hr] at this; cases this
    | some σ =>
      refine ⟨σ, rfl, ?_, ?_⟩
      · have := ticket_order_fails.1; rw [hr] at this; simpa using this
      · have : (run 1 (init 1) overtakeSchedule).map (·.clog) = some [(2, 2)] := by decide
        rw [hr] at this; simpa using this
  obtain ⟨σ, hr, h1, h2⟩ := h
  exact ⟨σ, run_reachable 1 _ _ _ Reachable.init hr, h1, h2⟩

end Rv.C02
