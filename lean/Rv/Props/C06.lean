/-
C06 — cached replies are never served after their invalidation (store-level part).
Models: Rv/Model/Lru.lean (lru.go) and Rv/Model/Adapter.lean (NewSimpleCacheAdapter);
specification: Rv/Spec/Cache.lean. The pipe-level part (wire-order commits, handlePush,
tracking modes) is covered by other suites of this property.
-/
import Rv.Lemmas.LruFlights
import Rv.Lemmas.AdapterRefine
import Rv.Lemmas.CachePipe
namespace Rv.C06
open Rv.Lru
open Rv.Spec.Cache (Spec lookup)

/-! ### lru.go refines the specification map -/

/-- **Refinement.** Run any history on a fresh lru model and, in lockstep, the specification (which sees the
    arguments of the calls and which lookups were answered "send"). Then every hit a `Flight` returns afterwards is
    the specification's current, unexpired value for exactly that (key, cmd). The lru may miss where the
    specification still holds a value (eviction), it never hits wrongly. -/
theorem lru_refines_spec (mx base : Int) (ops : List Op) (k c : Bytes) (ttl now : Int) (v : Nat) (exp : Int)
    (h : (flight (runBoth (Lru.init mx base) Spec.Cache.empty ops).1 k c ttl now).2 = .hit v exp) :
    lookup (runBoth (Lru.init mx base) Spec.Cache.empty ops).2 (k, c) (unixMilli now) = some (v, exp) :=
  hit_of_outcome (R_runBoth (R_init mx base) (inv_init mx base) ops).1 (flight_cases _ k c ttl now) h

/-- **Refinement, batched lookups.** The same for `Flights` (DoMultiCache): whatever it puts into `results[j]`
    — from the read-locked first loop or the write-locked second one — is the specification's current unexpired
    value of the j-th command of the batch. -/
theorem flights_hits_refine (mx base : Int) (ops : List Op) (now : Int) (multi : List (Bytes × Bytes × Int))
    (j : Nat) (v : Nat) (exp : Int)
    (h : (flights (runBoth (Lru.init mx base) Spec.Cache.empty ops).1 now multi).2.1[j]? = some (some (.hit v exp))) :
    ∃ k c ttl, multi[j]? = some (k, c, ttl) ∧
      lookup (runBoth (Lru.init mx base) Spec.Cache.empty ops).2 (k, c) (unixMilli now) = some (v, exp) :=
  have hr := R_runBoth (R_init mx base) (inv_init mx base) ops
  flights_hits hr.1 hr.2 now multi j v exp h

/-- the model component of the lockstep run is the plain run -/
theorem lockstep_is_run (mx base : Int) (ops : List Op) :
    (runBoth (Lru.init mx base) Spec.Cache.empty ops).1 = run (Lru.init mx base) ops := runBoth_fst _ _ _

private theorem vals_none_step (sp : Spec) (kc : Spec.Cache.KC) (h : sp.vals kc = none) (op : Op) (r : Res)
    (hop : ∀ v vsz raw, op ≠ .update kc.1 kc.2 v vsz raw) : (specStep sp op r).vals kc = none := by
  have hsent : ∀ (sp : Spec) kc' e, (Spec.Cache.sent sp kc' e).vals = sp.vals := by
    intro sp kc' e; unfold Spec.Cache.sent; split <;> rfl
  cases op with
  | flight k c ttl now =>
    cases r with
    | fl r => cases r <;> simp [specStep, hsent, h]
    | fls _ _ => simpa [specStep] using h
    | pxat _ => simpa [specStep] using h
    | unit => simpa [specStep] using h
  | flights now multi =>
    cases r with
    | fls rs missed =>
      simp only [specStep, specSends]
      have : ∀ (ms : List Nat) (sp : Spec), (ms.foldl (sendStep now multi) sp).vals = sp.vals := by
        intro ms
        induction ms with
        | nil => intro sp; rfl
        | cons i rest ih =>
          intro sp; simp only [List.foldl_cons]; rw [ih]
          unfold sendStep; split
          · exact hsent _ _ _
          · rfl
      rw [this]; exact h
    | fl _ => simpa [specStep] using h
    | pxat _ => simpa [specStep] using h
    | unit => simpa [specStep] using h
  | update k c v vsz raw =>
    simp only [specStep, Spec.Cache.update]
    split
    · exact h
    · split
      · have hne : kc ≠ (k, c) := by
          intro heq; exact hop v vsz raw (by rw [heq])
        simp only [hne, if_false]; exact h
      · exact h
  | cancel k c err => simp only [specStep, Spec.Cache.cancel]; split <;> exact h
  | delete keys =>
    cases keys with
    | none => simp [specStep, Spec.Cache.flush]
    | some ks => simp only [specStep, Spec.Cache.delete]; split <;> simp [h]
  | close err => simp [specStep, Spec.Cache.close]
  | sethits k n => simpa [specStep] using h

private theorem vals_none_run (s : State) (sp : Spec) (kc : Spec.Cache.KC) (h : sp.vals kc = none) (ops : List Op)
    (hop : ∀ op ∈ ops, ∀ v vsz raw, op ≠ .update kc.1 kc.2 v vsz raw) : (runBoth s sp ops).2.vals kc = none := by
  induction ops generalizing s sp with
  | nil => exact h
  | cons op rest ih =>
    exact ih _ _ (vals_none_step sp kc h op _ (hop op List.mem_cons_self)) (fun o ho => hop o (List.mem_cons_of_mem _ ho))

/-- **No hit after invalidation.** After `Delete(keys)` with `k ∈ keys` — at any point of any history — no `Flight`
    of (k, c) is a hit until an `Update` of (k, c) has been made (i.e. until a reply that arrived after the
    invalidation is committed); in particular nothing committed before the invalidation is ever served again. -/
theorem no_hit_after_delete (mx base : Int) (ops0 : List Op) (keys : List Bytes) (k c : Bytes) (hk : k ∈ keys)
    (ops : List Op) (hop : ∀ op ∈ ops, ∀ v vsz raw, op ≠ .update k c v vsz raw) (ttl now : Int) (v : Nat) (exp : Int) :
    (flight (run (Lru.init mx base) (ops0 ++ [.delete (some keys)] ++ ops)) k c ttl now).2 ≠ .hit v exp := by
  intro hhit
  have hsplit : ∀ (s : State) (sp : Spec) (a b : List Op),
      runBoth s sp (a ++ b) = runBoth (runBoth s sp a).1 (runBoth s sp a).2 b := by
    intro s sp a
    induction a generalizing s sp with
    | nil => intro b; rfl
    | cons x xs ih => intro b; exact ih _ _ b
  rw [← lockstep_is_run] at hhit
  have href := lru_refines_spec mx base _ k c ttl now v exp hhit
  rw [hsplit, hsplit] at href
  generalize runBoth (Lru.init mx base) Spec.Cache.empty ops0 = p at href
  have hnone : (runBoth p.1 p.2 [Op.delete (some keys)]).2.vals (k, c) = none := by
    simp [runBoth, specStep, Spec.Cache.delete, hk]
  have := vals_none_run (runBoth p.1 p.2 [Op.delete (some keys)]).1 _ (k, c) hnone ops hop
  simp [lookup, this] at href

/-- the same after a flush (`Delete(nil)`), for every key -/
theorem no_hit_after_flush (mx base : Int) (ops0 : List Op) (k c : Bytes)
    (ops : List Op) (hop : ∀ op ∈ ops, ∀ v vsz raw, op ≠ .update k c v vsz raw) (ttl now : Int) (v : Nat) (exp : Int) :
    (flight (run (Lru.init mx base) (ops0 ++ [.delete none] ++ ops)) k c ttl now).2 ≠ .hit v exp := by
  intro hhit
  have hsplit : ∀ (s : State) (sp : Spec) (a b : List Op),
      runBoth s sp (a ++ b) = runBoth (runBoth s sp a).1 (runBoth s sp a).2 b := by
    intro s sp a
    induction a generalizing s sp with
    | nil => intro b; rfl
    | cons x xs ih => intro b; exact ih _ _ b
  rw [← lockstep_is_run] at hhit
  have href := lru_refines_spec mx base _ k c ttl now v exp hhit
  rw [hsplit, hsplit] at href
  generalize runBoth (Lru.init mx base) Spec.Cache.empty ops0 = p at href
  have hnone : (runBoth p.1 p.2 [Op.delete none]).2.vals (k, c) = none := by
    simp [runBoth, specStep, Spec.Cache.flush]
  have := vals_none_run (runBoth p.1 p.2 [Op.delete none]).1 _ (k, c) hnone ops hop
  simp [lookup, this] at href

/-- **Pending entries survive invalidation.** `Delete` (of any keys, or flush) leaves every pending entry in place … -/
theorem pending_survives_delete {s : State} (hi : Inv s) {e : Entry} (he : e ∈ s.list) (hp : e.pend = true)
    (keys : Option (List Bytes)) : e ∈ (delete s keys).list :=
  pending_persists hi he hp (.delete keys) rfl

/-- … so the `Update` that arrives after the invalidation still fills it: the waiters and the cache receive that
    reply (it was produced by the server after the invalidated write; wire order is the pipe-level part), with the
    client expiry fixed when the request was started. -/
theorem update_after_delete_commits {s : State} (hi : Inv s) {e : Entry} (he : e ∈ s.list) (hp : e.pend = true)
    (keys : Option (List Bytes)) (v : Nat) (vsz raw : Int) :
    (update (delete s keys) e.key e.cmd v vsz raw).2 = chooseExp e.exp (pack raw) ∧
    (update (delete s keys) e.key e.cmd v vsz raw).1.done =
      (delete s keys).done ++ [(e.id, .val v (chooseExp e.exp (pack raw)))] := by
  have hi' : Inv (delete s keys) := inv_delete hi keys
  have hmem := pending_survives_delete hi he hp keys
  have hfind := find?_of_mem hi'.nodup hmem
  have u := update_cases (delete s keys) e.key e.cmd v vsz raw
  cases u with
  | closed hc hs hp' => have := hi'.closedNil hc; rw [this] at hmem; cases hmem
  | absent hc hf hs hp' => rw [hf] at hfind; cases hfind
  | fill e' hc hf hpend hp' hl hsz hd hcl hmx hn =>
    rw [hf] at hfind; cases hfind; exact ⟨hp', by rw [hd, hp']⟩
  | stale e' hc hf hpend hp' hl hsz hd hcl hmx hn =>
    rw [hf] at hfind; cases hfind; rw [hp] at hpend; cases hpend

/-- **Close clears.** After `Close` the list is empty and stays empty, whatever is called afterwards, so nothing
    is ever served again (see also `C09.closed_store_only_sends`). -/
theorem close_clears (s : State) (err : Nat) (ops : List Op) :
    (run (close s err) ops).list = [] ∧ (run (close s err) ops).closed = true := by
  have key : ∀ (ops : List Op) (s : State), Inv s → s.closed = true → (run s ops).list = [] ∧ (run s ops).closed = true := by
    intro ops
    induction ops with
    | nil => intro s hi hc; exact ⟨hi.closedNil hc, hc⟩
    | cons op rest ih =>
      intro s hi hc
      apply ih _ (inv_step hi op)
      cases op with
      | flight k c ttl now =>
        have o := flight_cases s k c ttl now
        cases o with
        | closed hc' hs hr => simp only [step]; rw [hs]; exact hc
        | found e hc' hf hv hr hl hsz hn fr => rw [hc] at hc'; cases hc'
        | expired e hc' hf hv hr hl hsz hn fr => rw [hc] at hc'; cases hc'
        | absent hc' hf hr hl hsz hn fr => rw [hc] at hc'; cases hc'
      | flights now multi =>
        simp only [step]
        unfold flights
        have h1 := flights1_list (unixMilli now) multi 0 { s := s, res := [], moves := [], missed := [] }
        generalize flights1 (unixMilli now) multi 0 { s := s, res := [], moves := [], missed := [] } = a at h1
        simp only at h1 ⊢
        have hac : a.s.closed = true := by rw [h1.2.2.1]; exact hc
        split
        · exact hac
        · simp [hac]
      | update k c v vsz raw => simp [step, update, hc]
      | cancel k c err => simp [step, cancel, hc]
      | delete keys =>
        cases keys with
        | none => simp only [step, delete]; rw [foldl_purge_closed]; exact hc
        | some ks => simp only [step, delete]; rw [foldl_purge_closed]; exact hc
      | close err => rfl
      | sethits k n => exact hc
  exact key ops (close s err) (inv_close s err) rfl


/-! ### the store built by `NewSimpleCacheAdapter` -/

open Rv.Adapter in
/-- **Adapter refinement.** Let `P` be a set of (key, cmd) names on which the adapter's address `key ++ cmd` is
    injective. For every history of adapter calls that uses only names of `P`, whose `Flight` clocks do not step
    backwards and whose client expiries fit the 7-byte field (`AdmAll`), run in lockstep with the specification:
    every hit returned by a later `Flight` (name in `P`, clock not before the last one) is the specification's
    current unexpired value for exactly that (key, cmd). -/
theorem adapter_refines_spec (P : KC → Prop) (hinj : Inj P) (T0 : Int) (ops : List Adapter.Op) (hadm : AdmAll P T0 ops)
    (k c : Bytes) (ttl now : Int) (hP : P (k, c))
    (hT : (runA Adapter.init Spec.Cache.empty T0 ops).2.2 ≤ unixMilli now) (v : Nat) (exp : Int)
    (h : (Adapter.flight (runA Adapter.init Spec.Cache.empty T0 ops).1 k c ttl now).2 = .hit v exp) :
    lookup (runA Adapter.init Spec.Cache.empty T0 ops).2.1 (k, c) (unixMilli now) = some (v, exp) :=
  hit_of_RA (RA_runA hinj ops (RA_init P T0) hadm) k c ttl now hP hT v exp h

open Rv.Adapter in
/-- **Without injectivity the refinement fails** (the adapter part of the known `CacheKey` concatenation
    finding recorded under C08): key "x" with cmd "HGETGET" and key "xHGET" with cmd "GET" share the address
    "xHGETGET". After the first is fetched and committed, a `Flight` of the second is answered with a HIT carrying
    the first command's reply, although the specification holds nothing for it. -/
theorem adapter_collision_breaks_refinement :
    let x : Bytes := [120]; let hgetget : Bytes := [72, 71, 69, 84, 71, 69, 84]
    let xhget : Bytes := [120, 72, 71, 69, 84]; let get : Bytes := [71, 69, 84]
    let r := runA Adapter.init Spec.Cache.empty 0 [.flight x hgetget 10000000000 0, .update x hgetget 1 0]
    x ++ hgetget = xhget ++ get ∧
    (Adapter.flight r.1 xhget get 10000000000 1000000).2 = .hit 1 10000 ∧
    lookup r.2.1 (xhget, get) (unixMilli 1000000) = none := by decide

open Rv.Adapter in
/-- **Without a monotone clock the refinement fails as well**: an expired value stays in the user store while a
    new request for it is pending (its nil marker is shadowed by the pending entry, so `Delete` skips it); if a
    later `Flight` is given an earlier `now`, the value from before the invalidation is served. The lru removes
    expired entries physically and has no such case. (Needs `now` to step back across the value's expiry.) -/
theorem adapter_clock_stepping_back_serves_stale :
    let k : Bytes := [107]; let c : Bytes := [71]
    let r := runA Adapter.init Spec.Cache.empty 0
      [.flight k c 50000000 0, .update k c 1 0,     -- committed, expires at 50 ms
       .flight k c 50000000 100000000,              -- at 100 ms: expired, a new request is pending
       .delete (some [k])]                          -- invalidation: skipped because the slot is pending
    (Adapter.flight r.1 k c 50000000 10000000).2 = .hit 1 50 ∧        -- a lookup "at 10 ms" hits the old value
    lookup r.2.1 (k, c) (unixMilli 10000000) = none := by decide


/-! ### one connection: DoCache, the reader loop, invalidation pushes and the server (`Rv.CachePipe`)

Every theorem below is about `run (init mx base) evs` for an ARBITRARY event list: events that are not enabled are
no-ops, the queues are FIFO, so this is every interleaving of DoCache calls, server executions, writes by other
clients, flushes, deliveries to the reader loop and disconnects that respects wire order. Values are the server's
per-key write counters ("versions"); `floor k` is the largest write version of `k` whose invalidation the reader
loop has processed; an invalidation message carries (ghost) the version of the write that caused it. -/

open Rv.CachePipe in
/-- **No stale hit, general form.** Whatever happened on the connection, a DoCache hit for a command on key `k`
    returns a version that is not older than any invalidation of `k` processed so far (`floor k`), and that the
    server really had (`≤ ver k`). -/
theorem hit_not_older_than_processed_invalidation (mx base : Int) (evs : List Ev) (k c : Bytes) (ttl now : Int)
    (v : Nat) (exp : Int) (h : lookupRes (CachePipe.run (CachePipe.init mx base) evs) k c ttl now = .hit v exp) :
    (CachePipe.run (CachePipe.init mx base) evs).floor k ≤ v ∧ v ≤ (CachePipe.run (CachePipe.init mx base) evs).ver k := by
  have hinv := pinv_run (pinv_init mx base) evs
  obtain ⟨e, he, hk, hc, hp, hv⟩ := flight_hit_entry _ k c ttl now v exp h
  have := hinv.entries e he hp
  unfold EOk at this
  rw [hk, hv] at this
  exact ⟨this.1, this.2.1⟩

open Rv.CachePipe in
/-- **No stale hit.** Take any history `evs1` after which the invalidation of `k` caused by write number `n` is the
    next message the reader loop will handle; let it be handled (`deliver`) and let anything (`evs2`) happen
    afterwards. Every DoCache hit on `k` from then on returns a version `≥ n`: the reply it came from was executed by
    the server after that write. In particular a reply of an older fetch that reached the store before the push was
    deleted by it (`push_deletes_key`), and a reply still queued behind the push is newer
    (`reply_after_push_is_newer`). -/
theorem no_stale_hit (mx base : Int) (evs1 evs2 : List Ev) (t : Int) (k : Bytes) (n : Nat) (rest : List Msg)
    (hq : (CachePipe.run (CachePipe.init mx base) evs1).respQ = .push k n :: rest)
    (c : Bytes) (ttl now : Int) (v : Nat) (exp : Int)
    (h : lookupRes (CachePipe.run (CachePipe.init mx base) (evs1 ++ .deliver t :: evs2)) k c ttl now = .hit v exp) :
    n ≤ v := by
  have hsplit : ∀ (st : St) (a b : List Ev), CachePipe.run st (a ++ b) = CachePipe.run (CachePipe.run st a) b := by
    intro st a; induction a generalizing st with
    | nil => intro b; rfl
    | cons x xs ih => intro b; exact ih _ b
  have h1 := (hit_not_older_than_processed_invalidation mx base _ k c ttl now v exp h).1
  rw [hsplit] at h1
  generalize CachePipe.run (CachePipe.init mx base) evs1 = st1 at hq h1
  have hfl : n ≤ (CachePipe.step st1 (.deliver t)).floor k := by
    simp only [CachePipe.step, hq, handle, upd_same]; exact Nat.le_max_right _ _
  exact Nat.le_trans hfl (Nat.le_trans (floor_mono_run _ evs2 k) h1)

open Rv.CachePipe in
/-- the same after a flush push (`Delete(nil)`): every later hit is at least as new as the flush, for every key -/
theorem no_stale_hit_after_flush (mx base : Int) (evs1 evs2 : List Ev) (t : Int) (g : Bytes → Nat) (rest : List Msg)
    (hq : (CachePipe.run (CachePipe.init mx base) evs1).respQ = .pushAll g :: rest)
    (k c : Bytes) (ttl now : Int) (v : Nat) (exp : Int)
    (h : lookupRes (CachePipe.run (CachePipe.init mx base) (evs1 ++ .deliver t :: evs2)) k c ttl now = .hit v exp) :
    g k ≤ v := by
  have hsplit : ∀ (st : St) (a b : List Ev), CachePipe.run st (a ++ b) = CachePipe.run (CachePipe.run st a) b := by
    intro st a; induction a generalizing st with
    | nil => intro b; rfl
    | cons x xs ih => intro b; exact ih _ b
  have h1 := (hit_not_older_than_processed_invalidation mx base _ k c ttl now v exp h).1
  rw [hsplit] at h1
  generalize CachePipe.run (CachePipe.init mx base) evs1 = st1 at hq h1
  have hfl : g k ≤ (CachePipe.step st1 (.deliver t)).floor k := by
    simp only [CachePipe.step, hq, handle]; exact Nat.le_max_right _ _
  exact Nat.le_trans hfl (Nat.le_trans (floor_mono_run _ evs2 k) h1)

open Rv.CachePipe in
/-- **Every hit is the reply the server sent for exactly that command**: the returned version was handed to
    `Update` as the EXEC reply of a fetch of that same (key, cmd) (`log` records exactly the replies delivered). -/
theorem hit_is_reply_of_same_command (mx base : Int) (evs : List Ev) (k c : Bytes) (ttl now : Int)
    (v : Nat) (exp : Int) (h : lookupRes (CachePipe.run (CachePipe.init mx base) evs) k c ttl now = .hit v exp) :
    ((k, c), v) ∈ (CachePipe.run (CachePipe.init mx base) evs).log := by
  have hinv := pinv_run (pinv_init mx base) evs
  obtain ⟨e, he, hk, hc, hp, hv⟩ := flight_hit_entry _ k c ttl now v exp h
  have := (hinv.entries e he hp).2.2.2.2
  rw [hk, hc, hv] at this; exact this

open Rv.CachePipe in
/-- **Pending entries survive invalidation**: handling an invalidation push (of any key, or a flush) leaves every
    in-flight entry in the store; its reply, which is behind the push on the wire, will fill it. -/
theorem pending_survives_invalidation (mx base : Int) (evs : List Ev) (t : Int) (m : Msg) (rest : List Msg)
    (hq : (CachePipe.run (CachePipe.init mx base) evs).respQ = m :: rest)
    (hm : (∃ k n, m = .push k n) ∨ ∃ g, m = .pushAll g)
    (e : Entry) (he : e ∈ (CachePipe.run (CachePipe.init mx base) evs).store.list) (hp : e.pend = true) :
    e ∈ (CachePipe.step (CachePipe.run (CachePipe.init mx base) evs) (.deliver t)).store.list := by
  have hinv := pinv_run (pinv_init mx base) evs
  generalize CachePipe.run (CachePipe.init mx base) evs = st at hq he hinv
  rcases hm with ⟨k, n, rfl⟩ | ⟨g, rfl⟩
  · simp only [CachePipe.step, hq, handle]
    exact pending_persists hinv.store he hp (.delete (some [k])) rfl
  · simp only [CachePipe.step, hq, handle]
    exact pending_persists hinv.store he hp (.delete none) rfl

open Rv.CachePipe in
/-- a reply that reached the store BEFORE the push of its key is deleted by that push -/
theorem push_deletes_key (st : St) (t : Int) (k : Bytes) (n : Nat) (rest : List Msg) (hq : st.respQ = .push k n :: rest) :
    ∀ e ∈ (CachePipe.step st (.deliver t)).store.list, e.key = k → e.pend = true := by
  intro e he hk
  simp only [CachePipe.step, hq, handle] at he
  have := (mem_foldl_purge [k] he).2
  cases hp : e.pend
  · exact absurd (by simp [hk]) (this hp)
  · rfl

open Rv.CachePipe in
/-- a reply queued BEHIND an invalidation of its key was executed after the invalidating write -/
theorem reply_after_push_is_newer (mx base : Int) (evs : List Ev) (pre post : List Msg) (m : Msg)
    (hq : (CachePipe.run (CachePipe.init mx base) evs).respQ = pre ++ m :: post)
    (k c : Bytes) (v : Nat) (vsz raw : Int) (hr : Msg.reply k c v vsz raw ∈ post) : pushVer m k ≤ v := by
  have hinv := pinv_run (pinv_init mx base) evs
  have := hinv.queue
  rw [hq] at this
  exact QOk_replies_ge (QOk_suffix pre _ this) k c v vsz raw hr

open Rv.CachePipe in
/-- **Coherence.** At every moment every completed entry of the store, and every reply still on the wire, is
    either the server's current version of its key or is followed — in the store's case: somewhere on the wire, in
    the reply's case: behind it — by an invalidation that covers it. Nothing stale can stay cached without its
    invalidation already being on the way. -/
theorem cached_value_current_or_invalidation_in_flight (mx base : Int) (evs : List Ev) :
    let st := CachePipe.run (CachePipe.init mx base) evs
    (∀ e ∈ st.store.list, e.pend = false →
        e.val = st.ver e.key ∨ ∃ m ∈ st.respQ, e.val < pushVer m e.key) ∧
    (∀ pre post k c v vsz raw, st.respQ = pre ++ .reply k c v vsz raw :: post →
        v = st.ver k ∨ ∃ m ∈ post, v < pushVer m k) := by
  intro st
  have hinv := pinv_run (pinv_init mx base) evs
  constructor
  · intro e he hp
    obtain ⟨_, b, c', _, _⟩ := hinv.entries e he hp
    rcases Nat.lt_or_ge e.val (st.ver e.key) with hlt | hge
    · exact Or.inr (c' hlt)
    · exact Or.inl (Nat.le_antisymm b hge)
  · intro pre post k c v vsz raw hq
    have := hinv.queue
    rw [show (CachePipe.run (CachePipe.init mx base) evs).respQ = pre ++ .reply k c v vsz raw :: post from hq] at this
    obtain ⟨_, b, c', _⟩ := (QOk_suffix pre _ this).1.1 k c v vsz raw rfl
    rcases Nat.lt_or_ge v (st.ver k) with hlt | hge
    · exact Or.inr (c' hlt)
    · exact Or.inl (Nat.le_antisymm b hge)

open Rv.CachePipe in
/-- non-vacuity: a fetch, a write by another client, then the reply and the push arrive in wire order — the value
    is served between the two deliveries and no longer afterwards -/
theorem pipe_scenario :
    let k : Bytes := [107]; let c : Bytes := [71]
    let evs : List Ev := [.start k c 1000000000000 0, .exec 50 (-1), .write k, .deliver 500000]
    let st := CachePipe.run (CachePipe.init 10000 336) evs
    lookupRes st k c 1000000000000 1000000 = .hit 0 1000000 ∧
    st.ver k = 1 ∧
    lookupRes (CachePipe.step st (.deliver 600000)) k c 1000000000000 1000000 = .send := by decide

end Rv.C06
