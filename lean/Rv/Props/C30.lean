/-
C30 — Lua scripts run at most once per Exec.
Theorems over the model Rv.LuaExec of /repo/lua.go, for every option combination, every
key/argument list, every stored SHA-1 and **every server** (`step` is universally quantified).
-/
import Rv.Model.LuaExec
namespace Rv.C30
open Rv.LuaExec Rv.LuaExec.Spec

variable {σ : Type}

set_option linter.unusedSimpArgs false
set_option linter.unusedVariables false

/-- the classified commands one `Exec` call sends, in order -/
def events (c : Cfg) (sha : Bytes) (k a : List Bytes) (step : σ → Cmd → σ × Reply) (s : σ) : List Ev :=
  (exec c sha k a step s).trace.map evOf

/-! ### helper lemmas -/

set_option hygiene false in
/-- case split over the option flags, the stored SHA-1 and every answer the code inspects -/
local macro "exec_bash" : tactic => `(tactic| (
  unfold exec evalPhase
  cases hro : c.ro <;> cases hn : c.nosha <;> cases hl : c.load <;> by_cases hs : sha = [] <;>
    simp only [hro, hn, hl, hs, evalCmd, evalshaCmd, loadCmd, if_true, if_false, Bool.not_true,
      Bool.not_false, Bool.true_and, Bool.false_and, Bool.true_or, Bool.false_or, ne_eq,
      not_true_eq_false, not_false_eq_true, decide_true, decide_false, Bool.false_eq_true] <;>
    (repeat' split) <;>
    (try simp_all [execOk, evOf, clsOf, isSha, isEval, roOk, afterNoscript, ranBody, loadsOk, toStr?, goodLoad]) <;>
    (repeat' split) <;> (try simp_all [toStr?]) <;> (try decide)))

private theorem afterNoscript_pos (prev : Option Ev) (log : List Ev) (h : afterNoscript prev log = true)
    (pre post : List Ev) (e : Ev) (hl : log = pre ++ e :: post) (he : isEval e.kind = true) :
    (∃ pre' q, pre = pre' ++ [q] ∧ isSha q.kind = true ∧ q.cls = .noscript) ∨
    (pre = [] ∧ ∃ q, prev = some q ∧ isSha q.kind = true ∧ q.cls = .noscript) := by
  induction log generalizing prev pre with
  | nil => simp at hl
  | cons x rest ih =>
    simp only [afterNoscript, Bool.and_eq_true] at h
    cases pre with
    | nil =>
      simp only [List.nil_append, List.cons.injEq] at hl
      obtain ⟨rfl, _⟩ := hl
      right
      refine ⟨rfl, ?_⟩
      have h1 := h.1
      simp only [he, if_true] at h1
      cases prev with
      | none => simp at h1
      | some p => exact ⟨p, rfl, by simpa using h1⟩
    | cons y pre' =>
      simp only [List.cons_append, List.cons.injEq] at hl
      obtain ⟨hxy, hrest⟩ := hl
      left
      rcases ih (some x) h.2 pre' hrest with ⟨p2, q, hp, hq⟩ | ⟨hp, q, hq, hq2⟩
      · exact ⟨y :: p2, q, by simp [hp], hq⟩
      · refine ⟨[], y, by simp [hp], ?_⟩
        subst hxy
        simp only [Option.some.injEq] at hq
        subst hq
        exact hq2

/-! ### The specification holds for every run of the model (this is what the `!trace`
oracle lines evaluate on the real code's observed log) -/

/-- every `Exec` of the model satisfies the executable specification `Spec.execOk` -/
theorem exec_spec (c : Cfg) (sha : Bytes) (k a : List Bytes) (step : σ → Cmd → σ × Reply) (s : σ) :
    execOk c.ro c.nosha c.load (sha != []) (events c sha k a step s) = true := by
  unfold events
  exec_bash

/-! ### Property theorems -/

/-- NoSha scripts never send EVALSHA / EVALSHA_RO -/
theorem nosha_never_evalsha (c : Cfg) (sha : Bytes) (k a : List Bytes) (step : σ → Cmd → σ × Reply)
    (s : σ) (h : c.nosha = true) : ∀ e ∈ events c sha k a step s, isSha e.kind = false := by
  have := exec_spec c sha k a step s
  simp only [execOk, h, Bool.not_true, Bool.false_or, Bool.and_eq_true, List.all_eq_true] at this
  intro e he
  simpa using this.1.1.1.1 e he

/-- read-only scripts only use EVALSHA_RO / EVAL_RO, the others only EVALSHA / EVAL
    (SCRIPT LOAD aside) -/
theorem ro_uses_ro_commands (c : Cfg) (sha : Bytes) (k a : List Bytes) (step : σ → Cmd → σ × Reply)
    (s : σ) : ∀ e ∈ events c sha k a step s, e.kind = .scriptLoad ∨
      (if c.ro then e.kind = .evalshaRo ∨ e.kind = .evalRo else e.kind = .evalsha ∨ e.kind = .eval) := by
  have := exec_spec c sha k a step s
  simp only [execOk, Bool.and_eq_true, List.all_eq_true] at this
  intro e he
  have h := this.1.1.1.2 e he
  cases hro : c.ro <;> simp [roOk, hro] at h ⊢ <;> exact h

/-- EVAL / EVAL_RO is sent only directly after an EVALSHA / EVALSHA_RO that was answered NOSCRIPT -/
theorem eval_only_after_noscript (c : Cfg) (sha : Bytes) (k a : List Bytes) (step : σ → Cmd → σ × Reply)
    (s : σ) (h : c.nosha = false) (pre post : List Ev) (e : Ev)
    (hl : events c sha k a step s = pre ++ e :: post) (he : isEval e.kind = true) :
    ∃ pre' q, pre = pre' ++ [q] ∧ isSha q.kind = true ∧ q.cls = .noscript := by
  have := exec_spec c sha k a step s
  simp only [execOk, h, Bool.false_or, Bool.and_eq_true] at this
  rcases afterNoscript_pos none _ this.1.1.2 pre post e hl he with h1 | ⟨_, q, hq, _⟩
  · exact h1
  · simp at hq

/-- … and conversely: EVAL is sent iff some EVALSHA was answered NOSCRIPT -/
theorem eval_iff_noscript (c : Cfg) (sha : Bytes) (k a : List Bytes) (step : σ → Cmd → σ × Reply)
    (s : σ) (h : c.nosha = false) :
    (events c sha k a step s).any (fun e => isEval e.kind) =
    (events c sha k a step s).any (fun e => isSha e.kind && e.cls == .noscript) := by
  unfold events
  exec_bash

/-- unless NoSha, the first EVAL-family command of a call is EVALSHA / EVALSHA_RO -/
theorem evalsha_first (c : Cfg) (sha : Bytes) (k a : List Bytes) (step : σ → Cmd → σ × Reply)
    (s : σ) (h : c.nosha = false) :
    ∀ e, (events c sha k a step s).find? (fun e => isSha e.kind || isEval e.kind) = some e →
      isSha e.kind = true := by
  unfold events
  exec_bash

/-- at most one command of a call makes the server run the script body (every EVAL, and every
    EVALSHA not refused with NOSCRIPT — a lost reply counts as run) -/
theorem body_at_most_once (c : Cfg) (sha : Bytes) (k a : List Bytes) (step : σ → Cmd → σ × Reply)
    (s : σ) : ((events c sha k a step s).filter ranBody).length ≤ 1 := by
  have := exec_spec c sha k a step s
  simp only [execOk, Bool.and_eq_true, decide_eq_true_eq] at this
  exact this.1.2

/-! #### at most once against a faithful script cache with message loss -/

/-- the trace really is a run of the server, ending in the returned server state -/
inductive Run (step : σ → Cmd → σ × Reply) : σ → List (Cmd × Reply) → σ → Prop
  | nil (s : σ) : Run step s [] s
  | cons {s : σ} {cmd : Cmd} {tr : List (Cmd × Reply)} {s'' : σ} :
      Run step (step s cmd).1 tr s'' → Run step s ((cmd, (step s cmd).2) :: tr) s''

theorem exec_run (c : Cfg) (sha : Bytes) (k a : List Bytes) (step : σ → Cmd → σ × Reply) (s : σ) :
    Run step s (exec c sha k a step s).trace (exec c sha k a step s).srv := by
  unfold exec evalPhase
  cases hn : c.nosha <;> cases hl : c.load <;> by_cases hs : sha = [] <;>
    simp only [hn, hl, hs, if_true, if_false, Bool.not_true, Bool.not_false, Bool.true_and,
      Bool.false_and, Bool.true_or, Bool.false_or, ne_eq, not_true_eq_false, not_false_eq_true,
      decide_true, decide_false, Bool.false_eq_true] <;>
    (repeat' split) <;>
    (try simp_all) <;>
    (repeat' split) <;>
    repeat (first | exact Run.nil _ | apply Run.cons)

inductive Fault | none | before | after
  deriving DecidableEq, Repr

/-- a script cache: knows the script or not, counts body executions; `faults` says for each
    successive command whether it is lost before the server sees it or its reply is lost -/
structure Srv where
  known : Bool
  runs : Nat
  faults : List Fault

def noscriptText : Bytes := NOSCRIPT ++ [32, 78, 111]

/-- `truth`: the SHA-1 under which the server caches the script; `v`: the body's value -/
def srvStep (truth : Bytes) (v : Reply) (s : Srv) (cmd : Cmd) : Srv × Reply :=
  let f := s.faults.headD .none
  let s0 := { s with faults := s.faults.tail }
  if f = .before then (s0, .io [98]) else
  let p : Srv × Reply := match cmd.kind with
    | .scriptLoad => ({ s0 with known := true }, .str truth)
    | .evalsha | .evalshaRo =>
      if s0.known && cmd.args.head? == some truth then ({ s0 with runs := s0.runs + 1 }, v)
      else (s0, .rerr noscriptText)
    | .eval | .evalRo => ({ s0 with known := true, runs := s0.runs + 1 }, v)
  if f = .after then (p.1, .io [97]) else p

private theorem noscript_is : isNoScript (.rerr noscriptText) = true := by decide

private theorem srvStep_runs (truth : Bytes) (v : Reply) (hv : isNoScript v = false) (s : Srv) (cmd : Cmd) :
    (srvStep truth v s cmd).1.runs ≤
      s.runs + (if ranBody (evOf (cmd, (srvStep truth v s cmd).2)) then 1 else 0) := by
  unfold srvStep
  cases hk : cmd.kind <;> cases hf : s.faults.headD .none <;>
    simp [hk, hf, ranBody, evOf, clsOf, isSha, isEval, isNoScript] <;>
    (repeat' split) <;> simp_all [noscript_is, isNoScript, ← List.isPrefixOf_iff_prefix]

private theorem run_runs (truth : Bytes) (v : Reply) (hv : isNoScript v = false) (s s' : Srv) (tr : List (Cmd × Reply))
    (h : Run (srvStep truth v) s tr s') :
    s'.runs ≤ s.runs + ((tr.map evOf).filter ranBody).length := by
  induction h with
  | nil s => simp
  | cons hrun ih =>
    rename_i s cmd tr s''
    have h1 := srvStep_runs truth v hv s cmd
    simp only [List.map_cons, List.filter_cons]
    split <;> simp_all <;> omega

/-- against a script cache in any state (script known or flushed), with any pattern of lost
    requests and lost replies, one `Exec` makes the server run the body at most once — provided
    the body's own result `v` is not itself an error reply that starts with NOSCRIPT -/
theorem at_most_once_faithful (c : Cfg) (sha : Bytes) (k a : List Bytes) (truth : Bytes) (v : Reply)
    (hv : isNoScript v = false) (s : Srv) :
    (exec c sha k a (srvStep truth v) s).srv.runs ≤ s.runs + 1 := by
  have h1 := run_runs truth v hv s _ _ (exec_run c sha k a (srvStep truth v) s)
  have h2 := body_at_most_once c sha k a (srvStep truth v) s
  unfold events at h2
  omega

/-! #### … and through a client that re-sends retryable-tagged commands -/

def isIo : Reply → Bool
  | .io _ => true
  | _ => false

/-- a client with retries enabled (every rueidis client by default): a command tagged
    retryable that fails with a transport error is silently sent again, at most `n` times -/
def resend (n : Nat) (step : σ → Cmd → σ × Reply) (s : σ) (cmd : Cmd) : σ × Reply :=
  match n with
  | 0 => step s cmd
  | n + 1 =>
    let p := step s cmd
    if cmd.retry && isIo p.2 then resend n step p.1 cmd else p

/-- a script that is neither read-only nor from a *Retryable constructor never tags a script
    command retryable — neither the EVALSHA nor the EVAL fallback after NOSCRIPT; only
    SCRIPT LOAD (which runs nothing) is -/
theorem untagged_unless_opted_in (c : Cfg) (sha : Bytes) (k a : List Bytes) (step : σ → Cmd → σ × Reply)
    (s : σ) (hro : c.ro = false) (hr : c.retry = false) :
    ∀ p ∈ (exec c sha k a step s).trace, p.1.kind = .scriptLoad ∨ p.1.retry = false := by
  have h : ((exec c sha k a step s).trace.map (·.1)).all
      (fun cmd => cmd.kind == .scriptLoad || !cmd.retry) = true := by
    exec_bash
  intro p hp
  have := List.all_eq_true.mp h p.1 (List.mem_map.mpr ⟨p, hp, rfl⟩)
  simpa using this

private theorem resend_untagged (n : Nat) (step : σ → Cmd → σ × Reply) (s : σ) (cmd : Cmd)
    (h : cmd.retry = false) : resend n step s cmd = step s cmd := by
  cases n <;> simp [resend, h]

private theorem resend_load_runs (truth : Bytes) (v : Reply) (n : Nat) (s : Srv) (cmd : Cmd)
    (h : cmd.kind = .scriptLoad) : (resend n (srvStep truth v) s cmd).1.runs = s.runs := by
  have hstep : ∀ s : Srv, (srvStep truth v s cmd).1.runs = s.runs := by
    intro s
    unfold srvStep
    cases hf : s.faults.headD .none <;> simp [h, hf]
  induction n generalizing s with
  | zero => simpa [resend] using hstep s
  | succ n ih =>
    simp only [resend]
    split
    · rw [ih, hstep]
    · exact hstep s

private theorem run_runs_resend (truth : Bytes) (v : Reply) (hv : isNoScript v = false) (n : Nat)
    (s s' : Srv) (tr : List (Cmd × Reply)) (h : Run (resend n (srvStep truth v)) s tr s')
    (hu : ∀ p ∈ tr, p.1.kind = .scriptLoad ∨ p.1.retry = false) :
    s'.runs ≤ s.runs + ((tr.map evOf).filter ranBody).length := by
  induction h with
  | nil s => simp
  | cons hrun ih =>
    rename_i s cmd tr s''
    have ih' := ih (fun p hp => hu p (by simp [hp]))
    have h1 : (resend n (srvStep truth v) s cmd).1.runs ≤
        s.runs + (if ranBody (evOf (cmd, (resend n (srvStep truth v) s cmd).2)) then 1 else 0) := by
      rcases hu (cmd, (resend n (srvStep truth v) s cmd).2) (by simp) with hk | hr
      · have := resend_load_runs truth v n s cmd hk
        omega
      · rw [resend_untagged n _ s cmd hr]
        exact srvStep_runs truth v hv s cmd
    simp only [List.map_cons, List.filter_cons]
    split <;> simp_all <;> omega

/-- the same bound when the client re-sends retryable-tagged commands after transport errors
    (any number of times, any pattern of lost requests and lost replies): a script that is neither
    read-only nor created by a *Retryable constructor is run at most once per `Exec`. This is
    what the `!exec` oracle lines judge on the real code (`Spec.bodyRunsOk`). -/
theorem at_most_once_resend (c : Cfg) (sha : Bytes) (k a : List Bytes) (truth : Bytes) (v : Reply)
    (hv : isNoScript v = false) (n : Nat) (s : Srv) (hro : c.ro = false) (hr : c.retry = false) :
    bodyRunsOk c.ro c.retry true
      ((exec c sha k a (resend n (srvStep truth v)) s).srv.runs - s.runs) = true := by
  have h1 := run_runs_resend truth v hv n s _ _ (exec_run c sha k a (resend n (srvStep truth v)) s)
    (untagged_unless_opted_in c sha k a _ s hro hr)
  have h2 := body_at_most_once c sha k a (resend n (srvStep truth v)) s
  unfold events at h2
  simp only [bodyRunsOk, Bool.or_eq_true, decide_eq_true_eq]
  left; omega

/-- the opt-in is real: a retryable script whose EVALSHA reply is lost is run again by the re-send -/
example : (exec ⟨false, false, false, true, [1], [2]⟩ [2] [] [] (resend 1 (srvStep [2] (.int 1)))
    ⟨true, 0, [.after]⟩).srv.runs = 2 := by decide

/-- the hypothesis `hv` is needed: a script whose body *returns* an error starting with NOSCRIPT
    (`return redis.error_reply('NOSCRIPT …')`) is run by EVALSHA and then again by the EVAL
    fallback, because the client cannot tell the two NOSCRIPT answers apart -/
theorem body_returning_noscript_runs_twice :
    (exec ⟨false, false, false, false, [1], [2]⟩ [2] [] [] (srvStep [2] (.rerr NOSCRIPT)) ⟨true, 0, []⟩).srv.runs = 2 := by
  decide

/-- non-vacuity: a known script runs exactly once through EVALSHA, a flushed one exactly once
    through the EVAL fallback -/
example : (exec ⟨false, false, false, false, [1], [2]⟩ [2] [] [] (srvStep [2] (.int 1)) ⟨true, 0, []⟩).srv.runs = 1 := by
  decide
example : (exec ⟨false, false, false, false, [1], [2]⟩ [2] [] [] (srvStep [2] (.int 1)) ⟨false, 0, []⟩).srv.runs = 1
    ∧ ((exec ⟨false, false, false, false, [1], [2]⟩ [2] [] [] (srvStep [2] (.int 1)) ⟨false, 0, []⟩).trace.map (·.1.kind))
      = [.evalsha, .eval] := by
  decide

/-! #### WithLoadSHA1: SCRIPT LOAD only until it first succeeds -/

/-- one caller: SCRIPT LOAD is sent iff the script has the load option and no SHA-1 yet; it is
    then the first command, and the only SCRIPT LOAD of the call -/
theorem load_only_when_unloaded (c : Cfg) (sha : Bytes) (k a : List Bytes) (step : σ → Cmd → σ × Reply)
    (s : σ) :
    ((events c sha k a step s).filter (fun e => e.kind == .scriptLoad)).length =
      (if c.load && sha == [] then 1 else 0) ∧
    (c.load = true → sha = [] → ((events c sha k a step s).head?.map (·.kind)) = some .scriptLoad) := by
  unfold events
  constructor
  · exec_bash
  · intro h1 h2
    exec_bash

/-- one caller: a stored SHA-1 is never dropped or replaced; a SCRIPT LOAD answered with a string
    stores that string; a failed one stores nothing and the call returns its error without
    sending anything else -/
theorem load_result (c : Cfg) (sha : Bytes) (k a : List Bytes) (step : σ → Cmd → σ × Reply) (s : σ) :
    (sha ≠ [] → (exec c sha k a step s).sha = sha) ∧
    (c.load = false → (exec c sha k a step s).sha = sha) ∧
    (c.load = true → sha = [] →
      match toStr? (step s (loadCmd c)).2 with
      | some str => (exec c sha k a step s).sha = str
      | none => (exec c sha k a step s).sha = [] ∧
                (exec c sha k a step s).trace = [(loadCmd c, (step s (loadCmd c)).2)] ∧
                (exec c sha k a step s).res = errRes (step s (loadCmd c)).2) := by
  refine ⟨?_, ?_, ?_⟩
  · intro h; exec_bash
  · intro h; exec_bash
  · intro h1 h2; exec_bash

/-- invariant of the lock protocol: a good SCRIPT LOAD answer in the log means the SHA-1 is set -/
private theorem reach_inv (σs : Sys) (h : Reach σs) : (∃ r ∈ σs.loads, goodLoad r) → σs.sha ≠ [] := by
  induction h with
  | init pc hpc => simp
  | @step σ0 τ hr hs ih =>
    cases hs with
    | read i hp => exact ih
    | hit i hp hne => exact ih
    | load i r hp he =>
      cases hr' : toStr? r with
      | some str =>
        simp only [hr']
        intro ⟨r', hm, hg⟩
        simp only [List.mem_append, List.mem_singleton] at hm
        rcases hm with hm | rfl
        · exact absurd he (ih ⟨r', hm, hg⟩)
        · obtain ⟨s', hs', hne⟩ := hg
          rw [hr'] at hs'
          cases hs'
          exact hne
      | none =>
        simp only [hr']
        intro ⟨r', hm, hg⟩
        simp only [List.mem_append, List.mem_singleton] at hm
        rcases hm with hm | rfl
        · exact absurd he (ih ⟨r', hm, hg⟩)
        · obtain ⟨s', hs', _⟩ := hg
          rw [hr'] at hs'
          cases hs'
    | multi s' =>
      intro hx
      have := ih hx
      simp [this]

/-- any number of concurrent `Exec` calls (and `ExecMulti` calls storing a SHA-1), any
    interleaving of their lock sections, any server answers: once a SCRIPT LOAD issued by
    `Exec` has returned a non-empty SHA-1, no `Exec` issues another SCRIPT LOAD — every load
    answer except the last one in the log is a failure (or an empty string) -/
theorem load_until_success (σs : Sys) (h : Reach σs) (pre post : List Reply) (r : Reply)
    (hl : σs.loads = pre ++ r :: post) (hg : goodLoad r) : post = [] := by
  induction h generalizing pre post r with
  | init pc hpc => simp at hl
  | @step σ0 τ hr hs ih =>
    cases hs with
    | read i hp => exact ih pre post r hl hg
    | hit i hp hne => exact ih pre post r hl hg
    | multi s' => exact ih pre post r hl hg
    | load i r' hp he =>
      have hloads : σ0.loads ++ [r'] = pre ++ r :: post := by
        cases hr' : toStr? r' <;> simp only [hr'] at hl <;> exact hl
      rcases List.eq_nil_or_concat post with rfl | ⟨post', x, rfl⟩
      · rfl
      · have : σ0.loads ++ [r'] = (pre ++ r :: post') ++ [x] := by simp [hloads]
        have h2 := List.append_inj' this rfl
        have hmem : r ∈ σ0.loads := by rw [h2.1]; simp
        exact absurd he (reach_inv σ0 hr ⟨r, hmem, hg⟩)

/-- non-vacuity: two concurrent callers, the first load fails, the second succeeds -/
example : ∃ σs, Reach σs ∧ σs.loads = [.io [1], .str [7]] ∧ σs.sha = [7] := by
  let pc0 : Nat → Pc := fun _ => .start
  have r0 : Reach ⟨[], pc0, []⟩ := Reach.init pc0 (fun _ => rfl)
  have r1 := Reach.step r0 (Step.read _ 0 rfl)
  have r2 := Reach.step r1 (Step.read _ 1 (by simp [setPc, pc0]))
  have r3 := Reach.step r2 (Step.load _ 0 (.io [1]) (by simp [setPc]) rfl)
  have r4 := Reach.step r3 (Step.load _ 1 (.str [7]) (by simp [setPc, toStr?]) (by simp [toStr?]))
  exact ⟨_, r4, by simp [toStr?], by simp [toStr?]⟩

/-! #### ExecMulti -/

/-- ExecMulti first sends SCRIPT LOAD (retryable) to every node — unless NoSha, then to none -/
theorem execmulti_loads_every_node (c : Cfg) (sha : Bytes) (nodes : List Reply)
    (multi : List (List Bytes × List Bytes)) (answer : List Cmd → List Reply) :
    (execMulti c sha nodes multi answer).nodeCmds =
      if c.nosha then [] else nodes.map (fun _ => loadCmd c) := by
  unfold execMulti
  cases c.nosha <;> simp
  split <;> simp

/-- if a node's SCRIPT LOAD fails, no script command is sent at all and every LuaExec gets
    (one of) the failing nodes' error -/
theorem execmulti_load_failure (c : Cfg) (sha : Bytes) (nodes : List Reply)
    (multi : List (List Bytes × List Bytes)) (answer : List Cmd → List Reply)
    (hn : c.nosha = false) (e : Res) (he : nodes.findSome? replyErr? = some e) :
    (execMulti c sha nodes multi answer).batch = none ∧
    (execMulti c sha nodes multi answer).res = multi.map (fun _ => e) ∧
    (execMulti c sha nodes multi answer).sha = sha ∧
    ∃ r ∈ nodes, replyErr? r = some e := by
  unfold execMulti
  simp only [hn, Bool.not_false, if_true, he]
  refine ⟨by first | rfl | trivial, by first | rfl | trivial, by first | rfl | trivial, ?_⟩
  obtain ⟨r, hr, h⟩ := List.exists_of_findSome?_eq_some he
  exact ⟨r, hr, h⟩

/-- otherwise exactly one batch is sent, with one command per LuaExec in order, carrying that
    LuaExec's keys and arguments (EVALSHA-family iff a SHA-1 is available and not NoSha, never a
    fallback EVAL afterwards), and — the client answering one reply per command — the results
    are those replies in the same order: one result per LuaExec -/
theorem execmulti_positional (c : Cfg) (sha : Bytes) (nodes : List Reply)
    (multi : List (List Bytes × List Bytes)) (answer : List Cmd → List Reply)
    (hlen : ∀ cmds, (answer cmds).length = cmds.length)
    (hok : c.nosha = true ∨ nodes.findSome? replyErr? = none) :
    ∃ cmds, (execMulti c sha nodes multi answer).batch = some cmds ∧
      cmds.length = multi.length ∧
      (execMulti c sha nodes multi answer).res = (answer cmds).map .reply ∧
      (execMulti c sha nodes multi answer).res.length = multi.length ∧
      ∀ i (hi : i < multi.length), ∃ (hc : i < cmds.length) (w : Bytes),
        cmds[i].args = w :: natBytes multi[i].1.length :: (multi[i].1 ++ multi[i].2) ∧
        (isSha cmds[i].kind = true ∨ isEval cmds[i].kind = true) := by
  have key : ∀ sha', (multiCmds c sha' multi).length = multi.length ∧
      ∀ i (hi : i < multi.length), ∃ (hc : i < (multiCmds c sha' multi).length) (w : Bytes),
        (multiCmds c sha' multi)[i].args = w :: natBytes multi[i].1.length :: (multi[i].1 ++ multi[i].2) ∧
        (isSha (multiCmds c sha' multi)[i].kind = true ∨ isEval (multiCmds c sha' multi)[i].kind = true) := by
    intro sha'
    refine ⟨by simp [multiCmds], ?_⟩
    intro i hi
    refine ⟨by simp [multiCmds, hi], ?_⟩
    simp only [multiCmds, List.getElem_map]
    split <;> simp only [evalshaCmd, evalCmd] <;> split <;> simp [isSha, isEval]
  unfold execMulti
  cases hn : c.nosha
  · have hf : nodes.findSome? replyErr? = none := by
      rcases hok with h | h
      · simp [hn] at h
      · exact h
    simp only [Bool.not_false, if_true, hf]
    exact ⟨_, rfl, (key _).1, rfl, by simp [hlen, (key _).1], (key _).2⟩
  · simp only [Bool.not_true, Bool.false_eq_true, if_false]
    exact ⟨_, rfl, (key _).1, rfl, by simp [hlen, (key _).1], (key _).2⟩

/-- with WithLoadSHA1, ExecMulti adopts a SHA-1 returned by a node only while none is stored -/
theorem execmulti_sha (c : Cfg) (sha : Bytes) (nodes : List Reply)
    (multi : List (List Bytes × List Bytes)) (answer : List Cmd → List Reply) :
    (sha ≠ [] ∨ c.load = false ∨ c.nosha = true → (execMulti c sha nodes multi answer).sha = sha) ∧
    ((execMulti c sha nodes multi answer).sha ≠ sha →
      ∃ r ∈ nodes, toStr? r = some (execMulti c sha nodes multi answer).sha) := by
  unfold execMulti
  cases hn : c.nosha <;> cases hl : c.load <;> by_cases hs : sha = [] <;> simp [hn, hl, hs] <;>
    (repeat' split) <;> simp_all
  all_goals
    rename_i s hsome
    obtain ⟨r, hr, h⟩ := List.exists_of_findSome?_eq_some hsome
    intro _
    exact ⟨r, hr, h⟩

end Rv.C30
