/-
C03 — non-retryable commands are executed at most once per call.
(a) the teardown never reports `errConnExpired` for a batch that reached the writer;
(b) hence the client loops re-send a non-retryable batch only while it is provably unwritten.
MOVED/ASK/REDIRECT re-sends are decided under C19/C28.
-/
import Rv.Model.Teardown
import Rv.Gen.PipeShape
import Rv.Model.WriterLoop
namespace Rv.C03
open Rv.Teardown

/-- the in-flight batch of the reader (written, possibly executed) is never reported expired -/
theorem inflight_not_expired (w : Why) : inflightRes w ≠ .expired := by
  cases w <;> decide

theorem sent_ne_expired (w : Why) : sentRes w ≠ .expired := by cases w <;> decide

/-- counters agree with the FIFO: `ws` written entries (prefix), `us` unwritten (suffix) -/
def Inv (d : Drain) (ws us : List Entry) : Prop :=
  d.pending = ws ++ us ∧ (∀ e ∈ ws, e.written = true) ∧ (∀ e ∈ us, e.written = false) ∧
  (ws ≠ [] → d.rcnt + ws.length = d.wcnt) ∧ (ws = [] → d.wcnt ≤ d.rcnt)

/-- fetching a written head: it gets the transport-class result, never `expired` -/
theorem fetch_written (d : Drain) (w : Entry) (ws us : List Entry) (h : Inv d (w :: ws) us) :
    ∃ d', d.fetch = some d' ∧ d'.out = d.out ++ [(w.id, sentRes d.why)] ∧ Inv d' ws us := by
  obtain ⟨hp, hw, hu, hc, _⟩ := h
  have hwr : w.written = true := hw w (by simp)
  have hcnt := hc (by simp)
  simp only [List.length_cons] at hcnt
  refine ⟨{ d with rcnt := d.rcnt + 1, pending := ws ++ us, out := d.out ++ [(w.id, sentRes d.why)] }, ?_, rfl, ?_⟩
  · unfold Drain.fetch
    rw [hp]
    have hlt : d.rcnt < d.wcnt := by omega
    simp [hwr, hlt]
  · refine ⟨rfl, fun e he => hw e (by simp [he]), hu, ?_, ?_⟩
    · intro hne
      have : 0 < ws.length := List.length_pos_iff.mpr hne
      show d.rcnt + 1 + ws.length = d.wcnt
      omega
    · intro he; subst he
      show d.wcnt ≤ d.rcnt + 1
      simp at hcnt; omega

/-- fetching an unwritten head (possible only after the writer exited): it gets the latched error -/
theorem fetch_unwritten (d : Drain) (u : Entry) (us : List Entry) (h : Inv d [] (u :: us)) (hc : d.closed = true) :
    ∃ d', d.fetch = some d' ∧ d'.out = d.out ++ [(u.id, latched d.why)] ∧ Inv d' [] us ∧ d'.closed = true := by
  obtain ⟨hp, _, hu, _, hle⟩ := h
  have hur : u.written = false := hu u (by simp)
  have hge := hle rfl
  refine ⟨{ d with rcnt := d.rcnt + 1, pending := us, out := d.out ++ [(u.id, latched d.why)] }, ?_, rfl, ?_, hc⟩
  · unfold Drain.fetch
    rw [hp]
    have hnlt : ¬ d.rcnt < d.wcnt := by omega
    simp [hur, hc, hnlt]
  · refine ⟨rfl, by simp, fun e he => hu e (by simp [he]), by simp, ?_⟩
    intro _
    show d.wcnt ≤ d.rcnt + 1
    omega

/-- an unwritten head is not fetchable before the writer has exited -/
theorem unwritten_waits_for_close (d : Drain) (u : Entry) (us : List Entry) (h : Inv d [] (u :: us))
    (hc : d.closed = false) : d.fetch = none := by
  obtain ⟨hp, _, hu, _, _⟩ := h
  have hur : u.written = false := hu u (by simp)
  unfold Drain.fetch; rw [hp]; simp [hur, hc]

/-- the whole drain: written entries first (any time), then the writer exits, then the unwritten ones -/
def expected (why : Why) (ws us : List Entry) : List (Nat × Res) :=
  ws.map (fun e => (e.id, sentRes why)) ++ us.map (fun e => (e.id, latched why))

private def drainW : Drain → List Entry → Option Drain
  | d, [] => some d
  | d, _ :: ws => match d.fetch with
    | some d' => drainW d' ws
    | none => none

private theorem drainW_ok (d : Drain) (ws us : List Entry) (h : Inv d ws us) :
    ∃ d', drainW d ws = some d' ∧ d'.out = d.out ++ ws.map (fun e => (e.id, sentRes d.why)) ∧ Inv d' [] us ∧
      d'.why = d.why ∧ d'.closed = d.closed := by
  induction ws generalizing d with
  | nil => exact ⟨d, rfl, by simp, h, rfl, rfl⟩
  | cons w ws ih =>
    obtain ⟨d1, hf, ho, hi⟩ := fetch_written d w ws us h
    have hwhy : d1.why = d.why := by
      unfold Drain.fetch at hf; split at hf
      · cases hf
      · split at hf
        · cases hf
        · injection hf with hf; subst hf; rfl
    have hcl : d1.closed = d.closed := by
      unfold Drain.fetch at hf; split at hf
      · cases hf
      · split at hf
        · cases hf
        · injection hf with hf; subst hf; rfl
    obtain ⟨d2, hd, ho2, hi2, hw2, hc2⟩ := ih d1 hi
    refine ⟨d2, by simp [drainW, hf, hd], ?_, hi2, by rw [hw2, hwhy], by rw [hc2, hcl]⟩
    rw [ho2, ho, hwhy]; simp

private def drainU : Drain → List Entry → Option Drain
  | d, [] => some d
  | d, _ :: us => match d.fetch with
    | some d' => drainU d' us
    | none => none

private theorem drainU_ok (d : Drain) (us : List Entry) (h : Inv d [] us) (hc : d.closed = true) :
    ∃ d', drainU d us = some d' ∧ d'.out = d.out ++ us.map (fun e => (e.id, latched d.why)) ∧ d'.pending = [] := by
  induction us generalizing d with
  | nil => exact ⟨d, rfl, by simp, by simpa using h.1⟩
  | cons u us ih =>
    obtain ⟨d1, hf, ho, hi, hc1⟩ := fetch_unwritten d u us h hc
    have hwhy : d1.why = d.why := by
      unfold Drain.fetch at hf; split at hf
      · cases hf
      · split at hf
        · cases hf
        · injection hf with hf; subst hf; rfl
    obtain ⟨d2, hd, ho2, hp2⟩ := ih d1 hi hc1
    refine ⟨d2, by simp [drainU, hf, hd], ?_, hp2⟩
    rw [ho2, ho, hwhy]; simp

/-- **C03(a) / C04 drain theorem.** From any teardown state that respects the FIFO (C02), the
    drain loop completes every pending batch exactly once, in queue order; batches that reached
    the writer get the transport-class error, the others the latched error. -/
theorem drain_assigns (d : Drain) (ws us : List Entry) (h : Inv d ws us) (ho : d.out = []) :
    ∃ d1 d2, drainW d ws = some d1 ∧ drainU d1.close us = some d2 ∧
      d2.out = expected d.why ws us ∧ d2.pending = [] := by
  obtain ⟨d1, hd1, ho1, hi1, hw1, _⟩ := drainW_ok d ws us h
  have hi1' : Inv d1.close [] us := hi1
  obtain ⟨d2, hd2, ho2, hp2⟩ := drainU_ok d1.close us hi1' rfl
  refine ⟨d1, d2, hd1, hd2, ?_, hp2⟩
  rw [ho2]
  show d1.out ++ us.map (fun e => (e.id, latched d1.why)) = expected d.why ws us
  rw [ho1, ho, hw1]; rfl

/-- `errConnExpired` is handed only to batches that never reached the writer -/
theorem expired_only_unwritten (why : Why) (ws us : List Entry)
    (hw : ∀ e ∈ ws, e.written = true) (i : Nat) (h : (i, Res.expired) ∈ expected why ws us) :
    ∃ e ∈ us, e.id = i := by
  unfold expected at h
  simp only [List.mem_append, List.mem_map] at h
  rcases h with ⟨e, _, he⟩ | ⟨e, heu, he⟩
  · injection he with _ h2; exact absurd h2 (sent_ne_expired why)
  · injection he with h1 _; exact ⟨e, heu, h1⟩

/-- every drained batch gets a non-nil error (never a reply) -/
theorem drained_get_errors (why : Why) (ws us : List Entry) :
    ∀ p ∈ expected why ws us, p.2 ≠ .reply := by
  intro p hp
  unfold expected at hp
  simp only [List.mem_append, List.mem_map] at hp
  rcases hp with ⟨e, _, he⟩ | ⟨e, _, he⟩ <;> subst he <;> cases why <;> simp [sentRes, latched]

/-! ### (b) the client loop -/

/-- the pipe contract established by (a): a batch that reached a writer never comes back `expired` -/
def Sound : List Attempt → Prop
  | [] => True
  | .handed r :: rest => r ≠ .expired ∧ Sound rest
  | .refused _ :: rest => Sound rest

/-- **C03(b).** A batch that is not retryable (neither read-only nor marked retryable) reaches a
    writer at most once per call, whatever the sequence of connection drops, expiries and refusals. -/
theorem at_most_once (cfg : LoopCfg) (hnr : cfg.retryable = false) (as : List Attempt) (hs : Sound as) :
    handedCount cfg as ≤ 1 := by
  induction as with
  | nil => simp [handedCount]
  | cons a rest ih =>
    cases a with
    | handed r =>
      obtain ⟨hne, hrest⟩ := hs
      have : again cfg r = false := by
        cases r <;> simp [again, hnr] at hne ⊢
      simp [handedCount, this]
    | refused r =>
      simp only [handedCount]
      split
      · exact ih hs
      · omega

/-- with DisableRetry (or a refusing policy) even retryable batches are re-sent only while unwritten -/
theorem retry_off_at_most_once (cfg : LoopCfg) (hoff : cfg.retryOn = false) (as : List Attempt) (hs : Sound as) :
    handedCount cfg as ≤ 1 := by
  induction as with
  | nil => simp [handedCount]
  | cons a rest ih =>
    cases a with
    | handed r =>
      obtain ⟨hne, hrest⟩ := hs
      have : again cfg r = false := by
        cases r <;> simp [again, hoff] at hne ⊢
      simp [handedCount, this]
    | refused r =>
      simp only [handedCount]
      split
      · exact ih hs
      · omega

/-- the unrepaired pipe (in-flight and drained written batches reported `expired`) breaks the bound:
    the defect repaired by the `fix:` commit, kept as a witness -/
theorem unsound_pipe_executes_twice :
    handedCount ⟨false, true⟩ [.handed .expired, .handed .reply] = 2 := by decide

/-! ### the model is the code: facts re-extracted from pipe.go / client.go on every run -/

/-- the deferred handler of `_backgroundRead` does not hand out errConnExpired; the writer and the
    reader count batches; the drain loop picks `sent` for every batch below the writer's count and
    substitutes the read error for errConnExpired there — the shape `Drain.fetch` transcribes -/
theorem teardown_model_pinned :
    Rv.Gen.PipeShape.readDeferMentionsExpired = false ∧ Rv.Gen.PipeShape.readerCountsFetches = true ∧
    Rv.Gen.PipeShape.writerCountsBatches = true ∧ Rv.Gen.PipeShape.drainSentGuard = true ∧
    Rv.Gen.PipeShape.drainChoosesByCounters = true := by decide

/-- the single client's loops re-send only on errConnExpired or under `c.retry && retryable &&
    isRetryable && WaitOrSkipRetry` — the conditions `again` transcribes -/
theorem client_loop_pinned :
    Rv.Gen.PipeShape.retry_Do =
      ["err := resp.Error(); err != nil && err == errConnExpired",
       "err := resp.Error(); err != nil && c.retry && cmd.IsRetryable() && c.isRetryable(err, ctx) && c.retryHandler.WaitOrSkipRetry(ctx, attempts, cmd, err)"] ∧
    Rv.Gen.PipeShape.retry_DoMulti = ["c.retry && allRetryable(multi) && c.isRetryable(resp.Error(), ctx) && shouldRetry"] ∧
    Rv.Gen.PipeShape.retry_Receive =
      ["err == errConnExpired", "c.retry && _, ok := err.(*RedisError); !ok && c.isRetryable(err, ctx) && shouldRetry"] := by
  refine ⟨rfl, rfl, rfl⟩

/-! ### the writer: a batch is `written` (below `wcnt`) as soon as any of its bytes may be on the wire -/

open Rv.WriterLoop in
private abbrev WInv (pre : List Batch) (w : W) : Prop :=
  Covered pre w ∧ w.wcnt ≤ pre.length ∧ (w.err = false → w.wcnt = pre.length)

open Rv.WriterLoop in
private theorem winv_step (pre : List Batch) (w : W) (b : Batch) (h : WInv pre w) :
    WInv (pre ++ [b]) (writeBatch true w b) := by
  obtain ⟨hc, hle, heq⟩ := h
  unfold writeBatch
  by_cases he : w.err = true
  · simp only [he, if_true]
    refine ⟨?_, by simp; omega, by simp [he]⟩
    intro x hx
    obtain ⟨i, hi, b', hb', hm⟩ := hc x hx
    exact ⟨i, hi, b', by rw [List.getElem?_append_left (by omega)]; exact hb', hm⟩
  · have he' : w.err = false := by cases h : w.err <;> simp_all
    have hw : w.wcnt = pre.length := heq he'
    simp only [he', Bool.false_eq_true, if_false, Bool.true_or, if_true]
    refine ⟨?_, by simp; omega, by intro _; simp; omega⟩
    intro x hx
    rcases List.mem_append.mp hx with hx | hx
    · obtain ⟨i, hi, b', hb', hm⟩ := hc x hx
      exact ⟨i, by show i < w.wcnt + 1; omega, b', by rw [List.getElem?_append_left (by omega)]; exact hb', hm⟩
    · refine ⟨pre.length, by show pre.length < w.wcnt + 1; omega, b, by simp, List.mem_of_mem_take hx⟩

open Rv.WriterLoop in
private theorem winv_fold (bs pre : List Batch) (w : W) (h : WInv pre w) :
    WInv (pre ++ bs) (bs.foldl (writeBatch true) w) := by
  induction bs generalizing pre w with
  | nil => simpa using h
  | cons b bs ih =>
    have := ih (pre ++ [b]) (writeBatch true w b) (winv_step pre w b h)
    simpa [List.append_assoc] using this

/-- for every sequence of batches and every point at which the connection fails, whatever reached the wire belongs to a
    batch the writer has counted: the teardown (`rcnt < wcnt ⇒ sent`, never `expired`) therefore never lets a possibly
    executed command be re-sent transparently. Holds because the counter is incremented before the write loop. -/
theorem written_covers_wire (bs : List Rv.WriterLoop.Batch) :
    Rv.WriterLoop.Covered bs (Rv.WriterLoop.run true bs) := by
  have := winv_fold bs [] Rv.WriterLoop.init ⟨by intro x hx; simp [Rv.WriterLoop.init] at hx, by simp [Rv.WriterLoop.init], by intro _; rfl⟩
  simpa [Rv.WriterLoop.run] using this.1

/-- counting only after an error-free write loses that: two commands of an uncounted batch are on the wire -/
theorem count_after_write_uncovered :
    (Rv.WriterLoop.run false [([1, 2, 3], 2)]).wire = [1, 2] ∧ (Rv.WriterLoop.run false [([1, 2, 3], 2)]).wcnt = 0 := by
  decide

/-- the code counts before writing (regenerated from `_backgroundWrite` on every run) -/
theorem writer_counts_before_write_pinned : Rv.Gen.PipeShape.writerCountsBeforeWrite = true := by decide

/-! non-vacuity -/
example : (Rv.WriterLoop.run true [([1, 2], 9), ([3, 4, 5], 1), ([6], 9)]) = ⟨2, [1, 2, 3], true⟩ := by decide

private def exD : Drain :=
  { why := Why.expired, rcnt := 3, wcnt := 5, closed := false, pending := [⟨1, true⟩, ⟨2, true⟩, ⟨3, false⟩], out := [] }
example : Inv exD [⟨1, true⟩, ⟨2, true⟩] [⟨3, false⟩] := by
  refine ⟨rfl, by simp, by simp, fun _ => rfl, by simp⟩
example : expected .expired [⟨1, true⟩, ⟨2, true⟩] [⟨3, false⟩] = [(1, .transport), (2, .transport), (3, .expired)] := by decide
example : Sound [.refused .expired, .handed .transport] := by simp [Sound]

end Rv.C03
