/-
C20 — cluster batches keep order and transaction integrity.

Theorems about the model `Rv.Model.ClusterMulti` of `_pickMulti/_pickMultiCache`, `doretry(cache)`,
`doresultfn/resultcachefn`, `askingMulti(Cache)` and the round loop of `DoMulti/DoMultiCache` in
/repo/cluster.go (as repaired by "fix: cluster DoMulti re-sends the whole MULTI...EXEC block when the
redirect arrives on EXEC"). The model is tied to the code by the `cluster` correspondence suite.
-/
import Rv.Model.ClusterMulti
import Rv.Lemmas.ClusterMulti
import Rv.Lemmas.ClusterMultiInv
import Rv.Lemmas.ClusterMultiCover
import Rv.Lemmas.ClusterMultiSent
namespace Rv.C20
open Rv Rv.Topology Rv.ClusterRoute Rv.ClusterMulti Rv.ClusterMultiL

/-! ## grouping -/

/-- The sub-batches built by `_pickMulti`/`_pickMultiCache` from the destinations `ds` (one per command):
    the sub-batch of connection `cc` is exactly the list of pairs (position, command) whose destination is
    `cc`, in batch order; nothing is queued for ASKING. -/
theorem cindexes_are_filter (multi : List Cmd) (ds : List Conn) (cc : Conn) :
    (pget cc (groupBy ((enumFrom 0 multi).zip ds) [])).cmds
      = (((enumFrom 0 multi).zip ds).filter fun x => decide (x.2 = cc)).map (·.1) ∧
    (pget cc (groupBy ((enumFrom 0 multi).zip ds) [])).asks = [] := by
  obtain ⟨h1, h2⟩ := groupBy_spec cc ((enumFrom 0 multi).zip ds) []
  exact ⟨by rw [h1]; simp [pget], by rw [h2]; simp [pget]⟩

/-- The index lists partition `[0, n)`: position `i` (command `multi[i]`, destination `ds[i]`) is in the
    sub-batch of `cc` exactly when `cc = ds[i]`, paired with its own command. -/
theorem cindexes_partition (multi : List Cmd) (ds : List Conn) (i : Nat) (cmd : Cmd) (d : Conn)
    (hm : multi[i]? = some cmd) (hd : ds[i]? = some d) (cc : Conn) :
    (i, cmd) ∈ (pget cc (groupBy ((enumFrom 0 multi).zip ds) [])).cmds ↔ cc = d := by
  rw [(cindexes_are_filter multi ds cc).1]
  have hz : ((enumFrom 0 multi).zip ds)[i]? = some ((i, cmd), d) := by
    rw [List.getElem?_zip_eq_some]
    exact ⟨by rw [enumFrom_getElem?, hm]; simp, hd⟩
  constructor
  · intro h
    obtain ⟨x, hx, hx1⟩ := List.mem_map.mp h
    obtain ⟨hxmem, hxc⟩ := List.mem_filter.mp hx
    obtain ⟨j, hj⟩ := List.getElem?_of_mem hxmem
    rw [List.getElem?_zip_eq_some, enumFrom_getElem?] at hj
    obtain ⟨hj1, hj2⟩ := hj
    cases hmj : multi[j]? with
    | none => rw [hmj] at hj1; cases hj1
    | some cj =>
      rw [hmj] at hj1
      simp only [Option.map_some, Option.some.injEq] at hj1
      have hji : j = i := by
        have : x.1.1 = i := by rw [hx1]
        rw [← hj1] at this; simp at this; omega
      subst hji
      rw [hd] at hj2
      simp only [Option.some.injEq] at hj2
      have := of_decide_eq_true hxc
      rw [← this, ← hj2]
  · intro h
    subst h
    exact List.mem_map.mpr ⟨((i, cmd), cc), List.mem_filter.mpr ⟨List.mem_of_getElem? hz, by simp⟩, rfl⟩

/-- inside every sub-batch the positions are strictly increasing: batch order is preserved -/
theorem cindexes_ordered (multi : List Cmd) (ds : List Conn) (cc : Conn) :
    ((pget cc (groupBy ((enumFrom 0 multi).zip ds) [])).cmds.map (·.1)).Pairwise (· < ·) := by
  rw [(cindexes_are_filter multi ds cc).1, List.map_map]
  have hs := enumZip_sorted multi ds 0
  have := (hs.sublist (List.filter_sublist (p := fun x => decide (x.2 = cc))))
  exact (List.pairwise_map).mpr this

/-! ## positional results -/

/-- However the batch is split, whichever replies are redirect/retry-class, for any number of rounds:
    whenever `results[i]` holds a reply, that reply was produced by some node for the command at position `i`
    (`w.replies` records, per reply handed out, the id of the command the node was answering). -/
theorem results_positional (o : Opt) (cache hasInit : Bool) (multi : List Cmd) (fuel : Nat) (groups : Pending)
    (c : Client) (w : World) (hg : PendOK multi groups) (i : Nat) (r : Reply)
    (h : (rounds o cache hasInit fuel groups { c := c, results := multi.map fun _ => none } w 1 0).1.results[i]?
          = some (some r)) :
    ∃ cmd a, multi[i]? = some cmd ∧
      (cmd.id, a, r) ∈ (rounds o cache hasInit fuel groups { c := c, results := multi.map fun _ => none } w 1 0).2.replies := by
  have h0 : ResOK multi w.replies (multi.map fun _ => (none : Option Reply)) := by
    refine ⟨by simp, fun k r' hk => ?_⟩
    simp only [List.getElem?_map] at hk
    cases hm : multi[k]? <;> simp [hm] at hk
  exact (rounds_inv multi o cache hasInit fuel groups _ w 1 0 hg h0).2 i r h

/-- the sub-batches `_pickMulti` starts from satisfy the pairing invariant (`commands[j] = multi[cIndexes[j]]`) -/
theorem initial_groups_ok (multi : List Cmd) (ds : List Conn) :
    PendOK multi (groupBy ((enumFrom 0 multi).zip ds) []) := by
  have : ∀ (L : List (Entry × Conn)) (p : Pending), PendOK multi p → (∀ x ∈ L, multi[x.1.1]? = some x.1.2) →
      PendOK multi (groupBy L p) := by
    intro L
    induction L with
    | nil => intro p hp _; exact hp
    | cons x rest ih =>
      intro p hp hL
      obtain ⟨e, c0⟩ := x
      unfold groupBy
      apply ih _ _ (fun y hy => hL y (List.mem_cons_of_mem _ hy))
      apply addCmds_ok multi c0 [e] p hp
      intro e' he'
      rw [List.mem_singleton.mp he']
      exact hL (e, c0) (List.mem_cons_self ..)
  apply this _ [] (fun x hx => by cases hx)
  intro x hx
  obtain ⟨j, hj⟩ := List.getElem?_of_mem hx
  rw [List.getElem?_zip_eq_some, enumFrom_getElem?] at hj
  obtain ⟨hj1, _⟩ := hj
  cases hmj : multi[j]? with
  | none => rw [hmj] at hj1; cases hj1
  | some cj =>
    rw [hmj] at hj1
    simp only [Option.map_some, Option.some.injEq] at hj1
    rw [← hj1]
    simp [hmj]

/-- …and every position does get a result: starting from the sub-batches `_pickMulti` built (one destination
    per command), after the round loop (at least one round) `results[i]` is set for every `i < n`, whatever
    was redirected or retried. Together with `results_positional`: `results[i]` is a reply to command `i`. -/
theorem results_total (o : Opt) (cache hasInit : Bool) (multi : List Cmd) (ds : List Conn) (hlen : ds.length = multi.length)
    (fuel : Nat) (c : Client) (w : World) (i : Nat) (hi : i < multi.length) :
    ∃ r, (rounds o cache hasInit (fuel + 1) (groupBy ((enumFrom 0 multi).zip ds) [])
            { c := c, results := multi.map fun _ => none } w 1 0).1.results[i]? = some (some r) := by
  have hg := initial_groups_ok multi ds
  have h0 : ResOK multi w.replies (multi.map fun _ => (none : Option Reply)) := by
    refine ⟨by simp, fun k r' hk => ?_⟩
    simp only [List.getElem?_map] at hk
    cases hm : multi[k]? <;> simp [hm] at hk
  have hm : multi[i]? = some multi[i] := List.getElem?_eq_getElem hi
  have hd : ds[i]? = some (ds[i]'(by omega)) := List.getElem?_eq_getElem (by omega)
  have hmem := (cindexes_partition multi ds i multi[i] (ds[i]'(by omega)) hm hd (ds[i]'(by omega))).mpr rfl
  rcases pget_empty_or_mem (ds[i]'(by omega)) (groupBy ((enumFrom 0 multi).zip ds) []) with h | ⟨x, hx, hxe⟩
  · rw [h] at hmem; cases hmem
  · rw [← hxe] at hmem
    exact rounds_total multi o cache hasInit fuel _ _ w 1 0 hg h0 x hx _ hmem

/-- un-interleaving: dropping the ASKING items from what `askingMulti` sends leaves the sub-batch's commands
    in order, so the i-th kept reply belongs to the i-th queued command -/
theorem asking_strip_is_identity (es : List Entry) :
    (askingItems false es).filter (fun it => !decide (it = Item.asking)) = es.map fun e => Item.cmd e.2.id :=
  askingItems_strip es false

/-! ## transactions -/

/-- A batch containing a key-less command (MULTI/EXEC are key-less) is sent to one connection only: when
    `_pickMulti` succeeds with `init = true` every keyed command has the same slot `last`. Hence a
    MULTI…EXEC block is never split in the first round and its members are contiguous and in order there
    (`cindexes_ordered`, one group). -/
theorem tx_single_node_first_round (c : Client) : ∀ (multi : List Cmd) (l0 last : Nat),
    scanLoop c true multi l0 = .go last → (l0 = initSlot ∨ l0 = last) →
    ∀ cmd ∈ multi, cmd.slot ≠ initSlot → cmd.slot = last := by
  intro multi
  induction multi with
  | nil => intro l0 last _ _ cmd h; cases h
  | cons x rest ih =>
    intro l0 last hs hl cmd hc hne
    unfold scanLoop at hs
    by_cases hx : x.slot = initSlot
    · rw [if_pos hx] at hs
      rcases List.mem_cons.mp hc with h | h
      · exact absurd (h ▸ hx) hne
      · exact ih l0 last hs hl cmd h hne
    · rw [if_neg hx] at hs
      split at hs
      · cases hs
      · rename_i hmix
        simp only at hs
        split at hs
        · cases hs
        · have hlast' : (if l0 = initSlot then x.slot else l0) = initSlot ∨ (if l0 = initSlot then x.slot else l0) = last := by
            -- the rest of the scan keeps `last`, so it ends with the value it has now
            have key : ∀ (ys : List Cmd) (a b : Nat), a ≠ initSlot → scanLoop c true ys a = .go b → a = b := by
              intro ys
              induction ys with
              | nil => intro a b _ h; simp [scanLoop] at h; exact h
              | cons y ys ihy =>
                intro a b ha h
                unfold scanLoop at h
                split at h
                · exact ihy a b ha h
                · split at h
                  · cases h
                  · simp only [ha, if_false] at h
                    split at h
                    · cases h
                    · exact ihy a b ha h
            by_cases h0 : l0 = initSlot
            · rw [if_pos h0]; right
              rw [if_pos h0] at hs
              exact key rest x.slot last hx hs
            · rw [if_neg h0]; right
              rw [if_neg h0] at hs
              exact key rest l0 last h0 hs
          rcases List.mem_cons.mp hc with h | h
          · subst h
            by_cases h0 : l0 = initSlot
            · rw [if_pos h0] at hlast'
              rcases hlast' with h1 | h1
              · exact absurd h1 hx
              · exact h1
            · rw [if_neg h0] at hlast'
              rcases hlast' with h1 | h1
              · exact absurd h1 h0
              · have : ¬ (l0 ≠ initSlot ∧ True ∧ l0 ≠ cmd.slot) := by simpa using hmix
                have hl0 : l0 = cmd.slot := by
                  apply Classical.byContradiction
                  intro hcon
                  exact this ⟨h0, trivial, hcon⟩
                rw [← hl0]; exact h1
          · exact ih _ last hs hlast' cmd h hne

/-- what happens when the keyed commands of such a batch span two slots: `_pickMulti` never produces
    sub-batches — it panics ("Mixing no-slot and cross slot commands in DoMulti is prohibited") or, if an
    earlier slot has no connection, reports nil (→ refresh → ErrNoSlot). The block is never split. -/
theorem tx_cross_slot_rejected (c : Client) (multi : List Cmd) (a b : Cmd) (ha : a ∈ multi) (hb : b ∈ multi)
    (hna : a.slot ≠ initSlot) (hnb : b.slot ≠ initSlot) (hab : a.slot ≠ b.slot) :
    ∀ last, scanLoop c true multi initSlot ≠ .go last := by
  intro last h
  have h1 := tx_single_node_first_round c multi initSlot last h (Or.inl rfl) a ha hna
  have h2 := tx_single_node_first_round c multi initSlot last h (Or.inl rfl) b hb hnb
  exact hab (h1.trans h2.symm)

/-- Re-send of a whole block. In a sub-batch `cs` with MULTI at `m`, EXEC at `e`, no other marker in between,
    MULTI answered `OK`: the first position `i` in `(m, e]` — a member *or the EXEC itself* — whose reply makes
    the client act (MOVED, ASK, or a retryable failure that is to be retried) re-queues exactly
    `cs[m..e]`, in order, to the target of that reply (`.cmds`, or `.asks` for ASK), counts as one redirect,
    and records the block (`mi = m`, `ei = e`). -/
theorem tx_resent_whole (o : Opt) (attempts : Nat) (cc : Conn) (cs : List Entry) (resps : List Reply)
    (c : Client) (t : Tx) (i ii : Nat) (cm : Cmd) (resp : Reply) (m e : Nat)
    (hme : m < i ∧ i ≤ e) (he : e < cs.length)
    (hM : isM cs m = true) (hE : isE cs e = true)
    (hmid : ∀ k, m < k → k < e → marker cs k = false)
    (hfirst : eiLt t i = true)
    (hok : (resps[m]?).map strOf = some kOK)
    (hact : skips o false attempts cm (classify resp) = false) :
    let d := decideStep o false true attempts cc cs resps c t i ii cm resp
    rqEntries d.rq = (cs.drop m).take (e + 1 - m) ∧ d.redirInc = true ∧ d.t.mi = some m ∧ d.t.ei = some e ∧
      ∃ nc, d.rq = (match classify resp with
                    | .ask _ => Requeue.asks nc ((cs.drop m).take (e + 1 - m))
                    | _ => Requeue.cmds nc ((cs.drop m).take (e + 1 - m))) := by
  have hmM : marker cs m = true := by simp [marker, hM]
  have heM : marker cs e = true := by simp [marker, hE]
  -- the search finds (m, e)
  have hup : scanUp cs (cs.length + 1) i = e :=
    scanUp_spec cs e he heM (cs.length + 1) i hme.2 (by omega) (fun k h1 h2 => hmid k (by omega) h2)
  have hdown : scanStart cs i = some m := by
    unfold scanStart
    by_cases hie : i = e
    · subst hie
      rw [if_pos hE]
      cases i with
      | zero => omega
      | succ k => exact scanDown_spec cs m hmM k (by omega) (fun j h1 h2 => hmid j h1 (by omega))
    · have hni : isE cs i = false := by
        have := hmid i hme.1 (by omega)
        simp only [marker, Bool.or_eq_false_iff] at this
        exact this.2
      rw [if_neg (by simp [hni])]
      refine scanDown_spec cs m hmM i (by omega) (fun j h1 h2 => ?_)
      by_cases hje : j = e
      · omega
      · exact hmid j h1 (by omega)
  have ht' : searchTx true false cs t i = { mi := some m, ei := some e } := by
    simp [searchTx, hfirst, hdown, hup]
  have hfound : txFound true false cs resps t (searchTx true false cs t i) i = true := by
    rw [ht']
    simp [txFound, hfirst, he, hM, hE, hok]
  have hblock : txBlock cs (searchTx true false cs t i) = (cs.drop m).take (e + 1 - m) := by
    rw [ht']; rfl
  intro d
  have hd : d = decideStep o false true attempts cc cs resps c t i ii cm resp := rfl
  unfold decideStep at hd
  simp only [hact, Bool.false_eq_true, if_false, hfound, if_true, hblock, Bool.true_or] at hd
  rw [hd]
  refine ⟨by rw [rqEntries_mkRq], rfl, by rw [ht'], by rw [ht'], ?_⟩
  cases hc : classify resp with
  | ask a => exact ⟨(redirectOrNew c a cc cm.slot false).1, by simp [mkRq]⟩
  | none => exact ⟨cc, by simp [mkRq]⟩
  | retry => exact ⟨cc, by simp [mkRq]⟩
  | move a => exact ⟨(redirectOrNew c a cc cm.slot true).1, by simp [mkRq]⟩

/-- …exactly once: after the block was recorded (`mi = m`, `ei = e`), a later member strictly inside it whose
    reply is redirect-class is not queued again. (The EXEC at `e` is not covered by this skip: if both a
    member and the EXEC of one block got redirect-class replies in the same round, EXEC is queued a second
    time on its own — a server answers EXECABORT in that situation, so the case does not arise.) -/
theorem tx_members_not_requeued (o : Opt) (attempts : Nat) (cc : Conn) (cs : List Entry) (resps : List Reply)
    (c : Client) (i ii : Nat) (cm : Cmd) (resp : Reply) (m e : Nat) (hmi : m < i ∧ i < e) (hM : isM cs m = true) :
    (decideStep o false true attempts cc cs resps c { mi := some m, ei := some e } i ii cm resp).rq = .nothing := by
  unfold decideStep
  simp only
  split
  · rfl
  · have hlt : eiLt { mi := some m, ei := some e } i = false := by simp [eiLt]; omega
    have ht : searchTx true false cs { mi := some m, ei := some e } i = { mi := some m, ei := some e } := by
      simp [searchTx, hlt]
    have hf : txFound true false cs resps { mi := some m, ei := some e } { mi := some m, ei := some e } i = false := by
      simp [txFound, hlt]
    have hin : txInside true false cs { mi := some m, ei := some e } i = true := by
      simp [txInside, hmi.1, hmi.2, hM]
    simp only [ht, hf, hin, Bool.false_eq_true, if_false, if_true]

/-- a re-queued block stays one contiguous run at the end of the target's sub-batch (appended under one
    lock hold in the Go code) -/
theorem tx_requeued_contiguous (nc : Conn) (block : List Entry) (p : Pending) :
    (pget nc (addCmds nc block p)).cmds = (pget nc p).cmds ++ block ∧
    (pget nc (addAsks nc block p)).asks = (pget nc p).asks ++ block :=
  ⟨(addCmds_cmds nc block p).1, (addAsks_asks nc block p).1⟩

/-! ## recycling of the per-connection batch -/

/-- `doretry` hands the per-connection batch back to the pool (which clears the very command slice the
    connection was given) only when it is clean: the pool grows by this batch exactly when every reply of both of
    its calls came from the server (`NonRedisError() == nil`). If some command was answered with a transport or
    context error — it may still be queued, unwritten, on the connection — nothing is recycled. -/
theorem retry_recycled_only_when_clean (o : Opt) (cache hasInit : Bool) (attempts : Nat) (cc : Conn) (re : Retry)
    (a : Acc) (w : World) :
    (doRetry o cache hasInit attempts cc re a w).2.recycled =
      w.recycled ++ (if retryClean cache cc re w then [(cc, (re.cmds ++ re.asks).map (·.2.id))] else []) ∧
    (retryClean cache cc re w = true ↔
      ((re.cmds = [] ∨ ∀ r ∈ phaseReplies cc (callKind cache) (re.cmds.map fun e => Item.cmd e.2.id) re.cmds w,
          isRedisReply r = true) ∧
       (re.asks = [] ∨ ∀ r ∈ phaseReplies cc .multi (if cache then askingCacheItems re.asks else askingItems false re.asks)
          re.asks (afterCmds cache cc re w), isRedisReply r = true))) := by
  constructor
  · unfold doRetry
    simp only
    split
    · simp only [recycle, doRetryCore_recycled]
    · simp only [doRetryCore_recycled, List.append_nil]
  · unfold retryClean
    simp only [Bool.and_eq_true, Bool.or_eq_true, decide_eq_true_eq, List.all_eq_true]

/-- a context error (the caller gave up while the batch was queued) keeps the batch out of the pool -/
theorem abandoned_batch_not_recycled (o : Opt) (cache hasInit : Bool) (attempts : Nat) (cc : Conn) (re : Retry)
    (a : Acc) (w : World) (hne : re.cmds ≠ []) (s : Bytes)
    (h : Reply.cerr s ∈ phaseReplies cc (callKind cache) (re.cmds.map fun e => Item.cmd e.2.id) re.cmds w) :
    (doRetry o cache hasInit attempts cc re a w).2.recycled = w.recycled := by
  have hnot : retryClean cache cc re w = false := by
    cases hcl : retryClean cache cc re w with
    | false => rfl
    | true =>
      have := ((retry_recycled_only_when_clean o cache hasInit attempts cc re a w).2.mp hcl).1
      rcases this with h0 | h0
      · exact absurd h0 hne
      · have := h0 _ h; simp [isRedisReply] at this
  rw [(retry_recycled_only_when_clean o cache hasInit attempts cc re a w).1, hnot]
  simp

/-! ## ASKING -/

/-- a single (non-MULTI) command sent because of ASK gets its own ASKING immediately in front -/
theorem asking_once_per_single (e : Entry) (rest : List Entry) (h : e.2.isMulti = false) :
    askingItems false (e :: rest) = Item.asking :: Item.cmd e.2.id :: askingItems false rest := by
  simp [askingItems, h]

/-- a MULTI…EXEC block sent because of ASK gets exactly one ASKING, in front of MULTI; the next unit starts
    with a fresh ASKING -/
theorem asking_once_per_unit (mlt x : Entry) (members rest : List Entry)
    (hM : mlt.2.isMulti = true) (hm : ∀ e ∈ members, e.2.isExec = false) (hx : x.2.isExec = true) :
    askingItems false (mlt :: (members ++ x :: rest)) =
      Item.asking :: Item.cmd mlt.2.id :: ((members.map fun e => Item.cmd e.2.id) ++
        Item.cmd x.2.id :: askingItems false rest) := by
  simp only [askingItems, hM]
  rw [askingItems_inTx members x rest hm hx]

/-- non-vacuity: a concrete block -/
example : askingItems false
    [(0, { id := 0, slot := initSlot, isMulti := true }), (1, { id := 1, slot := 5 }),
     (2, { id := 2, slot := initSlot, isExec := true }), (3, { id := 3, slot := 5 })]
    = [.asking, .cmd 0, .cmd 1, .cmd 2, .asking, .cmd 3] := by decide

end Rv.C20
