/-
C44 — Redis URLs map to the documented options.
Model: Rv/Model/Url.lean (url.go ParseURL after the `fix:` commit); table: Rv/Gen/UrlParams.lean
(regenerated from url.go's AST on every run).
-/
import Rv.Model.Url
import Rv.Gen.UrlParams
namespace Rv.C44
open Rv.Url

/-! ### theorems over the regenerated table -/

/-- every documented query parameter is handled by exactly one statement of `ParseURL`, which assigns
    exactly its documented option field (and there are no further parameters) — in particular
    `dial_timeout ↦ Dialer.Timeout` and `write_timeout ↦ ConnWriteTimeout` -/
theorem table_documented : Rv.Gen.urlParams.map (fun r => (r.1, r.2.1)) = modelParams := by decide

/-- no two query parameters write the same option field -/
theorem each_param_own_field :
    ∀ r1 ∈ Rv.Gen.urlParams, ∀ r2 ∈ Rv.Gen.urlParams, r1.2.1 = r2.2.1 → r1.1 = r2.1 := by decide

/-- the only option fields shared with the non-query part of the URL are the database number
    (`db=` is documented to override the path) and `InitAddress`, to which `addr=` appends -/
theorem table_base_overlap :
    ∀ r ∈ Rv.Gen.urlParams, r.2.1 ∈ Rv.Gen.urlBaseFields → (r.1 = "db" ∨ (r.1 = "addr" ∧ r.2.2.1 = "append")) := by
  decide

/-- every statement that runs a value parser has an error return -/
theorem table_parsers_reject :
    ∀ r ∈ Rv.Gen.urlParams, r.2.2.1 ∈ ["strconv.Atoi", "time.ParseDuration", "strconv.ParseBool"] → r.2.2.2 ≠ "" := by
  decide

/-! ### helper lemmas: every statement as "first error, else one field updated" -/

private theorem ite_bind {c : Prop} [Decidable c] (e : Err) (y : Except Err Opt) (f : Opt → Except Err Opt) :
    ((if c then Except.error e else y) >>= f) = if c then Except.error e else (y >>= f) := by
  split <;> rfl

private theorem ok_bind (x : Opt) (f : Opt → Except Err Opt) : ((Except.ok x : Except Err Opt) >>= f) = f x := rfl

/-- option record after the scheme switch and the host block -/
private def baseOpt (P : Parsers) (u : UrlIn) : Opt :=
  { initAddress := some (if u.scheme = "unix" then [P.trimSpace u.path] else [(parseAddr P u.host u.host).2]),
    tls := if tlsScheme u.scheme then some { serverName := (parseAddr P u.host u.host).1 } else none,
    dialFn := u.scheme = "unix" }

private theorem schemeHost_eq (P : Parsers) (u : UrlIn) :
    (stScheme P u {} >>= stHost P u) =
      if ¬ validScheme u.scheme then Except.error .scheme else .ok (baseOpt P u) := by
  unfold stScheme
  by_cases h1 : u.scheme = "unix"
  · simp [h1, stHost, validScheme, baseOpt, tlsScheme, ok_bind]
  · by_cases h2 : u.scheme = "rediss"
    · simp [h2, stHost, validScheme, baseOpt, tlsScheme, ok_bind]
    · by_cases h3 : u.scheme = "valkeys"
      · simp [h3, stHost, validScheme, baseOpt, tlsScheme, ok_bind]
      · by_cases h4 : u.scheme = "redis"
        · simp [h4, stHost, validScheme, baseOpt, tlsScheme, ok_bind]
        · by_cases h5 : u.scheme = "valkey"
          · simp [h5, stHost, validScheme, baseOpt, tlsScheme, ok_bind]
          · simp [h1, h2, h3, h4, h5, validScheme]
            rfl

private def userUpd (u : UrlIn) (o : Opt) : Opt :=
  match u.user with
  | none => o
  | some (n, p) => { o with username := n, password := p.getD "" }

private theorem user_eq (u : UrlIn) (o : Opt) : stUser u o = .ok (userUpd u o) := by
  unfold stUser userUpd
  rcases u.user with _ | ⟨n, p⟩ <;> rfl

private def pathDB (P : Parsers) (u : UrlIn) (dflt : Int) : Int :=
  if u.scheme = "unix" then dflt
  else match P.splitSlash u.path with
    | [_, d] => (P.atoi d).getD dflt
    | _ => dflt

private theorem path_eq (P : Parsers) (u : UrlIn) (o : Opt) :
    stPath P u o =
      if u.scheme ≠ "unix" ∧ (P.splitSlash u.path).length = 2 ∧ (P.atoi ((P.splitSlash u.path).getD 1 "")).isNone then .error .dbnum
      else if u.scheme ≠ "unix" ∧ (P.splitSlash u.path).length > 2 then .error .path
      else .ok { o with selectDB := pathDB P u o.selectDB } := by
  unfold stPath pathDB
  by_cases h1 : u.scheme = "unix"
  · simp [h1]
  · rcases hs : P.splitSlash u.path with _ | ⟨a, _ | ⟨b, _ | ⟨c, r⟩⟩⟩
    · simp [h1]
    · simp [h1]
    · cases ha : P.atoi b <;> simp [h1, ha]
    · simp [h1]

private theorem db_eq (P : Parsers) (q : Query) (o : Opt) :
    stDb P q o =
      if has q "db" ∧ (P.atoi (get q "db")).isNone then .error .dbnum
      else .ok { o with selectDB := if has q "db" then (P.atoi (get q "db")).getD o.selectDB else o.selectDB } := by
  unfold stDb
  by_cases h : has q "db" = true
  · cases ha : P.atoi (get q "db") <;> simp [h]
  · simp [h]

private theorem dial_eq (P : Parsers) (q : Query) (o : Opt) :
    stDial P q o =
      if has q "dial_timeout" ∧ (P.duration (get q "dial_timeout")).isNone then .error .dial
      else .ok { o with dialTimeout := if has q "dial_timeout" then (P.duration (get q "dial_timeout")).getD o.dialTimeout else o.dialTimeout } := by
  unfold stDial
  by_cases h : has q "dial_timeout" = true
  · cases ha : P.duration (get q "dial_timeout") <;> simp [h]
  · simp [h]

private theorem write_eq (P : Parsers) (q : Query) (o : Opt) :
    stWrite P q o =
      if has q "write_timeout" ∧ (P.duration (get q "write_timeout")).isNone then .error .write
      else .ok { o with connWriteTimeout := if has q "write_timeout" then (P.duration (get q "write_timeout")).getD o.connWriteTimeout else o.connWriteTimeout } := by
  unfold stWrite
  by_cases h : has q "write_timeout" = true
  · cases ha : P.duration (get q "write_timeout") <;> simp [h]
  · simp [h]

private def skipIns (P : Parsers) (q : Query) (dflt : Bool) : Bool :=
  if has q "skip_verify" then (if get q "skip_verify" = "" then true else (P.bool (get q "skip_verify")).getD dflt)
  else dflt

private def skipTls (P : Parsers) (q : Query) (t : Option Tls) : Option Tls :=
  t.map fun t => { t with insecure := skipIns P q t.insecure }

private theorem skip_eq (P : Parsers) (q : Query) (o : Opt) :
    stSkip P q o =
      if o.tls.isSome ∧ has q "skip_verify" ∧ get q "skip_verify" ≠ "" ∧ (P.bool (get q "skip_verify")).isNone then .error .skip
      else .ok { o with tls := skipTls P q o.tls } := by
  unfold stSkip skipTls skipIns
  rcases ht : o.tls with _ | t
  · simp
    cases o; simp_all
  · by_cases h : has q "skip_verify" = true
    · by_cases he : get q "skip_verify" = ""
      · simp [h, he]
      · cases hb : P.bool (get q "skip_verify") <;> simp [h, he]
    · simp [h]
      cases o; simp_all

private theorem userUpd_frame (u : UrlIn) (o : Opt) :
    (userUpd u o).tls = o.tls ∧ (userUpd u o).initAddress = o.initAddress ∧ (userUpd u o).dialFn = o.dialFn ∧
    (userUpd u o).selectDB = o.selectDB ∧ (userUpd u o).dialTimeout = o.dialTimeout ∧
    (userUpd u o).connWriteTimeout = o.connWriteTimeout ∧
    (userUpd u o).username = (match u.user with | some (n, _) => n | none => o.username) ∧
    (userUpd u o).password = (match u.user with | some (_, some p) => p | some (_, none) => "" | none => o.password) := by
  unfold userUpd
  rcases u.user with _ | ⟨n, _ | p⟩ <;> simp

/-- master theorem: the assignment-by-assignment model of `ParseURL` computes, for every parsed URL
    and whatever the standard-library parsers answer, exactly the specification in which every option
    is a function of its own URL part — no assignment is overwritten by a later one — and the first
    invalid value (in source order) is reported -/
theorem parse_eq_spec (P : Parsers) (u : UrlIn) : parseURL P u = specURL P u := by
  unfold parseURL
  rw [schemeHost_eq]
  simp only [ite_bind, ok_bind, user_eq, path_eq, db_eq, dial_eq, write_eq, skip_eq, stAddr, stFlags]
  unfold specURL specErr
  obtain ⟨f1, f2, f3, f4, f5, f6, f7, f8⟩ := userUpd_frame u (baseOpt P u)
  by_cases h1 : validScheme u.scheme = true
  · simp only [h1, not_true_eq_false, if_false]
    by_cases c2 : (u.scheme ≠ "unix" ∧ (P.splitSlash u.path).length = 2 ∧ (P.atoi ((P.splitSlash u.path).getD 1 "")).isNone = true)
    · rw [if_pos c2, if_pos c2]
    rw [if_neg c2, if_neg c2]
    by_cases c3 : (u.scheme ≠ "unix" ∧ (P.splitSlash u.path).length > 2)
    · rw [if_pos c3, if_pos c3]
    rw [if_neg c3, if_neg c3]
    by_cases c4 : (has u.query "db" = true ∧ (P.atoi (get u.query "db")).isNone = true)
    · rw [if_pos c4, if_pos c4]
    rw [if_neg c4, if_neg c4]
    by_cases c5 : (has u.query "dial_timeout" = true ∧ (P.duration (get u.query "dial_timeout")).isNone = true)
    · rw [if_pos c5, if_pos c5]
    rw [if_neg c5, if_neg c5]
    by_cases c6 : (has u.query "write_timeout" = true ∧ (P.duration (get u.query "write_timeout")).isNone = true)
    · rw [if_pos c6, if_pos c6]
    rw [if_neg c6, if_neg c6]
    have htls : (userUpd u (baseOpt P u)).tls.isSome = tlsScheme u.scheme := by
      rw [f1]; unfold baseOpt; cases tlsScheme u.scheme <;> simp
    rw [htls]
    by_cases c7 : (tlsScheme u.scheme = true ∧ has u.query "skip_verify" = true ∧ get u.query "skip_verify" ≠ "" ∧ (P.bool (get u.query "skip_verify")).isNone = true)
    · rw [if_pos c7, if_pos c7]
    rw [if_neg c7, if_neg c7]
    show Except.ok _ = Except.ok _
    congr 1
    unfold specOpt
    rw [f1, f2, f3, f4, f5, f6, f7, f8]
    simp only [Opt.mk.injEq]
    refine ⟨?_, ?_, ?_, ?_, ?_, ?_, ?_, ?_⟩
    · simp [baseOpt]
    · unfold skipTls skipIns baseOpt
      cases ht : tlsScheme u.scheme
      · simp
      · by_cases hh : has u.query "skip_verify" = true
        · by_cases he : get u.query "skip_verify" = ""
          · simp [hh, he]
          · cases hb : P.bool (get u.query "skip_verify") with
            | none => exact absurd ⟨ht, hh, he, by simp [hb]⟩ c7
            | some b => cases b <;> simp [hh, he, hb]
        · simp [hh]
    · simp [baseOpt]
    · rcases u.user with _ | ⟨n, _ | p⟩ <;> simp [baseOpt]
    · rcases u.user with _ | ⟨n, _ | p⟩ <;> simp [baseOpt]
    · unfold specDB pathDB
      by_cases hh : has u.query "db" = true
      · cases ha : P.atoi (get u.query "db") with
        | none => exact absurd ⟨hh, by rw [ha]; rfl⟩ c4
        | some n => simp [hh]
      · simp only [hh, baseOpt]
        rfl
    · simp [baseOpt]
    · simp [baseOpt]
  · simp [h1]

/-! ### consequences -/

/-- an accepted URL yields exactly the specified option record -/
theorem ok_is_spec (P : Parsers) (u : UrlIn) (o : Opt) (h : parseURL P u = .ok o) : o = specOpt P u := by
  rw [parse_eq_spec] at h
  unfold specURL at h
  cases he : specErr P u with
  | some e => rw [he] at h; cases h
  | none => rw [he] at h; cases h; rfl

/-- `write_timeout` sets the connection write timeout -/
theorem write_timeout_maps (P : Parsers) (u : UrlIn) (o : Opt) (d : Int) (h : parseURL P u = .ok o)
    (hh : has u.query "write_timeout" = true) (hd : P.duration (get u.query "write_timeout") = some d) :
    o.connWriteTimeout = d := by
  rw [ok_is_spec P u o h]; simp [specOpt, hh, hd]

/-- `dial_timeout` sets the dial timeout -/
theorem dial_timeout_maps (P : Parsers) (u : UrlIn) (o : Opt) (d : Int) (h : parseURL P u = .ok o)
    (hh : has u.query "dial_timeout" = true) (hd : P.duration (get u.query "dial_timeout") = some d) :
    o.dialTimeout = d := by
  rw [ok_is_spec P u o h]; simp [specOpt, hh, hd]

/-- without `dial_timeout` the dial timeout stays zero whatever `write_timeout` says, and vice versa -/
theorem timeouts_independent (P : Parsers) (u : UrlIn) (o : Opt) (h : parseURL P u = .ok o) :
    (has u.query "dial_timeout" = false → o.dialTimeout = 0) ∧
    (has u.query "write_timeout" = false → o.connWriteTimeout = 0) := by
  rw [ok_is_spec P u o h]
  constructor <;> intro hh <;> simp [specOpt, hh]

private theorem specErr_none (P : Parsers) (u : UrlIn) (h : specErr P u = none) :
    validScheme u.scheme = true ∧
    ¬ (u.scheme ≠ "unix" ∧ (P.splitSlash u.path).length = 2 ∧ (P.atoi ((P.splitSlash u.path).getD 1 "")).isNone = true) ∧
    ¬ (u.scheme ≠ "unix" ∧ (P.splitSlash u.path).length > 2) ∧
    ¬ (has u.query "db" = true ∧ (P.atoi (get u.query "db")).isNone = true) ∧
    ¬ (has u.query "dial_timeout" = true ∧ (P.duration (get u.query "dial_timeout")).isNone = true) ∧
    ¬ (has u.query "write_timeout" = true ∧ (P.duration (get u.query "write_timeout")).isNone = true) ∧
    ¬ (tlsScheme u.scheme = true ∧ has u.query "skip_verify" = true ∧ get u.query "skip_verify" ≠ "" ∧
        (P.bool (get u.query "skip_verify")).isNone = true) := by
  unfold specErr at h
  by_cases c1 : ¬ validScheme u.scheme = true
  · rw [if_pos c1] at h; cases h
  rw [if_neg c1] at h
  by_cases c2 : (u.scheme ≠ "unix" ∧ (P.splitSlash u.path).length = 2 ∧ (P.atoi ((P.splitSlash u.path).getD 1 "")).isNone = true)
  · rw [if_pos c2] at h; cases h
  rw [if_neg c2] at h
  by_cases c3 : (u.scheme ≠ "unix" ∧ (P.splitSlash u.path).length > 2)
  · rw [if_pos c3] at h; cases h
  rw [if_neg c3] at h
  by_cases c4 : (has u.query "db" = true ∧ (P.atoi (get u.query "db")).isNone = true)
  · rw [if_pos c4] at h; cases h
  rw [if_neg c4] at h
  by_cases c5 : (has u.query "dial_timeout" = true ∧ (P.duration (get u.query "dial_timeout")).isNone = true)
  · rw [if_pos c5] at h; cases h
  rw [if_neg c5] at h
  by_cases c6 : (has u.query "write_timeout" = true ∧ (P.duration (get u.query "write_timeout")).isNone = true)
  · rw [if_pos c6] at h; cases h
  rw [if_neg c6] at h
  by_cases c7 : (tlsScheme u.scheme = true ∧ has u.query "skip_verify" = true ∧ get u.query "skip_verify" ≠ "" ∧ (P.bool (get u.query "skip_verify")).isNone = true)
  · rw [if_pos c7] at h; cases h
  exact ⟨by simpa using c1, c2, c3, c4, c5, c6, c7⟩

/-- invalid values are rejected: an accepted URL has a supported scheme, a path that is empty or one
    valid database number (non-unix schemes), and every present `db`, `dial_timeout`, `write_timeout`
    and (on TLS schemes, when non-empty) `skip_verify` value is accepted by its standard-library parser -/
theorem invalid_rejected (P : Parsers) (u : UrlIn) (o : Opt) (h : parseURL P u = .ok o) :
    validScheme u.scheme = true ∧
    (u.scheme ≠ "unix" → (P.splitSlash u.path).length ≤ 2 ∧
      ((P.splitSlash u.path).length = 2 → (P.atoi ((P.splitSlash u.path).getD 1 "")).isSome = true)) ∧
    (has u.query "db" = true → (P.atoi (get u.query "db")).isSome = true) ∧
    (has u.query "dial_timeout" = true → (P.duration (get u.query "dial_timeout")).isSome = true) ∧
    (has u.query "write_timeout" = true → (P.duration (get u.query "write_timeout")).isSome = true) ∧
    (tlsScheme u.scheme = true → has u.query "skip_verify" = true → get u.query "skip_verify" ≠ "" →
      (P.bool (get u.query "skip_verify")).isSome = true) := by
  rw [parse_eq_spec] at h
  unfold specURL at h
  cases he : specErr P u with
  | some e => rw [he] at h; cases h
  | none =>
    obtain ⟨h1, c2, c3, c4, c5, c6, c7⟩ := specErr_none P u he
    refine ⟨h1, ?_, ?_, ?_, ?_, ?_⟩
    · intro hu
      refine ⟨?_, ?_⟩
      · rcases Nat.lt_or_ge 2 (P.splitSlash u.path).length with hl | hl
        · exact absurd ⟨hu, hl⟩ c3
        · exact hl
      · intro hl
        cases ha : P.atoi ((P.splitSlash u.path).getD 1 "") with
        | none => exact absurd ⟨hu, hl, by rw [ha]; rfl⟩ c2
        | some n => rfl
    · intro hh
      cases ha : P.atoi (get u.query "db") with
      | none => exact absurd ⟨hh, by rw [ha]; rfl⟩ c4
      | some n => rfl
    · intro hh
      cases ha : P.duration (get u.query "dial_timeout") with
      | none => exact absurd ⟨hh, by rw [ha]; rfl⟩ c5
      | some n => rfl
    · intro hh
      cases ha : P.duration (get u.query "write_timeout") with
      | none => exact absurd ⟨hh, by rw [ha]; rfl⟩ c6
      | some n => rfl
    · intro ht hh hne
      cases ha : P.bool (get u.query "skip_verify") with
      | none => exact absurd ⟨ht, hh, hne, by rw [ha]; rfl⟩ c7
      | some n => rfl

/-- conversely a URL without any of these defects is accepted -/
theorem valid_accepted (P : Parsers) (u : UrlIn) (h : specErr P u = none) : parseURL P u = .ok (specOpt P u) := by
  rw [parse_eq_spec]; unfold specURL; rw [h]

/-! ### the repaired defect, kept as a witness -/

/-- the query of `redis://?dial_timeout=1s&write_timeout=5s` -/
def witnessQuery : Query := [("dial_timeout", ["1s"]), ("write_timeout", ["5s"])]

private theorem wq_facts :
    has witnessQuery "db" = false ∧ has witnessQuery "dial_timeout" = true ∧ has witnessQuery "write_timeout" = true ∧
    Url.get witnessQuery "dial_timeout" = "1s" ∧ Url.get witnessQuery "write_timeout" = "5s" ∧
    vals witnessQuery "addr" = [] := by decide

/-- before the `fix:` commit `redis://?dial_timeout=1s&write_timeout=5s` produced a dial timeout of 5s
    and no connection write timeout: `write_timeout` overwrote `dial_timeout`'s option -/
theorem old_write_timeout_overwrites (P : Parsers)
    (h1 : P.duration "1s" = some 1000000000) (h5 : P.duration "5s" = some 5000000000) (hs : P.splitSlash "" = [""]) :
    (parseURLOld P ⟨"redis", "", "", none, witnessQuery⟩).map
      (fun o => (o.dialTimeout, o.connWriteTimeout)) = .ok (5000000000, 0) := by
  obtain ⟨q1, q2, q3, q4, q5, q6⟩ := wq_facts
  simp [parseURLOld, stScheme, stHost, stUser, stPath, stDb, stDial, stWriteOld, stAddr, stSkip, stFlags,
    q1, q2, q3, q4, q5, q6, h1, h5, hs, bind, Except.bind, Except.map]

/-- the repaired code on the same URL -/
theorem new_write_timeout_separate (P : Parsers)
    (h1 : P.duration "1s" = some 1000000000) (h5 : P.duration "5s" = some 5000000000) (hs : P.splitSlash "" = [""]) :
    (parseURL P ⟨"redis", "", "", none, witnessQuery⟩).map
      (fun o => (o.dialTimeout, o.connWriteTimeout)) = .ok (1000000000, 5000000000) := by
  obtain ⟨q1, q2, q3, q4, q5, q6⟩ := wq_facts
  simp [parseURL, stScheme, stHost, stUser, stPath, stDb, stDial, stWrite, stAddr, stSkip, stFlags,
    q1, q2, q3, q4, q5, q6, h1, h5, hs, bind, Except.bind, Except.map]

end Rv.C44
