/-
C10 — client-side cache memory stays within CacheSizeEachConn (lru.go).
Model: Rv/Model/Lru.lean (the eviction loop as repaired by the `fix:` commit in /repo:
the successor is taken before `list.Remove`). Helper lemmas: Rv/Lemmas/Lru*.lean.
-/
import Rv.Lemmas.LruPending
namespace Rv.C10
open Rv.Lru

/-- every `update` of a history carries a non-negative reply size (`approximateSize() ≥ 0`) -/
def NonnegSizes (ops : List Op) : Prop :=
  ∀ op ∈ ops, match op with | .update _ _ _ vsz _ => 0 ≤ vsz | _ => True

private def Nn (s : State) : Prop :=
  0 ≤ s.base ∧ (∀ e ∈ s.list, 0 ≤ contrib e) ∧ (s.closed = false → s.size ≤ s.max)

private theorem sumC_nonneg {l : List Entry} (h : ∀ e ∈ l, 0 ≤ contrib e) : 0 ≤ sumC l := by
  induction l with
  | nil => simp [sumC]
  | cons a l ih =>
    simp only [sumC]
    have := h a List.mem_cons_self
    have := ih (fun e he => h e (List.mem_cons_of_mem _ he))
    omega

private theorem sumC_pending {l : List Entry} (h : ∀ e ∈ l, e.pend = true) : sumC l = 0 := by
  induction l with
  | nil => simp [sumC]
  | cons a l ih =>
    simp only [sumC, contrib, h a List.mem_cons_self, if_true]
    rw [ih (fun e he => h e (List.mem_cons_of_mem _ he))]; rfl

private theorem nn_outcome {s s' : State} {k c : Bytes} {ttl now : Int} {r : FRes}
    (h : Nn s) (o : Outcome4 s k c ttl now s' r) : Nn s' := by
  cases o with
  | closed hc hs hr => subst hs; exact h
  | found e hc hf hv hr hl hsz hn fr =>
    refine ⟨by rw [fr.2.2.2]; exact h.1, ?_, by rw [hsz, fr.2.2.1, fr.1]; exact h.2.2⟩
    intro x hx
    apply h.2.1
    rcases hl with hl | hl
    · rw [hl] at hx; exact hx
    · rw [hl] at hx
      simp only [moveToBack, List.mem_append, List.mem_singleton] at hx
      rcases hx with hx | hx
      · exact List.mem_of_mem_erase hx
      · exact hx ▸ (find?_some hf).1
  | expired e hc hf hv hr hl hsz hn fr =>
    have hf' := find?_some hf
    have hpe : e.pend = false := by
      cases hp : e.pend
      · rfl
      · simp [valid, hp] at hv
    refine ⟨by rw [fr.2.2.2]; exact h.1, ?_, ?_⟩
    · intro x hx
      rw [hl] at hx
      rcases List.mem_append.1 hx with hx | hx
      · exact h.2.1 x (List.mem_of_mem_erase hx)
      · simp at hx; subst hx; simp [contrib, newEntry]
    · intro hc'
      have := h.2.1 e hf'.1
      simp only [contrib, hpe] at this
      have := h.2.2 hc
      rw [hsz, fr.2.2.1]; simp at *; omega
  | absent hc hf hr hl hsz hn fr =>
    refine ⟨by rw [fr.2.2.2]; exact h.1, ?_, by rw [hsz, fr.2.2.1, fr.1]; exact h.2.2⟩
    intro x hx
    rw [hl] at hx
    rcases List.mem_append.1 hx with hx | hx
    · exact h.2.1 x hx
    · simp at hx; subst hx; simp [contrib, newEntry]

private theorem nn_flights2 (multi : List (Bytes × Bytes × Int)) (now : Int) (ms : List Nat) (s : State)
    (res : List (Option FRes)) (out : List Nat) (h : Nn s) : Nn (flights2 multi now ms s res out).1 := by
  induction ms generalizing s res out with
  | nil => exact h
  | cons i rest ih =>
    simp only [flights2]
    split
    · exact ih _ _ _ h
    · rename_i k c ttl hm
      exact ih _ _ _ (nn_outcome h (locked_cases s k c ttl now))

private theorem nn_flights {s : State} (h : Nn s) (now : Int) (multi : List (Bytes × Bytes × Int)) :
    Nn (flights s now multi).1 := by
  unfold flights
  have h1 := flights1_list (unixMilli now) multi 0 { s := s, res := [], moves := [], missed := [] }
  have hfr : (flights1 (unixMilli now) multi 0 { s := s, res := [], moves := [], missed := [] }).s.max = s.max ∧
      (flights1 (unixMilli now) multi 0 { s := s, res := [], moves := [], missed := [] }).s.base = s.base :=
    ⟨(flights1_frame _ _ _ _).1, (flights1_frame _ _ _ _).2.1⟩
  generalize flights1 (unixMilli now) multi 0 { s := s, res := [], moves := [], missed := [] } = a at h1 hfr
  simp only at h1
  have hmv : ∀ e ∈ a.moves, e ∈ a.s.list := by
    intro e he
    rcases h1.2.2.2 e he with h | h
    · simp at h
    · rw [h1.1]; exact h
  have hm : Nn { a.s with list := a.moves.foldl moveToBack a.s.list } := by
    refine ⟨by simpa [hfr.2] using h.1, ?_, ?_⟩
    · intro x hx
      have hx : x ∈ a.moves.foldl moveToBack a.s.list := hx
      rw [mem_foldl_moveToBack _ _ hmv, h1.1] at hx
      exact h.2.1 x hx
    · intro hc
      have hc : a.s.closed = false := hc
      show a.s.size ≤ a.s.max
      rw [h1.2.1, hfr.1]; exact h.2.2 (by rw [← h1.2.2.1]; exact hc)
  simp only
  split
  · exact hm
  · split
    · exact hm
    · exact nn_flights2 _ _ _ _ _ _ hm


private theorem sumSizes_nonneg {l : List Entry} (h : ∀ e ∈ l, 0 ≤ e.size) : 0 ≤ sumSizes l := by
  induction l with
  | nil => simp [sumSizes]
  | cons a l ih =>
    have := h a List.mem_cons_self
    have := ih (fun e he => h e (List.mem_cons_of_mem _ he))
    simp [sumSizes] at *; omega

private theorem nn_purge {s : State} (h : Nn s) (k : Bytes) : Nn (purge s k) := by
  refine ⟨h.1, ?_, ?_⟩
  · intro x hx; exact h.2.1 x (mem_purge hx).1
  · intro hc
    have hc : s.closed = false := hc
    show s.size - sumSizes (s.list.filter fun e => e.key == k && !e.pend) ≤ s.max
    have : 0 ≤ sumSizes (s.list.filter fun e => e.key == k && !e.pend) := by
      apply sumSizes_nonneg
      intro e he
      rw [List.mem_filter] at he
      have hp : e.pend = false := by have := he.2; simp at this; exact this.2
      have := h.2.1 e he.1
      simpa [contrib, hp] using this
    have := h.2.2 hc
    omega

private theorem nn_foldl_purge (keys : List Bytes) {s : State} (h : Nn s) : Nn (keys.foldl purge s) := by
  induction keys generalizing s with
  | nil => exact h
  | cons k rest ih => exact ih (nn_purge h k)

private theorem nn_update {s : State} (h : Nn s) (hi : Inv s) (k c : Bytes) (v : Nat) (vsz raw : Int) (hv : 0 ≤ vsz) :
    Nn (update s k c v vsz raw).1 := by
  have o := update_cases s k c v vsz raw
  have hbase : (update s k c v vsz raw).1.base = s.base := by
    unfold update; split
    · rfl
    · split
      · rfl
      · simp only [gcHits]; split <;> rfl
  have hinv := inv_update hi k c v vsz raw
  generalize (update s k c v vsz raw).1 = s' at o hbase hinv
  generalize (update s k c v vsz raw).2 = p at o
  cases o with
  | closed hc hs hp => subst hs; exact h
  | absent hc hf hs hp => subst hs; exact h
  | fill e hc hf hpend hp hl hsz hd hcl hmx hn =>
    have hnn : ∀ x ∈ s'.list, 0 ≤ contrib x := by
      intro x hx
      rw [hl] at hx
      have hx := (evict_sublist _ _ _).subset hx
      rcases mem_replace hi.nodup.nodup hx with hx | hx
      · exact h.2.1 x hx.1
      · rw [hx.2]; simp only [contrib, updEntry]
        have := h.1
        have : (0 : Int) ≤ (k.length : Int) := Int.natCast_nonneg _
        have : (0 : Int) ≤ (c.length : Int) := Int.natCast_nonneg _
        simp; omega
    refine ⟨by rw [hbase]; exact h.1, hnn, ?_⟩
    intro _
    rcases evict_fits s.max (s.size + (updEntry s e k c v vsz raw).size) (s.list.replace e (updEntry s e k c v vsz raw)) with hf | hf
    · rw [hsz, hmx]; exact hf
    · rw [← hl] at hf
      have h0 := sumC_pending hf
      have := hinv.size hcl
      have hmax : s.size ≤ s.max := h.2.2 hc
      have hs0 : 0 ≤ s.size := by rw [hi.size hc]; exact sumC_nonneg h.2.1
      rw [this, h0, hmx]; omega
  | stale e hc hf hpend hp hl hsz hd hcl hmx hn =>
    refine ⟨by rw [hbase]; exact h.1, ?_, ?_⟩
    · intro x hx; rw [hl] at hx; exact h.2.1 x ((evict_sublist _ _ _).subset hx)
    · intro _
      rcases evict_fits s.max s.size s.list with hf | hf
      · rw [hsz, hmx]; exact hf
      · rw [← hl] at hf
        have h0 := sumC_pending hf
        have := hinv.size hcl
        have hmax : s.size ≤ s.max := h.2.2 hc
        have hs0 : 0 ≤ s.size := by rw [hi.size hc]; exact sumC_nonneg h.2.1
        rw [this, h0, hmx]; omega

private theorem nn_step {s : State} (h : Nn s) (hi : Inv s) (op : Op)
    (hv : match op with | .update _ _ _ vsz _ => 0 ≤ vsz | _ => True) : Nn (step s op).1 := by
  cases op with
  | flight k c ttl now => exact nn_outcome h (flight_cases s k c ttl now)
  | flights now multi => exact nn_flights h now multi
  | update k c v vsz raw => exact nn_update h hi k c v vsz raw hv
  | cancel k c err =>
    simp only [step]
    unfold cancel
    split
    · exact h
    · split
      · exact h
      · split
        · refine ⟨h.1, ?_, ?_⟩
          · intro x hx
            have hx : x ∈ s.list.erase _ := hx
            exact h.2.1 x (List.mem_of_mem_erase hx)
          · exact h.2.2
        · exact h
  | delete keys =>
    cases keys with
    | none => exact nn_foldl_purge _ h
    | some ks => exact nn_foldl_purge _ h
  | close err => exact ⟨h.1, by simp [step, close], by simp [step, close]⟩
  | sethits k n => exact h

private theorem nn_run {s : State} (h : Nn s) (hi : Inv s) (ops : List Op) (hv : NonnegSizes ops) : Nn (run s ops) := by
  induction ops generalizing s with
  | nil => exact h
  | cons op rest ih =>
    exact ih (nn_step h hi op (hv op List.mem_cons_self)) (inv_step hi op)
      (fun o ho => hv o (List.mem_cons_of_mem _ ho))

/-! ### Property theorems -/

/-- **Accounting.** After any history of operations on a fresh store that has not been closed, the accounted
    size equals the sum of the sizes of the completed entries retained in the recency list. -/
theorem size_eq_sum (mx base : Int) (ops : List Op) (hopen : (run (Lru.init mx base) ops).closed = false) :
    (run (Lru.init mx base) ops).size = sumC (run (Lru.init mx base) ops).list :=
  (inv_run (inv_init mx base) ops).size hopen

/-- `Close` drops list and map but leaves `c.size` as it was: the equality of `size_eq_sum` is about open
    stores only (a closed lru is never used again: see `C06.close_clears`). Concrete witness. -/
theorem size_after_close_not_reset :
    let s := run (Lru.init 1000 336) [.flight [1] [2] 1000000000 0, .update [1] [2] 7 50 0, .close 1]
    s.size = 390 ∧ s.list = [] := by decide

/-- **Bound.** For a non-negative `CacheSizeEachConn`, after every operation of any history (in particular after
    every update) the accounted size of an open store is at most the bound. -/
theorem size_le_max_after_update (mx base : Int) (hmx : 0 ≤ mx) (hbase : 0 ≤ base) (ops : List Op)
    (hv : NonnegSizes ops) (hopen : (run (Lru.init mx base) ops).closed = false) :
    (run (Lru.init mx base) ops).size ≤ mx := by
  have h0 : Nn (Lru.init mx base) := ⟨hbase, by simp [Lru.init], fun _ => hmx⟩
  have := (nn_run h0 (inv_init mx base) ops hv).2.2 hopen
  rw [(run_max _ ops).1] at this; exact this

/-- **In-flight entries are never evicted.** Whatever the operation, a pending entry stays in the store unless the
    operation is its own `Update`/`Cancel` or `Close` — in particular the eviction loop of an `Update` for another
    command and every invalidation pass it over. -/
theorem pending_never_evicted {s : State} (hi : Inv s) {e : Entry} (he : e ∈ s.list) (hp : e.pend = true)
    (op : Op) (hno : op.resolves e.key e.cmd = false) : e ∈ (step s op).1.list :=
  pending_persists hi he hp op hno

/-- the same along any history from a fresh store -/
theorem pending_never_evicted_run (mx base : Int) (ops ops' : List Op) {e : Entry}
    (he : e ∈ (run (Lru.init mx base) ops).list) (hp : e.pend = true)
    (hno : ∀ op ∈ ops', op.resolves e.key e.cmd = false) :
    e ∈ (run (run (Lru.init mx base) ops) ops').list :=
  pending_persists_run (inv_run (inv_init mx base) ops) he hp ops' hno

/-- **Least recently used first.** What an `Update` evicts is exactly the completed entries of a prefix `pre` of
    the recency list (front = least recently used) as it stands after the reply has been written; pending entries
    of that prefix and the whole rest `suf` stay, in order; the loop stops as soon as the size fits (or the list is
    exhausted); and every eviction was necessary: before each evicted entry was reached the size still exceeded
    the bound. `l0`/`sz0` are the list and size after the in-place write. -/
theorem evicts_lru_first (s : State) (k c : Bytes) (v : Nat) (vsz raw : Int) (e : Entry)
    (hopen : s.closed = false) (hf : find? s.list k c = some e) :
    let l0 := if e.pend then s.list.replace e (updEntry s e k c v vsz raw) else s.list
    let sz0 := if e.pend then s.size + (updEntry s e k c v vsz raw).size else s.size
    let s' := (update s k c v vsz raw).1
    ∃ pre suf, l0 = pre ++ suf ∧
      s'.list = pre.filter (·.pend) ++ suf ∧
      s'.size = sz0 - sumC pre ∧
      (suf = [] ∨ s'.size ≤ s.max) ∧
      (∀ p1 x p2, pre = p1 ++ x :: p2 → sz0 - sumC p1 > s.max) := by
  intro l0 sz0 s'
  have o := update_cases s k c v vsz raw
  cases o with
  | closed hc hs hp => rw [hc] at hopen; cases hopen
  | absent hc hf' hs hp => rw [hf'] at hf; cases hf
  | fill e' hc hf' hpend hp hl hsz hd hcl hmx hn =>
    rw [hf'] at hf; cases hf
    obtain ⟨pre, suf, h1, h2, h3, h4, h5, h6⟩ := evict_prefix s.max (s.size + (updEntry s e k c v vsz raw).size)
      (s.list.replace e (updEntry s e k c v vsz raw))
    refine ⟨pre, suf, by simp only [l0, hpend, if_true]; exact h1, by rw [hl]; exact h2, ?_, ?_, ?_⟩
    · show (update s k c v vsz raw).1.size = _
      rw [hsz, h4]; simp only [sz0, hpend, if_true]
    · rcases h5 with h5 | h5
      · exact Or.inl h5
      · right; show (update s k c v vsz raw).1.size ≤ _; rw [hsz]; exact h5
    · intro p1 x p2 hp'; simp only [sz0, hpend, if_true]; exact h6 p1 x p2 hp'
  | stale e' hc hf' hpend hp hl hsz hd hcl hmx hn =>
    rw [hf'] at hf; cases hf
    obtain ⟨pre, suf, h1, h2, h3, h4, h5, h6⟩ := evict_prefix s.max s.size s.list
    refine ⟨pre, suf, by simp only [l0, hpend]; exact h1, by rw [hl]; exact h2, ?_, ?_, ?_⟩
    · show (update s k c v vsz raw).1.size = _
      rw [hsz, h4]; simp only [sz0, hpend]; rfl
    · rcases h5 with h5 | h5
      · exact Or.inl h5
      · right; show (update s k c v vsz raw).1.size ≤ _; rw [hsz]; exact h5
    · intro p1 x p2 hp'; simp only [sz0, hpend]; exact h6 p1 x p2 hp'

/-- the witness of the repaired defect (max 1452, three small completed entries, then a large reply): the loop
    now evicts all three older entries and the size fits again (the unrepaired loop stopped after one) -/
theorem several_evictions_witness :
    let s := run (Lru.init 1452 336)
      [.flight [1] [1] 1000000000000 0, .update [1] [1] 1 50 0,
       .flight [2] [1] 1000000000000 0, .update [2] [1] 2 50 0,
       .flight [3] [1] 1000000000000 0, .update [3] [1] 3 50 0,
       .flight [4] [1] 1000000000000 0, .update [4] [1] 4 1000 0]
    s.size = 1340 ∧ s.list.map (·.id) = [3] := by decide

end Rv.C10
