/-
C04/C05 over the interleaving model of one pipe's life (Rv/Model/PipeLife.lean):
callers of Do/DoMulti, the writer, the reader, the exit path of `_background`, Close, the
keep-alive watchdog and context-done events, every interleaving of their atomic steps.
`fix = true` is the code as it is since fix eac8ecc (tail of Do/DoMulti `waits == 1 && left != 0`, pinned by
`pipelife_shape_pinned` in Rv/Props/C04bShape.lean); `fix = false` is the tail before that fix and occurs only
in the witness `close_race_strands_call`. Theorems stated for an arbitrary `fix` hold for both.
`p.state` ends at 4 (pipe.go: `atomic.StoreInt32(&p.state, 4)`), 3 is only the static dead pipe.
-/
import Rv.Lemmas.PipeLifeStarter
import Rv.Lemmas.PipeLifeFrame
namespace Rv.C04.Life
open Rv.PipeLife

/-! ### (a) nothing is left behind once the teardown has finished -/

private theorem list_eq_nil_of_count {l : List Owner} (h : ∀ o, l.count o = 0) : l = [] := by
  cases l with
  | nil => rfl
  | cons a as => have := h a; simp at this

/-- **no_call_left_behind.** In every reachable state in which `_background` has stored the final
    state (4), for every interleaving that led there: no call is still owed a result by the pipe
    (none is queued, in the sync path, waiting on its channel, or has an abort goroutine parked on it),
    the queue is empty and the reader holds no batch. A call that is not `done` then is a late arrival
    that has not been told yet (`counted`, or `got` with the latched error in hand). -/
theorem no_call_left_behind {fix : Bool} {s : St} (hr : Reachable fix s) (h4 : s.state = 4) :
    (∀ i cs, stOf s i = some cs → cs.owed = false) ∧ s.queue = [] ∧ s.inflight = none := by
  have ha := hr.invA
  have hc := hr.invC
  have htd : s.td = .finished := (ha.a6).mp h4
  have hS := hr.invP (by rw [htd]; rfl)
  have hsl : slots s = [] := by
    apply list_eq_nil_of_count
    intro o
    cases o with
    | call i =>
      rw [hc.s1 i]
      cases hst : stOf s i with
      | none => rfl
      | some cs =>
        have := hS.p1 i cs hst
        cases cs <;> simp_all [slotW, CS.owed]
    | bgPing =>
      rw [hc.s2]
      have := hS.p2
      cases hb : s.bgPing <;> simp_all [HS.slot, HS.weight]
    | closePing => rw [hc.s3, hS.p3]; rfl
  refine ⟨hS.p1, ?_, ?_⟩
  · have : s.queue.map (·.owner) = [] := by
      have := hsl; simp only [slots, List.append_eq_nil_iff] at this; exact this.2
    simpa using this
  · have : s.inflight.toList = [] := by
      have := hsl; simp only [slots, List.append_eq_nil_iff] at this; exact this.1
    cases hi : s.inflight with
    | none => rfl
    | some o => rw [hi] at this; simp at this

/-- the same already when the drain loop has seen `waits == 0` (before the final store) -/
theorem loop_exit_leaves_nothing {fix : Bool} {s : St} (hr : Reachable fix s) (h : tdSettled s.td = true) :
    ∀ i cs, stOf s i = some cs → cs.owed = false := (hr.invP h).p1

/-- `waits` counts exactly the goroutines that incremented it and have not decremented it yet -/
theorem waits_counts {fix : Bool} {s : St} (hr : Reachable fix s) :
    s.waits = wsum s.calls + s.bgPing.weight + s.close.weight + b2n s.cpOwed := hr.invC.w

/-! ### (c) a closing/closed pipe rejects -/

/-- `state >= 2` is never left: no step of any goroutine reopens a closing pipe -/
theorem closing_is_stable {fix : Bool} {s s' : St} {l : Label} (hs : step fix s l = some s')
    (h2 : 2 ≤ s.state) : 2 ≤ s'.state := state_ge2_stable hs h2

/-- **closed_pipe_rejects.** Once `state >= 2` (after `_exit` or Close), a call that passes its state
    load gets `NewErrorResult(p.Error())` with the latched, non-nil error, and neither the queue nor the
    wire is touched; its next statement returns that error. -/
theorem closed_pipe_rejects {fix : Bool} {s : St} (hr : Reachable fix s) (h2 : 2 ≤ s.state) {i w : Nat}
    (hst : stOf s i = some (.counted w)) :
    ∃ s', step fix s (.decide i) = some s' ∧ stOf s' i = some (.got (latched s.err) (fix && w == 1)) ∧
      latched s.err ≠ .nilerr ∧ latched s.err ≠ .reply ∧
      s'.queue = s.queue ∧ s'.wire = s.wire ∧ s'.state = s.state ∧ s'.waits = s.waits := by
  have herr : s.err ≠ none := hr.invA.a1 h2
  have h1 : ¬ s.state = 1 := by omega
  have h0 : ¬ s.state = 0 := by omega
  refine ⟨setSt i (.got (latched s.err) (fix && w == 1)) s, ?_, ?_, ?_, ?_, rfl, rfl, rfl, rfl⟩
  · simp only [step, PipeLife.decide, hst, h1, h0, if_false]
  · rw [stOf_modify (s := s) rfl i, if_pos rfl, hst]; rfl
  · cases he : s.err with
    | none => exact absurd he herr
    | some x => cases x <;> simp [latched]
  · cases he : s.err with
    | none => exact absurd he herr
    | some x => cases x <;> simp [latched]

/-- the error handed out by a rejecting pipe is never nil: the latch is set before `state` reaches 2 -/
theorem reject_has_error {fix : Bool} {s : St} (hr : Reachable fix s) (h2 : 2 ≤ s.state) : s.err ≠ none :=
  hr.invA.a1 h2

/-! ### (e) exactly one return per call -/

/-- **reply_exactly_once.** In every reachable state the log of returns holds at most one entry per
    call, and exactly one for a call whose status is `aborted`/`done`. -/
theorem reply_exactly_once {fix : Bool} {s : St} (hr : Reachable fix s) (j : Nat) :
    cnt j s.log ≤ 1 ∧ (cnt j s.log = 1 ↔ (stOf s j = some .aborted ∨ stOf s j = some .done)) := by
  have h := hr.invL j
  rw [h]
  cases hst : stOf s j with
  | none => simp [retOf]
  | some cs => cases cs <;> simp [retOf, CS.ret]

/-! ### (d) C05: context done -/

/-- **done_ctx_sends_nothing.** A call whose context is already done returns the context error at its
    first statement; `waits`, `state`, the queue and the wire are untouched. -/
theorem done_ctx_sends_nothing {fix : Bool} {s : St} {i : Nat} (hst : stOf s i = some .idle)
    (hd : ctxDoneOf s i = true) :
    ∃ s', step fix s (.enter i) = some s' ∧ s'.log = s.log ++ [(i, .ctx)] ∧ stOf s' i = some .done ∧
      s'.queue = s.queue ∧ s'.wire = s.wire ∧ s'.waits = s.waits ∧ s'.state = s.state ∧ s'.td = s.td := by
  refine ⟨{ (setSt i .done s) with log := s.log ++ [(i, .ctx)] }, ?_, rfl, ?_, rfl, rfl, rfl, rfl, rfl⟩
  · simp only [step, PipeLife.enter, hst, hd, if_true]
  · rw [stOf_modify (s := s) (s' := { (setSt i .done s) with log := s.log ++ [(i, .ctx)] }) rfl i, if_pos rfl, hst]; rfl

private theorem idle_not_on_wire_step {fix : Bool} {s s' : St} {l : Label} (hs : step fix s l = some s')
    (hc : InvC s) (h : ∀ i, stOf s i = some .idle → i ∉ s.wire) : ∀ i, stOf s' i = some .idle → i ∉ s'.wire := by
  intro i hi hw
  -- idle after the step means idle before it (nothing moves a call back to idle)
  have hbefore : stOf s i = some .idle := by
    rcases step_change hs i with ⟨h1, _⟩ | ⟨a, b, _, hb, ht, _⟩ | ⟨a, b, _, hb, hd, _⟩
    · rw [← h1]; exact hi
    · rw [hi] at hb; injection hb with hb; subst hb; cases ht
    · rw [hi] at hb; injection hb with hb; subst hb; cases hd
  by_cases hn : i ∈ s.wire
  · exact h i hbefore hn
  · rcases wire_only_live hs hc hw hn with ⟨w, h1⟩ | h1 | h1 <;> rw [hbefore] at h1 <;> cases h1

theorem idle_not_on_wire {fix : Bool} {s : St} (hr : Reachable fix s) : ∀ i, stOf s i = some .idle → i ∉ s.wire := by
  induction hr with
  | init calls p b _ =>
    intro i _
    have : (init calls p b).wire = [] := by unfold init; split <;> simp
    rw [this]; simp
  | step l hr hs ih => exact idle_not_on_wire_step hs hr.invC ih

/-- **done_ctx_never_sent.** After a call returned at its first statement because its context was
    already done, no continuation of the run (any steps of any goroutine) ever hands it to a writer. -/
theorem done_ctx_never_sent {fix : Bool} {s s1 : St} (hr : Reachable fix s) {i : Nat}
    (hst : stOf s i = some .idle) (hd : ctxDoneOf s i = true) (h1 : step fix s (.enter i) = some s1)
    (ls : List Label) (s2 : St) (h2 : run fix s1 ls = some s2) : i ∉ s2.wire ∧ stOf s2 i = some .done := by
  obtain ⟨s1', hs1, _, hdone, _, hwire, _⟩ := done_ctx_sends_nothing (fix := fix) hst hd
  rw [h1] at hs1; injection hs1 with hs1; subst hs1
  have hr1 : Reachable fix s1 := .step _ hr h1
  have hnw : i ∉ s1.wire := by rw [hwire]; exact idle_not_on_wire hr i hst
  have key : ∀ (ls : List Label) (s1 : St), Reachable fix s1 → stOf s1 i = some .done → i ∉ s1.wire →
      ∀ s2, run fix s1 ls = some s2 → i ∉ s2.wire ∧ stOf s2 i = some .done := by
    intro ls
    induction ls with
    | nil => intro s1 _ hdone hnw s2 h2; simp only [run] at h2; injection h2 with h2; subst h2; exact ⟨hnw, hdone⟩
    | cons l ls ih =>
      intro s1 hr1 hdone hnw s2 h2
      simp only [run] at h2
      cases hs : step fix s1 l with
      | none => rw [hs] at h2; cases h2
      | some s' =>
        rw [hs] at h2
        refine ih s' (.step _ hr1 hs) (done_absorbing hs hdone) ?_ s2 h2
        intro hw
        rcases wire_only_live hs hr1.invC hw hnw with ⟨w, hx⟩ | hx | hx <;> rw [hdone] at hx <;> cases hx
  exact key ls s1 hr1 hdone hnw s2 h2

/-- a label of another goroutine or caller -/
def foreign (i : Nat) (l : Label) : Prop := l.caller ≠ some i

/-- **done_ctx_returns.** A call that waits on its result channel with a done context has its abort
    statement enabled, and that statement returns the context error. Whatever the other goroutines do
    meanwhile (any sequence of foreign steps), the call is still in that position or has been handed a
    result; either way its own next statement is enabled and returns. -/
theorem done_ctx_returns {fix : Bool} {s : St} {i : Nat} (hst : stOf s i = some .waiting) (hd : ctxDoneOf s i = true)
    (ls : List Label) (hf : ∀ l ∈ ls, foreign i l) (s2 : St) (h2 : run fix s ls = some s2) :
    (∃ s3, step fix s2 (.abort i) = some s3 ∧ s3.log = s2.log ++ [(i, .ctx)]) ∨
    (∃ r s3, stOf s2 i = some (.got r false) ∧ step fix s2 (.leave i) = some s3 ∧ s3.log = s2.log ++ [(i, r)]) := by
  -- invariant along the foreign run: waiting with a done context, or holding a result
  have key : ∀ (ls : List Label) (s : St), (∀ l ∈ ls, foreign i l) →
      ((stOf s i = some .waiting ∧ ctxDoneOf s i = true) ∨ ∃ r, stOf s i = some (.got r false)) →
      ∀ s2, run fix s ls = some s2 →
      ((stOf s2 i = some .waiting ∧ ctxDoneOf s2 i = true) ∨ ∃ r, stOf s2 i = some (.got r false)) := by
    intro ls
    induction ls with
    | nil => intro s _ h s2 h2; simp only [run] at h2; injection h2 with h2; subst h2; exact h
    | cons l ls ih =>
      intro s hf h s2 h2
      simp only [run] at h2
      cases hs : step fix s l with
      | none => rw [hs] at h2; cases h2
      | some s' =>
        rw [hs] at h2
        refine ih s' (fun l hl => hf l (by simp [hl])) ?_ s2 h2
        have hfl : l.caller ≠ some i := hf l (by simp)
        have hcaller : ∀ a b, Trans l i a b → False := by
          intro a b ht; apply hfl; cases ht <;> rfl
        rcases h with ⟨hw, hdn⟩ | ⟨r, hg⟩
        · rcases step_change hs i with ⟨h1, _⟩ | ⟨a, b, _, _, ht, _⟩ | ⟨a, b, ha, hb, hdl, _⟩
          · exact Or.inl ⟨by rw [h1]; exact hw, ctxDone_mono hs hdn⟩
          · exact (hcaller a b ht).elim
          · rw [hw] at ha; injection ha with ha; subst ha
            cases hdl with
            | got r => exact Or.inr ⟨r, hb⟩
        · rcases step_change hs i with ⟨h1, _⟩ | ⟨a, b, _, _, ht, _⟩ | ⟨a, b, ha, _, hdl, _⟩
          · exact Or.inr ⟨r, by rw [h1]; exact hg⟩
          · exact (hcaller a b ht).elim
          · rw [hg] at ha; injection ha with ha; subst ha; cases hdl
  rcases key ls s hf (Or.inl ⟨hst, hd⟩) s2 h2 with ⟨hw, hdn⟩ | ⟨r, hg⟩
  · exact Or.inl ⟨{ (setSt i .aborted s2) with log := s2.log ++ [(i, .ctx)] },
      by simp only [step, PipeLife.abort, hw, hdn, if_true], rfl⟩
  · refine Or.inr ⟨r, leaveSt i r s2, hg, ?_, rfl⟩
    simp only [step, PipeLife.leave, hg, Bool.false_and]
    rfl

/-- what the code does NOT promise: a command that is already queued when its context ends is still
    written (the server may execute a cancelled command) — witness run -/
theorem aborted_entry_still_written :
    ∃ s, runNow (init [{ needBg := true, canDone := true }] false)
      [.enter 0, .decide 0, .put 0, .cancel 0, .abort 0, .wTake] = some s ∧
      s.log = [(0, .ctx)] ∧ s.wire = [0] := by
  exact ⟨_, rfl, rfl, rfl⟩

/-- a deadline that fires in the sync path breaks the pipe (the error is latched, the connection closed) -/
theorem sync_deadline_breaks_pipe {fix : Bool} {s s' : St} {i : Nat} (h : step fix s (.syncErr i) = some s') :
    s'.err ≠ none ∧ s'.connUp = false := by
  simp only [step] at h
  unfold syncErr at h; crunch h <;> simp [setSt]

/-! ### (b) progress: every admitted call is resolved -/

/-- every label of the list is internal: no new caller, no environment event, no server reply -/
def allInternal (ls : List Label) : Prop := ∀ l ∈ ls, l.internal = true

theorem reachable_run {fix : Bool} {s : St} (hr : Reachable fix s) (ls : List Label) (s2 : St)
    (h : run fix s ls = some s2) : Reachable fix s2 := by
  induction ls generalizing s with
  | nil => simp only [run] at h; injection h with h; subst h; exact hr
  | cons l ls ih =>
    simp only [run] at h
    cases hs : step fix s l with
    | none => rw [hs] at h; cases h
    | some s1 => rw [hs] at h; exact ih (.step _ hr hs) h

private theorem latched_run {fix : Bool} {s : St} {c k t : Bool} (hl : Latched s c k t) (ls : List Label) (s2 : St)
    (h : run fix s ls = some s2) : Latched s2 c k t := by
  induction ls generalizing s with
  | nil => simp only [run] at h; injection h with h; subst h; exact hl
  | cons l ls ih =>
    simp only [run] at h
    cases hs : step fix s l with
    | none => rw [hs] at h; cases h
    | some s1 => rw [hs] at h; exact ih (latched_step hs hl) h

/-- **no_reachable_deadlock.** The code as it is (repaired tail): in every reachable state in which the
    connection is dead or Close has been called, as long as some call has incremented `waits` and not been
    resolved, some internal step is enabled — a statement of a goroutine of the pipe, of a caller past its
    admission, of Close, or Close's 1 s timer; never a server reply, a new caller or an environment event.
    No hypothesis on `_background`: while it does not exist, a starter does (`starter_exists`). -/
theorem no_reachable_deadlock {s : St} (hr : Reachable true s) (ht : triggered s)
    {i : Nat} {cs : CS} (hst : stOf s i = some cs) (hw : cs.weight = 1) : canMove true s :=
  no_deadlock_fixed hr ht hst hw

/-- the same for either tail once `_background` exists -/
theorem no_reachable_deadlock_with_background {fix : Bool} {s : St} (hr : Reachable fix s) (ht : triggered s)
    (hbg : s.td ≠ .off) {i : Nat} {cs : CS} (hst : stOf s i = some cs) (hw : cs.weight = 1) : canMove fix s :=
  no_deadlock hr ht hbg hst hw

/-- **starter_exists.** The code as it is: while `_background` does not exist and anybody holds `waits`,
    a starter exists — a caller holding wait number 1 that has not passed its tail (`counted 1`, in the
    sync path, or holding its result with `waits == 1 && left != 0 { background() }` still ahead), or Close
    holding wait number 1 before its CAS. -/
theorem starter_exists {s : St} (hr : Reachable true s) (htd : s.td = .off) (hw : 1 ≤ s.waits) : HasStarter s :=
  hr.invJ htd hw

/-- **measure_decreases.** Every step of every goroutine strictly decreases `mu`; a run from `s` has at
    most `mu s` steps. -/
theorem measure_decreases {fix : Bool} {s s' : St} {l : Label} (h : step fix s l = some s') : mu s' < mu s :=
  step_decreases h

theorem runs_are_bounded {fix : Bool} (ls : List Label) (s s' : St) (h : run fix s ls = some s') :
    ls.length ≤ mu s := by
  have := run_bounded ls s s' h; omega

/-- the trigger persists along a run -/
private theorem triggered_run {fix : Bool} {s : St} (ht : triggered s) (ls : List Label) (s2 : St)
    (h : run fix s ls = some s2) : triggered s2 := by
  have hl : Latched s (!s.connUp) (decide (s.close ≠ .idle)) false :=
    ⟨fun h => by simpa using h, fun h => by simpa using h, fun h => by cases h⟩
  have hl2 := latched_run hl ls s2 h
  rcases ht with h1 | h1
  · exact Or.inl (hl2.c (by simp [h1]))
  · exact Or.inr (hl2.k (by simpa using h1))

/-- **every_admitted_call_resolves.** The code as it is (repaired tail), full strength: from every reachable
    state in which the connection is dead or Close has been called, every run of steps has at most `mu s`
    steps, and whenever nothing internal is enabled at its end (in particular: at the end of every maximal
    run of internal steps) every call that had started is resolved — it is `done` (returned exactly once,
    see `reply_exactly_once`) and holds no unit of `waits`. -/
theorem every_admitted_call_resolves {s : St} (hr : Reachable true s) (ht : triggered s)
    (ls : List Label) (s2 : St) (h : run true s ls = some s2) (hmax : ¬ canMove true s2) :
    ls.length ≤ mu s ∧ ∀ i cs, stOf s2 i = some cs → cs = .idle ∨ cs = .done := by
  refine ⟨runs_are_bounded ls s s2 h, ?_⟩
  intro i cs hst
  have hr2 := reachable_run hr ls s2 h
  have ht2 := triggered_run ht ls s2 h
  by_cases hw : cs.weight = 1
  · exact absurd (no_deadlock_fixed hr2 ht2 hst hw) hmax
  · cases cs <;> simp_all [CS.weight]

/-- for either tail, once `_background` exists (this is all that holds for the tail before eac8ecc) -/
theorem resolves_once_background_started {fix : Bool} {s : St} (hr : Reachable fix s) (ht : triggered s)
    (hbg : s.td ≠ .off) (ls : List Label) (s2 : St) (h : run fix s ls = some s2)
    (hmax : ¬ canMove fix s2) :
    ls.length ≤ mu s ∧ ∀ i cs, stOf s2 i = some cs → cs = .idle ∨ cs = .done := by
  refine ⟨runs_are_bounded ls s s2 h, ?_⟩
  intro i cs hst
  have hr2 := reachable_run hr ls s2 h
  have hl : Latched s false false true := ⟨fun h => (by cases h), fun h => (by cases h), fun _ => hbg⟩
  have hl2 := latched_run hl ls s2 h
  have ht2 := triggered_run ht ls s2 h
  by_cases hw : cs.weight = 1
  · exact absurd (no_deadlock hr2 ht2 (hl2.t rfl) hst hw) hmax
  · cases cs <;> simp_all [CS.weight]

/-- how a stuck state looks (any `fix`): `_background` was never started and Close is not running -/
theorem stuck_only_without_background {fix : Bool} {s : St} (hr : Reachable fix s) (ht : triggered s)
    (hstuck : ¬ canMove fix s) {i : Nat} {cs : CS} (hst : stOf s i = some cs) (hw : cs.weight = 1) :
    s.td = .off ∧ (s.close = .done ∨ s.close = .idle) ∧
      ∀ j cj, stOf s j = some cj → cj.weight = 1 → cj = .waiting ∨ cj = .aborted :=
  stuck_shape hr ht hstuck hst hw

/-! ### the race that stranded a queued call before fix eac8ecc -/

/-- caller 0 has incremented `waits` (it holds number 1) but not loaded `state` yet; caller 1 queues
    behind it; Close stores 2; caller 0 now reads 2 and is rejected. Before eac8ecc its tail
    `state == 0 && left != 0` did not start `_background` (Close's own `waits == 1` test fails as well);
    the repaired tail `waits == 1 && left != 0` does. -/
def raceCalls : List Call := [{}, {}]
def raceRun : List Label :=
  [.enter 0, .enter 1, .decide 1, .closeEnter .closing, .closeCas, .decide 0, .leave 0, .put 1,
   .closePing, .closeGrace, .closeTail]

private theorem race_state :
    runBefore_eac8ecc (init raceCalls false) raceRun = some
      { state := 2, waits := 2, err := some .closing, connUp := false,
        queue := [{ owner := .call 1 }, { owner := .closePing }],
        calls := [{ st := .done }, { st := .waiting }], close := .done, cpOwed := true,
        log := [(0, .closing)] } := by
  rfl

/-- **close_race_strands_call.** For the tail before eac8ecc (`stepBefore_eac8ecc`) the progress statement
    is false: there is a reachable state after Close returned in which call 1 waits on its result channel,
    `_background` does not exist and no internal step is enabled — the call hangs (with a context that is
    never done) and Close's PING helper goroutine leaks. Reproduced on the real pre-fix pipe with the
    scheduling hook; the `pipelife` suite replays this schedule on the real pipe on every run. -/
theorem close_race_strands_call :
    ∃ s, runBefore_eac8ecc (init raceCalls false) raceRun = some s ∧ triggered s ∧ stOf s 1 = some .waiting ∧
      s.td = .off ∧ s.close = .done ∧ ¬ canMove false s := by
  refine ⟨_, race_state, Or.inl rfl, rfl, rfl, rfl, ?_⟩
  intro ⟨l, s', hi, hs⟩
  cases l <;> simp only [Label.internal] at hi <;> simp only [step] at hs
  case decide i =>
    rcases i with _ | _ | i <;> simp [PipeLife.decide, stOf] at hs
  case put i =>
    rcases i with _ | _ | i <;> simp [PipeLife.put, stOf] at hs
  case syncErr i =>
    rcases i with _ | _ | i <;> simp [PipeLife.syncErr, stOf] at hs
  case leave i =>
    rcases i with _ | _ | i <;> simp [PipeLife.leave, stOf] at hs
  case abort i =>
    rcases i with _ | _ | i <;> simp [PipeLife.abort, stOf, ctxDoneOf] at hs
  all_goals (first | (exact absurd hi (by decide)) | (simp [wTake, wFlush, rErr, tdSpawn, bgPingPut, tdIter, tdClose, closeCas, closePing, closeGot, closeGrace, closeTail] at hs))

private theorem race_state_now :
    runNow (init raceCalls false) raceRun = some
      { state := 2, waits := 2, err := some .closing, connUp := false,
        queue := [{ owner := .call 1 }, { owner := .closePing }],
        calls := [{ st := .done }, { st := .waiting }], td := .reading, writer := .run false,
        close := .done, cpOwed := true, log := [(0, .closing)] } := by
  rfl

/-- **close_race_resolved_when_fixed.** Corollary of `every_admitted_call_resolves` for the code as it is:
    the same schedule ends in a state where caller 0's tail has started `_background`; from there every
    run that ends with nothing internal enabled has resolved call 1, within the measure; and the concrete
    continuation (writer, reader error, drain) reaches state 4 with `waits = 0` and both calls returned. -/
theorem close_race_resolved_when_fixed :
    ∃ s, runNow (init raceCalls false) raceRun = some s ∧ s.td ≠ .off ∧
      (∀ ls s2, run true s ls = some s2 → ¬ canMove true s2 →
        ls.length ≤ mu s ∧ ∀ i cs, stOf s2 i = some cs → cs = .idle ∨ cs = .done) ∧
      (∃ s4, run true s [.wTake, .wTake, .wFlush, .rErr, .tdSpawn, .tdIter, .leave 1, .tdIter, .tdIter, .tdClose] = some s4 ∧
        s4.state = 4 ∧ s4.waits = 0 ∧ s4.log = [(0, .closing), (1, .closing)] ∧ s4.queue = []) := by
  refine ⟨_, race_state_now, by decide, ?_, ⟨_, rfl, rfl, rfl, rfl, rfl⟩⟩
  intro ls s2 h hmax
  have hr : Reachable true _ :=
    reachable_run (.init raceCalls false true (by decide)) raceRun _ race_state_now
  exact every_admitted_call_resolves hr (Or.inl rfl) ls s2 h hmax

/-! ### non-vacuity: a concrete life with three callers that ends in state 4 -/

def exCalls : List Call := [{}, {}, { needBg := true, canDone := true }]

/-- caller 0 takes the sync path, callers 1 and 2 queue behind it; 0 gets its reply and starts
    `_background`; the writer writes 1 and 2; caller 2 is cancelled; the connection dies; the reader's
    error latches, the drain completes 1 (transport error) and the orphaned entry of 2; state 4. -/
def exRun : List Label :=
  [.enter 0, .decide 0, .enter 1, .decide 1, .put 1, .enter 2, .decide 2, .put 2, .syncOk 0, .leave 0,
   .wTake, .wTake, .cancel 2, .abort 2, .connBreak,
   .wFlush, .rErr, .tdSpawn, .tdIter, .leave 1, .tdIter, .tdIter, .tdClose]

example : ∃ s, runNow (init exCalls false) exRun = some s ∧ s.state = 4 ∧ s.waits = 0 ∧ s.queue = [] ∧
    s.log = [(0, .reply), (2, .ctx), (1, .transport)] ∧ s.wire = [0, 1, 2] ∧
    s.calls.map (·.st) = [.done, .done, .done] := ⟨_, rfl, rfl, rfl, rfl, rfl, rfl, rfl⟩

theorem ex_reachable : ∀ s, runNow (init exCalls false) exRun = some s → Reachable true s := fun s h =>
  reachable_run (.init exCalls false true (by decide)) exRun s h

/-- the hypotheses of the progress theorem are satisfiable: the state after `connBreak` in the run above -/
example : ∃ s, runNow (init exCalls false) (exRun.take 15) = some s ∧ triggered s ∧ s.td ≠ .off ∧
    stOf s 1 = some .waiting := ⟨_, rfl, Or.inl rfl, by decide, rfl⟩

/-- Close with a stalled server: the PING waits behind the pending command, the 1 s timer fires,
    Close closes the connection, the drain hands ErrClosing to the pending call -/
example : ∃ s, runNow (init [{ needBg := true }] false)
    [.enter 0, .decide 0, .put 0, .wTake, .wFlush, .closeEnter .closing, .closeCas, .closePing, .wTake, .wFlush,
     .closeGrace, .closeTail, .rErr, .tdSpawn, .bgPingPut, .wTake, .wFlush, .tdIter, .leave 0, .tdIter, .tdIter,
     .tdIter, .tdClose] = some s ∧
    s.state = 4 ∧ s.log = [(0, .closing)] ∧ s.waits = 0 := ⟨_, rfl, rfl, rfl, rfl⟩

end Rv.C04.Life
