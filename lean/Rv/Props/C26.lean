import Rv.Model.Subs
/-!
C26 — Pub/Sub delivers exactly the subscribed messages in order.
All theorems are for every op sequence on the subscription table (every history of
Subscribe / Publish / Confirm / Unsubscribe / cancel / Close).
-/
namespace Rv.C26
open Rv.Subs

/-! ### specification, per subscription -/

/-- messages one op must put into a live subscription with channel list `chans` -/
def deliver1 (chans : List String) : Op → List Msg
  | .publish ch m => if chans.contains ch then [m] else []
  | _ => []

/-- does the op end the subscription (id, chans) -/
def ends (id : Nat) (chans : List String) : Op → Bool
  | .unsubscribe n => chans.contains n.channel
  | .cancel i => i == id
  | .close => true
  | _ => false

/-- everything a subscription must receive from the ops that follow its creation: every
    message published under one of its channels, once, in order, until it ends -/
def expect (id : Nat) (chans : List String) : List Op → List Msg
  | [] => []
  | op :: r => deliver1 chans op ++ (if ends id chans op then [] else expect id chans r)

/-! ### invariant -/

structure Inv (t : Table) : Prop where
  live : ∀ s ∈ t.subs, s.active = true → t.live = true ∧ t.cnt ≠ 0
  closes : ∀ s ∈ t.subs, (s.active = true → s.closes = 0) ∧ s.closes ≤ 1

private theorem inv_empty : Inv {} := ⟨by simp, by simp⟩

private theorem inv_step (t : Table) (h : Inv t) (op : Op) : Inv (step t op) := by
  have hl := h.live
  have hc := h.closes
  cases op with
  | subscribe chans fn =>
    simp only [step]
    split
    · rename_i hlive
      constructor
      · intro s hs _
        exact ⟨hlive, by simp⟩
      · intro s hs
        simp only [List.mem_append, List.mem_singleton] at hs
        rcases hs with hs | hs
        · exact hc s hs
        · subst hs; simp
    · exact ⟨fun s hs ha => ⟨((hl s hs ha).1), by simp⟩, hc⟩
  | publish ch m =>
    simp only [step]
    split
    · constructor
      · intro s hs ha
        simp only [upd, List.mem_map] at hs
        obtain ⟨s0, hs0, rfl⟩ := hs
        split at ha <;> exact hl s0 hs0 (by simp_all)
      · intro s hs
        simp only [upd, List.mem_map] at hs
        obtain ⟨s0, hs0, rfl⟩ := hs
        split <;> exact hc s0 hs0
    · exact h
  | confirm n =>
    simp only [step]
    split
    · constructor
      · intro s hs ha
        simp only [upd, List.mem_map] at hs
        obtain ⟨s0, hs0, rfl⟩ := hs
        split at ha <;> exact hl s0 hs0 (by simp_all)
      · intro s hs
        simp only [upd, List.mem_map] at hs
        obtain ⟨s0, hs0, rfl⟩ := hs
        split <;> exact hc s0 hs0
    · exact h
  | unsubscribe n =>
    simp only [step]
    split
    · constructor
      · intro s hs ha
        simp only [upd, List.mem_map] at hs
        obtain ⟨s0, hs0, rfl⟩ := hs
        split at ha
        · split at ha <;> simp [Sub.remove] at ha
        · exact hl s0 hs0 ha
      · intro s hs
        simp only [upd, List.mem_map] at hs
        obtain ⟨s0, hs0, rfl⟩ := hs
        split
        · rename_i hcond
          have h0 := (hc s0 hs0).1 (by simp_all)
          split <;> simp [Sub.remove, h0]
        · exact hc s0 hs0
    · exact h
  | cancel id =>
    simp only [step]
    split
    · constructor
      · intro s hs ha
        simp only [upd, List.mem_map] at hs
        obtain ⟨s0, hs0, rfl⟩ := hs
        split at ha
        · simp [Sub.remove] at ha
        · exact hl s0 hs0 ha
      · intro s hs
        simp only [upd, List.mem_map] at hs
        obtain ⟨s0, hs0, rfl⟩ := hs
        split
        · have h0 := (hc s0 hs0).1 (by simp_all)
          simp [Sub.remove, h0]
        · exact hc s0 hs0
    · exact h
  | close =>
    simp only [step]
    constructor
    · intro s hs ha
      simp only [upd, List.mem_map] at hs
      obtain ⟨s0, hs0, rfl⟩ := hs
      split at ha
      · simp [Sub.remove] at ha
      · simp_all
    · intro s hs
      simp only [upd, List.mem_map] at hs
      obtain ⟨s0, hs0, rfl⟩ := hs
      split
      · have h0 := (hc s0 hs0).1 (by simp_all)
        simp [Sub.remove, h0]
      · exact hc s0 hs0

private theorem inv_run (t : Table) (h : Inv t) (ops : List Op) : Inv (run t ops) := by
  induction ops generalizing t with
  | nil => exact h
  | cons op r ih => exact ih _ (inv_step t h op)

/-! ### one step, seen from one subscription (by position in the table) -/

private theorem step_at (t : Table) (h : Inv t) (op : Op) (i : Nat) (s : Sub) (hs : t.subs[i]? = some s) :
    ∃ s', (step t op).subs[i]? = some s' ∧ s'.id = s.id ∧ s'.chans = s.chans ∧
      s'.buf = s.buf ++ (if s.active then deliver1 s.chans op else []) ∧
      s'.active = (s.active && !ends s.id s.chans op) := by
  have hmem : s ∈ t.subs := List.mem_of_getElem? hs
  have hlt : i < t.subs.length := by
    rcases Nat.lt_or_ge i t.subs.length with h1 | h1
    · exact h1
    · simp [List.getElem?_eq_none h1] at hs
  cases op with
  | subscribe chans fn =>
    refine ⟨s, ?_, rfl, rfl, by simp [deliver1], by simp [ends]⟩
    simp only [step]
    split
    · simp [List.getElem?_append_left hlt, hs]
    · exact hs
  | publish ch m =>
    by_cases ha : s.active = true
    · have hcnt := (h.live s hmem ha).2
      by_cases hc : ch ∈ s.chans
      · exact ⟨{ s with buf := s.buf ++ [m] }, by simp [step, hcnt, upd, hs, ha, hc], rfl, rfl, by simp [deliver1, ha, hc], by simp [ends, ha]⟩
      · exact ⟨s, by simp [step, hcnt, upd, hs, ha, hc], rfl, rfl, by simp [deliver1, hc], by simp [ends]⟩
    · refine ⟨s, ?_, rfl, rfl, by simp [ha], by simp [ends]⟩
      simp only [step]
      split <;> simp [upd, hs, ha]
  | confirm n =>
    refine ⟨if s.active && s.chans.contains n.channel && s.hasFn then { s with notes := s.notes ++ [n] } else s, ?_, ?_, ?_, ?_, ?_⟩
    · simp only [step]
      split
      · simp [upd, hs]
      · rename_i hcnt
        by_cases ha : s.active = true
        · exact absurd (by simpa using hcnt) (h.live s hmem ha).2
        · simp [hs, ha]
    all_goals (split <;> simp [deliver1, ends])
  | unsubscribe n =>
    by_cases ha : s.active = true
    · have hcnt := (h.live s hmem ha).2
      by_cases hc : n.channel ∈ s.chans
      · refine ⟨(if s.hasFn then { s with notes := s.notes ++ [n] } else s).remove, by simp [step, hcnt, upd, hs, ha, hc], ?_, ?_, ?_, ?_⟩
        all_goals (split <;> simp [Sub.remove, deliver1, ends, ha, hc])
      · exact ⟨s, by simp [step, hcnt, upd, hs, ha, hc], rfl, rfl, by simp [deliver1], by simp [ends, hc]⟩
    · refine ⟨s, ?_, rfl, rfl, by simp [ha], by simp [ha]⟩
      simp only [step]
      split <;> simp [upd, hs, ha]
  | cancel id =>
    by_cases ha : s.active = true
    · have hlive := (h.live s hmem ha).1
      by_cases hc : s.id = id
      · subst hc
        exact ⟨s.remove, by simp [step, hlive, upd, hs, ha], rfl, rfl, by simp [Sub.remove, deliver1], by simp [Sub.remove, ends]⟩
      · have h1 : (s.id == id) = false := by simpa using hc
        have h2 : (id == s.id) = false := by
          simp only [beq_eq_false_iff_ne, ne_eq]
          exact fun h => hc h.symm
        exact ⟨s, by simp [step, hlive, upd, hs, ha, hc], rfl, rfl, by simp [deliver1], by simp [ends, h2]⟩
    · refine ⟨s, ?_, rfl, rfl, by simp [ha], by simp [ha]⟩
      simp only [step]
      split <;> simp [upd, hs, ha]
  | close =>
    by_cases ha : s.active = true
    · exact ⟨s.remove, by simp [step, upd, hs, ha], rfl, rfl, by simp [Sub.remove, deliver1], by simp [Sub.remove, ends]⟩
    · exact ⟨s, by simp [step, upd, hs, ha], rfl, rfl, by simp [ha], by simp [ha]⟩

/-- **exactly_once_in_order.** For every table reached from the empty one, every subscription in it
    and every continuation `ops`: what ends up in the subscription's channel is what was there plus
    exactly the messages published under one of its channels until it ends (`expect`): each once,
    in publish order; a subscription that already ended receives nothing more. -/
theorem exactly_once_in_order (t : Table) (h : Inv t) (ops : List Op) (i : Nat) (s : Sub) (hs : t.subs[i]? = some s) :
    ∃ s', (run t ops).subs[i]? = some s' ∧ s'.id = s.id ∧ s'.chans = s.chans ∧
      s'.buf = s.buf ++ (if s.active then expect s.id s.chans ops else []) := by
  induction ops generalizing t s with
  | nil => exact ⟨s, hs, rfl, rfl, by simp [expect]⟩
  | cons op r ih =>
    obtain ⟨s1, h1, hid, hch, hbuf, hact⟩ := step_at t h op i s hs
    obtain ⟨s2, h2, hid2, hch2, hbuf2⟩ := ih (step t op) (inv_step t h op) s1 h1
    refine ⟨s2, h2, hid2.trans hid, hch2.trans hch, ?_⟩
    rw [hbuf2, hbuf, hact, hid, hch]
    cases ha : s.active <;> cases he : ends s.id s.chans op <;> simp [expect, he]

/-- the table reached by any history satisfies the invariant -/
theorem reachable_inv (ops : List Op) : Inv (run {} ops) := inv_run {} inv_empty ops

/-- a new subscription (made while the table is alive) starts empty and then receives exactly
    `expect` of what follows -/
theorem new_subscription_receives (pre ops : List Op) (chans : List String) (fn : Bool)
    (hlive : (run {} pre).live = true) :
    let t := run {} pre
    ∃ s', (run (step t (.subscribe chans fn)) ops).subs[t.subs.length]? = some s' ∧
      s'.chans = chans ∧ s'.buf = expect (t.cnt + 1) chans ops := by
  intro t
  have hinv := inv_step t (reachable_inv pre) (.subscribe chans fn)
  have hget : (step t (.subscribe chans fn)).subs[t.subs.length]? =
      some { id := t.cnt + 1, chans := chans, hasFn := fn } := by
    simp [step, hlive, t]
  obtain ⟨s', h1, _, h3, h4⟩ := exactly_once_in_order _ hinv ops _ _ hget
  exact ⟨s', h1, h3, by simpa using h4⟩

/-! ### subscription ids -/

/-- ids in the table are pairwise distinct and never exceed the counter -/
structure IdInv (t : Table) : Prop where
  distinct : t.subs.Pairwise (fun a b => a.id ≠ b.id)
  bound : ∀ s ∈ t.subs, s.id ≤ t.cnt

private theorem map_keeps_ids (l : List Sub) (f : Sub → Sub) (hf : ∀ s, (f s).id = s.id) :
    (l.map f).map (·.id) = l.map (·.id) := by
  induction l with
  | nil => rfl
  | cons a r ih => simp [hf, ih]

private theorem pairwise_of_ids (l l' : List Sub) (h : l'.map (·.id) = l.map (·.id))
    (hp : l.Pairwise (fun a b => a.id ≠ b.id)) : l'.Pairwise (fun a b => a.id ≠ b.id) := by
  have h1 : (l.map (·.id)).Pairwise (· ≠ ·) := by simpa [List.pairwise_map] using hp
  rw [← h] at h1
  simpa [List.pairwise_map] using h1

private theorem idinv_upd (t : Table) (h : IdInv t) (f : Sub → Sub) (hf : ∀ s, (f s).id = s.id) : IdInv (upd t f) := by
  constructor
  · exact pairwise_of_ids t.subs _ (map_keeps_ids t.subs f hf) h.distinct
  · intro s hs
    simp only [upd, List.mem_map] at hs
    obtain ⟨s0, hs0, rfl⟩ := hs
    rw [hf]; exact h.bound s0 hs0

private theorem idinv_step (t : Table) (h : IdInv t) (op : Op) : IdInv (step t op) := by
  cases op with
  | subscribe chans fn =>
    simp only [step]
    split
    · constructor
      · simp only [List.pairwise_append, List.pairwise_cons, List.Pairwise.nil, List.mem_singleton]
        refine ⟨h.distinct, ⟨by simp, trivial⟩, ?_⟩
        intro a ha b hb
        subst hb
        have := h.bound a ha
        show a.id ≠ t.cnt + 1
        omega
      · intro s hs
        simp only [List.mem_append, List.mem_singleton] at hs
        rcases hs with hs | hs
        · have := h.bound s hs; show s.id ≤ t.cnt + 1; omega
        · subst hs; exact Nat.le_refl _
    · exact ⟨h.distinct, fun s hs => Nat.le_succ_of_le (h.bound s hs)⟩
  | publish ch m =>
    simp only [step]; split
    · exact idinv_upd t h _ (fun s => by split <;> rfl)
    · exact h
  | confirm n =>
    simp only [step]; split
    · exact idinv_upd t h _ (fun s => by split <;> rfl)
    · exact h
  | unsubscribe n =>
    simp only [step]; split
    · exact idinv_upd t h _ (fun s => by
        split
        · split <;> rfl
        · rfl)
    · exact h
  | cancel id =>
    simp only [step]; split
    · exact idinv_upd t h _ (fun s => by split <;> rfl)
    · exact h
  | close =>
    simp only [step]
    have := idinv_upd t h (fun s => if s.active then s.remove else s) (fun s => by split <;> rfl)
    exact ⟨this.distinct, this.bound⟩

/-- **live_ids_distinct.** For every op sequence, the ids `Subscribe` handed out are pairwise
    distinct (among live subscriptions, and even among all subscriptions ever made): the counter
    that generates them is never moved back, whatever ends in between. -/
theorem live_ids_distinct (ops : List Op) : (run {} ops).subs.Pairwise (fun a b => a.id ≠ b.id) := by
  have : ∀ (t : Table), IdInv t → IdInv (run t ops) := by
    induction ops with
    | nil => exact fun _ h => h
    | cons op r ih => exact fun t h => ih _ (idinv_step t h op)
  exact (this {} ⟨by simp, by simp⟩).distinct

/-- **remove_only_affects_own_subscription.** Ending one subscription through its cancel func
    changes that subscription only: every other entry of the table (other id) is left exactly as it
    was — same channels, same buffer, still open if it was. -/
theorem remove_only_affects_own_subscription (t : Table) (id i : Nat) (s : Sub) (hs : t.subs[i]? = some s)
    (hne : s.id ≠ id) : (step t (.cancel id)).subs[i]? = some s := by
  simp only [step]
  split
  · simp [upd, hs, hne]
  · exact hs

/-- and an unsubscribe notification ends exactly the live subscriptions that list its channel -/
theorem unsubscribe_only_affects_listed (t : Table) (n : Note) (i : Nat) (s : Sub) (hs : t.subs[i]? = some s)
    (hne : n.channel ∉ s.chans) : (step t (.unsubscribe n)).subs[i]? = some s := by
  simp only [step]
  split
  · simp [upd, hs, hne]
  · exact hs

/-- **no_foreign_messages.** Everything a subscription receives was published under one of its
    own channels (patterns / shard channels). -/
theorem no_foreign_messages (id : Nat) (chans : List String) (ops : List Op) (m : Msg) (hm : m ∈ expect id chans ops) :
    ∃ ch, Op.publish ch m ∈ ops ∧ chans.contains ch = true := by
  induction ops with
  | nil => simp [expect] at hm
  | cons op r ih =>
    simp only [expect, List.mem_append] at hm
    rcases hm with hm | hm
    · cases op with
      | publish ch m' =>
        simp only [deliver1] at hm
        split at hm
        · simp at hm; subst hm; exact ⟨ch, by simp, by assumption⟩
        · simp at hm
      | _ => simp [deliver1] at hm
    · split at hm
      · simp at hm
      · obtain ⟨ch, h1, h2⟩ := ih hm
        exact ⟨ch, List.mem_cons_of_mem _ h1, h2⟩

/-- no channel of a subscription is ever closed twice (a second close would be a Go panic), and
    an active subscription's channel is open -/
theorem closed_at_most_once (ops : List Op) (s : Sub) (hs : s ∈ (run {} ops).subs) :
    s.closes ≤ 1 ∧ (s.active = true → s.closes = 0) :=
  ⟨((reachable_inv ops).closes s hs).2, ((reachable_inv ops).closes s hs).1⟩

/-! ### Receive's return value -/

/-- **unsubscribe_returns_nil.** An unsubscribe notification for one of the subscription's channels
    closes its channel (so Receive's loop ends after draining what was delivered), and with a
    healthy pipe Receive then returns nil. -/
theorem unsubscribe_returns_nil (t : Table) (h : Inv t) (n : Note) (i : Nat) (s : Sub) (hs : t.subs[i]? = some s)
    (ha : s.active = true) (hc0 : s.chans.contains n.channel = true) :
    (∃ s', (step t (.unsubscribe n)).subs[i]? = some s' ∧ s'.active = false ∧ s'.closes = 1 ∧ s'.buf = s.buf) ∧
    receiveResult .chClosed none = .nil := by
  have hc : n.channel ∈ s.chans := by simpa using hc0
  have hmem : s ∈ t.subs := List.mem_of_getElem? hs
  have hcnt := (h.live s hmem ha).2
  have h0 := (h.closes s hmem).1 ha
  refine ⟨⟨(if s.hasFn then { s with notes := s.notes ++ [n] } else s).remove, by simp [step, hcnt, upd, hs, ha, hc], ?_, ?_, ?_⟩, rfl⟩
  all_goals (split <;> simp [Sub.remove, h0])

/-- **close_returns_errclosing.** Close (and the cleanup after a disconnect) closes the channel of
    every live subscription exactly once; Receive then returns the pipe's error: ErrClosing after
    Close, the transport error after a disconnect. A cancelled context gives the context's error. -/
theorem close_returns_errclosing (t : Table) (h : Inv t) (i : Nat) (s : Sub) (hs : t.subs[i]? = some s) (ha : s.active = true) :
    (∃ s', (step t .close).subs[i]? = some s' ∧ s'.active = false ∧ s'.closes = 1) ∧
    (∀ e, receiveResult .chClosed (some e) = .pipe e) ∧ (∀ pe, receiveResult .ctxDone pe = .ctx) := by
  have hmem : s ∈ t.subs := List.mem_of_getElem? hs
  have h0 := (h.closes s hmem).1 ha
  exact ⟨⟨s.remove, by simp [step, upd, hs, ha], by simp [Sub.remove], by simp [Sub.remove, h0]⟩, fun _ => rfl, fun _ => rfl⟩

/-- **receive_exit_unregisters.** Whatever way a Receive call ends — the SUBSCRIBE command failed
    (error reply, cancelled context), the channel was closed, the context ended — and whatever
    happened on the connection meanwhile, no subscription registered by that call is left active in
    the table afterwards. So nothing can be sent into a channel nobody reads any more
    (`exactly_once_in_order`: an inactive subscription receives nothing), the reader cannot block
    on it, and its OnSubscription hook is not called again. -/
theorem receive_exit_unregisters (t : Table) (h : Inv t) (chans : List String) (fn : Bool) (during : List Op) (e : End) :
    ∀ s ∈ (receiveCall t chans fn during e).subs, s.id = t.cnt + 1 → s.active = false := by
  intro s hs hid
  have hinv : Inv (run (step t (.subscribe chans fn)) during) := inv_run _ (inv_step t h _) during
  unfold receiveCall at hs
  generalize run (step t (.subscribe chans fn)) during = t2 at hs hinv
  simp only [step] at hs
  split at hs
  · simp only [upd, List.mem_map] at hs
    obtain ⟨s0, hs0, rfl⟩ := hs
    by_cases ha : s0.active = true
    · have hid0 : s0.id = t.cnt + 1 := by
        split at hid <;> simpa [Sub.remove] using hid
      simp [ha, hid0, Sub.remove]
    · simp [ha] at hid ⊢
  · rename_i hlive
    cases ha : s.active
    · rfl
    · exact absurd (hinv.live s hs ha).1 hlive

/-! ### the channel returned by SetPubSubHooks -/

structure HookInv (s : HookSt) : Prop where
  done : ∀ c ∈ s.done, c.closes = 1 ∧ c.errs.length ≤ 1 ∧ c.sendAfterClose = false
  cur : ∀ c, s.cur = some c → c = {}

private theorem hook_inv_step (s : HookSt) (h : HookInv s) (op : HookOp) : HookInv (hookStep s op) := by
  cases op with
  | swapNew =>
    constructor
    · intro c hc
      simp only [hookStep, List.mem_append] at hc
      rcases hc with hc | hc
      · exact h.done c hc
      · cases hcur : s.cur with
        | none => simp [hcur] at hc
        | some c0 =>
          simp [hcur] at hc
          have := h.cur c0 hcur
          subst this; subst hc
          simp [HookCh.finish]
    · intro c hc
      simp [hookStep] at hc
      exact hc.symm
  | swapEmpty err =>
    cases hcur : s.cur with
    | none => simpa [hookStep, hcur] using h
    | some c0 =>
      have := h.cur c0 hcur
      subst this
      constructor
      · intro c hc
        simp only [hookStep, hcur, List.mem_append, List.mem_singleton] at hc
        rcases hc with hc | hc
        · exact h.done c hc
        · subst hc
          cases err <;> simp [HookCh.finish]
      · intro c hc
        simp [hookStep, hcur] at hc

/-- **hook_channels_closed_once_at_most_one_error.** For every sequence of SetPubSubHooks calls
    (non-zero / zero hooks) and disconnect clean-ups, taken at the granularity of the atomic swaps:
    every channel that left the slot was closed exactly once, carries at most one error, and the
    error was sent before the close; the channel in the slot is open and empty. -/
theorem hook_channels_closed_once_at_most_one_error (ops : List HookOp) :
    let s := ops.foldl hookStep {}
    (∀ c ∈ s.done, c.closes = 1 ∧ c.errs.length ≤ 1 ∧ c.sendAfterClose = false) ∧
    (∀ c, s.cur = some c → c.closes = 0 ∧ c.errs = []) := by
  have : ∀ (s : HookSt), HookInv s → HookInv (ops.foldl hookStep s) := by
    induction ops with
    | nil => exact fun _ h => h
    | cons op r ih => exact fun s h => ih _ (hook_inv_step s h op)
  have h := this {} ⟨by simp, by simp⟩
  exact ⟨h.done, fun c hc => by rw [h.cur c hc]; exact ⟨rfl, rfl⟩⟩

/-- SetPubSubHooks on a connection that already failed (`p.Error() != nil`) is the two swaps
    `swapNew; swapEmpty (some err)`: the freshly handed-out channel gets the error, is closed, and is
    taken OUT of the slot again — the slot is empty afterwards, so a later call (or the clean-up of
    `_background`) finds nothing it could close or send to a second time. -/
theorem sethooks_on_failed_pipe_empties_slot (s : HookSt) (e : String) :
    let s' := hookStep (hookStep s .swapNew) (.swapEmpty (some e))
    s'.cur = none ∧ s'.done.getLast? = some { errs := [e], closes := 1, sendAfterClose := false } := by
  simp [hookStep, HookCh.finish]

/-! ### non-vacuity -/

example : ((run {} [.subscribe ["a"] false, .subscribe ["a", "b"] false, .publish "a" ⟨"", "a", "1"⟩, .publish "b" ⟨"", "b", "2"⟩,
    .unsubscribe ⟨"unsubscribe", "a", 0⟩, .publish "b" ⟨"", "b", "3"⟩]).subs.map (·.buf.map (·.message))) = [["1"], ["1", "2"]] := by decide
example : expect 1 ["a"] [.publish "a" ⟨"", "a", "1"⟩, .publish "z" ⟨"", "z", "2"⟩, .close, .publish "a" ⟨"", "a", "3"⟩] = [⟨"", "a", "1"⟩] := by decide

end Rv.C26
