/-
C38 — the rate limiter never admits more than the limit per window.

Chain to the source: `rateLimitScript` text regenerated from /repo on every run and pinned
below; `Rv.Limiter.scriptF` is its hand transcription (trusted), `scriptS` the abstraction
without server-side key expiry (`faithful_refines_simple`), `decide_` the Go admission rule;
tied by the `limiter` suite (fake server vs script model, real Check/Allow/AllowN end-to-end
incl. concurrent callers, '!result' lines judged from observed results only).

A history is the list of script executions in the order the server ran them (a script is
atomic, so every interleaving of concurrent callers is such a list). Each call carries its own
caller clock `cur` — no monotonicity is assumed — its `next = cur + window`, its `n ≥ 0` and
its own `limit` (options may differ per call). Hypothesis made explicit: `cur ≤ next`
(window ≥ 0; `NewRateLimiter` enforces window > 0, `WithCustomRateLimit` validates nothing).
-/
import Rv.Gen.LuaScripts
import Rv.Model.Limiter

namespace Rv.C38
open Rv.Limiter

/-! ### 1. pin -/
theorem rate_limit_script_pinned : Rv.Gen.rueidislimiter_rateLimitScript =
  "\nlocal rate_limit_key = KEYS[1]\nlocal increment_amount = tonumber(ARGV[1])\nlocal next_expires_at = tonumber(ARGV[2])\nlocal current_time = tonumber(ARGV[3])\nlocal expires_at_key = KEYS[2]\nlocal expires_at = tonumber(redis.call(\"get\", expires_at_key))\nif not expires_at or expires_at < current_time then\n  redis.call(\"set\", rate_limit_key, 0, \"pxat\", next_expires_at + 1000)\n  redis.call(\"set\", expires_at_key, next_expires_at, \"pxat\", next_expires_at + 1000)\n  expires_at = next_expires_at\nend\nlocal current = redis.call(\"incrby\", rate_limit_key, increment_amount)\nreturn { current, expires_at }\n" := rfl

/-! ### 2. histories over the abstract script state -/

structure Call where
  n : Int
  limit : Int
  next : Int
  cur : Int

/-- what a caller gets back: its own `n`/`limit` and the script reply -/
structure Entry where
  n : Int
  limit : Int
  current : Int
  resetAt : Int

def Entry.result (e : Entry) : Result := decide_ e.n e.limit e.current e.resetAt
def Entry.allowed (e : Entry) : Bool := e.result.allowed

def step (s : Option SSt) (c : Call) : SSt := scriptS c.n c.next c.cur s

/-- run the calls in server order; the log is newest-first -/
def runAcc : Option SSt → List Entry → List Call → List Entry
  | _, log, [] => log
  | s, log, c :: cs =>
    runAcc (some (step s c)) (⟨c.n, c.limit, (step s c).count, (step s c).expiresAt⟩ :: log) cs

def run (cs : List Call) : List Entry := runAcc none [] cs

/-- everything requested so far in the window identified by `E` -/
def reqSum (E : Int) : List Entry → Int
  | [] => 0
  | e :: rest => (if e.resetAt = E then e.n else 0) + reqSum E rest

/-- units admitted (calls with n > 0 that report Allowed) in the window identified by `E` -/
def admSum (E : Int) : List Entry → Int
  | [] => 0
  | e :: rest => (if e.resetAt = E ∧ e.allowed = true ∧ e.n > 0 then e.n else 0) + admSum E rest

/-- every reply's `current` is the sum of everything requested in its window up to and including it -/
def Good : List Entry → Prop
  | [] => True
  | e :: rest => e.current = reqSum e.resetAt (e :: rest) ∧ Good rest

/-- invariant linking the script state with the log so far -/
def Inv (s : Option SSt) (log : List Entry) : Prop :=
  match s with
  | none => log = []
  | some st => (∀ e ∈ log, e.resetAt ≤ st.expiresAt) ∧ st.count = reqSum st.expiresAt log

private theorem reqSum_zero_of_lt (E : Int) : ∀ (log : List Entry), (∀ e ∈ log, e.resetAt < E) → reqSum E log = 0 := by
  intro log
  induction log with
  | nil => intro _; rfl
  | cons e rest ih =>
    intro h
    have he := h e (by simp)
    have : ¬ e.resetAt = E := by omega
    simp [reqSum, this, ih (fun x hx => h x (by simp [hx]))]

private theorem step_inv (s : Option SSt) (log : List Entry) (c : Call) (hI : Inv s log) (hw : c.cur ≤ c.next) :
    Inv (some (step s c)) (⟨c.n, c.limit, (step s c).count, (step s c).expiresAt⟩ :: log) ∧
    (step s c).count = reqSum (step s c).expiresAt (⟨c.n, c.limit, (step s c).count, (step s c).expiresAt⟩ :: log) := by
  cases s with
  | none =>
    simp only [Inv] at hI
    subst hI
    simp [step, scriptS, Inv, reqSum]
  | some st =>
    obtain ⟨hle, hcnt⟩ := hI
    by_cases hx : st.expiresAt < c.cur
    · have hz : reqSum c.next log = 0 := reqSum_zero_of_lt _ _ (fun e he => by have := hle e he; omega)
      simp only [step, scriptS, hx, if_true, Inv, reqSum, hz]
      refine ⟨⟨?_, by simp⟩, by simp⟩
      intro e he
      rcases List.mem_cons.mp he with h | h
      · subst h; exact Int.le_refl _
      · have := hle e h; show e.resetAt ≤ c.next; omega
    · simp only [step, scriptS, hx, if_false, Inv, reqSum, if_true]
      refine ⟨⟨?_, by omega⟩, by omega⟩
      intro e he
      rcases List.mem_cons.mp he with h | h
      · subst h; exact Int.le_refl _
      · exact hle e h

/-- `ResetAtMs` identifies the window the call was counted in: that window has not ended at the
caller's own clock reading — for `Check` (n = 0) as for any other call, whatever the state. -/
theorem reset_at_not_in_past (s : Option SSt) (c : Call) (hw : c.cur ≤ c.next) :
    c.cur ≤ (step s c).expiresAt := by
  cases s with
  | none => simpa [step, scriptS] using hw
  | some st =>
    simp only [step, scriptS]
    split
    · exact hw
    · simp only; omega

/-- … and a call that finds no live window (none, or one that ended before `cur`) is counted in a
fresh one: its counter is exactly its own `n` (for `Check`: 0, so Remaining = limit). -/
theorem fresh_window_counts_from_zero (s : Option SSt) (c : Call)
    (hs : ∀ st, s = some st → st.expiresAt < c.cur) :
    (step s c).count = c.n ∧ (step s c).expiresAt = c.next := by
  cases s with
  | none => simp [step, scriptS]
  | some st => simp [step, scriptS, hs st rfl]

private theorem runAcc_good : ∀ (cs : List Call) (s : Option SSt) (log : List Entry),
    Inv s log → Good log → (∀ c ∈ cs, c.cur ≤ c.next) → Good (runAcc s log cs) := by
  intro cs
  induction cs with
  | nil => intro s log _ hg _; exact hg
  | cons c cs ih =>
    intro s log hI hg hw
    have h := step_inv s log c hI (hw c (by simp))
    exact ih _ _ h.1 ⟨h.2, hg⟩ (fun x hx => hw x (by simp [hx]))

/-- For every history (any interleaving, any caller clocks, any n, any per-call limits) with
`cur ≤ next`: every reply's counter equals the sum of all `n` requested so far in the window
its `ResetAtMs` identifies — so `ResetAtMs` does identify the window the call was counted in. -/
theorem run_good (cs : List Call) (hw : ∀ c ∈ cs, c.cur ≤ c.next) : Good (run cs) :=
  runAcc_good cs none [] rfl trivial hw

private theorem runAcc_n_nonneg : ∀ (cs : List Call) (s : Option SSt) (log : List Entry),
    (∀ e ∈ log, 0 ≤ e.n) → (∀ c ∈ cs, 0 ≤ c.n) → ∀ e ∈ runAcc s log cs, 0 ≤ e.n := by
  intro cs
  induction cs with
  | nil => intro s log h _; exact h
  | cons c cs ih =>
    intro s log h hn
    apply ih
    · intro e he
      rcases List.mem_cons.mp he with h' | h'
      · subst h'; exact hn c (by simp)
      · exact h e h'
    · exact fun x hx => hn x (by simp [hx])

/-- `remaining_formula`: `Remaining` = limit − everything requested so far in the window
(this call included), floored at 0 — for every reply of every history. -/
theorem remaining_formula (e : Entry) (rest : List Entry) (hg : Good (e :: rest)) :
    e.result.remaining = max (e.limit - reqSum e.resetAt (e :: rest)) 0 := by
  simp only [Entry.result, decide_]
  rw [← hg.1]

private theorem admSum_le_reqSum (E : Int) : ∀ (log : List Entry), (∀ e ∈ log, 0 ≤ e.n) → admSum E log ≤ reqSum E log := by
  intro log
  induction log with
  | nil => intro _; exact Int.le_refl _
  | cons e rest ih =>
    intro h
    have hr := ih (fun x hx => h x (by simp [hx]))
    have he := h e (by simp)
    simp only [admSum, reqSum]
    split <;> split <;> omega

/-- `admitted_sum_le_limit`: in every window (identified by `ResetAtMs = E`) the units admitted
across all callers add up to at most `L`, for any bound `L ≥ 0` on the limits used by the
admitted calls of that window (with one limit for everybody: at most the limit). -/
theorem admitted_sum_le_limit (E L : Int) (hL : 0 ≤ L) : ∀ (log : List Entry), Good log → (∀ e ∈ log, 0 ≤ e.n) →
    (∀ e ∈ log, e.resetAt = E → e.allowed = true → e.limit ≤ L) → admSum E log ≤ L := by
  intro log
  induction log with
  | nil => intro _ _ _; exact hL
  | cons e rest ih =>
    intro hg hn hl
    have hrest := ih hg.2 (fun x hx => hn x (by simp [hx])) (fun x hx => hl x (by simp [hx]))
    by_cases hc : e.resetAt = E ∧ e.allowed = true ∧ e.n > 0
    · have h1 := admSum_le_reqSum E rest (fun x hx => hn x (by simp [hx]))
      have hcur : e.current ≤ e.limit := by
        have := hc.2.1
        simp only [Entry.allowed, Entry.result, decide_, Bool.and_eq_true, decide_eq_true_eq] at this
        exact this.1
      have hlim := hl e (by simp) hc.1 hc.2.1
      have hgood := hg.1
      simp only [reqSum, if_true] at hgood
      rw [hc.1] at hgood
      simp only [admSum, hc, and_self, if_true]
      omega
    · simp only [admSum, hc, if_false]
      omega

/-- the statement for whole histories -/
theorem admitted_sum_le_limit_run (cs : List Call) (hw : ∀ c ∈ cs, c.cur ≤ c.next) (hn : ∀ c ∈ cs, 0 ≤ c.n)
    (E L : Int) (hL : 0 ≤ L) (hl : ∀ e ∈ run cs, e.resetAt = E → e.allowed = true → e.limit ≤ L) :
    admSum E (run cs) ≤ L :=
  admitted_sum_le_limit E L hL (run cs) (run_good cs hw)
    (runAcc_n_nonneg cs none [] (by simp) hn) hl

/-- `check_consumes_nothing` (state): `Check` (n = 0) leaves the count of the window it is counted
in unchanged — 0 when it opens a fresh window. -/
theorem check_consumes_nothing (s : Option SSt) (c : Call) (h0 : c.n = 0) :
    (step s c).count = match s with
      | some st => if st.expiresAt < c.cur then 0 else st.count
      | none => 0 := by
  cases s with
  | none => simp [step, scriptS, h0]
  | some st =>
    simp only [step, scriptS, h0]
    split <;> simp

/-- `check_consumes_nothing` (log): a `Check` adds nothing to any window's requested or admitted
units, and it reports Allowed exactly when the window is still below the limit. -/
theorem check_adds_nothing (e : Entry) (rest : List Entry) (E : Int) (h0 : e.n = 0) :
    reqSum E (e :: rest) = reqSum E rest ∧ admSum E (e :: rest) = admSum E rest ∧
    (e.allowed = true ↔ e.current < e.limit) := by
  refine ⟨by simp [reqSum, h0], by simp [admSum, h0], ?_⟩
  simp only [Entry.allowed, Entry.result, decide_, h0, Bool.and_eq_true, decide_eq_true_eq, Bool.or_eq_true]
  omega

/-- the window hypothesis cannot be dropped: with a negative window the same `ResetAtMs` is
handed out twice with the count reset in between (limit 1, two admitted units). -/
theorem negative_window_counterexample :
    admSum 100 (run [⟨1, 1, 100, 150⟩, ⟨1, 1, 100, 150⟩]) = 2 := by decide

/-- non-vacuity: a history with non-monotone caller clocks satisfying the hypotheses -/
example : ∀ c ∈ [(⟨1, 2, 1010, 1000⟩ : Call), ⟨2, 2, 1005, 995⟩, ⟨0, 2, 1020, 1020⟩], c.cur ≤ c.next ∧ 0 ≤ c.n := by
  decide

/-! ### 3. the script with server-side key expiry refines the abstract one -/

/-- what the abstract script sees of the faithful state -/
def abs (f : FSt) : Option SSt :=
  match f.ex, f.cnt with
  | some ex, some cnt => some ⟨cnt.val, ex.val⟩
  | _, _ => none

/-- both keys absent, or both present with the expiry `expires_at + 1000` the script gives them -/
def Shape (f : FSt) : Prop :=
  (f.ex = none ∧ f.cnt = none) ∨
  ∃ c E, f.ex = some ⟨E, some (E + 1000)⟩ ∧ f.cnt = some ⟨c, some (E + 1000)⟩

/-- If the caller's clock is at most 1000 ms behind the server clock (`srv ≤ cur + 1000`), the
window is non-negative, timestamps are positive and the counter does not overflow, one run of
the faithful script (keys expiring server-side at `expires_at + 1000`) replies exactly what the
abstract script computes, and the state shape is preserved. -/
theorem faithful_refines_simple (f : FSt) (inc next cur srv : Int) (hS : Shape f)
    (hw : cur ≤ next) (hskew : srv ≤ cur + 1000) (hpos : 0 < next + 1000)
    (hov : ∀ st, abs f = some st → st.count + inc ≤ int64Max) (hinc : inc ≤ int64Max) :
    Shape (scriptF inc next cur srv f).1 ∧
    (scriptF inc next cur srv f).2 = .ok (scriptS inc next cur (abs f)).count (scriptS inc next cur (abs f)).expiresAt ∧
    abs (scriptF inc next cur srv f).1 = some (scriptS inc next cur (abs f)) := by
  rcases hS with ⟨hex, hcnt⟩ | ⟨c, E, hex, hcnt⟩
  · have hn : ¬ (next + 1000 ≤ 0) := by omega
    have hl : ¬ (srv > next + 1000) := by omega
    have ho : ¬ (int64Max < inc) := by omega
    simp [scriptF, scriptS, abs, Shape, live, needReset, hex, hcnt, hn, hl, ho]
  · have habs : abs f = some ⟨c, E⟩ := by simp [abs, hex, hcnt]
    have hov' := hov _ habs
    simp only at hov'
    by_cases hexp : srv > E + 1000
    · have hn : ¬ (next + 1000 ≤ 0) := by omega
      have hl : ¬ (srv > next + 1000) := by omega
      have ho : ¬ (int64Max < inc) := by omega
      have hlt : E < cur := by omega
      simp [scriptF, scriptS, abs, Shape, live, needReset, hex, hcnt, hexp, hn, hl, ho, hlt]
    · by_cases hlt : E < cur
      · have hn : ¬ (next + 1000 ≤ 0) := by omega
        have hl : ¬ (srv > next + 1000) := by omega
        have ho : ¬ (int64Max < inc) := by omega
        simp [scriptF, scriptS, abs, Shape, live, needReset, hex, hcnt, hexp, hn, hl, ho, hlt]
      · have ho : ¬ (int64Max < c + inc) := by omega
        simp [scriptF, scriptS, abs, Shape, live, needReset, hex, hcnt, hexp, ho, hlt]

/-- the glue's arguments satisfy the window hypothesis: `next = ⌊(now+window)/10^6⌋ ≥ ⌊now/10^6⌋ = cur`
for every window ≥ 0 (in nanoseconds, as `time.Duration`) -/
theorem args_window (nowNs windowNs : Int) (hw : 0 ≤ windowNs) :
    (argsOf nowNs windowNs).2 ≤ (argsOf nowNs windowNs).1 := by
  simp only [argsOf]
  omega

end Rv.C38
