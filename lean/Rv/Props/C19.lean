/-
C19 — cluster commands reach the node that owns their slot.

Theorems about the models `Rv.Model.Topology` (parseSlots / parseShards / parseEndpoint) and
`Rv.Model.ClusterRoute` (_refresh tables, _pick, redirectOrNew, the redirect loop of do/doCache,
the single-flight `call`). The models are tied to /repo/cluster.go and /repo/singleflight.go by the
`topology` and `route` correspondence suites (harness/cluster).
-/
import Rv.Model.Topology
import Rv.Model.ClusterRoute
import Rv.Spec.Cluster
import Rv.Lemmas.ClusterParse
import Rv.Lemmas.ClusterRoute
import Rv.Lemmas.ClusterMultiSent
import Rv.Lemmas.ClusterMultiCover
namespace Rv.C19
open Rv Rv.Topology Rv.ClusterRoute Rv.ClusterParse Rv.ClusterRouteL

/-! ## topology parsing -/

/-- For every reply tree, every fallback address and TLS setting both parsers return a group map:
    none of the slice indexings of the Go code can be out of range (`Res.panic` is unreachable),
    and no error value is produced either. -/
theorem parse_total_no_panic (m : Msg) (d : Bytes) (tls : Bool) :
    (∃ gs, parseSlots m d = .ok gs) ∧ (∃ gs, parseShards m d tls = .ok gs) :=
  ⟨parseSlots_ok m d, parseShards_ok m d tls⟩

/-- CLUSTER SLOTS: every entry of the reply whose master is usable (`entryMaster`: at least
    `[lo, hi, [host, port, …]]`, endpoint not `?`) has its range listed in the group keyed by that
    master, and that group's first node (`g.nodes[0]`, the node writes are routed to) is the master. -/
theorem parse_maps_ranges_to_primary (m : Msg) (d : Bytes) (gs : Groups) (h : parseSlots m d = .ok gs)
    (v : Msg) (hv : v ∈ m.arr) (a : Bytes) (hm : entryMaster d v = some a) :
    ∃ g, gget a gs = some g ∧ entryRange v ∈ g.slots ∧ g.nodes.head? = some a := by
  rw [parseSlots_eq_foldl] at h
  cases h
  obtain ⟨g, hg, hr⟩ := foldl_lists d a v hm m.arr [] hv
  exact ⟨g, hg, hr, foldl_headOK d m.arr [] (by intro a g h; simp [gget] at h) a g hg⟩

/-- CLUSTER SLOTS: nothing else gets in — every group is keyed by the non-empty master address of some
    usable entry (entries that are too short, lack the address pair or announce `?` are skipped). -/
theorem parse_slots_only_usable (m : Msg) (d : Bytes) (gs : Groups) (h : parseSlots m d = .ok gs)
    (a : Bytes) (g : Group) (hg : gget a gs = some g) :
    a ≠ [] ∧ ∃ v ∈ m.arr, entryMaster d v = some a := by
  rw [parseSlots_eq_foldl] at h
  cases h
  exact foldl_keysFrom d m.arr m.arr [] (fun _ hv => hv) (by intro a g h; simp [gget] at h) a g hg

/-- CLUSTER SHARDS: every group of the result is exactly the contribution `shardGroup` of one shard of the
    reply; it is keyed by its first node (the master, swapped to the front) and contains no node without
    an address. -/
theorem parse_shards_group_from_shard (m : Msg) (d : Bytes) (tls : Bool) (gs : Groups)
    (h : parseShards m d tls = .ok gs) (k : Bytes) (g : Group) (hg : gget k gs = some g) :
    (∃ v ∈ m.arr, shardGroup d tls v = some (k, g)) ∧ g.nodes.head? = some k ∧ [] ∉ g.nodes := by
  rw [parseShards_eq_foldl] at h
  cases h
  obtain ⟨v, hv, hs⟩ := foldl_fromShard d tls m.arr m.arr [] (fun _ hv => hv) (by intro a g h; simp [gget] at h) k g hg
  exact ⟨⟨v, hv, hs⟩, shardGroup_shape d tls v k g hs⟩

/-- CLUSTER SHARDS: a shard's group (ranges mapped to its master) is in the result unless a *later* shard
    of the reply announces the same master address — then the later one replaces it entirely (this is
    what `groups[g.nodes[0].Addr] = g` does). -/
theorem parse_shards_later_overwrites (pre post : List Msg) (v : Msg) (t : UInt8) (d : Bytes) (tls : Bool)
    (k : Bytes) (g : Group) (hs : shardGroup d tls v = some (k, g))
    (hno : ∀ v' ∈ post, ∀ g', shardGroup d tls v' ≠ some (k, g')) :
    ∃ gs, parseShards (Msg.agg t (pre ++ v :: post)) d tls = .ok gs ∧ gget k gs = some g := by
  refine ⟨_, parseShards_eq_foldl _ d tls, ?_⟩
  simp only [Msg.agg, Msg.arr, List.foldl_append, List.foldl_cons]
  apply foldl_shard_last_wins d tls k g post _ _ hno
  simp only [shardsNext, hs]
  rw [gget_gset, if_pos rfl]

/-- a node whose health is not `online` does not enter the shard's node list (nor can it become master) -/
theorem parse_skips_unhealthy (d : Bytes) (tls : Bool) (st : List Bytes × Option Nat) (n : Msg) (dict : Dict)
    (hd : asMapOrNil n = .ok dict) (hh : (mget kHealth dict).str ≠ kOnline) :
    shardNodeStep d tls st n = .ok st := by
  unfold shardNodeStep
  rw [hd]
  simp only [hh, ne_eq, not_false_eq_true, if_true]

/-- an endpoint of `?` yields no address, whatever the fallback and the port -/
theorem parse_skips_unknown_endpoint (fallback : Bytes) (port : Int) : parseEndpoint fallback [63] port = [] := by
  simp [parseEndpoint]

/-- an empty endpoint is replaced by the host of the address the reply came from -/
theorem parse_empty_endpoint_uses_fallback (fallback : Bytes) (port : Int) :
    parseEndpoint fallback [] port = joinHostPort (splitHost fallback) (fmtInt port) := by
  simp [parseEndpoint]

/-! ## slot table and routing -/

/-- `_refresh` never indexes an empty node list when the groups come from the parsers (plain mode):
    the table build succeeds and leaves no read table. -/
theorem refresh_tables_total (o : Opt) (hm : o.mode = .plain) (m : List (Bytes × Conn × Bool)) (ro : Nat → Nat → Nat)
    (gs : Groups) (hok : HeadOK gs) (huniq : ∀ kg ∈ gs, gget kg.1 gs = some kg.2) :
    ∃ w, buildTables o m ro (gs.map (·.2)) = .ok (w, none) := by
  have hne : ∀ g ∈ gs.map (·.2), g.nodes ≠ [] := by
    intro g hg
    obtain ⟨kg, hkg, rfl⟩ := List.mem_map.mp hg
    have := hok kg.1 kg.2 (huniq kg hkg)
    intro h0; rw [h0] at this; cases this
  obtain ⟨w, hw, _⟩ := buildTables_plain_gen o hm m ro (gs.map (·.2)) (fun _ => none, none) hne
  exact ⟨w, hw⟩

/-- After a table build from groups `gs` (any visiting order — Go iterates a map), for every slot that is
    listed by at least one group and on whose owner all listing groups agree, `_pick(slot)` is the
    connection of that owner's first node, i.e. of the primary the topology assigns to the slot.
    Holds for all 16384 slots at once (no enumeration: `foldl_setRange`). -/
theorem route_to_owner (o : Opt) (hm : o.mode = .plain) (m : List (Bytes × Conn × Bool)) (ro : Nat → Nat → Nat)
    (gs : List Group) (hne : ∀ g ∈ gs, g.nodes ≠ []) (w : Nat → Option Conn) (r : Option (Nat → List Conn))
    (hb : buildTables o m ro gs = .ok (w, r)) (c : Client) (hw : c.wslots = w) (hr : c.rslots = r)
    (slot : Nat) (owner : Option Conn)
    (hagree : ∀ g ∈ gs, covers g slot = true → headConn m g = owner) (hex : ∃ g ∈ gs, covers g slot = true) :
    pickSlot o c slot false = owner := by
  obtain ⟨w', hw', hspec⟩ := buildTables_plain_gen o hm m ro gs (fun _ => none, none) hne
  unfold buildTables at hb
  rw [hw'] at hb
  cases hb
  have : pickSlot o c slot false = c.wslots slot := by
    unfold pickSlot; rfl
  rw [this, hw, hspec slot]
  exact tableSpec_agree m slot owner gs none hagree hex

/-- a slot that no group lists has no connection (`pick` then refreshes and finally answers ErrNoSlot) -/
theorem route_unlisted_none (o : Opt) (hm : o.mode = .plain) (m : List (Bytes × Conn × Bool)) (ro : Nat → Nat → Nat)
    (gs : List Group) (hne : ∀ g ∈ gs, g.nodes ≠ []) (w : Nat → Option Conn) (r : Option (Nat → List Conn))
    (hb : buildTables o m ro gs = .ok (w, r)) (slot : Nat) (hnone : ∀ g ∈ gs, covers g slot = false) :
    w slot = none := by
  obtain ⟨w', hw', hspec⟩ := buildTables_plain_gen o hm m ro gs (fun _ => none, none) hne
  unfold buildTables at hb
  rw [hw'] at hb
  cases hb
  rw [hspec slot]
  exact tableSpec_none_cover m slot gs none hnone

/-- the slot loop `for i := lo; i <= hi && i >= 0 && i < 16384; i++`: a range with a negative start
    covers nothing, a range reaching beyond 16383 is clipped -/
theorem range_semantics (lo hi : Int) (i : Nat) :
    visits lo hi i = true ↔ (0 ≤ lo ∧ lo ≤ (i : Int) ∧ (i : Int) ≤ hi ∧ i < 16384) := by
  simp [visits, Bool.and_eq_true, decide_eq_true_eq, and_assoc]

/-! ## redirects -/

/-- MOVED: the command is sent again, as a single `Do`, to exactly the node named in the reply
    (`redirectOrNew` returns a connection filed under that address), and the loop continues with that
    node's reply. -/
theorem moved_follows (o : Opt) (cmd : Cmd) (cc : Conn) (fuel : Nat) (s : St) (resp : Reply) (red : Nat) (addr : Bytes)
    (hc : classify resp = .move addr) (hok : ConnsOK s.c)
    (hb : ¬ (o.maxRedir > 0 ∧ red + 1 > o.maxRedir)) :
    ∃ c', processLoop o false cmd cc (fuel + 1) s resp red =
      processLoop o false cmd cc fuel
        { c := c', w := (answer (logCall s.w { conn := (redirectOrNew s.c addr cc cmd.slot true).1, kind := .do_, items := [.cmd cmd.id] }) addr cmd).2 }
        (answer (logCall s.w { conn := (redirectOrNew s.c addr cc cmd.slot true).1, kind := .do_, items := [.cmd cmd.id] }) addr cmd).1 (red + 1) := by
  have ha := redirectOrNew_addr s.c addr cc cmd.slot true hok
  refine ⟨(redirectOrNew s.c addr cc cmd.slot true).2, ?_⟩
  conv => lhs; unfold processLoop
  simp only [hc, hb, if_false, sendOne, ha, Bool.false_eq_true]

/-- the connection a redirect is followed on is the one filed under the address named in the reply -/
theorem redirect_goes_to_named_node (c : Client) (addr : Bytes) (prev : Conn) (slot : Nat) (isMove : Bool)
    (h : ConnsOK' c.conns) : (redirectOrNew c addr prev slot isMove).1.addr = addr :=
  redirectOrNew_addr c addr prev slot isMove (connsOK_of' c h)

/-- …and the hypothesis is an invariant of the client: `_refresh` establishes it (given it held before, e.g. for
    the connections made from InitAddress) and `redirectOrNew` preserves it -/
theorem conns_filed_under_own_address (o : Opt) (c : Client) (gs : Groups) (addr : Bytes) (prev : Conn) (slot : Nat)
    (isMove : Bool) (h : ConnsOK' c.conns) :
    ConnsOK' (refreshConns o c gs).1 ∧ ConnsOK' (redirectOrNew c addr prev slot isMove).2.conns :=
  ⟨refreshConns_ok' o c gs h, redirectOrNew_ok' c addr prev slot isMove h⟩

/-- a reply that is neither a redirect nor retryable ends the loop and is what the caller gets -/
theorem final_reply_returned (o : Opt) (cache : Bool) (cmd : Cmd) (cc : Conn) (fuel : Nat) (s : St) (resp : Reply) (red : Nat)
    (hc : classify resp = .none) :
    processLoop o cache cmd cc (fuel + 1) s resp red = (resp, false, s, red) := by
  conv => lhs; unfold processLoop
  simp only [hc]

/-- MOVED then a final reply: the caller receives the named node's reply and that node saw the command once -/
theorem moved_then_final (o : Opt) (cmd : Cmd) (cc : Conn) (fuel : Nat) (s : St) (resp : Reply) (red : Nat) (addr : Bytes)
    (hc : classify resp = .move addr) (hok : ConnsOK s.c) (hb : ¬ (o.maxRedir > 0 ∧ red + 1 > o.maxRedir))
    (hfin : classify (answer (logCall s.w { conn := (redirectOrNew s.c addr cc cmd.slot true).1, kind := .do_, items := [.cmd cmd.id] }) addr cmd).1 = .none) :
    (processLoop o false cmd cc (fuel + 2) s resp red).1 =
        (answer (logCall s.w { conn := (redirectOrNew s.c addr cc cmd.slot true).1, kind := .do_, items := [.cmd cmd.id] }) addr cmd).1 ∧
    (processLoop o false cmd cc (fuel + 2) s resp red).2.2.1.w.log =
        s.w.log ++ [{ conn := (redirectOrNew s.c addr cc cmd.slot true).1, kind := .do_, items := [.cmd cmd.id] }] := by
  obtain ⟨c', h⟩ := moved_follows o cmd cc (fuel + 1) s resp red addr hc hok hb
  rw [h, final_reply_returned o false cmd cc fuel _ _ _ hfin]
  refine ⟨rfl, ?_⟩
  simp only [answer, logCall]
  split <;> rfl

/-- ASK: the named node receives `ASKING` immediately followed by the command, in one `DoMulti` on one
    connection, and the loop continues with the command's reply. -/
theorem ask_prefixed_by_asking (o : Opt) (cmd : Cmd) (cc : Conn) (fuel : Nat) (s : St) (resp : Reply) (red : Nat) (addr : Bytes)
    (hc : classify resp = .ask addr) (hok : ConnsOK s.c)
    (hb : ¬ (o.maxRedir > 0 ∧ red + 1 > o.maxRedir)) :
    ∃ c', processLoop o false cmd cc (fuel + 1) s resp red =
      processLoop o false cmd cc fuel
        { c := c', w := (answer (logCall s.w { conn := (redirectOrNew s.c addr cc cmd.slot false).1, kind := .multi, items := [.asking, .cmd cmd.id] }) addr cmd).2 }
        (answer (logCall s.w { conn := (redirectOrNew s.c addr cc cmd.slot false).1, kind := .multi, items := [.asking, .cmd cmd.id] }) addr cmd).1 (red + 1) := by
  have ha := redirectOrNew_addr s.c addr cc cmd.slot false hok
  refine ⟨(redirectOrNew s.c addr cc cmd.slot false).2, ?_⟩
  conv => lhs; unfold processLoop
  simp only [hc, hb, if_false, sendAsking, ha, Bool.false_eq_true]

/-- ASK does not touch the slot table (only MOVED to an unknown or the same node patches it) -/
theorem ask_leaves_table (c : Client) (addr : Bytes) (prev : Conn) (slot : Nat) :
    (redirectOrNew c addr prev slot false).2.wslots = c.wslots := by
  unfold redirectOrNew
  simp only
  split
  · split <;> simp
  · simp

/-- ASK is a one-shot redirect: for every client state, target address, previous connection and slot the write
    table after `redirectOrNew(…, RedirectAsk)` is the table before — also when the target is a node the client
    has no connection for yet (a connection is created and filed, the slot keeps pointing at its owner). -/
theorem ask_leaves_slot_table (c : Client) (addr : Bytes) (prev : Conn) (slot : Nat) :
    ∀ s, (redirectOrNew c addr prev slot false).2.wslots s = c.wslots s := by
  intro s; rw [ask_leaves_table]

/-- MOVED teaches the table: when the named node is new to the client (no connection filed under the address)
    or is the very connection that answered (it is re-created), the slot of the command points at the
    connection the command is re-sent on, every other slot is untouched; when the node is already known under
    another connection the table is left to the (lazy) refresh. Key-less commands never patch it. -/
theorem moved_updates_slot_table (c : Client) (addr : Bytes) (prev : Conn) (slot : Nat) (hs : slot ≠ initSlot) :
    ((cget addr c.conns = none ∨ ∃ h, cget addr c.conns = some (prev, h)) →
        (redirectOrNew c addr prev slot true).2.wslots slot = some (redirectOrNew c addr prev slot true).1 ∧
        ∀ s, s ≠ slot → (redirectOrNew c addr prev slot true).2.wslots s = c.wslots s) ∧
    (∀ cc h, cget addr c.conns = some (cc, h) → prev ≠ cc →
        (redirectOrNew c addr prev slot true).1 = cc ∧ (redirectOrNew c addr prev slot true).2.wslots = c.wslots) := by
  constructor
  · intro h
    unfold redirectOrNew
    simp only
    rcases h with h | ⟨hid, h⟩
    · rw [h]; simp [hs]; intro s h1 h2; exact absurd h2 h1
    · rw [h]; simp [hs]; intro s h1 h2; exact absurd h2 h1
  · intro cc h hg hne
    unfold redirectOrNew
    simp only
    rw [hg]
    simp [hne]

theorem moved_keyless_leaves_table (c : Client) (addr : Bytes) (prev : Conn) :
    (redirectOrNew c addr prev initSlot true).2.wslots = c.wslots := by
  unfold redirectOrNew
  simp only
  split
  · split <;> simp
  · simp

/-- With `MaxMovedRedirections = k > 0` the redirect loop sends the command at most `k − red` more times
    (`red` = redirects already followed), whatever the nodes answer. -/
theorem redirect_bound (o : Opt) (cache : Bool) (cmd : Cmd) (cc : Conn) (k : Nat) (hk : o.maxRedir = k) (hpos : k > 0) :
    ∀ (fuel : Nat) (s : St) (resp : Reply) (red : Nat), red ≤ k →
      (processLoop o cache cmd cc fuel s resp red).2.2.1.w.log.length ≤ s.w.log.length + (k - red) := by
  intro fuel
  induction fuel with
  | zero => intro s resp red _; simp [processLoop]
  | succ fuel ih =>
    intro s resp red hred
    unfold processLoop
    cases hc : classify resp with
    | none => simp
    | retry => simp
    | move addr =>
      simp only
      by_cases hb : o.maxRedir > 0 ∧ red + 1 > o.maxRedir
      · simp [hb]
      · rw [if_neg hb]
        have hlt : red + 1 ≤ k := by rw [hk] at hb; omega
        refine Nat.le_trans (ih _ _ (red + 1) hlt) ?_
        simp only [sendOne, answer, logCall]
        split <;> (simp only [List.length_append, List.length_cons, List.length_nil]; omega)
    | ask addr =>
      simp only
      by_cases hb : o.maxRedir > 0 ∧ red + 1 > o.maxRedir
      · simp [hb]
      · rw [if_neg hb]
        have hlt : red + 1 ≤ k := by rw [hk] at hb; omega
        refine Nat.le_trans (ih _ _ (red + 1) hlt) ?_
        cases cache
        · simp only [sendAsking, answer, logCall, Bool.false_eq_true, if_false]
          split <;> (simp only [List.length_append, List.length_cons, List.length_nil]; omega)
        · simp only [sendAskingCache, answer, logCall, if_true]
          split <;> (simp only [List.length_append, List.length_cons, List.length_nil]; omega)

/-- once `k` redirects were followed, the next MOVED/ASK reply is handed to the caller as it is (an error) -/
theorem redirect_bound_returns_error (o : Opt) (cache : Bool) (cmd : Cmd) (cc : Conn) (fuel : Nat) (s : St)
    (resp : Reply) (red : Nat) (hpos : o.maxRedir > 0) (hred : red ≥ o.maxRedir)
    (hc : (∃ a, classify resp = .move a) ∨ (∃ a, classify resp = .ask a)) :
    processLoop o cache cmd cc (fuel + 1) s resp red = (resp, false, s, red + 1) := by
  have hb : o.maxRedir > 0 ∧ red + 1 > o.maxRedir := ⟨hpos, by omega⟩
  conv => lhs; unfold processLoop
  rcases hc with ⟨a, hc⟩ | ⟨a, hc⟩ <;> simp only [hc, hb, and_self, if_true]

/-- with `MaxMovedRedirections = 0` there is no bound: a redirect is always followed -/
example : ¬ ((0 : Nat) > 0 ∧ 5 + 1 > 0) := by omega

/-! ## redirects inside a batch round (`doretry`) -/
section batch
open Rv.ClusterMulti Rv.ClusterMultiL

/-- Both lists of a per-connection retry entry are sent: a round that starts with the pending map `p` puts on
    the wire, for every entry `(cc, re)` of `p`, one call on `cc` with the plain re-sends `re.cmds` (MOVED /
    retried commands) if there are any **and** one call with the ASK re-sends `re.asks` behind their ASKING if
    there are any — the second is not skipped when the first exists (one command answered MOVED→X and another
    ASK→X in the same round). Every command of `re.cmds ++ re.asks` is an item of a call on `cc`. -/
theorem retry_entry_both_lists_sent (o : Opt) (cache hasInit : Bool) (fuel : Nat) (p : Pending) (a : Acc) (w : World)
    (attempts redirects : Nat) (cc : Conn) (re : Retry) (hx : (cc, re) ∈ p) :
    (re.cmds ≠ [] → cmdsCall cache cc re ∈ (rounds o cache hasInit (fuel + 1) p a w attempts redirects).2.log) ∧
    (re.asks ≠ [] → asksCall cache cc re ∈ (rounds o cache hasInit (fuel + 1) p a w attempts redirects).2.log) ∧
    (∀ e ∈ re.cmds ++ re.asks, ∃ call ∈ (rounds o cache hasInit (fuel + 1) p a w attempts redirects).2.log,
        call.conn = cc ∧ Item.cmd e.2.id ∈ call.items) := by
  -- the log of the whole run extends the log of its first round
  have hfirst : ∃ tail, (rounds o cache hasInit (fuel + 1) p a w attempts redirects).2.log =
      (w.log ++ (sortP p).flatMap fun x => sentBy cache x.1 x.2) ++ tail := by
    have hl := runRound_log o cache hasInit attempts (sortP p) { a with next := [], redirects := 0, hasDelay := false } w
    unfold rounds
    simp only
    split
    · split
      · split
        · exact ⟨[], by rw [hl]; simp⟩
        · obtain ⟨t, ht⟩ := rounds_log_prefix o cache hasInit fuel _ _
            (runRound o cache hasInit attempts (sortP p) { a with next := [], redirects := 0, hasDelay := false } w).2 attempts (redirects + 1)
          exact ⟨t, by rw [ht, hl]⟩
      · split
        · obtain ⟨t, ht⟩ := rounds_log_prefix o cache hasInit fuel _ _
            (runRound o cache hasInit attempts (sortP p) { a with next := [], redirects := 0, hasDelay := false } w).2 (attempts + 1) redirects
          exact ⟨t, by rw [ht, hl]⟩
        · exact ⟨[], by rw [hl]; simp⟩
    · exact ⟨[], by rw [hl]; simp⟩
  obtain ⟨tail, ht⟩ := hfirst
  have hin : ∀ call ∈ sentBy cache cc re, call ∈ (rounds o cache hasInit (fuel + 1) p a w attempts redirects).2.log := by
    intro call hc
    rw [ht]
    apply List.mem_append_left
    apply List.mem_append_right
    exact List.mem_flatMap.mpr ⟨(cc, re), mem_sortP' p (cc, re) hx, hc⟩
  refine ⟨fun h => hin _ ?_, fun h => hin _ ?_, fun e he => ?_⟩
  · unfold sentBy; rw [if_pos h]; exact List.mem_append_left _ (List.mem_singleton.mpr rfl)
  · unfold sentBy; rw [if_pos h]; exact List.mem_append_right _ (List.mem_singleton.mpr rfl)
  · obtain ⟨call, hc, h1, h2⟩ := sentBy_covers cache cc re e he
    exact ⟨call, hin call hc, h1, h2⟩

/-- the ASK call of an entry is the ASKING-interleaved list: stripping ASKING gives the entry's ASK commands in
    order (so the i-th kept reply is the i-th command's), and a lone command has its ASKING directly in front -/
theorem retry_entry_asks_behind_asking (cc : Conn) (re : Retry) :
    (asksCall false cc re).conn = cc ∧ (asksCall false cc re).kind = .multi ∧
    (asksCall false cc re).items.filter (fun it => !decide (it = Item.asking)) = re.asks.map fun e => Item.cmd e.2.id :=
  ⟨rfl, rfl, askingItems_strip re.asks false⟩

end batch

/-! ## single flight -/
open SF

def sfInv (s : S) : Prop :=
  s.started = s.finished + (if s.inflight then 1 else 0) ∧ (s.inflight = false → s.waiting = [] ∧ s.cn = 0)

private theorem sfInv_step (s : S) (e : Ev) (h : sfInv s) : sfInv (SF.step s e) := by
  obtain ⟨h1, h2⟩ := h
  cases e with
  | enter c =>
    simp only [SF.step, SF.enter]
    cases hi : s.inflight with
    | true => simp only [if_true]; refine ⟨by simpa [hi] using h1, by simp [hi]⟩
    | false =>
      simp only [Bool.false_eq_true, if_false]
      refine ⟨by simp [hi] at h1; simp; omega, by simp⟩
  | delayEnter =>
    simp only [SF.step, SF.delayEnter]
    cases hi : s.inflight with
    | true => simp only [if_true]; exact ⟨h1, h2⟩
    | false =>
      simp only [Bool.false_eq_true, if_false]
      refine ⟨by simp [hi] at h1; simp; omega, by simp⟩
  | finish l =>
    simp only [SF.step, SF.finish]
    cases hi : s.inflight with
    | true =>
      simp only [if_true]
      refine ⟨by simp [hi] at h1; simp; omega, by simp⟩
    | false => simp only [Bool.false_eq_true, if_false]; exact ⟨h1, h2⟩

/-- Among any interleaving of `Do`, `DelayDo` and completions, `fn` is running at most once at any time:
    `started = finished` or `finished + 1`, the latter exactly while a flight is in progress. -/
theorem singleflight_one_leader (es : List Ev) :
    (SF.run {} es).started = (SF.run {} es).finished + (if (SF.run {} es).inflight then 1 else 0) := by
  have : ∀ (es : List Ev) (s : S), sfInv s → sfInv (SF.run s es) := by
    intro es
    induction es with
    | nil => intro s h; exact h
    | cons e rest ih => intro s h; exact ih _ (sfInv_step s e h)
  exact (this es {} ⟨by simp, by simp⟩).1

/-- a caller arriving during a flight does not run `fn`; it is released by that flight's completion and so
    shares its outcome -/
theorem singleflight_waiters_share (s : S) (c : Nat) (l : Option Nat) (h : s.inflight = true) :
    (SF.enter s c).2 = false ∧ (SF.enter s c).1.started = s.started ∧
      (c, s.started) ∈ (SF.finish (SF.enter s c).1 l).returned := by
  simp [SF.enter, SF.finish, h]

/-- after the completion the next caller is a leader again (a fresh run of `fn`) -/
theorem singleflight_runs_again (s : S) (l : Option Nat) (c : Nat) (h : s.inflight = true) :
    (SF.enter (SF.finish s l) c).2 = true ∧ (SF.enter (SF.finish s l) c).1.started = s.started + 1 := by
  simp [SF.enter, SF.finish, h]

/-- `DelayDo` during a flight is dropped -/
theorem singleflight_delay_dedup (s : S) (h : s.inflight = true) : SF.delayEnter s = (s, false) := by
  simp [SF.delayEnter, h]

end Rv.C19
