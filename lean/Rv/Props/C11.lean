/-
C11 — batched cache reads return results positionally.

Model: Rv/Model/MGetCache.lean (pipe.go `doCacheMGet`, `DoMultiCache`; the per-batch view of lru.go
`Flight`/`Flights`; mux.go / cluster.go per-destination batching). Specification:
`Rv.MGetCache.Spec`. Helper lemmas: Rv/Lemmas/MGetWalk.lean, Rv/Lemmas/MGetClassify.lean.

The refill loops recognise a slot that still has to be filled by `val.typ == 0 && err == nil`.
That is only right if nothing that was put into a slot before looks like that: the theorems carry
"waiter results are non-empty" and "server replies are non-empty" as explicit hypotheses
(`refill_needs_nonempty` shows they are needed); the correspondence suite checks both on every run.
-/
import Rv.Lemmas.MGetMulti
import Rv.Lemmas.MGetBatch
namespace Rv.C11
open Rv.MGetCache Rv.MGetCache.Spec

/-! ### the refill walk -/

/-- The pointer walk of the three refill loops computes "k-th empty slot ← k-th value" whenever no
    value is itself empty. -/
theorem refill_eq_fillSpec {σ : Type} (isEmpty : σ → Bool) (slots vals : List σ)
    (h : ∀ r ∈ vals, isEmpty r = false) : refill isEmpty slots vals = fillSpec isEmpty slots vals :=
  refill_eq_fillSpec' isEmpty slots vals h

/-- The walk never overwrites a slot that was filled before it started (a hit or a resolved pending
    entry), whatever the values are, and never changes the number of slots. -/
theorem refill_skips_filled {σ : Type} (isEmpty : σ → Bool) (slots vals : List σ) :
    (refill isEmpty slots vals).length = slots.length ∧
    ∀ (i : Nat) (x : σ), slots[i]? = some x → isEmpty x = false → (refill isEmpty slots vals)[i]? = some x :=
  ⟨refill_length isEmpty slots vals, fun i x hx hne => refill_keeps' isEmpty slots vals i x hx hne⟩

/-- The hypothesis of `refill_eq_fillSpec` is needed: an empty value (a reply with `typ == 0`) is
    overwritten by the next one, which shifts every later value one miss to the left. -/
theorem refill_needs_nonempty :
    refill Option.isNone [none, none] [none, some 7] = [some 7, none] ∧
    fillSpec Option.isNone [none, none] [none, some 7] = [none, some 7] := by
  constructor <;> simp [refill, fillSpec]

/-! ### `doCacheMGet` -/

/-- Classification level: for ANY hit / pending / miss pattern and any iteration order of the
    `entries` map, if no waiter fails, waiter results and reply elements are non-empty and the server
    answered one element per rewritten key, `doCacheMGet` returns at every position its cache value
    or, for the k-th missing position, the k-th element of the reply. -/
theorem mget_assemble (cls : List Cls) (ord : List (Nat × Res)) (part : List (Option Msg))
    (hord : ∀ p, p ∈ ord ↔ p ∈ entries cls)
    (hwait : ∀ w, Cls.pending w ∈ cls → w.err = none ∧ w.val.isSome)
    (hpart : ∀ x ∈ part, x.isSome)
    (hlen : part.length = (cls.filter Cls.isMiss).length) :
    doCacheMGet cls ord (.ok part) = .ok ((spec cls (part.map fun v => ⟨v, none⟩)).map Res.val) := by
  have hwa := waits_after cls ord hord (fun i w h => (hwait w (List.mem_of_getElem? h)).1)
  unfold doCacheMGet
  simp only
  split
  · rename_i h0
    rw [hwa, spec_noMiss _ _ h0]; simp
  · split
    · rename_i hall
      rw [spec_allMiss _ _ hall (by simp [hlen, hall])]
      simp [Function.comp_def]
    · rw [hwa]
      simp only [Except.map]
      rw [refill_eq_fillSpec' _ _ _ (by intro r hr; have := hpart r hr; cases r with
          | none => simp at this
          | some _ => rfl),
        fillSpec_after_mget _ _ (fun w hw => (hwait w hw).2)]

variable {K : Type} [DecidableEq K]

/-- `DoCache(MGET k₁ … kₙ)` / `JSON.MGET`: for every cache state (closed store included), every key
    list (duplicates allowed: the first occurrence of an absent key is fetched, later ones wait on
    that flight) and every server value function `f`, the command sent is the MGET of the missing
    keys in order and the result holds at position i the value of key i — the cached reply, the reply
    of the flight already under way, or `f kᵢ`. -/
theorem mget_positional (closed : Bool) (st : K → Ent) (ks : List K) (f : K → Option Msg)
    (hsrv : ∀ k ∈ ks, (f k).isSome)
    (hwait : ∀ k ∈ ks, ∀ w, st k = .inflight w → w.err = none ∧ w.val.isSome) :
    mgetRun closed st ks (fun rw => .ok (rw.map f))
      = (missKeys closed st [] ks,
         .ok (ks.map fun k => (expected closed st (fun k => ⟨f k, none⟩) k).val)) := by
  unfold mgetRun
  simp only
  congr 1
  have hsub := missKeys_subset closed st [] ks
  have hown : closed = false → ∀ k, st k = .absent → (k ∈ ([] : List K) ∨ k ∈ ks) →
      mgetOwn (missKeys closed st [] ks) (.ok ((missKeys closed st [] ks).map f)) k = ⟨f k, none⟩ := by
    intro hc k ha hm
    subst hc
    have hk : k ∈ missKeys false st [] ks := mem_missKeys st [] ks k ha (by simpa using hm) (by simp)
    simp [mgetOwn, lookup_zip_map _ f k hk]
  rw [mget_assemble]
  · congr 1
    have := spec_classify closed (mgetOwn (missKeys closed st [] ks) (.ok ((missKeys closed st [] ks).map f)))
      (fun k => ⟨f k, none⟩) st [] ks (by simp) hown
    rw [List.map_map]
    simp only [Function.comp_def] at *
    rw [this]; simp
  · intro p; rfl
  · intro w hw
    rcases pending_classify closed _ (fun k => ⟨f k, none⟩) st [] ks w (by simp) hown hw with ⟨k, hk, hst⟩ | ⟨k, hk, _, rfl⟩
    · exact hwait k hk w hst
    · exact ⟨rfl, hsrv k hk⟩
  · intro x hx
    simp only [List.mem_map] at hx
    obtain ⟨k, hk, rfl⟩ := hx
    exact hsrv k (hsub k hk)
  · simp [count_classify]

/-- A waiter whose flight failed fails the whole `MGET` (there is no per-key error in an array reply):
    the call returns the error of one of the failed flights it waited on. -/
theorem mget_wait_error (cls : List Cls) (ord : List (Nat × Res)) (part : List (Option Msg))
    (hord : ∀ p, p ∈ ord ↔ p ∈ entries cls)
    (hfail : ∃ w, Cls.pending w ∈ cls ∧ w.err ≠ none) :
    ∃ w e, Cls.pending w ∈ cls ∧ w.err = some e ∧ doCacheMGet cls ord (.ok part) = .error e := by
  obtain ⟨w0, hw0, he0⟩ := hfail
  obtain ⟨i0, hi0⟩ := List.getElem?_of_mem hw0
  have hex : ∃ p ∈ ord, p.2.err ≠ none := ⟨(i0, w0), (hord _).2 ((mem_entries _ _ _).2 hi0), he0⟩
  obtain ⟨i, v, e, hm, hwa⟩ := waitAll_error ord (cls.map mBase) hex
  have hmem : Cls.pending ⟨v, some e⟩ ∈ cls := List.mem_of_getElem? ((mem_entries _ _ _).1 ((hord _).1 hm))
  refine ⟨⟨v, some e⟩, e, hmem, rfl, ?_⟩
  have hlt : (cls.filter Cls.isMiss).length ≠ cls.length := by
    intro h
    have := (List.length_filter_eq_length_iff.1 h) _ hw0
    simp at this
  unfold doCacheMGet
  simp only
  split
  · exact hwa
  · simp only [hwa, Except.map]

/-- non-vacuity: a batch with a hit, a flight under way, an absent key asked twice and a closed-store
    run; the rewritten command carries each absent key once (every occurrence on a closed store) -/
example : missKeys false (fun k : Nat => if k = 0 then .cached (.atom (.str 0))
      else if k = 1 then .inflight ⟨some (.atom (.str 1)), none⟩ else .absent) [] [0, 2, 1, 2, 3] = [2, 3] ∧
    missKeys true (fun _ : Nat => Ent.absent) [] [5, 5] = [5, 5] := by decide

/-! ### `DoMultiCache` -/

/-- Classification level: for ANY hit / pending / miss pattern, any iteration order of the `entries`
    map and either wire shape, if waiter results are non-empty and (stride 2) the raw results of
    `DoMulti` are non-empty / (stride 5) no EXEC reply is an empty array, `DoMultiCache` returns at
    every position its cache value or, for the k-th missing position, the k-th fetched outcome
    (stride 5: the decoded EXEC group). Positions are never shifted by errors: an aborted or failed
    group is an error AT its position. -/
theorem multi_assemble (cls : List Cls) (skip : Bool) (ord : List (Nat × Res)) (resp : List Res)
    (hord : ∀ p, p ∈ ord ↔ p ∈ entries cls)
    (hwait : ∀ w, Cls.pending w ∈ cls → w.isEmpty = false)
    (hresp : skip = true → ∀ r ∈ pick2 resp, r.isEmpty = false)
    (hdec : skip = false → ∀ p ∈ pick5 resp, (decode5 p.1 p.2).isSome) :
    doMultiCache cls skip ord resp
      = some (spec cls (if skip then pick2 resp else (pick5 resp).filterMap fun p => decode5 p.1 p.2)) := by
  unfold doMultiCache
  simp only [waits_after_multi cls ord hord]
  split
  · rename_i h0; rw [spec_noMiss _ _ h0]
  · cases skip with
    | true =>
      simp only [if_true]
      rw [refill_eq_fillSpec' _ _ _ (hresp rfl), fillSpec_after _ _ hwait]
    | false =>
      simp only [Bool.false_eq_true, if_false]
      rw [refill5_eq _ _ (hdec rfl), refill_eq_fillSpec', fillSpec_after _ _ hwait]
      intro r hr
      simp only [List.mem_filterMap] at hr
      obtain ⟨p, _, hp⟩ := hr
      exact decode5_nonempty _ _ _ hp


variable {C : Type} [DecidableEq C]

/-- `DoMultiCache(c₁ … cₙ)` against a Redis that answers in order: for every cache state (closed
    store included), every command list (duplicates allowed), either wire shape (stride 5 / all
    static TTL: stride 2), every reply function and every set of discarded transactions, the wire
    carries one group per missed command in order and the result holds at position i the outcome of
    command i — the cached reply, the outcome of the flight already under way, or this batch's own
    reply / ErrDoCacheAborted. (Stride 2: a typed error reply is delivered to the fetching position as
    a message and to duplicates of it as the error, hence `hskip`.) -/
theorem multicache_positional (closed skip : Bool) (st : C → Ent) (cs : List C) (reply : C → Atom) (abort : C → Bool)
    (hwait : ∀ c ∈ cs, ∀ w, st c = .inflight w → w.isEmpty = false)
    (hskip : skip = true → ∀ c ∈ cs, ∀ v, reply c ≠ .rerr v) :
    multiRun closed skip st cs (ownStd skip reply abort) (serveStd reply abort none)
      = (missing skip (missKeys closed st [] cs),
         some (cs.map (expected closed st (outStd skip reply abort)))) := by
  unfold multiRun
  simp only
  congr 1
  have hown : closed = false → ∀ c, st c = .absent → (c ∈ ([] : List C) ∨ c ∈ cs) →
      ownStd skip reply abort c = outStd skip reply abort c := by
    intro _ c _ hm
    have hc : c ∈ cs := by simpa using hm
    cases skip with
    | false => simp [ownStd, outStd]
    | true =>
      have := hskip rfl c hc
      unfold ownStd outStd
      simp only [if_true]
  have hnonempty : ∀ c, (outStd skip reply abort c).isEmpty = false := by
    intro c; unfold outStd; split
    · rfl
    · split <;> rfl
  rw [multi_assemble]
  · congr 1
    cases skip with
    | true =>
      simp only [if_true, serve_missing2]
      exact spec_classify closed _ _ st [] cs (by simp) hown
    | false =>
      simp only [Bool.false_eq_true, if_false, (serve_missing5 reply abort _).1]
      exact spec_classify closed _ _ st [] cs (by simp) hown
  · intro p; rfl
  · intro w hw
    rcases pending_classify closed _ (outStd skip reply abort) st [] cs w (by simp) hown hw with ⟨c, hc, hst⟩ | ⟨c, _, _, rfl⟩
    · exact hwait c hc w hst
    · exact hnonempty c
  · intro hs r hr
    subst hs
    rw [serve_missing2] at hr
    simp only [List.mem_map] at hr
    obtain ⟨c, _, rfl⟩ := hr
    exact hnonempty c
  · intro hs
    subst hs
    exact (serve_missing5 reply abort _).2

/-! ### per-destination batching: mux.go `DoMultiCache`, cluster.go `_pickMultiCache` / `resultcachefn` -/

variable {D R : Type} [DecidableEq D]

/-- `cIndexes` is a partition of the positions: position `i` is in the index list of destination `d`
    exactly when command `i` goes to `d`. -/
theorem cIndexes_partition (dest : List D) (d : D) (i : Nat) : i ∈ cIndexes dest d ↔ dest[i]? = some d :=
  mem_cIndexes dest d i

omit [DecidableEq C] in
/-- mux.go `DoMultiCache`: whatever the slot distribution, the number of connections and the order
    in which the per-connection sub-batches complete, if every sub-batch is answered positionally
    then so is the batch (both for the single-connection shortcut and for the split). -/
theorem mux_scatter_gather (empty : R) (dest : List D) (cmds : List C) (order : List D) (g : D → C → R)
    (hlen : dest.length = cmds.length) (hcover : ∀ d ∈ dest, d ∈ order) :
    batched empty dest cmds order (fun d xs => xs.map (g d)) = some (batchedSpec dest cmds g) :=
  batched_positional empty dest cmds order g hlen hcover

omit [DecidableEq C] in
/-- cluster.go `DoMultiCache`, first round: `_pickMultiCache` groups the positions by connection
    (`retries.m[cc].cIndexes/commands`), `resultcachefn` writes `results.s[cIndexes[i]] = resps[i]`;
    with positional per-node answers the batch is positional, for every slot-to-node map. -/
theorem cluster_scatter_gather (empty : R) (dest : List D) (cmds : List C) (order : List D) (g : D → C → R)
    (hlen : dest.length = cmds.length) (hcover : ∀ d ∈ dest, d ∈ order) :
    scatterAll dest cmds (fun d xs => xs.map (g d)) order (List.replicate cmds.length empty)
      = some (batchedSpec dest cmds g) :=
  scatterAll_positional dest cmds order g _ hlen (by simp) hcover

omit [DecidableEq C] in
/-- An error that hits one sub-batch (a broken connection, a failed node) lands exactly on the
    positions of that sub-batch's commands. -/
theorem error_positions (empty : R) (dest : List D) (cmds : List C) (order : List D) (g : D → C → R)
    (bad : R → Prop) (d0 : D) (hbad : ∀ c, bad (g d0 c)) (hgood : ∀ d c, d ≠ d0 → ¬ bad (g d c))
    (hlen : dest.length = cmds.length) (hcover : ∀ d ∈ dest, d ∈ order) :
    ∃ res, batched empty dest cmds order (fun d xs => xs.map (g d)) = some res ∧
      res.length = cmds.length ∧
      ∀ (i : Nat) (r : R), res[i]? = some r → (bad r ↔ dest[i]? = some d0) := by
  refine ⟨batchedSpec dest cmds g, batched_positional empty dest cmds order g hlen hcover, ?_, ?_⟩
  · simp [batchedSpec, hlen]
  · intro i r hr
    simp only [batchedSpec, List.getElem?_zipWith] at hr
    cases hd : dest[i]? with
    | none => rw [hd] at hr; simp at hr
    | some d =>
      rw [hd] at hr
      cases hc : cmds[i]? with
      | none => rw [hc] at hr; simp at hr
      | some c =>
        rw [hc] at hr
        simp only [Option.some.injEq] at hr
        subst hr
        constructor
        · intro hb
          by_cases h : d = d0
          · rw [h]
          · exact absurd hb (hgood d c h)
        · intro h
          simp only [Option.some.injEq] at h
          subst h; exact hbad c

/-- End to end for a multiplexed / clustered client: every destination has its own cache
    (`st d`), the batch is split by destination, every sub-batch goes through `DoMultiCache` of its
    connection against a Redis that answers in order, and the results are scattered back: position i
    holds the outcome of command i on its own connection's cache. -/
theorem batched_multicache_positional (closed skip : Bool) (st : D → C → Ent) (dest : List D) (cmds : List C)
    (order : List D) (reply : C → Atom) (abort : C → Bool)
    (hwait : ∀ d c w, st d c = .inflight w → w.isEmpty = false)
    (hskip : skip = true → ∀ c v, reply c ≠ .rerr v)
    (hlen : dest.length = cmds.length) (hcover : ∀ d ∈ dest, d ∈ order) :
    batched Res.empty dest cmds order
        (fun d xs => ((multiRun closed skip (st d) xs (ownStd skip reply abort) (serveStd reply abort none)).2).getD [])
      = some (batchedSpec dest cmds fun d c => expected closed (st d) (outStd skip reply abort) c) := by
  have hrun : (fun d xs => ((multiRun closed skip (st d) xs (ownStd skip reply abort) (serveStd reply abort none)).2).getD [])
      = fun (d : D) (xs : List C) => xs.map (expected closed (st d) (outStd skip reply abort)) := by
    funext d xs
    rw [multicache_positional closed skip (st d) xs reply abort (fun c _ w h => hwait d c w h)
      (fun hs c _ v => hskip hs c v)]
    rfl
  rw [hrun]
  exact batched_positional Res.empty dest cmds order _ hlen hcover

end Rv.C11
