/-
C11 — batched cache reads return results positionally.

Model: Rv/Model/MGetCache.lean (pipe.go `doCacheMGet`, `DoMultiCache`; the per-batch view of lru.go
`Flight`/`Flights`; mux.go / cluster.go per-destination batching). Specification:
`Rv.MGetCache.Spec`. Helper lemmas: Rv/Lemmas/MGetWalk.lean, Rv/Lemmas/MGetClassify.lean.

The refill loops recognise a slot that still has to be filled by `val.typ == 0 && err == nil`.
That is only right if nothing that was put into a slot before looks like that: the theorems carry
"waiter results are non-empty" and "server replies are non-empty" as explicit hypotheses
(`refill_needs_nonempty` shows they are needed); the correspondence suite checks both on every run.
-/
import Rv.Lemmas.MGetClassify
namespace Rv.C11
open Rv.MGetCache Rv.MGetCache.Spec

/-! ### the refill walk -/

/-- The pointer walk of the three refill loops computes "k-th empty slot ← k-th value" whenever no
    value is itself empty. -/
theorem refill_eq_fillSpec {σ : Type} (isEmpty : σ → Bool) (slots vals : List σ)
    (h : ∀ r ∈ vals, isEmpty r = false) : refill isEmpty slots vals = fillSpec isEmpty slots vals :=
  refill_eq_fillSpec' isEmpty slots vals h

/-- The walk never overwrites a slot that was filled before it started (a hit or a resolved pending
    entry), whatever the values are, and never changes the number of slots. -/
theorem refill_skips_filled {σ : Type} (isEmpty : σ → Bool) (slots vals : List σ) :
    (refill isEmpty slots vals).length = slots.length ∧
    ∀ (i : Nat) (x : σ), slots[i]? = some x → isEmpty x = false → (refill isEmpty slots vals)[i]? = some x :=
  ⟨refill_length isEmpty slots vals, fun i x hx hne => refill_keeps' isEmpty slots vals i x hx hne⟩

/-- The hypothesis of `refill_eq_fillSpec` is needed: an empty value (a reply with `typ == 0`) is
    overwritten by the next one, which shifts every later value one miss to the left. -/
theorem refill_needs_nonempty :
    refill Option.isNone [none, none] [none, some 7] = [some 7, none] ∧
    fillSpec Option.isNone [none, none] [none, some 7] = [none, some 7] := by
  constructor <;> simp [refill, fillSpec]

/-! ### `doCacheMGet` -/

/-- Classification level: for ANY hit / pending / miss pattern and any iteration order of the
    `entries` map, if no waiter fails, waiter results and reply elements are non-empty and the server
    answered one element per rewritten key, `doCacheMGet` returns at every position its cache value
    or, for the k-th missing position, the k-th element of the reply. -/
theorem mget_assemble (cls : List Cls) (ord : List (Nat × Res)) (part : List (Option Msg))
    (hord : ∀ p, p ∈ ord ↔ p ∈ entries cls)
    (hwait : ∀ w, Cls.pending w ∈ cls → w.err = none ∧ w.val.isSome)
    (hpart : ∀ x ∈ part, x.isSome)
    (hlen : part.length = (cls.filter Cls.isMiss).length) :
    doCacheMGet cls ord (.ok part) = .ok ((spec cls (part.map fun v => ⟨v, none⟩)).map Res.val) := by
  have hwa := waits_after cls ord hord (fun i w h => (hwait w (List.mem_of_getElem? h)).1)
  unfold doCacheMGet
  simp only
  split
  · rename_i h0
    rw [hwa, spec_noMiss _ _ h0]; simp
  · split
    · rename_i hall
      rw [spec_allMiss _ _ hall (by simp [hlen, hall])]
      simp [Function.comp_def]
    · rw [hwa]
      simp only [Except.map]
      rw [refill_eq_fillSpec' _ _ _ (by intro r hr; have := hpart r hr; cases r with
          | none => simp at this
          | some _ => rfl),
        fillSpec_after_mget _ _ (fun w hw => (hwait w hw).2)]

variable {K : Type} [DecidableEq K]

/-- `DoCache(MGET k₁ … kₙ)` / `JSON.MGET`: for every cache state (closed store included), every key
    list (duplicates allowed: the first occurrence of an absent key is fetched, later ones wait on
    that flight) and every server value function `f`, the command sent is the MGET of the missing
    keys in order and the result holds at position i the value of key i — the cached reply, the reply
    of the flight already under way, or `f kᵢ`. -/
theorem mget_positional (closed : Bool) (st : K → Ent) (ks : List K) (f : K → Option Msg)
    (hsrv : ∀ k ∈ ks, (f k).isSome)
    (hwait : ∀ k ∈ ks, ∀ w, st k = .inflight w → w.err = none ∧ w.val.isSome) :
    mgetRun closed st ks (fun rw => .ok (rw.map f))
      = (missKeys closed st [] ks,
         .ok (ks.map fun k => (expected closed st (fun k => ⟨f k, none⟩) k).val)) := by
  unfold mgetRun
  simp only
  congr 1
  have hsub := missKeys_subset closed st [] ks
  have hown : closed = false → ∀ k, st k = .absent → (k ∈ ([] : List K) ∨ k ∈ ks) →
      mgetOwn (missKeys closed st [] ks) (.ok ((missKeys closed st [] ks).map f)) k = ⟨f k, none⟩ := by
    intro hc k ha hm
    subst hc
    have hk : k ∈ missKeys false st [] ks := mem_missKeys st [] ks k ha (by simpa using hm) (by simp)
    simp [mgetOwn, lookup_zip_map _ f k hk]
  rw [mget_assemble]
  · congr 1
    have := spec_classify closed (mgetOwn (missKeys closed st [] ks) (.ok ((missKeys closed st [] ks).map f)))
      (fun k => ⟨f k, none⟩) st [] ks (by simp) hown
    rw [List.map_map]
    simp only [Function.comp_def] at *
    rw [this]; simp
  · intro p; rfl
  · intro w hw
    rcases pending_classify closed _ (fun k => ⟨f k, none⟩) st [] ks w (by simp) hown hw with ⟨k, hk, hst⟩ | ⟨k, hk, _, rfl⟩
    · exact hwait k hk w hst
    · exact ⟨rfl, hsrv k hk⟩
  · intro x hx
    simp only [List.mem_map] at hx
    obtain ⟨k, hk, rfl⟩ := hx
    exact hsrv k (hsub k hk)
  · simp [count_classify]

end Rv.C11
