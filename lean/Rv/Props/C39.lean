/-
C39 — cache-aside reads never leak locks and load once.

Chain: script texts regenerated (`Rv.Gen.LuaScripts`) and pinned here ⇒ hand transcription
`Rv.Aside.acquire/setkey/delkey` (trusted; differentially tested against the Go fake on the
`s.*` lines) ⇒ the `Get` loop as the automaton `Rv.Aside.gstep` and the system `Rv.Aside.next`
(trusted transcription of aside.go; the real clients run end-to-end against the fake with
invalidation pushes and are compared with the automaton run to quiescence after every event).
The theorems hold for every list of events, i.e. every interleaving of Gets of any number of
clients with Del, expiry, foreign writes, loader failures, client deaths, refreshes and
context cancellations.
-/
import Rv.Gen.LuaScripts
import Rv.Model.Aside

namespace Rv.C39
open Rv.Aside

/-! ### 1. pins -/
theorem acquire_script_pinned : Rv.Gen.rueidisaside_acquireLock =
  "if redis.call(\"SET\", KEYS[1], ARGV[1], \"NX\", \"PX\", ARGV[2]) then return nil else return redis.call(\"GET\", KEYS[1]) end" := rfl
theorem setkey_script_pinned : Rv.Gen.rueidisaside_setkey =
  "if redis.call(\"GET\",KEYS[1]) == ARGV[1] then return redis.call(\"SET\",KEYS[1],ARGV[2],\"PX\",ARGV[3]) else return 0 end" := rfl
theorem delkey_script_pinned : Rv.Gen.rueidisaside_delkey =
  "if redis.call(\"GET\",KEYS[1]) == ARGV[1] then return redis.call(\"DEL\",KEYS[1]) else return 0 end" := rfl

/-! ### 2. invariant: results and pending values -/

def isValue : Val → Prop
  | .value _ => True
  | .ph _ => False

/-- what a Get carries is accounted for: a finished Get returned a non-placeholder value that a
loader produced or that was stored for the key; a value about to be stored came from a loader -/
def GoodG (seen : List Val) (g : G) : Prop :=
  (∀ v, g.pc = .done (.ok v) → isValue v ∧ v ∈ seen) ∧ (∀ v, g.pc = .storing v → v ∈ seen)

/-- the key is accounted for: a value in it was stored or loaded by somebody; a placeholder in it
is either such a user value carrying the prefix, or the id of a client whose liveness marker has
been set (`started`) — keepalive publishes a client's id only after the marker SET succeeded -/
def KeyOk (srv : Srv) : Prop :=
  (∀ x, srv.key = some (.value x) → Val.value x ∈ srv.seen) ∧
  (∀ i, srv.key = some (.ph i) → Val.ph i ∈ srv.seen ∨ i ∈ srv.started)

def Inv (s : Sys) : Prop := KeyOk s.srv ∧ ∀ g ∈ s.gs, GoodG s.srv.seen g

private theorem goodG_mono {seen seen' : List Val} {g : G} (h : ∀ v, v ∈ seen → v ∈ seen') (hg : GoodG seen g) :
    GoodG seen' g :=
  ⟨fun v hv => ⟨(hg.1 v hv).1, h v (hg.1 v hv).2⟩, fun v hv => h v (hg.2 v hv)⟩

private theorem goodG_pc {seen : List Val} {g g' : G} (h : g'.pc = g.pc) (hg : GoodG seen g) : GoodG seen g' :=
  ⟨fun v hv => hg.1 v (h ▸ hv), fun v hv => hg.2 v (h ▸ hv)⟩

private theorem mem_wakeKey {gs : List G} {g' : G} (h : g' ∈ wakeKey gs) : ∃ g ∈ gs, g'.pc = g.pc := by
  simp only [wakeKey, List.mem_map] at h
  obtain ⟨g, hg, rfl⟩ := h
  exact ⟨g, hg, rfl⟩

private theorem mem_wakeId {i : Nat} {gs : List G} {g' : G} (h : g' ∈ wakeId i gs) : ∃ g ∈ gs, g'.pc = g.pc := by
  simp only [wakeId, List.mem_map] at h
  obtain ⟨g, hg, rfl⟩ := h
  refine ⟨g, hg, ?_⟩
  split
  · split <;> rfl
  · rfl

private theorem all_wakeKey {seen : List Val} {gs : List G} (h : ∀ g ∈ gs, GoodG seen g) : ∀ g ∈ wakeKey gs, GoodG seen g :=
  fun g' hg' => by obtain ⟨g, hg, hpc⟩ := mem_wakeKey hg'; exact goodG_pc hpc (h g hg)

private theorem all_wakeId {i : Nat} {seen : List Val} {gs : List G} (h : ∀ g ∈ gs, GoodG seen g) :
    ∀ g ∈ wakeId i gs, GoodG seen g :=
  fun g' hg' => by obtain ⟨g, hg, hpc⟩ := mem_wakeId hg'; exact goodG_pc hpc (h g hg)

private theorem all_ite {seen : List Val} {c : Prop} [Decidable c] {a b : List G}
    (ha : ∀ g ∈ a, GoodG seen g) (hb : ∀ g ∈ b, GoodG seen g) : ∀ g ∈ (if c then a else b), GoodG seen g := by
  split <;> assumption

/-- one step of one Get keeps the accounting: the server's key stays accounted, `seen` only
grows, and the Get's new state is accounted -/
@[simp] private theorem keepalive_key (t : Srv) (d : Nat) : (keepalive t d).key = t.key := by unfold keepalive; split <;> rfl
@[simp] private theorem keepalive_seen (t : Srv) (d : Nat) : (keepalive t d).seen = t.seen := by unfold keepalive; split <;> rfl
@[simp] private theorem keepalive_loads (t : Srv) (d : Nat) : (keepalive t d).loads = t.loads := by unfold keepalive; split <;> rfl

@[simp] private theorem keepalive_started (t : Srv) (d i : Nat) :
    i ∈ (keepalive t d).started ↔ i = d ∨ i ∈ t.started := by
  unfold keepalive; split
  · rename_i h; constructor
    · exact Or.inr
    · rintro (e | e)
      · exact e ▸ h
      · exact e
  · simp

theorem gstep_good (s : Srv) (g : G) (load : Option Val) (hk : KeyOk s) (hg : GoodG s.seen g) :
    KeyOk (gstep s g load).1 ∧ (∀ v, v ∈ s.seen → v ∈ (gstep s g load).1.seen) ∧
      GoodG (gstep s g load).1.seen (gstep s g load).2 := by
  obtain ⟨id, pc, wk, wi, canc⟩ := g
  obtain ⟨key, alive, started, seen, loads⟩ := s
  simp only [KeyOk, GoodG] at *
  cases canc <;> cases pc <;> simp only [gstep, gstepLive, gstepCancelled, Bool.false_eq_true, if_false, if_true]
  all_goals (try (cases load))
  all_goals (rcases key with _ | (_ | _))
  all_goals (try simp only [acquire, keepalive_key])
  all_goals (repeat' split)
  all_goals simp_all [isValue, setkey, delkey]
  all_goals (try (first
    | (intro h; subst h; assumption)
    | (rcases hk with h | h <;> simp_all; done)
    | (intro x; split <;> simp_all; done)
    | (refine ⟨?_, ?_⟩ <;> intro x <;> split <;> simp_all <;> (first | done | (intro h; subst h; first | assumption | exact Or.inl ‹_›)))))

theorem inv_next (s : Sys) (e : Ev) (h : Inv s) : Inv (next s e) := by
  obtain ⟨hk, hgs⟩ := h
  cases e with
  | newGet id =>
    refine ⟨hk, ?_⟩
    intro g hg
    simp only [next, List.mem_append, List.mem_singleton] at hg
    rcases hg with hg | hg
    · exact hgs g hg
    · subst hg; simp [GoodG]
  | step i load =>
    simp only [next]
    cases hgi : s.gs[i]? with
    | none => exact ⟨hk, hgs⟩
    | some g =>
      have hgm : g ∈ s.gs := List.mem_of_getElem? hgi
      obtain ⟨hk', hmono, hg'⟩ := gstep_good s.srv g load hk (hgs g hgm)
      refine ⟨hk', ?_⟩
      have hset : ∀ x ∈ setAt s.gs i (gstep s.srv g load).2, GoodG (gstep s.srv g load).1.seen x := by
        intro x hx
        rcases List.mem_or_eq_of_mem_set hx with h | h
        · exact goodG_mono hmono (hgs x h)
        · exact h ▸ hg'
      exact all_ite (all_ite hset (all_wakeKey hset)) (all_wakeId (all_ite hset (all_wakeKey hset)))
  | cancel i =>
    simp only [next]
    cases hgi : s.gs[i]? with
    | none => exact ⟨hk, hgs⟩
    | some g =>
      refine ⟨hk, ?_⟩
      intro x hx
      rcases List.mem_or_eq_of_mem_set hx with h | h
      · exact hgs x h
      · exact h ▸ goodG_pc (g := g) rfl (hgs g (List.mem_of_getElem? hgi))
  | del => exact ⟨⟨(fun x hx => by cases hx), (fun i hi => by cases hi)⟩, all_ite hgs (all_wakeKey hgs)⟩
  | expire => exact ⟨⟨(fun x hx => by cases hx), (fun i hi => by cases hi)⟩, all_ite hgs (all_wakeKey hgs)⟩
  | put v =>
    refine ⟨?_, all_wakeKey (fun g hg => goodG_mono (fun _ h => List.mem_cons_of_mem _ h) (hgs g hg))⟩
    constructor
    · intro x hx
      simp only [next] at hx
      cases hx
      exact List.mem_cons_self ..
    · intro i hi
      simp only [next] at hi
      cases hi
      exact Or.inl (List.mem_cons_self ..)
  | death id => exact ⟨hk, all_ite (all_wakeId hgs) hgs⟩
  | refresh id => exact ⟨hk, all_wakeId hgs⟩

theorem inv_run (s : Sys) (es : List Ev) (h : Inv s) : Inv (run s es) := by
  induction es generalizing s with
  | nil => exact h
  | cons e r ih => exact ih _ (inv_next s e h)

private theorem inv_init : Inv {} := ⟨⟨(fun x hx => by cases hx), (fun i hi => by cases hi)⟩, (fun g hg => by cases hg)⟩

/-- for every interleaving, a value returned by Get is never the lock placeholder -/
theorem never_returns_placeholder (es : List Ev) (g : G) (v : Val)
    (hg : g ∈ (run {} es).gs) (hd : g.pc = .done (.ok v)) : isValue v :=
  (((inv_run {} es inv_init).2 g hg).1 v hd).1

/-- for every interleaving, a value returned by Get was produced by a loader or stored for the
key by somebody (`seen` records exactly the loader outputs and the foreign writes) -/
theorem value_is_loader_or_stored (es : List Ev) (g : G) (v : Val)
    (hg : g ∈ (run {} es).gs) (hd : g.pc = .done (.ok v)) : v ∈ (run {} es).srv.seen :=
  (((inv_run {} es inv_init).2 g hg).1 v hd).2

/-- for every interleaving: a placeholder in the key that is not a user value carrying the
prefix belongs to a client whose liveness marker has been set before — keepalive publishes the
client id only after its marker SET succeeded, and a Get locks the key only with a published id.
(Another client that reads the placeholder therefore finds the marker unless it expired.) -/
theorem placeholder_implies_marker_was_set (es : List Ev) (i : Nat)
    (hk : (run {} es).srv.key = some (.ph i)) (hu : Val.ph i ∉ (run {} es).srv.seen) :
    i ∈ (run {} es).srv.started := by
  rcases (inv_run {} es inv_init).1.2 i hk with h | h
  · exact absurd h hu
  · exact h

/-! ### 3. one loader while the holder's placeholder is in place -/

/-- the events that can remove or replace the placeholder of client `c`: Del, expiry, a foreign
write, the holder's own setkey/delkey, and the delkey of a Get that found `c`'s liveness key missing -/
def touches (s : Sys) (c : Nat) : Ev → Bool
  | .del | .expire | .put _ => true
  | .step i _ =>
    match s.gs[i]? with
    | some g => (match g.pc with
        | .storing _ => g.id == c
        | .releasing => g.id == c
        | .freeing j => j == c
        | _ => false)
    | none => false
  | _ => false

private theorem gstep_keeps_ph (s : Srv) (g : G) (load : Option Val) (c : Nat) (hk : s.key = some (.ph c))
    (ht : (match g.pc with
        | .storing _ => g.id == c
        | .releasing => g.id == c
        | .freeing j => j == c
        | _ => false) = false) :
    (gstep s g load).1.key = some (.ph c) ∧ (gstep s g load).1.loads = s.loads := by
  obtain ⟨id, pc, wk, wi, canc⟩ := g
  obtain ⟨key, alive, started, seen, loads⟩ := s
  simp only at hk
  subst hk
  cases canc <;> cases pc <;> simp only [gstep, gstepLive, gstepCancelled, Bool.false_eq_true, if_false, if_true]
  all_goals (try (cases load))
  all_goals (try simp only [acquire, keepalive_key])
  all_goals (repeat' split)
  all_goals simp_all [setkey, delkey]
  all_goals (split <;> simp_all)

/-- while client `c`'s placeholder is in the key, no other event changes the key or starts a
loader: every other Get's lock attempt fails and it waits -/
theorem placeholder_stable (s : Sys) (c : Nat) (e : Ev) (hk : s.srv.key = some (.ph c))
    (ht : touches s c e = false) :
    (next s e).srv.key = some (.ph c) ∧ (next s e).srv.loads = s.srv.loads := by
  cases e with
  | newGet id => exact ⟨hk, rfl⟩
  | cancel i => simp only [next]; cases s.gs[i]? <;> exact ⟨hk, rfl⟩
  | del => simp [touches] at ht
  | expire => simp [touches] at ht
  | put v => simp [touches] at ht
  | death id => exact ⟨hk, rfl⟩
  | refresh id => exact ⟨hk, rfl⟩
  | step i load =>
    simp only [next]
    cases hgi : s.gs[i]? with
    | none => exact ⟨hk, rfl⟩
    | some g =>
      simp only [touches, hgi] at ht
      exact gstep_keeps_ph s.srv g load c hk ht

/-- over any stretch of events none of which touches `c`'s placeholder, the loader count does
not move: concurrent Gets of all clients run no second loader and wait for the holder -/
theorem one_loader_while_holder_alive (c : Nat) (es : List Ev) (s : Sys) (hk : s.srv.key = some (.ph c))
    (hquiet : ∀ (pre : List Ev) (e : Ev) (post : List Ev), es = pre ++ e :: post → touches (run s pre) c e = false) :
    (run s es).srv.key = some (.ph c) ∧ (run s es).srv.loads = s.srv.loads := by
  induction es generalizing s with
  | nil => exact ⟨hk, rfl⟩
  | cons e r ih =>
    have h0 := hquiet [] e r rfl
    obtain ⟨hk', hl'⟩ := placeholder_stable s c e hk h0
    have := ih (next s e) hk' (fun pre e' post heq => hquiet (e :: pre) e' post (by simp [heq]))
    exact ⟨this.1, this.2.trans hl'⟩

/-- a Get starts to free `c`'s placeholder only after it saw `c`'s liveness key missing: as long
as the holder is alive nobody enters `freeing c` -/
theorem freeing_needs_dead (s : Srv) (g : G) (load : Option Val) (c : Nat)
    (h : (gstep s g load).2.pc = .freeing c) (hn : g.pc ≠ .freeing c) : c ∉ s.alive := by
  obtain ⟨id, pc, wk, wi, canc⟩ := g
  obtain ⟨key, alive, started, seen, loads⟩ := s
  cases canc <;> cases pc <;> simp only [gstep, gstepLive, gstepCancelled, Bool.false_eq_true, if_false, if_true] at h
  all_goals (try (cases load))
  all_goals (rcases key with _ | (_ | _))
  all_goals (try simp only [acquire, keepalive_key] at h)
  all_goals (repeat' split at h)
  all_goals simp_all

/-! ### 4. a dead holder's placeholder is released -/

def gsteps (s : Srv) (g : G) : Nat → Srv × G
  | 0 => (s, g)
  | n + 1 => let r := gstep s g none; gsteps r.1 r.2 n

/-- if the key holds the placeholder of a client whose liveness key is gone, a Get of any client
run on its own (seven steps: register, read, check holder, delkey, register, read, lock) removes the
placeholder, takes the lock and runs its loader -/
theorem dead_holder_released (s : Srv) (c d : Nat) (hk : s.key = some (.ph c)) (hdead : c ∉ s.alive) :
    (gsteps s { id := d } 7).2.pc = .loading ∧ (gsteps s { id := d } 7).1.key = some (.ph d) ∧
      (gsteps s { id := d } 7).1.loads = s.loads + 1 := by
  simp [gsteps, gstep, gstepLive, hk, hdead, delkey, acquire]

/-! ### 5. waiters do not miss the wake-up (register BEFORE read) -/

/-- what a Get knows is still true unless it has been woken: between its read of a placeholder
and its liveness check (`checkHolder`), and while parked (`waiting`), an un-woken Get's key
still holds the placeholder it read and (parked, id channel un-woken) the holder's liveness key
still exists. A Get that holds the lock has been woken by its own acquisition. This needs the
order `wait := c.register(key)` BEFORE `DoCache GET key`: with the registration after the read, a
write between the two would leave `wKey = false` with a changed key. -/
def WG (srv : Srv) (g : G) : Prop :=
  (∀ i, g.pc = .checkHolder i → g.wKey = false → srv.key = some (.ph i)) ∧
  (∀ i, g.pc = .waiting i → (g.wKey = false → srv.key = some (.ph i)) ∧ (g.wId = false → i ∈ srv.alive)) ∧
  (g.pc = .loading → g.wKey = true) ∧ (g.pc = .releasing → g.wKey = true) ∧ (∀ v, g.pc = .storing v → g.wKey = true)

def WInv (s : Sys) : Prop := ∀ g ∈ s.gs, WG s.srv g

private theorem keepalive_alive (t : Srv) (d j : Nat) (h : j ∈ t.alive) : j ∈ (keepalive t d).alive := by
  unfold keepalive; split
  · exact h
  · simp only; split
    · exact h
    · exact List.mem_cons_of_mem _ h

/-- the stepping Get itself (with the wake flag its own write of the key sets) -/
theorem wg_own (s : Srv) (g : G) (load : Option Val) (h : WG s g) :
    WG (gstep s g load).1
      (if (gstep s g load).1.key = s.key then (gstep s g load).2 else { (gstep s g load).2 with wKey := true }) := by
  obtain ⟨id, pc, wk, wi, canc⟩ := g
  obtain ⟨key, alive, started, seen, loads⟩ := s
  simp only [WG] at *
  cases canc <;> cases pc <;> simp only [gstep, gstepLive, gstepCancelled, Bool.false_eq_true, if_false, if_true]
  all_goals (try (cases load))
  all_goals (rcases key with _ | (_ | _))
  all_goals (try simp only [acquire, keepalive_key])
  all_goals (repeat' split)
  all_goals simp_all [setkey, delkey]

/-- a step only adds liveness keys -/
private theorem gstep_alive (s : Srv) (g : G) (load : Option Val) (j : Nat) (h : j ∈ s.alive) :
    j ∈ (gstep s g load).1.alive := by
  obtain ⟨id, pc, wk, wi, canc⟩ := g
  have hk := keepalive_alive s id j h
  cases canc <;> cases pc <;> simp only [gstep, gstepLive, gstepCancelled, Bool.false_eq_true, if_false, if_true]
  all_goals (try (cases load))
  all_goals (repeat' split)
  all_goals (first | exact h | exact hk | simp_all)

private theorem wg_frame (s s' : Srv) (x : G) (h : WG s x) (hk : s'.key = s.key)
    (ha : ∀ j, j ∈ s.alive → j ∈ s'.alive) : WG s' x := by
  obtain ⟨h1, h2, h3⟩ := h
  refine ⟨fun i hp hw => hk ▸ h1 i hp hw, fun i hp => ⟨fun hw => hk ▸ (h2 i hp).1 hw, fun hw => ha i ((h2 i hp).2 hw)⟩, h3⟩

private theorem wg_woken (s s' : Srv) (x : G) (h : WG s x) (ha : ∀ j, j ∈ s.alive → j ∈ s'.alive) :
    WG s' { x with wKey := true } := by
  obtain ⟨_, h2, _⟩ := h
  refine ⟨fun i _ hw => by simp at hw, fun i hp => ⟨fun hw => by simp at hw, fun hw => ha i ((h2 i hp).2 hw)⟩,
    fun _ => rfl, fun _ => rfl, fun _ _ => rfl⟩

def wid (i : Nat) (g : G) : G :=
  match g.pc with
  | .waiting j => if i = j then { g with wId := true } else g
  | _ => g

private theorem wg_wid (s : Srv) (i : Nat) (x : G) (h : WG s x) : WG s (wid i x) := by
  obtain ⟨id, pc, wk, wi, canc⟩ := x
  simp only [WG, wid] at *
  cases pc <;> simp_all
  split <;> simp_all

/-- the liveness key `i` disappears: the Gets parked on `i` are woken, the others never relied on it -/
private theorem wg_death (s : Srv) (i : Nat) (x : G) (h : WG s x) (hi : i ∈ s.alive) :
    WG { s with alive := s.alive.filter (· ≠ i) } (wid i x) := by
  obtain ⟨id, pc, wk, wi, canc⟩ := x
  simp only [WG, wid] at *
  cases pc <;> simp_all
  split <;> simp_all
  rename_i hne
  exact fun _ e => hne e.symm

private theorem wg_death_absent (s : Srv) (i : Nat) (x : G) (h : WG s x) (hi : i ∉ s.alive) :
    WG { s with alive := s.alive.filter (· ≠ i) } x := by
  obtain ⟨h1, h2, h3⟩ := h
  refine ⟨h1, fun j hp => ⟨(h2 j hp).1, fun hw => ?_⟩, h3⟩
  have hj := (h2 j hp).2 hw
  simp only [List.mem_filter, decide_eq_true_eq]
  exact ⟨hj, fun e => hi (e ▸ hj)⟩

private theorem mem_wakeKey' {gs : List G} {g' : G} (h : g' ∈ wakeKey gs) : ∃ g ∈ gs, g' = { g with wKey := true } := by
  simp only [wakeKey, List.mem_map] at h
  obtain ⟨g, hg, rfl⟩ := h
  exact ⟨g, hg, rfl⟩

private theorem mem_wakeId' {i : Nat} {gs : List G} {g' : G} (h : g' ∈ wakeId i gs) : ∃ g ∈ gs, g' = wid i g := by
  simp only [wakeId, List.mem_map] at h
  obtain ⟨g, hg, rfl⟩ := h
  exact ⟨g, hg, rfl⟩

/-- WAITERS (cache-aside): for EVERY event the invariant is preserved — in particular a parked
Get that has not been woken still waits for the placeholder of a holder whose liveness key
exists: no wake-up (holder's result, release, Del, expiry, holder death) is ever missed -/
theorem waiter_not_lost (s : Sys) (e : Ev) (inv : WInv s) : WInv (next s e) := by
  cases e with
  | newGet id =>
    intro g hg
    simp only [next, List.mem_append, List.mem_singleton] at hg
    rcases hg with hg | hg
    · exact inv g hg
    · subst hg; simp [WG]
  | cancel i =>
    simp only [next]
    cases hgi : s.gs[i]? with
    | none => exact inv
    | some g =>
      intro x hx
      rcases List.mem_or_eq_of_mem_set hx with h | h
      · exact inv x h
      · subst h
        have := inv g (List.mem_of_getElem? hgi)
        exact this
  | del =>
    intro x hx
    simp only [next] at hx ⊢
    by_cases hk : s.srv.key = none
    · rw [if_pos hk] at hx
      exact wg_frame s.srv _ x (inv x hx) (by simp [hk]) (fun _ h => h)
    · rw [if_neg hk] at hx
      obtain ⟨g, hg, rfl⟩ := mem_wakeKey' hx
      exact wg_woken s.srv _ g (inv g hg) (fun _ h => h)
  | expire =>
    intro x hx
    simp only [next] at hx ⊢
    by_cases hk : s.srv.key = none
    · rw [if_pos hk] at hx
      exact wg_frame s.srv _ x (inv x hx) (by simp [hk]) (fun _ h => h)
    · rw [if_neg hk] at hx
      obtain ⟨g, hg, rfl⟩ := mem_wakeKey' hx
      exact wg_woken s.srv _ g (inv g hg) (fun _ h => h)
  | put v =>
    intro x hx
    simp only [next] at hx ⊢
    obtain ⟨g, hg, rfl⟩ := mem_wakeKey' hx
    exact wg_woken s.srv _ g (inv g hg) (fun _ h => h)
  | death id =>
    intro x hx
    simp only [next] at hx ⊢
    by_cases hi : id ∈ s.srv.alive
    · rw [if_pos hi] at hx
      obtain ⟨g, hg, rfl⟩ := mem_wakeId' hx
      exact wg_death s.srv id g (inv g hg) hi
    · rw [if_neg hi] at hx
      exact wg_death_absent s.srv id x (inv x hx) hi
  | refresh id =>
    intro x hx
    simp only [next] at hx ⊢
    obtain ⟨g, hg, rfl⟩ := mem_wakeId' hx
    apply wg_wid
    refine wg_frame s.srv _ g (inv g hg) rfl ?_
    intro j hj
    show j ∈ (if id ∈ s.srv.alive then s.srv.alive else id :: s.srv.alive)
    split
    · exact hj
    · exact List.mem_cons_of_mem _ hj
  | step i load =>
    simp only [next]
    cases hgi : s.gs[i]? with
    | none => exact inv
    | some g =>
      have hgm : g ∈ s.gs := List.mem_of_getElem? hgi
      have hown := wg_own s.srv g load (inv g hgm)
      have hal := gstep_alive s.srv g load
      -- every element of the final list, before the id wake
      have hmid : ∀ x ∈ (if (gstep s.srv g load).1.key = s.srv.key then setAt s.gs i (gstep s.srv g load).2
                      else wakeKey (setAt s.gs i (gstep s.srv g load).2)), WG (gstep s.srv g load).1 x := by
        by_cases hk : (gstep s.srv g load).1.key = s.srv.key
        · rw [if_pos hk]
          intro x hx
          rcases List.mem_or_eq_of_mem_set hx with h | h
          · exact wg_frame s.srv _ x (inv x h) hk hal
          · subst h; simpa [hk] using hown
        · rw [if_neg hk]
          intro x hx
          obtain ⟨y, hy, rfl⟩ := mem_wakeKey' hx
          rcases List.mem_or_eq_of_mem_set hy with h | h
          · exact wg_woken s.srv _ y (inv y h) hal
          · subst h; simpa [hk] using hown
      intro x hx
      simp only at hx ⊢
      by_cases ha : (gstep s.srv g load).1.alive = s.srv.alive
      · rw [if_pos ha] at hx; exact hmid x hx
      · rw [if_neg ha] at hx
        obtain ⟨y, hy, rfl⟩ := mem_wakeId' hx
        exact wg_wid _ _ y (hmid y hy)

theorem waiter_not_lost_run (es : List Ev) : WInv (run {} es) := by
  have h0 : WInv ({} : Sys) := fun g hg => by cases hg
  generalize ({} : Sys) = s at h0
  induction es generalizing s with
  | nil => exact h0
  | cons e r ih => exact ih _ (waiter_not_lost s e h0)

/-- in plain words: in every reachable state a parked Get that no invalidation has reached is
parked on the placeholder that is still in the key, of a holder whose liveness key still exists -/
theorem parked_means_live_holder (es : List Ev) (g : G) (i : Nat) (hg : g ∈ (run {} es).gs)
    (hp : g.pc = .waiting i) (hk : g.wKey = false) (hi : g.wId = false) :
    (run {} es).srv.key = some (.ph i) ∧ i ∈ (run {} es).srv.alive :=
  ⟨((waiter_not_lost_run es g hg).2.1 i hp).1 hk, ((waiter_not_lost_run es g hg).2.1 i hp).2 hi⟩

/-! ### 5b. releasing a dead holder's lock is compare-and-delete -/

/-- the release a Get performs after it found holder `i`'s liveness key missing is the delkey
script on the placeholder VALUE it read: in every state — hence in every interleaving, however
long the Get was delayed and whatever happened meanwhile — it leaves the placeholder of any
other client `j` in place. A second client that detected the same dead holder later cannot
remove the lock the first one has taken in the meantime. -/
theorem release_of_dead_lock_never_removes_live_placeholder (s : Sys) (idx : Nat) (load : Option Val) (g : G)
    (i j : Nat) (hg : s.gs[idx]? = some g) (hpc : g.pc = .freeing i) (hk : s.srv.key = some (.ph j)) (hne : j ≠ i) :
    (next s (.step idx load)).srv.key = some (.ph j) := by
  simp only [next, hg]
  obtain ⟨id, pc, wk, wi, canc⟩ := g
  simp only at hpc
  subst hpc
  cases canc <;> simp [gstep, gstepLive, gstepCancelled, delkey, hk, hne]

/-- and it does remove the dead holder's own placeholder (the lock is released) -/
theorem release_of_dead_lock_removes_it (s : Sys) (idx : Nat) (load : Option Val) (g : G)
    (i : Nat) (hg : s.gs[idx]? = some g) (hpc : g.pc = .freeing i) (hk : s.srv.key = some (.ph i)) :
    (next s (.step idx load)).srv.key = none := by
  simp only [next, hg]
  obtain ⟨id, pc, wk, wi, canc⟩ := g
  simp only at hpc
  subst hpc
  cases canc <;> simp [gstep, gstepLive, gstepCancelled, delkey, hk]

/-! ### 5c. every error exit of the lock holder gives the lock back -/

/-- the lock holder leaves Get with an error in two ways: the loader failed (`releasing`), or the
loader succeeded and the store of its value failed on the caller's side (`storing` with the
context done). In both the step runs delkey: if the key still holds the holder's placeholder it is
removed, and the Get is finished with the error. No live client keeps a lock it does not load for. -/
theorem holder_error_exit_releases (s : Srv) (g : G) (load : Option Val)
    (hpc : g.pc = .releasing ∨ (∃ v, g.pc = .storing v ∧ g.cancelled = true))
    (hk : s.key = some (.ph g.id)) :
    (gstep s g load).1.key = none ∧ (gstep s g load).2.pc = .done .err := by
  obtain ⟨id, pc, wk, wi, canc⟩ := g
  simp only at hpc hk
  rcases hpc with h | ⟨v, h, hc⟩
  · subst h
    cases canc <;> simp [gstep, gstepLive, gstepCancelled, delkey, hk]
  · subst h; subst hc
    simp [gstep, gstepCancelled, delkey, hk]

/-! ### 6. script facts and non-vacuity -/
theorem acquire_iff_absent (id : Nat) (k : Option Val) : (acquire id k).2 = none ↔ k = none := by
  cases k <;> simp [acquire]

example : (run {} [.newGet 1, .step 0 none, .step 0 none, .step 0 none, .step 0 (some (.value "v")), .step 0 none]).srv.key
    = some (.value "v") := by decide
example : touches (run {} [.newGet 1, .step 0 none, .step 0 none, .step 0 none, .newGet 2]) 1 (.step 1 none) = false := by decide

end Rv.C39
