/-
C17 — cache serialization round-trips.
Model: Rv/Model/CacheMarshal.lean (cachesize/serialize/unmarshalView, CacheSize/CacheMarshal/
CacheUnmarshalView, setExpireAt/getExpireAt of /repo/message.go).
-/
import Rv.Lemmas.CodecMarshal
namespace Rv.C17
open Rv Rv.CacheMarshal Rv.CodecL

/-- `CacheMarshal` writes exactly `CacheSize` bytes (every message, every 7-byte ttl) -/
theorem marshal_length (ttl : List UInt8) (m : Msg) (ht : ttl.length = 7) :
    (marshal ttl m).length = cacheSize m := by
  simp [marshal, cacheSize, serialize_length, ht]; omega

/-- **Round trip.** For every message tree whose sizes fit (`Fits`: integers are int64, strings
    shorter than 2^62 bytes, element slices fit in one allocation of `L ≤ maxAlloc` bytes) and every
    7-byte expiry, `CacheUnmarshalView (CacheMarshal m)` — even when followed by further bytes —
    succeeds with `norm m` (same tree shape, type bytes, string bytes, integers; attributes dropped,
    the root marked as cached) and the same 7 expiry bytes. No panic, no out-of-memory. -/
theorem unmarshal_marshal (L : Nat) (hL : L ≤ maxAlloc) (ttl : List UInt8) (m : Msg) (ht : ttl.length = 7)
    (hf : Fits L m) (junk : List UInt8) (hlen : (marshal ttl m ++ junk).length < 4611686018427387904) :
    unmarshal L (marshal ttl m ++ junk) = .ok (norm m, ttl) := by
  have hd := depth_le m
  unfold unmarshal
  have h7 : ¬ (marshal ttl m ++ junk).length < 7 := by simp [marshal, ht]
  have hdrop : (marshal ttl m ++ junk).drop 7 = serialize m ++ junk := by
    simp only [marshal, List.append_assoc]
    rw [List.drop_append_of_le_length (by omega), List.drop_of_length_le (by omega)]; rfl
  have htake : (marshal ttl m ++ junk).take 7 = ttl := by
    simp only [marshal, List.append_assoc]
    rw [List.take_append_of_le_length (by omega), List.take_of_length_le (by omega)]
  rw [if_neg h7, hdrop, htake]
  rw [((all_ok L hL m) hf).1 _ _ junk hlen (by simp [marshal] at *; omega)]

/-- **Truncation.** Every proper prefix of a marshalled buffer (all `k = 0 … length-1`, i.e. inside
    the ttl, inside a header, inside a string, between elements at any depth) is rejected with
    `ErrCacheUnmarshal` — never a panic, never an out-of-memory. -/
theorem truncation_is_error (L : Nat) (hL : L ≤ maxAlloc) (ttl : List UInt8) (m : Msg) (ht : ttl.length = 7)
    (hf : Fits L m) (hlen : (marshal ttl m).length < 4611686018427387904)
    (k : Nat) (hk : k < (marshal ttl m).length) :
    unmarshal L ((marshal ttl m).take k) = .err errUnmarshal := by
  unfold unmarshal
  have hl : ((marshal ttl m).take k).length = k := by simp; omega
  rw [hl]
  by_cases h7 : k < 7
  · rw [if_pos h7]
  · rw [if_neg h7]
    have hdrop : ((marshal ttl m).take k).drop 7 = (serialize m).take (k - 7) := by
      simp only [marshal]
      rw [List.take_append, List.take_of_length_le (by omega), List.drop_append_of_le_length (by omega),
        List.drop_of_length_le (by omega), ht]; rfl
    have hk' : k - 7 < (serialize m).length := by simp [marshal] at hk; omega
    rw [hdrop, ((all_ok L hL m) hf).2 k (k + 1) (k - 7) (by omega) hk' (by omega)]

/-! ### what `norm` preserves -/

mutual
/-- the message without attributes (at any depth) -/
def strip : Msg → Msg
  | .mk t s i xs _ => .mk t s i (stripL xs) []
def stripL : List Msg → List Msg
  | [] => []
  | x :: xs => strip x :: stripL xs
end

/-- the shape of messages the RESP reader produces for cacheable replies: integer-like types carry
    only an integer, aggregates (`*` `%` `~`) carry `intlen = len(values)` elements, every other type
    carries `intlen = len(string)` bytes -/
def CanonNode (k : Kind) (s : List UInt8) (i : Int) (xs : List Msg) : Prop :=
  match k with
  | .int => s = [] ∧ xs = []
  | .agg => s = [] ∧ i = xs.length
  | .str => i = s.length ∧ xs = []

mutual
def Canon : Msg → Prop
  | .mk t s i xs _ => CanonNode (kindOf t) s i xs ∧ CanonL xs
def CanonL : List Msg → Prop
  | [] => True
  | x :: xs => Canon x ∧ CanonL xs
end

/-- on reader-shaped messages the round trip is the identity up to attributes: tree, types,
    strings, integers and lengths all survive -/
theorem norm_canon : ∀ m : Msg, Canon m → norm m = strip m := by
  intro m
  refine Msg.rec (motive_1 := fun m => Canon m → norm m = strip m)
    (motive_2 := fun xs => CanonL xs → normL xs = stripL xs) ?_ ?_ ?_ m
  · intro t s i xs ats ih _ hc
    obtain ⟨hn, hl⟩ := hc
    simp only [norm, strip]
    cases hk : kindOf t <;> simp only [hk, CanonNode] at hn ⊢
    · obtain ⟨h1, h2⟩ := hn; subst h1; subst h2; rfl
    · obtain ⟨h1, h2⟩ := hn; subst h1; subst h2; rw [ih hl]
    · obtain ⟨h1, h2⟩ := hn; subst h1; subst h2; rfl
  · intro _; rfl
  · intro x xs ihx ihxs hc
    simp only [normL, stripL, ihx hc.1, ihxs hc.2]

/-- the type byte always survives, also for messages that are not reader-shaped -/
theorem norm_typ (m : Msg) : (norm m).typ = m.typ := by
  cases m with
  | mk t s i xs a => simp only [norm]; cases kindOf t <;> rfl

/-- the default branch treats unknown types as strings: a push (`>`) or attribute (`|`) message
    with elements is NOT preserved (its elements are dropped) — such messages are never cached -/
example : norm (.mk 62 [] 1 [Msg.leafInt 58 7] []) = .mk 62 [] 0 [] [] := by
  simp [norm, kindOf]

/-! ### expiry -/

theorem packTTL_length (v : Int) : (packTTL v).length = 7 := rfl

/-- `getExpireAt ∘ setExpireAt` is the identity on 0 … 2^56-1 (and reduces mod 2^56 otherwise) -/
theorem ttl_roundtrip (v : Int) : (unpackTTL (packTTL v) : Int) = v % 72057594037927936 := by
  have h := u64_lt v
  have e : ((u64 v : Nat) : Int) = v % 18446744073709551616 := by unfold u64; omega
  simp only [unpackTTL, packTTL, List.foldr, UInt8.toNat_ofNat']
  omega

/-- the expiry survives marshalling: the 7 bytes `setExpireAt v` stores come back unchanged -/
theorem expiry_preserved (L : Nat) (hL : L ≤ maxAlloc) (v : Int) (m : Msg) (hf : Fits L m)
    (hlen : (marshal (packTTL v) m).length < 4611686018427387904) :
    unmarshal L (marshal (packTTL v) m) = .ok (norm m, packTTL v) := by
  have := unmarshal_marshal L hL (packTTL v) m rfl hf [] (by simpa using hlen)
  simpa using this

/-! ### outside the property: arbitrary (corrupted) buffers can panic `unmarshalView` -/

/-- a string header with length field 0xFFFFFFFFFFFFFFFF (= -1): `buf[c : c-1]` panics -/
theorem corrupt_buffer_can_panic :
    unmarshal maxAlloc ([0,0,0,0,0,0,0] ++ [36, 255,255,255,255,255,255,255,255]) = .panic := by
  simp [unmarshal, unView, hdr, kindOf, rd8, i64, strCase]

/-- an array header with a negative element count: `make([]RedisMessage, -1)` panics -/
theorem corrupt_count_can_panic :
    unmarshal maxAlloc ([0,0,0,0,0,0,0] ++ [42, 255,255,255,255,255,255,255,255]) = .panic := by
  simp [unmarshal, unView, hdr, kindOf, rd8, i64, aggCase, allocMsgs]

/-! non-vacuity -/
example : Fits maxAlloc (.mk 42 [] 2 [Msg.leafStr 36 [1, 2], Msg.leafInt 58 (-5)] []) := by
  simp [Fits, FitsL, FitsNode, kindOf, Msg.leafStr, Msg.leafInt, msgBytes, maxAlloc]
example : Canon (.mk 42 [] 2 [Msg.leafStr 36 [1, 2], Msg.leafInt 58 (-5)] []) := by
  simp [Canon, CanonL, CanonNode, kindOf, Msg.leafStr, Msg.leafInt]

end Rv.C17
