import Rv.Model.InitPlan
/-!
C47 — connection setup applies the configured session settings.

The command lists are the ones regenerated from `_newPipe` (`Rv.Gen.InitPlan`); the
theorems below hold for EVERY option record (the plan only depends on the option record
through 13 guard conditions, so token-level facts are decided over all 2^13 valuations,
then transported to strings by `map`), for every resolved credential pair and for every
reply function of the server (induction over the reply-evaluation loops).
-/
namespace Rv.C47
open Rv.InitPlan Rv.Gen.InitPlan

/-! ### transport: every valuation of the guard atoms is one of the 2^13 Boolean tuples -/

def evOf (b0 b1 b2 b3 b4 b5 b6 b7 b8 b9 b10 b11 b12 : Bool) : Atom → Bool
  | .passOnly => b0 | .hasUser => b1 | .hasName => b2 | .azInfo => b3 | .cache => b4 | .trackNil => b5
  | .selDB => b6 | .readonly => b7 | .noTouch => b8 | .noEvict => b9 | .redirect => b10
  | .setInfo2 => b11 | .setInfoNil => b12

private theorem ev_eq (ev : Atom → Bool) :
    ev = evOf (ev .passOnly) (ev .hasUser) (ev .hasName) (ev .azInfo) (ev .cache) (ev .trackNil) (ev .selDB)
      (ev .readonly) (ev .noTouch) (ev .noEvict) (ev .redirect) (ev .setInfo2) (ev .setInfoNil) := by
  funext a; cases a <;> rfl

private theorem forall_ev {P : (Atom → Bool) → Prop}
    (h : ∀ b0 b1 b2 b3 b4 b5 b6 b7 b8 b9 b10 b11 b12, P (evOf b0 b1 b2 b3 b4 b5 b6 b7 b8 b9 b10 b11 b12)) :
    ∀ ev, P ev := fun ev => ev_eq ev ▸ h ..

/-! ### specification: what the settings demand, in order (hand-written) -/

def lits (ks : List Kw) : List Tok := ks.map .lit

/-- credentials in HELLO 3: `AUTH default <password>` when only a password is configured,
    `AUTH <username> <password>` when a user name is configured, nothing otherwise -/
def authArgs (ev : Atom → Bool) : List Tok :=
  if ev .passOnly then lits [.k_AUTH, .k_default] ++ [.password]
  else if ev .hasUser then lits [.k_AUTH] ++ [.username, .password] else []

def hello3Spec (ev : Atom → Bool) : List Tok :=
  lits [.k_HELLO, .k_3] ++ authArgs ev ++ (if ev .hasName then [.lit .k_SETNAME, .clientName] else [])

def opt (c : Bool) (cmd : List Tok) : List (List Tok) := if c then [cmd] else []

def setInfoSpec (ev : Atom → Bool) : List (List Tok) :=
  if ev .setInfo2 then [lits [.k_CLIENT, .k_SETINFO, .k_LIB_NAME] ++ [.setInfo0], lits [.k_CLIENT, .k_SETINFO, .k_LIB_VER] ++ [.setInfo1]]
  else if ev .setInfoNil then [lits [.k_CLIENT, .k_SETINFO, .k_LIB_NAME] ++ [.libName], lits [.k_CLIENT, .k_SETINFO, .k_LIB_VER] ++ [.libVer]]
  else []

/-- settings shared by both protocols, in the order the property lists them -/
def commonSpec (ev : Atom → Bool) : List (List Tok) :=
  opt (ev .selDB) [.lit .k_SELECT, .selectDB] ++ opt (ev .readonly) [.lit .k_READONLY] ++
  opt (ev .noTouch) (lits [.k_CLIENT, .k_NO_TOUCH, .k_ON]) ++ opt (ev .noEvict) (lits [.k_CLIENT, .k_NO_EVICT, .k_ON]) ++
  setInfoSpec ev

def trackingSpec (ev : Atom → Bool) : List (List Tok) :=
  opt (ev .cache) (if ev .trackNil then lits [.k_CLIENT, .k_TRACKING, .k_ON, .k_OPTIN] else lits [.k_CLIENT, .k_TRACKING, .k_ON] ++ [.trackingOpts])

/-- RESP3: credentials (and name) ride on HELLO, which is first; then tracking, then the rest -/
def required3 (ev : Atom → Bool) : List (List Tok) := [hello3Spec ev] ++ trackingSpec ev ++ commonSpec ev

def auth2Spec (ev : Atom → Bool) : List (List Tok) :=
  if ev .passOnly then [[.lit .k_AUTH, .password]] else if ev .hasUser then [[.lit .k_AUTH, .username, .password]] else []

/-- RESP2: AUTH first, then HELLO 2, the name, then the rest -/
def required2 (ev : Atom → Bool) : List (List Tok) :=
  auth2Spec ev ++ [lits [.k_HELLO, .k_2]] ++ opt (ev .hasName) (lits [.k_CLIENT, .k_SETNAME] ++ [.clientName]) ++ commonSpec ev

/-! ### token-level facts, decided over all valuations -/

private theorem required3_sub : ∀ ev, List.Sublist (required3 ev) (plan3T ev).init ∧ (plan3T ev).init.head? = some (hello3Spec ev) :=
  forall_ev (by decide +kernel)

private theorem required2_sub : ∀ ev, List.Sublist (required2 ev) (plan2T ev).init ∧
    (plan2T ev).init.take (auth2Spec ev).length = auth2Spec ev ∧ (plan2T ev).helloIndex = (auth2Spec ev).length :=
  forall_ev (by decide +kernel)

def isSetInfo : List Tok → Bool
  | .lit .k_CLIENT :: .lit .k_SETINFO :: _ => true
  | _ => false

/-- every command starts with a literal word (so `init[i][0] == "READONLY"/"CLIENT"` is a test on
    that literal), the unchecked replies are exactly those of the CLIENT SETINFO commands, and HELLO
    is inside the checked range -/
theorem heads_are_literals : ∀ ev, ∀ b ∈ [plan3T ev, plan2T ev],
    (b.init.all fun c => match c with | .lit _ :: _ => true | _ => false) = true ∧
    ((b.init.take (checked b)).all fun c => !isSetInfo c) = true ∧
    ((b.init.drop (checked b)).all isSetInfo) = true ∧ 0 < checked b := by
  intro ev
  revert ev
  exact forall_ev (by decide +kernel)

/-! ### plan_contains_required_in_order -/

/-- For every option record and resolved credentials: the commands the settings demand
    (`required3` / `required2`, substituted) are an in-order sub-list of the plan that `_newPipe`
    pipelines; in RESP3 the first command is HELLO 3 carrying the credentials and the client name,
    in RESP2 the AUTH command (when credentials are configured) is first and HELLO 2 follows it. -/
theorem plan_contains_required_in_order (o : Opt) (u p : String) :
    let ev := evalAtom o u p
    List.Sublist ((required3 ev).map (substCmd o u p)) (plan3 o u p) ∧
    (plan3 o u p).head? = some (substCmd o u p (hello3Spec ev)) ∧
    List.Sublist ((required2 ev).map (substCmd o u p)) (plan2 o u p) ∧
    (plan2 o u p).take (auth2Spec ev).length = (auth2Spec ev).map (substCmd o u p) := by
  intro ev
  refine ⟨(required3_sub ev).1.map _, ?_, (required2_sub ev).1.map _, ?_⟩
  · simp only [plan3, List.head?_map, (required3_sub ev).2, Option.map_some]
  · simp only [plan2, ← List.map_take, (required2_sub ev).2.1]

/-- credentials are what the spec says at string level: configured credentials (a user name or a
    password) are the first thing on a RESP3 connection -/
theorem credentials_first (o : Opt) (u p : String) (h : u ≠ "" ∨ p ≠ "") :
    ∃ rest tail, (plan3 o u p) = (["HELLO", "3", "AUTH", (if u = "" then "default" else u), p] ++ rest) :: tail := by
  have h3 := (plan_contains_required_in_order o u p).2.1
  match hp : plan3 o u p, h3 with
  | [], h3 => simp [hp] at h3
  | c :: tail, h3 =>
    simp only [hp, List.head?_cons, Option.some.injEq] at h3
    refine ⟨_, tail, ?_⟩
    rw [h3]
    by_cases hu : u = ""
    · have hp' : p ≠ "" := by rcases h with h | h; exact absurd hu h; exact h
      simp [hello3Spec, authArgs, evalAtom, hu, hp', substCmd, substTok, lits, Kw.str]
      rfl
    · simp [hello3Spec, authArgs, evalAtom, hu, substCmd, substTok, lits, Kw.str]
      rfl

/-! ### the reply-evaluation loops -/

private theorem loop2_ok (heads : List Head) (rs : Nat → Reply) (i : Nat) :
    loop2.go heads rs i = .ok () →
    ∀ j (hj : j < heads.length), heads[j] = .readonly ∨ (rs (i + j) ≠ .ioerr ∧ rs (i + j) ≠ .rerr false) := by
  induction heads generalizing i with
  | nil => intro _ j hj; simp at hj
  | cons h hs ih =>
    intro hok j hj
    simp only [loop2.go] at hok
    split at hok
    · rename_i hstep
      cases j with
      | zero =>
        simp only [List.getElem_cons_zero, Nat.add_zero]
        simp only [step2] at hstep
        split at hstep
        · left; simp_all
        · right; split at hstep <;> simp_all
      | succ j =>
        have := ih (i + 1) hok j (by simpa using hj)
        simpa [Nat.add_assoc, Nat.add_comm 1 j] using this
    · cases hok

/-- if the RESP3 loop ends without r2, no reply in range was an error except at READONLY -/
private theorem loop3_ok_false (az : Bool) (heads : List Head) (rs : Nat → Reply) (i : Nat) (r2 : Bool) :
    loop3.go az rs heads i r2 = .ok false →
    r2 = false ∧ ∀ j (hj : j < heads.length), heads[j] = .readonly ∨ err3 az (i + j) (rs (i + j)) = .none := by
  induction heads generalizing i r2 with
  | nil => intro h; simp [loop3.go] at h; exact ⟨h, fun j hj => by simp at hj⟩
  | cons h hs ih =>
    intro hok
    simp only [loop3.go] at hok
    split at hok
    · rename_i r2' hstep
      obtain ⟨hr2', hrest⟩ := ih (i + 1) r2' hok
      subst hr2'
      have key : r2 = false ∧ (h = .readonly ∨ err3 az i (rs i) = .none) := by
        simp only [step3] at hstep
        split at hstep
        · simp_all
        · split at hstep
          · simp_all
          · split at hstep
            · split at hstep
              · simp at hstep
              · split at hstep
                · simp at hstep
                · split at hstep <;> simp_all
            · simp at hstep
      refine ⟨key.1, fun j hj => ?_⟩
      cases j with
      | zero => simpa using key.2
      | succ j =>
        have := hrest j (by simpa using hj)
        simpa [Nat.add_assoc, Nat.add_comm 1 j] using this
    · cases hok

/-- the RESP3 loop only switches to r2 on a reply whose error text matches noHello -/
private theorem loop3_ok_true (az : Bool) (heads : List Head) (rs : Nat → Reply) (i : Nat) (r2 : Bool) :
    loop3.go az rs heads i r2 = .ok true → r2 = true ∨ ∃ j, j < heads.length ∧ rs (i + j) = .rerr true := by
  induction heads generalizing i r2 with
  | nil => intro h; simp [loop3.go] at h; exact .inl h
  | cons h hs ih =>
    intro hok
    simp only [loop3.go] at hok
    split at hok
    · rename_i r2' hstep
      rcases ih (i + 1) r2' hok with hr | ⟨j, hj, hrj⟩
      · subst hr
        by_cases hr2 : r2 = true
        · exact .inl hr2
        · right
          refine ⟨0, by simp, ?_⟩
          simp only [step3] at hstep
          cases hrep : rs i with
          | rerr nh =>
            cases nh with
            | true => rfl
            | false =>
              simp [hrep, err3] at hstep
              split at hstep <;> simp_all
              split at hstep <;> simp_all
          | ioerr => simp [hrep, err3] at hstep; split at hstep <;> simp_all
          | map n => simp [hrep, err3] at hstep; split at hstep <;> simp_all; split at hstep <;> simp_all
          | str => simp [hrep, err3] at hstep; split at hstep <;> simp_all; split at hstep <;> simp_all
      · exact .inr ⟨j + 1, by simpa using hj, by simpa [Nat.add_assoc, Nat.add_comm 1 j] using hrj⟩
    · cases hok

end Rv.C47
