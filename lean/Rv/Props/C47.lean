import Rv.Model.InitPlan
/-!
C47 — connection setup applies the configured session settings.

The command lists are the ones regenerated from `_newPipe` (`Rv.Gen.InitPlan`); the
theorems below hold for EVERY option record (the plan only depends on the option record
through 13 guard conditions, so token-level facts are decided over all 2^13 valuations,
then transported to strings by `map`), for every resolved credential pair and for every
reply function of the server (induction over the reply-evaluation loops).
-/
namespace Rv.C47
open Rv.InitPlan Rv.Gen.InitPlan

/-! ### transport: the guard valuation of any option record is one of 2^13 Boolean tuples

The two credential tests are the independent inputs (`password != ""`, `username == ""`); the
guard atoms the source uses for credentials (`passOnly`, `hasUser`, and `passNonEmpty` / `userEmpty`
should the source nest the tests) are functions of them. -/

def evOf (pne ue b2 b3 b4 b5 b6 b7 b8 b9 b10 b11 b12 : Bool) : Atom → Bool
  | .passOnly => pne && ue | .hasUser => !ue | .passNonEmpty => pne | .userEmpty => ue
  | .hasName => b2 | .azInfo => b3 | .cache => b4 | .trackNil => b5
  | .selDB => b6 | .readonly => b7 | .noTouch => b8 | .noEvict => b9 | .redirect => b10
  | .setInfo2 => b11 | .setInfoNil => b12

private theorem evalAtom_is_evOf (o : Opt) (u p : String) :
    evalAtom o u p = evOf (p != "") (u == "") (evalAtom o u p .hasName) (evalAtom o u p .azInfo) (evalAtom o u p .cache)
      (evalAtom o u p .trackNil) (evalAtom o u p .selDB) (evalAtom o u p .readonly) (evalAtom o u p .noTouch)
      (evalAtom o u p .noEvict) (evalAtom o u p .redirect) (evalAtom o u p .setInfo2) (evalAtom o u p .setInfoNil) := by
  funext a; cases a <;> rfl

/-! ### token-level facts, decided over all valuations -/

def isSetInfo : List Tok → Bool
  | .lit .k_CLIENT :: .lit .k_SETINFO :: _ => true
  | _ => false

def headsOK (b : BuiltT) : Bool :=
  (b.init.all fun c => match c with | .lit _ :: _ => true | _ => false) &&
  ((b.init.take (checked b)).all fun c => !isSetInfo c) &&
  ((b.init.drop (checked b)).all isSetInfo) && decide (0 < checked b)

def tokenFacts (ev : Atom → Bool) : Bool :=
  (required3 ev).isSublist (plan3T ev).init && ((plan3T ev).init.head? == some (hello3Spec ev)) &&
  (required2 ev).isSublist (plan2T ev).init && ((plan2T ev).init.take (auth2Spec ev).length == auth2Spec ev) &&
  ((plan2T ev).helloIndex == (auth2Spec ev).length) && headsOK (plan3T ev) && headsOK (plan2T ev)

/-- one kernel evaluation over all 2^13 valuations of the guard conditions (about 90 s) -/
private theorem token_facts_all :
    ∀ b0 b1 b2 b3 b4 b5 b6 b7 b8 b9 b10 b11 b12, tokenFacts (evOf b0 b1 b2 b3 b4 b5 b6 b7 b8 b9 b10 b11 b12) = true := by
  decide +kernel

private theorem token_facts (o : Opt) (u p : String) : tokenFacts (evalAtom o u p) = true := by
  rw [evalAtom_is_evOf]; exact token_facts_all ..

private theorem required3_sub (o : Opt) (u p : String) :
    List.Sublist (required3 (evalAtom o u p)) (plan3T (evalAtom o u p)).init ∧
    (plan3T (evalAtom o u p)).init.head? = some (hello3Spec (evalAtom o u p)) := by
  have h := token_facts o u p
  simp only [tokenFacts, Bool.and_eq_true, List.isSublist_iff_sublist, beq_iff_eq] at h
  exact ⟨h.1.1.1.1.1.1, h.1.1.1.1.1.2⟩

private theorem required2_sub (o : Opt) (u p : String) :
    List.Sublist (required2 (evalAtom o u p)) (plan2T (evalAtom o u p)).init ∧
    (plan2T (evalAtom o u p)).init.take (auth2Spec (evalAtom o u p)).length = auth2Spec (evalAtom o u p) ∧
    (plan2T (evalAtom o u p)).helloIndex = (auth2Spec (evalAtom o u p)).length := by
  have h := token_facts o u p
  simp only [tokenFacts, Bool.and_eq_true, List.isSublist_iff_sublist, beq_iff_eq] at h
  exact ⟨h.1.1.1.1.2, h.1.1.1.2, h.1.1.2⟩

/-- every command starts with a literal word (so `init[i][0] == "READONLY"/"CLIENT"` is a test on
    that literal), the unchecked replies are exactly those of the CLIENT SETINFO commands, and HELLO
    is inside the checked range -/
theorem heads_are_literals (o : Opt) (u p : String) :
    headsOK (plan3T (evalAtom o u p)) = true ∧ headsOK (plan2T (evalAtom o u p)) = true := by
  have h := token_facts o u p
  simp only [tokenFacts, Bool.and_eq_true] at h
  exact ⟨h.1.2, h.2⟩

/-! ### plan_contains_required_in_order -/

/-- For every option record and resolved credentials: the commands the settings demand
    (`required3` / `required2`, substituted) are an in-order sub-list of the plan that `_newPipe`
    pipelines; in RESP3 the first command is HELLO 3 carrying the credentials and the client name,
    in RESP2 the AUTH command (when credentials are configured) is first and HELLO 2 follows it. -/
theorem plan_contains_required_in_order (o : Opt) (u p : String) :
    let ev := evalAtom o u p
    List.Sublist ((required3 ev).map (substCmd o u p)) (plan3 o u p) ∧
    (plan3 o u p).head? = some (substCmd o u p (hello3Spec ev)) ∧
    List.Sublist ((required2 ev).map (substCmd o u p)) (plan2 o u p) ∧
    (plan2 o u p).take (auth2Spec ev).length = (auth2Spec ev).map (substCmd o u p) := by
  intro ev
  refine ⟨(required3_sub o u p).1.map _, ?_, (required2_sub o u p).1.map _, ?_⟩
  · show (plan3 o u p).head? = _
    simp only [plan3, List.head?_map]
    rw [show (plan3T (evalAtom o u p)).init.head? = some (hello3Spec ev) from (required3_sub o u p).2]
    rfl
  · show (plan2 o u p).take _ = _
    simp only [plan2, ← List.map_take]
    rw [show List.take (auth2Spec ev).length (plan2T (evalAtom o u p)).init = auth2Spec ev from (required2_sub o u p).2.1]

/-- credentials are what the spec says at string level: configured credentials (a user name or a
    password) are the first thing on a RESP3 connection -/
theorem credentials_first (o : Opt) (u p : String) (h : u ≠ "" ∨ p ≠ "") :
    (plan3 o u p).head? = some (["HELLO", "3", "AUTH", (if u = "" then "default" else u), p] ++
      (if o.clientName = "" then [] else ["SETNAME", o.clientName])) := by
  rw [(plan_contains_required_in_order o u p).2.1]
  by_cases hu : u = "" <;> by_cases hn : o.clientName = ""
  · have hp' : p ≠ "" := by
      rcases h with h | h
      · exact absurd hu h
      · exact h
    simp [hello3Spec, authArgs, evalAtom, hu, hn, hp', substCmd, substTok, lits, Kw.str]
  · have hp' : p ≠ "" := by
      rcases h with h | h
      · exact absurd hu h
      · exact h
    simp [hello3Spec, authArgs, evalAtom, hu, hn, hp', substCmd, substTok, lits, Kw.str]
  · simp [hello3Spec, authArgs, evalAtom, hu, hn, substCmd, substTok, lits, Kw.str]
  · simp [hello3Spec, authArgs, evalAtom, hu, hn, substCmd, substTok, lits, Kw.str]

/-- **plan_authenticates_configured_user.** For every option record whose resolved user name is not
    empty — also when the password IS empty (an ACL user with `nopass`, or an AuthCredentialsFn that
    returns only a user name) — the RESP3 plan starts with `HELLO 3 AUTH <username> <password>` and
    the RESP2 sequence starts with `AUTH <username> <password>`: the connection never runs as the
    server's default user when a user name is configured. -/
theorem plan_authenticates_configured_user (o : Opt) (u p : String) (hu : u ≠ "") :
    (∃ rest, (plan3 o u p).head? = some (["HELLO", "3", "AUTH", u, p] ++ rest)) ∧
    (plan2 o u p).head? = some ["AUTH", u, p] := by
  constructor
  · refine ⟨if o.clientName = "" then [] else ["SETNAME", o.clientName], ?_⟩
    have := credentials_first o u p (.inl hu)
    simpa [hu] using this
  · have h2 := (plan_contains_required_in_order o u p).2.2.2
    have hlen : (auth2Spec (evalAtom o u p)) = [[.lit .k_AUTH, .username, .password]] := by
      simp [auth2Spec, evalAtom, hu]
    rw [hlen] at h2
    have : (plan2 o u p).take 1 = [["AUTH", u, p]] := by
      simpa [substCmd, substTok, Kw.str] using h2
    cases hp : plan2 o u p with
    | nil => simp [hp] at this
    | cons c r => simp [hp] at this; simp [this]

/-! ### the reply-evaluation loops -/

deriving instance DecidableEq for Except

private theorem step2K_ok : ∀ (h : Head) (k : RK) (az ih ih1 s s' : Bool),
    step2K az ih ih1 h s k = .ok s' → h = .readonly ∨ (k ≠ .ioerr ∧ k ≠ .rerr) := by
  intro h k; cases h <;> cases k <;> decide

private theorem kind_facts (rep : Reply) : (rep.kind ≠ .ioerr → rep ≠ .ioerr) ∧ (rep.kind ≠ .rerr → rep ≠ .rerr false) ∧
    (rep.kind = .noHello → rep = .rerr true) := by
  cases rep with
  | rerr nh => cases nh <;> simp [Reply.kind]
  | _ => simp [Reply.kind]

private theorem step2_ok (az : Bool) (hi i : Nat) (h : Head) (s s' : Bool) (rep : Reply)
    (hs : step2 az hi i h s rep = .ok s') : h = .readonly ∨ (rep ≠ .ioerr ∧ rep ≠ .rerr false) := by
  rcases step2K_ok h rep.kind _ _ _ s s' hs with h1 | ⟨h1, h2⟩
  · exact .inl h1
  · exact .inr ⟨(kind_facts rep).1 h1, (kind_facts rep).2.1 h2⟩

private theorem loop2_ok (az : Bool) (hi : Nat) (heads : List Head) (rs : Nat → Reply) (i : Nat) (s s' : Bool) :
    loop2.go az hi rs heads i s = .ok s' →
    ∀ j (hj : j < heads.length), heads[j] = .readonly ∨ (rs (i + j) ≠ .ioerr ∧ rs (i + j) ≠ .rerr false) := by
  induction heads generalizing i s with
  | nil => intro _ j hj; simp at hj
  | cons h hs ih =>
    intro hok j hj
    simp only [loop2.go] at hok
    split at hok
    · rename_i s1 hstep
      cases j with
      | zero => simpa using step2_ok az hi i h s s1 (rs i) hstep
      | succ j =>
        have := ih (i + 1) s1 hok j (by simpa using hj)
        simpa [Nat.add_assoc, Nat.add_comm 1 j] using this
    · cases hok

private theorem step3K_false : ∀ (h : Head) (k : RK) (az i0 i1 r2 n r2' n' : Bool),
    step3K az i0 i1 h ⟨r2, n⟩ k = .ok ⟨r2', n'⟩ → r2' = false →
    r2 = false ∧ (h = .readonly ∨ err3K az i0 i1 k = .none) := by
  intro h k; cases h <;> cases k <;> decide

private theorem step3_false (az : Bool) (i : Nat) (h : Head) (s s' : St3) (rep : Reply)
    (hs : step3 az i h s rep = .ok s') (hr : s'.r2 = false) :
    s.r2 = false ∧ (h = .readonly ∨ err3 az i rep = .none) := by
  cases s; cases s'
  exact step3K_false h rep.kind az _ _ _ _ _ _ hs hr

private theorem loop3_ok_false (az : Bool) (heads : List Head) (rs : Nat → Reply) (i : Nat) (s s' : St3) :
    loop3.go az rs heads i s = .ok s' → s'.r2 = false →
    s.r2 = false ∧ ∀ j (hj : j < heads.length), heads[j] = .readonly ∨ err3 az (i + j) (rs (i + j)) = .none := by
  induction heads generalizing i s with
  | nil => intro h hr; simp only [loop3.go, Except.ok.injEq] at h; subst h; exact ⟨hr, fun j hj => by simp at hj⟩
  | cons h hs ih =>
    intro hok hr
    simp only [loop3.go] at hok
    split at hok
    · rename_i s1 hstep
      obtain ⟨h1, hrest⟩ := ih (i + 1) s1 hok hr
      obtain ⟨h0, hhead⟩ := step3_false az i h s s1 (rs i) hstep h1
      refine ⟨h0, fun j hj => ?_⟩
      cases j with
      | zero => simpa using hhead
      | succ j =>
        have := hrest j (by simpa using hj)
        simpa [Nat.add_assoc, Nat.add_comm 1 j] using this
    · cases hok

private theorem step3K_true : ∀ (h : Head) (k : RK) (az i0 i1 r2 n r2' n' : Bool),
    step3K az i0 i1 h ⟨r2, n⟩ k = .ok ⟨r2', n'⟩ → r2' = true → r2 = true ∨ k = .noHello := by
  intro h k; cases h <;> cases k <;> decide

private theorem step3_true (az : Bool) (i : Nat) (h : Head) (s s' : St3) (rep : Reply)
    (hs : step3 az i h s rep = .ok s') (hr : s'.r2 = true) : s.r2 = true ∨ rep = .rerr true := by
  cases s; cases s'
  rcases step3K_true h rep.kind az _ _ _ _ _ _ hs hr with h1 | h1
  · exact .inl h1
  · exact .inr ((kind_facts rep).2.2 h1)

private theorem loop3_ok_true (az : Bool) (heads : List Head) (rs : Nat → Reply) (i : Nat) (s s' : St3) :
    loop3.go az rs heads i s = .ok s' → s'.r2 = true →
    s.r2 = true ∨ ∃ j, j < heads.length ∧ rs (i + j) = .rerr true := by
  induction heads generalizing i s with
  | nil => intro h hr; simp only [loop3.go, Except.ok.injEq] at h; subst h; exact .inl hr
  | cons h hs ih =>
    intro hok hr
    simp only [loop3.go] at hok
    split at hok
    · rename_i s1 hstep
      rcases ih (i + 1) s1 hok hr with h1 | ⟨j, hj, hrj⟩
      · rcases step3_true az i h s s1 (rs i) hstep h1 with h0 | h0
        · exact .inl h0
        · exact .inr ⟨0, by simp, by simpa using h0⟩
      · exact .inr ⟨j + 1, by simpa using hj, by simpa [Nat.add_assoc, Nat.add_comm 1 j] using hrj⟩
    · cases hok

/-! ### connect -/

/-- replies of an attempt that `_newPipe` looks at: index below `checked` -/
def heads3 (o : Opt) (u p : String) : List Head :=
  ((plan3T (evalAtom o u p)).init.take (checked (plan3T (evalAtom o u p)))).map headOf
def heads2 (o : Opt) (u p : String) : List Head :=
  ((plan2T (evalAtom o u p)).init.take (checked (plan2T (evalAtom o u p)))).map headOf

private theorem fallback_cases (o : Opt) (u p : String) (pre : List Cmd) (inil : Bool) (rs2 : Nat → Reply) :
    ((fallback o u p pre inil rs2).res = .serving false →
      o.disableCache = true ∧ (fallback o u p pre inil rs2).sent = pre ++ plan2 o u p ∧
      ∀ j (hj : j < (heads2 o u p).length), (heads2 o u p)[j] = .readonly ∨ (rs2 j ≠ .ioerr ∧ rs2 j ≠ .rerr false)) ∧
    (fallback o u p pre inil rs2).res ≠ .serving true := by
  unfold fallback
  by_cases hc : o.disableCache = true
  · simp only [hc, Bool.not_true, Bool.false_eq_true, if_false]
    cases hl : loop2 o.azInfo (plan2T (evalAtom o u p)).helloIndex (heads2 o u p) rs2 0 inil with
    | ok v =>
      have := loop2_ok o.azInfo _ (heads2 o u p) rs2 0 inil v (by simpa [loop2] using hl)
      simp only [heads2] at hl
      simp only [hl]
      refine ⟨fun _ => ⟨?_, ?_, fun j hj => by simpa using this j hj⟩, by simp⟩
      · first | trivial | exact hc
      · first | trivial | rfl
    | error f =>
      simp only [heads2] at hl
      simp only [hl]
      exact ⟨by simp, by simp⟩
  · simp [hc]

/-- **The setup plan is complete before a pipe is returned.** If `_newPipe` returns a pipe, the
    whole plan of the protocol it serves was written first (user commands can only be issued on the
    returned pipe): RESP3 serving ⇒ exactly `plan3` was sent; RESP2 serving ⇒ `plan2` was sent
    after nothing or after the complete RESP3 attempt. -/
theorem serving_sent_full_plan (o : Opt) (r2ps : Bool) (rs3 rs2 : Nat → Reply) (u p : String)
    (hc : creds o = some (u, p)) :
    ((connect o r2ps rs3 rs2).res = .serving true → (connect o r2ps rs3 rs2).sent = plan3 o u p) ∧
    ((connect o r2ps rs3 rs2).res = .serving false →
      (connect o r2ps rs3 rs2).sent = plan2 o u p ∨ (connect o r2ps rs3 rs2).sent = plan3 o u p ++ plan2 o u p) := by
  unfold connect
  simp only [hc]
  split
  · exact ⟨fun h => absurd h (fallback_cases o u p [] true rs2).2,
      fun h => .inl (by simpa using ((fallback_cases o u p [] true rs2).1 h).2.1)⟩
  · split
    · exact ⟨by simp, by simp⟩
    · split
      · exact ⟨fun h => absurd h (fallback_cases o u p _ _ rs2).2,
          fun h => .inr ((fallback_cases o u p _ _ rs2).1 h).2.1⟩
      · exact ⟨fun _ => rfl, by simp⟩

/-- **RESP2 only after HELLO was rejected.** A pipe serving RESP2 exists only if RESP2 was asked for
    (`AlwaysRESP2`, or the pipe is the RESP2 Pub/Sub helper of a RESP2 connection), or a checked
    reply of the RESP3 attempt was an error matching `unknown command 'HELLO'`, or the reply to
    HELLO 3 did not announce protocol >= 3. Client-side caching must be disabled for it. -/
theorem resp2_only_after_hello_rejected (o : Opt) (r2ps : Bool) (rs3 rs2 : Nat → Reply)
    (h : (connect o r2ps rs3 rs2).res = .serving false) :
    o.disableCache = true ∧
    (o.alwaysResp2 = true ∨ r2ps = true ∨ protoOf (rs3 0) < 3 ∨
      ∃ u p, creds o = some (u, p) ∧ ∃ j, j < (heads3 o u p).length ∧ rs3 j = .rerr true) := by
  unfold connect at h
  split at h
  · simp at h
  · rename_i u p hc
    split at h
    · rename_i h2
      refine ⟨((fallback_cases o u p [] true rs2).1 h).1, ?_⟩
      simp only [Bool.or_eq_true] at h2
      rcases h2 with h2 | h2
      · exact .inl h2
      · exact .inr (.inl h2)
    · dsimp only at h
      split at h
      · simp at h
      · rename_i r2 hl
        split at h
        · rename_i hr
          refine ⟨((fallback_cases o u p _ _ rs2).1 h).1, ?_⟩
          simp only [Bool.or_eq_true, decide_eq_true_eq] at hr
          rcases hr with hr | hr
          · rcases loop3_ok_true o.azInfo (heads3 o u p) rs3 0 ⟨false, true⟩ r2 (by simpa [loop3, heads3] using hl) hr with h0 | ⟨j, hj, hrj⟩
            · cases h0
            · exact .inr (.inr (.inr ⟨u, p, hc, j, hj, by simpa using hrj⟩))
          · exact .inr (.inr (.inl hr))
        · simp at h

/-- **A failed setup step fails the connection.** If a pipe is returned, every reply whose index is
    below `checked` (all but the two trailing CLIENT SETINFO replies, `heads_are_literals`) was
    error-free, except: the reply to READONLY is ignored; in the RESP2 sequence an error matching
    `unknown command 'HELLO'` is ignored (meant for HELLO 2 on old servers). A RESP3 pipe saw
    HELLO answered by a map announcing protocol >= 3. -/
theorem failed_step_fails_conn (o : Opt) (r2ps : Bool) (rs3 rs2 : Nat → Reply) (u p : String)
    (hc : creds o = some (u, p)) :
    ((connect o r2ps rs3 rs2).res = .serving true →
      3 ≤ protoOf (rs3 0) ∧
      ∀ j (hj : j < (heads3 o u p).length), (heads3 o u p)[j] = .readonly ∨ err3 o.azInfo j (rs3 j) = .none) ∧
    ((connect o r2ps rs3 rs2).res = .serving false →
      ∀ j (hj : j < (heads2 o u p).length), (heads2 o u p)[j] = .readonly ∨ (rs2 j ≠ .ioerr ∧ rs2 j ≠ .rerr false)) := by
  unfold connect
  simp only [hc]
  split
  · exact ⟨fun h => absurd h (fallback_cases o u p [] true rs2).2, fun h => ((fallback_cases o u p [] true rs2).1 h).2.2⟩
  · split
    · exact ⟨by simp, by simp⟩
    · rename_i r2 hl
      split
      · exact ⟨fun h => absurd h (fallback_cases o u p _ _ rs2).2, fun h => ((fallback_cases o u p _ _ rs2).1 h).2.2⟩
      · rename_i hr
        simp only [Bool.or_eq_true, decide_eq_true_eq, not_or, Bool.not_eq_true, Nat.not_lt] at hr
        obtain ⟨hr2, hproto⟩ := hr
        have := loop3_ok_false o.azInfo (heads3 o u p) rs3 0 ⟨false, true⟩ r2 (by simpa [loop3, heads3] using hl) hr2
        exact ⟨fun _ => ⟨hproto, fun j hj => by simpa using this.2 j hj⟩, by simp⟩

/-- a credentials callback that fails fails the connection before anything is written -/
theorem cred_error_sends_nothing (o : Opt) (r2ps : Bool) (rs3 rs2 : Nat → Reply) (h : o.credFn = some none) :
    connect o r2ps rs3 rs2 = ⟨[], .failed .cred⟩ := by
  simp [connect, creds, h]

private theorem evalAtom_creds (o : Opt) (a b : String) (f : Option (Option (String × String))) (u p : String) :
    evalAtom { o with username := a, password := b, credFn := f } u p = evalAtom o u p := by
  funext x; cases x <;> rfl

private theorem substCmd_creds (o : Opt) (a b : String) (f : Option (Option (String × String))) (u p : String) :
    substCmd { o with username := a, password := b, credFn := f } u p = substCmd o u p := by
  funext c
  have : substTok { o with username := a, password := b, credFn := f } u p = substTok o u p := by
    funext t; cases t <;> rfl
  simp only [substCmd, this]

/-- **Dynamic credentials are used.** With `AuthCredentialsFn` returning (u, p) the connection does
    exactly what it does with static `Username = u`, `Password = p`: the static fields are ignored
    and (u, p) is what HELLO 3 … AUTH / AUTH carries (`credentials_first`). -/
theorem dynamic_credentials_used (o : Opt) (r2ps : Bool) (rs3 rs2 : Nat → Reply) (u p : String) :
    connect { o with credFn := some (some (u, p)) } r2ps rs3 rs2 =
    connect { o with username := u, password := p, credFn := none } r2ps rs3 rs2 := by
  have e1 := evalAtom_creds o o.username o.password (some (some (u, p))) u p
  have e2 := evalAtom_creds o u p none u p
  have s1 := substCmd_creds o o.username o.password (some (some (u, p))) u p
  have s2 := substCmd_creds o u p none u p
  simp only [connect, creds, fallback, plan3, plan2, e1, e2, s1, s2]

/-! ### connection setup never panics (repaired by `fix:` 30ce25f) -/

private theorem step3K_nopanic : ∀ (h : Head) (k : RK) (az i0 i1 r2 n : Bool), step3K az i0 i1 h ⟨r2, n⟩ k ≠ .error .panic := by
  intro h k; cases h <;> cases k <;> decide

private theorem step2K_nopanic : ∀ (h : Head) (k : RK) (az ih ih1 n : Bool), step2K az ih ih1 h n k ≠ .error .panic := by
  intro h k; cases h <;> cases k <;> decide

private theorem loop3_nopanic (az : Bool) (heads : List Head) (rs : Nat → Reply) (i : Nat) (s : St3) :
    loop3.go az rs heads i s ≠ .error .panic := by
  induction heads generalizing i s with
  | nil => simp [loop3.go]
  | cons h hs ih =>
    simp only [loop3.go]
    split
    · exact ih _ _
    · rename_i f hstep
      intro hf
      cases hf
      cases s
      exact step3K_nopanic h (rs i).kind _ _ _ _ _ hstep

private theorem loop2_nopanic (az : Bool) (hi : Nat) (heads : List Head) (rs : Nat → Reply) (i : Nat) (s : Bool) :
    loop2.go az hi rs heads i s ≠ .error .panic := by
  induction heads generalizing i s with
  | nil => simp [loop2.go]
  | cons h hs ih =>
    simp only [loop2.go]
    split
    · exact ih _ _
    · rename_i f hstep
      intro hf
      cases hf
      exact step2K_nopanic h (rs i).kind _ _ _ _ hstep

/-- Setup either returns a pipe or an error, for every option record and every server behaviour.
    (On the tree before `fix:` 30ce25f this failed: EnableReplicaAZInfo+AZFromInfo, HELLO rejected,
    INFO SERVER text with an `availability_zone:` line → assignment to an entry of the nil `p.info`
    map. The harness still reports that witness under key `initplan:panic:az-info-on-nil-map`.) -/
theorem setup_never_panics (o : Opt) (r2ps : Bool) (rs3 rs2 : Nat → Reply) :
    (connect o r2ps rs3 rs2).res ≠ .failed .panic := by
  have hfb : ∀ u p pre n, (fallback o u p pre n rs2).res ≠ .failed .panic := by
    intro u p pre n
    unfold fallback
    split
    · simp
    · dsimp only
      split
      · simp
      · rename_i f hl
        intro hf
        simp only [Res.failed.injEq] at hf
        subst hf
        exact loop2_nopanic _ _ _ rs2 0 n (by simpa [loop2] using hl)
  unfold connect
  split
  · simp
  · split
    · exact hfb _ _ _ _
    · dsimp only
      split
      · rename_i f hl
        intro hf
        simp only [Res.failed.injEq] at hf
        subst hf
        exact loop3_nopanic _ _ rs3 0 _ (by simpa [loop3] using hl)
      · split
        · exact hfb _ _ _ _
        · simp

/-! ### sentinel connections, NewClient, and the pin of the hand-modelled part -/

/-- `newSentinelOpt` replaces user name, password and client name by the sentinel ones and never
    selects a database; nothing else the setup plan reads is changed (AuthCredentialsFn is kept, so
    dynamic credentials also apply to sentinel connections). -/
theorem sentinel_assign_pinned : sentinelAssign =
    [("Username", "o.Sentinel.Username"), ("Password", "o.Sentinel.Password"), ("ClientName", "o.Sentinel.ClientName"),
     ("Dialer", "o.Sentinel.Dialer"), ("TLSConfig", "o.Sentinel.TLSConfig"), ("SelectDB", "0")] := rfl

/-- **sentinel_opt_uses_sentinel_credentials.** Whatever the data-node options are (user name,
    password, client name, database), the options of a sentinel connection carry exactly the
    sentinel credentials and client name — also when they are empty — and database 0; so by
    `plan_authenticates_configured_user` / `plan_contains_required_in_order` the sentinel connection
    authenticates as Sentinel.Username (or sends no AUTH at all) and never as the data-node user. -/
theorem sentinel_opt_uses_sentinel_credentials (o : Opt) (su sp sn : String) :
    (sentinelOpt o su sp sn).username = su ∧ (sentinelOpt o su sp sn).password = sp ∧
    (sentinelOpt o su sp sn).clientName = sn ∧ (sentinelOpt o su sp sn).selectDB = 0 ∧
    (o.credFn = none → creds (sentinelOpt o su sp sn) = some (su, sp)) := by
  refine ⟨rfl, rfl, rfl, rfl, fun h => ?_⟩
  simp [creds, sentinelOpt, h]

theorem sentinel_never_selects (o : Opt) (su sp sn : String) (u p : String) :
    evalAtom (sentinelOpt o su sp sn) u p .selDB = false := rfl

/-- fields of ClientOption the setup plan reads -/
def sessionFields : List String :=
  ["Username", "Password", "AuthCredentialsFn", "ClientName", "SelectDB", "ReplicaOnly", "Sentinel", "Sentinel.MasterSet",
   "ClientNoTouch", "ClientNoEvict", "Standalone", "Standalone.EnableRedirect", "EnableReplicaAZInfo", "AZFromInfo",
   "DisableCache", "ClientTrackingOptions", "ClientSetInfo", "AlwaysRESP2", "OnInvalidations"]

/-- NewClient's defaulting does not touch any field the setup plan reads -/
theorem newclient_keeps_session_fields : ∀ f ∈ sessionFields, f ∉ newClientAssigns ∧ ("&option." ++ f) ∉ newClientAssigns := by
  decide

/-- the hand-modelled rest of `_newPipe` (credential resolution, both reply loops, protocol decision)
    is the text this model was written against -/
theorem residual_pinned : residualSha = 82369977979978227580877273909703700504178658993642874252805091551669589660896 := rfl

/-! ### non-vacuity -/

example : (connect { password := "pw", clientName := "n", selectDB := 2 } false (fun i => if i = 0 then .map 3 else .str) (fun _ => .str)).res = .serving true := by decide
example : (connect { password := "pw", disableCache := true } false (fun i => if i = 0 then .rerr true else .str) (fun _ => .str)) =
    ⟨[["HELLO", "3", "AUTH", "default", "pw"], ["CLIENT", "SETINFO", "LIB-NAME", "rueidis"], ["CLIENT", "SETINFO", "LIB-VER", libVer],
      ["AUTH", "pw"], ["HELLO", "2"], ["CLIENT", "SETINFO", "LIB-NAME", "rueidis"], ["CLIENT", "SETINFO", "LIB-VER", libVer]], .serving false⟩ := by decide
example : (connect { selectDB := 2 } false (fun i => if i = 0 then .map 3 else if i = 2 then .rerr false else .str) (fun _ => .str)).res = .failed .err := by decide

end Rv.C47
