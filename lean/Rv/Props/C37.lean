/-
C37 — sliding-window Bloom filters keep items for at least half a window.

Chain to the source: as C35 (script texts regenerated and pinned; hand transcription
`Rv.SBloom`; `sbloom` correspondence suite through the fake server, whose clock the harness
drives). The server clock is a parameter of every operation; no monotonicity is assumed: the
theorem quantifies over all histories whose clock readings stay ≤ t + half.
-/
import Rv.Gen.LuaScripts
import Rv.Model.SlidingBloom
import Rv.Props.C35

namespace Rv.C37
open Rv.SBloom Rv.GroupLoop
open Rv.Bloom (Bits setBit bitVal emptyBits itemIdx allIdx)

/-! ### 1. pins -/
theorem sbf_init_script_pinned : Rv.Gen.rueidisprob_slidingBloomFilterInitializeScript =
  "\nlocal filterKey = KEYS[1]\nlocal nextFilterKey = KEYS[2]\nlocal counterKey = KEYS[3]\nlocal nextCounterKey = KEYS[4]\nlocal lastRotationKey = KEYS[5]\nlocal windowHalf = tonumber(ARGV[1])\n\nif redis.call('EXISTS', filterKey, nextFilterKey, counterKey, nextCounterKey, lastRotationKey) == 0 then\n\tlocal time = redis.call('TIME')\n\tlocal current_time = tonumber(time[1]) * 1000 + math.floor(tonumber(time[2]) / 1000)\n\n\tredis.call('MSET', filterKey, \"\", counterKey, 0, nextFilterKey, \"\", nextCounterKey, 0)\n\tredis.call('SET', lastRotationKey, tostring(current_time), 'PX', windowHalf, 'NX')\nend\n\nreturn 1\n" := rfl

theorem sbf_add_script_pinned : Rv.Gen.rueidisprob_slidingBloomFilterAddMultiScript =
  "\nlocal hashIterations = tonumber(ARGV[1])\nlocal windowHalf = tonumber(ARGV[2])\nlocal numElements = tonumber(#ARGV) - 2\n\nlocal filterKey = KEYS[1]\nlocal nextFilterKey = KEYS[2]\nlocal counterKey = KEYS[3]\nlocal nextCounterKey = KEYS[4]\nlocal lastRotationKey = KEYS[5]\n\nlocal time = redis.call('TIME')\nlocal current_time = tonumber(time[1]) * 1000 + math.floor(tonumber(time[2])/1000)\nlocal acquiredLock = redis.call('SET', lastRotationKey, tostring(current_time), 'PX', windowHalf, 'NX')\n\nif acquiredLock then\n\tredis.call('RENAME', nextFilterKey, filterKey)\n\tredis.call('RENAME', nextCounterKey, counterKey)\n\tredis.call('SET', nextFilterKey, \"\")\n\tredis.call('SET', nextCounterKey, 0)\nend\n\nlocal counter = 0\nlocal oneBits = 0\nfor i=1, numElements do\n\tlocal bitset = redis.call('BITFIELD', filterKey, 'SET', 'u1', ARGV[i+2], '1')\n\tredis.call('BITFIELD', nextFilterKey, 'SET', 'u1', ARGV[i+2], '1')\n\n\toneBits = oneBits + bitset[1]\n\tif i % hashIterations == 0 then\n\t\tif oneBits ~= hashIterations then\n\t\t\tcounter = counter + 1\n\t\tend\n\n\t\toneBits = 0\n\tend\nend\n\nredis.call('INCRBY', nextCounterKey, counter)\nreturn redis.call('INCRBY', counterKey, counter)\n" := rfl

theorem sbf_exists_script_pinned : Rv.Gen.rueidisprob_slidingBloomFilterExistsMultiScript =
  "\nlocal hashIterations = tonumber(ARGV[1])\nlocal windowHalf = tonumber(ARGV[2])\nlocal numElements = tonumber(#ARGV) - 2\n\nlocal filterKey = KEYS[1]\nlocal nextFilterKey = KEYS[2]\nlocal counterKey = KEYS[3]\nlocal nextCounterKey = KEYS[4]\nlocal lastRotationKey = KEYS[5]\n\nlocal time = redis.call('TIME')\nlocal current_time = tonumber(time[1]) * 1000 + math.floor(tonumber(time[2])/1000)\nlocal acquiredLock = redis.call('SET', lastRotationKey, tostring(current_time), 'PX', windowHalf, 'NX')\n\nif acquiredLock then\n\tredis.call('RENAME', nextFilterKey, filterKey)\n\tredis.call('RENAME', nextCounterKey, counterKey)\n\tredis.call('SET', nextFilterKey, \"\")\n\tredis.call('SET', nextCounterKey, 0)\nend\n\nlocal result = {}\nlocal oneBits = 0\nfor i=1, numElements do\n\tlocal index = tonumber(ARGV[i+2])\n\tlocal bitset = redis.call('BITFIELD', filterKey, 'GET', 'u1', index)\n\n\toneBits = oneBits + bitset[1]\n\tif i % hashIterations == 0 then\n\t\ttable.insert(result, oneBits == hashIterations)\n\n\t\toneBits = 0\n\tend\nend\n\nreturn result\n" := rfl

theorem sbf_exists_ro_script_pinned : Rv.Gen.rueidisprob_slidingBloomFilterExistsReadOnlyMultiScript =
  "\nlocal hashIterations = tonumber(ARGV[1])\nlocal windowHalf = tonumber(ARGV[2])\nlocal numElements = tonumber(#ARGV) - 2\n\nlocal filterKey = KEYS[1]\nlocal nextFilterKey = KEYS[2]\nlocal counterKey = KEYS[3]\nlocal nextCounterKey = KEYS[4]\nlocal lastRotationKey = KEYS[5]\n\nlocal time = redis.call('TIME')\nlocal current_time = tonumber(time[1]) * 1000 + math.floor(tonumber(time[2])/1000)\nlocal acquiredLock = redis.call('SET', lastRotationKey, tostring(current_time), 'PX', windowHalf, 'NX')\n\nif acquiredLock then\n\tredis.call('RENAME', nextFilterKey, filterKey)\n\tredis.call('RENAME', nextCounterKey, counterKey)\n\tredis.call('SET', nextFilterKey, \"\")\n\tredis.call('SET', nextCounterKey, 0)\nend\n\nlocal result = {}\nlocal oneBits = 0\nfor i=1, numElements do\n\tlocal index = tonumber(ARGV[i+2])\n\tlocal bitset = redis.call('BITFIELD_RO', filterKey, 'GET', 'u1', index)\n\n\toneBits = oneBits + bitset[1]\n\tif i % hashIterations == 0 then\n\t\ttable.insert(result, oneBits == hashIterations)\n\n\t\toneBits = 0\n\tend\nend\n\nreturn result\n" := rfl

theorem sbf_reset_script_pinned : Rv.Gen.rueidisprob_slidingBloomFilterResetScript =
  "\nlocal filterKey = KEYS[1]\nlocal nextFilterKey = KEYS[2]\nlocal counterKey = KEYS[3]\nlocal nextCounterKey = KEYS[4]\n\nredis.call('RENAME', nextFilterKey, filterKey)\nredis.call('RENAME', nextCounterKey, counterKey)\nredis.call('SET', nextFilterKey, \"\")\nredis.call('SET', nextCounterKey, 0)\n" := rfl

/-! ### 2. invariant -/

/-- phase A: the item's bits are in both filters and the rotation lock expires no earlier than `t` -/
def InvA (g : List Nat) (t : Nat) (s : St) : Prop :=
  ∃ cb nb nc e, s.cur = some cb ∧ s.next = some nb ∧ s.nextC = some nc ∧ s.lock = some e ∧ t ≤ e ∧
    (∀ x ∈ g, cb x = true) ∧ (∀ x ∈ g, nb x = true)

/-- phase B: one rotation happened after `t`; the bits are in the current filter and the lock
outlives `t + half` -/
def InvB (g : List Nat) (t half : Nat) (s : St) : Prop :=
  ∃ cb e, s.cur = some cb ∧ s.lock = some e ∧ t + half < e ∧ (∀ x ∈ g, cb x = true)

def Inv (g : List Nat) (t half : Nat) (s : St) : Prop := InvA g t s ∨ InvB g t half s

private theorem inv_cur (g : List Nat) (t half : Nat) (s : St) (h : Inv g t half s) :
    ∀ x ∈ g, bitsOf s.cur x = true := by
  rcases h with ⟨cb, _, _, _, hc, _, _, _, _, hb, _⟩ | ⟨cb, _, hc, _, _, hb⟩ <;>
    simpa [bitsOf, hc] using hb

/-- the rotation step of every script keeps the invariant while the clock is ≤ t + half -/
theorem rotate_inv (g : List Nat) (t half u : Nat) (s : St) (hh : 1 ≤ half) (hu : u ≤ t + half)
    (h : Inv g t half s) : ∃ s1, rotate half u s = .ok s1 ∧ Inv g t half s1 := by
  have hh0 : ¬ half = 0 := by omega
  rcases h with ⟨cb, nb, nc, e, hc, hn, hnc, hl, hte, hcb, hnb⟩ | ⟨cb, e, hc, hl, hte, hcb⟩
  · by_cases hue : u ≤ e
    · refine ⟨s, ?_, Or.inl ⟨cb, nb, nc, e, hc, hn, hnc, hl, hte, hcb, hnb⟩⟩
      simp [rotate, lockHeld, hl, hue, hh0]
    · refine ⟨{ cur := some nb, next := some emptyBits, curC := some nc, nextC := some 0, lock := some (u + half) }, ?_,
        Or.inr ⟨nb, u + half, rfl, rfl, by omega, hnb⟩⟩
      simp [rotate, lockHeld, hl, hue, hh0, hn, hnc]
  · have hue : u ≤ e := by omega
    refine ⟨s, ?_, Or.inr ⟨cb, e, hc, hl, hte, hcb⟩⟩
    simp [rotate, lockHeld, hl, hue, hh0]

private theorem gloop_sadd_bits (k : Nat) : ∀ (idxs : List Nat) (i a : Nat) (st : (Bits × Bits) × Nat),
    (gloop k (fun (st : (Bits × Bits) × Nat) x => (((setBit st.1.1 x, setBit st.1.2 x), st.2), bitVal st.1.1 x))
      (· + ·) 0 (fun st one => (st.1, if one ≠ k then st.2 + 1 else st.2)) idxs i a st).1
      = (idxs.foldl setBit st.1.1, idxs.foldl setBit st.1.2) := by
  intro idxs
  induction idxs with
  | nil => intro i a st; simp [gloop]
  | cons x xs ih =>
    intro i a st
    unfold gloop
    split <;> (rw [ih]; rfl)

/-- the sliding add loop sets the given bits in both filters and clears none -/
theorem addLoop_bits (k : Nat) (idxs : List Nat) (cb nb : Bits) :
    (addLoop k idxs cb nb).1 = (idxs.foldl setBit cb, idxs.foldl setBit nb) := by
  unfold addLoop
  exact gloop_sadd_bits k idxs 1 0 ((cb, nb), 0)

private theorem foldl_setBit_mono (idxs : List Nat) : ∀ (b : Bits) (x : Nat),
    b x = true → (idxs.foldl setBit b) x = true := by
  induction idxs with
  | nil => intro b x h; simpa using h
  | cons y ys ih =>
    intro b x h
    simp only [List.foldl_cons]
    apply ih
    unfold setBit
    split <;> simp [h]

private theorem foldl_setBit_mem (idxs : List Nat) : ∀ (b : Bits) (x : Nat),
    x ∈ idxs → (idxs.foldl setBit b) x = true := by
  induction idxs with
  | nil => intro b x h; simp at h
  | cons y ys ih =>
    intro b x h
    simp only [List.foldl_cons]
    rcases List.mem_cons.mp h with h | h
    · apply foldl_setBit_mono
      simp [setBit, h]
    · exact ih _ _ h

/-- the add script (any arguments) keeps the invariant while the clock is ≤ t + half, and succeeds -/
theorem addScript_inv (g : List Nat) (t half u k : Nat) (idxs : List Nat) (s : St) (hh : 1 ≤ half)
    (hu : u ≤ t + half) (h : Inv g t half s) :
    ∃ s' c, addScript k half u idxs s = .ok (s', c) ∧ Inv g t half s' := by
  obtain ⟨s1, hr, h1⟩ := rotate_inv g t half u s hh hu h
  refine ⟨_, _, by simp only [addScript, hr]; rfl, ?_⟩
  rcases h1 with ⟨cb, nb, nc, e, hc, hn, hnc, hl, hte, hcb, hnb⟩ | ⟨cb, e, hc, hl, hte, hcb⟩
  · left
    by_cases hemp : idxs.isEmpty
    · exact ⟨cb, nb, _, e, by simp [hemp, hc], by simp [hemp, hn], rfl, hl, hte, hcb, hnb⟩
    · refine ⟨_, _, _, e, by simp [hemp]; rfl, by simp [hemp]; rfl, rfl, hl, hte, ?_, ?_⟩
      · intro x hx
        rw [addLoop_bits]
        exact foldl_setBit_mono _ _ _ (by simpa [bitsOf, hc] using hcb x hx)
      · intro x hx
        rw [addLoop_bits]
        exact foldl_setBit_mono _ _ _ (by simpa [bitsOf, hn] using hnb x hx)
  · right
    by_cases hemp : idxs.isEmpty
    · exact ⟨cb, e, by simp [hemp, hc], hl, hte, hcb⟩
    · refine ⟨_, e, by simp [hemp]; rfl, hl, hte, ?_⟩
      intro x hx
      rw [addLoop_bits]
      exact foldl_setBit_mono _ _ _ (by simpa [bitsOf, hc] using hcb x hx)

/-- the exists script keeps the invariant while the clock is ≤ t + half, succeeds, and reads a
current filter that contains the item's bits -/
theorem existsScript_inv (g : List Nat) (t half u k : Nat) (idxs : List Nat) (s : St) (hh : 1 ≤ half)
    (hu : u ≤ t + half) (h : Inv g t half s) :
    ∃ s1, existsScript k half u idxs s = .ok (s1, Bloom.existsScript k idxs (bitsOf s1.cur)) ∧
      Inv g t half s1 := by
  obtain ⟨s1, hr, h1⟩ := rotate_inv g t half u s hh hu h
  exact ⟨s1, by simp only [existsScript, hr], h1⟩

/-- a successful add script run at server time `t` establishes the invariant for every group of
indexes it was given -/
theorem addScript_establishes (g : List Nat) (t half k : Nat) (idxs : List Nat) (s s' : St) (c : Nat)
    (hsub : ∀ x ∈ g, x ∈ idxs) (hne : idxs ≠ [])
    (hok : addScript k half t idxs s = .ok (s', c)) : Inv g t half s' := by
  have hemp : idxs.isEmpty = false := by
    cases idxs with
    | nil => exact absurd rfl hne
    | cons _ _ => rfl
  unfold addScript at hok
  cases hr : rotate half t s with
  | error s2 => simp [hr] at hok
  | ok s1 =>
    simp only [hr, hemp, Bool.false_eq_true, if_false] at hok
    injection hok with hok
    injection hok with hs' _
    subst hs'
    have hlock : ∃ e, s1.lock = some e ∧ t ≤ e := by
      unfold rotate at hr
      split at hr
      · contradiction
      · split at hr
        · rename_i hheld
          injection hr with hr
          subst hr
          unfold lockHeld at hheld
          split at hheld
          · rename_i e he
            exact ⟨e, he, by simpa using hheld⟩
          · contradiction
        · split at hr
          · contradiction
          · split at hr
            · contradiction
            · injection hr with hr
              subst hr
              exact ⟨t + half, rfl, by omega⟩
    obtain ⟨e, hl, hte⟩ := hlock
    left
    refine ⟨_, _, _, e, rfl, rfl, rfl, hl, hte, ?_, ?_⟩
    · intro x hx; rw [addLoop_bits]; exact foldl_setBit_mem _ _ _ (hsub x hx)
    · intro x hx; rw [addLoop_bits]; exact foldl_setBit_mem _ _ _ (hsub x hx)

/-! ### 3. histories -/

/-- timed operations; the time is the server clock reading of the script run -/
inductive Op where
  | add (u : Nat) (keys : List (Nat × Nat))
  | exists_ (u : Nat) (keys : List (Nat × Nat))
  | count

def Op.within (bound : Nat) : Op → Prop
  | .add u _ => u ≤ bound
  | .exists_ u _ => u ≤ bound
  | .count => True

/-- server state after an operation (whatever the script's outcome) -/
def applyOp (c : Cfg) (s : St) : Op → St
  | .add u keys => match addMulti c u keys s with | .ok s' => s' | .error s' => s'
  | .exists_ u keys => match existsMulti c u keys s with | .ok (s', _) => s' | .error s' => s'
  | .count => s

def run (c : Cfg) (s : St) (ops : List Op) : St := ops.foldl (applyOp c) s

private theorem applyOp_inv (c : Cfg) (g : List Nat) (t : Nat) (s : St) (op : Op) (hh : 1 ≤ c.half)
    (hw : op.within (t + c.half)) (h : Inv g t c.half s) : Inv g t c.half (applyOp c s op) := by
  cases op with
  | add u keys =>
    by_cases hemp : keys.isEmpty
    · simpa [applyOp, addMulti, hemp] using h
    · obtain ⟨s', cc, hok, hi⟩ := addScript_inv g t c.half u c.k (idxsOf c keys) s hh hw h
      simpa [applyOp, addMulti, hemp, hok, Except.map] using hi
  | exists_ u keys =>
    by_cases hemp : keys.isEmpty
    · simpa [applyOp, existsMulti, hemp] using h
    · obtain ⟨s1, hok, hi⟩ := existsScript_inv g t c.half u c.k (idxsOf c keys) s hh hw h
      simpa [applyOp, existsMulti, hemp, hok] using hi
  | count => exact h

private theorem run_inv (c : Cfg) (g : List Nat) (t : Nat) (hh : 1 ≤ c.half) : ∀ (ops : List Op) (s : St),
    (∀ op ∈ ops, op.within (t + c.half)) → Inv g t c.half s → Inv g t c.half (run c s ops) := by
  intro ops
  induction ops with
  | nil => intro s _ h; exact h
  | cons op ops ih =>
    intro s hw h
    simp only [run, List.foldl_cons]
    exact ih _ (fun o ho => hw o (by simp [ho])) (applyOp_inv c g t s op hh (hw op (by simp)) h)

/-- `present_for_half_window`: for every accepted configuration (`k ≥ 1`; window ≥ 1 s gives
`half ≥ 1`), any hash values, any start state: after an `Add`/`AddMulti` containing `key` succeeded
at server time `t`, through any history of adds and queries (no Reset/Delete) whose clock readings
are all ≤ t + half, `Exists key` asked at any `u ≤ t + half` succeeds and answers `true`. -/
theorem present_for_half_window (c : Cfg) (hk : 1 ≤ c.k) (hh : 1 ≤ c.half) (s s0 : St) (t : Nat)
    (keys : List (Nat × Nat)) (key : Nat × Nat) (hmem : key ∈ keys)
    (hadd : addMulti c t keys s = .ok s0)
    (hist : List Op) (hw : ∀ op ∈ hist, op.within (t + c.half)) (u : Nat) (hu : u ≤ t + c.half) :
    ∃ s', existsMulti c u [key] (run c s0 hist) = .ok (s', some [true]) := by
  have hemp : keys.isEmpty = false := by
    cases keys with
    | nil => simp at hmem
    | cons _ _ => rfl
  -- the add established the invariant for the key's indexes
  have hlen : (itemIdx c.m c.k key).length = c.k := by simp [itemIdx]
  have hsub : ∀ x ∈ itemIdx c.m c.k key, x ∈ idxsOf c keys := by
    intro x hx
    simp only [idxsOf, allIdx, List.mem_flatten]
    exact ⟨itemIdx c.m c.k key, List.mem_map.mpr ⟨key, hmem, rfl⟩, hx⟩
  have hne : idxsOf c keys ≠ [] := by
    intro h0
    have : (itemIdx c.m c.k key) = [] := by
      cases hg : itemIdx c.m c.k key with
      | nil => rfl
      | cons x xs => have := hsub x (by simp [hg]); rw [h0] at this; simp at this
    rw [this] at hlen; simp at hlen; omega
  have h0 : Inv (itemIdx c.m c.k key) t c.half s0 := by
    simp only [addMulti, hemp, Bool.false_eq_true, if_false] at hadd
    cases hs : addScript c.k c.half t (idxsOf c keys) s with
    | error e => simp [hs, Except.map] at hadd
    | ok r =>
      obtain ⟨s', cc⟩ := r
      simp [hs, Except.map] at hadd
      subst hadd
      exact addScript_establishes _ t c.half c.k _ s s' cc hsub hne hs
  have h1 := run_inv c _ t hh hist s0 hw h0
  obtain ⟨s1, hok, hi⟩ := existsScript_inv _ t c.half u c.k (idxsOf c [key]) _ hh hu h1
  refine ⟨s1, ?_⟩
  have hgrp : Bloom.existsScript c.k (idxsOf c [key]) (bitsOf s1.cur) = [true] := by
    have := Rv.C35.existsScript_groups c.k hk [itemIdx c.m c.k key] (bitsOf s1.cur) (by simp [hlen])
    simp only [List.flatten_cons, List.flatten_nil, List.append_nil, List.map_cons, List.map_nil] at this
    simp only [idxsOf, allIdx, List.map_cons, List.map_nil, List.flatten_cons, List.flatten_nil, List.append_nil]
    rw [this]
    have hall : (itemIdx c.m c.k key).all (bitsOf s1.cur) = true := by
      rw [List.all_eq_true]; exact inv_cur _ t c.half s1 hi
    rw [hall]
  simp [existsMulti, hok, hgrp]

/-- the statement for every configuration `NewSlidingBloomFilter` accepts: it rejects windows
below one second (`windowMs ≥ 1000`, `half = windowMs / 2`), and the number of hash functions is
the clamped `max(raw, 1)` shared with the plain filter. -/
theorem present_for_half_window_accepted (m hashRaw windowMs : Nat) (hwin : 1000 ≤ windowMs)
    (s s0 : SBloom.St) (t : Nat) (keys : List (Nat × Nat)) (key : Nat × Nat) (hmem : key ∈ keys)
    (hadd : addMulti ⟨m, Rv.Bloom.hashFunctions hashRaw, windowMs / 2⟩ t keys s = .ok s0)
    (hist : List Op) (hw : ∀ op ∈ hist, op.within (t + windowMs / 2)) (u : Nat) (hu : u ≤ t + windowMs / 2) :
    ∃ s', existsMulti ⟨m, Rv.Bloom.hashFunctions hashRaw, windowMs / 2⟩ u [key]
      (run ⟨m, Rv.Bloom.hashFunctions hashRaw, windowMs / 2⟩ s0 hist) = .ok (s', some [true]) :=
  present_for_half_window ⟨m, Rv.Bloom.hashFunctions hashRaw, windowMs / 2⟩
    (Rv.C35.hashFunctions_ge_one hashRaw) (by show 1 ≤ windowMs / 2; omega) s s0 t keys key hmem hadd hist hw u hu

/-- the bound is tight in the model: an item added at t = 1000 (half = 500) is gone at t = 2002
after two rotations (1501 and 2002) -/
theorem lost_after_two_rotations :
    let c : Cfg := ⟨7, 2, 500⟩
    let s0 := match initScript 500 1000 SBloom.St.init with | .ok s => s | .error s => s
    let s1 := applyOp c s0 (.add 1000 [(5, 3)])
    let s2 := applyOp c s1 (.exists_ 1501 [(5, 3)])
    (match existsMulti c 2002 [(5, 3)] s2 with | .ok (_, r) => r | .error _ => none) = some [false] := by
  decide

/-- non-vacuity: a concrete timed history inside the half window, and the model run on it -/
example : ∀ op ∈ [Op.add 1200 [(9, 4)], Op.exists_ 1499 [(5, 3)], Op.count], op.within (1000 + 500) := by
  intro op h
  simp at h
  rcases h with h | h | h <;> subst h <;> simp [Op.within]

end Rv.C37
