/-
C05 — calls honour context deadlines and cancellation.
The waiting points of the pipeline (`select` on the reply channel and ctx.Done), the admission
check for an already-done context, and the retry back-off decision. The blocking pool's wait
protocol (cancellation racing with the wake-up broadcast) is proved under C24
(`Rv.C24.no_lost_wakeup`, `Rv.C24.done_ctx_returns`); cache-flight waits under C09.
-/
import Rv.Model.Lifecycle
import Rv.Gen.PipeShape
namespace Rv.C05
open Rv.Lifecycle

/-- a call whose context is already done sends nothing (it returns before queueing or writing) -/
theorem done_ctx_sends_nothing (state waits : Nat) : admission state waits true = none := by
  simp [admission]

/-- a live context is always admitted to exactly one of: synchronous write, the queue, or an
    immediate error -/
theorem live_ctx_admitted (state waits : Nat) : ∃ a, admission state waits false = some a := by
  unfold admission
  by_cases h1 : state = 1
  · exact ⟨.queue, by simp [h1]⟩
  · by_cases h0 : state = 0
    · by_cases hw : waits ≠ 1
      · exact ⟨.queue, by simp [h0, hw]⟩
      · exact ⟨.sync, by simp [h0, hw]⟩
    · exact ⟨.reject, by simp [h1, h0]⟩

private def runWait : WaitSt → List WaitEv → WaitSt
  | s, [] => s
  | s, e :: es => runWait (waitStep s e) es

private theorem terminal_stable (s : WaitSt) (h : s ≠ .waiting) (es : List WaitEv) : runWait s es = s := by
  induction es generalizing s with
  | nil => rfl
  | cons e es ih =>
    have : waitStep s e = s := by cases s <;> cases e <;> simp_all [waitStep]
    simp [runWait, this, ih s h]

/-- **wait_exits_on_done.** For every event sequence at a pipeline waiting point: once ctx.Done
    fires while the call is still waiting, the call has left the wait with the context error and
    never re-enters it, whatever happens afterwards (a late reply is drained by the abandon
    goroutine, C01). -/
theorem wait_exits_on_done (pre post : List WaitEv) (hpre : ∀ e ∈ pre, e = .other) :
    runWait .waiting (pre ++ .ctxDone :: post) = .gotCtxErr := by
  induction pre with
  | nil => simp [runWait, waitStep]; exact terminal_stable _ (by decide) _
  | cons e pre ih =>
    have he : e = .other := hpre e (by simp)
    subst he
    simp only [List.cons_append, runWait, waitStep]
    exact ih (fun x hx => hpre x (by simp [hx]))

/-- a reply that arrives first is returned, a later cancellation does not turn it into an error -/
theorem reply_first_wins (pre post : List WaitEv) (hpre : ∀ e ∈ pre, e = .other) :
    runWait .waiting (pre ++ .reply :: post) = .gotReply := by
  induction pre with
  | nil => simp [runWait, waitStep]; exact terminal_stable _ (by decide) _
  | cons e pre ih =>
    have he : e = .other := hpre e (by simp)
    subst he
    simp only [List.cons_append, runWait, waitStep]
    exact ih (fun x hx => hpre x (by simp [hx]))

/-- **retry_skip_when_deadline_short.** The back-off never sleeps past the context deadline:
    it waits only when there is no deadline or the deadline is further away than the delay,
    and a negative delay never retries. -/
theorem retry_skip_when_deadline_short (delay : Int) (t : Int) :
    (waitOrSkip delay (some t) = .wait delay → 0 < delay ∧ delay < t) ∧
    (delay < 0 → waitOrSkip delay (some t) = .skip) ∧
    (0 < delay → t ≤ delay → waitOrSkip delay (some t) = .skip) := by
  unfold waitOrSkip
  refine ⟨?_, ?_, ?_⟩
  · intro h
    by_cases h0 : delay = 0
    · simp [h0] at h
    · by_cases hp : delay > 0
      · simp only [h0, hp, if_false, if_true] at h
        by_cases ht : t > delay
        · exact ⟨hp, ht⟩
        · simp [ht] at h
      · simp [h0, hp] at h
  · intro h
    have h0 : ¬ delay = 0 := by omega
    have hp : ¬ delay > 0 := by omega
    simp [h0, hp]
  · intro hp ht
    have h0 : ¬ delay = 0 := by omega
    have hnt : ¬ t > delay := by omega
    simp [h0, hp, hnt]

theorem no_deadline_waits (delay : Int) (h : 0 < delay) : waitOrSkip delay none = .wait delay := by
  have h0 : ¬ delay = 0 := by omega
  simp [waitOrSkip, h0, h]

/-- facts re-extracted from pipe.go / retry.go on every run: Do and DoMulti begin with the ctx.Err()
    check and wait with `select` on ctx.Done; WaitOrSkipRetry is the body `waitOrSkip` transcribes -/
theorem waiting_points_pinned :
    Rv.Gen.PipeShape.ctxCheckFirst_Do = true ∧ Rv.Gen.PipeShape.ctxCheckFirst_DoMulti = true ∧
    Rv.Gen.PipeShape.selectOnDone_Do = true ∧ Rv.Gen.PipeShape.selectOnDone_DoMulti = true ∧
    Rv.Gen.PipeShape.waitOrSkipSha = 0xfc9fb7818c04b177 := by
  refine ⟨rfl, rfl, rfl, rfl, rfl⟩

example : admission 1 5 false = some .queue := by decide
example : waitOrSkip 10 (some 5) = .skip := by decide

end Rv.C05
