-- root of the library: everything `lake build Rv` compiles
import Rv.Model.Hex
import Rv.Props.C18
import Rv.Drv.Slot
