#!/usr/bin/env python3
"""Regenerates /verif/MANIFEST.json from props/*.json (one spec per claimed property)."""
import json, os, glob
ROOT = os.path.dirname(os.path.dirname(os.path.abspath(__file__)))
props = [json.loads(l) for l in open(os.path.join(ROOT, "properties.jsonl"))]
specs = {}
for p in sorted(glob.glob(os.path.join(ROOT, "props", "C*.json"))):
    s = json.load(open(p)); specs[s["id"]] = s
baseline = json.load(open("/root/.vp/BASELINE.json"))["cmd"] if os.path.exists("/root/.vp/BASELINE.json") else ""
hooks_commits = []
hp = os.path.join(ROOT, "hooks-commits.txt")
if os.path.exists(hp):
    hooks_commits = [l.split()[0] for l in open(hp) if l.strip() and not l.startswith("#")]
enabled = set(open(os.path.join(ROOT, "props", "ENABLED")).read().split())
checks, na = [], []
for p in props:
    pid = p["id"]
    s = specs.get(pid)
    if s and pid not in enabled:
        s = dict(s, disabled="check under construction in this revision (not yet validated on the unchanged tree); design in DESIGN.md §3 (%s)" % pid)
    if not s or s.get("disabled"):
        na.append({"property_id": pid, "reason": (s or {}).get("disabled") or "no check built yet in this revision; design in DESIGN.md §3 (%s)" % pid})
        continue
    m = s["manifest"]
    checks.append({
        "property_id": pid,
        "quick_cmd": "./check %s --tier quick" % pid,
        "thorough_cmd": "./check %s --tier thorough" % pid,
        "evidence_file": "/verif/evidence/%s.json" % pid,
        "replay_cmd_template": "./check %s --replay {path}" % pid,
        "engine": "lean4-proof+correspondence",
        "level_claimed": {"category": s.get("level", "proof"), "text": m["level_text"], "design_ref": "DESIGN.md §3 " + pid},
        "level_note": m["level_note"],
        "technique": m["technique"],
    })
man = {
    "version": 1,
    "setup_cmd": "./setup.sh",
    "hooks": {
        "guard": "verif",
        "enable": "go build -tags verif (harness modules under /verif/harness replace github.com/redis/rueidis => /repo)",
        "baseline_off_cmd": baseline,
        "source_commits": hooks_commits,
        "add_only": True,
    },
    "engines": [{
        "name": "lean4-proof+correspondence", "path": "/verif/check",
        "serves_properties": [c["property_id"] for c in checks],
        "kind_free_text": "Lean 4 theorems over models (lake build + axiom audit + leanchecker), models tied to /repo by a go/ast translator (Rv/Gen regenerated every run) and by differential correspondence between the real Go code (in-process, -tags verif) and the Lean models' executable definitions",
    }],
    "checks": checks,
    "not_applicable": na,
    "notes": "Every check regenerates Rv/Gen from /repo, rebuilds the property's theorems, audits axioms, rebuilds the Go harness against /repo's working tree and diffs real code vs Lean model. See DESIGN.md.",
}
json.dump(man, open(os.path.join(ROOT, "MANIFEST.json"), "w"), indent=1)
print("MANIFEST.json: %d checks, %d not claimed" % (len(checks), len(na)))
