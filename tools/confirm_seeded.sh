#!/bin/bash
# confirm a round-3 seeded change: demo fails with the patch, passes without; store under /verif/seeded/<ID>-r3
export GOFLAGS=-mod=mod GOPROXY=off
for id in "$@"; do
  d=/tmp/mut3/$id
  cmd=$(python3 -c "import json;print(json.load(open('$d/meta.json'))['demo_cmd'])")
  (cd $d && git diff --quiet -- . ':!*_test.go' 2>/dev/null; true)
  (eval "$cmd") > /tmp/c3-$id-w.log 2>&1; w=$?
  (cd $d && git apply -R patch.diff) || { echo "$id: patch does not revert"; continue; }
  (eval "$cmd") > /tmp/c3-$id-wo.log 2>&1; wo=$?
  (cd $d && git apply patch.diff)
  echo "$id with-patch-exit=$w ($(grep -cE '^(--- FAIL|panic)' /tmp/c3-$id-w.log) FAIL/panic lines) without-patch-exit=$wo ($(grep -c '^ok' /tmp/c3-$id-wo.log) ok)"
  if [ $w -ne 0 ] && [ $wo -eq 0 ]; then
    s=/verif/seeded/$id-r3; rm -rf $s; mkdir -p $s; cp $d/patch.diff $s/; cp -r $d/demo $s/demo
    python3 - $id <<'PY'
import json,sys
id=sys.argv[1]
m=json.load(open('/tmp/mut3/%s/meta.json'%id))
m['round']=3
m['confirmed_by_maintainer']={'demo_fails_with_patch':True,'demo_passes_without_patch':True,'confirmed':True,'how':'ran demo_cmd in the scratch worktree with the patch applied (non-zero exit, FAIL/panic) and again after `git apply -R patch.diff` (exit 0, ok)'}
json.dump(m,open('/verif/seeded/%s-r3/meta.json'%id,'w'),indent=1)
PY
  fi
done
