#!/bin/sh
# Runs the repository's own test suite (guard OFF) on a scratch worktree of /repo HEAD and compares with BASELINE.json stable_pass.
set -e
WT=${1:-/tmp/wt-baseline}
git -C /repo worktree remove --force "$WT" 2>/dev/null || true
git -C /repo worktree add -q "$WT" HEAD
export GOFLAGS=-mod=mod GOPROXY=off
: > /tmp/baseline.json
for m in $(cat /w/out/gomods.txt); do
  (cd "$WT/$m" && go test -mod=mod -json -vet=off -count=1 -timeout 25m ./... >> /tmp/baseline.json 2>/dev/null) || true
done
python3 - <<'PY'
import json
passed=set()
for l in open('/tmp/baseline.json'):
    try: e=json.loads(l)
    except Exception: continue
    if e.get('Action')=='pass' and e.get('Test'):
        passed.add(e['Package']+'::'+e['Test'])
sp=set(json.load(open('/root/.vp/BASELINE.json'))['stable_pass'])
missing=sorted(sp-passed)
print('stable_pass',len(sp),'passed now',len(sp&passed),'missing',len(missing))
for m in missing[:40]: print('  MISSING',m)
PY
git -C /repo worktree remove --force "$WT"
