#!/bin/bash
# Evaluate every stored seeded change in K parallel streams; writes seeded/RESULTS.tsv
# (name, result: input | unproved | MISSED | patch-does-not-apply, the check's summary line).
K=${1:-4}
cd /verif
names=$(ls seeded | grep '^C' | sort)
i=0
for n in $names; do echo $n >> /tmp/evalall-stream-$((i % K)).list; i=$((i+1)); done
for k in $(seq 0 $((K-1))); do
  ( tools/evalseeded.sh $(cat /tmp/evalall-stream-$k.list) > /tmp/evalall-stream-$k.log 2>&1 ) &
done
wait
cat /tmp/evalall-stream-*.log | awk '
  /^=== /{name=$2; res[name]="no-result"; order[++n]=name}
  /^PATCH-DOES-NOT-APPLY/{res[name]="patch-does-not-apply"}
  /^VIOLATION/{res[name]=($0 ~ /no-failing-input-found/ ? "unproved" : "input")}
  /^OK /{res[name]="MISSED"; line[name]=$0}
  /^FAIL /{line[name]=$0}
  END{for(i=1;i<=n;i++){x=order[i]; printf "%s\t%s\t%s\n", x, res[x], line[x]}}' | sort > seeded/RESULTS.tsv
rm -f /tmp/evalall-stream-*.list
cut -f2 seeded/RESULTS.tsv | sort | uniq -c
