#!/bin/sh
# Evaluate a seeded change: run ./check <ID> from a private copy of /verif against a scratch worktree of the repository.
# usage: tools/evalmut.sh <ID> <worktree-with-change> [extra check args]
set -e
ID=$1; WT=$2; shift 2
COPY=${EVAL_COPY:-/tmp/verif-eval-$ID}
rm -rf "$COPY"; mkdir -p "$COPY"
rsync -a --exclude .git --exclude replay --exclude evidence /verif/ "$COPY"/
mkdir -p "$COPY/replay" "$COPY/evidence"
cd "$COPY"
VERIF_REPO="$WT" ./check "$ID" "$@" 2>&1 | tee "$COPY/out.txt" | grep -E "^(OK|FAIL|VIOLATION|KNOWN-FINDING)|^  (broken|mismatch)" | cut -c1-260
