#!/bin/sh
# usage: evalall.sh ID... ; worktrees are created from /verif/seeded/<ID>/patch.diff on top of /repo HEAD
for id in "$@"; do
  echo "=== $id $(date +%T)"
  wt=/tmp/evalwt-$id
  rm -rf $wt; git -C /repo worktree prune; git -C /repo worktree add -q --detach $wt HEAD || continue
  if ! git -C $wt apply /verif/seeded/$id/patch.diff; then echo "PATCH-DOES-NOT-APPLY $id"; else
    VERIF_SUITE_TIMEOUT=${VERIF_SUITE_TIMEOUT:-240} /verif/tools/evalmut.sh $id $wt 2>&1 | grep -E "^(OK|FAIL|VIOLATION)|broken" | cut -c1-230 | head -8
  fi
  git -C /repo worktree remove --force $wt; rm -rf /tmp/verif-eval-$id
done
git -C /repo worktree prune
echo ALLDONE
