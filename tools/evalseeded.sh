#!/bin/sh
# Evaluate stored seeded changes: for each <ID> or <ID>-r2 make a scratch worktree of /repo HEAD, apply
# /verif/seeded/<name>/patch.diff, run the property's check from a private copy of /verif against it, clean up.
# usage: tools/evalseeded.sh C06 C10-r2 ...
for name in "$@"; do
  id=${name%%-*}
  echo "=== $name $(date +%T)"
  wt=/tmp/evalwt-$name
  rm -rf $wt; git -C /repo worktree prune; git -C /repo worktree add -q --detach $wt HEAD || continue
  if ! git -C $wt apply /verif/seeded/$name/patch.diff; then echo "PATCH-DOES-NOT-APPLY $name"; else
    EVAL_COPY=/tmp/verif-eval-$name VERIF_SUITE_TIMEOUT=${VERIF_SUITE_TIMEOUT:-240} /verif/tools/evalmut.sh $id $wt 2>&1 | grep -E "^(OK|FAIL|VIOLATION)|broken" | cut -c1-230 | head -8
  fi
  git -C /repo worktree remove --force $wt; rm -rf /tmp/verif-eval-$name
done
git -C /repo worktree prune
echo ALLDONE
