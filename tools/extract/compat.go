package main

// Generator "compat": reads rueidiscompat/pipeline.go and tx.go and writes
// Rv/Gen/CompatTable.lean:
//
//   * one row per method of *Pipeline, classified by the exact statement shape of its body
//       wrap1   ret := c.comp.M(<params in order>); c.rets = append(c.rets, ret); return ret
//       wrapq   n := c.Len(); ret := c.comp.M(<params>); if c.Len() != n { c.rets = append(c.rets, ret) }; return ret
//       panics  panic("...")
//       control one of the pipeline-control methods (Do, Exec, Discard, Len, Client, Pipelined, ...)
//     anything else is an error (fail closed);
//   * the printed source text of the control methods the hand model transcribes
//     (proxy.Do, Pipeline.Do/Len/Discard/Exec, TxPipeline.Exec, newPipeline), so that the Lean
//     side can pin the model to the text it was written against;
//   * the methods TxPipeline declares itself (everything else is promoted from *Pipeline).

import (
	"bytes"
	"crypto/sha256"
	"fmt"
	"go/ast"
	"go/printer"
	"go/token"
	"math/big"
	"strings"
)

func init() { register("compat", genCompat) }

// pinnedNames: fixed order of the pinned functions in the generated hash list
var pinnedNames = []string{"proxy.Do", "newPipeline", "Pipeline.Len", "Pipeline.Do", "Pipeline.Discard", "Pipeline.Exec", "newTxPipeline", "TxPipeline.Exec"}

var compatControl = map[string]bool{"Do": true, "Exec": true, "Discard": true, "Len": true, "Client": true,
	"Pipelined": true, "TxPipelined": true, "Pipeline": true, "TxPipeline": true}

type compatRow struct {
	method, kind, target string
	argsFwd              bool
}

func srcOf(fset *token.FileSet, fd *ast.FuncDecl) (string, error) {
	var buf bytes.Buffer
	// print without the doc comment: the declaration node alone
	cp := *fd
	cp.Doc = nil
	if err := (&printer.Config{Mode: printer.RawFormat, Tabwidth: 1}).Fprint(&buf, fset, &cp); err != nil {
		return "", err
	}
	// normalise whitespace: one space between tokens, no comment text is part of a FuncDecl
	// without Doc except inner comments, which the printer only emits with a CommentedNode
	return strings.Join(strings.Fields(buf.String()), " "), nil
}

func isSel(e ast.Expr, a, b string) bool {
	se, ok := e.(*ast.SelectorExpr)
	if !ok || se.Sel.Name != b {
		return false
	}
	id, ok := se.X.(*ast.Ident)
	return ok && id.Name == a
}

// c.comp.M(params...) ?
func compCall(e ast.Expr, r string, ps []param) (target string, fwd bool, ok bool) {
	call, isCall := e.(*ast.CallExpr)
	if !isCall {
		return
	}
	se, isSe := call.Fun.(*ast.SelectorExpr)
	if !isSe || !isSel(se.X, r, "comp") {
		return
	}
	return se.Sel.Name, argsAreParams(call, 0, ps), true
}

// c.rets = append(c.rets, ret)
func isRetsAppend(s ast.Stmt, r, ret string) bool {
	as, ok := s.(*ast.AssignStmt)
	if !ok || as.Tok != token.ASSIGN || len(as.Lhs) != 1 || len(as.Rhs) != 1 || !isSel(as.Lhs[0], r, "rets") {
		return false
	}
	call, ok := as.Rhs[0].(*ast.CallExpr)
	if !ok || len(call.Args) != 2 || call.Ellipsis.IsValid() {
		return false
	}
	if id, ok := call.Fun.(*ast.Ident); !ok || id.Name != "append" {
		return false
	}
	id, ok := call.Args[1].(*ast.Ident)
	return ok && id.Name == ret && isSel(call.Args[0], r, "rets")
}

func isReturnIdent(s ast.Stmt, name string) bool {
	rs, ok := s.(*ast.ReturnStmt)
	if !ok || len(rs.Results) != 1 {
		return false
	}
	id, ok := rs.Results[0].(*ast.Ident)
	return ok && id.Name == name
}

// x := <rhs> with a single fresh identifier
func defineOne(s ast.Stmt) (name string, rhs ast.Expr, ok bool) {
	as, isAs := s.(*ast.AssignStmt)
	if !isAs || as.Tok != token.DEFINE || len(as.Lhs) != 1 || len(as.Rhs) != 1 {
		return
	}
	id, isId := as.Lhs[0].(*ast.Ident)
	if !isId {
		return
	}
	return id.Name, as.Rhs[0], true
}

// c.Len()
func isLenCall(e ast.Expr, r string) bool {
	call, ok := e.(*ast.CallExpr)
	return ok && len(call.Args) == 0 && isSel(call.Fun, r, "Len")
}

func genCompat() error {
	fset, f, err := parseFile("rueidiscompat/pipeline.go")
	if err != nil {
		return err
	}
	pos := func(n ast.Node) string { return fset.Position(n.Pos()).String() }
	var rows []compatRow
	pinned := map[string]string{}
	var pinOrder []string
	pin := func(name string, fs *token.FileSet, fd *ast.FuncDecl) error {
		s, err := srcOf(fs, fd)
		if err != nil {
			return err
		}
		pinned[name] = s
		pinOrder = append(pinOrder, name)
		return nil
	}
	for _, d := range f.Decls {
		fd, ok := d.(*ast.FuncDecl)
		if !ok {
			continue
		}
		if fd.Recv == nil {
			if fd.Name.Name == "newPipeline" {
				if err := pin("newPipeline", fset, fd); err != nil {
					return err
				}
				continue
			}
			return fail("%s: unexpected top-level function %s in pipeline.go", pos(fd), fd.Name.Name)
		}
		st, ok := fd.Recv.List[0].Type.(*ast.StarExpr)
		if !ok || len(fd.Recv.List[0].Names) != 1 {
			return fail("%s: receiver shape", pos(fd))
		}
		rtype, r := exprText(st.X), fd.Recv.List[0].Names[0].Name
		switch rtype {
		case "proxy":
			if fd.Name.Name != "Do" {
				return fail("%s: proxy declares %s: only Do is modelled (every other request path would bypass the capture)", pos(fd), fd.Name.Name)
			}
			if err := pin("proxy.Do", fset, fd); err != nil {
				return err
			}
			continue
		case "Pipeline":
		default:
			return fail("%s: method of unexpected type %s in pipeline.go", pos(fd), rtype)
		}
		name := fd.Name.Name
		ps := paramNames(fd.Type)
		body := fd.Body.List
		row := compatRow{method: name}
		switch {
		case compatControl[name]:
			row.kind = "control"
			if name == "Do" || name == "Exec" || name == "Discard" || name == "Len" {
				if err := pin("Pipeline."+name, fset, fd); err != nil {
					return err
				}
			}
		case len(body) == 1:
			es, ok := body[0].(*ast.ExprStmt)
			if !ok {
				return fail("%s: Pipeline.%s: single statement is not a panic", pos(fd), name)
			}
			call, ok := es.X.(*ast.CallExpr)
			if !ok {
				return fail("%s: Pipeline.%s: single statement is not a panic", pos(fd), name)
			}
			if id, ok := call.Fun.(*ast.Ident); !ok || id.Name != "panic" {
				return fail("%s: Pipeline.%s: single statement is not a panic", pos(fd), name)
			}
			row.kind = "panics"
		case len(body) == 3:
			ret, rhs, ok := defineOne(body[0])
			if !ok {
				return fail("%s: Pipeline.%s: first statement is not `ret := ...`", pos(fd), name)
			}
			target, fwd, ok := compCall(rhs, r, ps)
			if !ok {
				return fail("%s: Pipeline.%s: first statement does not call %s.comp.<M>", pos(fd), name, r)
			}
			if !isRetsAppend(body[1], r, ret) || !isReturnIdent(body[2], ret) {
				return fail("%s: Pipeline.%s: body is not `ret := c.comp.M(..); c.rets = append(c.rets, ret); return ret`", pos(fd), name)
			}
			row.kind, row.target, row.argsFwd = "wrap1", target, fwd
		case len(body) == 4:
			n, rhs0, ok0 := defineOne(body[0])
			ret, rhs1, ok1 := defineOne(body[1])
			ifs, ok2 := body[2].(*ast.IfStmt)
			if !ok0 || !ok1 || !ok2 || !isLenCall(rhs0, r) || ifs.Init != nil || ifs.Else != nil || len(ifs.Body.List) != 1 {
				return fail("%s: Pipeline.%s: 4-statement body is not the guarded-append shape", pos(fd), name)
			}
			target, fwd, ok := compCall(rhs1, r, ps)
			be, okb := ifs.Cond.(*ast.BinaryExpr)
			if !ok || !okb || be.Op != token.NEQ || !isLenCall(be.X, r) {
				return fail("%s: Pipeline.%s: guard is not `c.Len() != n`", pos(fd), name)
			}
			if id, ok := be.Y.(*ast.Ident); !ok || id.Name != n {
				return fail("%s: Pipeline.%s: guard is not `c.Len() != n`", pos(fd), name)
			}
			if !isRetsAppend(ifs.Body.List[0], r, ret) || !isReturnIdent(body[3], ret) {
				return fail("%s: Pipeline.%s: guarded body is not a single append of ret / return ret", pos(fd), name)
			}
			row.kind, row.target, row.argsFwd = "wrapq", target, fwd
		default:
			return fail("%s: Pipeline.%s: body of %d statements matches no known shape", pos(fd), name, len(body))
		}
		rows = append(rows, row)
	}

	// tx.go: TxPipeline's own methods; pin Exec
	fset2, f2, err := parseFile("rueidiscompat/tx.go")
	if err != nil {
		return err
	}
	var txOwn []string
	for _, d := range f2.Decls {
		fd, ok := d.(*ast.FuncDecl)
		if !ok {
			continue
		}
		if fd.Recv == nil {
			if fd.Name.Name == "newTxPipeline" {
				if err := pin("newTxPipeline", fset2, fd); err != nil {
					return err
				}
			}
			continue
		}
		st, ok := fd.Recv.List[0].Type.(*ast.StarExpr)
		if !ok {
			continue
		}
		if exprText(st.X) == "TxPipeline" {
			txOwn = append(txOwn, fd.Name.Name)
			if fd.Name.Name == "Exec" {
				if err := pin("TxPipeline.Exec", fset2, fd); err != nil {
					return err
				}
			}
		}
	}
	// TxPipeline must embed *rePipeline (= *Pipeline) and nothing else
	txEmbeds := ""
	for _, d := range f2.Decls {
		gd, ok := d.(*ast.GenDecl)
		if !ok || gd.Tok != token.TYPE {
			continue
		}
		for _, s := range gd.Specs {
			ts := s.(*ast.TypeSpec)
			if ts.Name.Name == "TxPipeline" {
				stt, ok := ts.Type.(*ast.StructType)
				if !ok || len(stt.Fields.List) != 1 || len(stt.Fields.List[0].Names) != 0 {
					return fail("TxPipeline is not a struct with a single embedded field")
				}
				txEmbeds = exprText(stt.Fields.List[0].Type)
			}
		}
	}
	for _, need := range pinnedNames {
		if _, ok := pinned[need]; !ok {
			return fail("%s not found", need)
		}
	}

	var b strings.Builder
	b.WriteString("namespace Rv.Gen.Compat\n\n")
	b.WriteString("inductive Kind | wrap1 | wrapq | panics | control\n  deriving DecidableEq, Repr\n\n")
	b.WriteString("/-- one method of *Pipeline (rueidiscompat/pipeline.go), classified by the statement shape of its body -/\n")
	b.WriteString("structure Row where\n  method : String\n  kind : Kind\n  target : String\n  sameName : Bool\n  argsFwd : Bool\n  deriving DecidableEq, Repr\n\n")
	b.WriteString("def rows : List Row := [\n")
	for i, r := range rows {
		sep := ","
		if i == len(rows)-1 {
			sep = ""
		}
		fmt.Fprintf(&b, "  ⟨%s, .%s, %s, %v, %v⟩%s\n", leanStr(r.method), r.kind, leanStr(r.target), r.target == r.method, r.argsFwd, sep)
	}
	b.WriteString("]\n\n")
	b.WriteString("/-- methods TxPipeline declares itself; all others are promoted from the embedded pipeline -/\ndef txOwn : List String := [" + joinLeanStr(txOwn) + "]\n\n")
	b.WriteString("def txEmbeds : String := " + leanStr(txEmbeds) + "\n\n")
	_ = pinOrder
	b.WriteString("/-- whitespace-normalised source text of the functions the hand model transcribes (for the reader) -/\ndef pinned : List (String × String) := [\n")
	for i, n := range pinnedNames {
		sep := ","
		if i == len(pinnedNames)-1 {
			sep = ""
		}
		fmt.Fprintf(&b, "  (%s, %s)%s\n", leanStr(n), leanStr(pinned[n]), sep)
	}
	b.WriteString("]\n\n/-- SHA-256 of each text above, as a number, in the same order -/\ndef pinnedHashes : List Nat := [\n")
	for i, n := range pinnedNames {
		sep := ","
		if i == len(pinnedNames)-1 {
			sep = ""
		}
		h := sha256.Sum256([]byte(pinned[n]))
		fmt.Fprintf(&b, "  %s%s  -- %s\n", new(big.Int).SetBytes(h[:]).String(), sep, n)
	}
	b.WriteString("]\n\nend Rv.Gen.Compat\n")
	return writeLean("CompatTable.lean", b.String())
}
