package main

import (
	"fmt"
	"go/ast"
	"go/token"
	"sort"
	"strconv"
	"strings"
)

func init() { register("url", genURL) }

// genURL reads ParseURL in url.go and emits, for every statement after
// `q := u.Query()`, which query parameter it reads and which option fields it
// assigns (UrlParams.lean). Statements before the query is read contribute
// the list of option fields set from scheme/host/userinfo/path. Any statement
// shape it does not understand is an error.
func genURL() error {
	fset, f, err := parseFile("url.go")
	if err != nil {
		return err
	}
	var fn *ast.FuncDecl
	for _, d := range f.Decls {
		if fd, ok := d.(*ast.FuncDecl); ok && fd.Recv == nil && fd.Name.Name == "ParseURL" {
			fn = fd
		}
	}
	if fn == nil || fn.Body == nil {
		return fail("func ParseURL not found in url.go")
	}
	// name of the result variable of type ClientOption
	optName := ""
	if fn.Type.Results != nil {
		for _, r := range fn.Type.Results.List {
			if id, ok := r.Type.(*ast.Ident); ok && id.Name == "ClientOption" && len(r.Names) == 1 {
				optName = r.Names[0].Name
			}
		}
	}
	if optName == "" {
		return fail("ParseURL has no named ClientOption result")
	}
	pos := func(n ast.Node) string { return fset.Position(n.Pos()).String() }

	// selector chain rooted at optName → "A.B"
	var fieldOf func(e ast.Expr) (string, bool)
	fieldOf = func(e ast.Expr) (string, bool) {
		switch x := e.(type) {
		case *ast.SelectorExpr:
			if id, ok := x.X.(*ast.Ident); ok {
				if id.Name == optName {
					return x.Sel.Name, true
				}
				return "", false
			}
			if p, ok := fieldOf(x.X); ok {
				return p + "." + x.Sel.Name, true
			}
		}
		return "", false
	}

	type info struct {
		keys    []string // query keys read
		fields  []string // option fields assigned
		how     []string // stdlib parsers / append / ==lit
		rejects string   // text of the error message if the statement can return an error
	}
	qName := ""
	collect := func(st ast.Stmt) (info, error) {
		var in info
		var ierr error
		addKey := func(e ast.Expr) {
			bl, ok := e.(*ast.BasicLit)
			if !ok || bl.Kind != token.STRING {
				ierr = fail("%s: query key is not a string literal", pos(e))
				return
			}
			k, _ := strconv.Unquote(bl.Value)
			for _, x := range in.keys {
				if x == k {
					return
				}
			}
			in.keys = append(in.keys, k)
		}
		addUniq := func(l *[]string, s string) {
			for _, x := range *l {
				if x == s {
					return
				}
			}
			*l = append(*l, s)
		}
		ast.Inspect(st, func(n ast.Node) bool {
			switch x := n.(type) {
			case *ast.AssignStmt:
				for _, l := range x.Lhs {
					if fld, ok := fieldOf(l); ok {
						addUniq(&in.fields, fld)
					} else if id, ok := l.(*ast.Ident); ok && id.Name == optName {
						ierr = fail("%s: whole option record assigned", pos(x))
					}
				}
				for _, r := range x.Rhs {
					if be, ok := r.(*ast.BinaryExpr); ok && be.Op == token.EQL {
						if bl, ok := be.Y.(*ast.BasicLit); ok {
							addUniq(&in.how, "=="+bl.Value)
						}
					}
				}
			case *ast.IncDecStmt:
				if _, ok := fieldOf(x.X); ok {
					ierr = fail("%s: inc/dec of an option field", pos(x))
				}
			case *ast.UnaryExpr:
				if x.Op == token.AND {
					if _, ok := fieldOf(x.X); ok {
						ierr = fail("%s: address of an option field taken", pos(x))
					}
				}
			case *ast.CallExpr:
				if se, ok := x.Fun.(*ast.SelectorExpr); ok {
					if id, ok := se.X.(*ast.Ident); ok {
						switch {
						case qName != "" && id.Name == qName:
							if (se.Sel.Name == "Has" || se.Sel.Name == "Get") && len(x.Args) == 1 {
								addKey(x.Args[0])
							} else {
								ierr = fail("%s: unsupported method %s on the query values", pos(x), se.Sel.Name)
							}
						case id.Name == "strconv" || id.Name == "time":
							addUniq(&in.how, id.Name+"."+se.Sel.Name)
						case id.Name == "fmt" && se.Sel.Name == "Errorf" && len(x.Args) > 0:
							if bl, ok := x.Args[0].(*ast.BasicLit); ok {
								in.rejects, _ = strconv.Unquote(bl.Value)
							}
						}
					}
				} else if id, ok := x.Fun.(*ast.Ident); ok && id.Name == "append" {
					addUniq(&in.how, "append")
				}
			case *ast.IndexExpr:
				if id, ok := x.X.(*ast.Ident); ok && qName != "" && id.Name == qName {
					addKey(x.Index)
				}
			}
			return ierr == nil
		})
		return in, ierr
	}

	var base []string
	type row struct{ key, field, how, rejects string }
	var rows []row
	for _, st := range fn.Body.List {
		if qName == "" {
			// `q := u.Query()` switches to the query part
			if as, ok := st.(*ast.AssignStmt); ok && as.Tok == token.DEFINE && len(as.Lhs) == 1 && len(as.Rhs) == 1 {
				if ce, ok := as.Rhs[0].(*ast.CallExpr); ok {
					if se, ok := ce.Fun.(*ast.SelectorExpr); ok && se.Sel.Name == "Query" {
						qName = as.Lhs[0].(*ast.Ident).Name
						continue
					}
				}
			}
			in, err := collect(st)
			if err != nil {
				return err
			}
			for _, fl := range in.fields {
				base = append(base, fl)
			}
			continue
		}
		if rs, ok := st.(*ast.ReturnStmt); ok {
			if len(rs.Results) != 0 {
				return fail("%s: final return is not a bare return", pos(rs))
			}
			continue
		}
		switch st.(type) {
		case *ast.IfStmt, *ast.RangeStmt, *ast.AssignStmt:
		default:
			return fail("%s: unsupported statement %T after the query is read", pos(st), st)
		}
		in, err := collect(st)
		if err != nil {
			return err
		}
		if len(in.keys) != 1 {
			return fail("%s: statement reads %d query keys %v, want exactly 1", pos(st), len(in.keys), in.keys)
		}
		if len(in.fields) == 0 {
			return fail("%s: statement reads query key %q but assigns no option field", pos(st), in.keys[0])
		}
		for _, fl := range in.fields {
			rows = append(rows, row{in.keys[0], fl, strings.Join(in.how, ","), in.rejects})
		}
	}
	if qName == "" {
		return fail("`q := u.Query()` not found in ParseURL")
	}
	sort.Strings(base)
	var ub []string
	for i, b := range base {
		if i == 0 || base[i-1] != b {
			ub = append(ub, b)
		}
	}
	var b strings.Builder
	b.WriteString("namespace Rv.Gen\n")
	b.WriteString("/-- url.go ParseURL, statements after `q := u.Query()`: (query parameter, option field assigned, how, error text) in source order -/\n")
	b.WriteString("def urlParams : List (String × String × String × String) := [\n")
	for i, r := range rows {
		if i > 0 {
			b.WriteString(",\n")
		}
		fmt.Fprintf(&b, "  (%s, %s, %s, %s)", leanStr(r.key), leanStr(r.field), leanStr(r.how), leanStr(r.rejects))
	}
	b.WriteString("]\n")
	b.WriteString("/-- option fields assigned before the query is read (from scheme, host, userinfo, path) -/\n")
	b.WriteString("def urlBaseFields : List String := [")
	for i, x := range ub {
		if i > 0 {
			b.WriteString(", ")
		}
		b.WriteString(leanStr(x))
	}
	b.WriteString("]\nend Rv.Gen\n")
	return writeLean("UrlParams.lean", b.String())
}
