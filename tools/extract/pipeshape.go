package main

import (
	"bytes"
	"crypto/sha256"
	"fmt"
	"go/ast"
	"go/printer"
	"go/token"
	"strings"
)

func init() { register("pipeshape", genPipeShape) }

func src(fset *token.FileSet, n ast.Node) string {
	var b bytes.Buffer
	_ = printer.Fprint(&b, fset, n)
	return strings.Join(strings.Fields(b.String()), " ")
}

func findFunc(f *ast.File, recv, name string) *ast.FuncDecl {
	for _, d := range f.Decls {
		fd, ok := d.(*ast.FuncDecl)
		if !ok || fd.Name.Name != name {
			continue
		}
		r := ""
		if fd.Recv != nil && len(fd.Recv.List) == 1 {
			switch t := fd.Recv.List[0].Type.(type) {
			case *ast.StarExpr:
				if id, ok := t.X.(*ast.Ident); ok {
					r = id.Name
				}
			case *ast.Ident:
				r = t.Name
			}
		}
		if r == recv {
			return fd
		}
	}
	return nil
}

// retryConds lists, in source order, the condition of every `if` whose body (transitively, through
// nested ifs) contains `goto retry`, as the conjunction of the enclosing conditions.
func retryConds(fset *token.FileSet, body *ast.BlockStmt) []string {
	var out []string
	var walk func(n ast.Stmt, conds []string)
	walk = func(n ast.Stmt, conds []string) {
		switch s := n.(type) {
		case *ast.BlockStmt:
			for _, x := range s.List {
				walk(x, conds)
			}
		case *ast.IfStmt:
			c := src(fset, s.Cond)
			if s.Init != nil {
				c = src(fset, s.Init) + "; " + c
			}
			walk(s.Body, append(append([]string{}, conds...), c))
			if s.Else != nil {
				walk(s.Else, append(append([]string{}, conds...), "!("+c+")"))
			}
		case *ast.ForStmt:
			walk(s.Body, conds)
		case *ast.RangeStmt:
			walk(s.Body, conds)
		case *ast.LabeledStmt:
			walk(s.Stmt, conds)
		case *ast.BranchStmt:
			if s.Tok == token.GOTO && s.Label != nil && s.Label.Name == "retry" {
				out = append(out, strings.Join(conds, " && "))
			}
		}
	}
	walk(body, nil)
	return out
}

func genPipeShape() error {
	fset, pf, err := parseFile("pipe.go")
	if err != nil {
		return err
	}
	var b strings.Builder
	b.WriteString("namespace Rv.Gen.PipeShape\n")
	str := func(name, val string) { fmt.Fprintf(&b, "def %s : String := %s\n", name, leanStr(val)) }
	boolv := func(name string, v bool) { fmt.Fprintf(&b, "def %s : Bool := %v\n", name, v) }
	strs := func(name string, vals []string) {
		q := make([]string, len(vals))
		for i, v := range vals {
			q[i] = leanStr(v)
		}
		fmt.Fprintf(&b, "def %s : List String := [%s]\n", name, strings.Join(q, ", "))
	}
	// --- _backgroundRead: the deferred handler must not hand out errConnExpired
	rd := findFunc(pf, "pipe", "_backgroundRead")
	if rd == nil {
		return fail("pipe._backgroundRead not found")
	}
	var deferSrc string
	ast.Inspect(rd.Body, func(n ast.Node) bool {
		if d, ok := n.(*ast.DeferStmt); ok && deferSrc == "" {
			deferSrc = src(fset, d)
		}
		return true
	})
	if deferSrc == "" {
		return fail("_backgroundRead has no deferred handler")
	}
	boolv("readDeferMentionsExpired", strings.Contains(deferSrc, "errConnExpired"))
	boolv("readerCountsFetches", strings.Contains(src(fset, rd.Body), "if ch != nil { p.rcnt++ }"))
	// --- _background: drain loop
	bg := findFunc(pf, "pipe", "_background")
	if bg == nil {
		return fail("pipe._background not found")
	}
	bgs := src(fset, bg.Body)
	boolv("drainSentGuard", strings.Contains(bgs, "if err == errConnExpired && rerr != nil { sent = NewErrorResult(rerr)"))
	boolv("drainChoosesByCounters", strings.Contains(bgs, "if !closed || p.rcnt < p.wcnt { resp = sent } p.rcnt++"))
	boolv("drainLoopsOnWaits", strings.Contains(bgs, "for p.loadWaits() != 0 {"))
	boolv("drainClosesCacheAndSubs", strings.Contains(bgs, "p.nsubs.Close()") && strings.Contains(bgs, "p.cache.Close(ErrDoCacheAborted)"))
	wr := findFunc(pf, "pipe", "_backgroundWrite")
	if wr == nil {
		return fail("pipe._backgroundWrite not found")
	}
	boolv("writerCountsBatches", strings.Contains(src(fset, wr.Body), "if ch != nil { p.wcnt++ }"))
	// --- admission: Do / DoMulti start with the ctx.Err() check and wait with a select on ctx.Done
	for _, fn := range []string{"Do", "DoMulti"} {
		fd := findFunc(pf, "pipe", fn)
		if fd == nil {
			return fail("pipe.%s not found", fn)
		}
		first := ""
		for _, st := range fd.Body.List {
			if _, ok := st.(*ast.IfStmt); ok {
				first = src(fset, st)
				break
			}
		}
		boolv("ctxCheckFirst_"+fn, strings.HasPrefix(first, "if err := ctx.Err(); err != nil {"))
		body := src(fset, fd.Body)
		boolv("selectOnDone_"+fn, strings.Contains(body, "case <-ctxCh: goto abort"))
		boolv("rejectsByState_"+fn, strings.Contains(body, "if state == 1 { goto queue }") && strings.Contains(body, "if state == 0 {"))
	}
	// --- client loops
	_, cf, err := parseFile("client.go")
	if err != nil {
		return err
	}
	fsetC, cf2, _ := parseFile("client.go")
	_ = cf
	for _, fn := range []string{"Do", "DoMulti", "DoCache", "DoMultiCache", "Receive"} {
		fd := findFunc(cf2, "singleClient", fn)
		if fd == nil {
			return fail("singleClient.%s not found", fn)
		}
		strs("retry_"+fn, retryConds(fsetC, fd.Body))
	}
	// --- mux.isBroken and retryer.WaitOrSkipRetry (small: pinned as text)
	fsetM, mf, err := parseFile("mux.go")
	if err != nil {
		return err
	}
	mp := findFunc(mf, "mux", "_pipe")
	if mp == nil {
		return fail("mux._pipe not found")
	}
	mps := src(fsetM, mp.Body)
	boolv("muxInstallsWithCAS", strings.Contains(mps, "if !m.muxwires[i].wire.CompareAndSwap(m.init, w) {") && !strings.Contains(mps, "wire.Store(w)"))
	mc := findFunc(mf, "mux", "Close")
	if mc == nil {
		return fail("mux.Close not found")
	}
	boolv("muxCloseSwapsDead", strings.Contains(src(fsetM, mc.Body), "wire.Swap(m.dead)"))
	ib := findFunc(mf, "", "isBroken")
	if ib == nil {
		return fail("isBroken not found")
	}
	str("isBroken", src(fsetM, ib.Body))
	fsetR, rf, err := parseFile("retry.go")
	if err != nil {
		return err
	}
	ws := findFunc(rf, "retryer", "WaitOrSkipRetry")
	if ws == nil {
		return fail("retryer.WaitOrSkipRetry not found")
	}
	h := sha256.Sum256([]byte(src(fsetR, ws.Body)))
	fmt.Fprintf(&b, "def waitOrSkipSha : Nat := 0x%x\n", h[:8])
	b.WriteString("end Rv.Gen.PipeShape\n")
	return writeLean("PipeShape.lean", b.String())
}
