package main

import (
	"bytes"
	"crypto/sha256"
	"fmt"
	"go/ast"
	"go/printer"
	"go/token"
	"strings"
)

func init() { register("pipeshape", genPipeShape) }

func src(fset *token.FileSet, n ast.Node) string {
	var b bytes.Buffer
	_ = printer.Fprint(&b, fset, n)
	return strings.Join(strings.Fields(b.String()), " ")
}

func findFunc(f *ast.File, recv, name string) *ast.FuncDecl {
	for _, d := range f.Decls {
		fd, ok := d.(*ast.FuncDecl)
		if !ok || fd.Name.Name != name {
			continue
		}
		r := ""
		if fd.Recv != nil && len(fd.Recv.List) == 1 {
			switch t := fd.Recv.List[0].Type.(type) {
			case *ast.StarExpr:
				if id, ok := t.X.(*ast.Ident); ok {
					r = id.Name
				}
			case *ast.Ident:
				r = t.Name
			}
		}
		if r == recv {
			return fd
		}
	}
	return nil
}

// retryConds lists, in source order, the condition of every `if` whose body (transitively, through
// nested ifs) contains `goto retry`, as the conjunction of the enclosing conditions.
func retryConds(fset *token.FileSet, body *ast.BlockStmt) []string {
	var out []string
	var walk func(n ast.Stmt, conds []string)
	walk = func(n ast.Stmt, conds []string) {
		switch s := n.(type) {
		case *ast.BlockStmt:
			for _, x := range s.List {
				walk(x, conds)
			}
		case *ast.IfStmt:
			c := src(fset, s.Cond)
			if s.Init != nil {
				c = src(fset, s.Init) + "; " + c
			}
			walk(s.Body, append(append([]string{}, conds...), c))
			if s.Else != nil {
				walk(s.Else, append(append([]string{}, conds...), "!("+c+")"))
			}
		case *ast.ForStmt:
			walk(s.Body, conds)
		case *ast.RangeStmt:
			walk(s.Body, conds)
		case *ast.LabeledStmt:
			walk(s.Stmt, conds)
		case *ast.BranchStmt:
			if s.Tok == token.GOTO && s.Label != nil && s.Label.Name == "retry" {
				out = append(out, strings.Join(conds, " && "))
			}
		}
	}
	walk(body, nil)
	return out
}

func genPipeShape() error {
	fset, pf, err := parseFile("pipe.go")
	if err != nil {
		return err
	}
	var b strings.Builder
	b.WriteString("namespace Rv.Gen.PipeShape\n")
	str := func(name, val string) { fmt.Fprintf(&b, "def %s : String := %s\n", name, leanStr(val)) }
	boolv := func(name string, v bool) { fmt.Fprintf(&b, "def %s : Bool := %v\n", name, v) }
	strs := func(name string, vals []string) {
		q := make([]string, len(vals))
		for i, v := range vals {
			q[i] = leanStr(v)
		}
		fmt.Fprintf(&b, "def %s : List String := [%s]\n", name, strings.Join(q, ", "))
	}
	// --- _backgroundRead: the deferred handler must not hand out errConnExpired
	rd := findFunc(pf, "pipe", "_backgroundRead")
	if rd == nil {
		return fail("pipe._backgroundRead not found")
	}
	var deferSrc string
	ast.Inspect(rd.Body, func(n ast.Node) bool {
		if d, ok := n.(*ast.DeferStmt); ok && deferSrc == "" {
			deferSrc = src(fset, d)
		}
		return true
	})
	if deferSrc == "" {
		return fail("_backgroundRead has no deferred handler")
	}
	boolv("readDeferMentionsExpired", strings.Contains(deferSrc, "errConnExpired"))
	boolv("readerCountsFetches", strings.Contains(src(fset, rd.Body), "if ch != nil { p.rcnt++ }"))
	// --- _background: drain loop
	bg := findFunc(pf, "pipe", "_background")
	if bg == nil {
		return fail("pipe._background not found")
	}
	bgs := src(fset, bg.Body)
	boolv("drainSentGuard", strings.Contains(bgs, "if err == errConnExpired && rerr != nil { sent = NewErrorResult(rerr)"))
	boolv("drainChoosesByCounters", strings.Contains(bgs, "if !closed || p.rcnt < p.wcnt { resp = sent } p.rcnt++"))
	boolv("drainLoopsOnWaits", strings.Contains(bgs, "for p.loadWaits() != 0 {"))
	boolv("drainClosesCacheAndSubs", strings.Contains(bgs, "p.nsubs.Close()") && strings.Contains(bgs, "p.cache.Close(ErrDoCacheAborted)"))
	wr := findFunc(pf, "pipe", "_backgroundWrite")
	if wr == nil {
		return fail("pipe._backgroundWrite not found")
	}
	boolv("writerCountsBatches", strings.Contains(src(fset, wr.Body), "if ch != nil { p.wcnt++ }"))
	// the batch is counted BEFORE its first byte can reach the connection (Rv/Model/WriterLoop.lean, `before := true`):
	// exactly one increment, unconditional on the write's outcome, textually ahead of the only loop that calls writeCmd
	wrs := src(fset, wr.Body)
	cntAt, loopAt, wcAt := strings.Index(wrs, "if ch != nil { p.wcnt++ }"), strings.Index(wrs, "for _, cmd := range multi {"), strings.Index(wrs, "writeCmd(")
	boolv("writerCountsBeforeWrite", cntAt >= 0 && loopAt > cntAt && wcAt > loopAt && strings.Count(wrs, "p.wcnt") == 1)
	// --- admission: Do / DoMulti start with the ctx.Err() check and wait with a select on ctx.Done
	for _, fn := range []string{"Do", "DoMulti"} {
		fd := findFunc(pf, "pipe", fn)
		if fd == nil {
			return fail("pipe.%s not found", fn)
		}
		first := ""
		for _, st := range fd.Body.List {
			if _, ok := st.(*ast.IfStmt); ok {
				first = src(fset, st)
				break
			}
		}
		boolv("ctxCheckFirst_"+fn, strings.HasPrefix(first, "if err := ctx.Err(); err != nil {"))
		body := src(fset, fd.Body)
		boolv("selectOnDone_"+fn, strings.Contains(body, "case <-ctxCh: goto abort"))
		boolv("rejectsByState_"+fn, strings.Contains(body, "if state == 1 { goto queue }") && strings.Contains(body, "if state == 0 {"))
	}
	// --- pipe life (C04b): the guards and the statement order the interleaving model Rv/Model/PipeLife.lean transcribes
	if err := genPipeLife(fset, pf, strs, str, boolv); err != nil {
		return err
	}
	// --- client loops
	_, cf, err := parseFile("client.go")
	if err != nil {
		return err
	}
	fsetC, cf2, _ := parseFile("client.go")
	_ = cf
	for _, fn := range []string{"Do", "DoMulti", "DoCache", "DoMultiCache", "Receive"} {
		fd := findFunc(cf2, "singleClient", fn)
		if fd == nil {
			return fail("singleClient.%s not found", fn)
		}
		strs("retry_"+fn, retryConds(fsetC, fd.Body))
	}
	// --- mux.isBroken and retryer.WaitOrSkipRetry (small: pinned as text)
	fsetM, mf, err := parseFile("mux.go")
	if err != nil {
		return err
	}
	mp := findFunc(mf, "mux", "_pipe")
	if mp == nil {
		return fail("mux._pipe not found")
	}
	mps := src(fsetM, mp.Body)
	boolv("muxInstallsWithCAS", strings.Contains(mps, "if !m.muxwires[i].wire.CompareAndSwap(m.init, w) {") && !strings.Contains(mps, "wire.Store(w)"))
	mc := findFunc(mf, "mux", "Close")
	if mc == nil {
		return fail("mux.Close not found")
	}
	boolv("muxCloseSwapsDead", strings.Contains(src(fsetM, mc.Body), "wire.Swap(m.dead)"))
	ib := findFunc(mf, "", "isBroken")
	if ib == nil {
		return fail("isBroken not found")
	}
	str("isBroken", src(fsetM, ib.Body))
	fsetR, rf, err := parseFile("retry.go")
	if err != nil {
		return err
	}
	ws := findFunc(rf, "retryer", "WaitOrSkipRetry")
	if ws == nil {
		return fail("retryer.WaitOrSkipRetry not found")
	}
	h := sha256.Sum256([]byte(src(fsetR, ws.Body)))
	fmt.Fprintf(&b, "def waitOrSkipSha : Nat := 0x%x\n", h[:8])
	b.WriteString("end Rv.Gen.PipeShape\n")
	return writeLean("PipeShape.lean", b.String())
}

// topStmts prints the top-level statements of a block, one normalised string each.
func topStmts(fset *token.FileSet, b *ast.BlockStmt) []string {
	out := make([]string, 0, len(b.List))
	for _, st := range b.List {
		out = append(out, src(fset, st))
	}
	return out
}

// orderOf returns the given markers sorted by their first position in body; a marker that does not
// occur (or occurs before its predecessor's text is found twice) makes the extraction fail closed.
func orderOf(fn, body string, markers map[string]string) ([]string, error) {
	type mp struct {
		name string
		pos  int
	}
	var ms []mp
	for name, text := range markers {
		p := strings.Index(body, text)
		if p < 0 {
			return nil, fail("%s: statement %q (%s) not found", fn, text, name)
		}
		ms = append(ms, mp{name, p})
	}
	for i := 0; i < len(ms); i++ {
		for j := i + 1; j < len(ms); j++ {
			if ms[j].pos < ms[i].pos {
				ms[i], ms[j] = ms[j], ms[i]
			}
		}
	}
	out := make([]string, len(ms))
	for i, m := range ms {
		out[i] = m.name
	}
	return out, nil
}

func genPipeLife(fset *token.FileSet, pf *ast.File, strs func(string, []string), str func(string, string), boolv func(string, bool)) error {
	// every value ever written to / compared with p.state, per function (CAS old/new, Store, the dead pipes)
	var stateOps []string
	ast.Inspect(pf, func(n ast.Node) bool {
		fd, ok := n.(*ast.FuncDecl)
		if !ok || fd.Body == nil {
			return true
		}
		ast.Inspect(fd.Body, func(m ast.Node) bool {
			switch x := m.(type) {
			case *ast.CallExpr:
				t := src(fset, x)
				if strings.HasPrefix(t, "atomic.CompareAndSwapInt32(&p.state,") || strings.HasPrefix(t, "atomic.StoreInt32(&p.state,") {
					stateOps = append(stateOps, fd.Name.Name+": "+t)
				}
			case *ast.CompositeLit:
				t := src(fset, x)
				if strings.HasPrefix(t, "pipe{state:") {
					stateOps = append(stateOps, fd.Name.Name+": "+t)
				}
			}
			return true
		})
		return false
	})
	strs("stateWrites", stateOps)
	// background(), _exit: whole bodies (three lines each)
	for _, fn := range []string{"background", "_exit"} {
		fd := findFunc(pf, "pipe", fn)
		if fd == nil {
			return fail("pipe.%s not found", fn)
		}
		strs("body_"+fn, topStmts(fset, fd.Body))
	}
	bgf := findFunc(pf, "pipe", "background")
	if len(bgf.Body.List) != 1 {
		return fail("pipe.background: expected one guarded block")
	}
	if ifs, ok := bgf.Body.List[0].(*ast.IfStmt); ok {
		strs("background_inner", topStmts(fset, ifs.Body))
	} else {
		return fail("pipe.background: expected `if p.queue != nil`")
	}
	// _background: the order of the exit path
	bg := findFunc(pf, "pipe", "_background")
	bgs := src(fset, bg.Body)
	order, err := orderOf("_background", bgs, map[string]string{
		"writerExit":  "go func() { p._exit(p._backgroundWrite()) close(p.close) }()",
		"readerExit":  "rerr = p._backgroundRead() p._exit(rerr)",
		"wakeupPing":  "select { case <-p.close: default: p.incrWaits() go func() { ch, _ := p.queue.PutOne(context.Background(), cmds.PingCmd)",
		"loadError":   "err := p.Error()",
		"drainLoop":   "for p.loadWaits() != 0 {",
		"awaitWriter": "} <-p.close atomic.StoreInt32(&p.state, 4)",
		"storeClosed": "atomic.StoreInt32(&p.state, 4)",
	})
	if err != nil {
		return err
	}
	strs("backgroundOrder", order)
	boolv("backgroundEndsWithStore", strings.HasSuffix(bgs, "<-p.close atomic.StoreInt32(&p.state, 4) }"))
	boolv("wakeupPingDecrements", strings.Contains(bgs, "ch, _ := p.queue.PutOne(context.Background(), cmds.PingCmd) // avoid _backgroundWrite hanging at p.queue.WaitForWrite() <-ch p.decrWaits() }()") ||
		strings.Contains(bgs, "ch, _ := p.queue.PutOne(context.Background(), cmds.PingCmd) <-ch p.decrWaits() }()"))
	// the drain loop body
	var loop *ast.ForStmt
	ast.Inspect(bg.Body, func(n ast.Node) bool {
		if f, ok := n.(*ast.ForStmt); ok && f.Cond != nil && src(fset, f.Cond) == "p.loadWaits() != 0" {
			loop = f
		}
		return true
	})
	if loop == nil {
		return fail("_background: drain loop `for p.loadWaits() != 0` not found")
	}
	strs("drainLoopBody", topStmts(fset, loop.Body))
	// _backgroundRead: the deferred handler completes the in-flight batch
	rd := findFunc(pf, "pipe", "_backgroundRead")
	var deferSrc string
	ast.Inspect(rd.Body, func(n ast.Node) bool {
		if d, ok := n.(*ast.DeferStmt); ok && deferSrc == "" {
			deferSrc = src(fset, d)
		}
		return true
	})
	boolv("readDeferCompletesInflight", strings.Contains(deferSrc, "if err != nil && ff < len(multi) { for ; ff < len(resps); ff++ { resps[ff] = resp } ch <- resp p.queue.FinishResult() }"))
	// Close: statement list (the head order latch / incrWaits / CAS / CAS matters for the model)
	cl := findFunc(pf, "pipe", "Close")
	if cl == nil {
		return fail("pipe.Close not found")
	}
	cls := topStmts(fset, cl.Body)
	strs("closeStmts", cls)
	ex := findFunc(pf, "pipe", "expired")
	if ex == nil {
		return fail("pipe.expired not found")
	}
	strs("expiredStmts", topStmts(fset, ex.Body))
	// Do / DoMulti: admission
	for _, fn := range []string{"Do", "DoMulti"} {
		fd := findFunc(pf, "pipe", fn)
		body := src(fset, fd.Body)
		// `waits := p.incrWaits()` is directly followed by the state load; the only statement tolerated in between
		// is the verif scheduling point `verifYieldAfterIncrWaits(waits)` (an empty function without the build tag)
		after := "state := atomic.LoadInt32(&p.state) if state == 1 { goto queue } if state == 0 { if waits != 1 { goto queue }"
		boolv("stateLoadAfterIncr_"+fn, strings.Contains(body, "waits := p.incrWaits() "+after) ||
			strings.Contains(body, "waits := p.incrWaits() verifYieldAfterIncrWaits(waits) "+after))
		boolv("yieldPoint_"+fn, strings.Contains(body, "waits := p.incrWaits() verifYieldAfterIncrWaits(waits) "+after))
		// the tail after the sync/reject branch
		tail := ""
		ast.Inspect(fd.Body, func(n ast.Node) bool {
			if i, ok := n.(*ast.IfStmt); ok && i.Init != nil && strings.HasPrefix(src(fset, i.Init), "left := p.decrWaitsAndIncrRecvs()") {
				tail = src(fset, i.Init) + "; " + src(fset, i.Cond) + " " + src(fset, i.Body)
			}
			return true
		})
		if tail == "" {
			return fail("pipe.%s: tail `if left := p.decrWaitsAndIncrRecvs(); …` not found", fn)
		}
		str("tail_"+fn, tail)
		// order: ctx check, incrWaits, state load, reject branch, queue label, put, select, abort goroutine
		put := "p.queue.PutOne(ctx, cmd)"
		rej := "} else { resp = NewErrorResult(p.Error()) }"
		abort := "abort: go func(ch chan RedisResult) { <-ch p.decrWaitsAndIncrRecvs() }(ch) return NewErrorResult(ctx.Err())"
		if fn == "DoMulti" {
			put = "p.queue.PutMulti(ctx, multi, resp.s)"
			rej = "} else { err := NewErrorResult(p.Error())"
			abort = "abort: go func(resp *redisresults, ch chan RedisResult) { <-ch resultsp.Put(resp) p.decrWaitsAndIncrRecvs() }(resp, ch)"
		}
		ord, err := orderOf("pipe."+fn, body, map[string]string{
			"ctxCheck":  "if err := ctx.Err(); err != nil {",
			"incrWaits": "waits := p.incrWaits()",
			"loadState": "state := atomic.LoadInt32(&p.state)",
			"reject":    rej,
			"tail":      "if left := p.decrWaitsAndIncrRecvs();",
			"put":       "queue: ch, err := " + put + " if err != nil { p.decrWaits()",
			"select":    "case <-ctxCh: goto abort",
			"abort":     abort,
		})
		if err != nil {
			return err
		}
		strs("admissionOrder_"+fn, ord)
	}
	// the scheduling point is an empty function in normal builds
	if _, yf, err := parseFile("verif_yield_off.go"); err == nil {
		fd := findFunc(yf, "", "verifYieldAfterIncrWaits")
		boolv("yieldOffIsEmpty", fd != nil && fd.Body != nil && len(fd.Body.List) == 0)
	} else {
		boolv("yieldOffIsEmpty", !strings.Contains(src(fset, pf), "verifYieldAfterIncrWaits("))
	}
	return nil
}
