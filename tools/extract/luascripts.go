package main

import (
	"crypto/sha1"
	"encoding/hex"
	"fmt"
	"go/ast"
	"go/token"
	"os"
	"path/filepath"
	"sort"
	"strconv"
	"strings"
)

func init() { register("luascripts", genLuaScripts) }

// Packages whose Lua script texts are regenerated. For the first two every
// non-test file of the directory is read; for the others the one named file.
var luaScriptSources = []struct {
	pkg   string // Lean name prefix
	dir   string
	files []string // nil = all non-test .go files of dir
}{
	{"rueidisprob", "rueidisprob", nil},
	{"rueidislimiter", "rueidislimiter", nil},
	{"rueidislock", "rueidislock", []string{"lock.go"}},
	{"rueidisaside", "rueidisaside", []string{"aside.go"}},
	{"om", "om", []string{"hash.go", "json.go"}},
}

type luaScript struct {
	pkg, name, text, ctor, file string
}

// isLuaCtor reports whether call is rueidis.NewLuaScript*(…) and returns the constructor name.
func isLuaCtor(call *ast.CallExpr) (string, bool) {
	sel, ok := call.Fun.(*ast.SelectorExpr)
	if !ok {
		return "", false
	}
	x, ok := sel.X.(*ast.Ident)
	if !ok || x.Name != "rueidis" || !strings.HasPrefix(sel.Sel.Name, "NewLuaScript") {
		return "", false
	}
	return sel.Sel.Name, true
}

// strExpr evaluates a fmt-free constant string expression: literals (raw or
// interpreted), parenthesised expressions, `+` concatenations and references to
// string constants already known in the same package. Anything else: not ok.
func strExpr(e ast.Expr, known map[string]string) (string, bool) {
	switch v := e.(type) {
	case *ast.BasicLit:
		if v.Kind != token.STRING {
			return "", false
		}
		s, err := strconv.Unquote(v.Value)
		if err != nil {
			return "", false
		}
		return s, true
	case *ast.ParenExpr:
		return strExpr(v.X, known)
	case *ast.BinaryExpr:
		if v.Op != token.ADD {
			return "", false
		}
		a, ok1 := strExpr(v.X, known)
		b, ok2 := strExpr(v.Y, known)
		return a + b, ok1 && ok2
	case *ast.Ident:
		s, ok := known[v.Name]
		return s, ok
	}
	return "", false
}

func genLuaScripts() error {
	var all []luaScript
	for _, src := range luaScriptSources {
		files := src.files
		if files == nil {
			ents, err := os.ReadDir(filepath.Join(*repo, src.dir))
			if err != nil {
				return err
			}
			for _, e := range ents {
				n := e.Name()
				if strings.HasSuffix(n, ".go") && !strings.HasSuffix(n, "_test.go") && !strings.HasPrefix(n, "verif_export_") {
					files = append(files, n)
				}
			}
			sort.Strings(files)
		}
		known := map[string]string{}  // package-level string constants/vars with a resolvable value
		isScript := map[string]bool{} // names that hold a script
		ctor := map[string]string{}
		where := map[string]string{}
		var parsed []*ast.File
		var fsets []*token.FileSet
		// pass 1: package-level const/var declarations (two rounds so that forward references resolve)
		for round := 0; round < 2; round++ {
			for _, fn := range files {
				rel := filepath.Join(src.dir, fn)
				fset, f, err := parseFile(rel)
				if err != nil {
					return err
				}
				if round == 0 {
					parsed = append(parsed, f)
					fsets = append(fsets, fset)
				}
				for _, d := range f.Decls {
					gd, ok := d.(*ast.GenDecl)
					if !ok || (gd.Tok != token.CONST && gd.Tok != token.VAR) {
						continue
					}
					for _, sp := range gd.Specs {
						vs := sp.(*ast.ValueSpec)
						if len(vs.Values) == 0 {
							continue
						}
						if len(vs.Values) != len(vs.Names) {
							// multi-value initialiser: cannot hold a script literal we understand
							for _, v := range vs.Values {
								if containsLuaCtor(v) {
									return fail("%s: multi-value declaration with a Lua constructor at %s", rel, fset.Position(vs.Pos()))
								}
							}
							continue
						}
						for i, n := range vs.Names {
							v := vs.Values[i]
							if call, ok := v.(*ast.CallExpr); ok {
								if cn, ok := isLuaCtor(call); ok {
									if len(call.Args) < 1 {
										return fail("%s: %s without arguments at %s", rel, cn, fset.Position(call.Pos()))
									}
									s, ok := strExpr(call.Args[0], known)
									if !ok {
										if round == 1 {
											return fail("%s: script argument of %s for %q is not a constant string expression (%T) at %s",
												rel, cn, n.Name, call.Args[0], fset.Position(call.Pos()))
										}
										continue
									}
									if id, isId := call.Args[0].(*ast.Ident); isId {
										isScript[id.Name] = true // the constant holds the text; the var is just the handle
										ctor[id.Name] = cn
										continue
									}
									known[n.Name], isScript[n.Name], ctor[n.Name], where[n.Name] = s, true, cn, rel
									continue
								}
							}
							if s, ok := strExpr(v, known); ok {
								known[n.Name] = s
								where[n.Name] = rel
								if strings.HasSuffix(strings.ToLower(n.Name), "script") {
									isScript[n.Name] = true
								}
							} else if round == 1 && strings.HasSuffix(strings.ToLower(n.Name), "script") && gd.Tok == token.CONST {
								return fail("%s: constant %q looks like a script but is not a constant string expression (%T) at %s",
									rel, n.Name, v, fset.Position(v.Pos()))
							}
						}
					}
				}
			}
		}
		// pass 2: every use site (rueidis.NewLuaScript*(x), ….Script(x)) must pass a text we extracted
		for fi, f := range parsed {
			fset := fsets[fi]
			rel := filepath.Join(src.dir, files[fi])
			var ferr error
			for _, d := range f.Decls {
				fd, _ := d.(*ast.FuncDecl)
				ast.Inspect(d, func(nd ast.Node) bool {
					call, ok := nd.(*ast.CallExpr)
					if !ok || ferr != nil {
						return ferr == nil
					}
					cn, isCtor := isLuaCtor(call)
					if !isCtor {
						sel, ok := call.Fun.(*ast.SelectorExpr)
						if !ok || sel.Sel.Name != "Script" || len(call.Args) != 1 {
							return true
						}
						cn = "Script"
					}
					if len(call.Args) < 1 {
						ferr = fail("%s: %s without arguments at %s", rel, cn, fset.Position(call.Pos()))
						return false
					}
					arg := call.Args[0]
					if _, isLit := strExpr(arg, map[string]string{}); isLit && fd == nil {
						return true // package-level literal, recorded in pass 1
					}
					names, err := scriptIdents(arg, fd, known)
					if err != nil {
						ferr = fail("%s: script passed to %s at %s: %v", rel, cn, fset.Position(call.Pos()), err)
						return false
					}
					for _, n := range names {
						isScript[n] = true
						if isCtor && ctor[n] == "" {
							ctor[n] = cn
						} else if !isCtor && ctor[n] == "" {
							ctor[n] = "Eval"
						}
					}
					return true
				})
			}
			if ferr != nil {
				return ferr
			}
		}
		names := make([]string, 0, len(isScript))
		for n := range isScript {
			if _, ok := known[n]; !ok {
				return fail("%s: script holder %q has no extracted text", src.dir, n)
			}
			names = append(names, n)
		}
		sort.Strings(names)
		if len(names) == 0 {
			return fail("%s: no Lua script found (package layout changed?)", src.dir)
		}
		for _, n := range names {
			all = append(all, luaScript{pkg: src.pkg, name: n, text: known[n], ctor: ctor[n], file: where[n]})
		}
	}
	var b strings.Builder
	b.WriteString("namespace Rv.Gen\n")
	for _, s := range all {
		sum := sha1.Sum([]byte(s.text))
		fmt.Fprintf(&b, "/-- `%s` of %s (used via %s); sha1 %s -/\ndef %s_%s : String :=\n  %s\n\n",
			s.name, s.file, s.ctor, hex.EncodeToString(sum[:]), s.pkg, s.name, leanStr(s.text))
	}
	b.WriteString("/-- every extracted script: (package, holder, constructor / use, sha1 hex, text) -/\n")
	b.WriteString("def luaScripts : List (String × String × String × String × String) := [\n")
	for i, s := range all {
		sum := sha1.Sum([]byte(s.text))
		if i > 0 {
			b.WriteString(",\n")
		}
		fmt.Fprintf(&b, "  (%s, %s, %s, %s, %s_%s)", leanStr(s.pkg), leanStr(s.name), leanStr(s.ctor), leanStr(hex.EncodeToString(sum[:])), s.pkg, s.name)
	}
	b.WriteString("]\nend Rv.Gen\n")
	return writeLean("LuaScripts.lean", b.String())
}

func containsLuaCtor(e ast.Expr) bool {
	found := false
	ast.Inspect(e, func(n ast.Node) bool {
		if c, ok := n.(*ast.CallExpr); ok {
			if _, ok := isLuaCtor(c); ok {
				found = true
			}
		}
		return !found
	})
	return found
}

// scriptIdents resolves the argument of a script use site to the package-level
// holders it may denote: an identifier of a known holder, or a local variable of
// the enclosing function every assignment of which is such an identifier.
func scriptIdents(arg ast.Expr, fd *ast.FuncDecl, known map[string]string) ([]string, error) {
	switch v := arg.(type) {
	case *ast.ParenExpr:
		return scriptIdents(v.X, fd, known)
	case *ast.SelectorExpr:
		// s.script style field access: not a literal we can follow
		return nil, fmt.Errorf("selector expression %s is not followed", v.Sel.Name)
	case *ast.Ident:
		if _, ok := known[v.Name]; ok && !isLocal(v, fd) {
			return []string{v.Name}, nil
		}
		if fd == nil || fd.Body == nil {
			return nil, fmt.Errorf("identifier %q is not a known script constant", v.Name)
		}
		var out []string
		var err error
		assigned := false
		ast.Inspect(fd.Body, func(n ast.Node) bool {
			if err != nil {
				return false
			}
			switch s := n.(type) {
			case *ast.AssignStmt:
				for i, l := range s.Lhs {
					if id, ok := l.(*ast.Ident); ok && id.Name == v.Name {
						if len(s.Lhs) != len(s.Rhs) {
							err = fmt.Errorf("local %q assigned from a multi-value expression", v.Name)
							return false
						}
						rid, ok := s.Rhs[i].(*ast.Ident)
						if !ok {
							err = fmt.Errorf("local %q assigned from %T, want a script constant", v.Name, s.Rhs[i])
							return false
						}
						if _, ok := known[rid.Name]; !ok {
							err = fmt.Errorf("local %q assigned from unknown identifier %q", v.Name, rid.Name)
							return false
						}
						out = append(out, rid.Name)
						assigned = true
					}
				}
			case *ast.ValueSpec:
				for i, id := range s.Names {
					if id.Name == v.Name && i < len(s.Values) {
						rid, ok := s.Values[i].(*ast.Ident)
						if !ok {
							err = fmt.Errorf("local %q initialised from %T, want a script constant", v.Name, s.Values[i])
							return false
						}
						if _, ok := known[rid.Name]; !ok {
							err = fmt.Errorf("local %q initialised from unknown identifier %q", v.Name, rid.Name)
							return false
						}
						out = append(out, rid.Name)
						assigned = true
					}
				}
			}
			return true
		})
		if err != nil {
			return nil, err
		}
		if !assigned {
			return nil, fmt.Errorf("identifier %q is neither a script constant nor an assigned local", v.Name)
		}
		return out, nil
	}
	return nil, fmt.Errorf("expression %T is not a script constant", arg)
}

// isLocal: the identifier resolves (go/parser file-scope resolution) to a
// declaration inside the enclosing function, i.e. it shadows a package-level name.
func isLocal(id *ast.Ident, fd *ast.FuncDecl) bool {
	if id.Obj == nil || fd == nil {
		return false // unresolved in this file = declared in another file of the package
	}
	p := id.Obj.Pos()
	return p >= fd.Pos() && p <= fd.End()
}
