package main

import (
	"bytes"
	"crypto/sha256"
	"fmt"
	"go/ast"
	"go/printer"
	"go/token"
	"math/big"
	"strconv"
	"strings"
)

func init() { register("initplan", genInitPlan) }

// genInitPlan reads pipe.go `_newPipe`. The function is free-form Go, so only its
// table-like part is extracted: the statements that BUILD the setup command lists
// (`helloCmd`, `init`, the `addClientSetInfoCmds` flag, `helloIndex`) become an ordered
// list of guarded steps for the RESP3 attempt (top level of the function) and for the
// RESP2 fallback (else-block of `if !r2 && !r2ps`). Guards are whole `if` conditions
// from a fixed whitelist; command words are literals or whitelisted expressions.
// Everything else (credential resolution, the two reply-evaluation loops, the protocol
// decision) is hand-modelled in Rv/Model/InitPlan.lean and pinned here by the SHA-256 of
// its pretty-printed text with `«plan»` placeholders where plan statements were cut out.
// Any statement that assigns to a plan variable in a shape not understood is an error.
// Also extracted: LibName/LibVer, the field assignments of sentinel.go newSentinelOpt and
// the ClientOption fields NewClient assigns to.

var planVars = map[string]bool{"helloCmd": true, "init": true, "addClientSetInfoCmds": true, "helloIndex": true}

var initAtoms = map[string]string{
	`password != "" && username == ""`:                      "passOnly",
	`username != ""`:                                        "hasUser",
	`password != ""`:                                        "passNonEmpty",
	`username == ""`:                                        "userEmpty",
	`option.ClientName != ""`:                               "hasName",
	`option.EnableReplicaAZInfo && option.AZFromInfo`:       "azInfo",
	`!option.DisableCache`:                                  "cache",
	`option.ClientTrackingOptions == nil`:                   "trackNil",
	`option.SelectDB != 0`:                                  "selDB",
	`option.ReplicaOnly && option.Sentinel.MasterSet == ""`: "readonly",
	`option.ClientNoTouch`:                                  "noTouch",
	`option.ClientNoEvict`:                                  "noEvict",
	`option.Standalone.EnableRedirect`:                      "redirect",
	`len(option.ClientSetInfo) == 2`:                        "setInfo2",
	`option.ClientSetInfo == nil`:                           "setInfoNil",
}

var initToks = map[string]string{
	"password": ".password", "username": ".username", "option.ClientName": ".clientName",
	"strconv.Itoa(option.SelectDB)": ".selectDB", "LibName": ".libName", "LibVer": ".libVer",
	"option.ClientSetInfo[0]": ".setInfo0", "option.ClientSetInfo[1]": ".setInfo1",
}

type ipGen struct {
	fset *token.FileSet
	kws  *[]string // literal command words in first-use order
}

// kw names the enum constructor of a literal command word (string comparison is slow in the kernel).
func (g *ipGen) kw(s string) string {
	for _, k := range *g.kws {
		if k == s {
			return kwName(s)
		}
	}
	*g.kws = append(*g.kws, s)
	return kwName(s)
}

func kwName(s string) string {
	var b strings.Builder
	b.WriteString("k_")
	for _, r := range s {
		if r >= 'a' && r <= 'z' || r >= 'A' && r <= 'Z' || r >= '0' && r <= '9' {
			b.WriteRune(r)
		} else {
			b.WriteString("_")
		}
	}
	return b.String()
}

func (g *ipGen) text(n ast.Node) string {
	var b bytes.Buffer
	printer.Fprint(&b, g.fset, n)
	return b.String()
}

func assignsPlanVar(n ast.Node) (hit bool) {
	ast.Inspect(n, func(x ast.Node) bool {
		if a, ok := x.(*ast.AssignStmt); ok {
			for _, l := range a.Lhs {
				if id, ok := l.(*ast.Ident); ok && planVars[id.Name] {
					hit = true
				}
			}
		}
		return !hit
	})
	return hit
}

func (g *ipGen) toks(es []ast.Expr, spread bool) (string, error) {
	var out []string
	for i, e := range es {
		if bl, ok := e.(*ast.BasicLit); ok && bl.Kind == token.STRING {
			s, err := strconv.Unquote(bl.Value)
			if err != nil {
				return "", err
			}
			out = append(out, ".lit ."+g.kw(s))
			continue
		}
		t := g.text(e)
		if spread && i == len(es)-1 {
			if t != "option.ClientTrackingOptions" {
				return "", fail("initplan: unknown spread argument %s", t)
			}
			out = append(out, ".trackingOpts")
			continue
		}
		tok, ok := initToks[t]
		if !ok {
			return "", fail("initplan: unknown command word expression %s", t)
		}
		out = append(out, tok)
	}
	return "[" + strings.Join(out, ", ") + "]", nil
}

func isStrSlice(e ast.Expr) (*ast.CompositeLit, bool) {
	cl, ok := e.(*ast.CompositeLit)
	if !ok {
		return nil, false
	}
	at, ok := cl.Type.(*ast.ArrayType)
	if !ok || at.Len != nil {
		return nil, false
	}
	id, ok := at.Elt.(*ast.Ident)
	return cl, ok && id.Name == "string"
}

// planStmt translates one plan-building statement into steps "⟨guard, act⟩".
func (g *ipGen) planStmt(s ast.Stmt, guard []string, out *[]string) error {
	emit := func(act string) {
		*out = append(*out, fmt.Sprintf("⟨[%s], %s⟩", strings.Join(guard, ", "), act))
	}
	switch st := s.(type) {
	case *ast.AssignStmt:
		if len(st.Lhs) != 1 || len(st.Rhs) != 1 {
			return fail("initplan: multi-assignment %s", g.text(st))
		}
		lhs, ok := st.Lhs[0].(*ast.Ident)
		if !ok || !planVars[lhs.Name] {
			return fail("initplan: not a plan assignment: %s", g.text(st))
		}
		txt := g.text(st)
		switch {
		case txt == "init := make([][]string, 0, 6)" || txt == "init = init[:0]":
			emit(".reset")
		case txt == "helloIndex := len(init)":
			emit(".helloIndex")
		case txt == "addClientSetInfoCmds := true":
			emit(".setInfoFlag true")
		case txt == "addClientSetInfoCmds = false":
			emit(".setInfoFlag false")
		case lhs.Name == "helloCmd" && st.Tok == token.DEFINE:
			cl, ok := isStrSlice(st.Rhs[0])
			if !ok {
				return fail("initplan: helloCmd initialiser %s", txt)
			}
			t, err := g.toks(cl.Elts, false)
			if err != nil {
				return err
			}
			emit(".helloNew " + t)
		case st.Tok == token.ASSIGN:
			call, ok := st.Rhs[0].(*ast.CallExpr)
			if !ok || g.text(call.Fun) != "append" || len(call.Args) < 2 || g.text(call.Args[0]) != lhs.Name || call.Ellipsis.IsValid() {
				return fail("initplan: not `x = append(x, ...)`: %s", txt)
			}
			if lhs.Name == "helloCmd" {
				t, err := g.toks(call.Args[1:], false)
				if err != nil {
					return err
				}
				emit(".helloAdd " + t)
				return nil
			}
			if lhs.Name != "init" {
				return fail("initplan: append to %s", lhs.Name)
			}
			for _, a := range call.Args[1:] {
				if id, ok := a.(*ast.Ident); ok && id.Name == "helloCmd" {
					emit(".pushHello")
				} else if cl, ok := isStrSlice(a); ok {
					t, err := g.toks(cl.Elts, false)
					if err != nil {
						return err
					}
					emit(".push " + t)
				} else if c2, ok := a.(*ast.CallExpr); ok && g.text(c2.Fun) == "append" && len(c2.Args) == 2 && c2.Ellipsis.IsValid() {
					cl, ok := isStrSlice(c2.Args[0])
					if !ok {
						return fail("initplan: spread append base %s", g.text(c2))
					}
					t, err := g.toks(append(append([]ast.Expr{}, cl.Elts...), c2.Args[1]), true)
					if err != nil {
						return err
					}
					emit(".push " + t)
				} else {
					return fail("initplan: unknown init element %s", g.text(a))
				}
			}
		default:
			return fail("initplan: unknown plan assignment %s", txt)
		}
		return nil
	case *ast.IfStmt:
		if st.Init != nil {
			return fail("initplan: if with init statement builds the plan: %s", g.text(st.Cond))
		}
		atom, ok := initAtoms[g.text(st.Cond)]
		if !ok {
			return fail("initplan: unknown guard condition `%s`", g.text(st.Cond))
		}
		pos := append(append([]string{}, guard...), "(."+atom+", true)")
		neg := append(append([]string{}, guard...), "(."+atom+", false)")
		for _, b := range st.Body.List {
			if err := g.planStmt(b, pos, out); err != nil {
				return err
			}
		}
		switch e := st.Else.(type) {
		case nil:
		case *ast.BlockStmt:
			for _, b := range e.List {
				if err := g.planStmt(b, neg, out); err != nil {
					return err
				}
			}
		case *ast.IfStmt:
			return g.planStmt(e, neg, out)
		default:
			return fail("initplan: else of %T", e)
		}
		return nil
	}
	return fail("initplan: statement %T inside a plan-building if", s)
}

// walk splits a statement list into plan steps and residual text.
func (g *ipGen) walk(list []ast.Stmt, steps *[]string, resid *bytes.Buffer, r2steps *[]string) error {
	for _, s := range list {
		if !assignsPlanVar(s) {
			resid.WriteString(g.text(s) + "\n")
			continue
		}
		if ifs, ok := s.(*ast.IfStmt); ok && g.text(ifs.Cond) == "!r2 && !r2ps" && ifs.Else != nil {
			if r2steps == nil || assignsPlanVar(ifs.Body) {
				return fail("initplan: unexpected placement of the protocol branch")
			}
			els, ok := ifs.Else.(*ast.BlockStmt)
			if !ok {
				return fail("initplan: protocol branch else is %T", ifs.Else)
			}
			resid.WriteString("if !r2 && !r2ps " + g.text(ifs.Body) + " else {\n")
			if err := g.walk(els.List, r2steps, resid, nil); err != nil {
				return err
			}
			resid.WriteString("}\n")
			continue
		}
		if err := g.planStmt(s, nil, steps); err != nil {
			return err
		}
		resid.WriteString("«plan»\n")
	}
	return nil
}

func genInitPlan() error {
	fset, f, err := parseFile("pipe.go")
	if err != nil {
		return err
	}
	g := &ipGen{fset, &[]string{}}
	var fn *ast.FuncDecl
	consts := map[string]string{}
	for _, d := range f.Decls {
		if fd, ok := d.(*ast.FuncDecl); ok && fd.Name.Name == "_newPipe" && fd.Recv == nil {
			fn = fd
		}
		if gd, ok := d.(*ast.GenDecl); ok && gd.Tok == token.CONST {
			for _, sp := range gd.Specs {
				vs := sp.(*ast.ValueSpec)
				for i, n := range vs.Names {
					if (n.Name == "LibName" || n.Name == "LibVer") && i < len(vs.Values) {
						if bl, ok := vs.Values[i].(*ast.BasicLit); ok && bl.Kind == token.STRING {
							consts[n.Name], _ = strconv.Unquote(bl.Value)
						}
					}
				}
			}
		}
	}
	if fn == nil || consts["LibName"] == "" || consts["LibVer"] == "" {
		return fail("initplan: _newPipe / LibName / LibVer not found in pipe.go")
	}
	var s3, s2 []string
	var resid bytes.Buffer
	resid.WriteString(g.text(fn.Type) + "\n")
	if err := g.walk(fn.Body.List, &s3, &resid, &s2); err != nil {
		return err
	}
	if len(s3) == 0 || len(s2) == 0 {
		return fail("initplan: empty plan (resp3 %d steps, resp2 %d steps)", len(s3), len(s2))
	}
	sum := sha256.Sum256(resid.Bytes())

	// sentinel.go newSentinelOpt: `o := *opt`, assignments `o.F = <expr>`, `return &o`
	sfset, sf, err := parseFile("sentinel.go")
	if err != nil {
		return err
	}
	sg := &ipGen{sfset, nil}
	var sent []string
	found := false
	for _, d := range sf.Decls {
		fd, ok := d.(*ast.FuncDecl)
		if !ok || fd.Name.Name != "newSentinelOpt" {
			continue
		}
		found = true
		for i, st := range fd.Body.List {
			t := sg.text(st)
			switch {
			case i == 0 && t == "o := *opt", i == len(fd.Body.List)-1 && t == "return &o":
			default:
				as, ok := st.(*ast.AssignStmt)
				if !ok || as.Tok != token.ASSIGN || len(as.Lhs) != 1 || !strings.HasPrefix(sg.text(as.Lhs[0]), "o.") {
					return fail("initplan: newSentinelOpt statement not understood: %s", t)
				}
				sent = append(sent, fmt.Sprintf("(%s, %s)", leanStr(strings.TrimPrefix(sg.text(as.Lhs[0]), "o.")), leanStr(sg.text(as.Rhs[0]))))
			}
		}
	}
	if !found {
		return fail("initplan: newSentinelOpt not found")
	}

	// rueidis.go NewClient: which option fields does it assign to?
	rfset, rf, err := parseFile("rueidis.go")
	if err != nil {
		return err
	}
	rg := &ipGen{rfset, nil}
	var assigned []string
	seen := map[string]bool{}
	found = false
	for _, d := range rf.Decls {
		fd, ok := d.(*ast.FuncDecl)
		if !ok || fd.Name.Name != "NewClient" {
			continue
		}
		found = true
		ast.Inspect(fd.Body, func(n ast.Node) bool {
			if as, ok := n.(*ast.AssignStmt); ok {
				for _, l := range as.Lhs {
					if t := rg.text(l); strings.HasPrefix(t, "option.") && !seen[t] {
						seen[t] = true
						assigned = append(assigned, leanStr(strings.TrimPrefix(t, "option.")))
					}
				}
			}
			if u, ok := n.(*ast.UnaryExpr); ok && u.Op == token.AND && rg.text(u.X) != "option" && strings.HasPrefix(rg.text(u.X), "option") {
				assigned = append(assigned, leanStr("&"+rg.text(u.X))) // address of a field escapes: unknown writes
			}
			return true
		})
	}
	if !found {
		return fail("initplan: NewClient not found")
	}

	var b strings.Builder
	names := map[string]string{}
	var kcons, kstr []string
	for _, k := range *g.kws {
		if prev, dup := names[kwName(k)]; dup {
			return fail("initplan: literals %q and %q map to the same constructor", prev, k)
		}
		names[kwName(k)] = k
		kcons = append(kcons, kwName(k))
		kstr = append(kstr, "  | ."+kwName(k)+" => "+leanStr(k))
	}
	b.WriteString("namespace Rv.Gen.InitPlan\n/-- literal command words of _newPipe -/\ninductive Kw | " + strings.Join(kcons, " | ") +
		"\n  deriving DecidableEq, Repr\ndef Kw.str : Kw → String\n" + strings.Join(kstr, "\n") + "\n")
	b.WriteString(`/-- whole ` + "`if`" + ` conditions of _newPipe that guard plan-building statements -/
inductive Atom | passOnly | hasUser | passNonEmpty | userEmpty | hasName | azInfo | cache | trackNil | selDB | readonly | noTouch | noEvict | redirect | setInfo2 | setInfoNil
  deriving DecidableEq, Repr
/-- command words: literals or whitelisted expressions -/
inductive Tok | lit (k : Kw) | password | username | clientName | selectDB | libName | libVer | setInfo0 | setInfo1 | trackingOpts
  deriving DecidableEq, Repr
inductive Act
  | reset | helloNew (ws : List Tok) | helloAdd (ws : List Tok) | pushHello | push (ws : List Tok) | helloIndex | setInfoFlag (b : Bool)
  deriving DecidableEq, Repr
structure Step where
  guard : List (Atom × Bool)
  act : Act
  deriving DecidableEq, Repr
`)
	wr := func(name string, steps []string) {
		b.WriteString("def " + name + " : List Step := [\n  " + strings.Join(steps, ",\n  ") + "]\n")
	}
	b.WriteString("/-- plan-building statements at the top level of _newPipe (RESP3 attempt), in source order -/\n")
	wr("resp3", s3)
	b.WriteString("/-- plan-building statements in the else-block of `if !r2 && !r2ps` (RESP2 sequence), in source order -/\n")
	wr("resp2", s2)
	b.WriteString("/-- SHA-256 of the rest of _newPipe (hand-modelled part), plan statements replaced by placeholders -/\n")
	b.WriteString("def residualSha : Nat := " + new(big.Int).SetBytes(sum[:]).String() + "\n")
	b.WriteString("def libName : String := " + leanStr(consts["LibName"]) + "\ndef libVer : String := " + leanStr(consts["LibVer"]) + "\n")
	b.WriteString("/-- sentinel.go newSentinelOpt: `o.<field> = <expr>` in source order -/\n")
	b.WriteString("def sentinelAssign : List (String × String) := [" + strings.Join(sent, ", ") + "]\n")
	b.WriteString("/-- rueidis.go NewClient: option fields it assigns to -/\n")
	b.WriteString("def newClientAssigns : List String := [" + strings.Join(assigned, ", ") + "]\n")
	b.WriteString("end Rv.Gen.InitPlan\n")
	return writeLean("InitPlan.lean", b.String())
}
