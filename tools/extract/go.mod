module rvextract

go 1.23
