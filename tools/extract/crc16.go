package main

import (
	"fmt"
	"go/ast"
	"go/constant"
	"go/token"
	"strings"
)

func init() { register("crc16", genCrc16) }

// genCrc16 reads `var crc16tab = [256]uint16{...}` from internal/cmds/slot.go.
func genCrc16() error {
	_, f, err := parseFile("internal/cmds/slot.go")
	if err != nil {
		return err
	}
	var vals []string
	found := false
	for _, d := range f.Decls {
		gd, ok := d.(*ast.GenDecl)
		if !ok || gd.Tok != token.VAR {
			continue
		}
		for _, s := range gd.Specs {
			vs := s.(*ast.ValueSpec)
			for i, n := range vs.Names {
				if n.Name != "crc16tab" {
					continue
				}
				if i >= len(vs.Values) {
					return fail("crc16tab has no initialiser")
				}
				cl, ok := vs.Values[i].(*ast.CompositeLit)
				if !ok {
					return fail("crc16tab initialiser is %T, want composite literal", vs.Values[i])
				}
				for _, e := range cl.Elts {
					bl, ok := e.(*ast.BasicLit)
					if !ok || bl.Kind != token.INT {
						return fail("crc16tab element %T is not an integer literal", e)
					}
					v := constant.MakeFromLiteral(bl.Value, token.INT, 0)
					u, exact := constant.Uint64Val(v)
					if !exact || u > 0xffff {
						return fail("crc16tab element %s out of uint16", bl.Value)
					}
					vals = append(vals, fmt.Sprint(u))
				}
				found = true
			}
		}
	}
	if !found {
		return fail("crc16tab not found in internal/cmds/slot.go")
	}
	var b strings.Builder
	b.WriteString("namespace Rv.Gen\n/-- `crc16tab` of internal/cmds/slot.go -/\ndef crc16tab : List Nat := [\n")
	for i, v := range vals {
		if i > 0 {
			b.WriteString(",")
			if i%8 == 0 {
				b.WriteString("\n")
			}
		}
		b.WriteString(" " + v)
	}
	b.WriteString("]\nend Rv.Gen\n")
	return writeLean("Crc16Table.lean", b.String())
}
