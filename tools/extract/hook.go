package main

// Generator "hook": reads rueidishook/hook.go and writes Rv/Gen/HookTable.lean —
// one row per method of every wrapper struct declared in that file (explicit
// methods; methods promoted from an embedded interface are recorded through the
// `embeds` list), classified by the *shape of its body*:
//
//	hook    return R.hook.M(R.client, <params in order>)        → calls hook method M once, returns its result
//	pass    [return] R.client.M(<params in order>)              → forwards to the inner client, no hook
//	panics  panic("...")                                        → refuses
//	wrapcb  return R.client.Dedicated(func(x) error { return fn(&W{...}) })
//	wrapret x, cancel := R.client.Dedicate(); return &W{...}, cancel
//	wrapmap nodes := R.client.Nodes(); for a, x := range nodes { nodes[a] = &W{...} }; return nodes
//
// where &W{...} is a wrapper literal `&W{client: <inner>, hook: R.hook}` whose
// inner is either the derived client itself or `&E{Embedded: x}`.
// Any other statement shape becomes an `opaque` row, whose outcome in the model is `unknown`: the
// theorems about it no longer check (fail closed) but everything still builds.

import (
	"fmt"
	"go/ast"
	"go/token"
	"os"
	"sort"
	"strings"
)

func init() { register("hook", genHook) }

type hookRow struct {
	recv, method string
	kind         string // hook | pass | panics | wrapcb | wrapret | wrapmap
	target       string // hook method / inner method called
	calls        int    // how many times the target is called in the body
	clientArg    string // what is passed as the hook's `client` argument: "inner" (R.client) or other
	argsFwd      bool   // remaining arguments are exactly the parameters, in order (variadic spread)
	retDirect    bool   // the call's result is returned as is (or the method has no result)
	wrapper      string // for wrap*: wrapper type of the derived client
	wrapInner    string // for wrap*: "" (derived client stored directly) or the adapter type put between
	hookKept     bool   // for wrap*: hook field of the new wrapper is R.hook
}

func genHook() error {
	fset, f, err := parseFile("rueidishook/hook.go")
	if err != nil {
		return err
	}
	pos := func(n ast.Node) string { return fset.Position(n.Pos()).String() }

	// struct types: fields and embedded types
	type stInfo struct {
		fields map[string]string // field name -> type text
		embeds []string
	}
	structs := map[string]*stInfo{}
	var structOrder []string
	var hookMethods []string
	for _, d := range f.Decls {
		gd, ok := d.(*ast.GenDecl)
		if !ok || gd.Tok != token.TYPE {
			continue
		}
		for _, s := range gd.Specs {
			ts := s.(*ast.TypeSpec)
			switch t := ts.Type.(type) {
			case *ast.StructType:
				si := &stInfo{fields: map[string]string{}}
				for _, fl := range t.Fields.List {
					if len(fl.Names) == 0 {
						si.embeds = append(si.embeds, exprText(fl.Type))
						continue
					}
					for _, n := range fl.Names {
						// pointer-ness is irrelevant to the call table: record the pointee type
						si.fields[n.Name] = strings.TrimPrefix(exprText(fl.Type), "*")
					}
				}
				structs[ts.Name.Name] = si
				structOrder = append(structOrder, ts.Name.Name)
			case *ast.InterfaceType:
				if ts.Name.Name == "Hook" {
					for _, m := range t.Methods.List {
						if len(m.Names) != 1 {
							return fail("%s: embedded interface in Hook", pos(m))
						}
						ft := m.Type.(*ast.FuncType)
						if ft.Params == nil || len(ft.Params.List) == 0 || exprText(ft.Params.List[0].Type) != "rueidis.Client" {
							return fail("%s: Hook.%s does not take the inner client first", pos(m), m.Names[0].Name)
						}
						hookMethods = append(hookMethods, m.Names[0].Name)
					}
				} else {
					return fail("%s: unexpected interface type %s", pos(ts), ts.Name.Name)
				}
			default:
				return fail("%s: unexpected type declaration %s (%T)", pos(ts), ts.Name.Name, ts.Type)
			}
		}
	}
	if len(hookMethods) == 0 {
		return fail("interface Hook not found in rueidishook/hook.go")
	}

	var rows []hookRow
	withHook := ""
	for _, d := range f.Decls {
		fd, ok := d.(*ast.FuncDecl)
		if !ok {
			continue
		}
		if fd.Recv == nil {
			switch fd.Name.Name {
			case "WithHook":
				// return &hookclient{client: client, hook: hook}
				if len(fd.Body.List) != 1 {
					return fail("%s: WithHook body is not a single return", pos(fd))
				}
				rs, ok := fd.Body.List[0].(*ast.ReturnStmt)
				if !ok || len(rs.Results) != 1 {
					return fail("%s: WithHook body is not a single return", pos(fd))
				}
				params := paramNames(fd.Type)
				if len(params) != 2 {
					return fail("%s: WithHook wants 2 parameters", pos(fd))
				}
				w, inner, hk, err := wrapperLit(rs.Results[0], params[0].name, func(e ast.Expr) bool { id, ok := e.(*ast.Ident); return ok && id.Name == params[1].name })
				if err != nil {
					return fail("%s: WithHook: %v", pos(fd), err)
				}
				if inner != "" || !hk {
					return fail("%s: WithHook does not store client and hook directly", pos(fd))
				}
				withHook = w
			case "NewErrorResult", "NewErrorResultStream":
				// helpers for hook implementers; not part of the wrapper
			default:
				return fail("%s: unexpected top-level function %s", pos(fd), fd.Name.Name)
			}
			continue
		}
		if len(fd.Recv.List) != 1 || len(fd.Recv.List[0].Names) != 1 {
			return fail("%s: receiver shape", pos(fd))
		}
		rname := fd.Recv.List[0].Names[0].Name
		st, ok := fd.Recv.List[0].Type.(*ast.StarExpr)
		if !ok {
			return fail("%s: non-pointer receiver", pos(fd))
		}
		rtype := exprText(st.X)
		si, ok := structs[rtype]
		if !ok {
			return fail("%s: receiver type %s is not a struct of this file", pos(fd), rtype)
		}
		row, err := classifyHookMethod(fd, rname, rtype, si.fields)
		if err != nil {
			// A body outside the known shapes does not stop the generator: it becomes an `opaque` row.
			// The interpreter gives an opaque row the outcome `unknown`, so every theorem about that
			// method fails to check (fail closed), while the table, the driver and the harness still
			// build and the correspondence suite can produce a failing input.
			fmt.Fprintf(os.Stderr, "extract: hook: %s: %s.%s: %v -> opaque row\n", pos(fd), rtype, fd.Name.Name, err)
			row = hookRow{recv: rtype, method: fd.Name.Name, kind: "opaque"}
		}
		rows = append(rows, row)
	}
	if withHook == "" {
		return fail("WithHook not found")
	}

	clientIface, err := flatIface("rueidis.go", "Client")
	if err != nil {
		return err
	}
	dedicatedIface, err := flatIface("rueidis.go", "DedicatedClient")
	if err != nil {
		return err
	}

	var b strings.Builder
	b.WriteString("namespace Rv.Gen.Hook\n\n")
	b.WriteString("/-- method set of interface rueidis.Client (rueidis.go, embedded interfaces flattened) -/\ndef clientIface : List String := [" + joinLeanStr(clientIface) + "]\n\n")
	b.WriteString("/-- method set of interface rueidis.DedicatedClient -/\ndef dedicatedIface : List String := [" + joinLeanStr(dedicatedIface) + "]\n\n")
	b.WriteString("inductive Kind | hook | pass | panics | wrapcb | wrapret | wrapmap | opaque\n  deriving DecidableEq, Repr\n\n")
	b.WriteString("/-- one explicit method of a wrapper struct of rueidishook/hook.go, classified by the shape of its body -/\n")
	b.WriteString("structure Row where\n  recv : String\n  method : String\n  kind : Kind\n  target : String\n  calls : Nat\n  clientArg : String\n  argsFwd : Bool\n  retDirect : Bool\n  wrapper : String\n  wrapInner : String\n  hookKept : Bool\n  deriving DecidableEq, Repr\n\n")
	b.WriteString("/-- methods of interface `Hook` (each takes the inner client first) -/\ndef hookMethods : List String := [" + joinLeanStr(hookMethods) + "]\n\n")
	b.WriteString("/-- `WithHook` returns `&" + withHook + "{client: client, hook: hook}` -/\ndef withHook : String := " + leanStr(withHook) + "\n\n")
	b.WriteString("/-- wrapper structs with their named fields' types (a leading * stripped) and embedded types -/\ndef structs : List (String × List (String × String) × List String) := [\n")
	for i, n := range structOrder {
		si := structs[n]
		var fs []string
		var names []string
		for k := range si.fields {
			names = append(names, k)
		}
		sort.Strings(names)
		for _, k := range names {
			fs = append(fs, "("+leanStr(k)+", "+leanStr(si.fields[k])+")")
		}
		sep := ","
		if i == len(structOrder)-1 {
			sep = ""
		}
		fmt.Fprintf(&b, "  (%s, [%s], [%s])%s\n", leanStr(n), strings.Join(fs, ", "), joinLeanStr(si.embeds), sep)
	}
	b.WriteString("]\n\ndef rows : List Row := [\n")
	for i, r := range rows {
		sep := ","
		if i == len(rows)-1 {
			sep = ""
		}
		fmt.Fprintf(&b, "  ⟨%s, %s, .%s, %s, %d, %s, %v, %v, %s, %s, %v⟩%s\n",
			leanStr(r.recv), leanStr(r.method), r.kind, leanStr(r.target), r.calls, leanStr(r.clientArg),
			r.argsFwd, r.retDirect, leanStr(r.wrapper), leanStr(r.wrapInner), r.hookKept, sep)
	}
	b.WriteString("]\n\nend Rv.Gen.Hook\n")
	return writeLean("HookTable.lean", b.String())
}

func joinLeanStr(xs []string) string {
	ys := make([]string, len(xs))
	for i, x := range xs {
		ys[i] = leanStr(x)
	}
	return strings.Join(ys, ", ")
}

func exprText(e ast.Expr) string {
	switch t := e.(type) {
	case *ast.Ident:
		return t.Name
	case *ast.SelectorExpr:
		return exprText(t.X) + "." + t.Sel.Name
	case *ast.StarExpr:
		return "*" + exprText(t.X)
	case *ast.ArrayType:
		if t.Len == nil {
			return "[]" + exprText(t.Elt)
		}
		return "[n]" + exprText(t.Elt)
	case *ast.Ellipsis:
		return "..." + exprText(t.Elt)
	case *ast.MapType:
		return "map[" + exprText(t.Key) + "]" + exprText(t.Value)
	case *ast.FuncType:
		return "func"
	case *ast.InterfaceType:
		return "interface"
	case *ast.ChanType:
		return "chan " + exprText(t.Value)
	case *ast.IndexExpr:
		return exprText(t.X) + "[" + exprText(t.Index) + "]"
	}
	return fmt.Sprintf("<%T>", e)
}

type param struct {
	name     string
	variadic bool
}

func paramNames(ft *ast.FuncType) []param {
	var ps []param
	if ft.Params == nil {
		return ps
	}
	for _, fl := range ft.Params.List {
		_, v := fl.Type.(*ast.Ellipsis)
		if len(fl.Names) == 0 {
			ps = append(ps, param{"_", v})
		}
		for _, n := range fl.Names {
			ps = append(ps, param{n.Name, v})
		}
	}
	return ps
}

// argsAreParams: call arguments (from index `from`) are exactly the parameters in order.
func argsAreParams(call *ast.CallExpr, from int, ps []param) bool {
	args := call.Args[from:]
	if len(args) != len(ps) {
		return false
	}
	for i, a := range args {
		id, ok := a.(*ast.Ident)
		if !ok || id.Name != ps[i].name || id.Name == "_" {
			return false
		}
		if ps[i].variadic != (i == len(args)-1 && call.Ellipsis.IsValid()) {
			return false
		}
	}
	return true
}

// recvField matches `R.<field>` and returns the field name.
func recvField(e ast.Expr, rname string) (string, bool) {
	se, ok := e.(*ast.SelectorExpr)
	if !ok {
		return "", false
	}
	id, ok := se.X.(*ast.Ident)
	if !ok || id.Name != rname {
		return "", false
	}
	return se.Sel.Name, true
}

// recvFieldCall matches `R.<field>.<M>(args)`.
func recvFieldCall(e ast.Expr, rname string) (field, method string, call *ast.CallExpr, ok bool) {
	call, ok = e.(*ast.CallExpr)
	if !ok {
		return
	}
	se, ok2 := call.Fun.(*ast.SelectorExpr)
	if !ok2 {
		return "", "", nil, false
	}
	field, ok = recvField(se.X, rname)
	return field, se.Sel.Name, call, ok
}

// wrapperLit matches &W{client: <inner>, hook: <hook>} where <inner> is the identifier
// `derived` or &E{<Embedded>: derived}; returns W, E ("" if none) and whether hook matched.
func wrapperLit(e ast.Expr, derived string, isHook func(ast.Expr) bool) (w, inner string, hookKept bool, err error) {
	ue, ok := e.(*ast.UnaryExpr)
	if !ok || ue.Op != token.AND {
		return "", "", false, fail("not a &T{...} literal")
	}
	cl, ok := ue.X.(*ast.CompositeLit)
	if !ok {
		return "", "", false, fail("not a composite literal")
	}
	w = exprText(cl.Type)
	if len(cl.Elts) != 2 {
		return "", "", false, fail("wrapper literal %s has %d fields, want client and hook", w, len(cl.Elts))
	}
	seenClient := false
	for _, el := range cl.Elts {
		kv, ok := el.(*ast.KeyValueExpr)
		if !ok {
			return "", "", false, fail("wrapper literal %s without field names", w)
		}
		switch exprText(kv.Key) {
		case "client":
			seenClient = true
			if id, ok := kv.Value.(*ast.Ident); ok && id.Name == derived {
				inner = ""
				continue
			}
			iu, ok := kv.Value.(*ast.UnaryExpr)
			if !ok || iu.Op != token.AND {
				return "", "", false, fail("client field of %s is neither the derived client nor &E{...}", w)
			}
			icl, ok := iu.X.(*ast.CompositeLit)
			if !ok || len(icl.Elts) != 1 {
				return "", "", false, fail("client field of %s: adapter literal shape", w)
			}
			ikv, ok := icl.Elts[0].(*ast.KeyValueExpr)
			if !ok {
				return "", "", false, fail("client field of %s: adapter literal without field name", w)
			}
			if id, ok := ikv.Value.(*ast.Ident); !ok || id.Name != derived {
				return "", "", false, fail("adapter %s does not wrap the derived client", exprText(icl.Type))
			}
			inner = exprText(icl.Type)
		case "hook":
			hookKept = isHook(kv.Value)
		default:
			return "", "", false, fail("wrapper literal %s: unknown field %s", w, exprText(kv.Key))
		}
	}
	if !seenClient {
		return "", "", false, fail("wrapper literal %s has no client field", w)
	}
	return w, inner, hookKept, nil
}

func classifyHookMethod(fd *ast.FuncDecl, rname, rtype string, fields map[string]string) (hookRow, error) {
	row := hookRow{recv: rtype, method: fd.Name.Name}
	ps := paramNames(fd.Type)
	nres := 0
	if fd.Type.Results != nil {
		for _, r := range fd.Type.Results.List {
			if len(r.Names) == 0 {
				nres++
			} else {
				nres += len(r.Names)
			}
		}
	}
	body := fd.Body.List
	isRecvHook := func(e ast.Expr) bool { f, ok := recvField(e, rname); return ok && f == "hook" }

	if len(body) == 1 {
		switch s := body[0].(type) {
		case *ast.ExprStmt:
			call, ok := s.X.(*ast.CallExpr)
			if !ok {
				return row, fail("expression statement is not a call")
			}
			if id, ok := call.Fun.(*ast.Ident); ok && id.Name == "panic" {
				row.kind = "panics"
				return row, nil
			}
			field, m, c, ok := recvFieldCall(s.X, rname)
			if ok && field == "client" && nres == 0 {
				row.kind, row.target, row.calls = "pass", m, 1
				row.argsFwd = argsAreParams(c, 0, ps)
				row.retDirect = true
				return row, nil
			}
			return row, fail("unrecognised single statement")
		case *ast.ReturnStmt:
			if len(s.Results) != 1 {
				return row, fail("single return with %d results", len(s.Results))
			}
			field, m, c, ok := recvFieldCall(s.Results[0], rname)
			if !ok {
				return row, fail("return of something other than R.<field>.<M>(...)")
			}
			switch field {
			case "hook":
				if _, isField := fields["hook"]; !isField {
					return row, fail("no hook field")
				}
				row.kind, row.target, row.calls = "hook", m, 1
				if len(c.Args) == 0 {
					return row, fail("hook call without client argument")
				}
				if f, ok := recvField(c.Args[0], rname); ok && f == "client" {
					row.clientArg = "inner"
				} else {
					row.clientArg = exprText(c.Args[0])
				}
				row.argsFwd = argsAreParams(c, 1, ps)
				row.retDirect = true
				// no nested calls among the arguments
				for _, a := range c.Args {
					bad := false
					ast.Inspect(a, func(n ast.Node) bool {
						if _, ok := n.(*ast.CallExpr); ok {
							bad = true
						}
						return true
					})
					if bad {
						return row, fail("nested call in hook arguments")
					}
				}
				return row, nil
			case "client":
				if m == "Dedicated" {
					// return R.client.Dedicated(func(x T) error { return fn(&W{...}) })
					if len(ps) != 1 || len(c.Args) != 1 {
						return row, fail("Dedicated shape")
					}
					fl, ok := c.Args[0].(*ast.FuncLit)
					if !ok || len(fl.Body.List) != 1 {
						return row, fail("Dedicated callback is not a single-statement func literal")
					}
					cps := paramNames(fl.Type)
					if len(cps) != 1 {
						return row, fail("Dedicated callback parameter count")
					}
					rs, ok := fl.Body.List[0].(*ast.ReturnStmt)
					if !ok || len(rs.Results) != 1 {
						return row, fail("Dedicated callback body is not a single return")
					}
					call, ok := rs.Results[0].(*ast.CallExpr)
					if !ok || len(call.Args) != 1 {
						return row, fail("Dedicated callback does not return fn(<wrapper>)")
					}
					if id, ok := call.Fun.(*ast.Ident); !ok || id.Name != ps[0].name {
						return row, fail("Dedicated callback calls something other than the user's function")
					}
					w, inner, hk, err := wrapperLit(call.Args[0], cps[0].name, isRecvHook)
					if err != nil {
						return row, err
					}
					row.kind, row.target, row.calls = "wrapcb", m, 1
					row.wrapper, row.wrapInner, row.hookKept = w, inner, hk
					row.argsFwd, row.retDirect = true, true
					return row, nil
				}
				row.kind, row.target, row.calls = "pass", m, 1
				row.argsFwd = argsAreParams(c, 0, ps)
				row.retDirect = true
				return row, nil
			}
			return row, fail("call through unknown field %s", field)
		}
		return row, fail("unrecognised single statement %T", body[0])
	}

	// x, cancel := R.client.Dedicate(); return &W{...}, cancel
	if len(body) == 2 {
		as, ok1 := body[0].(*ast.AssignStmt)
		rs, ok2 := body[1].(*ast.ReturnStmt)
		if ok1 && ok2 && as.Tok == token.DEFINE && len(as.Lhs) == 2 && len(as.Rhs) == 1 && len(rs.Results) == 2 {
			field, m, c, ok := recvFieldCall(as.Rhs[0], rname)
			if !ok || field != "client" || len(c.Args) != 0 || len(ps) != 0 {
				return row, fail("two-statement body: first is not x, y := R.client.M()")
			}
			x, y := exprText(as.Lhs[0]), exprText(as.Lhs[1])
			if id, ok := rs.Results[1].(*ast.Ident); !ok || id.Name != y {
				return row, fail("second result is not the inner cancel function")
			}
			w, inner, hk, err := wrapperLit(rs.Results[0], x, isRecvHook)
			if err != nil {
				return row, err
			}
			row.kind, row.target, row.calls = "wrapret", m, 1
			row.wrapper, row.wrapInner, row.hookKept = w, inner, hk
			row.argsFwd, row.retDirect = true, true
			return row, nil
		}
	}

	// nodes := R.client.Nodes(); for a, x := range nodes { nodes[a] = &W{...} }; return nodes
	if len(body) == 3 {
		as, ok1 := body[0].(*ast.AssignStmt)
		fr, ok2 := body[1].(*ast.RangeStmt)
		rs, ok3 := body[2].(*ast.ReturnStmt)
		if ok1 && ok2 && ok3 && as.Tok == token.DEFINE && len(as.Lhs) == 1 && len(as.Rhs) == 1 && len(rs.Results) == 1 {
			field, m, c, ok := recvFieldCall(as.Rhs[0], rname)
			if !ok || field != "client" || len(c.Args) != 0 || len(ps) != 0 {
				return row, fail("three-statement body: first is not x := R.client.M()")
			}
			mv := exprText(as.Lhs[0])
			if exprText(fr.X) != mv || exprText(rs.Results[0]) != mv {
				return row, fail("does not range over / return the inner map")
			}
			if fr.Key == nil || fr.Value == nil || len(fr.Body.List) != 1 {
				return row, fail("range shape")
			}
			k, v := exprText(fr.Key), exprText(fr.Value)
			ia, ok := fr.Body.List[0].(*ast.AssignStmt)
			if !ok || ia.Tok != token.ASSIGN || len(ia.Lhs) != 1 || len(ia.Rhs) != 1 {
				return row, fail("range body is not a single assignment")
			}
			ix, ok := ia.Lhs[0].(*ast.IndexExpr)
			if !ok || exprText(ix.X) != mv || exprText(ix.Index) != k {
				return row, fail("range body does not assign m[key]")
			}
			w, inner, hk, err := wrapperLit(ia.Rhs[0], v, isRecvHook)
			if err != nil {
				return row, err
			}
			row.kind, row.target, row.calls = "wrapmap", m, 1
			row.wrapper, row.wrapInner, row.hookKept = w, inner, hk
			row.argsFwd, row.retDirect = true, true
			return row, nil
		}
	}
	return row, fail("body of %d statements matches no known shape", len(body))
}

// flatIface returns the method names of interface `name` declared in file rel,
// with embedded interfaces of the same file flattened, in declaration order.
func flatIface(rel, name string) ([]string, error) {
	_, f, err := parseFile(rel)
	if err != nil {
		return nil, err
	}
	ifs := map[string]*ast.InterfaceType{}
	for _, d := range f.Decls {
		gd, ok := d.(*ast.GenDecl)
		if !ok || gd.Tok != token.TYPE {
			continue
		}
		for _, s := range gd.Specs {
			ts := s.(*ast.TypeSpec)
			if it, ok := ts.Type.(*ast.InterfaceType); ok {
				ifs[ts.Name.Name] = it
			}
		}
	}
	var out []string
	seen := map[string]bool{}
	var walk func(n string, depth int) error
	walk = func(n string, depth int) error {
		it, ok := ifs[n]
		if !ok || depth > 8 {
			return fail("interface %s not found in %s", n, rel)
		}
		for _, m := range it.Methods.List {
			if len(m.Names) == 0 {
				id, ok := m.Type.(*ast.Ident)
				if !ok {
					return fail("interface %s embeds a non-local type %s", n, exprText(m.Type))
				}
				if err := walk(id.Name, depth+1); err != nil {
					return err
				}
				continue
			}
			for _, nm := range m.Names {
				if !seen[nm.Name] {
					seen[nm.Name] = true
					out = append(out, nm.Name)
				}
			}
		}
		return nil
	}
	if err := walk(name, 0); err != nil {
		return nil, err
	}
	return out, nil
}
