package main

// Generator "builders": re-reads the generated command builders
// /repo/internal/cmds/gen_*.go, the flag constants and flag predicates of
// /repo/internal/cmds/cmds.go, the classification lists of /repo/hack/cmds/gen.go
// and the command descriptions /repo/hack/cmds/*.json, and writes
//
//	Rv/Gen/Flags.lean       flag constants + the mask each Is…() predicate tests
//	Rv/Gen/Classify.lean    readOnlyCMDs/cacheableCMDs/… of hack/cmds/gen.go, JSON command rows
//	Rv/Gen/Builders<k>.lean chunks of `Rv.Bld.Cmd` records (one per root constructor,
//	                        holding one `Method` record per generated method)
//	Rv/Gen/Builders.lean    index: `chunks`, `allCmds`
//
// The fragment of Go it understands is exactly what hack/cmds/gen.go prints. Every
// declaration, statement or expression outside that fragment is an error naming the
// node (file:line and source text). The only tolerated unknown is a *formatting
// expression over a parameter* inside an append: it is emitted as `Fmt.unknown "<src>"`
// so that the Lean theorem `all_items_named` fails and names it.

import (
	"bytes"
	"encoding/json"
	"fmt"
	"go/ast"
	"go/parser"
	"go/printer"
	"go/token"
	"math/big"
	"os"
	"path/filepath"
	"regexp"
	"sort"
	"strconv"
	"strings"
)

func init() { register("builders", genBuilders) }

const (
	bldChunks       = 24 // fixed number of table chunks (the hand-written proofs name them)
	bldChunksPerMod = 3  // chunks per generated Lean module
)

type bItem struct {
	kind  string // lit | par | spread | loop
	lit   string
	param int
	fmt   string // Lean term of type Fmt
}

type bMethod struct {
	recv, name string
	params     []string // Lean PKind constructor names
	pnames     []string
	keys       []string // Lean KeyUpd terms
	block      bool
	items      []bItem
	result     string
	pos        string
}

type bRoot struct {
	name   string
	tokens []string
	cf     string // flag constant name or ""
	pos    string
}

type bTables struct {
	fset     *token.FileSet
	types    map[string]string // type name -> position
	roots    []*bRoot
	methods  map[string][]*bMethod // by receiver type
	builds   map[string]bool
	caches   map[string]bool
	nMethods int
}

var wsRe = regexp.MustCompile(`\s+`)

func (t *bTables) src(n ast.Node) string {
	var b bytes.Buffer
	if err := printer.Fprint(&b, t.fset, n); err != nil {
		return fmt.Sprintf("<unprintable %T>", n)
	}
	return strings.TrimSpace(wsRe.ReplaceAllString(b.String(), " "))
}

func (t *bTables) at(n ast.Node) string {
	p := t.fset.Position(n.Pos())
	return fmt.Sprintf("%s:%d", filepath.Base(p.Filename), p.Line)
}

func (t *bTables) bad(n ast.Node, what string) error {
	s := t.src(n)
	if len(s) > 240 {
		s = s[:240] + "…"
	}
	return fail("%s: %s: %T `%s`", t.at(n), what, n, s)
}

// ---------------------------------------------------------------- flags (cmds.go)

type flagConst struct {
	name string
	val  uint64
}

func evalFlagExpr(e ast.Expr, env map[string]ast.Expr, memo map[string]uint64, busy map[string]bool, t *bTables) (uint64, error) {
	switch x := e.(type) {
	case *ast.BasicLit:
		if x.Kind != token.INT {
			return 0, t.bad(x, "flag constant: non-integer literal")
		}
		v, err := strconv.ParseUint(x.Value, 0, 64)
		if err != nil {
			return 0, t.bad(x, "flag constant: bad integer")
		}
		return v, nil
	case *ast.ParenExpr:
		return evalFlagExpr(x.X, env, memo, busy, t)
	case *ast.Ident:
		if v, ok := memo[x.Name]; ok {
			return v, nil
		}
		d, ok := env[x.Name]
		if !ok {
			return 0, t.bad(x, "flag constant: unknown identifier")
		}
		if busy[x.Name] {
			return 0, t.bad(x, "flag constant: cyclic definition")
		}
		busy[x.Name] = true
		v, err := evalFlagExpr(d, env, memo, busy, t)
		if err != nil {
			return 0, err
		}
		memo[x.Name] = v
		return v, nil
	case *ast.CallExpr:
		if id, ok := x.Fun.(*ast.Ident); ok && id.Name == "uint16" && len(x.Args) == 1 {
			v, err := evalFlagExpr(x.Args[0], env, memo, busy, t)
			if err != nil {
				return 0, err
			}
			if v > 0xffff {
				return 0, t.bad(x, "flag constant: does not fit uint16")
			}
			return v, nil
		}
		return 0, t.bad(x, "flag constant: unsupported call")
	case *ast.BinaryExpr:
		a, err := evalFlagExpr(x.X, env, memo, busy, t)
		if err != nil {
			return 0, err
		}
		b, err := evalFlagExpr(x.Y, env, memo, busy, t)
		if err != nil {
			return 0, err
		}
		switch x.Op {
		case token.SHL:
			if b > 15 {
				return 0, t.bad(x, "flag constant: shift out of uint16")
			}
			return a << b, nil
		case token.OR:
			return a | b, nil
		case token.AND:
			return a & b, nil
		}
		return 0, t.bad(x, "flag constant: unsupported operator")
	}
	return 0, t.bad(e, "flag constant: unsupported expression")
}

var wantFlagConsts = []string{"optInTag", "blockTag", "readonly", "noRetTag", "mtGetTag", "scrRoTag", "unsubTag", "pipeTag", "retryableTag", "staticTTLTag", "InitSlot", "NoSlot"}

// predicate method/function name -> Lean name
var wantPreds = []string{"IsOptIn", "IsStaticTTL", "IsBlock", "NoReply", "IsUnsub", "IsReadOnly", "IsPipe", "IsRetryable", "IsMGet"}

var predRe = regexp.MustCompile(`^\{ return c\.cf&(\w+) == (\w+) \}$`)

func (t *bTables) readFlags() (consts []flagConst, preds [][2]string, err error) {
	f, err := parser.ParseFile(t.fset, filepath.Join(*repo, "internal/cmds/cmds.go"), nil, 0)
	if err != nil {
		return nil, nil, err
	}
	env := map[string]ast.Expr{}
	var order []string
	predOf := map[string]string{}
	for _, d := range f.Decls {
		switch x := d.(type) {
		case *ast.GenDecl:
			if x.Tok != token.CONST {
				continue
			}
			for _, s := range x.Specs {
				vs := s.(*ast.ValueSpec)
				if len(vs.Names) != len(vs.Values) {
					return nil, nil, t.bad(vs, "const spec without explicit value (iota style not supported)")
				}
				for i, n := range vs.Names {
					env[n.Name] = vs.Values[i]
					order = append(order, n.Name)
				}
			}
		case *ast.FuncDecl:
			for _, p := range wantPreds {
				if x.Name.Name == p {
					m := predRe.FindStringSubmatch(t.src(x.Body))
					if m == nil || m[1] != m[2] {
						return nil, nil, t.bad(x.Body, "flag predicate "+p+" is not `return c.cf&X == X`")
					}
					if _, dup := predOf[p]; dup {
						return nil, nil, t.bad(x, "flag predicate "+p+" declared twice")
					}
					predOf[p] = m[1]
				}
			}
		}
	}
	memo := map[string]uint64{}
	for _, n := range wantFlagConsts {
		e, ok := env[n]
		if !ok {
			return nil, nil, fail("cmds.go: flag constant %s not found", n)
		}
		v, err := evalFlagExpr(e, env, memo, map[string]bool{}, t)
		if err != nil {
			return nil, nil, err
		}
		memo[n] = v
		consts = append(consts, flagConst{n, v})
	}
	// any other constant of the file that is built from the flag constants must be known too
	for _, n := range order {
		if _, ok := memo[n]; ok {
			continue
		}
		if strings.HasSuffix(n, "Tag") || n == "readonly" {
			return nil, nil, fail("cmds.go: flag-like constant %s is not in the translator's list", n)
		}
	}
	for _, p := range wantPreds {
		c, ok := predOf[p]
		if !ok {
			return nil, nil, fail("cmds.go: flag predicate %s not found", p)
		}
		if _, ok := memo[c]; !ok {
			return nil, nil, fail("cmds.go: flag predicate %s tests unknown constant %s", p, c)
		}
		preds = append(preds, [2]string{p, c})
	}
	return consts, preds, nil
}

// ---------------------------------------------------------------- gen_*.go

func (t *bTables) paramKind(e ast.Expr) (string, error) {
	base := func(e ast.Expr) string {
		switch x := e.(type) {
		case *ast.Ident:
			return x.Name
		case *ast.SelectorExpr:
			if id, ok := x.X.(*ast.Ident); ok {
				return id.Name + "." + x.Sel.Name
			}
		}
		return ""
	}
	switch x := e.(type) {
	case *ast.Ellipsis:
		switch base(x.Elt) {
		case "string":
			return "strs", nil
		case "int64":
			return "i64s", nil
		case "uint64":
			return "u64s", nil
		case "float64":
			return "f64s", nil
		case "float32":
			return "f32s", nil
		}
	case *ast.ArrayType:
		if x.Len == nil && base(x.Elt) == "string" {
			return "strSlice", nil
		}
	default:
		switch base(e) {
		case "string":
			return "str", nil
		case "int64":
			return "i64", nil
		case "uint64":
			return "u64", nil
		case "float64":
			return "f64", nil
		case "float32":
			return "f32", nil
		case "time.Duration":
			return "dur", nil
		case "time.Time":
			return "time", nil
		}
	}
	return "", t.bad(e, "unsupported parameter type")
}

var identRe = regexp.MustCompile(`[A-Za-z_][A-Za-z_0-9]*`)

// fmtOf names the formatting expression e applied to the identifier `who`.
func fmtOf(src, who string) (string, bool) {
	switch src {
	case who:
		return ".str", true
	case "strconv.FormatInt(" + who + ", 10)":
		return ".int", true
	case "strconv.FormatUint(" + who + ", 10)":
		return ".uint", true
	case "strconv.FormatFloat(" + who + ", 'f', -1, 64)":
		return ".f64", true
	case "strconv.FormatFloat(float64(" + who + "), 'f', -1, 64)":
		return ".f32", true
	case "strconv.FormatInt(int64(" + who + "/time.Second), 10)":
		return ".durSec", true
	case "strconv.FormatInt(int64(" + who + "/time.Millisecond), 10)":
		return ".durMs", true
	case "strconv.FormatInt(" + who + ".Unix(), 10)":
		return ".unixSec", true
	case "strconv.FormatInt(" + who + ".UnixMilli(), 10)":
		return ".unixMs", true
	}
	return "", false
}

// appendArgs parses `c.cs.s = append(c.cs.s, …)`; loopVar/loopParam are set inside a for-range body.
func (t *bTables) appendStmt(s ast.Stmt, m *bMethod, loopVar string, loopParam int) ([]bItem, error) {
	as, ok := s.(*ast.AssignStmt)
	if !ok || as.Tok != token.ASSIGN || len(as.Lhs) != 1 || len(as.Rhs) != 1 || t.src(as.Lhs[0]) != "c.cs.s" {
		return nil, t.bad(s, "statement is not `c.cs.s = append(c.cs.s, …)`")
	}
	call, ok := as.Rhs[0].(*ast.CallExpr)
	if !ok {
		return nil, t.bad(s, "right-hand side is not a call of append")
	}
	if id, ok := call.Fun.(*ast.Ident); !ok || id.Name != "append" || len(call.Args) < 2 || t.src(call.Args[0]) != "c.cs.s" {
		return nil, t.bad(s, "right-hand side is not append(c.cs.s, …)")
	}
	pidx := func(name string) int {
		for i, p := range m.pnames {
			if p == name {
				return i
			}
		}
		return -1
	}
	args := call.Args[1:]
	if call.Ellipsis.IsValid() {
		if loopVar != "" {
			return nil, t.bad(s, "spread append inside a loop")
		}
		id, ok := args[0].(*ast.Ident)
		if len(args) != 1 || !ok || pidx(id.Name) < 0 {
			return nil, t.bad(s, "spread append of something that is not a single parameter")
		}
		return []bItem{{kind: "spread", param: pidx(id.Name)}}, nil
	}
	var items []bItem
	for _, a := range args {
		if bl, ok := a.(*ast.BasicLit); ok {
			if bl.Kind != token.STRING {
				return nil, t.bad(a, "non-string literal appended")
			}
			v, err := strconv.Unquote(bl.Value)
			if err != nil {
				return nil, t.bad(a, "bad string literal")
			}
			if loopVar != "" {
				return nil, t.bad(a, "literal appended inside a loop")
			}
			items = append(items, bItem{kind: "lit", lit: v})
			continue
		}
		src := t.src(a)
		// which parameter (or the loop variable) does the expression mention?
		who, idx := "", -1
		for _, id := range identRe.FindAllString(src, -1) {
			if loopVar != "" && id == loopVar {
				if who != "" && who != id {
					return nil, t.bad(a, "appended expression mentions two variables")
				}
				who, idx = id, loopParam
			} else if loopVar == "" && pidx(id) >= 0 {
				if who != "" && who != id {
					return nil, t.bad(a, "appended expression mentions two parameters")
				}
				who, idx = id, pidx(id)
			}
		}
		if who == "" {
			return nil, t.bad(a, "appended expression is neither a string literal nor built from a parameter")
		}
		f, ok := fmtOf(src, who)
		if !ok {
			f = "(.unknown " + leanStr(src) + ")"
		}
		if loopVar != "" {
			items = append(items, bItem{kind: "loop", param: idx, fmt: f})
		} else {
			items = append(items, bItem{kind: "par", param: idx, fmt: f})
		}
	}
	return items, nil
}

var (
	keyOneRe  = regexp.MustCompile(`^if c\.ks&NoSlot == NoSlot \{ c\.ks = NoSlot \| slot\((\w+)\) \} else \{ c\.ks = check\(c\.ks, slot\((\w+)\)\) \}$`)
	keyManyRe = regexp.MustCompile(`^if c\.ks&NoSlot == NoSlot \{ for _, k := range (\w+) \{ c\.ks = NoSlot \| slot\(k\) break \} \} else \{ for _, k := range (\w+) \{ c\.ks = check\(c\.ks, slot\(k\)\) \} \}$`)
)

func (t *bTables) method(fd *ast.FuncDecl, recv string) error {
	m := &bMethod{recv: recv, name: fd.Name.Name, pos: t.at(fd)}
	if fd.Type.TypeParams != nil {
		return t.bad(fd.Type, "generic method")
	}
	for _, fld := range fd.Type.Params.List {
		k, err := t.paramKind(fld.Type)
		if err != nil {
			return err
		}
		if len(fld.Names) == 0 {
			return t.bad(fld, "unnamed parameter")
		}
		for _, n := range fld.Names {
			switch n.Name {
			case "c", "_": // (other names the bodies use — slot, check, strconv, time, int64 … — cannot be
				// shadowed by a string/number/time parameter without a compile error; the harness build compiles the package)
				return t.bad(fd.Type, "parameter name "+n.Name+" shadows a name the generated bodies use")
			}
			m.params = append(m.params, k)
			m.pnames = append(m.pnames, n.Name)
		}
	}
	for i, k := range m.params {
		if strings.HasSuffix(k, "s") && k != "strs" || k == "strs" {
			if i != len(m.params)-1 {
				return t.bad(fd.Type, "variadic parameter is not last")
			}
		}
	}
	if fd.Type.Results == nil || len(fd.Type.Results.List) != 1 || len(fd.Type.Results.List[0].Names) != 0 {
		return t.bad(fd.Type, "method does not have exactly one unnamed result")
	}
	rid, ok := fd.Type.Results.List[0].Type.(*ast.Ident)
	if !ok {
		return t.bad(fd.Type.Results.List[0].Type, "result type is not a plain identifier")
	}
	m.result = rid.Name
	stmts := fd.Body.List
	if len(stmts) == 0 {
		return t.bad(fd, "empty body")
	}
	// finals
	if m.result == "Completed" || m.result == "Cacheable" {
		want := "{ c.cs.Build() return " + m.result + "{cs: c.cs, cf: uint16(c.cf), ks: c.ks} }"
		if len(m.params) != 0 || t.src(fd.Body) != want {
			return t.bad(fd, "method returning "+m.result+" is not the generated final")
		}
		switch {
		case m.name == "Build" && m.result == "Completed":
			t.builds[recv] = true
		case m.name == "Cache" && m.result == "Cacheable":
			t.caches[recv] = true
		default:
			return t.bad(fd, "final with unexpected name/result pairing")
		}
		return nil
	}
	if m.name == "Build" || m.name == "Cache" {
		return t.bad(fd, "Build/Cache with a non-final result type")
	}
	// return
	last, ok := stmts[len(stmts)-1].(*ast.ReturnStmt)
	if !ok || len(last.Results) != 1 {
		return t.bad(stmts[len(stmts)-1], "last statement is not a single-value return")
	}
	rs := t.src(last.Results[0])
	if !(rs == "c" && m.result == recv) && rs != "("+m.result+")(c)" {
		return t.bad(last, "return is neither `c` (same type) nor `("+m.result+")(c)`")
	}
	stage := 0 // 0 keys, 1 block, 2 appends
	for _, s := range stmts[:len(stmts)-1] {
		switch x := s.(type) {
		case *ast.IfStmt:
			if stage > 0 {
				return t.bad(s, "key update after flag/append statements")
			}
			src := t.src(x)
			var re *regexp.Regexp
			var ctor, wantKind string
			if mm := keyOneRe.FindStringSubmatch(src); mm != nil {
				re, ctor, wantKind = keyOneRe, ".one", "str"
			} else if mm := keyManyRe.FindStringSubmatch(src); mm != nil {
				re, ctor, wantKind = keyManyRe, ".many", "strs"
				for _, p := range m.pnames {
					if p == "k" {
						return t.bad(s, "parameter named k shadows the loop variable of the key-slot update")
					}
				}
			} else {
				return t.bad(s, "if statement is not one of the two key-slot update shapes")
			}
			mm := re.FindStringSubmatch(src)
			if mm[1] != mm[2] {
				return t.bad(s, "key-slot update uses two different variables")
			}
			idx := -1
			for i, p := range m.pnames {
				if p == mm[1] {
					idx = i
				}
			}
			if idx < 0 || m.params[idx] != wantKind {
				return t.bad(s, "key-slot update over something that is not a "+wantKind+" parameter")
			}
			m.keys = append(m.keys, fmt.Sprintf("%s %d", ctor, idx))
		case *ast.AssignStmt:
			if t.src(x) == "c.cf |= int16(blockTag)" {
				if stage > 1 || m.block {
					return t.bad(s, "flag statement out of place")
				}
				stage = 1
				m.block = true
				continue
			}
			stage = 2
			items, err := t.appendStmt(s, m, "", -1)
			if err != nil {
				return err
			}
			m.items = append(m.items, items...)
		case *ast.RangeStmt:
			stage = 2
			k, ok1 := x.Key.(*ast.Ident)
			v, ok2 := x.Value.(*ast.Ident)
			px, ok3 := x.X.(*ast.Ident)
			if !ok1 || !ok2 || !ok3 || k.Name != "_" || v.Name != "n" || x.Tok != token.DEFINE || len(x.Body.List) != 1 {
				return t.bad(s, "range loop is not `for _, n := range <param> { one append }`")
			}
			idx := -1
			for i, p := range m.pnames {
				if p == px.Name {
					idx = i
				}
				if p == "n" {
					return t.bad(s, "parameter named n shadows the loop variable")
				}
			}
			if idx < 0 {
				return t.bad(s, "range loop over something that is not a parameter")
			}
			items, err := t.appendStmt(x.Body.List[0], m, "n", idx)
			if err != nil {
				return err
			}
			if len(items) != 1 {
				return t.bad(s, "range loop body appends more than one item")
			}
			m.items = append(m.items, items...)
		default:
			return t.bad(s, "unsupported statement")
		}
	}
	for _, o := range t.methods[recv] {
		if o.name == m.name {
			return t.bad(fd, "duplicate method")
		}
	}
	t.methods[recv] = append(t.methods[recv], m)
	t.nMethods++
	return nil
}

var rootInitRe = regexp.MustCompile(`^c = (\w+)\{cs: get\(\), ks: b\.ks(?:, cf: int16\((\w+)\))?\}$`)

func (t *bTables) root(fd *ast.FuncDecl) error {
	r := &bRoot{name: fd.Name.Name, pos: t.at(fd)}
	ty := fd.Type
	if ty.TypeParams != nil || len(ty.Params.List) != 0 || ty.Results == nil || len(ty.Results.List) != 1 ||
		len(ty.Results.List[0].Names) != 1 || ty.Results.List[0].Names[0].Name != "c" || t.src(ty.Results.List[0].Type) != r.name {
		return t.bad(fd.Type, "root constructor is not `func (b Builder) X() (c X)`")
	}
	if len(fd.Body.List) != 3 {
		return t.bad(fd.Body, "root constructor body does not have three statements")
	}
	mm := rootInitRe.FindStringSubmatch(t.src(fd.Body.List[0]))
	if mm == nil || mm[1] != r.name {
		return t.bad(fd.Body.List[0], "root constructor initialisation has an unexpected shape")
	}
	r.cf = mm[2]
	dummy := &bMethod{}
	items, err := t.appendStmt(fd.Body.List[1], dummy, "", -1)
	if err != nil {
		return err
	}
	for _, it := range items {
		if it.kind != "lit" {
			return t.bad(fd.Body.List[1], "root constructor appends a non-literal")
		}
		r.tokens = append(r.tokens, it.lit)
	}
	if len(r.tokens) == 0 {
		return t.bad(fd.Body.List[1], "root constructor appends no token")
	}
	if t.src(fd.Body.List[2]) != "return c" {
		return t.bad(fd.Body.List[2], "root constructor does not end in `return c`")
	}
	t.roots = append(t.roots, r)
	return nil
}

func (t *bTables) readGenFile(path string) error {
	f, err := parser.ParseFile(t.fset, path, nil, 0)
	if err != nil {
		return err
	}
	if f.Name.Name != "cmds" {
		return t.bad(f.Name, "unexpected package")
	}
	for _, d := range f.Decls {
		switch x := d.(type) {
		case *ast.GenDecl:
			switch x.Tok {
			case token.IMPORT:
				for _, s := range x.Specs {
					is := s.(*ast.ImportSpec)
					if is.Name != nil || (is.Path.Value != `"strconv"` && is.Path.Value != `"time"`) {
						return t.bad(is, "unexpected import")
					}
				}
			case token.TYPE:
				for _, s := range x.Specs {
					ts := s.(*ast.TypeSpec)
					if ts.TypeParams != nil || ts.Assign.IsValid() || t.src(ts.Type) != "Incomplete" {
						return t.bad(ts, "type declaration is not `type X Incomplete`")
					}
					if _, dup := t.types[ts.Name.Name]; dup {
						return t.bad(ts, "type declared twice")
					}
					t.types[ts.Name.Name] = t.at(ts)
				}
			default:
				return t.bad(x, "unsupported top-level declaration")
			}
		case *ast.FuncDecl:
			if x.Recv == nil || len(x.Recv.List) != 1 || len(x.Recv.List[0].Names) != 1 || x.Body == nil {
				return t.bad(x, "function is not a method with one named receiver")
			}
			rn := x.Recv.List[0].Names[0].Name
			rt, ok := x.Recv.List[0].Type.(*ast.Ident)
			if !ok {
				return t.bad(x.Recv.List[0].Type, "receiver is not a plain (value) type")
			}
			switch {
			case rn == "b" && rt.Name == "Builder":
				if err := t.root(x); err != nil {
					return err
				}
			case rn == "c" && rt.Name != "Builder":
				if err := t.method(x, rt.Name); err != nil {
					return err
				}
			default:
				return t.bad(x, "unexpected receiver")
			}
		default:
			return t.bad(d, "unsupported top-level declaration")
		}
	}
	return nil
}

// ---------------------------------------------------------------- hack/cmds

var wantLists = []string{"noRetCMDs", "unsubCMDs", "mtGetCMDs", "scrRoCMDs", "blockingCMDs", "cacheableCMDs", "readOnlyCMDs"}

func (t *bTables) readLists() (map[string][]string, error) {
	f, err := parser.ParseFile(t.fset, filepath.Join(*repo, "hack/cmds/gen.go"), nil, 0)
	if err != nil {
		return nil, err
	}
	out := map[string][]string{}
	for _, d := range f.Decls {
		gd, ok := d.(*ast.GenDecl)
		if !ok || gd.Tok != token.VAR {
			continue
		}
		for _, s := range gd.Specs {
			vs := s.(*ast.ValueSpec)
			for i, n := range vs.Names {
				if !strings.HasSuffix(n.Name, "CMDs") {
					continue
				}
				known := false
				for _, w := range wantLists {
					known = known || w == n.Name
				}
				if !known {
					return nil, t.bad(vs, "classification list the translator does not know")
				}
				if i >= len(vs.Values) {
					return nil, t.bad(vs, "classification list without initialiser")
				}
				cl, ok := vs.Values[i].(*ast.CompositeLit)
				if !ok || t.src(cl.Type) != "map[string]bool" {
					return nil, t.bad(vs.Values[i], "classification list is not a map[string]bool literal")
				}
				var names []string
				for _, e := range cl.Elts {
					kv, ok := e.(*ast.KeyValueExpr)
					if !ok {
						return nil, t.bad(e, "classification list element")
					}
					k, ok1 := kv.Key.(*ast.BasicLit)
					if !ok1 || k.Kind != token.STRING || t.src(kv.Value) != "false" {
						return nil, t.bad(e, "classification list element is not \"name\": false")
					}
					v, _ := strconv.Unquote(k.Value)
					names = append(names, v)
				}
				out[n.Name] = names
			}
		}
	}
	for _, w := range wantLists {
		if _, ok := out[w]; !ok {
			return nil, fail("hack/cmds/gen.go: list %s not found", w)
		}
	}
	// the generator must still derive the root flag from these lists in this order
	return out, nil
}

type jsonRow struct {
	file, name, group string
	flags             []string
	hasFlags          bool
}

func readJSONRows() ([]jsonRow, error) {
	files, err := filepath.Glob(filepath.Join(*repo, "hack/cmds/*.json"))
	if err != nil {
		return nil, err
	}
	sort.Strings(files)
	var rows []jsonRow
	for _, p := range files {
		raw, err := os.ReadFile(p)
		if err != nil {
			return nil, err
		}
		var cmds map[string]struct {
			Group string    `json:"group"`
			Flags *[]string `json:"command_flags"`
		}
		if err := json.Unmarshal(raw, &cmds); err != nil {
			return nil, fail("%s: %v", filepath.Base(p), err)
		}
		var names []string
		for k := range cmds {
			names = append(names, k)
		}
		sort.Strings(names)
		for _, k := range names {
			r := jsonRow{file: filepath.Base(p), name: k, group: cmds[k].Group}
			if cmds[k].Flags != nil {
				r.hasFlags = true
				r.flags = append(r.flags, *cmds[k].Flags...)
				sort.Strings(r.flags)
			}
			rows = append(rows, r)
		}
	}
	return rows, nil
}

// ---------------------------------------------------------------- output

// nameCode is Rv.Bld.code: the bytes of s as a base-256 big-endian number.
func nameCode(s string) string {
	return new(big.Int).SetBytes([]byte(s)).String()
}

func leanStrList(ss []string) string {
	q := make([]string, len(ss))
	for i, s := range ss {
		q[i] = leanStr(s)
	}
	return "[" + strings.Join(q, ", ") + "]"
}

func (m *bMethod) lean() string {
	ps := make([]string, len(m.params))
	for i, p := range m.params {
		ps[i] = "." + p
	}
	its := make([]string, len(m.items))
	for i, it := range m.items {
		switch it.kind {
		case "lit":
			its[i] = ".lit " + leanStr(it.lit)
		case "par":
			its[i] = fmt.Sprintf(".par %d %s", it.param, it.fmt)
		case "spread":
			its[i] = fmt.Sprintf(".spread %d", it.param)
		case "loop":
			its[i] = fmt.Sprintf(".loop %d %s", it.param, it.fmt)
		}
	}
	return fmt.Sprintf("⟨%s, %s, [%s], [%s], %v, [%s], %s⟩", leanStr(m.recv), leanStr(m.name),
		strings.Join(ps, ", "), strings.Join(m.keys, ", "), m.block, strings.Join(its, ", "), leanStr(m.result))
}

func genBuilders() error {
	t := &bTables{fset: token.NewFileSet(), types: map[string]string{}, methods: map[string][]*bMethod{}, builds: map[string]bool{}, caches: map[string]bool{}}

	consts, preds, err := t.readFlags()
	if err != nil {
		return err
	}
	constVal := map[string]uint64{}
	for _, c := range consts {
		constVal[c.name] = c.val
	}

	files, err := filepath.Glob(filepath.Join(*repo, "internal/cmds/gen_*.go"))
	if err != nil {
		return err
	}
	sort.Strings(files)
	nfiles := 0
	for _, p := range files {
		if strings.HasSuffix(p, "_test.go") {
			continue
		}
		nfiles++
		if err := t.readGenFile(p); err != nil {
			return err
		}
	}
	if nfiles == 0 || len(t.roots) == 0 {
		return fail("no generated builder files under %s/internal/cmds", *repo)
	}

	// every receiver / result type is declared; every declared type is reachable from a root
	for recv, ms := range t.methods {
		if _, ok := t.types[recv]; !ok {
			return fail("%s: method on undeclared type %s", ms[0].pos, recv)
		}
		for _, m := range ms {
			if _, ok := t.types[m.result]; !ok {
				return fail("%s: method %s.%s returns undeclared type %s", m.pos, recv, m.name, m.result)
			}
		}
	}
	for ty := range t.builds {
		if _, ok := t.types[ty]; !ok {
			return fail("Build() on undeclared type %s", ty)
		}
	}
	for ty := range t.caches {
		if _, ok := t.types[ty]; !ok {
			return fail("Cache() on undeclared type %s", ty)
		}
	}
	sort.Slice(t.roots, func(i, j int) bool { return t.roots[i].name < t.roots[j].name })
	reached := map[string]string{}
	type cmdOut struct {
		root    *bRoot
		types   []string
		methods []*bMethod
	}
	var cmdsOut []*cmdOut
	for i, r := range t.roots {
		if i > 0 && t.roots[i-1].name == r.name {
			return fail("%s: root constructor %s declared twice", r.pos, r.name)
		}
		if _, ok := t.types[r.name]; !ok {
			return fail("%s: root constructor of undeclared type %s", r.pos, r.name)
		}
		if r.cf != "" {
			if _, ok := constVal[r.cf]; !ok {
				return fail("%s: root constructor %s uses unknown flag constant %s", r.pos, r.name, r.cf)
			}
		}
		co := &cmdOut{root: r}
		seen := map[string]bool{r.name: true}
		queue := []string{r.name}
		for len(queue) > 0 {
			ty := queue[0]
			queue = queue[1:]
			co.types = append(co.types, ty)
			if prev, ok := reached[ty]; ok && prev != r.name {
				return fail("type %s is reachable from two roots (%s and %s)", ty, prev, r.name)
			}
			reached[ty] = r.name
			for _, m := range t.methods[ty] {
				co.methods = append(co.methods, m)
				if !seen[m.result] {
					seen[m.result] = true
					queue = append(queue, m.result)
				}
			}
		}
		cmdsOut = append(cmdsOut, co)
	}
	for ty, pos := range t.types {
		if _, ok := reached[ty]; !ok {
			return fail("%s: type %s is not reachable from any root constructor", pos, ty)
		}
	}

	// ---- Flags.lean
	var fb strings.Builder
	fb.WriteString("/-! Flag constants of internal/cmds/cmds.go (evaluated) and the constant each predicate tests with `c.cf&X == X`. -/\nnamespace Rv.Gen.Flags\n")
	for _, c := range consts {
		fmt.Fprintf(&fb, "def %s : Nat := %d\n", leanFlagName(c.name), c.val)
	}
	fb.WriteString("/-- name → value, for printing and for looking up `cf: int16(<name>)` -/\ndef table : List (String × Nat) := [")
	for i, c := range consts {
		if i > 0 {
			fb.WriteString(", ")
		}
		fmt.Fprintf(&fb, "(%s, %d)", leanStr(c.name), c.val)
	}
	fb.WriteString("]\n")
	for _, p := range preds {
		fmt.Fprintf(&fb, "/-- `%s`: `c.cf&%s == %s` -/\ndef mask%s : Nat := %s\n", p[0], p[1], p[1], p[0], leanFlagName(p[1]))
	}
	fb.WriteString("end Rv.Gen.Flags\n")
	if err := writeLean("Flags.lean", fb.String()); err != nil {
		return err
	}

	// ---- Classify.lean
	lists, err := t.readLists()
	if err != nil {
		return err
	}
	rows, err := readJSONRows()
	if err != nil {
		return err
	}
	// the generated files must be what hack/cmds/gen.go's lists produce (rootCf / generate):
	// a stale gen_*.go would make theorems about it say nothing about the next regeneration
	inList := func(list, name string) bool {
		for _, n := range lists[list] {
			if n == name {
				return true
			}
		}
		return false
	}
	for _, co := range cmdsOut {
		ln := strings.ToLower(co.root.name)
		want := ""
		for _, lt := range [][2]string{{"blockingCMDs", "blockTag"}, {"noRetCMDs", "noRetTag"}, {"unsubCMDs", "unsubTag"}, {"mtGetCMDs", "mtGetTag"}, {"scrRoCMDs", "scrRoTag"}, {"readOnlyCMDs", "readonly"}} {
			if inList(lt[0], ln) {
				if want != "" {
					return fail("hack/cmds/gen.go: %s is in two classification lists (%s and %s)", ln, want, lt[1])
				}
				want = lt[1]
			}
		}
		if want != co.root.cf {
			return fail("%s: root constructor %s carries flag %q but hack/cmds/gen.go's lists give %q (generated code is stale)", co.root.pos, co.root.name, co.root.cf, want)
		}
		hasCache := false
		for _, ty := range co.types {
			hasCache = hasCache || t.caches[ty]
		}
		if hasCache != inList("cacheableCMDs", ln) {
			return fail("%s: command %s offers Cache()=%v but cacheableCMDs says %v (generated code is stale)", co.root.pos, co.root.name, hasCache, !hasCache)
		}
	}
	var cb strings.Builder
	cb.WriteString("/-! Classification lists of hack/cmds/gen.go (lower-cased root type names) and the rows of hack/cmds/*.json. -/\nnamespace Rv.Gen.Classify\n")
	for _, w := range wantLists {
		fmt.Fprintf(&cb, "def %s : List String := %s\n", w, leanStrList(lists[w]))
	}
	cb.WriteString("/-- (file, command, group) of every command description -/\ndef jsonCommands : List (String × String × String) := [\n")
	for i, r := range rows {
		if i > 0 {
			cb.WriteString(",\n")
		}
		fmt.Fprintf(&cb, " (%s, %s, %s)", leanStr(r.file), leanStr(r.name), leanStr(r.group))
	}
	cb.WriteString("]\n/-- commands whose JSON description carries `command_flags`: (command, Rv.Bld.code of it, has READONLY, has WRITE) -/\ndef jsonFlags : List (String × Nat × Bool × Bool) := [\n")
	first := true
	for _, r := range rows {
		if !r.hasFlags {
			continue
		}
		if !first {
			cb.WriteString(",\n")
		}
		first = false
		ro, wr := false, false
		for _, f := range r.flags {
			ro = ro || f == "READONLY"
			wr = wr || f == "WRITE"
		}
		fmt.Fprintf(&cb, " (%s, %s, %v, %v)", leanStr(r.name), nameCode(r.name), ro, wr)
	}
	cb.WriteString("]\nend Rv.Gen.Classify\n")
	if err := writeLean("Classify.lean", cb.String()); err != nil {
		return err
	}

	// ---- Builders<k>.lean: bldChunks chunks balanced by method count
	total := 0
	for _, co := range cmdsOut {
		total += len(co.methods) + 1
	}
	if total == 0 {
		return fail("no commands")
	}
	// greedy fill with the smallest per-chunk target that needs at most bldChunks chunks
	var chunks [][]*cmdOut
	for target := total/bldChunks + 1; ; target += 8 {
		chunks = make([][]*cmdOut, bldChunks)
		acc, ci, ok := 0, 0, true
		for _, co := range cmdsOut {
			w := len(co.methods) + 1
			if len(chunks[ci]) > 0 && acc+w > target {
				ci, acc = ci+1, 0
				if ci >= bldChunks {
					ok = false
					break
				}
			}
			chunks[ci] = append(chunks[ci], co)
			acc += w
		}
		if ok {
			break
		}
	}
	nmods := (bldChunks + bldChunksPerMod - 1) / bldChunksPerMod
	for mi := 0; mi < nmods; mi++ {
		var b strings.Builder
		b.WriteString("import Rv.Model.BuilderRec\nimport Rv.Gen.Flags\nset_option maxRecDepth 100000\nnamespace Rv.Gen.Builders\nopen Rv.Bld Rv.Gen\n")
		for k := mi * bldChunksPerMod; k < (mi+1)*bldChunksPerMod && k < bldChunks; k++ {
			nm := 0
			for _, co := range chunks[k] {
				nm += len(co.methods)
			}
			fmt.Fprintf(&b, "/-- %d commands, %d methods -/\ndef chunk%d : List Cmd := [\n", len(chunks[k]), nm, k)
			for i, co := range chunks[k] {
				if i > 0 {
					b.WriteString(",\n")
				}
				cf := "0"
				if co.root.cf != "" {
					cf = "Flags." + leanFlagName(co.root.cf)
				}
				fmt.Fprintf(&b, " ⟨%s, %s, %s, %s, %s, [", leanStr(co.root.name), nameCode(strings.Join(co.root.tokens, " ")), leanStrList(co.root.tokens), cf, leanStr(co.root.cf))
				for j, m := range co.methods {
					if j > 0 {
						b.WriteString(",")
					}
					b.WriteString("\n   " + m.lean())
				}
				var bs, cs []string
				for _, ty := range co.types {
					if t.builds[ty] {
						bs = append(bs, ty)
					}
					if t.caches[ty] {
						cs = append(cs, ty)
					}
				}
				fmt.Fprintf(&b, "],\n   %s,\n   %s⟩", leanStrList(bs), leanStrList(cs))
			}
			b.WriteString("]\n")
		}
		b.WriteString("end Rv.Gen.Builders\n")
		if err := writeLean(fmt.Sprintf("Builders%d.lean", mi), b.String()); err != nil {
			return err
		}
	}
	var ib strings.Builder
	for mi := 0; mi < nmods; mi++ {
		fmt.Fprintf(&ib, "import Rv.Gen.Builders%d\n", mi)
	}
	ib.WriteString("namespace Rv.Gen.Builders\nopen Rv.Bld\n")
	fmt.Fprintf(&ib, "/-- %d root constructors, %d methods, %d types, %d Build finals, %d Cache finals from %d files -/\ndef chunks : List (List Cmd) := [", len(t.roots), t.nMethods, len(t.types), len(t.builds), len(t.caches), nfiles)
	for k := 0; k < bldChunks; k++ {
		if k > 0 {
			ib.WriteString(", ")
		}
		fmt.Fprintf(&ib, "chunk%d", k)
	}
	ib.WriteString("]\ndef allCmds : List Cmd := chunks.flatten\n")
	fmt.Fprintf(&ib, "def nRoots : Nat := %d\ndef nMethods : Nat := %d\ndef nBuilds : Nat := %d\ndef nCaches : Nat := %d\n", len(t.roots), t.nMethods, len(t.builds), len(t.caches))
	ib.WriteString("end Rv.Gen.Builders\n")
	if err := writeLean("Builders.lean", ib.String()); err != nil {
		return err
	}
	fmt.Printf("extract: builders: %d files, %d roots, %d methods, %d types, %d Build, %d Cache\n", nfiles, len(t.roots), t.nMethods, len(t.types), len(t.builds), len(t.caches))
	return nil
}

func leanFlagName(goName string) string {
	// Lean identifiers: keep the Go name (all are valid Lean identifiers; none is a Lean keyword)
	return goName
}
