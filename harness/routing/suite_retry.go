package main

// Suite `retry` (C28): the retry loops of the REAL single / standalone / sentinel / cluster clients
// over scripted fake connections. One op line = one client call on a fresh client.
//
//	rt mode=single|sa|se|cl api=do|multi|cache|mcache dis=0|1 kinds=r,w,m delay=T0;T1 ctx=bg|dl|done|c<k>|dlc<k> close=none|<k> script=S0;S1
//
// kinds: r = GET (read-only), w = SET (not retryable), m = SET tagged ToRetryable()
// Ti: RetryDelay table of command i in ns, '.'-separated, indexed by attempts-1, last repeats
// Si: reply codes answered to the 1st, 2nd, … send of command i ('_' = none; 'o' after the end):
//     o ok  n nil  e error  L LOADING  T TRYAGAIN  C CLUSTERDOWN  M MOVED  A ASK  x transport
//     a ErrDoCacheAborted  X errConnExpired
// ctx: c<k> = cancelled during the k-th connection call; close=<k>: client closed during the k-th call (0 = before)
// cluster: command i lives on node A (even i) or B (odd i); MOVED/ASK point to the other node.
//
// answers  do/cache: s=<sends | H/O per send> d=<attempts of the RetryDelay calls> f=<final code>
//          multi/mcache (single,sa,se): rounds=<n> d=<i:attempts,…> f=<codes>
//          multi/mcache (cl): per command  <i>:s=<H/O…>:d=<attempts…>:f=<code>
//	!resend mode=seq|cl dis=0|1 items=<kind>:<prev reply of the trigger>:<its delay|none>:<client open>,…  (oracle)

import (
	"context"
	"errors"
	"fmt"
	"strconv"
	"strings"
	"sync"
	"time"

	"github.com/redis/rueidis"
)

func init() {
	suites["retry"] = suite{
		rule:   "distinct op lines (client mode x entry point x DisableRetry x command kinds x RetryDelay table x ctx x close x reply script) with at least one error reply or re-send",
		run:    runRetry,
		replay: replayRetry,
	}
}

const hourNs = int64(time.Hour)

type retryOp struct {
	mode, api string
	dis       bool
	kinds     []byte
	delay     [][]int64
	ctx       string
	close     string
	script    []string
	dc        bool   // ClientOption.DisableCache (mode nd: per-node clients from Nodes())
	retire    string // cluster: "" / "none", or k = a topology refresh removes node A during the k-th connection call
}

func (o retryOp) line() string {
	ks := make([]string, len(o.kinds))
	for i, k := range o.kinds {
		ks[i] = string(k)
	}
	ds := make([]string, len(o.delay))
	for i, t := range o.delay {
		vs := make([]string, len(t))
		for j, v := range t {
			vs[j] = strconv.FormatInt(v, 10)
		}
		ds[i] = joinList(vs, ".")
	}
	ss := make([]string, len(o.script))
	for i, s := range o.script {
		if s == "" {
			s = "_"
		}
		ss[i] = s
	}
	l := fmt.Sprintf("rt mode=%s api=%s dis=%s kinds=%s delay=%s ctx=%s close=%s script=%s", o.mode, o.api, b01(o.dis),
		strings.Join(ks, ","), strings.Join(ds, ";"), o.ctx, o.close, strings.Join(ss, ";"))
	if o.mode == "nd" {
		l += " dc=" + b01(o.dc)
	}
	if o.retire != "" && o.retire != "none" {
		l += " retire=" + o.retire
	}
	return l
}

func parseRetryOp(l string) (o retryOp, ok bool) {
	ws := strings.Fields(l)
	if len(ws) == 0 || (ws[0] != "rt" && ws[0] != "rtx") {
		return o, false
	}
	for _, w := range ws[1:] {
		k, v, _ := strings.Cut(w, "=")
		switch k {
		case "mode":
			o.mode = v
		case "api":
			o.api = v
		case "dis":
			o.dis = v == "1"
		case "kinds":
			for _, x := range strings.Split(v, ",") {
				o.kinds = append(o.kinds, x[0])
			}
		case "delay":
			for _, t := range strings.Split(v, ";") {
				var vs []int64
				if t != "_" {
					for _, x := range strings.Split(t, ".") {
						n, _ := strconv.ParseInt(x, 10, 64)
						vs = append(vs, n)
					}
				}
				o.delay = append(o.delay, vs)
			}
		case "ctx":
			o.ctx = v
		case "dc":
			o.dc = v == "1"
		case "retire":
			o.retire = v
		case "close":
			o.close = v
		case "script":
			for _, s := range strings.Split(v, ";") {
				if s == "_" {
					s = ""
				}
				o.script = append(o.script, s)
			}
		}
	}
	return o, len(o.kinds) > 0 && len(o.kinds) == len(o.script) && len(o.kinds) == len(o.delay)
}

type rtEvent struct {
	send    bool
	idx     int
	addr    string
	code    byte
	ctxDone bool
	closed  bool
	batch   int
	// delay call
	attempts int
	value    int64
}

var errBoom = errors.New("verif: connection reset")

func rtKey(i int) string {
	if i%2 == 0 {
		return "{b}" + strconv.Itoa(i)
	}
	return "{d}" + strconv.Itoa(i)
}

func rtIndex(a []string) int {
	if len(a) < 2 || len(a[1]) == 0 {
		return -1
	}
	n := int(a[1][len(a[1])-1] - '0')
	if n < 0 || n > 9 {
		return -1
	}
	return n
}

func codeOf(r rueidis.RedisResult) byte {
	err := r.Error()
	if err == nil {
		return 'o'
	}
	if rueidis.IsRedisNil(err) {
		return 'n'
	}
	if re, ok := rueidis.IsRedisErr(err); ok {
		switch {
		case re.IsLoading():
			return 'L'
		case re.IsTryAgain():
			return 'T'
		case re.IsClusterDown():
			return 'C'
		}
		if _, ok := re.IsMoved(); ok {
			return 'M'
		}
		if _, ok := re.IsAsk(); ok {
			return 'A'
		}
		return 'e'
	}
	if err == rueidis.ErrDoCacheAborted {
		return 'a'
	}
	if err == rueidis.VerifRoutingErrConnExpired() {
		return 'X'
	}
	return 'x'
}

func delayAt(t []int64, attempts int) int64 {
	if len(t) == 0 {
		return 0
	}
	i := attempts - 1
	if i < 0 {
		i = 0
	}
	if i >= len(t) {
		i = len(t) - 1
	}
	return t[i]
}

const (
	nodeA = "s0n0:7000"
	nodeB = "s1n0:7000"
	nodeC = "s2n0:7000" // takes over node A's slots when the topology refresh of a `retire` episode drops A
)

func runRetryOne(o retryOp) (ans, oracle string, witness bool, hits []string) {
	w := newWorld()
	w.quiet = func(a []string) bool { return topoQuiet(a) || isCmd(a, "ASKING") }
	var mu sync.Mutex
	var events []rtEvent
	scripts := append([]string(nil), o.script...)
	var client rueidis.Client
	ctx := context.Background()
	cancel := func() {}
	closedFlag := false
	home := func(i int) string {
		if (len(o.kinds) > 0 && o.kinds[0] == 'M') || (o.retire != "" && o.retire != "none") {
			return nodeA
		}
		if i%2 == 0 {
			return nodeA
		}
		return nodeB
	}
	other := func(addr string) string {
		if addr == nodeB {
			return nodeA
		}
		return nodeB
	}
	tx := (len(o.kinds) > 0 && o.kinds[0] == 'M') || (o.retire != "" && o.retire != "none") // every key in one slot of node A
	idxOf := func(a []string) int {
		if isCmd(a, "MULTI") {
			return 0
		}
		if isCmd(a, "EXEC") {
			return len(o.kinds) - 1
		}
		return rtIndex(a)
	}
	keyOf := func(i int) string {
		if tx {
			return "{b}" + strconv.Itoa(i)
		}
		return rtKey(i)
	}
	trigger := func(k int) { // runs while the k-th call is being answered
		if (o.ctx == "c"+strconv.Itoa(k)) || (o.ctx == "dlc"+strconv.Itoa(k)) {
			cancel()
		}
		if o.close == strconv.Itoa(k) && client != nil {
			mu.Lock()
			closedFlag = true
			mu.Unlock()
			client.Close()
		}
	}
	argvLog := map[int][][]string{}
	var argvCalls []int
	parkedCall := 0
	parkedCh, gateCh := make(chan struct{}), make(chan struct{})
	settled := make(chan struct{}, 4)
	var slots, slots2 rueidis.RedisMessage
	var served, retired bool
	var servedMu sync.Mutex
	w.respond = func(addr string, e *entry, i int, cctx context.Context) rueidis.RedisResult {
		a := e.cmds[i]
		switch {
		case isCmd(a, "CLUSTER", "SLOTS"):
			servedMu.Lock()
			defer servedMu.Unlock()
			if retired {
				return res(slots2)
			}
			if served {
				return rueidis.NewErrorResult(errors.New("topology frozen"))
			}
			served = true
			return res(slots)
		case isCmd(a, "SENTINEL", "SENTINELS"):
			return res(rueidis.VerifArray())
		case isCmd(a, "SENTINEL", "GET-MASTER-ADDR-BY-NAME"):
			return res(strs("m", "6379"))
		case isCmd(a, "ROLE"):
			return res(strs("master"))
		case isCmd(a, "ASKING"):
			return okResult()
		}
		mu.Lock()
		if i == 0 && e.call > 0 {
			if _, seen := argvLog[e.call]; !seen { // argv of the whole batch as the connection consumes it
				cp := make([][]string, len(e.cmds))
				for j, x := range e.cmds {
					cp[j] = append([]string(nil), x...)
				}
				argvLog[e.call] = cp
				argvCalls = append(argvCalls, e.call)
			}
			if parkedCall > 0 && e.call > parkedCall {
				select {
				case settled <- struct{}{}: // a re-send reached the connection while Close() is in progress
				default:
				}
			}
		}
		mu.Unlock()
		idx := idxOf(a)
		if idx < 0 || idx >= len(scripts) {
			return okResult()
		}
		mu.Lock()
		code := byte('o')
		if len(scripts[idx]) > 0 {
			code = scripts[idx][0]
			scripts[idx] = scripts[idx][1:]
		}
		k := e.call
		first := true
		ne := rtEvent{send: true, idx: idx, addr: addr, code: code, ctxDone: cctx.Err() != nil, closed: closedFlag, batch: k}
		for _, ev := range events {
			if ev.send && ev.batch == k {
				if first { // the state when the connection call started holds for every member of the batch
					ne.ctxDone, ne.closed = ev.ctxDone, ev.closed
				}
				first = false
			}
		}
		events = append(events, ne)
		mu.Unlock()
		if first && o.close == "d"+strconv.Itoa(k) {
			// this call stays pending until Close() tears the connection down (the fake's Close releases it)
			mu.Lock()
			parkedCall = k
			mu.Unlock()
			close(parkedCh)
			<-gateCh
		}
		if first {
			trigger(k)
			if o.retire == strconv.Itoa(k) && addr == nodeA && client != nil {
				// a topology refresh drops node A while this call is in flight: a command for an uncovered slot
				// makes the cluster client refresh synchronously (pick -> refresh), the fakes now report C instead of A
				servedMu.Lock()
				retired = true
				servedMu.Unlock()
				client.Do(context.Background(), client.B().Get().Key("{a}x").Build())
			}
		}
		slot := 3300
		if idx%2 == 1 {
			slot = 11298
		}
		switch code {
		case 'o':
			return okResult()
		case 'n':
			return res(rueidis.VerifNil())
		case 'e':
			return redisErr("ERR wrong kind of value")
		case 'L':
			return redisErr("LOADING Redis is loading the dataset in memory")
		case 'T':
			return redisErr("TRYAGAIN Multiple keys request during rehashing of slot")
		case 'C':
			return redisErr("CLUSTERDOWN The cluster is down")
		case 'M':
			return redisErr(fmt.Sprintf("MOVED %d %s", slot, other(addr)))
		case 'A':
			return redisErr(fmt.Sprintf("ASK %d %s", slot, other(addr)))
		case 'a':
			return rueidis.NewErrorResult(rueidis.ErrDoCacheAborted)
		case 'X':
			return rueidis.NewErrorResult(rueidis.VerifRoutingErrConnExpired())
		}
		return rueidis.NewErrorResult(errBoom)
	}
	delayFn := func(attempts int, cmd rueidis.Completed, err error) time.Duration {
		idx := idxOf(cmd.Commands())
		var v int64
		if idx >= 0 && idx < len(o.delay) {
			v = delayAt(o.delay[idx], attempts)
		}
		mu.Lock()
		events = append(events, rtEvent{idx: idx, attempts: attempts, value: v})
		mu.Unlock()
		return time.Duration(v)
	}
	opt := rueidis.ClientOption{DisableRetry: o.dis, RetryDelay: delayFn, DisableCache: true}
	var err error
	switch o.mode {
	case "single":
		opt.InitAddress = []string{"p:1"}
		client, err = rueidis.VerifRoutingNewSingle(opt, w.nodeFn())
	case "sa":
		opt.InitAddress = []string{"p:1"}
		opt.Standalone.ReplicaAddress = []string{"r0:1"}
		opt.SendToReplicas = func(rueidis.Completed) bool { return false }
		client, err = rueidis.VerifRoutingNewStandalone(opt, w.nodeFn())
	case "se":
		opt.InitAddress = []string{"s0:26379"}
		opt.Sentinel.MasterSet = "mymaster"
		client, err = rueidis.VerifRoutingNewSentinel(opt, w.nodeFn())
	case "cl", "nd":
		opt.InitAddress = []string{nodeB} // not A: _refresh keeps every InitAddress in c.conns, A must be removable
		if o.mode == "nd" {
			opt.DisableCache = o.dc
		}
		shard := func(from, to int, host string) rueidis.RedisMessage {
			return rueidis.VerifArray(rueidis.VerifInt(int64(from)), rueidis.VerifInt(int64(to)),
				rueidis.VerifArray(rueidis.VerifBlobString(host), rueidis.VerifInt(7000), rueidis.VerifBlobString("id")))
		}
		slots = rueidis.VerifArray(shard(0, 8191, "s0n0"), shard(8192, 15000, "s1n0")) // 15001.. uncovered
		slots2 = rueidis.VerifArray(shard(0, 8191, "s2n0"), shard(8192, 16383, "s1n0"))
		client, err = rueidis.VerifRoutingNewCluster(opt, w.nodeFn())
	}
	var whole rueidis.Client // the client to close at the end
	if client != nil && err == nil && o.mode == "nd" {
		whole = client
		client = whole.Nodes()[nodeA] // a per-node client handed out by clusterClient.Nodes()
		if client == nil {
			whole.Close()
			return "err:no-node-client", "", false, nil
		}
		defer whole.Close()
	}
	if client == nil || err != nil {
		return "err:" + hx(fmt.Sprint(err)), "", false, nil
	}
	if whole == nil {
		defer client.Close()
	}
	w.take()
	w.mu.Lock()
	w.calls = 0
	w.mu.Unlock()
	// context
	switch {
	case o.ctx == "bg":
	case o.ctx == "dl":
		ctx, cancel = context.WithTimeout(ctx, time.Hour)
	case o.ctx == "done":
		ctx, cancel = context.WithCancel(ctx)
		cancel()
	case strings.HasPrefix(o.ctx, "dlc"):
		ctx, cancel = context.WithTimeout(ctx, time.Hour)
	case strings.HasPrefix(o.ctx, "c"):
		ctx, cancel = context.WithCancel(ctx)
	}
	defer cancel()
	if o.close == "0" {
		closedFlag = true
		client.Close()
	}
	// the call
	b := client.B()
	mk := func(i int) rueidis.Completed {
		switch o.kinds[i] {
		case 'w':
			return b.Set().Key(keyOf(i)).Value("v").Build()
		case 'm':
			return b.Set().Key(keyOf(i)).Value("v").Build().ToRetryable()
		case 'M':
			return b.Multi().Build()
		case 'E':
			return b.Exec().Build()
		}
		return b.Get().Key(keyOf(i)).Build()
	}
	var results []rueidis.RedisResult
	panicked := false
	callDone := make(chan struct{})
	doCall := func() {
		defer close(callDone)
		defer func() {
			if r := recover(); r != nil {
				panicked = true
			}
		}()
		switch o.api {
		case "do":
			results = []rueidis.RedisResult{client.Do(ctx, mk(0))}
		case "cache":
			results = []rueidis.RedisResult{client.DoCache(ctx, b.Get().Key(keyOf(0)).Cache(), time.Minute)}
		case "multi":
			cs := make([]rueidis.Completed, len(o.kinds))
			for i := range cs {
				cs[i] = mk(i)
			}
			results = client.DoMulti(ctx, cs...)
		case "mcache":
			cs := make([]rueidis.CacheableTTL, len(o.kinds))
			for i := range cs {
				cs[i] = rueidis.CT(b.Get().Key(keyOf(i)).Cache(), time.Minute)
			}
			results = client.DoMultiCache(ctx, cs...)
		}
	}
	if strings.HasPrefix(o.close, "d") {
		released := false
		w.onClose = func(string) { // the client's Close() reached conn.Close(): the pending call fails now
			mu.Lock()
			first := !released
			released = true
			mu.Unlock()
			if !first {
				return
			}
			close(gateCh)
			select { // wait until the released call has either been re-sent or has returned
			case <-settled:
			case <-callDone:
			}
		}
		go doCall()
		select {
		case <-parkedCh:
			mu.Lock()
			closedFlag = true
			mu.Unlock()
			client.Close()
		case <-callDone:
		}
		<-callDone
	} else {
		doCall()
	}
	if panicked {
		return "panic", "", false, nil
	}
	mu.Lock()
	evs := append([]rtEvent(nil), events...)
	mu.Unlock()
	n := len(o.kinds)
	finals := make([]string, n)
	for i := range finals {
		finals[i] = "?"
		if i < len(results) {
			finals[i] = string(codeOf(results[i]))
		}
	}
	ho := func(idx int, addr string) string {
		if addr == home(idx) {
			return "H"
		}
		if addr == nodeC {
			return "N"
		}
		return "O"
	}
	single := o.api == "do" || o.api == "cache"
	switch {
	case single && o.mode != "cl":
		sends := 0
		var ds []string
		for _, ev := range evs {
			if ev.send {
				sends++
			} else {
				ds = append(ds, strconv.Itoa(ev.attempts))
			}
		}
		ans = fmt.Sprintf("s=%d d=%s f=%s", sends, joinList(ds, "."), finals[0])
	case single:
		var ss, ds []string
		for _, ev := range evs {
			if ev.send {
				ss = append(ss, ho(0, ev.addr))
			} else {
				ds = append(ds, strconv.Itoa(ev.attempts))
			}
		}
		ans = fmt.Sprintf("s=%s d=%s f=%s", joinList(ss, ""), joinList(ds, "."), finals[0])
	case o.mode != "cl":
		rounds := map[int]bool{}
		var ds []string
		for _, ev := range evs {
			if ev.send {
				rounds[ev.batch] = true
			} else {
				ds = append(ds, fmt.Sprintf("%d:%d", ev.idx, ev.attempts))
			}
		}
		ans = fmt.Sprintf("rounds=%d d=%s f=%s", len(rounds), joinList(ds, ","), strings.Join(finals, ""))
	default:
		var parts []string
		for i := 0; i < n; i++ {
			var ss, ds []string
			for _, ev := range evs {
				if ev.idx != i {
					continue
				}
				if ev.send {
					ss = append(ss, ho(i, ev.addr))
				} else {
					ds = append(ds, strconv.Itoa(ev.attempts))
				}
			}
			parts = append(parts, fmt.Sprintf("%d:s=%s:d=%s:f=%s", i, joinList(ss, ""), joinList(ds, "."), finals[i]))
		}
		ans = strings.Join(parts, " ")
	}
	// ---- oracle items: every re-send of a command, with what triggered it
	kindOf := func(i int) string {
		if o.api == "cache" || o.api == "mcache" {
			return "r"
		}
		return string(o.kinds[i])
	}
	var items []string
	perMember := single || o.mode == "cl"
	for i := 0; i < n; i++ {
		var prev *rtEvent
		for j := range evs {
			ev := &evs[j]
			if !ev.send || ev.idx != i {
				continue
			}
			if prev != nil {
				if ev.ctxDone {
					// the loop called the connection with a done ctx: pipe.Do returns ctx.Err() before writing
					hits = append(hits, "call-with-done-ctx")
				} else {
					trigPrev := prev.code
					delay := "none"
					// the last RetryDelay call before this send (per member: of this command)
					for k := j - 1; k >= 0; k-- {
						d := &evs[k]
						if d.send {
							if d.idx == i && perMember {
								break
							}
							if !perMember && d.batch != ev.batch {
								break
							}
							continue
						}
						if perMember && d.idx != i {
							continue
						}
						delay = strconv.FormatInt(d.value, 10)
						if !perMember { // the trigger's own previous reply
							for q := k - 1; q >= 0; q-- {
								if evs[q].send && evs[q].idx == d.idx {
									trigPrev = evs[q].code
									break
								}
							}
						}
						break
					}
					retrySet := strings.ContainsRune("xLTC", rune(trigPrev))
					if o.mode == "cl" && !single && retrySet && delay == "-1" && !o.dis && kindOf(i) != "w" && !ev.closed {
						witness = true // flagged by c.Fail with a stable key instead of the oracle line
					} else {
						items = append(items, fmt.Sprintf("%s:%c:%s:%s", kindOf(i), trigPrev, delay, b01(!ev.closed)))
					}
				}
			}
			prev = ev
		}
	}
	if len(items) > 0 {
		m := "seq"
		if o.mode == "cl" {
			m = "cl"
		}
		oracle = fmt.Sprintf("!resend mode=%s dis=%s items=%s", m, b01(o.dis), strings.Join(items, ","))
	}
	if (o.api == "multi" || o.api == "mcache") && o.mode != "cl" && len(argvCalls) > 0 {
		same := true
		base := argvLog[argvCalls[0]]
		for _, k := range argvCalls[1:] {
			cur := argvLog[k]
			if len(cur) != len(base) {
				same = false
				continue
			}
			for j := range cur {
				if strings.Join(cur[j], "\x00") != strings.Join(base[j], "\x00") {
					same = false
				}
			}
		}
		hits = append(hits, fmt.Sprintf("argv:%d:%s", len(argvCalls), b01(same)))
	}
	return ans, oracle, witness, hits
}

// emitTxProbe runs a cluster batch that contains a MULTI … EXEC block. The block handling of
// doresultfn is outside the model (see props/C28.json): the line is answered "probe" on both sides and
// only the property itself is judged — a command that is neither read-only nor marked retryable must
// not be sent twice unless a MOVED / ASK / errConnExpired reply lies in between.
func emitTxProbe(c *Ctx, o retryOp) {
	line := "rtx" + strings.TrimPrefix(o.line(), "rt")
	ans, _, _, _ := runRetryOne(o)
	c.Emit(line, "probe", true)
	c.Hit("txprobe")
	// ans: per command "<i>:s=<H/O…>:d=…:f=…"
	redirected := false
	for _, sc := range o.script {
		if strings.ContainsAny(sc, "MAX") {
			redirected = true
		}
	}
	for _, part := range strings.Fields(ans) {
		fs := strings.Split(part, ":")
		if len(fs) < 2 {
			continue
		}
		i, err := strconv.Atoi(fs[0])
		if err != nil || i >= len(o.kinds) {
			continue
		}
		sends := len(strings.TrimPrefix(fs[1], "s="))
		if o.kinds[i] == 'w' && sends > 1 && !redirected {
			c.Fail("retry:cluster-domulti:tx-block-resent-after-member-failure", line,
				fmt.Sprintf("cluster DoMulti re-sent a whole MULTI…EXEC block (write command %d sent %d times, no MOVED/ASK) because a read-only member of the block failed with a retryable error: %s", i, sends, ans))
			return
		}
	}
}

func emitRetry(c *Ctx, o retryOp) {
	if len(o.kinds) > 0 && o.kinds[0] == 'M' {
		emitTxProbe(c, o)
		return
	}
	line := o.line()
	ans, oracle, witness, hits := runRetryOne(o)
	interesting := false
	for _, s := range o.script {
		if strings.Trim(s, "o") != "" {
			interesting = true
		}
	}
	c.Emit(line, ans, interesting)
	c.Hit(o.mode + ":" + o.api)
	for _, h := range hits {
		if strings.HasPrefix(h, "argv:") {
			f := strings.Split(h, ":")
			if f[1] != "1" { // the batch was handed to the connection more than once
				c.Emit(fmt.Sprintf("!argv calls=%s same=%s", f[1], f[2]), "ok", false)
				if f[2] != "1" {
					c.Fail("retry:resent-batch-argv-changed", line,
						"a batch that was sent again reached the connection with different argv than the first time (a command was recycled before the batch was completely written for the attempt that counts)")
				}
			}
			continue
		}
		c.Hit(h)
	}
	if oracle != "" {
		c.Hit("resend")
		c.Emit(oracle, "ok", false)
	}
	if o.retire != "" && o.retire != "none" && oracle != "" {
		for _, it := range strings.Split(strings.TrimPrefix(oracle[strings.Index(oracle, "items=")+6:], ""), ",") {
			f := strings.Split(it, ":")
			if len(f) == 4 && f[0] == "w" && !strings.ContainsAny(f[1], "MAX") {
				c.Fail("amo:cluster-retired-conn:non-retryable-resent", line,
					"a command that is neither read-only nor marked retryable was sent again after a transport error on a connection whose node a topology refresh had removed (no MOVED/ASK/errConnExpired in between): "+ans)
				break
			}
		}
	}
	if witness {
		c.Fail("retry:cluster-domulti:negative-delay-member-resent", line,
			"cluster "+o.api+": a member whose RetryDelay returned a negative delay was sent again (doresultfn/resultcachefn put it into retries.m before looking at the delay; another member's redirect or non-negative delay then re-sends the whole map)")
	}
}

func replayRetry(c *Ctx, lines []string) {
	for _, l := range lines {
		if strings.HasPrefix(l, "!") {
			continue
		}
		if strings.HasPrefix(l, "ndc ") {
			emitNdc(c, strings.Contains(l, "dis=1"), strings.Contains(l, "dc=1"))
			continue
		}
		if o, ok := parseRetryOp(l); ok {
			emitRetry(c, o)
		}
	}
}

// genRetire: cluster Do / DoMulti / DoCache / DoMultiCache while a topology refresh removes the node
// the command is in flight on (suite `amo`, also part of `retry`)
func genRetire(c *Ctx) {
	for _, api := range []string{"do", "multi", "cache", "mcache"} {
		kindSets := []string{"w", "r", "m"}
		if api == "multi" {
			kindSets = []string{"w", "r", "ww", "wr", "rw", "rr", "mw"}
		}
		if api == "cache" {
			kindSets = []string{"r"}
		}
		if api == "mcache" {
			kindSets = []string{"r", "rr"}
		}
		for _, ks := range kindSets {
			for _, sc := range []string{"x", "xx", "xo", "L", "xL", "e", "o", "T", "xM"} {
				if (api == "cache" || api == "mcache") && strings.Contains(sc, "A") {
					continue
				}
				for _, dl := range []int64{0, -1, 1000} {
					for _, dis := range []bool{false, true} {
						for _, ret := range []string{"1", "2"} {
							if ret == "2" && (api == "multi" || api == "mcache") {
								continue // rounds of a batch on two connections are not numbered deterministically
							}
							o := retryOp{mode: "cl", api: api, dis: dis, kinds: []byte(ks), ctx: "bg", close: "none", retire: ret}
							for range ks {
								o.delay = append(o.delay, []int64{dl})
								o.script = append(o.script, sc)
							}
							emitRetry(c, o)
						}
					}
				}
			}
		}
	}
}

func emitNdc(c *Ctx, dis, dc bool) {
	line := fmt.Sprintf("ndc dis=%s dc=%s", b01(dis), b01(dc))
	w := newWorld()
	w.quiet = topoQuiet
	shard := func(from, to int, host string) rueidis.RedisMessage {
		return rueidis.VerifArray(rueidis.VerifInt(int64(from)), rueidis.VerifInt(int64(to)),
			rueidis.VerifArray(rueidis.VerifBlobString(host), rueidis.VerifInt(7000), rueidis.VerifBlobString("id")))
	}
	slots := rueidis.VerifArray(shard(0, 16383, "s0n0"))
	w.respond = func(addr string, e *entry, i int, _ context.Context) rueidis.RedisResult {
		if isCmd(e.cmds[i], "CLUSTER", "SLOTS") {
			return res(slots)
		}
		if isCmd(e.cmds[i], "MGET") {
			return res(strs("v"))
		}
		return okResult()
	}
	client, err := rueidis.VerifRoutingNewCluster(rueidis.ClientOption{InitAddress: []string{nodeA}, DisableRetry: dis, DisableCache: dc}, w.nodeFn())
	if err != nil || client == nil {
		c.Emit(line, "err", true)
		return
	}
	defer client.Close()
	nc := client.Nodes()[nodeA]
	w.take()
	ans := "none"
	func() {
		defer func() {
			if r := recover(); r != nil {
				ans = "panic"
			}
		}()
		rueidis.MGetCache(nc, context.Background(), time.Minute, []string{"{b}k"})
	}()
	if log := w.take(); len(log) > 0 && ans != "panic" {
		ans = log[0].kind
	}
	c.Emit(line, ans, true)
	c.Hit("ndc")
}

// genBatchArgv: batches of the single / standalone / sentinel clients in which clean replies precede a
// retryable error, so that the whole batch is sent again (suite `batchargv`, also part of `retry`)
func genBatchArgv(c *Ctx) {
	for _, mode := range []string{"single", "sa", "se"} {
		for _, api := range []string{"multi", "mcache"} {
			for _, sc := range [][]string{{"", "x"}, {"", "L"}, {"o", "x"}, {"", "", "x"}, {"", "x", "x"}, {"", "L", ""}, {"x", ""}, {"", "xx"}, {"", "xL"}, {"n", "x"}, {"", ""}, {"x", "x"}} {
				for _, dl := range []int64{0, -1, 1000} {
					for _, dis := range []bool{false, true} {
						o := retryOp{mode: mode, api: api, dis: dis, ctx: "bg", close: "none", script: sc}
						for range sc {
							o.kinds = append(o.kinds, 'r')
							o.delay = append(o.delay, []int64{dl})
						}
						emitRetry(c, o)
					}
				}
			}
		}
	}
}

// genPendingClose: Close() while a call is pending on the connection; conn.Close() is what fails that call
func genPendingClose(c *Ctx) {
	for _, mode := range []string{"single", "sa"} {
		for _, api := range []string{"do", "cache", "multi", "mcache"} {
			kindSets := []string{"r", "w", "m"}
			switch api {
			case "multi":
				kindSets = []string{"rr", "rw"}
			case "cache":
				kindSets = []string{"r"}
			case "mcache":
				kindSets = []string{"rr"}
			}
			for _, ks := range kindSets {
				for _, sc := range []string{"x", "xo", "xx", "L", "o", "e", "X", "xL"} {
					for _, cl := range []string{"d1", "d2"} {
						for _, dl := range []int64{0, -1} {
							o := retryOp{mode: mode, api: api, kinds: []byte(ks), ctx: "bg", close: cl}
							for range ks {
								o.delay = append(o.delay, []int64{dl})
								o.script = append(o.script, sc)
							}
							emitRetry(c, o)
						}
					}
				}
			}
		}
	}
}

func init() {
	suites["batchargv"] = suite{
		rule:   "distinct op lines (client mode x DoMulti/DoMultiCache x reply scripts with clean replies ahead of a retryable error x RetryDelay x DisableRetry)",
		run:    func(c *Ctx) { genBatchArgv(c) },
		replay: replayRetry,
	}
	suites["amo"] = suite{
		rule:   "distinct op lines (cluster entry point x command kinds x reply script x RetryDelay x DisableRetry x point at which a topology refresh removes the node in use)",
		run:    func(c *Ctx) { genRetire(c) },
		replay: replayRetry,
	}
}

func runRetry(c *Ctx) {
	modes := []string{"single", "sa", "se", "cl"}
	genRetire(c)
	genBatchArgv(c)
	genPendingClose(c)
	// ---- per-node clients handed out by clusterClient.Nodes(): DisableRetry x DisableCache
	for _, dis := range []bool{false, true} {
		for _, dc := range []bool{false, true} {
			emitNdc(c, dis, dc)
			for _, api := range []string{"do", "multi", "cache", "mcache"} {
				kindSets := []string{"r", "w", "m"}
				if api == "multi" {
					kindSets = []string{"rr", "rw", "mr"}
				}
				if api == "cache" {
					kindSets = []string{"r"}
				}
				if api == "mcache" {
					kindSets = []string{"rr"}
				}
				for _, ks := range kindSets {
					for _, sc := range []string{"x", "L", "xx", "xL", "e", "n", "T", "X", "o"} {
						for _, dl := range []int64{0, -1} {
							o := retryOp{mode: "nd", api: api, dis: dis, dc: dc, kinds: []byte(ks), ctx: "bg", close: "none"}
							for range ks {
								o.delay = append(o.delay, []int64{dl})
								o.script = append(o.script, sc)
							}
							emitRetry(c, o)
						}
					}
				}
			}
		}
	}
	// ---- the witness of the cluster DoMulti gap first (and its DoMultiCache twin)
	emitRetry(c, retryOp{mode: "cl", api: "multi", kinds: []byte("rr"), delay: [][]int64{{0}, {-1}}, ctx: "bg", close: "none", script: []string{"M", "x"}})
	emitRetry(c, retryOp{mode: "cl", api: "multi", kinds: []byte("rr"), delay: [][]int64{{0}, {-1}}, ctx: "bg", close: "none", script: []string{"x", "x"}})
	emitRetry(c, retryOp{mode: "cl", api: "mcache", kinds: []byte("rr"), delay: [][]int64{{0}, {-1}}, ctx: "bg", close: "none", script: []string{"M", "L"}})
	// ---- MULTI … EXEC blocks in a cluster batch (probe only; not modelled)
	for _, sc := range [][]string{{"o", "o", "x", "x"}, {"o", "o", "x", "o"}, {"o", "o", "L", "o"}, {"o", "o", "e", "o"}, {"o", "o", "o", "o"}} {
		emitRetry(c, retryOp{mode: "cl", api: "multi", kinds: []byte("MwrE"), delay: [][]int64{{0}, {0}, {0}, {0}}, ctx: "bg", close: "none", script: sc})
	}
	// ---- exhaustive: Do / DoCache, scripts of length <= 2
	alpha := "oenLTCxaX"
	var scripts []string
	for _, a := range alpha {
		scripts = append(scripts, string(a))
		for _, b := range alpha {
			scripts = append(scripts, string(a)+string(b))
		}
	}
	delays := [][]int64{{0}, {-1}, {0, -1}, {1000}}
	ctxs := []string{"bg", "done", "c1", "c2", "dl"}
	closes := []string{"none", "0", "1"}
	k := 0
	for _, mode := range modes {
		for _, api := range []string{"do", "cache"} {
			kinds := []string{"r", "w", "m"}
			if api == "cache" {
				kinds = []string{"r"}
			}
			for _, kind := range kinds {
				for _, dis := range []bool{false, true} {
					for _, sc := range scripts {
						for _, dl := range delays {
							for _, cx := range ctxs {
								for _, cl := range closes {
									k++
									full := mode == "single" || mode == "cl"
									if c.Tier != "thorough" && len(sc) > 1 {
										if !full && k%15 != 0 {
											continue
										}
										if full && ((kind != "r" || dis) && k%9 != 0 || k%3 != 0) {
											continue
										}
									}
									if mode == "cl" && api == "cache" && strings.Contains(sc, "A") {
										continue
									}
									emitRetry(c, retryOp{mode: mode, api: api, dis: dis, kinds: []byte(kind), delay: [][]int64{dl}, ctx: cx, close: cl, script: []string{sc}})
								}
							}
						}
					}
				}
			}
		}
	}
	// deadline vs delay (WaitOrSkipRetry skips when the deadline is closer than the delay)
	for _, mode := range modes {
		for _, api := range []string{"do", "cache", "multi", "mcache"} {
			if mode == "cl" && (api == "multi" || api == "mcache") {
				continue // cluster batches use WaitForRetry: no skip
			}
			for _, d := range []int64{2 * hourNs, hourNs / 2, 1, 0} {
				for _, sc := range []string{"x", "L", "xx"} {
					o := retryOp{mode: mode, api: api, kinds: []byte("r"), delay: [][]int64{{d, 0}}, ctx: "dl", close: "none", script: []string{sc}}
					if d == hourNs/2 {
						continue // would really wait
					}
					emitRetry(c, o)
				}
			}
		}
	}
	// ---- cluster redirects in Do
	for _, sc := range []string{"M", "A", "Mx", "MM", "MxL", "AxM", "ML", "MT", "xM", "LMx", "MXo", "AXx", "Me", "MxM", "xMx"} {
		for _, kind := range []string{"r", "w"} {
			for _, dl := range delays {
				for _, dis := range []bool{false, true} {
					emitRetry(c, retryOp{mode: "cl", api: "do", dis: dis, kinds: []byte(kind), delay: [][]int64{dl}, ctx: "bg", close: "none", script: []string{sc}})
				}
			}
		}
	}
	// ---- batches: exhaustive over two commands x short scripts
	bscripts := []string{"", "x", "L", "e", "xx", "xL", "T", "n"}
	for _, mode := range modes {
		ms := bscripts
		if mode == "cl" {
			ms = append(append([]string{}, bscripts...), "M", "Mx", "A", "C", "xM")
		}
		for _, api := range []string{"multi", "mcache"} {
			kindSets := []string{"rr", "rw", "mr", "wm"}
			if api == "mcache" {
				kindSets = []string{"rr"}
			}
			for _, ks := range kindSets {
				for _, s0 := range ms {
					for _, s1 := range ms {
						if api == "mcache" && (strings.Contains(s0, "A") || strings.Contains(s1, "A")) {
							continue
						}
						for _, dl := range [][][]int64{{{0}, {0}}, {{0}, {-1}}, {{-1}, {0}}, {{-1}, {-1}}, {{0, -1}, {1000}}} {
							for _, cx := range []string{"bg", "done"} {
								for _, dis := range []bool{false, true} {
									k++
									if c.Tier != "thorough" && (dis || cx == "done") && k%5 != 0 {
										continue
									}
									emitRetry(c, retryOp{mode: mode, api: api, dis: dis, kinds: []byte(ks), delay: dl, ctx: cx, close: "none", script: []string{s0, s1}})
								}
							}
						}
					}
				}
			}
		}
	}
	// ---- random episodes
	pick := func(s string) byte { return s[c.Rng.IntN(len(s))] }
	for n := 0; n < c.N; n++ {
		var o retryOp
		o.mode = modes[c.Rng.IntN(4)]
		o.api = []string{"do", "multi", "cache", "mcache"}[c.Rng.IntN(4)]
		o.dis = c.Rng.IntN(5) == 0
		ncmd := 1
		if o.api == "multi" || o.api == "mcache" {
			ncmd = 1 + c.Rng.IntN(3)
		}
		batchCl := o.mode == "cl" && ncmd >= 1 && (o.api == "multi" || o.api == "mcache")
		al := "ooenLxxxLTCaX"
		if o.mode == "cl" {
			al += "MMM"
			if o.api == "do" || o.api == "multi" {
				al += "A"
			}
		}
		for i := 0; i < ncmd; i++ {
			kd := pick("rrrwm")
			if o.api == "cache" || o.api == "mcache" {
				kd = 'r'
			}
			o.kinds = append(o.kinds, kd)
			ln := c.Rng.IntN(5)
			sc := make([]byte, ln)
			for j := range sc {
				sc[j] = pick(al)
			}
			o.script = append(o.script, string(sc))
			var t []int64
			for j := 0; j <= c.Rng.IntN(3); j++ {
				t = append(t, []int64{0, 0, -1, 1000, 0, 50}[c.Rng.IntN(6)])
			}
			o.delay = append(o.delay, t)
		}
		o.ctx = "bg"
		o.close = "none"
		if batchCl {
			o.ctx = []string{"bg", "bg", "dl", "done"}[c.Rng.IntN(4)]
			o.close = []string{"none", "none", "none", "0"}[c.Rng.IntN(4)]
		} else {
			switch c.Rng.IntN(6) {
			case 0:
				o.ctx = "done"
			case 1:
				o.ctx = "c" + strconv.Itoa(1+c.Rng.IntN(3))
			case 2:
				o.ctx = "dl"
			case 3:
				o.ctx = "dlc" + strconv.Itoa(1+c.Rng.IntN(3))
			}
			if c.Rng.IntN(5) == 0 {
				o.close = strconv.Itoa(c.Rng.IntN(4))
			}
		}
		emitRetry(c, o)
	}
}
