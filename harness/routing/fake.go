package main

import (
	"context"
	"errors"
	"strings"
	"sync"
	"time"

	"github.com/redis/rueidis"
)

// A world is one set of fake nodes (one per address) sharing a command log. Every
// connection the real client opens through its connFn is a *fnode of the world.
type entry struct {
	addr string
	kind string // do multi cache mcache stream recv
	cmds [][]string
	ro   bool // the connection was requested with the ReplicaOnly option
	call int  // number of this connection call among those carrying user commands (0: none)
	dead bool // the connection had been closed by the client when the call was made
	conn int  // identity of the fake connection (one per connFn call)
}

type world struct {
	mu      sync.Mutex
	log     []entry
	calls   int
	conns   int
	respond func(addr string, e *entry, i int, ctx context.Context) rueidis.RedisResult
	dial    func(addr string) error
	nodeErr func(addr string) error
	az      func(addr string) string
	recv    func(addr string, sub []string, fn func(rueidis.PubSubMessage)) error
	closed  map[string]int
	quiet   func(argv []string) bool // commands not to log (topology chatter)
	onCall  func(k int)              // runs during the k-th user-command connection call
	onClose func(addr string)        // the client closed a connection to addr
}

func newWorld() *world { return &world{closed: map[string]int{}} }

func (w *world) record(e entry) *entry {
	w.mu.Lock()
	keep := entry{addr: e.addr, kind: e.kind, ro: e.ro, dead: e.dead, conn: e.conn}
	for _, c := range e.cmds {
		if w.quiet != nil && w.quiet(c) {
			continue
		}
		keep.cmds = append(keep.cmds, c)
	}
	k := 0
	if len(keep.cmds) > 0 {
		w.calls++ // connection calls that carry at least one user command
		k = w.calls
		w.log = append(w.log, keep)
	}
	hook := w.onCall
	w.mu.Unlock()
	if k > 0 && hook != nil {
		hook(k)
	}
	e.call = k
	return &e
}

func (w *world) take() []entry {
	w.mu.Lock()
	defer w.mu.Unlock()
	l := w.log
	w.log = nil
	return l
}

type fnode struct {
	w      *world
	addr   string
	ro     bool
	closed bool
	id     int
}

var errFakeClosed = errors.New("verif: fake connection is closed")

func (n *fnode) isClosed() bool {
	n.w.mu.Lock()
	defer n.w.mu.Unlock()
	return n.closed
}

func (w *world) nodeFn() rueidis.VerifRoutingNodeFn {
	return func(addr string, replicaOpt bool) rueidis.VerifRoutingNode {
		w.mu.Lock()
		w.conns++
		id := w.conns
		w.mu.Unlock()
		return &fnode{w: w, addr: addr, ro: replicaOpt, id: id}
	}
}

func argv(c rueidis.Completed) []string { return append([]string(nil), c.Commands()...) }

func okResult() rueidis.RedisResult {
	return rueidis.NewResult(rueidis.VerifSimpleString("OK"), nil)
}

func (n *fnode) answer(e *entry, i int, ctx context.Context) rueidis.RedisResult {
	if n.w.respond == nil {
		return okResult()
	}
	return n.w.respond(n.addr, e, i, ctx)
}

func (n *fnode) Dial() error {
	if n.w.dial != nil {
		return n.w.dial(n.addr)
	}
	return nil
}

func (n *fnode) Do(ctx context.Context, cmd rueidis.Completed) rueidis.RedisResult {
	e := n.w.record(entry{addr: n.addr, conn: n.id, dead: n.isClosed(), kind: "do", cmds: [][]string{argv(cmd)}, ro: n.ro})
	return n.answer(e, 0, ctx)
}

func (n *fnode) DoMulti(ctx context.Context, multi ...rueidis.Completed) []rueidis.RedisResult {
	cs := make([][]string, len(multi))
	for i, c := range multi {
		cs[i] = argv(c)
	}
	e := n.w.record(entry{addr: n.addr, conn: n.id, dead: n.isClosed(), kind: "multi", cmds: cs, ro: n.ro})
	out := make([]rueidis.RedisResult, len(multi))
	for i := range multi {
		out[i] = n.answer(e, i, ctx)
	}
	return out
}

func (n *fnode) DoCache(ctx context.Context, cmd rueidis.Cacheable, ttl time.Duration) rueidis.RedisResult {
	e := n.w.record(entry{addr: n.addr, conn: n.id, dead: n.isClosed(), kind: "cache", cmds: [][]string{argv(rueidis.Completed(cmd))}, ro: n.ro})
	return n.answer(e, 0, ctx)
}

func (n *fnode) DoMultiCache(ctx context.Context, multi ...rueidis.CacheableTTL) []rueidis.RedisResult {
	cs := make([][]string, len(multi))
	for i, c := range multi {
		cs[i] = argv(rueidis.Completed(c.Cmd))
	}
	e := n.w.record(entry{addr: n.addr, conn: n.id, dead: n.isClosed(), kind: "mcache", cmds: cs, ro: n.ro})
	out := make([]rueidis.RedisResult, len(multi))
	for i := range multi {
		out[i] = n.answer(e, i, ctx)
	}
	return out
}

func (n *fnode) Receive(ctx context.Context, sub rueidis.Completed, fn func(rueidis.PubSubMessage)) error {
	a := argv(sub)
	n.w.record(entry{addr: n.addr, kind: "recv", cmds: [][]string{a}, ro: n.ro})
	if n.w.recv != nil {
		return n.w.recv(n.addr, a, fn)
	}
	return nil
}

func (n *fnode) Stream(ctx context.Context, multi ...rueidis.Completed) {
	cs := make([][]string, len(multi))
	for i, c := range multi {
		cs[i] = argv(c)
	}
	n.w.record(entry{addr: n.addr, kind: "stream", cmds: cs, ro: n.ro})
}

func (n *fnode) Err() error {
	if n.isClosed() {
		return errFakeClosed
	}
	if n.w.nodeErr != nil {
		return n.w.nodeErr(n.addr)
	}
	return nil
}

func (n *fnode) Close() {
	n.w.mu.Lock()
	n.w.closed[n.addr]++
	n.closed = true
	hook := n.w.onClose
	n.w.mu.Unlock()
	if hook != nil {
		hook(n.addr)
	}
}

func (n *fnode) AZ() string {
	if n.w.az != nil {
		return n.w.az(n.addr)
	}
	return ""
}

func (n *fnode) Version() int { return 7 }

// ---- reply builders -------------------------------------------------------------------

func strs(ss ...string) rueidis.RedisMessage {
	ms := make([]rueidis.RedisMessage, len(ss))
	for i, s := range ss {
		ms[i] = rueidis.VerifBlobString(s)
	}
	return rueidis.VerifArray(ms...)
}

func res(m rueidis.RedisMessage) rueidis.RedisResult { return rueidis.NewResult(m, nil) }

func redisErr(text string) rueidis.RedisResult { return res(rueidis.VerifErrMsg(text)) }

func isCmd(a []string, words ...string) bool {
	if len(a) < len(words) {
		return false
	}
	for i, w := range words {
		if !strings.EqualFold(a[i], w) {
			return false
		}
	}
	return true
}

func joinList(xs []string, sep string) string {
	if len(xs) == 0 {
		return "_"
	}
	return strings.Join(xs, sep)
}

func b01(b bool) string {
	if b {
		return "1"
	}
	return "0"
}
