package main

// Suite `sentinel` (C23): the REAL sentinel client (newSentinelClient, _refresh, listWatch,
// _switchTarget, the pub/sub event handler) over scripted fake sentinels and nodes.
//
//	reset mode=m|r|b init=0,1 <world words>    build the client (runs the first refresh)
//	world <world words>                         replace the listed sentinels' / nodes' behaviour
//	refresh                                     one sentinelClient.refresh()
//	ev sm|rbm|slv|oth named=0|1 addr=J var=K    deliver a pub/sub event through the client's own callback
//	do repl=0|1                                 one user command (GET k / SET k v per SendToReplicas)
//	!traffic kind=P|R closed=0|1 reported=0|1 last=<role letter>     (oracle: the specification)
//
// world words:  s<i>=<D|d>:<sentinels E|-|digits>:<master n<j>|E|Z|O|N>:<replicas E|-|j[!],…>
//               n<j>=<D|d>:<ROLE answer queue: M master S slave o other z empty-array E error N nil I integer>
// answers: <result> acts=<addr>=<dial|lw|role|close>.… tgt=m:<addr>/<closed>,r:… sl=<sentinel list>

import (
	"context"
	"errors"
	"fmt"
	"runtime"
	"sort"
	"strconv"
	"strings"
	"sync"
	"time"

	"github.com/redis/rueidis"
)

func init() {
	suites["sentinel"] = suite{
		rule:   "distinct episodes prefixes (mode x sentinel answers x ROLE answer queues x events) in which a refresh, an event or user traffic was processed",
		run:    runSentinel,
		replay: replaySentinel,
	}
}

type sentSpec struct {
	dial     bool
	sents    string // E | - | digits
	master   string // n<j> | E | Z | O | N
	replicas string // E | - | j[!],…
}

type nodeSpec struct {
	dial  bool
	roles string
}

type sentEpisode struct {
	mu       sync.Mutex
	w        *world
	sent     map[int]*sentSpec
	node     map[int]*nodeSpec
	acts     map[string][]string
	client   rueidis.Client
	mode     string
	cb       func(rueidis.PubSubMessage)
	reported map[string]bool // named as master by a sentinel reply or event
	repR     map[string]bool // offered as eligible replica
	lastRole map[string]byte
	baseline int
	// ground truth per evaluation (reset at the start of every refresh / event / construction)
	seq       int            // counts ROLE commands
	evalStart int            // seq when the current evaluation started
	connRole  map[int][2]int // connection id -> (seq of its last ROLE, reply letter)
	namedM    map[string]bool
	namedR    map[string]bool
	// gate: the next ROLE command parks until released (an evaluation "in flight")
	gate   chan struct{}
	parked chan struct{}
}

func sentName(i int) string { return "s" + strconv.Itoa(i) + ":26379" }
func nodeName(j int) string { return "n" + strconv.Itoa(j) + ":6379" }
func short(addr string) string {
	if i := strings.IndexByte(addr, ':'); i >= 0 {
		return addr[:i]
	}
	return addr
}

func parseWorldWords(ws []string, sent map[int]*sentSpec, node map[int]*nodeSpec) {
	for _, w := range ws {
		k, v, ok := strings.Cut(w, "=")
		if !ok || len(k) < 2 {
			continue
		}
		idx, err := strconv.Atoi(k[1:])
		if err != nil {
			continue
		}
		parts := strings.Split(v, ":")
		switch k[0] {
		case 's':
			if len(parts) == 4 {
				sent[idx] = &sentSpec{dial: parts[0] == "D", sents: parts[1], master: parts[2], replicas: parts[3]}
			}
		case 'n':
			if len(parts) == 2 {
				node[idx] = &nodeSpec{dial: parts[0] == "D", roles: parts[1]}
			}
		}
	}
}

func (ep *sentEpisode) act(addr, kind string) {
	ep.mu.Lock()
	ep.acts[short(addr)] = append(ep.acts[short(addr)], kind)
	ep.mu.Unlock()
}

func roleReply(c byte) rueidis.RedisResult {
	switch c {
	case 'M':
		return res(rueidis.VerifArray(rueidis.VerifBlobString("master"), rueidis.VerifInt(0), rueidis.VerifArray()))
	case 'S':
		return res(rueidis.VerifArray(rueidis.VerifBlobString("slave"), rueidis.VerifBlobString("n9"), rueidis.VerifInt(6379)))
	case 'o':
		return res(strs("sentinel", "mymaster"))
	case 'z':
		return res(rueidis.VerifArray())
	case 'N':
		return res(rueidis.VerifNil())
	case 'I':
		return res(rueidis.VerifInt(7))
	}
	return redisErr("ERR unknown command 'ROLE'")
}

func (ep *sentEpisode) respond(addr string, e *entry, i int, _ context.Context) rueidis.RedisResult {
	a := e.cmds[i]
	name := short(addr)
	idx, _ := strconv.Atoi(name[1:])
	if name[0] == 's' {
		ep.mu.Lock()
		sp := ep.sent[idx]
		ep.mu.Unlock()
		if sp == nil {
			return redisErr("ERR no such sentinel")
		}
		switch {
		case isCmd(a, "SENTINEL", "SENTINELS"):
			ep.act(addr, "lw")
			if sp.sents == "E" {
				return redisErr("ERR No such master with that name")
			}
			var ms []rueidis.RedisMessage
			if sp.sents != "-" {
				for _, d := range sp.sents {
					ms = append(ms, strs("name", "x", "ip", "s"+string(d), "port", "26379"))
				}
			}
			return res(rueidis.VerifArray(ms...))
		case isCmd(a, "SENTINEL", "GET-MASTER-ADDR-BY-NAME"):
			switch {
			case strings.HasPrefix(sp.master, "n"):
				ep.mu.Lock()
				ep.reported[sp.master+":6379"] = true
				ep.namedM[sp.master+":6379"] = true
				ep.mu.Unlock()
				return res(strs(sp.master, "6379"))
			case sp.master == "Z":
				return res(rueidis.VerifArray())
			case sp.master == "O":
				return res(strs("n0"))
			case sp.master == "N":
				return res(rueidis.VerifNil())
			}
			return redisErr("ERR No such master with that name")
		case isCmd(a, "SENTINEL", "REPLICAS"):
			if sp.replicas == "E" {
				return redisErr("ERR No such master with that name")
			}
			var ms []rueidis.RedisMessage
			if sp.replicas != "-" {
				for _, r := range strings.Split(sp.replicas, ",") {
					down := strings.HasSuffix(r, "!")
					r = strings.TrimSuffix(r, "!")
					if down {
						ms = append(ms, strs("name", "x", "ip", "n"+r, "port", "6379", "s-down-time", "1000"))
					} else {
						ms = append(ms, strs("name", "x", "ip", "n"+r, "port", "6379"))
						ep.mu.Lock()
						ep.repR["n"+r+":6379"] = true
						ep.namedR["n"+r+":6379"] = true
						ep.mu.Unlock()
					}
				}
			}
			return res(rueidis.VerifArray(ms...))
		}
		return okResult()
	}
	if isCmd(a, "ROLE") {
		ep.act(addr, "role")
		ep.mu.Lock()
		gate, parked := ep.gate, ep.parked
		ep.gate, ep.parked = nil, nil
		ep.mu.Unlock()
		if gate != nil {
			close(parked)
			<-gate
		}
		ep.mu.Lock()
		sp := ep.node[idx]
		c := byte('E')
		if sp != nil && len(sp.roles) > 0 {
			c = sp.roles[0]
			if len(sp.roles) > 1 {
				sp.roles = sp.roles[1:]
			}
		}
		ep.lastRole[addr] = c
		ep.seq++
		ep.connRole[e.conn] = [2]int{ep.seq, int(c)}
		ep.mu.Unlock()
		return roleReply(c)
	}
	return okResult()
}

func (ep *sentEpisode) quiesce() bool {
	deadline := time.Now().Add(3 * time.Second)
	stable := 0
	for time.Now().Before(deadline) {
		if runtime.NumGoroutine() <= ep.baseline {
			stable++
			if stable >= 3 {
				return true
			}
		} else {
			stable = 0
		}
		runtime.Gosched()
		time.Sleep(20 * time.Microsecond)
	}
	return false
}

func (ep *sentEpisode) snapshot(result string) string {
	if !ep.quiesce() {
		result += "+hang"
	}
	ep.mu.Lock()
	var ks []string
	for k := range ep.acts {
		ks = append(ks, k)
	}
	sort.Strings(ks)
	var as []string
	for _, k := range ks {
		as = append(as, k+"="+strings.Join(ep.acts[k], "."))
	}
	ep.acts = map[string][]string{}
	ep.mu.Unlock()
	tgt := "none"
	sl := "_"
	if ep.client != nil {
		mA, rA, mS, rS := rueidis.VerifRoutingSentinelTargets(ep.client)
		one := func(a string, set bool, conn string) string {
			if !set {
				return "none"
			}
			if i := strings.Index(a, "!="); i >= 0 {
				return short(a[:i]) + "!=" + short(a[i+2:]) + "/" + conn
			}
			return short(a) + "/" + conn
		}
		mc, rc := "?", "?"
		if mS {
			mc = b01(ep.connClosed(true))
		}
		if rS {
			rc = b01(ep.connClosed(false))
		}
		tgt = "m:" + one(mA, mS, mc) + ",r:" + one(rA, rS, rc)
		var ss []string
		for _, s := range rueidis.VerifRoutingSentinelList(ep.client) {
			ss = append(ss, short(s))
		}
		sl = joinList(ss, ",")
	}
	return fmt.Sprintf("%s acts=%s tgt=%s sl=%s", result, joinList(as, " "), tgt, sl)
}

// connClosed asks the stored connection itself (through Nodes() would build new clients; we probe with Error())
func (ep *sentEpisode) connClosed(master bool) bool {
	return rueidis.VerifRoutingSentinelConnErr(ep.client, master) != nil
}

func (ep *sentEpisode) start(mode string, inits []int) string {
	ep.w = newWorld()
	ep.acts = map[string][]string{}
	ep.reported = map[string]bool{}
	ep.repR = map[string]bool{}
	ep.lastRole = map[string]byte{}
	ep.connRole = map[int][2]int{}
	ep.beginEval()
	ep.mode = mode
	ep.w.quiet = func(a []string) bool { return topoQuiet(a) }
	ep.w.respond = ep.respond
	ep.w.dial = func(addr string) error {
		ep.act(addr, "dial")
		name := short(addr)
		idx, _ := strconv.Atoi(name[1:])
		ep.mu.Lock()
		defer ep.mu.Unlock()
		ok := false
		if name[0] == 's' {
			ok = ep.sent[idx] != nil && ep.sent[idx].dial
		} else {
			ok = ep.node[idx] != nil && ep.node[idx].dial
		}
		if !ok {
			return errors.New("verif: dial refused")
		}
		return nil
	}
	ep.w.onClose = func(addr string) { ep.act(addr, "close") }
	ep.w.recv = func(addr string, sub []string, fn func(rueidis.PubSubMessage)) error {
		ep.mu.Lock()
		ep.cb = fn
		ep.mu.Unlock()
		return nil
	}
	opt := rueidis.ClientOption{DisableCache: true, Sentinel: rueidis.SentinelOption{MasterSet: "mymaster"}}
	for _, i := range inits {
		opt.InitAddress = append(opt.InitAddress, sentName(i))
	}
	switch mode {
	case "r":
		opt.ReplicaOnly = true
	case "b":
		opt.SendToReplicas = func(c rueidis.Completed) bool { return c.IsReadOnly() }
	}
	runtime.Gosched()
	ep.baseline = runtime.NumGoroutine()
	result := "ok"
	func() {
		defer func() {
			if r := recover(); r != nil {
				result = "panic"
			}
		}()
		c, err := rueidis.VerifRoutingNewSentinel(opt, ep.w.nodeFn())
		if err != nil || c == nil {
			result = "err"
			return
		}
		ep.client = c
	}()
	return ep.snapshot(result)
}

// beginEval marks the start of a switch evaluation (construction, refresh, event)
func (ep *sentEpisode) beginEval() {
	ep.mu.Lock()
	ep.evalStart = ep.seq
	ep.namedM = map[string]bool{}
	ep.namedR = map[string]bool{}
	ep.mu.Unlock()
}

// evalOracle states the property from the fakes' ground truth after a COMPLETED evaluation: a probe
// command shows which connection now carries the traffic; that connection must belong to an address
// named in that role during THIS evaluation and must have answered ROLE with that role during THIS
// evaluation (on this very connection). kinds: "P" primary, "R" replica.
func (ep *sentEpisode) evalOracle(c *Ctx, line string, kinds string) {
	if ep.client == nil {
		return
	}
	for _, kind := range kinds {
		if (kind == 'P' && ep.mode == "r") || (kind == 'R' && ep.mode == "m") {
			continue
		}
		ep.w.take()
		var cmd rueidis.Completed
		if kind == 'R' {
			cmd = ep.client.B().Get().Key("probe").Build()
		} else {
			cmd = ep.client.B().Set().Key("probe").Value("v").Build()
		}
		ok := true
		func() {
			defer func() {
				if r := recover(); r != nil {
					ok = false
				}
			}()
			ep.client.Do(context.Background(), cmd)
		}()
		log := ep.w.take()
		if !ok || len(log) != 1 {
			continue
		}
		e := log[0]
		ep.mu.Lock()
		named := ep.namedM[e.addr]
		if kind == 'R' {
			named = ep.namedR[e.addr]
		}
		role := byte('-')
		if cr, seen := ep.connRole[e.conn]; seen && cr[0] > ep.evalStart {
			role = byte(cr[1])
		}
		ep.mu.Unlock()
		c.Emit(fmt.Sprintf("!eval kind=%c closed=%s named=%s role=%c", kind, b01(e.dead), b01(named), role), "ok", false)
		want := byte('M')
		if kind == 'R' {
			want = 'S'
		}
		if !e.dead && !(named && role == want) {
			c.Fail(map[rune]string{'P': "sentinel:primary-traffic-to-non-master:role-not-verified", 'R': "sentinel:replica-traffic-to-non-slave:role-not-verified"}[kind], line,
				fmt.Sprintf("after a completed switch evaluation the %c traffic goes over a live connection to %s which was named in this evaluation=%v and answered ROLE on this connection in this evaluation with %q (need %q)", kind, short(e.addr), named, string(role), string(want)))
		}
	}
}

func (ep *sentEpisode) stop() {
	if ep.client != nil {
		ep.client.Close()
		ep.client = nil
	}
}

func (ep *sentEpisode) refresh() string {
	if ep.client == nil {
		return "no-client"
	}
	ep.beginEval()
	result := "ok"
	func() {
		defer func() {
			if r := recover(); r != nil {
				result = "panic"
			}
		}()
		err := rueidis.VerifRoutingSentinelRefresh(ep.client)
		switch {
		case err == nil:
		case err == rueidis.ErrNoAddr || err == errFakeClosed:
			result = "notarget"
		default:
			result = "failed"
		}
	}()
	if result == "panic" {
		ep.client = nil // c.mu and the single-flight call stay locked after a panic: abandon the client
	}
	return ep.snapshot(result)
}

func (ep *sentEpisode) event(kind string, named bool, addr, variant int) string {
	if ep.client == nil {
		return "no-client"
	}
	ep.mu.Lock()
	cb := ep.cb
	ep.mu.Unlock()
	if cb == nil {
		return "no-callback"
	}
	ep.beginEval()
	if kind == "brk" {
		// the subscription to the current sentinel broke: the Receive goroutine runs refreshRetry(),
		// i.e. refresh() until it succeeds (the fake's Receive has returned long ago, so we run that loop here)
		result := "ok"
		func() {
			defer func() {
				if r := recover(); r != nil {
					result = "panic"
				}
			}()
			for i := 0; i < 12; i++ {
				if err := rueidis.VerifRoutingSentinelRefresh(ep.client); err == nil {
					return
				}
			}
			result = "gave-up"
		}()
		if result == "panic" {
			ep.client = nil
		}
		return ep.snapshot(result)
	}
	name := "mymaster"
	if !named {
		name = "othermaster"
		if variant >= 100 { // a foreign master set whose name has ours as a proper prefix
			name = "mymaster2"
		}
	}
	var msg rueidis.PubSubMessage
	switch kind {
	case "sm":
		msg = rueidis.PubSubMessage{Channel: "+switch-master", Message: fmt.Sprintf("%s n9 6379 n%d 6379", name, addr)}
	case "rbm":
		msg = rueidis.PubSubMessage{Channel: "+reboot", Message: fmt.Sprintf("master %s n%d 6379", name, addr)}
	case "slv":
		ch := []string{"+slave", "+sdown", "-sdown", "+reboot"}[variant%4]
		msg = rueidis.PubSubMessage{Channel: ch, Message: fmt.Sprintf("slave n%d:6379 n%d 6379 @ %s n0 6379", addr, addr, name)}
	default:
		msg = rueidis.PubSubMessage{Channel: "+odown", Message: fmt.Sprintf("master %s n%d 6379 #quorum 2/2", name, addr)}
	}
	if named && (kind == "sm" || kind == "rbm") {
		ep.mu.Lock()
		ep.reported[nodeName(addr)] = true
		ep.namedM[nodeName(addr)] = true
		ep.mu.Unlock()
	}
	result := "ok"
	func() {
		defer func() {
			if r := recover(); r != nil {
				result = "panic"
			}
		}()
		cb(msg)
	}()
	if result == "panic" {
		ep.client = nil
	}
	return ep.snapshot(result)
}

// eventDuringRefresh delivers a +switch-master / +reboot event while a refresh is parked inside its ROLE
// check (it holds the client mutex), then lets the refresh finish. Returns the snapshot (prefixed with the
// refresh result) once both are done.
func (ep *sentEpisode) eventDuringRefresh(kind string, named bool, addr int) string {
	if ep.client == nil {
		return "no-client"
	}
	ep.mu.Lock()
	cb := ep.cb
	ep.mu.Unlock()
	if cb == nil {
		return "no-callback"
	}
	ep.beginEval()
	gate, parked := make(chan struct{}), make(chan struct{})
	ep.mu.Lock()
	ep.gate, ep.parked = gate, parked
	ep.mu.Unlock()
	name := "mymaster"
	if !named {
		name = "othermaster"
	}
	var msg rueidis.PubSubMessage
	switch kind {
	case "sm":
		msg = rueidis.PubSubMessage{Channel: "+switch-master", Message: fmt.Sprintf("%s n9 6379 n%d 6379", name, addr)}
	default:
		msg = rueidis.PubSubMessage{Channel: "+reboot", Message: fmt.Sprintf("master %s n%d 6379", name, addr)}
	}
	if named {
		ep.mu.Lock()
		ep.reported[nodeName(addr)] = true
		ep.namedM[nodeName(addr)] = true
		ep.mu.Unlock()
	}
	result := "ok"
	refreshDone := make(chan string, 1)
	go func() {
		r := "ok"
		defer func() {
			if rec := recover(); rec != nil {
				r = "panic"
			}
			refreshDone <- r
		}()
		err := rueidis.VerifRoutingSentinelRefresh(ep.client)
		switch {
		case err == nil:
		case err == rueidis.ErrNoAddr || err == errFakeClosed:
			r = "notarget"
		default:
			r = "failed"
		}
	}()
	released := false
	select {
	case <-parked: // the refresh is inside its ROLE check, holding the client mutex
	case r := <-refreshDone: // the refresh ended without any ROLE (e.g. no sentinel answered)
		refreshDone <- r
		ep.mu.Lock()
		ep.gate, ep.parked = nil, nil
		ep.mu.Unlock()
		released = true
	case <-time.After(3 * time.Second):
		result = "refresh-hang"
	}
	started, eventDone := make(chan struct{}), make(chan bool, 1)
	go func() {
		ok := true
		defer func() {
			if rec := recover(); rec != nil {
				ok = false
			}
			eventDone <- ok
		}()
		close(started)
		cb(msg)
	}()
	<-started
	time.Sleep(3 * time.Millisecond) // the handler is now blocked on the mutex (or has returned)
	if !released {
		close(gate)
	}
	select {
	case r := <-refreshDone:
		if result == "ok" {
			result = r
		}
	case <-time.After(3 * time.Second):
		result = "refresh-hang"
	}
	select {
	case ok := <-eventDone:
		if !ok {
			result = "panic"
		}
	case <-time.After(3 * time.Second):
		result = "event-hang"
	}
	if result == "panic" {
		ep.client = nil
	}
	return ep.snapshot(result)
}

// primaryProbe sends one write and reports which node got it
func (ep *sentEpisode) primaryProbe() (addr string, dead bool, ok bool) {
	if ep.client == nil {
		return "", false, false
	}
	ep.w.take()
	func() {
		defer func() { recover() }()
		ep.client.Do(context.Background(), ep.client.B().Set().Key("probe").Value("v").Build())
	}()
	log := ep.w.take()
	if len(log) != 1 {
		return "", false, false
	}
	return log[0].addr, log[0].dead, true
}

func (ep *sentEpisode) do(c *Ctx, repl bool) (string, string) {
	if ep.client == nil {
		return "no-client", ""
	}
	ep.w.take()
	var cmd rueidis.Completed
	if repl {
		cmd = ep.client.B().Get().Key("k").Build()
	} else {
		cmd = ep.client.B().Set().Key("k").Value("v").Build()
	}
	result := ""
	func() {
		defer func() {
			if r := recover(); r != nil {
				result = "panic"
			}
		}()
		ep.client.Do(context.Background(), cmd)
	}()
	if result != "" {
		return result, ""
	}
	log := ep.w.take()
	if len(log) != 1 {
		return fmt.Sprintf("sends=%d", len(log)), ""
	}
	e := log[0]
	ep.mu.Lock()
	lr, seen := ep.lastRole[e.addr]
	if !seen {
		lr = '-'
	}
	kind := "P"
	rep := ep.reported[e.addr]
	if ep.mode == "r" || (ep.mode == "b" && repl) {
		kind = "R"
		rep = ep.repR[e.addr]
	}
	ep.mu.Unlock()
	oracle := fmt.Sprintf("!traffic kind=%s closed=%s reported=%s last=%c", kind, b01(e.dead), b01(rep), lr)
	return fmt.Sprintf("to=%s/%s", short(e.addr), b01(e.dead)), oracle
}

// ---- op execution ---------------------------------------------------------------------

type sentRunner struct {
	ep *sentEpisode
}

func (r *sentRunner) exec(c *Ctx, line string) {
	ws := strings.Fields(line)
	if len(ws) == 0 {
		return
	}
	kv := map[string]string{}
	for _, w := range ws[1:] {
		k, v, ok := strings.Cut(w, "=")
		if ok {
			kv[k] = v
		}
	}
	switch ws[0] {
	case "reset":
		if r.ep != nil {
			r.ep.stop()
		}
		r.ep = &sentEpisode{sent: map[int]*sentSpec{}, node: map[int]*nodeSpec{}}
		parseWorldWords(ws[1:], r.ep.sent, r.ep.node)
		var inits []int
		for _, x := range strings.Split(kv["init"], ",") {
			if n, err := strconv.Atoi(x); err == nil {
				inits = append(inits, n)
			}
		}
		ans := r.ep.start(kv["mode"], inits)
		c.Emit(line, ans, true)
		c.Hit("reset:" + strings.Fields(ans)[0])
		if strings.HasPrefix(ans, "ok ") {
			r.ep.evalOracle(c, line, "PR")
		}
	case "world":
		if r.ep == nil {
			return
		}
		r.ep.mu.Lock()
		parseWorldWords(ws[1:], r.ep.sent, r.ep.node)
		r.ep.mu.Unlock()
		c.Emit(line, "ok", false)
	case "refresh":
		if r.ep == nil {
			return
		}
		ans := r.ep.refresh()
		c.Emit(line, ans, true)
		c.Hit("refresh:" + strings.Fields(ans)[0])
		if strings.HasPrefix(ans, "ok ") {
			r.ep.evalOracle(c, line, "PR")
		}
	case "ev":
		if r.ep == nil {
			return
		}
		addr, _ := strconv.Atoi(kv["addr"])
		variant, _ := strconv.Atoi(kv["var"])
		named := kv["named"] == "1"
		foreign := kv["named"] == "2" && ws[1] != "brk" && ws[1] != "oth" // +switch-master / +reboot of the foreign set "mymaster2"
		before, beforeDead, haveBefore := "", false, false
		if foreign {
			variant += 100
			if r.ep.mode != "r" {
				before, beforeDead, haveBefore = r.ep.primaryProbe()
			}
		}
		ans := r.ep.event(ws[1], named, addr, variant)
		c.Emit(line, ans, true)
		c.Hit("ev:" + ws[1])
		if foreign && haveBefore && r.ep.client != nil {
			c.Hit("ev:foreign-set")
			if after, afterDead, ok := r.ep.primaryProbe(); ok {
				c.Emit(fmt.Sprintf("!foreign before=%s/%s after=%s/%s", short(before), b01(beforeDead), short(after), b01(afterDead)), "ok", false)
				if before != after || beforeDead != afterDead {
					c.Fail("sentinel:foreign-master-set-event-followed", line,
						fmt.Sprintf("an event of the foreign master set mymaster2 moved primary traffic from %s to %s", short(before), short(after)))
				}
			}
		}
		if strings.HasPrefix(ans, "ok ") {
			switch {
			case ws[1] == "brk":
				r.ep.evalOracle(c, line, "PR")
			case named && (ws[1] == "sm" || ws[1] == "rbm"):
				r.ep.evalOracle(c, line, "P")
			case named && ws[1] == "slv" && r.ep.mode != "m":
				r.ep.evalOracle(c, line, "PR")
			}
		}
	case "evdur":
		if r.ep == nil {
			return
		}
		addr, _ := strconv.Atoi(kv["addr"])
		named := kv["named"] == "1"
		ans := r.ep.eventDuringRefresh(ws[1], named, addr)
		c.Emit(line, ans, true)
		c.Hit("evdur:" + ws[1])
		if named && r.ep.mode == "m" && !strings.Contains(ans, "hang") && !strings.HasPrefix(ans, "panic") && !strings.HasPrefix(ans, "no-") {
			if to, dead, ok := r.ep.primaryProbe(); ok {
				want := "n" + strconv.Itoa(addr)
				c.Emit(fmt.Sprintf("!evlost to=%s named=%s closed=%s", short(to), want, b01(dead)), "ok", false)
				if short(to) != want || dead {
					c.Fail("sentinel:switch-event-lost-during-refresh", line,
						fmt.Sprintf("a %s event naming %s was delivered while a refresh held the client mutex; after both finished primary traffic goes to %s (closed=%v)", ws[1], want, short(to), dead))
				}
			}
		}
	case "do":
		if r.ep == nil {
			return
		}
		ans, oracle := r.ep.do(c, kv["repl"] == "1")
		c.Emit(line, ans, true)
		c.Hit("do")
		if strings.HasSuffix(ans, "/1") {
			c.Hit("do:closed-conn")
		}
		if oracle != "" {
			c.Emit(oracle, "ok", false)
		}
	}
}

func replaySentinel(c *Ctx, lines []string) {
	r := &sentRunner{}
	for _, l := range lines {
		if strings.HasPrefix(l, "!") {
			continue
		}
		r.exec(c, l)
	}
	if r.ep != nil {
		r.ep.stop()
	}
}

func runSentinel(c *Ctx) {
	r := &sentRunner{}
	defer func() {
		if r.ep != nil {
			r.ep.stop()
		}
	}()
	run := func(lines ...string) {
		for _, l := range lines {
			r.exec(c, l)
		}
	}
	roleQs := []string{"M", "S", "o", "z", "E", "N", "I", "SM", "zM", "EM", "MS", "oSM"}
	// ---- one sentinel, master-only: every master-reply shape x ROLE queue x dial results
	for _, sd := range []string{"D", "d"} {
		for _, ss := range []string{"-", "E", "1"} {
			for _, ms := range []string{"n0", "E", "Z", "O", "N"} {
				for _, nd := range []string{"D", "d"} {
					for _, rq := range roleQs {
						if (sd == "d" || ss == "E" || ms != "n0" || nd == "d") && rq != "M" && rq != "S" {
							continue
						}
						run(fmt.Sprintf("reset mode=m init=0 s0=%s:%s:%s:- s1=D:-:n0:- n0=%s:%s", sd, ss, ms, nd, rq),
							"refresh", "do repl=0", "refresh", "do repl=0")
					}
				}
			}
		}
	}
	// ---- two / three sentinels disagreeing; wrong role at the first, right role at the next
	for _, r0 := range roleQs {
		for _, r1 := range []string{"M", "S", "z", "SM"} {
			run(fmt.Sprintf("reset mode=m init=0,1 s0=D:-:n0:- s1=D:-:n1:- n0=D:%s n1=D:%s", r0, r1), "do repl=0", "refresh", "do repl=0",
				"world n0=D:M n1=D:S", "refresh", "do repl=0", "refresh", "do repl=0")
			run(fmt.Sprintf("reset mode=m init=0,1,2 s0=d:-:n0:- s1=D:E:n1:- s2=D:2:n1:- n0=D:%s n1=D:%s", r0, r1), "do repl=0", "refresh", "do repl=0")
		}
	}
	// ---- replica-only: replica list shapes
	for _, reps := range []string{"1", "E", "-", "1!", "1!,2", "2!,1!", "2,1!"} {
		for _, rq := range []string{"S", "M", "z", "E", "MS", "o"} {
			run(fmt.Sprintf("reset mode=r init=0,1 s0=D:-:n0:%s s1=D:-:n0:2 n0=D:M n1=D:%s n2=D:%s", reps, rq, rq), "do repl=1", "refresh", "do repl=1",
				"world n1=D:M n2=D:S s0=D:-:n0:2", "refresh", "do repl=1")
		}
	}
	// ---- events on a healthy master-only client
	for _, kind := range []string{"sm", "rbm", "slv", "oth"} {
		for _, named := range []string{"1", "0"} {
			for _, rq := range []string{"M", "S", "SM", "z", "zM", "EM", "oSM"} {
				for _, mode := range []string{"m", "r", "b"} {
					if mode == "b" && len(rq) > 2 {
						continue // a failing switch inside a SendToReplicas refresh races with the next round
					}
					// every sentinel is good: reports n1 as master (eventually master) and n2 as replica (slave)
					tgtRole := rq
					run(fmt.Sprintf("reset mode=%s init=0 s0=D:-:n0:2 n0=D:M n1=D:%s n2=D:S", mode, "S"),
						"do repl=0", "do repl=1",
						fmt.Sprintf("world s0=D:-:n1:2 n0=D:S n1=D:%s", tgtRole)+func() string {
							if !strings.HasSuffix(tgtRole, "M") { // keep the world eventually good: the sentinel keeps naming n0
								return " s0=D:-:n0:2 n0=D:M"
							}
							return ""
						}(),
						fmt.Sprintf("ev %s named=%s addr=1 var=%d", kind, named, len(rq)),
						"do repl=0", "do repl=1", "refresh", "do repl=0")
				}
			}
		}
	}
	// ---- demoted-but-reachable target + stale sentinel + re-evaluation trigger (and the same address
	//      becoming master again later): the role must be re-verified on the reused connection
	triggers := []string{"refresh", "ev brk named=1 addr=0 var=0", "ev sm named=1 addr=0 var=0", "ev rbm named=1 addr=0 var=0"}
	for _, t1 := range triggers {
		for _, t2 := range triggers {
			for _, stale := range []string{"s0=D:-:n0:- s1=D:-:n1:-", "s0=D:1:n0:- s1=D:-:n1:-", "s0=D:-:n0:- s1=D:0:n1:-"} {
				run("reset mode=m init=0,1 "+stale+" n0=D:M n1=D:S", "do repl=0",
					"world n0=D:S n1=D:M", t1, "do repl=0",
					"world n0=D:M n1=D:S s0=D:-:n0:- s1=D:-:n0:-", t2, "do repl=0",
					"world n0=D:S n1=D:M s0=D:-:n0:- s1=D:-:n1:-", t1, "do repl=0")
			}
		}
	}
	rtriggers := []string{"refresh", "ev brk named=1 addr=0 var=0", "ev slv named=1 addr=2 var=0", "ev slv named=1 addr=2 var=3"}
	for _, t1 := range rtriggers {
		for _, t2 := range rtriggers {
			run("reset mode=r init=0,1 s0=D:-:n0:2 s1=D:-:n0:3 n0=D:M n2=D:S n3=D:S", "do repl=1",
				"world n2=D:M", t1, "do repl=1",
				"world n2=D:S n3=D:M s0=D:-:n0:2 s1=D:-:n0:2", t2, "do repl=1",
				"world n2=D:M n3=D:S s0=D:-:n0:2 s1=D:-:n0:3", t1, "do repl=1")
		}
	}
	// ---- a +switch-master / +reboot event delivered WHILE a refresh is parked in its ROLE check; the refresh
	//      re-confirms the old master (stale sentinel answer, old master still answers "master") or fails
	for _, kind := range []string{"sm", "rbm"} {
		for _, sents := range []string{"init=0 s0=D:-:n0:-", "init=0,1 s0=D:-:n0:- s1=D:-:n0:-", "init=0,1 s0=D:1:n0:- s1=D:-:n1:-"} {
			for _, old := range []string{"M", "MS", "S", "z", "E"} { // what the old master answers to the parked ROLE and later
				for _, named := range []string{"1", "0"} {
					run("reset mode=m "+sents+" n0=D:M n1=D:S", "do repl=0",
						"world n0=D:"+old+" n1=D:M",
						fmt.Sprintf("evdur %s named=%s addr=1", kind, named), "do repl=0",
						"world n0=D:M n1=D:M",
						fmt.Sprintf("evdur %s named=%s addr=0", kind, named), "do repl=0", "refresh", "do repl=0")
				}
			}
		}
	}
	// ---- events of a foreign master set whose name has ours as a proper prefix ("mymaster2"): must be ignored
	for _, kind := range []string{"sm", "rbm", "slv"} {
		for _, mode := range []string{"m", "b", "r"} {
			run("reset mode="+mode+" init=0 s0=D:-:n0:2 n0=D:M n1=D:M n2=D:S n3=D:S", "do repl=0",
				fmt.Sprintf("ev %s named=2 addr=1 var=0", kind), "do repl=0", "do repl=1",
				fmt.Sprintf("ev %s named=2 addr=3 var=3", kind), "do repl=1",
				fmt.Sprintf("ev %s named=1 addr=1 var=0", kind), "do repl=0", "refresh", "do repl=0")
		}
	}
	// ---- SendToReplicas mode, success paths
	for _, reps := range []string{"2", "1!,2", "2,1!"} {
		run(fmt.Sprintf("reset mode=b init=0 s0=D:1:n0:%s s1=D:-:n0:2 n0=D:M n1=D:S n2=D:S", reps), "do repl=0", "do repl=1", "refresh", "do repl=1",
			"world s0=D:-:n1:2 s1=D:-:n1:2 n0=D:S n1=D:M", "ev sm named=1 addr=1 var=0", "do repl=0", "do repl=1", "refresh", "do repl=0")
	}
	// ---- random episodes
	pickS := func(xs ...string) string { return xs[c.Rng.IntN(len(xs))] }
	for n := 0; n < c.N; n++ {
		mode := pickS("m", "m", "r", "b")
		nodeW := func(j int, good bool) string {
			if good {
				return fmt.Sprintf("n%d=D:%s", j, pickS("M", "M", "SM", "zM", "EM"))
			}
			return fmt.Sprintf("n%d=%s:%s", j, pickS("D", "D", "D", "d"), pickS(roleQs...))
		}
		var ws []string
		ns := 1 + c.Rng.IntN(3)
		var inits []string
		for i := 0; i < ns; i++ {
			inits = append(inits, strconv.Itoa(i))
		}
		good := mode == "b" // SendToReplicas: only paths on which no switch fails are compared
		for i := 0; i < 3; i++ {
			if good {
				ws = append(ws, fmt.Sprintf("s%d=D:%s:n0:2", i, pickS("-", "1", "12")))
			} else {
				ws = append(ws, fmt.Sprintf("s%d=%s:%s:%s:%s", i, pickS("D", "D", "D", "d"), pickS("-", "-", "E", "1", "12", "2"),
					pickS("n0", "n0", "n1", "E", "Z", "O", "N"), pickS("2", "2", "E", "-", "2!", "1!,2", "3")))
			}
		}
		if good {
			ws = append(ws, "n0=D:M", "n1=D:S", "n2=D:S", "n3=D:S")
		} else if mode == "r" {
			ws = append(ws, "n0=D:M", nodeW(1, false), fmt.Sprintf("n2=%s:%s", pickS("D", "D", "d"), pickS("S", "S", "MS", "zS", "M", "E")), "n3=D:S")
		} else {
			ws = append(ws, nodeW(0, false), nodeW(1, false), "n2=D:S", "n3=D:S")
		}
		run("reset mode=" + mode + " init=" + strings.Join(inits, ",") + " " + strings.Join(ws, " "))
		steps := 2 + c.Rng.IntN(5)
		for k := 0; k < steps; k++ {
			switch c.Rng.IntN(6) {
			case 0, 1:
				run("do repl=" + pickS("0", "1"))
			case 2:
				run("refresh")
			case 3:
				if good {
					run("world n0=D:M n1=D:S", "refresh")
				} else {
					run("world "+nodeW(c.Rng.IntN(2), false)+" "+fmt.Sprintf("s%d=%s:%s:%s:%s", c.Rng.IntN(3), pickS("D", "D", "d"), pickS("-", "E", "1"),
						pickS("n0", "n1", "E", "Z", "O"), pickS("2", "E", "-", "2!")), "refresh")
				}
			default:
				// events that can start refreshRetry: make every sentinel good first so that the loop ends
				tj := c.Rng.IntN(2)
				evRoles := []string{"M", "SM", "zM", "EM", "oSM"}
				if mode == "b" {
					evRoles = evRoles[:4]
				}
				run(fmt.Sprintf("world s0=D:-:n%d:2 s1=D:-:n%d:2 s2=D:-:n%d:2 n%d=D:%s n%d=D:S n2=D:S", tj, tj, tj, tj, pickS(evRoles...), 1-tj),
					fmt.Sprintf("ev %s named=%s addr=%d var=%d", pickS("sm", "sm", "rbm", "slv", "oth", "brk"), pickS("1", "1", "0", "2"), pickS2(c, tj), c.Rng.IntN(4)))
				run("do repl=0")
			}
		}
	}
}

func pickS2(c *Ctx, good int) int {
	if c.Rng.IntN(4) == 0 {
		return 1 - good // an event naming a node that is not (or not yet) master
	}
	return good
}
