package main

// Suite `route` (C21): the REAL standalone / sentinel / cluster clients, built by their own
// constructors over recording fake connections with roles; every op line is one client call
// on a fresh client, the answer is the role of the node(s) that received the command(s).
//
//	sa api=<do|stream|recv|multi|mstream|cache|mcache> nrep=N pred=0|1 sel=none|K az=0|1 mask=M cmds=i,j
//	se api=…                                           ro=0|1 pred=0|1 mask=M cmds=i,j
//	cl api=…  ro=0|1 pred=0|1 rns=none|K rs=none|K nrep0=N nrep1=N mask=M cmds=i,j
//	!sent ro=0|1 pred=0|1 need=own|all all=0|1 items=<role>:<opted>,…   (oracle: the specification)
//
// commands: 0 GET {b}0   1 SET {b}1 v   2 GET {a}2   3 GET {a}3   4 PING (keyless)
// cluster: shard 0 = slots 0..8191 ({b}=3300), shard 1 = slots 8192..16383 ({a}=15495)

import (
	"context"
	"fmt"
	"strconv"
	"strings"
	"sync/atomic"
	"time"

	"github.com/redis/rueidis"
)

func init() {
	suites["route"] = suite{
		rule:   "distinct op lines (mode x api x options x predicate mask x selector result x command list) on which the real client delivered at least one command",
		run:    runRoute,
		replay: replayRoute,
	}
}

type routeOp struct {
	mode  string
	api   string
	nrep  int // standalone
	nrep0 int // cluster shard 0
	nrep1 int
	ro    bool
	pred  bool
	sel   *int // standalone ReadNodeSelector
	rns   *int // cluster ReadNodeSelector
	rs    *int // cluster ReplicaSelector
	az    bool
	mask  int
	cmds  []int
	lft   bool  // ConnLifetime > 0: the batch entry points recover from errConnExpired by re-sending the rest
	exp   []int // exp[k]: in the k-th connection call the commands from this batch position on answer errConnExpired
}

func optInt(p *int) string {
	if p == nil {
		return "none"
	}
	return strconv.Itoa(*p)
}

func (o routeOp) line() string {
	cs := make([]string, len(o.cmds))
	for i, c := range o.cmds {
		cs[i] = strconv.Itoa(c)
	}
	tail := ""
	if o.lft {
		es := make([]string, len(o.exp))
		for i, e := range o.exp {
			es[i] = strconv.Itoa(e)
		}
		tail = " lft=1 exp=" + joinList(es, ",")
	}
	switch o.mode {
	case "sa":
		return fmt.Sprintf("sa api=%s nrep=%d pred=%s sel=%s az=%s mask=%d cmds=%s", o.api, o.nrep, b01(o.pred), optInt(o.sel), b01(o.az), o.mask, joinList(cs, ",")) + tail
	case "se":
		return fmt.Sprintf("se api=%s ro=%s pred=%s mask=%d cmds=%s", o.api, b01(o.ro), b01(o.pred), o.mask, joinList(cs, ",")) + tail
	}
	return fmt.Sprintf("cl api=%s ro=%s pred=%s rns=%s rs=%s nrep0=%d nrep1=%d mask=%d cmds=%s", o.api, b01(o.ro), b01(o.pred), optInt(o.rns), optInt(o.rs), o.nrep0, o.nrep1, o.mask, joinList(cs, ","))
}

func parseRouteOp(l string) (o routeOp, ok bool) {
	ws := strings.Fields(l)
	if len(ws) == 0 {
		return o, false
	}
	o.mode = ws[0]
	if o.mode != "sa" && o.mode != "se" && o.mode != "cl" {
		return o, false
	}
	pi := func(s string) *int {
		if s == "none" {
			return nil
		}
		n, _ := strconv.Atoi(s)
		return &n
	}
	for _, w := range ws[1:] {
		k, v, _ := strings.Cut(w, "=")
		switch k {
		case "api":
			o.api = v
		case "nrep":
			o.nrep, _ = strconv.Atoi(v)
		case "nrep0":
			o.nrep0, _ = strconv.Atoi(v)
		case "nrep1":
			o.nrep1, _ = strconv.Atoi(v)
		case "ro":
			o.ro = v == "1"
		case "pred":
			o.pred = v == "1"
		case "az":
			o.az = v == "1"
		case "sel":
			o.sel = pi(v)
		case "rns":
			o.rns = pi(v)
		case "rs":
			o.rs = pi(v)
		case "lft":
			o.lft = v == "1"
		case "exp":
			if v != "_" {
				for _, x := range strings.Split(v, ",") {
					n, _ := strconv.Atoi(x)
					o.exp = append(o.exp, n)
				}
			}
		case "mask":
			o.mask, _ = strconv.Atoi(v)
		case "cmds":
			if v != "_" {
				for _, x := range strings.Split(v, ",") {
					n, _ := strconv.Atoi(x)
					o.cmds = append(o.cmds, n)
				}
			}
		}
	}
	return o, true
}

// cmdIndex recovers the command number from what the client (or the predicate) sees
func cmdIndex(a []string) int {
	if len(a) == 0 {
		return -1
	}
	switch strings.ToUpper(a[0]) {
	case "PING":
		return 4
	case "SUBSCRIBE":
		return 4
	}
	if len(a) < 2 {
		return -1
	}
	k := a[1]
	if len(k) == 0 {
		return -1
	}
	n := int(k[len(k)-1] - '0')
	if n < 0 || n > 3 {
		return -1
	}
	return n
}

var routeKeys = []string{"{b}0", "{b}1", "{a}2", "{a}3"}

func buildCmd(b rueidis.Builder, i int, sub bool) rueidis.Completed {
	if sub {
		if i == 4 {
			return b.Subscribe().Channel("ch").Build()
		}
		return b.Ssubscribe().Channel(routeKeys[i]).Build()
	}
	switch i {
	case 1:
		return b.Set().Key(routeKeys[1]).Value("v").Build()
	case 4:
		return b.Ping().Build()
	}
	return b.Get().Key(routeKeys[i]).Build()
}

func buildCacheable(b rueidis.Builder, i int) rueidis.Cacheable {
	return b.Get().Key(routeKeys[i]).Cache()
}

// invoke performs the client call of the op; returns "panic" if the real code panicked
func invoke(c rueidis.Client, api string, idx []int) (out string) {
	defer func() {
		if r := recover(); r != nil {
			out = "panic"
		}
	}()
	ctx := context.Background()
	b := c.B()
	switch api {
	case "do":
		c.Do(ctx, buildCmd(b, idx[0], false))
	case "stream":
		s := c.DoStream(ctx, buildCmd(b, idx[0], false))
		_ = s.Error()
	case "recv":
		_ = c.Receive(ctx, buildCmd(b, idx[0], true), func(rueidis.PubSubMessage) {})
	case "cache":
		c.DoCache(ctx, buildCacheable(b, idx[0]), time.Minute)
	case "multi":
		cs := make([]rueidis.Completed, len(idx))
		for i, x := range idx {
			cs[i] = buildCmd(b, x, false)
		}
		c.DoMulti(ctx, cs...)
	case "mstream":
		cs := make([]rueidis.Completed, len(idx))
		for i, x := range idx {
			cs[i] = buildCmd(b, x, false)
		}
		s := c.DoMultiStream(ctx, cs...)
		_ = s.Error()
	case "mcache":
		cs := make([]rueidis.CacheableTTL, len(idx))
		for i, x := range idx {
			cs[i] = rueidis.CT(buildCacheable(b, x), time.Minute)
		}
		c.DoMultiCache(ctx, cs...)
	}
	return ""
}

func topoQuiet(a []string) bool {
	return isCmd(a, "CLUSTER") || isCmd(a, "SENTINEL") || isCmd(a, "ROLE") ||
		(isCmd(a, "SUBSCRIBE") && len(a) > 1 && strings.HasPrefix(a[1], "+")) ||
		(isCmd(a, "UNSUBSCRIBE") && len(a) > 1 && strings.HasPrefix(a[1], "+")) ||
		isCmd(a, "READONLY")
}

func constSel(k int) func(uint16, []rueidis.NodeInfo) int {
	return func(uint16, []rueidis.NodeInfo) int { return k }
}

type delivered struct {
	role  string // P, R<i>
	shard int
	idx   int // command number
}

// runOne executes the op on a fresh real client and returns the canonical answer and what was delivered where
func runOne(o routeOp) (ans string, items []delivered) {
	w := newWorld()
	w.quiet = topoQuiet
	var pred func(rueidis.Completed) bool
	if o.pred {
		pred = func(c rueidis.Completed) bool {
			i := cmdIndex(c.Commands())
			return i >= 0 && (o.mask>>uint(i))&1 == 1
		}
	}
	var client rueidis.Client
	var err error
	roleOf := map[string]delivered{}
	anon := false
	switch o.mode {
	case "sa":
		opt := rueidis.ClientOption{InitAddress: []string{"p:1"}, SendToReplicas: pred, EnableReplicaAZInfo: o.az, DisableCache: true}
		if o.lft {
			opt.ConnLifetime = time.Hour
		}
		roleOf["p:1"] = delivered{role: "P"}
		for i := 0; i < o.nrep; i++ {
			a := fmt.Sprintf("r%d:1", i)
			opt.Standalone.ReplicaAddress = append(opt.Standalone.ReplicaAddress, a)
			roleOf[a] = delivered{role: "R" + strconv.Itoa(i)}
		}
		if o.nrep == 0 {
			opt.Standalone.EnableRedirect = true
		}
		if o.sel != nil {
			opt.ReadNodeSelector = constSel(*o.sel)
		}
		anon = o.sel == nil && o.nrep > 1
		client, err = rueidis.VerifRoutingNewStandalone(opt, w.nodeFn())
	case "se":
		opt := rueidis.ClientOption{InitAddress: []string{"s0:26379"}, SendToReplicas: pred, ReplicaOnly: o.ro, DisableCache: true,
			Sentinel: rueidis.SentinelOption{MasterSet: "mymaster"}}
		if o.lft {
			opt.ConnLifetime = time.Hour
		}
		roleOf["m:6379"] = delivered{role: "P"}
		roleOf["r:6379"] = delivered{role: "R*"}
		w.respond = func(addr string, e *entry, i int, _ context.Context) rueidis.RedisResult {
			a := e.cmds[i]
			switch {
			case isCmd(a, "SENTINEL", "SENTINELS"):
				return res(rueidis.VerifArray())
			case isCmd(a, "SENTINEL", "GET-MASTER-ADDR-BY-NAME"):
				return res(strs("m", "6379"))
			case isCmd(a, "SENTINEL", "REPLICAS"):
				return res(rueidis.VerifArray(strs("name", "r:6379", "ip", "r", "port", "6379")))
			case isCmd(a, "ROLE"):
				if addr == "m:6379" {
					return res(strs("master"))
				}
				return res(strs("slave"))
			}
			return okResult()
		}
		client, err = rueidis.VerifRoutingNewSentinel(opt, w.nodeFn())
	case "cl":
		opt := rueidis.ClientOption{InitAddress: []string{"s0n0:7000"}, SendToReplicas: pred, ReplicaOnly: o.ro, DisableCache: true}
		if o.rns != nil {
			opt.ReadNodeSelector = constSel(*o.rns)
		}
		if o.rs != nil {
			k := *o.rs
			opt.ReplicaSelector = func(uint16, []rueidis.NodeInfo) int { return k }
		}
		anon = o.ro || (o.pred && o.rns == nil && o.rs == nil)
		nreps := []int{o.nrep0, o.nrep1}
		var shards []rueidis.RedisMessage
		for s := 0; s < 2; s++ {
			parts := []rueidis.RedisMessage{rueidis.VerifInt(int64(s * 8192)), rueidis.VerifInt(int64(s*8192 + 8191))}
			for n := 0; n <= nreps[s]; n++ {
				host := fmt.Sprintf("s%dn%d", s, n)
				parts = append(parts, rueidis.VerifArray(rueidis.VerifBlobString(host), rueidis.VerifInt(7000), rueidis.VerifBlobString("id")))
				role := "P"
				if n > 0 {
					role = "R" + strconv.Itoa(n-1)
				}
				roleOf[host+":7000"] = delivered{role: role, shard: s}
			}
			shards = append(shards, rueidis.VerifArray(parts...))
		}
		slots := rueidis.VerifArray(shards...)
		var served atomic.Bool
		w.respond = func(addr string, e *entry, i int, _ context.Context) rueidis.RedisResult {
			if isCmd(e.cmds[i], "CLUSTER", "SLOTS") {
				if served.Swap(true) { // later (lazy, delayed) refreshes change nothing
					return rueidis.NewErrorResult(fmt.Errorf("topology frozen"))
				}
				return res(slots)
			}
			return okResult()
		}
		client, err = rueidis.VerifRoutingNewCluster(opt, w.nodeFn())
	}
	if client == nil || err != nil {
		return "err:" + hx(fmt.Sprint(err)), nil
	}
	defer client.Close()
	w.take()
	if o.lft {
		w.mu.Lock()
		w.calls = 0
		w.mu.Unlock()
		inner := w.respond
		w.respond = func(addr string, e *entry, i int, ctx context.Context) rueidis.RedisResult {
			ci := cmdIndex(e.cmds[i])
			pos := -1
			for k, x := range o.cmds {
				if x == ci {
					pos = k
				}
			}
			if pos >= 0 && e.call >= 1 && e.call-1 < len(o.exp) && pos >= o.exp[e.call-1] {
				return rueidis.NewErrorResult(rueidis.VerifRoutingErrConnExpired())
			}
			if inner != nil {
				return inner(addr, e, i, ctx)
			}
			return okResult()
		}
	}
	if p := invoke(client, o.api, o.cmds); p != "" {
		return p, nil
	}
	log := w.take()
	if o.lft {
		// one item per connection call: batch position of its first command @ role of the node
		var calls []string
		for _, e := range log {
			d, known := roleOf[e.addr]
			if !known || len(e.cmds) == 0 {
				return "unknown-addr:" + e.addr, nil
			}
			r := d.role
			if (o.sel == nil && o.nrep > 1 && o.mode == "sa") && strings.HasPrefix(r, "R") {
				r = "R*"
			}
			first := -1
			for k, x := range o.cmds {
				if x == cmdIndex(e.cmds[0]) {
					first = k
				}
			}
			calls = append(calls, strconv.Itoa(first)+"@"+r)
			for _, a := range e.cmds {
				dd := d
				dd.idx = cmdIndex(a)
				items = append(items, dd)
			}
		}
		return joinList(calls, ","), items
	}
	// canonicalise: per command (in call order) the role of the node that got it
	got := map[int][]delivered{}
	for _, e := range log {
		d, known := roleOf[e.addr]
		if !known {
			return "unknown-addr:" + e.addr, nil
		}
		for _, a := range e.cmds {
			i := cmdIndex(a)
			dd := d
			dd.idx = i
			got[i] = append(got[i], dd)
			items = append(items, dd)
		}
	}
	show := func(d delivered) string {
		r := d.role
		if anon && strings.HasPrefix(r, "R") {
			r = "R*"
		}
		if o.mode == "cl" {
			return strconv.Itoa(d.shard) + ":" + r
		}
		return r
	}
	var parts []string
	used := map[int]int{}
	for _, i := range o.cmds {
		ds := got[i]
		k := used[i]
		used[i]++
		if k >= len(ds) {
			parts = append(parts, "lost")
			continue
		}
		parts = append(parts, show(ds[k]))
	}
	if len(items) != len(o.cmds) {
		parts = append(parts, fmt.Sprintf("delivered=%d", len(items)))
	}
	if o.mode != "cl" { // one node for the whole call
		all := parts[0]
		for _, p := range parts {
			if p != all {
				return "split:" + strings.Join(parts, ","), items
			}
		}
		return all, items
	}
	return strings.Join(parts, ","), items
}

func keylessSingle(o routeOp) bool {
	if o.mode != "cl" {
		return false
	}
	switch o.api {
	case "do", "stream", "recv":
		return o.cmds[0] == 4
	case "mstream":
		for _, c := range o.cmds {
			if c != 4 {
				return false
			}
		}
		return true
	}
	return false
}

func emitRoute(c *Ctx, o routeOp) {
	line := o.line()
	if keylessSingle(o) {
		// the target is the first entry of a Go map iteration: repeat to see the set of roles
		replicaHit := false
		ans := ""
		tries := 1
		if !o.ro && o.nrep0+o.nrep1 > 0 {
			tries = 32 // 2^-32 (or less) to see only primaries when replicas exist
		}
		for k := 0; k < tries; k++ {
			a, items := runOne(o)
			ans = a
			for _, d := range items {
				if d.role != "P" {
					replicaHit = true
				}
			}
			if replicaHit || a == "panic" || strings.HasPrefix(a, "err:") {
				break
			}
		}
		if ans != "panic" && !strings.HasPrefix(ans, "err:") {
			parts := make([]string, len(o.cmds))
			for i := range parts {
				parts[i] = "ANY"
			}
			ans = strings.Join(parts, ",")
		}
		c.Emit(line, ans, true)
		c.Hit("cl:keyless:" + o.api)
		opted := o.pred && (o.mask>>4)&1 == 1
		if replicaHit && !o.ro && !opted {
			c.Fail("route:cluster:keyless-unopted-reaches-replica", line,
				"cluster "+o.api+" of a keyless command (PING / SUBSCRIBE) with no SendToReplicas opt-in and no ReplicaOnly was delivered to a replica (clusterClient._pick takes the first connection of a map iteration over all nodes)")
		}
		return
	}
	ans, items := runOne(o)
	c.Emit(line, ans, len(items) > 0)
	c.Hit(o.mode + ":" + o.api)
	if ans == "panic" {
		c.Hit("panic")
	}
	if len(items) == 0 {
		return
	}
	// oracle line: judged by the specification, from what the fake nodes observed
	need := "own"
	if o.mode != "cl" && (o.api == "multi" || o.api == "mstream" || o.api == "mcache") {
		need = "all"
	}
	if o.mode == "cl" && o.api == "mstream" {
		need = "all"
	}
	all := true
	for _, i := range o.cmds {
		if !(o.pred && (o.mask>>uint(i))&1 == 1) {
			all = false
		}
	}
	var its []string
	for _, d := range items {
		r := "P"
		if d.role != "P" {
			r = "R"
			c.Hit("replica-delivery")
		}
		its = append(its, r+":"+b01(o.pred && d.idx >= 0 && (o.mask>>uint(d.idx))&1 == 1))
	}
	c.Emit(fmt.Sprintf("!sent ro=%s pred=%s need=%s all=%s items=%s", b01(o.ro), b01(o.pred), need, b01(all), strings.Join(its, ",")), "ok", false)
	// second oracle: a selector result outside the candidate list must fall back to the primary
	var sel *int
	cand := func(d delivered) int { return 0 }
	switch {
	case o.mode == "sa" && o.sel != nil:
		sel = o.sel
		n := 0
		if o.az { // s.nodes is only filled with EnableReplicaAZInfo (primary + replicas)
			n = o.nrep + 1
		}
		cand = func(delivered) int { return n }
	case o.mode == "cl" && o.rns != nil:
		sel = o.rns
		cand = func(d delivered) int { return []int{o.nrep0, o.nrep1}[d.shard] + 1 } // primary + replicas of the shard
	case o.mode == "cl" && o.rs != nil:
		sel = o.rs
		cand = func(d delivered) int { return []int{o.nrep0, o.nrep1}[d.shard] } // the shard's replicas
	}
	if sel != nil && o.pred && o.api != "cache" && o.api != "mcache" || (sel != nil && o.pred && o.mode == "cl") {
		var ss []string
		bad := false
		for _, d := range items {
			if !(d.idx >= 0 && (o.mask>>uint(d.idx))&1 == 1) {
				continue // the selector is only consulted for opted-in commands
			}
			r := "P"
			if d.role != "P" {
				r = "R"
			}
			n := cand(d)
			ss = append(ss, fmt.Sprintf("%s:%d", r, n))
			if (*sel < 0 || *sel >= n) && r != "P" {
				bad = true
			}
		}
		if len(ss) > 0 {
			c.Emit(fmt.Sprintf("!sel k=%d items=%s", *sel, strings.Join(ss, ",")), "ok", false)
			if bad {
				c.Fail("route:selector-out-of-range-not-primary", line,
					fmt.Sprintf("selector result %d is outside the candidate list but the command reached a replica (%s)", *sel, strings.Join(ss, ",")))
			}
		}
	}
}

func replayRoute(c *Ctx, lines []string) {
	for _, l := range lines {
		if strings.HasPrefix(l, "!") {
			continue // re-derived from the op line before it
		}
		if o, ok := parseRouteOp(l); ok {
			emitRoute(c, o)
		}
	}
}

func ip(n int) *int { return &n }

func runRoute(c *Ctx) {
	single := []string{"do", "stream", "recv", "cache"}
	multi := []string{"multi", "mstream", "mcache"}
	cacheable := func(cs []int) bool {
		for _, x := range cs {
			if x == 1 || x == 4 {
				return false
			}
		}
		return true
	}
	batches := [][]int{{0}, {1}, {0, 1}, {1, 0}, {0, 2}, {0, 1, 2}, {0, 1, 2, 3}, {2, 3}, {0, 0}, {0, 3}}
	saMasks := []int{0, 1, 3, 5, 7, 15, 14}
	if c.Tier != "thorough" {
		batches = [][]int{{0}, {0, 1}, {1, 0}, {0, 1, 2}, {0, 1, 2, 3}, {0, 0}}
		saMasks = []int{0, 1, 3, 7, 15}
	}
	// ---- standalone: exhaustive over replicas 0..3, selector results -2..n+2, predicate masks
	for nrep := 0; nrep <= 3; nrep++ {
		for _, pred := range []bool{true, false} {
			if nrep > 0 && !pred {
				continue // NewClient rejects replicas without SendToReplicas
			}
			sels := []*int{nil}
			for k := -2; k <= nrep+2; k++ {
				sels = append(sels, ip(k))
			}
			for _, sel := range sels {
				for _, az := range []bool{false, true} {
					for _, api := range single {
						for _, ci := range []int{0, 1} {
							if api == "cache" && ci == 1 {
								continue
							}
							for _, mask := range []int{0, 1, 2, 3} {
								emitRoute(c, routeOp{mode: "sa", api: api, nrep: nrep, pred: pred, sel: sel, az: az, mask: mask, cmds: []int{ci}})
							}
						}
					}
					for _, api := range multi {
						for _, bt := range batches {
							if api == "mcache" && !cacheable(bt) {
								continue
							}
							for _, mask := range saMasks {
								emitRoute(c, routeOp{mode: "sa", api: api, nrep: nrep, pred: pred, sel: sel, az: az, mask: mask, cmds: bt})
							}
						}
					}
				}
			}
		}
	}
	// ---- sentinel: exhaustive over the option combinations the constructor accepts
	for _, cfg := range [][2]bool{{false, false}, {true, false}, {false, true}} {
		for _, api := range append(append([]string{}, single...), multi...) {
			bts := [][]int{{0}, {1}}
			if api == "multi" || api == "mstream" || api == "mcache" {
				bts = batches
			}
			for _, bt := range bts {
				if (api == "cache" || api == "mcache") && !cacheable(bt) {
					continue
				}
				for mask := 0; mask < 16; mask++ {
					emitRoute(c, routeOp{mode: "se", api: api, ro: cfg[0], pred: cfg[1], mask: mask, cmds: bt})
				}
			}
		}
	}
	// ---- ConnLifetime recovery inside a batch: the primary / replica connection expires in the middle
	lbatches := [][]int{{1, 0, 2}, {0, 1}, {1, 0}, {0, 2, 3}, {1, 2, 3}, {0, 1, 2, 3}, {2}}
	exps := [][]int{{}, {0}, {1}, {2}, {1, 2}, {1, 1}, {0, 2}, {3}, {1, 2, 3}}
	for _, api := range []string{"multi", "mcache"} {
		for _, bt := range lbatches {
			if api == "mcache" && !cacheable(bt) {
				continue
			}
			for _, ex := range exps {
				for _, mask := range []int{0, 13, 15, 5, 12, 1} {
					for _, cfg := range [][2]bool{{false, true}, {true, false}, {false, false}} {
						if !cfg[1] && mask != 0 {
							continue
						}
						emitRoute(c, routeOp{mode: "se", api: api, ro: cfg[0], pred: cfg[1], mask: mask, cmds: bt, lft: true, exp: ex})
					}
					for _, nrep := range []int{1, 2} {
						emitRoute(c, routeOp{mode: "sa", api: api, nrep: nrep, pred: true, mask: mask, cmds: bt, lft: true, exp: ex})
					}
				}
			}
		}
	}
	// ---- cluster
	type ccfg struct {
		ro, pred bool
		rns, rs  *int
	}
	var cfgs []ccfg
	cfgs = append(cfgs, ccfg{}, ccfg{ro: true}, ccfg{pred: true})
	for k := -2; k <= 4; k++ {
		cfgs = append(cfgs, ccfg{pred: true, rns: ip(k)}, ccfg{pred: true, rs: ip(k)})
	}
	cbatches := [][]int{{0}, {2}, {0, 1}, {0, 2}, {1, 2, 3}, {0, 1, 2, 3}, {4}, {0, 4}, {4, 1}, {0, 4, 1}, {4, 4}, {0, 2, 4}}
	nreps := [][2]int{{0, 0}, {1, 2}, {2, 1}, {3, 0}}
	if c.Tier != "thorough" {
		cbatches = [][]int{{0}, {0, 1}, {0, 2}, {0, 1, 2, 3}, {4}, {0, 4}, {0, 4, 1}, {0, 2, 4}}
	}
	if c.Tier == "thorough" {
		nreps = nil
		for a := 0; a <= 3; a++ {
			for b := 0; b <= 3; b++ {
				nreps = append(nreps, [2]int{a, b})
			}
		}
	}
	for _, cf := range cfgs {
		for _, nr := range nreps {
			for _, api := range single {
				for _, ci := range []int{0, 1, 2, 4} {
					if api == "cache" && (ci == 1 || ci == 4) {
						continue
					}
					masks := []int{0, 1 << uint(ci)}
					for _, mask := range masks {
						if !cf.pred && mask != 0 {
							continue
						}
						emitRoute(c, routeOp{mode: "cl", api: api, ro: cf.ro, pred: cf.pred, rns: cf.rns, rs: cf.rs, nrep0: nr[0], nrep1: nr[1], mask: mask, cmds: []int{ci}})
					}
				}
			}
			for _, api := range multi {
				for _, bt := range cbatches {
					if api == "mcache" && !cacheable(bt) {
						continue
					}
					masks := []int{0, 31, 5, 10, 17}
					if c.Tier != "thorough" {
						masks = []int{0, 31, 5, 18}
					}
					if !cf.pred {
						masks = []int{0}
					}
					for _, mask := range masks {
						emitRoute(c, routeOp{mode: "cl", api: api, ro: cf.ro, pred: cf.pred, rns: cf.rns, rs: cf.rs, nrep0: nr[0], nrep1: nr[1], mask: mask, cmds: bt})
					}
				}
			}
		}
	}
	// ---- random configurations
	for n := 0; n < c.N; n++ {
		var o routeOp
		switch c.Rng.IntN(3) {
		case 0:
			o.mode = "sa"
			o.nrep = c.Rng.IntN(4)
			o.pred = o.nrep > 0 || c.Rng.IntN(2) == 0
			if c.Rng.IntN(3) > 0 {
				o.sel = ip(c.Rng.IntN(o.nrep+5) - 2)
			}
			o.az = c.Rng.IntN(2) == 0
		case 1:
			o.mode = "se"
			switch c.Rng.IntN(3) {
			case 0:
				o.ro = true
			case 1:
				o.pred = true
			}
		default:
			o.mode = "cl"
			o.nrep0, o.nrep1 = c.Rng.IntN(4), c.Rng.IntN(4)
			switch c.Rng.IntN(4) {
			case 0:
				o.ro = true
			case 1:
			default:
				o.pred = true
				switch c.Rng.IntN(3) {
				case 0:
					o.rns = ip(c.Rng.IntN(7) - 2)
				case 1:
					o.rs = ip(c.Rng.IntN(7) - 2)
				}
			}
		}
		apis := append(append([]string{}, single...), multi...)
		o.api = apis[c.Rng.IntN(len(apis))]
		o.mask = c.Rng.IntN(32)
		if !o.pred {
			o.mask = 0
		}
		ncmd := 1
		if o.api == "multi" || o.api == "mstream" || o.api == "mcache" {
			ncmd = 1 + c.Rng.IntN(4)
		}
		pool := []int{0, 1, 2, 3, 4}
		if o.mode != "cl" {
			pool = []int{0, 1, 2, 3}
		}
		if o.api == "cache" || o.api == "mcache" {
			pool = []int{0, 2, 3}
		}
		for i := 0; i < ncmd; i++ {
			o.cmds = append(o.cmds, pool[c.Rng.IntN(len(pool))])
		}
		emitRoute(c, o)
	}
}
