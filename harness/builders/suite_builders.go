package main

// Suites bflags (C32) and bargv (C33): drive the REAL generated builders by reflection
// over cmds.Builder — walk method chains from cmds.NewBuilder(InitSlot|NoSlot), generate
// arguments per parameter type, stop at Build()/Cache(), recover panics — and report
// argv (Completed.Commands()), Slot(), the raw flag word and every Is…() predicate.
// The Lean driver Rv/Drv/Builder.lean answers the same op lines from the regenerated
// tables through the interpreter Rv.Model.Builder.

import (
	"fmt"
	"math"
	"reflect"
	"sort"
	"strconv"
	"strings"
	"time"

	"github.com/redis/rueidis/internal/cmds"
)

var (
	tCompleted = reflect.TypeOf(cmds.Completed{})
	tCacheable = reflect.TypeOf(cmds.Cacheable{})
	tBuilder   = reflect.TypeOf(cmds.Builder{})
	tDuration  = reflect.TypeOf(time.Duration(0))
	tTime      = reflect.TypeOf(time.Time{})
)

// commands the builders mark read-only although they write (mirror of Rv.Bld.knownWriters);
// each is reported through c.Fail with its own stable key instead of an oracle line
var knownNotRead = map[string]bool{"AI.MODELEXECUTE": true}

type bEdge struct {
	from  reflect.Type
	m     reflect.Method
	to    reflect.Type // nil for finals
	final string       // "Build" | "Cache" | ""
}

type bGraph struct {
	roots    []reflect.Method          // methods of cmds.Builder that start a generated command
	skipped  []string                  // Builder methods that are not generated root constructors
	edges    map[reflect.Type][]*bEdge // all methods per type, in reflect (= name) order
	types    []reflect.Type
	rootOf   map[reflect.Type]reflect.Method
	prefix   map[reflect.Type][]*bEdge // shortest path root type -> type
	toFinal  map[reflect.Type]*bEdge   // first edge of a shortest completion (any final)
	toCache  map[reflect.Type]*bEdge   // first edge of a shortest completion ending in Cache
	nMethods int
	nBuilds  int
	nCaches  int
}

func isIncomplete(t reflect.Type) bool {
	return t.Kind() == reflect.Struct && t.PkgPath() == tBuilder.PkgPath() && t != tCompleted && t != tCacheable &&
		t.NumField() == 3 && t.Field(0).Name == "cs" && t.Field(1).Name == "cf" && t.Field(2).Name == "ks"
}

func buildGraph() *bGraph {
	g := &bGraph{edges: map[reflect.Type][]*bEdge{}, rootOf: map[reflect.Type]reflect.Method{},
		prefix: map[reflect.Type][]*bEdge{}, toFinal: map[reflect.Type]*bEdge{}, toCache: map[reflect.Type]*bEdge{}}
	for i := 0; i < tBuilder.NumMethod(); i++ {
		m := tBuilder.Method(i)
		if m.Type.NumIn() == 1 && m.Type.NumOut() == 1 && isIncomplete(m.Type.Out(0)) && m.Type.Out(0).Name() == m.Name {
			g.roots = append(g.roots, m)
		} else {
			g.skipped = append(g.skipped, m.Name)
		}
	}
	var visit func(t reflect.Type, root reflect.Method)
	visit = func(t reflect.Type, root reflect.Method) {
		if _, ok := g.edges[t]; ok {
			return
		}
		g.edges[t] = nil
		g.types = append(g.types, t)
		g.rootOf[t] = root
		for i := 0; i < t.NumMethod(); i++ {
			m := t.Method(i)
			if m.Type.NumOut() != 1 {
				panic("method with " + fmt.Sprint(m.Type.NumOut()) + " results: " + t.Name() + "." + m.Name)
			}
			out := m.Type.Out(0)
			e := &bEdge{from: t, m: m}
			handwritten := false
			for k := 1; k < m.Type.NumIn(); k++ {
				// hand-written iterator variants (internal/cmds/iter.go) take a func; they are not generated code
				handwritten = handwritten || m.Type.In(k).Kind() == reflect.Func
			}
			if handwritten {
				g.skipped = append(g.skipped, t.Name()+"."+m.Name)
				continue
			}
			switch {
			case out == tCompleted && m.Name == "Build" && m.Type.NumIn() == 1:
				e.final = "Build"
				g.nBuilds++
			case out == tCacheable && m.Name == "Cache" && m.Type.NumIn() == 1:
				e.final = "Cache"
				g.nCaches++
			case isIncomplete(out):
				e.to = out
				g.nMethods++
			default:
				panic("unexpected method shape: " + t.Name() + "." + m.Name + " " + m.Type.String())
			}
			g.edges[t] = append(g.edges[t], e)
		}
		for _, e := range g.edges[t] {
			if e.to != nil {
				visit(e.to, root)
			}
		}
	}
	for _, r := range g.roots {
		visit(r.Type.Out(0), r)
	}
	// shortest prefixes (BFS per root)
	for _, r := range g.roots {
		rt := r.Type.Out(0)
		g.prefix[rt] = []*bEdge{}
		queue := []reflect.Type{rt}
		for len(queue) > 0 {
			t := queue[0]
			queue = queue[1:]
			for _, e := range g.edges[t] {
				if e.to == nil {
					continue
				}
				if _, ok := g.prefix[e.to]; !ok {
					g.prefix[e.to] = append(append([]*bEdge{}, g.prefix[t]...), e)
					queue = append(queue, e.to)
				}
			}
		}
	}
	// shortest completions (fixpoint over distances)
	relax := func(dst map[reflect.Type]*bEdge, want func(e *bEdge) bool) {
		dist := map[reflect.Type]int{}
		for changed := true; changed; {
			changed = false
			for _, t := range g.types {
				for _, e := range g.edges[t] {
					d := -1
					if e.to == nil {
						if want(e) {
							d = 1
						}
					} else if dd, ok := dist[e.to]; ok && e.to != t {
						d = dd + 1
					}
					if d > 0 {
						if old, ok := dist[t]; !ok || d < old {
							dist[t], dst[t] = d, e
							changed = true
						}
					}
				}
			}
		}
	}
	relax(g.toFinal, func(e *bEdge) bool { return true })
	relax(g.toCache, func(e *bEdge) bool { return e.final == "Cache" })
	return g
}

// ---------------------------------------------------------------- argument generation

type argGen struct {
	c      *Ctx
	tagged bool // strings share one hash tag (no cross-slot panic)
}

func (a *argGen) str() string {
	r := a.c.Rng
	if a.tagged {
		switch r.IntN(6) {
		case 0:
			return "{t}"
		case 1:
			return "{t}" + string(rune('a'+r.IntN(26)))
		default:
			n := r.IntN(5)
			b := make([]byte, n)
			for i := range b {
				b[i] = byte('a' + r.IntN(26))
			}
			return "{t}" + string(b)
		}
	}
	switch r.IntN(10) {
	case 0:
		return ""
	case 1:
		b := make([]byte, 1+r.IntN(4))
		for i := range b {
			b[i] = byte(r.IntN(256))
		}
		return string(b)
	case 2:
		return "BLOCK"
	default:
		n := 1 + r.IntN(6)
		b := make([]byte, n)
		for i := range b {
			b[i] = byte('a' + r.IntN(26))
		}
		return string(b)
	}
}

func (a *argGen) i64() int64 {
	r := a.c.Rng
	switch r.IntN(10) {
	case 0:
		return 0
	case 1:
		return -1
	case 2:
		return math.MaxInt64
	case 3:
		return math.MinInt64
	case 4:
		return int64(r.IntN(100))
	case 5:
		return -int64(r.IntN(100000))
	case 6:
		return int64(math.Pow10(r.IntN(19)))
	default:
		return int64(r.Uint64())
	}
}

func (a *argGen) u64() uint64 {
	r := a.c.Rng
	switch r.IntN(6) {
	case 0:
		return 0
	case 1:
		return math.MaxUint64
	case 2:
		return uint64(r.IntN(1000))
	case 3:
		return 1 << 63
	default:
		return r.Uint64()
	}
}

// floats whose exact decimal expansion is short (the class the model formats, see
// Rv/Model/Builder.lean), plus NaN/±Inf/±0
func (a *argGen) f64(narrow bool) float64 {
	r := a.c.Rng
	switch r.IntN(12) {
	case 0:
		return 0
	case 1:
		return math.Copysign(0, -1)
	case 2:
		return math.NaN()
	case 3:
		return math.Inf(1)
	case 4:
		return math.Inf(-1)
	}
	m := float64(r.IntN(1 << 20))
	e := r.IntN(17) - 8
	if narrow {
		m = float64(r.IntN(1 << 12))
	}
	v := math.Ldexp(m, e)
	if r.IntN(2) == 0 {
		v = -v
	}
	return v
}

func (a *argGen) dur() time.Duration {
	r := a.c.Rng
	switch r.IntN(10) {
	case 0:
		return 0
	case 1:
		return time.Second
	case 2:
		return 1500 * time.Millisecond
	case 3:
		return -1500 * time.Millisecond
	case 4:
		return 999999 * time.Nanosecond
	case 5:
		return time.Duration(math.MaxInt64)
	case 6:
		return time.Duration(math.MinInt64)
	case 7:
		return time.Duration(r.IntN(100000)) * time.Millisecond
	default:
		return time.Duration(int64(r.Uint64()))
	}
}

func hex16(u uint64) string { return fmt.Sprintf("%016x", u) }

// one argument word per parameter of e.m (receiver excluded)
func (a *argGen) words(e *bEdge) []string {
	mt := e.m.Type
	var ws []string
	for i := 1; i < mt.NumIn(); i++ {
		pt := mt.In(i)
		variadicLike := pt.Kind() == reflect.Slice
		et := pt
		if variadicLike {
			et = pt.Elem()
		}
		n := 1
		if variadicLike {
			n = a.c.Rng.IntN(4)
		}
		var parts []string
		var tag string
		for k := 0; k < n; k++ {
			switch {
			case et == tDuration:
				tag = "d:"
				parts = append(parts, hex16(uint64(a.dur())))
			case et == tTime:
				tag = "t:"
				sec := int64(a.c.Rng.Uint64()>>23) - (1 << 40)
				if a.c.Rng.IntN(8) == 0 {
					sec = int64(a.c.Rng.IntN(3)) - 1
				}
				nsec := a.c.Rng.IntN(1000000000)
				parts = append(parts, hex16(uint64(sec))+":"+fmt.Sprintf("%08x", nsec))
			case et.Kind() == reflect.String:
				tag = "s:"
				parts = append(parts, hx(a.str()))
			case et.Kind() == reflect.Int64:
				tag = "i:"
				parts = append(parts, hex16(uint64(a.i64())))
			case et.Kind() == reflect.Uint64:
				tag = "u:"
				parts = append(parts, hex16(a.u64()))
			case et.Kind() == reflect.Float64:
				tag = "f:"
				parts = append(parts, hex16(math.Float64bits(a.f64(false))))
			case et.Kind() == reflect.Float32:
				tag = "f:"
				parts = append(parts, hex16(math.Float64bits(float64(float32(a.f64(true))))))
			default:
				panic("unsupported parameter type " + pt.String() + " of " + e.from.Name() + "." + e.m.Name)
			}
		}
		if variadicLike {
			switch {
			case et.Kind() == reflect.String:
				tag = "v:"
			case et.Kind() == reflect.Int64 && et != tDuration:
				tag = "I:"
			case et.Kind() == reflect.Uint64:
				tag = "U:"
			case et.Kind() == reflect.Float64, et.Kind() == reflect.Float32:
				tag = "F:"
			default:
				panic("unsupported variadic parameter type " + pt.String())
			}
			ws = append(ws, tag+strings.Join(parts, ","))
		} else {
			ws = append(ws, tag+parts[0])
		}
	}
	return ws
}

// ---------------------------------------------------------------- executing an op line on the real code

func unhex16(s string) uint64 {
	u, err := strconv.ParseUint(s, 16, 64)
	if err != nil {
		panic("bad hex word " + s)
	}
	return u
}

func splitComma(s string) []string {
	if s == "" {
		return nil
	}
	return strings.Split(s, ",")
}

// decodeArgs turns the argument words of one call into reflect values for method m
func decodeArgs(m reflect.Method, words []string) []reflect.Value {
	mt := m.Type
	if len(words) != mt.NumIn()-1 {
		panic(fmt.Sprintf("%s: %d argument words for %d parameters", m.Name, len(words), mt.NumIn()-1))
	}
	var out []reflect.Value
	for i, w := range words {
		pt := mt.In(i + 1)
		tag, body := w[:2], w[2:]
		scalar := func(et reflect.Type, b string) reflect.Value {
			v := reflect.New(et).Elem()
			switch {
			case et == tTime:
				p := strings.Split(b, ":")
				v.Set(reflect.ValueOf(time.Unix(int64(unhex16(p[0])), int64(unhex16(p[1])))))
			case et.Kind() == reflect.String:
				v.SetString(unhx(b))
			case et.Kind() == reflect.Int64: // includes time.Duration
				v.SetInt(int64(unhex16(b)))
			case et.Kind() == reflect.Uint64:
				v.SetUint(unhex16(b))
			case et.Kind() == reflect.Float64, et.Kind() == reflect.Float32:
				v.SetFloat(math.Float64frombits(unhex16(b)))
			default:
				panic("unsupported parameter type " + et.String())
			}
			return v
		}
		if pt.Kind() == reflect.Slice {
			if !strings.ContainsAny(tag[:1], "vIUF") {
				panic("scalar word for slice parameter: " + w)
			}
			parts := splitComma(body)
			sl := reflect.MakeSlice(pt, 0, len(parts))
			for _, p := range parts {
				sl = reflect.Append(sl, scalar(pt.Elem(), p))
			}
			if mt.IsVariadic() && i == len(words)-1 {
				for k := 0; k < sl.Len(); k++ {
					out = append(out, sl.Index(k))
				}
			} else {
				out = append(out, sl)
			}
		} else {
			if !strings.ContainsAny(tag[:1], "siufdt") {
				panic("slice word for scalar parameter: " + w)
			}
			out = append(out, scalar(pt, body))
		}
	}
	return out
}

func flagBits(c cmds.Completed) string {
	b := func(x bool) byte {
		if x {
			return '1'
		}
		return '0'
	}
	cc := cmds.Cacheable(c)
	return string([]byte{b(c.IsReadOnly()), b(c.IsBlock()), b(c.NoReply()), b(c.IsUnsub()), b(c.IsRetryable()),
		b(c.IsPipe()), b(cc.IsMGet()), b(c.IsOptIn()), b(cmds.IsStaticTTL(c))})
}

// methods that take a time.Duration / time.Time and must send it in the unit of their option
var optionToken = map[string]string{"Ex": "EX", "Px": "PX", "Exat": "EXAT", "Pxat": "PXAT"}

func argvLen(v reflect.Value) int { return v.FieldByName("cs").Elem().FieldByName("s").Len() }

// expectWords: how a string / integer argument must appear in argv, formatted independently of strconv.Format*
func expectWords(v reflect.Value) []string {
	switch {
	case v.Type() == tDuration || v.Type() == tTime:
		return nil // judged by the !opt oracle line
	case v.Kind() == reflect.String:
		return []string{v.String()}
	case v.Kind() == reflect.Int64:
		return []string{fmt.Sprintf("%d", v.Int())}
	case v.Kind() == reflect.Uint64:
		return []string{fmt.Sprintf("%d", v.Uint())}
	case v.Kind() == reflect.Slice:
		var out []string
		for i := 0; i < v.Len(); i++ {
			out = append(out, expectWords(v.Index(i))...)
		}
		return out
	}
	return nil // floats: strconv.FormatFloat is trusted
}

func isSubsequence(need, have []string) bool {
	i := 0
	for _, h := range have {
		if i < len(need) && need[i] == h {
			i++
		}
	}
	return i == len(need)
}

type built struct {
	ok      bool
	ty      string
	argv    []string
	ks      uint16
	cf      uint16
	fl      string
	cache   bool
	blockOp bool        // the path called a method named Block
	expect  []string    // words every argv must contain, in this order (string / integer arguments as passed)
	opts    [][3]string // (option token, argument word, argv word that followed the token) of Ex/Px/Exat/Pxat calls
	cmdName string
	answer  string
}

// execPath runs `path <init|noslot> Root (.M args…)* =Final` on the real builders
func execPath(g *bGraph, line string) (res built) {
	w := strings.Fields(line)
	if len(w) < 4 || w[0] != "path" {
		panic("bad path op: " + line)
	}
	init := cmds.InitSlot
	if w[1] == "noslot" {
		init = cmds.NoSlot
	}
	defer func() {
		if r := recover(); r != nil {
			res = built{answer: "panic"}
			if s, ok := r.(string); ok && s != "multi key command with different key slots are not allowed" {
				res.answer = "panic:" + s
			}
		}
	}()
	bv := reflect.ValueOf(cmds.NewBuilder(init))
	rm := bv.MethodByName(w[2])
	if !rm.IsValid() {
		return built{answer: "stuck:no-root"}
	}
	cur := rm.Call(nil)[0]
	i := 3
	for i < len(w) {
		tok := w[i]
		if strings.HasPrefix(tok, "=") {
			if i != len(w)-1 {
				panic("words after final: " + line)
			}
			m, ok := cur.Type().MethodByName(tok[1:])
			if !ok || m.Type.NumIn() != 1 {
				return built{answer: "stuck:no-final"}
			}
			out := m.Func.Call([]reflect.Value{cur})[0]
			var cc cmds.Completed
			switch v := out.Interface().(type) {
			case cmds.Completed:
				cc = v
			case cmds.Cacheable:
				cc = cmds.Completed(v)
				res.cache = true
			default:
				return built{answer: "stuck:no-final"}
			}
			res.ok = true
			res.ty = cur.Type().Name()
			res.argv = append([]string{}, cc.Commands()...)
			res.ks = cc.Slot()
			res.cf = uint16(reflect.ValueOf(cc).FieldByName("cf").Uint())
			res.fl = flagBits(cc)
			hexes := make([]string, len(res.argv))
			for k, a := range res.argv {
				hexes[k] = hx(a)
			}
			res.answer = fmt.Sprintf("ok ty=%s argv=%s ks=%d cf=%d fl=%s", res.ty, strings.Join(hexes, ","), res.ks, res.cf, res.fl)
			cmds.PutCompleted(cc)
			return res
		}
		if !strings.HasPrefix(tok, ".") {
			panic("bad word in path op: " + tok)
		}
		j := i + 1
		for j < len(w) && !strings.HasPrefix(w[j], ".") && !strings.HasPrefix(w[j], "=") {
			j++
		}
		m, ok := cur.Type().MethodByName(tok[1:])
		if !ok {
			return built{answer: "stuck:no-method"}
		}
		if tok[1:] == "Block" {
			res.blockOp = true
		}
		args := append([]reflect.Value{cur}, decodeArgs(m, w[i+1:j])...)
		for _, av := range args[1:] {
			res.expect = append(res.expect, expectWords(av)...)
		}
		before := argvLen(cur)
		cur = m.Func.Call(args)[0]
		if tok := optionToken[m.Name]; tok != "" && j == i+2 && (w[i+1][:2] == "d:" || w[i+1][:2] == "t:") {
			sv := cur.FieldByName("cs").Elem().FieldByName("s")
			if sv.Len() == before+2 && sv.Index(before).String() == tok {
				res.opts = append(res.opts, [3]string{tok, w[i+1], sv.Index(before + 1).String()})
			} else {
				res.opts = append(res.opts, [3]string{tok, w[i+1], "<option token not appended>"})
			}
		}
		i = j
	}
	panic("path op without final: " + line)
}

// ---------------------------------------------------------------- op generation

func (g *bGraph) pathLine(a *argGen, init string, root reflect.Method, edges []*bEdge) string {
	var sb strings.Builder
	sb.WriteString("path " + init + " " + root.Name)
	for _, e := range edges {
		if e.final != "" {
			sb.WriteString(" =" + e.final)
			return sb.String()
		}
		sb.WriteString(" ." + e.m.Name)
		for _, w := range a.words(e) {
			sb.WriteString(" " + w)
		}
	}
	panic("path without final")
}

// completion appends a shortest route from t to a final (Cache if wantCache and possible)
func (g *bGraph) completion(t reflect.Type, wantCache bool) ([]*bEdge, bool) {
	var out []*bEdge
	tab := g.toFinal
	if wantCache {
		if _, ok := g.toCache[t]; ok {
			tab = g.toCache
		}
	}
	for steps := 0; steps < 200; steps++ {
		e, ok := tab[t]
		if !ok {
			return nil, false
		}
		out = append(out, e)
		if e.to == nil {
			return out, true
		}
		t = e.to
	}
	return nil, false
}

type bState struct {
	g       *bGraph
	reached map[*bEdge]bool
}

func cmdNameOf(argv []string, root string) string {
	// the root type name is the concatenation of the capitalised tokens with separators dropped
	// (JSON.GET -> JsonGet, CLIENT NO-EVICT -> ClientNoEvict): take tokens while they spell it
	norm := func(s string) string {
		return strings.ToLower(strings.NewReplacer(".", "", "-", "", "_", "", " ", "").Replace(s))
	}
	want := norm(root)
	acc := ""
	for i, a := range argv {
		acc += norm(a)
		if acc == want {
			return strings.Join(argv[:i+1], " ")
		}
		if !strings.HasPrefix(want, acc) {
			break
		}
	}
	return ""
}

// emitPath runs one path op on the real code, emits it, and (for C32) the judge line
func (st *bState) emitPath(c *Ctx, line string, judge bool, edges []*bEdge) (built bool) {
	res := execPath(st.g, line)
	nontrivial := res.ok && len(res.argv) > 1
	c.Emit(line, res.answer, nontrivial)
	switch {
	case res.ok:
		c.Hit("built")
		for _, e := range edges {
			st.reached[e] = true
		}
	case res.answer == "panic":
		c.Hit("panic:cross-slot")
	default:
		c.Hit("other:" + strings.SplitN(res.answer, ":", 2)[0])
	}
	if res.ok {
		// C33 oracle judged here: every string / integer argument, formatted independently, occurs in
		// argv in call order (nothing dropped, reordered or reformatted)
		if !isSubsequence(res.expect, res.argv) {
			c.Fail("C33:arguments-not-in-call-order:"+strings.Fields(line)[2], line,
				fmt.Sprintf("argv %q does not contain the caller's arguments %q in call order", res.argv, res.expect))
		}
		// C33 oracle lines: the word after EX/PX/EXAT/PXAT against the specification of the unit
		for _, o := range res.opts {
			c.Emit("!opt "+o[0]+" "+o[1]+" :: "+line, hx(o[2]), true)
			c.Hit("opt:" + o[0])
		}
	}
	if !judge || !res.ok {
		return res.ok
	}
	w := strings.Fields(line)
	name := cmdNameOf(res.argv, w[2])
	if name == "" {
		c.Fail("C32:root-tokens-do-not-spell-type:"+w[2], line, "argv "+strings.Join(res.argv, " ")+" does not start with the tokens of "+w[2])
		return true
	}
	b01 := func(x bool) string {
		if x {
			return "1"
		}
		return "0"
	}
	// the judge line carries the path it was derived from (after "::"), so that a replay file
	// holding only this line re-runs the real builders
	jl := fmt.Sprintf("judge %s %s %s %d :: %s", hx(name), b01(res.blockOp), b01(res.cache), res.cf, line)
	if knownNotRead[name] && res.fl[0] == '1' {
		// known finding: a stable witness key on the path line (so that the replay file holds the
		// path) + a model line on which the driver must reproduce the specification's verdict
		c.Fail("C32:readonly-not-read:"+name, line,
			name+" is built with IsReadOnly()=true (auto-retried, replica-eligible"+map[bool]string{true: ", offered through Cache()", false: ""}[res.cache]+") although it writes")
		c.Emit(jl, "bad:readonly-not-read:"+name, true)
		c.Hit("finding:" + name)
		return true
	}
	// oracle line: the specification judges the flags the real code produced
	c.Emit("!"+jl, "ok", true)
	return true
}

func (st *bState) tablesLine(c *Ctx) {
	g := st.g
	c.Emit("tables", fmt.Sprintf("roots=%d methods=%d builds=%d caches=%d badnames=0", len(g.roots), g.nMethods, g.nBuilds, g.nCaches), true)
}

func (st *bState) coverage(c *Ctx) {
	total, hit := 0, 0
	var missing []string
	for _, t := range st.g.types {
		for _, e := range st.g.edges[t] {
			total++
			if st.reached[e] {
				hit++
			} else if len(missing) < 5 {
				missing = append(missing, t.Name()+"."+e.m.Name)
			}
		}
	}
	c.Dist["methods_total(incl. finals)"] = total
	c.Dist["methods_reached"] = hit
	c.Dist["builder_methods_skipped:"+strings.Join(st.g.skipped, ",")] = len(st.g.skipped)
	if len(missing) > 0 {
		c.Dist["not_reached_e.g.:"+strings.Join(missing, ",")] = total - hit
	}
}

// coverPaths: for every edge of the graph one complete path through it
func (st *bState) coverPaths(c *Ctx, judge bool, only func(e *bEdge) bool, variants int) {
	g := st.g
	types := append([]reflect.Type{}, g.types...)
	sort.Slice(types, func(i, j int) bool { return types[i].Name() < types[j].Name() })
	for _, t := range types {
		pre, ok := g.prefix[t]
		if !ok {
			continue
		}
		for _, e := range g.edges[t] {
			if only != nil && !only(e) {
				continue
			}
			edges := append(append([]*bEdge{}, pre...), e)
			if e.to != nil {
				comp, ok := g.completion(e.to, false)
				if !ok {
					c.Hit("no-completion")
					continue
				}
				edges = append(edges, comp...)
			}
			for v := 0; v < variants; v++ {
				// variants: tagged/init, untagged/init, tagged/noslot, untagged/noslot; a single
				// variant is drawn at random (mostly tagged strings on a cluster builder)
				k := v
				if variants == 1 {
					k = []int{0, 0, 0, 1, 2, 3}[c.Rng.IntN(6)]
				}
				a := &argGen{c: c, tagged: k%2 == 0}
				init := "init"
				if k%4 >= 2 {
					init = "noslot"
				}
				if !st.emitPath(c, g.pathLine(a, init, g.rootOf[t], edges), judge, edges) && !st.reached[e] {
					// the random variant panicked (cross-slot keys): reach the method with tagged strings
					st.emitPath(c, g.pathLine(&argGen{c: c, tagged: true}, "init", g.rootOf[t], edges), judge, edges)
				}
			}
		}
	}
}

func (st *bState) randomWalks(c *Ctx, n int, judge bool) {
	g := st.g
	for i := 0; i < n; i++ {
		root := g.roots[c.Rng.IntN(len(g.roots))]
		t := root.Type.Out(0)
		var edges []*bEdge
		steps := c.Rng.IntN(12)
		for s := 0; s < steps; s++ {
			var nexts []*bEdge
			for _, e := range g.edges[t] {
				if e.to != nil {
					if _, ok := g.toFinal[e.to]; ok {
						nexts = append(nexts, e)
					}
				}
			}
			if len(nexts) == 0 {
				break
			}
			e := nexts[c.Rng.IntN(len(nexts))]
			edges = append(edges, e)
			t = e.to
		}
		comp, ok := g.completion(t, c.Rng.IntN(2) == 0)
		if !ok {
			c.Hit("no-completion")
			continue
		}
		edges = append(edges, comp...)
		a := &argGen{c: c, tagged: c.Rng.IntN(4) != 0}
		init := "init"
		if c.Rng.IntN(3) == 0 {
			init = "noslot"
		}
		st.emitPath(c, g.pathLine(a, init, root, edges), judge, edges)
	}
}

func replayBuilders(judge bool) func(c *Ctx, lines []string) {
	return func(c *Ctx, lines []string) {
		st := &bState{g: buildGraph(), reached: map[*bEdge]bool{}}
		for _, l := range lines {
			switch {
			case l == "tables":
				st.tablesLine(c)
			case strings.HasPrefix(l, "path "):
				st.emitPath(c, l, judge, nil)
			case strings.HasPrefix(l, "judge "), strings.HasPrefix(l, "!judge "):
				// re-run the path the verdict was derived from; emitPath emits path + judge line again
				if k := strings.Index(l, ":: "); k >= 0 {
					st.emitPath(c, l[k+3:], true, nil)
				}
			case strings.HasPrefix(l, "!opt "):
				if k := strings.Index(l, ":: "); k >= 0 {
					st.emitPath(c, l[k+3:], false, nil)
				}
			default:
				panic("unknown op line: " + l)
			}
		}
	}
}

func init() {
	suites["bflags"] = suite{
		rule: "C32: every root constructor completed by a shortest path, every type's Cache() final, every method named Block (any command) — each real Completed/Cacheable is compared with the model (argv, ks, cf, all Is…() predicates) and its flags are judged by the specification on a '!judge' line; thorough: every method and final of the package + random walks; non-trivial = distinct op whose built argv has > 1 word, and every judge line",
		run: func(c *Ctx) {
			st := &bState{g: buildGraph(), reached: map[*bEdge]bool{}}
			st.tablesLine(c)
			if c.Tier == "thorough" {
				st.coverPaths(c, true, nil, 2)
				st.randomWalks(c, c.N, true)
			} else {
				// roots: the first final reachable; finals named Cache; Block methods
				g := st.g
				for _, r := range g.roots {
					t := r.Type.Out(0)
					if comp, ok := g.completion(t, false); ok {
						st.emitPath(c, g.pathLine(&argGen{c: c, tagged: true}, "init", r, comp), true, comp)
					} else {
						c.Hit("no-completion")
					}
				}
				st.coverPaths(c, true, func(e *bEdge) bool { return e.final == "Cache" || e.m.Name == "Block" }, 1)
				st.randomWalks(c, c.N/4, true)
			}
			st.coverage(c)
		},
		replay: replayBuilders(true),
	}
	suites["bargv"] = suite{
		rule: "C33: for every method and final of every generated builder type one complete path through it (prefix by BFS from the root, shortest completion), arguments generated per Go parameter type (strings with/without a common hash tag, boundary integers, short-expansion floats, NaN/Inf, durations incl. negative and extreme, times), on InitSlot and NoSlot builders; then random walks; the real argv/Slot()/cf/predicates are compared with the interpreter's answer; non-trivial = distinct op whose built argv has > 1 word",
		run: func(c *Ctx) {
			st := &bState{g: buildGraph(), reached: map[*bEdge]bool{}}
			st.tablesLine(c)
			variants := 1
			if c.Tier == "thorough" {
				variants = 4
			}
			st.coverPaths(c, false, nil, variants)
			st.randomWalks(c, c.N, false)
			st.coverage(c)
		},
		replay: replayBuilders(false),
	}
}
