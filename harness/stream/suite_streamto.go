package main

// Suite `streamto` (C29): differential run of the real resp.go streamTo (through
// rueidis.VerifStreamTo) against the Lean model Rv.StreamTo.run, plus `!` oracle lines
// judged by the specification (the payload of the normally decoded reply).

import (
	"bufio"
	"bytes"
	"errors"
	"fmt"
	"io"
	"strconv"
	"strings"
	"testing/iotest"

	"github.com/redis/rueidis"
)

// ---- wire trees (generator/encoder copied from harness/core/suite_resp.go) -----------------

type wire struct {
	kind  string // blob chunked nullblob line int null bool arr arrS nullarr map attr
	t     byte
	s     []byte
	cs    [][]byte
	v     int64
	b     bool
	xs    []*wire
	a, w  *wire
	leadz int // leading zeros on the length / integer line (readI accepts them)
}

func num(n int64, leadz int) string {
	s := strconv.FormatInt(n, 10)
	if leadz > 0 {
		if n < 0 {
			return "-" + strings.Repeat("0", leadz) + s[1:]
		}
		return strings.Repeat("0", leadz) + s
	}
	return s
}

func (w *wire) enc(o *bytes.Buffer) {
	switch w.kind {
	case "blob":
		fmt.Fprintf(o, "%c%s\r\n", w.t, num(int64(len(w.s)), w.leadz))
		o.Write(w.s)
		o.WriteString("\r\n")
	case "chunked":
		fmt.Fprintf(o, "%c?\r\n", w.t)
		for _, c := range w.cs {
			fmt.Fprintf(o, ";%d\r\n", len(c))
			o.Write(c)
			o.WriteString("\r\n")
		}
		o.WriteString(";0\r\n")
	case "nullblob", "nullarr":
		fmt.Fprintf(o, "%c-1\r\n", w.t)
	case "line":
		o.WriteByte(w.t)
		o.Write(w.s)
		o.WriteString("\r\n")
	case "int":
		fmt.Fprintf(o, ":%s\r\n", num(w.v, w.leadz))
	case "null":
		o.WriteString("_\r\n")
	case "bool":
		if w.b {
			o.WriteString("#t\r\n")
		} else {
			o.WriteString("#f\r\n")
		}
	case "arr":
		fmt.Fprintf(o, "%c%s\r\n", w.t, num(int64(len(w.xs)), w.leadz))
		for _, x := range w.xs {
			x.enc(o)
		}
	case "map":
		fmt.Fprintf(o, "%c%s\r\n", w.t, num(int64(len(w.xs)/2), w.leadz))
		for _, x := range w.xs {
			x.enc(o)
		}
	case "arrS":
		fmt.Fprintf(o, "%c?\r\n", w.t)
		for _, x := range w.xs {
			x.enc(o)
		}
		o.WriteString(".\r\n")
	case "attr":
		w.a.enc(o)
		w.w.enc(o)
	}
}

func (w *wire) bytes() []byte {
	var o bytes.Buffer
	w.enc(&o)
	return o.Bytes()
}

// expect: what a streaming read of this reply must deliver according to the property
// (independent of the Lean side): class ok|nil|redis|other and the payload / error text.
func (w *wire) expect() (class string, payload []byte) {
	switch w.kind {
	case "blob", "chunked":
		p := w.s
		if w.kind == "chunked" {
			p = bytes.Join(w.cs, nil)
		}
		if w.t == '!' {
			return "redis", p
		}
		return "ok", p
	case "line":
		if w.t == '-' {
			return "redis", w.s
		}
		return "ok", w.s
	case "int":
		return "ok", []byte(strconv.FormatInt(w.v, 10))
	case "bool":
		if w.b {
			return "ok", []byte("1")
		}
		return "ok", []byte("0")
	case "null", "nullblob", "nullarr":
		return "nil", nil
	}
	return "other", nil
}

func (c *Ctx) payload() []byte {
	n := c.Rng.IntN(9)
	switch c.Rng.IntN(12) {
	case 0:
		n = 0
	case 1:
		n = 20 + c.Rng.IntN(100)
	case 2:
		n = 9 + c.Rng.IntN(3)*91 // 9, 100, 191: digit-count boundaries
	case 3:
		n = 30 + c.Rng.IntN(8) // around the small bufio sizes
	}
	b := make([]byte, n)
	for i := range b {
		switch c.Rng.IntN(6) {
		case 0:
			b[i] = '\r'
		case 1:
			b[i] = '\n'
		case 2:
			b[i] = byte(c.Rng.IntN(256))
		default:
			b[i] = byte('a' + c.Rng.IntN(26))
		}
	}
	return b
}

func (c *Ctx) lineText() []byte {
	b := c.payload()
	for i := range b {
		if b[i] == '\n' {
			b[i] = 'n'
		}
	}
	if c.Rng.IntN(5) == 0 {
		return []byte("OK")
	}
	return b
}

func (c *Ctx) pick(s string) byte { return s[c.Rng.IntN(len(s))] }

// genWire: any reply tree (used for aggregate elements, push contents and attribute maps).
func (c *Ctx) genWire(depth int) *wire {
	leadz := 0
	if c.Rng.IntN(10) == 0 {
		leadz = 1 + c.Rng.IntN(2)
	}
	k := c.Rng.IntN(15)
	if depth <= 0 && k >= 9 && k <= 13 {
		k = c.Rng.IntN(9)
	}
	switch k {
	case 0, 1:
		return &wire{kind: "blob", t: c.pick("$!="), s: c.payload(), leadz: leadz}
	case 2:
		return c.genChunked(c.pick("$!="))
	case 3:
		return &wire{kind: "nullblob", t: c.pick("$!=")}
	case 4, 5:
		return &wire{kind: "line", t: c.pick("+-,("), s: c.lineText()}
	case 6:
		return c.genInt(leadz)
	case 7:
		return &wire{kind: "null"}
	case 8:
		return &wire{kind: "bool", b: c.Rng.IntN(2) == 0}
	case 9, 10:
		return c.genArr(c.pick("*~>"), depth, leadz)
	case 11:
		return c.genArrS(c.pick("*~>%"), depth)
	case 12:
		return c.genMap('%', depth, leadz)
	case 13:
		return &wire{kind: "attr", a: c.genAttrMap(depth), w: c.genWire(depth - 1)}
	default:
		return &wire{kind: "nullarr", t: c.pick("*~>")}
	}
}

func (c *Ctx) genChunked(t byte) *wire {
	n := c.Rng.IntN(4)
	cs := make([][]byte, 0, n)
	for i := 0; i < n; i++ {
		if p := c.payload(); len(p) > 0 {
			cs = append(cs, p)
		}
	}
	return &wire{kind: "chunked", t: t, cs: cs}
}

func (c *Ctx) genInt(leadz int) *wire {
	v := int64(c.Rng.IntN(2000)) - 1000
	switch c.Rng.IntN(6) {
	case 0:
		v = 9223372036854775807
	case 1:
		v = -9223372036854775807
	case 2:
		v = int64(c.Rng.Uint64() >> 1)
	case 3:
		v = 0
	}
	return &wire{kind: "int", v: v, leadz: leadz}
}

func (c *Ctx) genArr(t byte, depth, leadz int) *wire {
	w := &wire{kind: "arr", t: t, leadz: leadz}
	for i, n := 0, c.Rng.IntN(5); i < n; i++ {
		w.xs = append(w.xs, c.genWire(depth-1))
	}
	return w
}

func (c *Ctx) genArrS(t byte, depth int) *wire {
	w := &wire{kind: "arrS", t: t}
	for i, n := 0, c.Rng.IntN(4); i < n; i++ {
		w.xs = append(w.xs, c.genWire(depth-1))
	}
	return w
}

func (c *Ctx) genMap(t byte, depth, leadz int) *wire {
	w := &wire{kind: "map", t: t, leadz: leadz}
	for i, n := 0, 2*c.Rng.IntN(3); i < n; i++ {
		w.xs = append(w.xs, c.genWire(depth-1))
	}
	return w
}

func (c *Ctx) genAttrMap(depth int) *wire {
	if c.Rng.IntN(3) == 0 {
		return c.genArrS('|', depth-1)
	}
	return c.genMap('|', depth-1, 0)
}

// genPush: a push frame (what `goto next` skips), sometimes itself attribute-prefixed.
func (c *Ctx) genPush() *wire {
	var p *wire
	if c.Rng.IntN(4) == 0 {
		p = c.genArrS('>', 2)
	} else {
		p = c.genArr('>', 2, 0)
	}
	if c.Rng.IntN(8) == 0 {
		return &wire{kind: "attr", a: c.genAttrMap(1), w: p}
	}
	return p
}

// genTop: a top-level reply of every kind streamTo distinguishes.
func (c *Ctx) genTop() *wire {
	leadz := 0
	if c.Rng.IntN(10) == 0 {
		leadz = 1 + c.Rng.IntN(2)
	}
	switch c.Rng.IntN(20) {
	case 0, 1, 2, 3:
		return &wire{kind: "blob", t: c.pick("$$="), s: c.payload(), leadz: leadz}
	case 4, 5, 6:
		return c.genChunked(c.pick("$$="))
	case 7:
		if c.Rng.IntN(2) == 0 {
			return c.genChunked('!')
		}
		return &wire{kind: "blob", t: '!', s: c.payload(), leadz: leadz}
	case 8:
		return &wire{kind: "nullblob", t: c.pick("$=!")}
	case 9, 10:
		return &wire{kind: "line", t: c.pick("+,("), s: c.lineText()}
	case 11:
		return &wire{kind: "line", t: '-', s: c.lineText()}
	case 12, 13:
		return c.genInt(leadz)
	case 14:
		return &wire{kind: "null"}
	case 15:
		return &wire{kind: "bool", b: c.Rng.IntN(2) == 0}
	case 16:
		switch c.Rng.IntN(3) {
		case 0:
			return c.genArr(c.pick("*~"), 2, leadz)
		case 1:
			return c.genArrS(c.pick("*~%"), 2)
		}
		return c.genMap('%', 2, leadz)
	case 17:
		return &wire{kind: "nullarr", t: c.pick("*~>")}
	case 18:
		return &wire{kind: "attr", a: c.genAttrMap(1), w: c.genTop()}
	}
	return &wire{kind: "blob", t: '$', s: c.payload()}
}

// ---- the real streamTo ----------------------------------------------------------------------

type countReader struct {
	r io.Reader
	n int
}

func (c *countReader) Read(p []byte) (int, error) { n, err := c.r.Read(p); c.n += n; return n, err }

type randSplit struct {
	r   io.Reader
	rng func(int) int
}

func (s *randSplit) Read(p []byte) (int, error) {
	if len(p) > 1 {
		p = p[:1+s.rng(len(p))]
	}
	return s.r.Read(p)
}

var errWriter = errors.New("verif: writer full")

// failWriter accepts budget bytes and then fails; offered counts every byte presented to it.
type failWriter struct {
	budget  int
	offered int
	got     []byte
	calls   int
}

func (f *failWriter) Write(p []byte) (int, error) {
	f.calls++
	f.offered += len(p)
	if len(p) <= f.budget {
		f.budget -= len(p)
		f.got = append(f.got, p...)
		return len(p), nil
	}
	k := f.budget
	f.got = append(f.got, p[:k]...)
	f.budget = 0
	return k, errWriter
}

func classify(err error) string {
	if err == nil {
		return "ok"
	}
	if err == rueidis.Nil {
		return "err:nil"
	}
	var re *rueidis.RedisError
	if errors.As(err, &re) {
		return "err:redis:" + hx(re.Error())
	}
	if errors.Is(err, errWriter) {
		return "err:writer"
	}
	s := err.Error()
	switch {
	case strings.HasPrefix(s, "unsupported redis "):
		name, _ := strconv.Unquote(strings.TrimSuffix(strings.TrimPrefix(s, "unsupported redis "), " response for streaming read"))
		return "err:unsupported:" + strings.ReplaceAll(name, " ", "_")
	case strings.HasPrefix(s, "received unexpected number byte: "):
		return "err:numbyte:" + strings.TrimPrefix(s, "received unexpected number byte: ")
	case strings.HasPrefix(s, "received unknown message type: "):
		return "err:unknowntype:" + strings.TrimPrefix(s, "received unknown message type: ")
	case s == "received unexpected simple string message ending without CRLF":
		return "err:nocrlf"
	case s == "received unexpected negative length":
		return "err:neglen"
	case s == "unbounded redis message":
		return "err:chunked"
	case errors.Is(err, io.EOF), errors.Is(err, io.ErrUnexpectedEOF), errors.Is(err, bufio.ErrBufferFull), errors.Is(err, bufio.ErrNegativeCount),
		errors.Is(err, io.ErrClosedPipe):
		return "err:io"
	}
	return "err:other:" + hx(s)
}

type streamRes struct {
	n        int64
	err      error
	clean    bool
	consumed int
	out      []byte
	over     int
	panicked bool
}

func (r streamRes) answer() string {
	if r.panicked {
		return "panic"
	}
	cons := "-"
	if r.clean {
		cons = strconv.Itoa(r.consumed)
	}
	return fmt.Sprintf("%d %s %v %s %s", r.n, classify(r.err), r.clean, cons, hx(string(r.out)))
}

// oracleAnswer renders the result in the vocabulary of the specification (`!st` lines).
func (r streamRes) oracleAnswer() string {
	switch {
	case r.panicked || !r.clean:
		return "other"
	case r.err == nil:
		return fmt.Sprintf("ok %s %d", hx(string(r.out)), r.consumed)
	case r.err == rueidis.Nil:
		return fmt.Sprintf("nil %d", r.consumed)
	}
	var re *rueidis.RedisError
	if errors.As(r.err, &re) {
		return fmt.Sprintf("redis %s %d", hx(re.Error()), r.consumed)
	}
	return "other"
}

func splitSrc(data []byte, mode int, rng func(int) int) io.Reader {
	var src io.Reader = bytes.NewReader(data)
	switch mode {
	case 1:
		src = iotest.OneByteReader(src)
	case 2:
		src = iotest.HalfReader(src)
	case 3:
		src = &randSplit{r: src, rng: rng}
	}
	return src
}

// streamReal runs streamTo over data. budget < 0: a bytes.Buffer (never fails, io.ReaderFrom);
// budget >= 0: a plain writer failing after budget bytes.
func streamReal(data []byte, bufSize, mode, budget int, rng func(int) int) (res streamRes) {
	defer func() {
		if r := recover(); r != nil {
			res.panicked = true
		}
	}()
	cr := &countReader{r: splitSrc(data, mode, rng)}
	br := bufio.NewReaderSize(cr, bufSize)
	if budget < 0 {
		var b bytes.Buffer
		res.n, res.err, res.clean = rueidis.VerifStreamTo(br, &b)
		res.out = b.Bytes()
	} else {
		fw := &failWriter{budget: budget}
		res.n, res.err, res.clean = rueidis.VerifStreamTo(br, fw)
		res.out = fw.got
		res.over = fw.offered - len(fw.got)
	}
	res.consumed = cr.n - br.Buffered()
	return res
}

var bufSizes = []int{32, 33, 64, 4096}

const overdiscardKey = "stream:writer-fail-overdiscard"
const chunksLeftKey = "stream:writer-fail-chunks-left"

type stCase struct {
	data     []byte
	frameEnd int   // end of the reply's frame inside data (0: unknown / malformed)
	w        *wire // the reply (nil for malformed inputs)
	oracle   bool  // emit the `!st` line
	nontriv  bool
}

// failOnce queues an oracle failure; flushFails records it once the op line is emitted
// (Bad.Line must point at the line itself for the replay file).
var pendingFails [][3]string

func (c *Ctx) failOnce(key, op, what string) {
	c.Hit("FAIL " + key)
	if c.Dist["FAIL "+key] <= 3 {
		pendingFails = append(pendingFails, [3]string{key, op, what})
	}
}

func (c *Ctx) flushFails() {
	for _, f := range pendingFails {
		c.Fail(f[0], f[1], f[2])
	}
	pendingFails = pendingFails[:0]
}

// frameEndByNormalRead finds the end of the first non-push reply with the normal reader (replay mode).
func frameEndByNormalRead(data []byte) (end int) {
	defer func() {
		if recover() != nil {
			end = 0
		}
	}()
	cr := &countReader{r: bytes.NewReader(data)}
	br := bufio.NewReaderSize(cr, 4096)
	for {
		m, err := rueidis.VerifReadNextMessage(br)
		if err != nil {
			return 0
		}
		if rueidis.VerifTyp(&m) != '>' {
			return cr.n - br.Buffered()
		}
	}
}

// stRun runs one input with one writer and emits the model line.
func stRun(c *Ctx, sc stCase, bs, mode, budget int) streamRes {
	res := streamReal(sc.data, bs, mode, budget, c.Rng.IntN)
	bud := "-"
	if budget >= 0 {
		bud = strconv.Itoa(budget)
	}
	op := fmt.Sprintf("st %d %s %d %s", bs, bud, res.over, hx(string(sc.data)))
	ans := res.answer()
	if res.panicked {
		c.failOnce("stream:panic:"+hx(string(sc.data[:min(len(sc.data), 24)])), op, "streamTo panicked on this input")
	}
	cls := classify(res.err)
	if i := strings.Index(cls[min(4, len(cls)):], ":"); i >= 0 {
		cls = cls[:4+i]
	}
	c.Hit(fmt.Sprintf("%s clean=%v", cls, res.clean))
	if !res.clean && res.err == nil {
		c.failOnce("stream:unclean-without-error", op, "streamTo returned clean=false with a nil error (WriteTo would then store the wire unclosed)")
	}
	// the property judged directly on the real code: a clean return must leave the reader exactly at the end of the reply's frame
	if sc.frameEnd > 0 && res.clean && res.consumed != sc.frameEnd {
		switch {
		case budget >= 0 && errors.Is(res.err, errWriter) && res.consumed > sc.frameEnd:
			c.failOnce(overdiscardKey, op, fmt.Sprintf("writer failed after %d of the payload bytes; streamTo reports clean=true but consumed %d bytes of a %d-byte frame: %d bytes of the following reply are gone from the connection",
				len(res.out), res.consumed, sc.frameEnd, res.consumed-sc.frameEnd))
		case budget >= 0 && errors.Is(res.err, errWriter) && sc.w != nil && sc.w.kind == "chunked":
			c.failOnce(chunksLeftKey, op, fmt.Sprintf("writer failed after %d bytes inside a chunked string; streamTo reports clean=true but stopped %d bytes before the end of the reply: the remaining chunks stay on the connection and will be read as the next reply",
				len(res.out), sc.frameEnd-res.consumed))
		default:
			c.failOnce("stream:clean-but-misaligned", op, fmt.Sprintf("clean=true but consumed %d bytes, the reply's frame has %d", res.consumed, sc.frameEnd))
		}
	}
	if sc.w != nil && budget >= 0 {
		// whatever a failing writer accepted must be a prefix of the payload
		if class, p := sc.w.expect(); class == "ok" && sc.oracle && !bytes.HasPrefix(p, res.out) {
			c.failOnce("stream:written-not-prefix", op, fmt.Sprintf("writer received %q, which is not a prefix of the payload %q", res.out, p))
		}
	}
	c.Emit(op, ans, sc.nontriv)
	c.flushFails()
	return res
}

func stCaseFull(c *Ctx, sc stCase) {
	bs := bufSizes[c.Rng.IntN(len(bufSizes))]
	res := stRun(c, sc, bs, 0, -1)
	// read-boundary independence for a non-failing writer
	for mode := 1; mode <= 3; mode++ {
		if r2 := streamReal(sc.data, bs, mode, -1, c.Rng.IntN); r2.answer() != res.answer() {
			c.failOnce("stream:split-dependence", "st "+strconv.Itoa(bs)+" - 0 "+hx(string(sc.data)), fmt.Sprintf("whole-read answer %q, split mode %d answer %q", res.answer(), mode, r2.answer()))
		}
	}
	if sc.oracle {
		op := fmt.Sprintf("!st %d %s", bs, hx(string(sc.data)))
		// independent Go-side oracle from the generated tree
		class, p := sc.w.expect()
		want := "other"
		switch class {
		case "ok":
			want = fmt.Sprintf("ok %s %d", hx(string(p)), sc.frameEnd)
		case "nil":
			want = fmt.Sprintf("nil %d", sc.frameEnd)
		case "redis":
			want = fmt.Sprintf("redis %s %d", hx(string(p)), sc.frameEnd)
		}
		if got := res.oracleAnswer(); got != want {
			c.failOnce("stream:payload:"+hx(string(sc.data[:min(len(sc.data), 24)])), op, fmt.Sprintf("streaming read gave %q, the reply denotes %q", got, want))
		}
		c.Emit(op, res.oracleAnswer(), sc.nontriv)
		c.flushFails()
	}
}

func runStreamTo(c *Ctx) {
	hostile := []string{
		"", "$", "$1", "$-2\r\n", "$-2\r\n+x\r\n", "$-3\r\n", "$-1\r\n", ";-1\r\n", "=-1\r\n", "$-0\r\n\r\n", "$0\r\n\r\n+x", "$0\r\n", "$0\r\n\r", ";0\r\n+x", ";4\r\nabcd\r\n:1\r\n",
		"$?\r\n;0\r\n+x", "$?\r\n;3\r\nabc\r\n;0\r\n+x", "$?\r\n;3\r\nabc\r\n", "$?\r\n", "$?\r\n$?\r\n;0\r\n;0\r\n", "$?\r\n+abc\r\n;0\r\n", "$?\r\n*1\r\n:1\r\n;0\r\n",
		"$?\r\n>1\r\n:1\r\n;2\r\nab\r\n;0\r\n", "$?\r\n_\r\n;0\r\n", "$?\r\n$-1\r\n", "$?\r\n;?\r\n;0\r\n", "$?\r\n$0\r\n\r\n;1\r\na\r\n;0\r\n", "=?\r\n;1\r\na\r\n;0\r\n",
		"*2\r\n:1\r\n:2\r\n+x", "*2\r\n:1\r\n", "%1\r\n+a\r\n:1\r\n$1\r\nz\r\n", "~0\r\n", "*0\r\n", "*-1\r\n", ">-1\r\n", ">1\r\n:1\r\n", ">1\r\n:1\r\n>0\r\n$1\r\na\r\n", ".\r\n", "_\r\n", "#t\r\n", "#f\r\n", "#x\r\n",
		"|1\r\n+a\r\n+b\r\n$1\r\na\r\n+x", "|1\r\n+a\r\n+b\r\n+s\r\n", "|1\r\n+a\r\n+b\r\n:5\r\n", "|1\r\n+a\r\n+b\r\n>1\r\n:1\r\n+after\r\n", "|1\r\n+a\r\n+b\r\n-ERR x\r\n", "|1\r\n+a\r\n+b\r\n_\r\n",
		"$9223372036854775807\r\nabc", "$9223372036854775806\r\nabc", "$9223372036854775805\r\nabc\r\n", "$18446744073709551615\r\n", "$18446744073709551614\r\nab\r\n", "$18446744073709551617\r\na\r\nxyz",
		"$5\r\nab", "$5\r\nabcde", "$5\r\nabcde\r", "$5\r\nabcdefg+x\r\n", "$1\r\nab\r\n", "$3\r\nab\r\n", ":12a\r\n", ":\r\n", "+OK\r\n", "+OK", "+O", "+\n", "-\r\n", "-ERR\r\n", "!3\r\nERR\r\n", "!?\r\n;2\r\nER\r\n;0\r\n",
		"(12345678901234567890123\r\n", ",1.5\r\n", ",inf\r\n", ":-0\r\n", ":0000000000000000000000000000001\r\n", "$00000000000000000000000000000000001\r\na\r\n", "X\r\n", "\x00", ";x\r\n", "$1x\r\n", "$\r\n", "$?x\r\n",
	}
	for _, h := range hostile {
		sc := stCase{data: []byte(h), nontriv: true}
		stCaseFull(c, sc)
		for _, k := range []int{0, 1, 2} {
			stRun(c, sc, bufSizes[c.Rng.IntN(4)], c.Rng.IntN(4), k)
		}
	}
	for i := 0; i < c.N; i++ {
		var o bytes.Buffer
		npush := 0
		if c.Rng.IntN(3) == 0 {
			npush = 1 + c.Rng.IntN(3)
		}
		for j := 0; j < npush; j++ {
			c.genPush().enc(&o)
		}
		w := c.genTop()
		w.enc(&o)
		frameEnd := o.Len()
		// what follows on the connection: the next reply (DoMultiStream) or nothing
		switch c.Rng.IntN(3) {
		case 0:
			c.genTop().enc(&o)
		case 1:
			o.Write(c.payload())
		}
		data := append([]byte{}, o.Bytes()...)
		class, p := w.expect()
		sc := stCase{data: data, frameEnd: frameEnd, w: w, oracle: w.kind != "attr", nontriv: npush > 0 || w.kind == "chunked" || frameEnd < len(data) || class != "ok"}
		c.Hit("kind:" + w.kind + ":" + string(w.t) + ":" + class)
		stCaseFull(c, sc)
		// failing writers: every budget up to the payload length (sampled when long)
		if class == "ok" && w.kind != "attr" {
			L := len(p)
			ks := []int{}
			if L <= 24 || c.Tier == "thorough" && L <= 64 {
				for k := 0; k <= L; k++ {
					ks = append(ks, k)
				}
			} else {
				ks = append(ks, 0, 1, L-1, L, L/2, 31, 32, 33)
				for j := 0; j < 4; j++ {
					ks = append(ks, c.Rng.IntN(L+1))
				}
			}
			scw := sc
			scw.nontriv = true
			for _, k := range ks {
				if k > L {
					continue
				}
				stRun(c, scw, bufSizes[c.Rng.IntN(len(bufSizes))], c.Rng.IntN(4), k)
			}
		} else if c.Rng.IntN(2) == 0 {
			stRun(c, sc, bufSizes[c.Rng.IntN(len(bufSizes))], c.Rng.IntN(4), c.Rng.IntN(3))
		}
		// malformed stream derived from this frame
		frame := data[:frameEnd]
		for k := 0; k < 2; k++ {
			m := append([]byte{}, frame...)
			switch c.Rng.IntN(8) {
			case 0, 7:
				m = m[:c.Rng.IntN(len(m))] // truncation: the server dropped mid-reply
			case 1:
				m[c.Rng.IntN(len(m))] = "$+-:_.,#!=(*%~|>;?0123456789\r\n"[c.Rng.IntN(30)]
			case 2: // sign flip / inflate a length
				if j := bytes.IndexAny(m, "0123456789"); j >= 0 {
					if c.Rng.IntN(2) == 0 {
						m = append(m[:j], append([]byte("-"), m[j:]...)...)
					} else {
						m = append(m[:j], append([]byte("9"), m[j:]...)...)
					}
				}
			case 3:
				m[c.Rng.IntN(len(m))] = byte(c.Rng.IntN(256))
			case 4: // delete a byte
				j := c.Rng.IntN(len(m))
				m = append(m[:j], m[j+1:]...)
			case 5: // duplicate a byte
				j := c.Rng.IntN(len(m))
				m = append(m[:j+1], m[j:]...)
			case 6:
				m = bytes.Replace(m, []byte("\r\n"), []byte("\n"), 1)
			}
			msc := stCase{data: m, nontriv: true}
			stCaseFull(c, msc)
			if c.Rng.IntN(2) == 0 {
				stRun(c, msc, bufSizes[c.Rng.IntN(len(bufSizes))], c.Rng.IntN(4), c.Rng.IntN(6))
			}
		}
		// truncation sweep of a short frame: short input must never be reported clean
		if len(frame) <= 40 && c.Rng.IntN(4) == 0 && class != "other" {
			for cut := 0; cut < len(frame); cut++ {
				r := streamReal(frame[:cut], 4096, 0, -1, nil)
				if r.clean && npush == 0 {
					c.failOnce("stream:short-input-clean", fmt.Sprintf("st 4096 - 0 %s", hx(string(frame[:cut]))), "a truncated reply was reported clean")
				}
				stRun(c, stCase{data: frame[:cut], nontriv: true}, 4096, 0, -1)
				c.flushFails()
			}
		}
	}
}

func init() {
	suites["streamto"] = suite{
		rule: "streamTo differential: replies of every kind streamTo distinguishes ($ = blobs, $?/=? chunked strings, ! blob errors, RESP2 nulls, + , ( lines, - errors, integers, null, booleans, arrays/sets/maps/streamed aggregates, attribute-prefixed replies) with 0-3 push frames in front and another reply or garbage behind, run through the real streamTo with bufio sizes {32,33,64,4096} x {whole,one-byte,half,random-split} readers and writers {bytes.Buffer, plain writer failing after k bytes for every k <= payload length}; answers (n, error class, clean, bytes consumed, bytes written) compared with the Lean model; `!st` lines: delivered bytes = payload of the normally decoded reply (Lean spec) and = payload of the generated tree (Go oracle); malformed stream: truncation at every point, byte mutations, sign flips, hostile fixed frames; non-trivial = distinct input with push/chunk/trailing reply/failing writer/malformed bytes",
		run:  runStreamTo,
		replay: func(c *Ctx, lines []string) {
			for _, l := range lines {
				w := strings.Fields(l)
				if len(w) == 3 && w[0] == "!st" {
					bs, _ := strconv.Atoi(w[1])
					c.Emit(l, streamReal([]byte(unhx(w[2])), bs, 0, -1, nil).oracleAnswer(), true)
					continue
				}
				if len(w) != 5 {
					c.Emit(l, "bad-op", true)
					continue
				}
				bs, _ := strconv.Atoi(w[1])
				budget := -1
				if w[2] != "-" {
					budget, _ = strconv.Atoi(w[2])
				}
				// `over` (w[3]) is an observation of the original run; the replay uses a whole reader
				data := []byte(unhx(w[4]))
				stRun(c, stCase{data: data, frameEnd: frameEndByNormalRead(data), nontriv: true}, bs, 0, budget)
			}
		},
	}
}
