package main

// Suite `e2e` (C29): DoStream / DoMultiStream of the real client (NewClient + DialCtxFn over
// net.Pipe) against a scripted server that answers every `GET <key>` with raw reply bytes
// chosen by the harness, optionally cutting the connection after k bytes. Observed: per
// WriteTo (n, error class, bytes delivered, HasNext), the sticky Error(), the streaming pool
// (rueidis.VerifClientPools: size / idle wires), whether the client closed the connection,
// and which connection serves the next DoStream. The Lean driver answers the same line from
// Rv.ResultStream.session (RedisResultStream automaton composed with the streamTo model).

import (
	"bufio"
	"bytes"
	"context"
	"crypto/tls"
	"errors"
	"fmt"
	"io"
	"net"
	"os"
	"runtime"
	"strconv"
	"strings"
	"sync"
	"time"

	"github.com/redis/rueidis"
)

// ---- scripted server -------------------------------------------------------------------------

type srvConn struct {
	idx    int
	c      net.Conn
	sent   int           // bytes of user replies written so far
	gone   chan struct{} // closed when the client side closed (or the server cut the connection)
	cutBy  string        // "server" if the server closed it
	served []string
}

type scriptSrv struct {
	mu        sync.Mutex
	replies   map[string][]byte
	conns     []*srvConn
	cutAt     map[int]int  // conn idx -> close after that many reply bytes
	dropHello map[int]bool // conn idx -> close right after the handshake (the client's flush fails)
}

func newScriptSrv() *scriptSrv {
	return &scriptSrv{replies: map[string][]byte{}, cutAt: map[int]int{}, dropHello: map[int]bool{}}
}

func (s *scriptSrv) Dial(ctx context.Context, addr string, d *net.Dialer, cfg *tls.Config) (net.Conn, error) {
	if err := ctx.Err(); err != nil {
		return nil, err
	}
	c1, c2 := net.Pipe()
	s.mu.Lock()
	sc := &srvConn{idx: len(s.conns), c: c2, gone: make(chan struct{})}
	s.conns = append(s.conns, sc)
	s.mu.Unlock()
	go s.serve(sc)
	return c1, nil
}

func readCommand(r *bufio.Reader) ([]string, error) {
	line, err := r.ReadString('\n')
	if err != nil {
		return nil, err
	}
	if len(line) < 3 || line[0] != '*' {
		return nil, errors.New("bad frame")
	}
	n, err := strconv.Atoi(strings.TrimSpace(line[1:]))
	if err != nil {
		return nil, err
	}
	argv := make([]string, n)
	for i := range argv {
		l, err := r.ReadString('\n')
		if err != nil {
			return nil, err
		}
		sz, err := strconv.Atoi(strings.TrimSpace(l[1:]))
		if err != nil {
			return nil, err
		}
		buf := make([]byte, sz+2)
		if _, err := io.ReadFull(r, buf); err != nil {
			return nil, err
		}
		argv[i] = string(buf[:sz])
	}
	return argv, nil
}

func (s *scriptSrv) serve(sc *srvConn) {
	defer close(sc.gone)
	defer sc.c.Close()
	r := bufio.NewReader(sc.c)
	for {
		argv, err := readCommand(r)
		if err != nil {
			return
		}
		switch strings.ToUpper(argv[0]) {
		case "HELLO":
			sc.c.Write([]byte("%3\r\n$6\r\nserver\r\n$5\r\nredis\r\n$7\r\nversion\r\n$5\r\n7.2.0\r\n$5\r\nproto\r\n:3\r\n"))
			s.mu.Lock()
			drop := s.dropHello[sc.idx]
			s.mu.Unlock()
			if drop {
				sc.cutBy = "server"
				return
			}
			continue
		case "PING":
			sc.c.Write([]byte("+PONG\r\n"))
			continue
		case "CLIENT", "AUTH", "SELECT":
			sc.c.Write([]byte("+OK\r\n"))
			continue
		}
		key := ""
		if len(argv) > 1 {
			key = argv[1]
		}
		s.mu.Lock()
		rep, ok := s.replies[key]
		cut, hasCut := s.cutAt[sc.idx]
		sc.served = append(sc.served, key)
		s.mu.Unlock()
		if !ok {
			rep = []byte("-ERR unknown key\r\n")
		}
		if hasCut && sc.sent+len(rep) >= cut {
			sc.c.Write(rep[:cut-sc.sent])
			sc.sent = cut
			sc.cutBy = "server"
			return
		}
		if len(rep) > 0 { // a zero-length Write on a net.Pipe would block until the client reads again
			if _, err := sc.c.Write(rep); err != nil {
				return
			}
		}
		sc.sent += len(rep)
	}
}

func (s *scriptSrv) conn(i int) *srvConn {
	s.mu.Lock()
	defer s.mu.Unlock()
	if i < len(s.conns) {
		return s.conns[i]
	}
	return nil
}

func (s *scriptSrv) nconns() int {
	s.mu.Lock()
	defer s.mu.Unlock()
	return len(s.conns)
}

// lateCtx reports Canceled only to (*pipe).DoStream / DoMultiStream: the context "becomes done"
// after pool.Acquire handed out a live wire and before the command is written.
type lateCtx struct{ context.Context }

func (c lateCtx) Err() error {
	pcs := make([]uintptr, 4)
	n := runtime.Callers(2, pcs)
	frames := runtime.CallersFrames(pcs[:n])
	for {
		f, more := frames.Next()
		if strings.HasSuffix(f.Function, "(*pipe).DoStream") || strings.HasSuffix(f.Function, "(*pipe).DoMultiStream") {
			return context.Canceled
		}
		if !more {
			return nil
		}
	}
}

// ---- one episode -----------------------------------------------------------------------------

type e2eCall struct {
	budget int // -1: bytes.Buffer
}

type e2ePlan struct {
	entry   string // ok | ctxDone | flushErr
	replies []*wire
	raw     [][]byte // raw replies when not from a tree (malformed)
	cut     int      // -1: none; else the server closes after that many reply bytes
	calls   []e2eCall
	single  bool // use DoStream (one command)
}

func stickyClass(err error) string {
	switch {
	case err == nil:
		return "none"
	case errors.Is(err, context.Canceled):
		return "sticky:ctx"
	case errors.Is(err, io.ErrClosedPipe):
		return "sticky:pipe"
	}
	c := classifyNet(err)
	if c == "err:io" {
		return "sticky:io-or-eof"
	}
	return "sticky:" + c
}

// classifyNet: classify plus the errors only a real connection produces
func classifyNet(err error) string {
	if err != nil && (errors.Is(err, os.ErrDeadlineExceeded) || errors.Is(err, io.ErrClosedPipe)) {
		return "err:io"
	}
	return classify(err)
}

func waitGone(sc *srvConn, d time.Duration) bool {
	select {
	case <-sc.gone:
		return true
	case <-time.After(d):
		return false
	}
}

func runEpisode(c *Ctx, p e2ePlan, id int) {
	srv := newScriptSrv()
	var all bytes.Buffer
	keys := make([]string, len(p.raw))
	for i, r := range p.raw {
		keys[i] = fmt.Sprintf("k%d-%d", id, i)
		srv.replies[keys[i]] = r
		all.Write(r)
	}
	nextKey := fmt.Sprintf("next%d", id)
	nextPayload := fmt.Sprintf("own-payload-%d", id)
	srv.replies[nextKey] = []byte(fmt.Sprintf("$%d\r\n%s\r\n", len(nextPayload), nextPayload))
	sent := all.Bytes()
	if p.cut >= 0 && p.cut <= len(sent) {
		srv.cutAt[1] = p.cut
		sent = sent[:p.cut]
	}
	if p.entry == "flushErr" {
		srv.dropHello[1] = true
		sent = nil
	}
	client, err := rueidis.NewClient(rueidis.ClientOption{
		InitAddress: []string{"127.0.0.1:1"}, DialCtxFn: srv.Dial, DisableCache: true, DisableRetry: true,
		ClientSetInfo: rueidis.DisableClientSetInfo, ConnWriteTimeout: 150 * time.Millisecond, BlockingPoolSize: 1, ForceSingleClient: true,
	})
	if err != nil {
		panic("e2e: NewClient: " + err.Error())
	}
	defer client.Close()
	ctx, cancel := context.WithCancel(context.Background())
	defer cancel()
	if p.entry == "ctxDone" {
		cancel()
		sent = nil
	}
	if p.entry == "ctxLate" {
		ctx = lateCtx{context.Background()}
		sent = nil
	}
	cmds := make([]rueidis.Completed, len(keys))
	for i, k := range keys {
		cmds[i] = client.B().Get().Key(k).Build()
	}
	var s rueidis.RedisResultStream
	if p.single {
		s = client.DoStream(ctx, cmds[0])
	} else {
		s = client.DoMultiStream(ctx, cmds...)
	}
	var callOps, callAns []string
	writerFailedAt := -1
	flagged := false
	var fails [][3]string
	streamCalls := 0
	for ci, call := range p.calls {
		before := s.Error()
		hadNext := s.HasNext()
		var n int64
		var werr error
		var out []byte
		over := 0
		if call.budget < 0 {
			var b bytes.Buffer
			n, werr = s.WriteTo(&b)
			out = b.Bytes()
			callOps = append(callOps, "-:0")
		} else {
			fw := &failWriter{budget: call.budget}
			n, werr = s.WriteTo(fw)
			out = fw.got
			over = fw.offered - len(fw.got)
			callOps = append(callOps, fmt.Sprintf("%d:%d", call.budget, over))
			if errors.Is(werr, errWriter) && writerFailedAt < 0 {
				writerFailedAt = ci
			}
		}
		cls := ""
		if before != nil {
			cls = stickyClass(before)
			if werr != before {
				fails = append(fails, [3]string{"stream:sticky-error-changed", "", fmt.Sprintf("WriteTo #%d returned %v although Error() was %v", ci+1, werr, before)})
			}
			if hadNext {
				fails = append(fails, [3]string{"stream:hasnext-with-error", "", "HasNext() was true while Error() != nil"})
			}
		} else if !hadNext {
			cls = "none" // zero-command stream: WriteTo returns (0, nil)
		} else {
			cls = classifyNet(werr)
			// the property judged on the real client: command #streamCalls must get its own payload
			if streamCalls < len(p.replies) && p.replies[streamCalls] != nil && p.replies[streamCalls].kind != "attr" && p.cut < 0 {
				class, want := p.replies[streamCalls].expect()
				bad := ""
				switch {
				case class == "ok" && werr == nil && !bytes.Equal(out, want):
					bad = fmt.Sprintf("command #%d received %q, its reply's payload is %q", streamCalls+1, out, want)
				case class == "ok" && werr != nil && !errors.Is(werr, errWriter):
					bad = fmt.Sprintf("command #%d failed with %v, its reply is the string %q", streamCalls+1, werr, want)
				case class == "ok" && !bytes.HasPrefix(want, out):
					bad = fmt.Sprintf("command #%d's writer received %q, not a prefix of its payload %q", streamCalls+1, out, want)
				case class == "nil" && werr != rueidis.Nil:
					bad = fmt.Sprintf("command #%d got %v for a null reply", streamCalls+1, werr)
				case class == "redis" && classify(werr) != "err:redis:"+hx(string(want)):
					bad = fmt.Sprintf("command #%d got %v for the error reply %q", streamCalls+1, werr, want)
				}
				if bad != "" {
					key := "stream:e2e-wrong-reply"
					if writerFailedAt >= 0 && writerFailedAt < ci {
						key = overdiscardKey
						if fr := p.replies[writerFailedAt]; writerFailedAt < len(p.replies) && fr != nil && fr.kind == "chunked" {
							key = chunksLeftKey
						}
						bad = fmt.Sprintf("after the writer of WriteTo #%d failed the connection was kept: %s", writerFailedAt+1, bad)
					}
					fails = append(fails, [3]string{key, "", bad})
					flagged = true
				}
			}
			streamCalls++
		}
		callAns = append(callAns, fmt.Sprintf("%d/%s/%s/%v", n, cls, hx(string(out)), s.HasNext()))
	}
	// pool and connection state
	time.Sleep(2 * time.Millisecond)
	_, sp, _, _, okp := rueidis.VerifClientPools(client)
	pool := "?"
	sc := srv.conn(1)
	switch {
	case !okp:
		pool = "nopool"
	case sc == nil && sp.Size == 0 && len(sp.List) == 0:
		pool = "dead"
	case sp.Size == 1 && len(sp.List) == 1:
		pool = "stored"
		if waitGone(sc, 0) && sc.cutBy != "server" {
			pool = "stored-but-closed"
		}
	case sp.Size == 1 && len(sp.List) == 0:
		pool = "held"
	case sp.Size == 0 && len(sp.List) == 0:
		pool = "closed"
		if sc != nil && !waitGone(sc, 200*time.Millisecond) {
			pool = "dropped-unclosed" // removed from the pool but the connection is still open
		}
	default:
		pool = fmt.Sprintf("size=%d,idle=%d", sp.Size, len(sp.List))
	}
	if p.entry == "ok" && p.cut >= 0 && p.cut < all.Len() && len(p.calls) >= len(keys) && pool == "stored" {
		fails = append(fails, [3]string{"stream:dirty-wire-stored", "", fmt.Sprintf("the server dropped the connection after %d of %d reply bytes, every reply was asked for, yet the wire went back to the pool without being closed", p.cut, all.Len())})
	}
	if p.entry == "ctxLate" && pool == "held" {
		fails = append(fails, [3]string{"stream:ctx-done-wire-leaked", "", "the context was done when DoStream/DoMultiStream checked it; the acquired wire never went back to the pool"})
	}
	final := stickyClass(s.Error())
	// the property's recycle clause judged on observable facts: once the stream has no next reply
	// (all consumed, or an error ended it) the wire has been handed back exactly once
	ended := s.Error() != nil
	notRecycledKey := "stream:wire-not-recycled"
	if streamCalls < len(keys) {
		notRecycledKey = "stream:wire-not-recycled:unclean-non-last-reply"
	}
	if ended && pool == "held" {
		fails = append(fails, [3]string{notRecycledKey, "", fmt.Sprintf("the stream ended after %d of %d replies (Error() = %v, HasNext() = %v) but its connection is neither stored nor closed: streaming pool size=%d idle=%d, the slot is leaked",
			streamCalls, len(keys), s.Error(), s.HasNext(), sp.Size, len(sp.List))})
		flagged = true
	}
	if pool == "dropped-unclosed" {
		fails = append(fails, [3]string{"stream:dirty-wire-not-closed", "", "the wire left the pool but its connection was never closed"})
		flagged = true
	}
	recycled := pool
	switch {
	case ended && (pool == "stored" || pool == "closed" || pool == "dead" || pool == "stored-but-closed"):
		recycled = "once"
	case !ended && pool == "held":
		recycled = "held"
	}
	// the next streaming command on this client (capacity-1 pool, watchdog on the Acquire)
	next := "-"
	nextOK := true
	if ended {
		before := srv.nconns()
		wctx, wcancel := context.WithTimeout(context.Background(), 400*time.Millisecond)
		ns := client.DoStream(wctx, client.B().Get().Key(nextKey).Build())
		var b bytes.Buffer
		_, nerr := ns.WriteTo(&b)
		wcancel()
		if errors.Is(nerr, context.DeadlineExceeded) && pool == "held" {
			fails = append(fails, [3]string{notRecycledKey, "", "the follow-up DoStream on the capacity-1 streaming pool could not acquire a connection within the 400ms watchdog: the ended stream still occupies the only slot"})
			flagged = true
		}
		if srv.nconns() > before {
			next = "new"
		} else {
			next = "same"
		}
		if p.cut >= 0 && nerr != nil {
			// the server closed this connection itself: a pooled wire that died while idle fails the next
			// command with an error — no foreign payload, not judged here
			flagged = true
		} else if nerr != nil || b.String() != nextPayload {
			nextOK = false
			key := "stream:e2e-next-foreign"
			what := fmt.Sprintf("the next DoStream on this client received %q (err %v) instead of its own payload %q", b.String(), nerr, nextPayload)
			if writerFailedAt >= 0 {
				key = overdiscardKey
				if fr := p.replies[min(writerFailedAt, len(p.replies)-1)]; fr != nil && fr.kind == "chunked" {
					key = chunksLeftKey
				}
				what = fmt.Sprintf("after the writer of WriteTo #%d failed the connection went back to the pool: %s", writerFailedAt+1, what)
			}
			fails = append(fails, [3]string{key, "", what})
			flagged = true
		}
	}
	op := fmt.Sprintf("e2e %s %d %s %s", p.entry, len(keys), hx(string(sent)), strings.Join(callOps, ","))
	ans := fmt.Sprintf("%s e=%s pool=%s next=%s", strings.Join(callAns, ";"), final, pool, next)
	c.Hit("entry:" + p.entry)
	c.Hit("pool:" + pool)
	c.Emit(op, ans, true)
	for _, f := range fails {
		c.Hit("FAIL " + f[0])
		if c.Dist["FAIL "+f[0]] <= 3 {
			c.Fail(f[0], op, f[2])
		}
	}
	c.Emit(fmt.Sprintf("!recycled %s %d %s %s", p.entry, len(keys), hx(string(sent)), strings.Join(callOps, ",")), recycled, true)
	if ended && !flagged {
		// oracle: the next command's payload is its own
		a := "own"
		if !nextOK {
			a = "foreign"
		}
		c.Emit(fmt.Sprintf("!next %d", id), a, true)
	}
}

func (c *Ctx) genReplyForE2E() *wire {
	for {
		w := c.genTop()
		if len(w.bytes()) < 3000 {
			return w
		}
	}
}

func runE2E(c *Ctx) {
	id := 0
	mk := func(ws ...*wire) e2ePlan {
		p := e2ePlan{entry: "ok", cut: -1, replies: ws, single: len(ws) == 1}
		for _, w := range ws {
			p.raw = append(p.raw, w.bytes())
			p.calls = append(p.calls, e2eCall{budget: -1})
		}
		return p
	}
	blob := func(s string) *wire { return &wire{kind: "blob", t: '$', s: []byte(s)} }
	run := func(p e2ePlan) { id++; runEpisode(c, p, id) }
	// ---- fixed episodes
	run(mk(blob("hello")))
	{
		p := mk(blob("hello"))
		p.calls = append(p.calls, e2eCall{-1}, e2eCall{-1}) // further WriteTo: sticky EOF
		run(p)
	}
	run(mk(blob("a"), &wire{kind: "int", v: -42}, &wire{kind: "line", t: ',', s: []byte("1.5")}, &wire{kind: "chunked", t: '$', cs: [][]byte{[]byte("ab"), []byte("c")}}))
	run(mk(&wire{kind: "null"}, blob("after-nil")))
	run(mk(&wire{kind: "line", t: '-', s: []byte("ERR boom")}, blob("after-err")))
	run(mk(&wire{kind: "arr", t: '*', xs: []*wire{blob("x"), {kind: "int", v: 1}}}, blob("after-array")))
	{
		p := mk(blob("hello"))
		p.entry = "ctxDone"
		run(p)
		p = mk(blob("a"), blob("b"))
		p.entry = "ctxDone"
		p.calls = append(p.calls, e2eCall{-1})
		run(p)
		p = mk(blob("hello"))
		p.entry = "ctxLate"
		run(p)
		p = mk(blob("a"), blob("b"))
		p.entry = "ctxLate"
		run(p)
		p = mk(blob("hello"))
		p.entry = "flushErr"
		run(p)
		p = mk(blob("a"), blob("b"))
		p.entry = "flushErr"
		run(p)
	}
	for cut := 0; cut <= 11; cut++ { // server drops mid-reply: "$5\r\nhello\r\n" is 11 bytes
		p := mk(blob("hello"))
		p.cut = cut
		if cut == 11 {
			p.cut = -1
		}
		p.calls = append(p.calls, e2eCall{-1})
		run(p)
	}
	{
		p := mk(blob("first"), blob("second"), blob("third"))
		p.cut = 11 + 6 // inside the second reply
		p.calls = append(p.calls, e2eCall{-1})
		run(p)
	}
	// DoMultiStream with 2..4 commands and a failure inside every non-last reply position:
	// connection cut in the middle of reply i, cut exactly in front of reply i, protocol error in reply i
	for ncmd := 2; ncmd <= 4; ncmd++ {
		for i := 0; i < ncmd-1; i++ {
			ws := make([]*wire, ncmd)
			off := 0
			for j := range ws {
				ws[j] = blob(fmt.Sprintf("reply-%d-of-%d", j, ncmd))
				if j < i {
					off += len(ws[j].bytes())
				}
			}
			p := mk(ws...)
			p.cut = off + len(ws[i].bytes())/2
			run(p)
			p = mk(ws...)
			p.cut = off
			run(p)
			p = mk(ws...)
			p.raw[i] = []byte("?bad\r\n")
			p.replies[i] = nil
			p.calls = append(p.calls, e2eCall{-1})
			run(p)
		}
	}
	// the two writer-failure witnesses (Rv.C29.unrepaired_overdiscard_witness / unrepaired_chunks_left_witness; repaired by /repo a376be4 — kept as regression episodes)
	{
		p := mk(blob("0123456789"), blob("XX+EVIL\r\n+LEFT"), blob("third"))
		p.calls[0].budget = 3
		run(p)
		p = mk(&wire{kind: "chunked", t: '$', cs: [][]byte{[]byte("abc"), []byte("def")}}, blob("second"))
		p.calls[0].budget = 1
		run(p)
		p = mk(blob("0123456789"))
		p.calls[0].budget = 3 // single DoStream: nothing follows (before a376be4 the over-long Discard ran into the deadline)
		run(p)
	}
	// ---- random episodes
	n := c.N
	for i := 0; i < n; i++ {
		ncmd := 1 + c.Rng.IntN(4)
		if c.Rng.IntN(3) == 0 {
			ncmd = 1
		}
		ws := make([]*wire, ncmd)
		for j := range ws {
			ws[j] = c.genReplyForE2E()
		}
		p := mk(ws...)
		if ncmd == 1 {
			p.single = c.Rng.IntN(2) == 0
		}
		// pushes in front of some replies
		for j := range p.raw {
			if c.Rng.IntN(5) == 0 {
				p.raw[j] = append(c.genPush().bytes(), p.raw[j]...)
			}
		}
		switch c.Rng.IntN(10) {
		case 0:
			p.entry = "ctxDone"
		case 1:
			p.entry = "flushErr"
			if c.Rng.IntN(2) == 0 {
				p.entry = "ctxLate"
			}
		case 2, 3: // server drops somewhere
			total := 0
			for _, r := range p.raw {
				total += len(r)
			}
			p.cut = c.Rng.IntN(total + 1)
		}
		// failing writers are rare in the random part: each may cost a connection deadline
		if p.entry == "ok" && p.cut < 0 && c.Rng.IntN(12) == 0 {
			j := c.Rng.IntN(ncmd)
			if class, pay := ws[j].expect(); class == "ok" && len(pay) > 0 {
				p.calls[j].budget = c.Rng.IntN(len(pay))
			}
		}
		for k := c.Rng.IntN(3); k > 0; k-- {
			p.calls = append(p.calls, e2eCall{-1})
		}
		if ncmd > 1 && c.Rng.IntN(10) == 0 {
			p.calls = p.calls[:1+c.Rng.IntN(ncmd-1)] // the caller stops early: the wire must still be held, not stored
		}
		run(p)
	}
}

func init() {
	suites["e2e"] = suite{
		rule: "end-to-end DoStream/DoMultiStream on the real client (NewClient, DialCtxFn over net.Pipe, streaming pool of no-background pipes) against a scripted server: 1-4 commands per call, replies of every kind (+ pushes in front), entries {ok, context already done at Acquire, context done between Acquire and the DoStream check, flush fails}, server drops after k reply bytes (every k for a short reply), writers {bytes.Buffer, failing after k bytes}, 0-2 extra WriteTo calls; observed per WriteTo (n, error class, bytes, HasNext), sticky Error(), streaming-pool size/idle list (VerifClientPools), client-side close of the connection, and the connection + payload of the next DoStream; compared with Rv.ResultStream.session; `!next` oracle: the next command's payload is its own; `!recycled` oracle + c.Fail keys stream:wire-not-recycled*: once the stream has no next reply the wire has been handed back exactly once (pool size/idle back at baseline, connection closed when unclean, follow-up DoStream on the capacity-1 pool acquires within a 400ms watchdog); non-trivial = every episode (distinct op line)",
		run:  runE2E,
		replay: func(c *Ctx, lines []string) {
			// an e2e line is replayed with the whole server byte stream as the first command's reply
			// (only the concatenation matters to the client) and no server-side cut
			for i, l := range lines {
				w := strings.Fields(l)
				if len(w) == 2 && w[0] == "!next" {
					continue // re-emitted by the episode it belongs to
				}
				if len(w) != 5 || (w[0] != "e2e" && w[0] != "!recycled") {
					c.Emit(l, "bad-op", true)
					continue
				}
				ncmd, _ := strconv.Atoi(w[2])
				p := e2ePlan{entry: w[1], cut: -1, single: ncmd == 1 && os.Getenv("E2E_MULTI") == "", raw: make([][]byte, ncmd), replies: make([]*wire, ncmd)}
				if ncmd > 0 {
					p.raw[0] = []byte(unhx(w[3]))
				}
				for _, cs := range strings.Split(w[4], ",") {
					b := strings.SplitN(cs, ":", 2)[0]
					budget := -1
					if b != "-" {
						budget, _ = strconv.Atoi(b)
					}
					p.calls = append(p.calls, e2eCall{budget})
				}
				runEpisode(c, p, 900000+i)
			}
		},
	}
}
