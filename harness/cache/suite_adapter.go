package main

// Suites `adapter` and `adapter-collision`: the CacheStore built by
// rueidis.NewSimpleCacheAdapter over an ideal user SimpleCache (a Go map kept in this
// harness) against the model Rv.Adapter and the specification Rv.Spec.Cache
// (driver lean/Rv/Drv/Adapter.lean).
//
//   reset -> ok
//   flight <k> <c> <ttlNs> <nowNs>   -> h:<valID>:<exp> | w:<id> | s
//   update <k> <c> <valID> <raw>     -> pxat=<n>
//   cancel <k> <c> <errNo> | delete <k>* | flush | close <errNo> -> ok
// each followed by " | F <flights> | U <user store> | D <closed channels>";
// oracle lines !flight / !update as in suite lru.

import (
	"fmt"
	"sort"
	"strconv"
	"strings"
	"time"

	"github.com/redis/rueidis"
)

func init() {
	replay := func(c *Ctx, lines []string) {
		r := &adRig{c: c, replaying: true}
		r.reset()
		for _, l := range lines {
			switch {
			case strings.HasPrefix(l, "!") && r.dead:
				c.Emit(l, "skipped", false)
			case strings.HasPrefix(l, "!"):
				c.Emit(l, "ok", false)
			default:
				r.exec(l)
			}
		}
	}
	suites["adapter"] = suite{
		rule: "episodes of 20-200 calls on one real NewSimpleCacheAdapter store over a map-backed SimpleCache (Flight/Update/Cancel/Delete/Close with an injected clock); the clock is non-decreasing within an episode, all times lie in [0, 2^40] ms, ttl >= 0, and key/cmd names are chosen so that key++cmd is injective (keys end in ':', cmds contain no ':') - the collision case is out of scope here and is the subject of suite adapter-collision; after every call the flights map (pending entries with their xat, nil markers), the user store and the closed channels are compared with the model, and the specification judges every observed hit/wait/send and returned pxat. non-trivial = the call changed flights or the user store, or returned a hit or a wait (distinct op lines)",
		run:  runAdapter, replay: replay,
	}
	suites["adapter-collision"] = suite{
		rule: "fixed witness on the real adapter: the user store is addressed by key+cmd, so (\"x\",\"HGETGET\") and (\"xHGET\",\"GET\") share the address \"xHGETGET\"; non-trivial = the hit for the second pair",
		run:  runAdapterCollision, replay: replay,
	}
}

// the user's SimpleCache: an ideal map
type simpleStore struct {
	m map[string]rueidis.RedisMessage
}

func (s *simpleStore) Get(key string) rueidis.RedisMessage      { return s.m[key] }
func (s *simpleStore) Set(key string, val rueidis.RedisMessage) { s.m[key] = val }
func (s *simpleStore) Del(key string)                           { delete(s.m, key) }
func (s *simpleStore) Flush()                                   { s.m = map[string]rueidis.RedisMessage{} }

type adRig struct {
	c     *Ctx
	user  *simpleStore
	s     rueidis.CacheStore
	ids   map[rueidis.CacheEntry]int
	open  map[rueidis.CacheEntry]int
	next  int
	f, u  string // rendered sections after the last call
	nilFl bool
	// (key, cmd) of pending entries and of nil markers after the last call
	pending [][2]string
	marked  [][2]string
	// ids of the pending entries after the last call; channels found closed by the last call
	pendingIDs []int
	lastDone   []idOut
	// dead: the real code panicked in this episode; the store is never touched again
	dead      bool
	replaying bool
}

type adObs struct {
	kind    string
	res     string
	pxat    int64
	changed bool
	closed  bool // flights was nil before the call
	// the real code panicked on this op / op of an episode abandoned after a panic
	panicked, skipped bool
}

func (r *adRig) reset() {
	r.user = &simpleStore{m: map[string]rueidis.RedisMessage{}}
	r.s = rueidis.NewSimpleCacheAdapter(r.user)
	r.ids = map[rueidis.CacheEntry]int{}
	r.open = map[rueidis.CacheEntry]int{}
	r.next = 0
	r.snapshot()
}

func (r *adRig) snapshot() {
	nilFl, fl := rueidis.VerifAdapterSnapshot(r.s)
	r.nilFl = nilFl
	r.pending, r.marked, r.pendingIDs = nil, nil, nil
	if nilFl {
		r.f = "nil"
	} else {
		// unseen entries get the next ids (at most one per call; sorted to stay deterministic otherwise)
		type kc struct{ k, c string }
		var fresh []kc
		for k, m := range fl {
			for c, e := range m {
				if e != nil {
					if _, ok := r.ids[e]; !ok {
						fresh = append(fresh, kc{k, c})
					}
				}
			}
		}
		sort.Slice(fresh, func(i, j int) bool {
			if fresh[i].k != fresh[j].k {
				return fresh[i].k < fresh[j].k
			}
			return fresh[i].c < fresh[j].c
		})
		for _, x := range fresh {
			e := fl[x.k][x.c]
			r.ids[e] = r.next
			r.open[e] = r.next
			r.next++
		}
		var items []string
		for k, m := range fl {
			if len(m) == 0 {
				items = append(items, hx(k)+":")
			}
			for c, e := range m {
				if e == nil {
					items = append(items, hx(k)+":"+hx(c)+"=nil")
					r.marked = append(r.marked, [2]string{k, c})
				} else {
					items = append(items, fmt.Sprintf("%s:%s=%d@%d", hx(k), hx(c), r.ids[e], rueidis.VerifAdapterEntryXat(e)))
					r.pending = append(r.pending, [2]string{k, c})
					r.pendingIDs = append(r.pendingIDs, r.ids[e])
				}
			}
		}
		sort.Strings(items)
		r.f = strings.Join(items, " ")
		sortKC := func(l [][2]string) {
			sort.Slice(l, func(i, j int) bool { return l[i][0]+"\x00"+l[i][1] < l[j][0]+"\x00"+l[j][1] })
		}
		sortKC(r.pending)
		sortKC(r.marked)
	}
	us := make([]string, 0, len(r.user.m))
	for addr, m := range r.user.m {
		_, vid, exp, _ := rueidis.VerifCacheMsgInfo(m)
		us = append(us, fmt.Sprintf("%s=%d@%d", hx(addr), vid, exp))
	}
	sort.Strings(us)
	r.u = strings.Join(us, " ")
}

func (r *adRig) done() string {
	var d []idOut
	for p, id := range r.open {
		if closed, val, err := rueidis.VerifEntryState(p); closed {
			d = append(d, idOut{id, outcomeStr(id, val, err)})
			delete(r.open, p)
		}
	}
	s := joinDone(d) // sorts d by id
	r.lastDone = d
	return s
}

// exec: see lruRig.exec for the treatment of panics of the real code
func (r *adRig) exec(line string) (obs adObs) {
	w := strings.Fields(line)
	if len(w) == 0 {
		panic(opErr("adapter: empty op line"))
	}
	if w[0] == "reset" {
		r.dead = false
	}
	if r.dead {
		if r.replaying {
			r.c.Emit(line, "skipped", false)
		}
		return adObs{kind: w[0], skipped: true}
	}
	if msg := guard(func() { obs = r.exec0(line) }); msg != "" {
		r.dead = true
		r.c.Hit("panic:" + w[0])
		r.c.Emit(line, "panic", true) // first, so that the finding's line number is this line
		r.c.Fail("adapter:panic:"+w[0], line, "real code panicked: "+msg)
		return adObs{kind: w[0], panicked: true}
	}
	return obs
}

func (r *adRig) exec0(line string) (obs adObs) {
	w := strings.Fields(line)
	obs.kind = w[0]
	obs.closed = r.nilFl
	pf, pu := r.f, r.u
	var fv rueidis.RedisMessage
	var fe rueidis.CacheEntry
	switch w[0] {
	case "reset":
		r.reset()
		r.c.Emit(line, "ok", false)
		return
	case "flight":
		fv, fe = r.s.Flight(unhx(w[1]), unhx(w[2]), time.Duration(i64(w[3])), time.Unix(0, i64(w[4])))
	case "update":
		obs.pxat = r.s.Update(unhx(w[1]), unhx(w[2]), rueidis.VerifCacheMsg(u64(w[3]), rueidis.VerifMessageStructSize+24, i64(w[4])))
		obs.res = "pxat=" + itoa(obs.pxat)
	case "cancel":
		r.s.Cancel(unhx(w[1]), unhx(w[2]), fmt.Errorf("e%d", u64(w[3])))
		obs.res = "ok"
	case "delete":
		r.s.Delete(delKeys(w[1:]))
		obs.res = "ok"
	case "flush":
		r.s.Delete(nil)
		obs.res = "ok"
	case "close":
		r.s.Close(fmt.Errorf("e%d", u64(w[1])))
		obs.res = "ok"
	default:
		panic(opErr("adapter: unknown op line: " + line))
	}
	r.snapshot()
	if w[0] == "flight" {
		if typ, vid, exp, _ := rueidis.VerifCacheMsgInfo(fv); typ != 0 {
			obs.res = fmt.Sprintf("h:%d:%d", vid, exp)
			if fe != nil {
				obs.res += "+entry"
			}
		} else if fe != nil {
			if id, ok := r.ids[fe]; ok {
				obs.res = "w:" + strconv.Itoa(id)
			} else {
				obs.res = "w:?"
			}
		} else {
			obs.res = "s"
		}
	}
	obs.changed = pf != r.f || pu != r.u
	nontrivial := obs.changed || strings.HasPrefix(obs.res, "h:") || strings.HasPrefix(obs.res, "w:")
	r.c.Emit(line, fmt.Sprintf("%s | F %s | U %s | D %s", obs.res, r.f, r.u, r.done()), nontrivial)
	return
}

func hasKC(l [][2]string, k, c string) bool {
	for _, x := range l {
		if x[0] == k && x[1] == c {
			return true
		}
	}
	return false
}

// do = exec + oracle lines
func (r *adRig) do(line string) adObs {
	c := r.c
	w := strings.Fields(line)
	var wasPending, wasMarked bool
	if len(w) > 2 {
		wasPending = hasKC(r.pending, unhx(w[1]), unhx(w[2]))
		wasMarked = hasKC(r.marked, unhx(w[1]), unhx(w[2]))
	}
	nPending := len(r.pending)
	pendingIDs := append([]int(nil), r.pendingIDs...)
	obs := r.exec(line)
	if obs.panicked || obs.skipped {
		return obs
	}
	state := func() string {
		switch {
		case obs.closed:
			return "closed"
		case wasPending:
			return "pending"
		case wasMarked:
			return "marked"
		}
		return "absent"
	}
	switch obs.kind {
	case "flight":
		c.Emit(fmt.Sprintf("!flight %s %s %s %s %s", w[1], w[2], w[3], w[4], obs.res), "ok", false)
		switch {
		case strings.HasPrefix(obs.res, "h:"):
			c.Hit("flight:hit")
		case strings.HasPrefix(obs.res, "w:"):
			c.Hit("flight:wait")
		case wasMarked:
			c.Hit("flight:send:marker(expired-or-deleted-from-user-store)")
		default:
			c.Hit("flight:send:" + state())
		}
	case "update":
		c.Emit(fmt.Sprintf("!update %s %s %s %s %d", w[1], w[2], w[3], w[4], obs.pxat), "ok", false)
		c.Hit("update:" + state())
		if wasPending && !obs.closed {
			_, packed := rueidis.VerifPack(i64(w[4]))
			switch {
			case packed == 0:
				c.Hit("update:pxat:no-server-expiry")
			case obs.pxat == packed:
				c.Hit("update:pxat:server-shortens-or-equal")
			default:
				c.Hit("update:pxat:client-wins")
			}
		}
	case "cancel":
		c.Hit("cancel:" + state())
	case "delete", "flush":
		switch {
		case obs.closed:
			c.Hit(obs.kind + ":closed")
		case obs.changed:
			c.Hit(obs.kind + ":removed")
		default:
			c.Hit(obs.kind + ":nothing-to-remove")
		}
	case "close":
		switch {
		case obs.closed:
			c.Hit("close:again")
		case nPending > 0:
			c.Hit("close:fails-pending")
		default:
			c.Hit("close:no-pending")
		}
		closeOracle(c, "adapter:close-skipped-pending", pendingIDs, r.lastDone, w[1])
	}
	return obs
}

var (
	adKeyPool = []string{"a:", "bb:", "c:", "a:a:", "dd:e:", ":", "k:"}
	adCmdPool = []string{"GET", "HGETf", "GETk", "G", "a", "HGET"}
	// weighted by repetition
	adTTLs = []int64{1000000, 1000000000, 1000000000, 10000000000, 10000000000, 10000000000, 10000000000, 3600000000000, 3600000000000, 3600000000000,
		999999, 0, 1500000000, 2000000000, 1}
)

type adGen struct {
	c     *Ctx
	r     *adRig
	keys  []string
	cmds  []string
	now   int64
	valID uint64
	errNo int
}

func (g *adGen) rnd(n int) int { return g.c.Rng.IntN(n) }

func (g *adGen) tick() {
	switch x := g.rnd(100); {
	case x < 18:
	case x < 32:
		g.now += int64(1 + g.rnd(999999))
	case x < 60:
		g.now += int64(1000000 + g.rnd(100000000))
	case x < 88:
		g.now += int64(1000000 + g.rnd(3000000000))
	case x < 93:
		g.now += int64(10000000000 + g.rnd(7200)*1000000000)
	default:
		g.now += 1000000 * int64(1+g.rnd(3))
	}
}

func (g *adGen) target(wP, wM int) (string, string) {
	x := g.rnd(100)
	if x < wP && len(g.r.pending) > 0 {
		p := g.r.pending[g.rnd(len(g.r.pending))]
		return p[0], p[1]
	}
	if x >= wP && x < wP+wM && len(g.r.marked) > 0 {
		p := g.r.marked[g.rnd(len(g.r.marked))]
		return p[0], p[1]
	}
	return g.keys[g.rnd(len(g.keys))], g.cmds[g.rnd(len(g.cmds))]
}

func (g *adGen) step() {
	r := g.r
	if r.dead {
		return
	}
	switch x := g.rnd(100); {
	case x < 42:
		k, c := g.target(15, 40)
		g.tick()
		r.do(fmt.Sprintf("flight %s %s %d %d", hx(k), hx(c), adTTLs[g.rnd(len(adTTLs))], g.now))
	case x < 74:
		k, c := g.target(75, 10)
		g.valID++
		nowMs := g.now / 1000000
		var raw int64
		switch y := g.rnd(100); {
		case y < 35:
			raw = 0
		case y < 43:
			raw = nowMs
		case y < 60:
			raw = nowMs + 1 + int64(g.rnd(2000))
		case y < 72:
			raw = nowMs + 10000000
		case y < 82:
			raw = nowMs + 1000 + int64(g.rnd(3))
		case y < 90:
			raw = nowMs + 10000 - int64(g.rnd(3))
		case y < 95:
			raw = nowMs - 1 - int64(g.rnd(1000))
		default:
			raw = 1 << 40
		}
		if raw < 0 {
			raw = 0
		}
		r.do(fmt.Sprintf("update %s %s %d %d", hx(k), hx(c), g.valID, raw))
	case x < 82:
		k, c := g.target(60, 15)
		g.errNo++
		r.do(fmt.Sprintf("cancel %s %s %d", hx(k), hx(c), g.errNo))
	case x < 93:
		n := 1 + g.rnd(3)
		if g.rnd(10) == 0 {
			n = 0
		}
		ws := []string{"delete"}
		for i := 0; i < n; i++ {
			k := g.keys[g.rnd(len(g.keys))]
			if g.rnd(12) == 0 {
				k = "zz:"
			}
			ws = append(ws, hx(k))
		}
		r.do(strings.Join(ws, " "))
	case x < 96:
		r.do("flush")
	default:
		for i := 0; i < 2+g.rnd(4); i++ {
			k, c := g.target(0, 0)
			g.tick()
			r.do(fmt.Sprintf("flight %s %s %d %d", hx(k), hx(c), adTTLs[g.rnd(len(adTTLs))], g.now))
		}
	}
}

func runAdapter(c *Ctx) {
	r := &adRig{c: c}
	for ep := 0; ep < c.N; ep++ {
		g := &adGen{c: c, r: r}
		g.keys = pickN(c, adKeyPool, 3+c.Rng.IntN(2))
		g.cmds = pickN(c, adCmdPool, 3+c.Rng.IntN(2))
		switch x := c.Rng.IntN(10); {
		case x < 6:
			g.now = 1000000000000000 + int64(c.Rng.IntN(1000000000)) // 1e9 ms
		case x < 8:
			g.now = int64(c.Rng.IntN(5000000))
		default:
			g.now = 500000000000000000 // 5e11 ms
		}
		nOps := 20 + c.Rng.IntN(181)
		if c.Tier == "thorough" {
			nOps = 20 + c.Rng.IntN(301)
		}
		closeAt := -1
		if c.Rng.IntN(20) == 0 {
			closeAt = c.Rng.IntN(nOps/2 + 1)
			c.Hit("episode:closes-early")
		}
		r.do("reset")
		for i := 0; i < nOps && !r.dead; i++ {
			if i == closeAt {
				g.errNo++
				r.do(fmt.Sprintf("close %d", g.errNo))
			}
			g.step()
		}
		if c.Rng.IntN(4) == 0 {
			g.errNo++
			r.do(fmt.Sprintf("close %d", g.errNo))
			if c.Rng.IntN(2) == 0 {
				g.step()
				g.errNo++
				r.do(fmt.Sprintf("close %d", g.errNo))
			}
		}
	}
}

// runAdapterCollision: ("x","HGETGET") is filled, then ("xHGET","GET") is looked up and the
// real adapter answers with the other command's reply. No oracle lines: the model
// collides in the same way, the finding is reported through c.Fail.
func runAdapterCollision(c *Ctx) {
	r := &adRig{c: c}
	now := int64(1000000000000000)
	r.exec("reset")
	r.exec(fmt.Sprintf("flight %s %s 10000000000 %d", hx("x"), hx("HGETGET"), now))
	r.exec(fmt.Sprintf("update %s %s 1 0", hx("x"), hx("HGETGET")))
	op := fmt.Sprintf("flight %s %s 10000000000 %d", hx("xHGET"), hx("GET"), now+1000000)
	obs := r.exec(op)
	if strings.HasPrefix(obs.res, "h:") {
		c.Hit("collision:hit")
		c.Fail("adapter:key++cmd-collision", op,
			"Flight(key=\"xHGET\", cmd=\"GET\") returned "+obs.res+": the reply cached for (key=\"x\", cmd=\"HGETGET\"), because the user store is addressed by key+cmd = \"xHGETGET\" for both")
	} else {
		c.Hit("collision:no-hit")
	}
}
