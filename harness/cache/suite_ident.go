package main

// Suite `cmdident` (C08) - identity of the per-key cache entries of MGET / JSON.MGET: the derived command
// under which key k of `JSON.MGET k1 k2 p` is cached (cmds.MGetCacheCmd) equals the command of
// `JSON.GET k q` (cmds.CacheKey) exactly when p = q. Pure functions, no timing.
// Driver: lean/Rv/Drv/CachePipe.lean (Rv.Spec.Cache.jsonIdentOk).
//
//   !jsonident <hex p> <hex q> <1 if the two derived commands are equal, else 0>
//   !jsonident - - <eq>        also: MGetCacheCmd(MGET k1 k2) against CacheKey(GET k1)

import (
	"fmt"

	"github.com/redis/rueidis/internal/cmds"
)

func init() {
	suites["cmdident"] = suite{
		rule: "JSON paths {$, $.a, .a, $..b, ..b, $[0], [0], a, $a, $$.a, $.a.b, .a.b, '$ ', '', '$.', '.'} plus n random short strings over {$ . a b [ 0 ]}: for every ordered pair (p, q) of the fixed alphabet and n random pairs (half of them p, p-with-or-without-a-leading-$) the derived cache command of builder-made JSON.MGET k1 k2 p (cmds.MGetCacheCmd) is compared with the cache command of builder-made JSON.GET k1 q (cmds.CacheKey): equal iff p = q; plus MGET k1 k2 against GET k1; non-trivial = every line",
		run:  runCmdIdent,
		replay: func(c *Ctx, lines []string) {
			for _, l := range lines {
				c.Emit(l, "ok", false)
			}
		},
	}
}

func identOf(c *Ctx, p, q string) (mg, g string, ok bool) {
	defer func() {
		if r := recover(); r != nil {
			c.Hit("cmdident:builder-panic")
			ok = false
		}
	}()
	mg = cmds.MGetCacheCmd(cmds.NewBuilder(cmds.NoSlot).JsonMget().Key("k1", "k2").Path(p).Cache())
	_, g = cmds.CacheKey(cmds.NewBuilder(cmds.NoSlot).JsonGet().Key("k1").Path(q).Cache())
	return mg, g, true
}

func identPair(c *Ctx, p, q string) {
	mg, g, ok := identOf(c, p, q)
	if !ok {
		return
	}
	eq := mg == g
	op := fmt.Sprintf("!jsonident %s %s %s", hx(p), hx(q), map[bool]string{true: "1", false: "0"}[eq])
	c.Emit(op, "ok", true)
	switch {
	case eq && p == q:
		c.Hit("cmdident:same-path-shares")
	case !eq && p != q:
		c.Hit("cmdident:distinct-paths-distinct")
	default:
		c.Fail("cachekey:mget-path-normalised", op, fmt.Sprintf("JSON.MGET k1 k2 %q caches its keys under command %q, JSON.GET k1 %q is cached under %q: equal=%v although the paths are %s",
			p, mg, q, g, eq, map[bool]string{true: "the same", false: "different"}[p == q]))
	}
}

func runCmdIdent(c *Ctx) {
	paths := []string{"$", "$.a", ".a", "$..b", "..b", "$[0]", "[0]", "a", "$a", "$$.a", "$.a.b", ".a.b", "$ ", "", "$.", "."}
	// plain MGET: every key is the entry of GET
	func() {
		defer func() {
			if recover() != nil {
				c.Hit("cmdident:builder-panic")
			}
		}()
		mg := cmds.MGetCacheCmd(cmds.NewBuilder(cmds.NoSlot).Mget().Key("k1", "k2").Cache())
		_, g := cmds.CacheKey(cmds.NewBuilder(cmds.NoSlot).Get().Key("k1").Cache())
		op := fmt.Sprintf("!jsonident - - %s", map[bool]string{true: "1", false: "0"}[mg == g])
		c.Emit(op, "ok", true)
		if mg != g {
			c.Fail("cachekey:mget-path-normalised", op, fmt.Sprintf("MGET k1 k2 caches its keys under command %q, GET k1 is cached under %q", mg, g))
		}
	}()
	for _, p := range paths {
		for _, q := range paths {
			identPair(c, p, q)
		}
	}
	alpha := []byte{'$', '.', 'a', 'b', '[', '0', ']'}
	rnd := func() string {
		b := make([]byte, c.Rng.IntN(6))
		for i := range b {
			b[i] = alpha[c.Rng.IntN(len(alpha))]
		}
		if c.Rng.IntN(3) == 0 {
			return "$" + string(b)
		}
		return string(b)
	}
	for i := 0; i < c.N; i++ {
		p := rnd()
		q := rnd()
		switch c.Rng.IntN(4) {
		case 0: // the same path
			q = p
		case 1: // the pair that a "normalisation" of the leading $ would merge
			if len(p) > 0 && p[0] == '$' {
				q = p[1:]
			} else {
				q = "$" + p
			}
		}
		identPair(c, p, q)
		if c.Rng.IntN(2) == 0 {
			identPair(c, q, p)
		}
	}
}
