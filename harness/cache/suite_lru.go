package main

// Suite `lru`: the real lru (lru.go) against the model Rv.Lru and the specification
// Rv.Spec.Cache (driver lean/Rv/Drv/Lru.lean).
//
// Ordinary lines (answered by the model; <res> followed by the snapshot suffix):
//   reset <max> <base>                      -> ok
//   flight <k> <c> <ttlNs> <nowNs>          -> h:<valID>:<exp> | w:<id> | s
//   flights <nowNs> (<k> <c> <ttlNs>)*      -> r=<r0>,<r1>,… m=<i>,<j>,…
//   update <k> <c> <valID> <vsz> <raw>      -> pxat=<n>
//   cancel <k> <c> <errNo> | delete <k>* | flush | close <errNo> | sethits <k> <n> -> ok
//   getttl <k> <c> <nowMs>                  -> ttl=<ns>           (no snapshot)
//   pack <v> | ttls <exp> <nowMs> | srvexp <arrivalNs> <pttl>    (stateless)
// snapshot suffix: " | sz=<size> cl=<0|1> | L <entries> | S <keys> | D <closed channels>"
// Oracle lines (answered by the specification, the harness answers `ok`):
//   !flight, !flights, !update, !bound, !evict; !ttls (answered with the real result).

import (
	"fmt"
	"math"
	"sort"
	"strconv"
	"strings"
	"time"

	"github.com/redis/rueidis"
	"github.com/redis/rueidis/internal/cmds"
)

func init() {
	suites["lru"] = suite{
		rule: "episodes of 20-200 calls on one real lru (reset max base; Flight/Flights/Update/Cancel/Delete/Close with an injected clock, GetTTL with the bracketed real clock) over small colliding key/cmd alphabets, max in {-1,0,400,800,1452,3000,20000}, unequal value sizes (tiny/medium/>max/2/>max) so that one Update needs several evictions, clock with sub-ms offsets and backward steps, server expiries around the client expiry, keyCache.hits forced next to multiples of 1024; after every call the full list, store map, size and closed channels are compared with the model and the specification judges the observed hit/wait/send, pxat, size bound and eviction set; plus stateless pack/ttls/srvexp lines. non-trivial = the call changed the recency list or returned a hit or a wait (distinct op lines)",
		run:  runLru,
		replay: func(c *Ctx, lines []string) {
			r := &lruRig{c: c}
			r.reset(0)
			r.replay(lines)
		},
	}
}

// ---------------------------------------------------------------- shared helpers

// opErr is a panic raised by this harness for a malformed op line (not by the real code)
type opErr string

// guard runs f and returns the panic message of the real code, "" if it did not panic
func guard(f func()) (msg string) {
	defer func() {
		if p := recover(); p != nil {
			if e, ok := p.(opErr); ok {
				panic(e)
			}
			msg = strings.Join(strings.Fields(fmt.Sprint(p)), " ")
			if msg == "" {
				msg = "(empty panic value)"
			}
		}
	}()
	f()
	return ""
}

func i64(s string) int64 {
	v, err := strconv.ParseInt(s, 10, 64)
	if err != nil {
		panic(opErr("bad integer in op line: " + s))
	}
	return v
}

func u64(s string) uint64 {
	v, err := strconv.ParseUint(s, 10, 64)
	if err != nil {
		panic(opErr("bad natural in op line: " + s))
	}
	return v
}

func itoa(v int64) string { return strconv.FormatInt(v, 10) }

// outcome of a closed CacheEntry channel as the model prints it
func outcomeStr(id int, val rueidis.RedisMessage, err error) string {
	if err != nil {
		return fmt.Sprintf("%d=%s", id, err.Error())
	}
	_, vid, exp, _ := rueidis.VerifCacheMsgInfo(val)
	return fmt.Sprintf("%d=v%d@%d", id, vid, exp)
}

type idOut struct {
	id int
	s  string
}

func joinDone(d []idOut) string {
	sort.Slice(d, func(i, j int) bool { return d[i].id < d[j].id })
	ss := make([]string, len(d))
	for i := range d {
		ss[i] = d[i].s
	}
	return strings.Join(ss, " ")
}

func delKeys(ws []string) []rueidis.RedisMessage {
	keys := make([]rueidis.RedisMessage, 0, len(ws))
	for _, k := range ws {
		keys = append(keys, rueidis.VerifStrMsg(unhx(k)))
	}
	return keys
}

// ---------------------------------------------------------------- lru rig

type lruEnt struct {
	ptr   rueidis.CacheEntry
	id    int
	key   string
	cmd   string
	pend  bool
	valID uint64
	size  int
	exp   int64
}

type lruView struct {
	size    int
	closed  bool
	list    []lruEnt
	store   []rueidis.VerifLRUKey
	anomaly string
	l, s    string // rendered L and S sections
}

func (v *lruView) find(k, c string) *lruEnt {
	for i := range v.list {
		if v.list[i].key == k && v.list[i].cmd == c {
			return &v.list[i]
		}
	}
	return nil
}

type lruRig struct {
	c    *Ctx
	s    rueidis.CacheStore
	max  int
	ids  map[rueidis.CacheEntry]int
	next int
	open map[rueidis.CacheEntry]int // entries whose channel has not been seen closed yet
	cur  lruView
	// channels found closed by the last stateful op (id, outcome), sorted by id
	lastDone []idOut
	// dead: the real code panicked in this episode; the store (its mutex may still be held)
	// is never touched again, a fresh one is made at the next reset
	dead      bool
	replaying bool
	// replay: the last `ttls` line (for the `!ttls` line that follows it)
	lastTTLs [2]string
}

type lruObs struct {
	kind      string
	res       string
	per       []string // flights: per index result
	pxat      int64
	pre, post lruView
	changed   bool
	panicked  bool // the real code panicked on this op (answer `panic`, episode abandoned)
	skipped   bool // op of an abandoned episode
}

func (r *lruRig) reset(max int) {
	r.s = rueidis.VerifNewLRU(max)
	r.max = max
	r.ids = map[rueidis.CacheEntry]int{}
	r.open = map[rueidis.CacheEntry]int{}
	r.next = 0
	r.cur = r.view(nil)
}

func (r *lruRig) assign(p rueidis.CacheEntry) {
	if p == nil {
		return
	}
	if _, ok := r.ids[p]; !ok {
		r.ids[p] = r.next
		r.open[p] = r.next
		r.next++
	}
}

func (r *lruRig) idStr(p rueidis.CacheEntry) string {
	if p == nil {
		return "nil"
	}
	if id, ok := r.ids[p]; ok {
		return strconv.Itoa(id)
	}
	return "?"
}

// view snapshots the real lru. created lists (key, cmd) pairs in the order in which the
// operation created new entries (Flights: the returned missed indexes); remaining unseen
// entries get ids in list order (new entries are pushed to the back).
func (r *lruRig) view(created [][2]string) lruView {
	raw := rueidis.VerifLRUSnapshot(r.s)
	v := lruView{size: raw.Size, closed: raw.ListNil, store: raw.Store}
	if raw.ListNil != raw.StoreNil {
		v.anomaly += fmt.Sprintf(" !list-nil=%v,store-nil=%v", raw.ListNil, raw.StoreNil)
	}
	for _, kc := range created {
		for _, k := range raw.Store {
			if k.Key == kc[0] {
				r.assign(k.Cmds[kc[1]])
			}
		}
	}
	for _, e := range raw.List {
		r.assign(e.E)
	}
	sort.Slice(v.store, func(i, j int) bool { return hx(v.store[i].Key) < hx(v.store[j].Key) })
	for _, k := range v.store {
		cs := make([]string, 0, len(k.Cmds))
		for c := range k.Cmds {
			cs = append(cs, c)
		}
		sort.Slice(cs, func(i, j int) bool { return hx(cs[i]) < hx(cs[j]) })
		for _, c := range cs {
			r.assign(k.Cmds[c]) // only entries that are in the map but not in the list (anomaly)
		}
	}
	ls := make([]string, 0, len(raw.List))
	for _, e := range raw.List {
		_, vid, _, _ := rueidis.VerifCacheMsgInfo(e.Val)
		le := lruEnt{ptr: e.E, id: r.ids[e.E], key: e.Key, cmd: e.Cmd, pend: e.Pending, valID: vid, size: e.Size, exp: e.Exp}
		if e.KcNil {
			v.anomaly += " !kc-nil"
		}
		v.list = append(v.list, le)
		pc := "C"
		if le.pend {
			pc = "P"
		}
		ls = append(ls, fmt.Sprintf("%d:%s:%s:%s:%d:%d:%d", le.id, hx(le.key), hx(le.cmd), pc, le.valID, le.size, le.exp))
	}
	v.l = strings.Join(ls, " ")
	ks := make([]string, 0, len(v.store))
	for _, k := range v.store {
		if k.Key != k.KcKey {
			v.anomaly += " !kc.key=" + hx(k.KcKey) + "@" + hx(k.Key)
		}
		items := make([]string, 0, len(k.Cmds))
		for c, p := range k.Cmds {
			items = append(items, hx(c)+"="+r.idStr(p))
		}
		sort.Strings(items) // the driver sorts the rendered "<hexcmd>=<id>" items
		ks = append(ks, fmt.Sprintf("%s:%d:%s", hx(k.Key), k.Hits, strings.Join(items, ",")))
	}
	v.s = strings.Join(ks, " ")
	return v
}

// done lists the entries whose channel was closed since the last call, sorted by id.
func (r *lruRig) done() string {
	var d []idOut
	for p, id := range r.open {
		if closed, val, err := rueidis.VerifEntryState(p); closed {
			d = append(d, idOut{id, outcomeStr(id, val, err)})
			delete(r.open, p)
		}
	}
	s := joinDone(d) // sorts d by id
	r.lastDone = d
	return s
}

// idList renders ids for the `!close` oracle line: ascending, comma separated, "-" = none
func idList(ids []int) string {
	if len(ids) == 0 {
		return "-"
	}
	sort.Ints(ids)
	ss := make([]string, len(ids))
	for i, id := range ids {
		ss[i] = strconv.Itoa(id)
	}
	return strings.Join(ss, ",")
}

// closeOracle: Close(err) must wake the waiters of every entry that was pending, and only those
func closeOracle(c *Ctx, failKey string, pending []int, done []idOut, errNo string) {
	var released []int
	for _, d := range done {
		if d.s == fmt.Sprintf("%d=e%s", d.id, errNo) {
			released = append(released, d.id)
		}
	}
	p, rl := idList(pending), idList(released)
	op := fmt.Sprintf("!close %s %s", p, rl)
	c.Emit(op, "ok", false)
	if p != rl {
		c.Fail(failKey, op, fmt.Sprintf("Close(e%s): pending entries before the call: %s; entries whose waiters were woken with the error: %s", errNo, p, rl))
	}
}

func (r *lruRig) suffix(v lruView) string {
	cl := 0
	if v.closed {
		cl = 1
	}
	return fmt.Sprintf(" | sz=%d cl=%d | L %s | S %s | D %s%s", v.size, cl, v.l, v.s, r.done(), v.anomaly)
}

func (r *lruRig) flightRes(v rueidis.RedisMessage, e rueidis.CacheEntry) string {
	if typ, vid, exp, _ := rueidis.VerifCacheMsgInfo(v); typ != 0 {
		return fmt.Sprintf("h:%d:%d", vid, exp)
	}
	if e != nil {
		return "w:" + r.idStr(e)
	}
	return "s"
}

// exec runs one ordinary op line on the real code and emits it with the real answer.
// A panic of the real code is answered `panic`, reported through c.Fail and ends the
// episode: until the next reset nothing is executed any more (generator: nothing is
// emitted either; replay: the remaining lines are answered `skipped`).
func (r *lruRig) exec(line string) (obs lruObs) {
	w := strings.Fields(line)
	if len(w) == 0 {
		panic(opErr("lru: empty op line"))
	}
	if w[0] == "reset" {
		r.dead = false
	}
	if r.dead {
		if r.replaying {
			r.c.Emit(line, "skipped", false)
		}
		return lruObs{kind: w[0], skipped: true, pre: r.cur, post: r.cur}
	}
	if msg := guard(func() { obs = r.exec0(line) }); msg != "" {
		r.dead = true
		r.c.Hit("panic:" + w[0])
		r.c.Emit(line, "panic", true) // first, so that the finding's line number is this line
		r.c.Fail("lru:panic:"+w[0], line, "real code panicked: "+msg)
		return lruObs{kind: w[0], panicked: true, pre: r.cur, post: r.cur}
	}
	return obs
}

func (r *lruRig) exec0(line string) (obs lruObs) {
	w := strings.Fields(line)
	obs.kind = w[0]
	obs.pre = r.cur
	var created [][2]string
	switch w[0] {
	case "reset":
		r.reset(int(i64(w[1])))
		if int(i64(w[2])) != rueidis.VerifEntryBaseSize {
			panic(opErr("reset: base differs from entryBaseSize of this build"))
		}
		r.c.Emit(line, "ok", false)
		obs.post = r.cur
		return
	case "flight":
		k, c := unhx(w[1]), unhx(w[2])
		v, e := r.s.Flight(k, c, time.Duration(i64(w[3])), time.Unix(0, i64(w[4])))
		obs.post = r.view(nil)
		obs.res = r.flightRes(v, e)
	case "flights":
		now := i64(w[1])
		var multi []rueidis.CacheableTTL
		var kcs [][2]string
		for i := 2; i+2 < len(w); i += 3 {
			k, c := unhx(w[i]), unhx(w[i+1])
			kcs = append(kcs, [2]string{k, c})
			multi = append(multi, rueidis.CT(rueidis.Cacheable(cmds.NewCompleted([]string{c, k})), time.Duration(i64(w[i+2]))))
		}
		hits, entries, missed, resErr := rueidis.VerifFlights(r.s, time.Unix(0, now), multi)
		inMissed := map[int]bool{}
		ms := make([]string, len(missed))
		for j, i := range missed {
			inMissed[i] = true
			ms[j] = strconv.Itoa(i)
			if i >= 0 && i < len(kcs) {
				created = append(created, kcs[i])
			}
		}
		obs.post = r.view(created)
		obs.per = make([]string, len(multi))
		for i := range multi {
			s := ""
			if typ, vid, exp, _ := rueidis.VerifCacheMsgInfo(hits[i]); typ != 0 {
				s += fmt.Sprintf("h:%d:%d", vid, exp)
			}
			if e, ok := entries[i]; ok {
				s += "w:" + r.idStr(e)
			}
			if inMissed[i] {
				s += "s"
			}
			if s == "" {
				s = "-"
			}
			obs.per[i] = s
		}
		obs.res = "r=" + strings.Join(obs.per, ",") + " m=" + strings.Join(ms, ",")
		if resErr {
			obs.res += "!err"
		}
		for i := range entries {
			if i < 0 || i >= len(multi) {
				obs.res += "!entries-index"
			}
		}
	case "update":
		k, c := unhx(w[1]), unhx(w[2])
		obs.pxat = r.s.Update(k, c, rueidis.VerifCacheMsg(u64(w[3]), int(i64(w[4])), i64(w[5])))
		obs.post = r.view(nil)
		obs.res = "pxat=" + itoa(obs.pxat)
	case "cancel":
		r.s.Cancel(unhx(w[1]), unhx(w[2]), fmt.Errorf("e%d", u64(w[3])))
		obs.post = r.view(nil)
		obs.res = "ok"
	case "delete":
		r.s.Delete(delKeys(w[1:]))
		obs.post = r.view(nil)
		obs.res = "ok"
	case "flush":
		r.s.Delete(nil)
		obs.post = r.view(nil)
		obs.res = "ok"
	case "close":
		r.s.Close(fmt.Errorf("e%d", u64(w[1])))
		obs.post = r.view(nil)
		obs.res = "ok"
	case "sethits":
		rueidis.VerifLRUSetHits(r.s, unhx(w[1]), uint32(u64(w[2])))
		obs.post = r.view(nil)
		obs.res = "ok"
	case "getttl":
		k, c := unhx(w[1]), unhx(w[2])
		t0 := time.Now().UnixMilli()
		d := int64(rueidis.VerifLRUGetTTL(r.s, k, c))
		t1 := time.Now().UnixMilli()
		pick := t0
		if e := r.cur.find(k, c); e != nil {
			for ms := t0; ms <= t1; ms++ {
				m := (e.exp - ms) * 1000000
				if m <= 0 {
					m = -2
				}
				if m == d {
					pick = ms
					break
				}
			}
		}
		obs.post = r.cur
		obs.res = "ttl=" + itoa(d)
		if d > 0 {
			r.c.Hit("getttl:positive")
		} else {
			r.c.Hit("getttl:-2")
		}
		r.c.Emit(fmt.Sprintf("getttl %s %s %d", w[1], w[2], pick), obs.res, d > 0)
		return
	case "pack":
		b, g := rueidis.VerifPack(i64(w[1]))
		bs := make([]string, 7)
		for i := range b {
			bs[i] = strconv.Itoa(int(b[i]))
		}
		obs.post = r.cur
		obs.res = strings.Join(bs, ",") + " " + itoa(g)
		r.c.Hit("pack")
		r.c.Emit(line, obs.res, g != i64(w[1]))
		return
	case "ttls":
		exp := i64(w[1])
		pick, ans := int64(0), ""
		for try := 0; try < 200 && ans == ""; try++ {
			t0 := time.Now().UnixMilli()
			pxat, pttl, ttl := rueidis.VerifCacheTTLs(exp)
			t1 := time.Now().UnixMilli()
			got := fmt.Sprintf("pxat=%d pttl=%d ttl=%d", pxat, pttl, ttl)
			for ms := t0; ms <= t1; ms++ {
				// the model's formula (Rv.Lru.cachePTTL / cacheTTL) with the clock reading ms
				mp, mt := int64(-1), int64(-1)
				if exp != 0 {
					if mp = exp - ms; mp < 0 {
						mp = 0
					}
					if mt = mp; mp > 0 {
						if mt = mp / 1000; mp > mt*1000 {
							mt++
						}
					}
				}
				if mp == pttl && mt == ttl {
					pick, ans = ms, got
					break
				}
			}
			if ans == "" && try == 199 {
				pick, ans = t0, got // no clock reading in the bracket explains both values
			}
		}
		obs.post = r.cur
		obs.res = ans
		r.lastTTLs = [2]string{fmt.Sprintf("%d %d", exp, pick), ans}
		r.c.Hit("ttls")
		r.c.Emit(fmt.Sprintf("ttls %d %d", exp, pick), ans, exp != 0)
		return
	case "srvexp":
		arrival, pttl := i64(w[1]), i64(w[2])
		var g int64
		if pttl >= 0 {
			_, g = rueidis.VerifPack(time.Unix(0, arrival).Add(time.Duration(pttl) * time.Millisecond).UnixMilli())
		}
		obs.post = r.cur
		obs.res = itoa(g)
		r.c.Hit("srvexp")
		r.c.Emit(line, obs.res, pttl >= 0)
		return
	default:
		panic(opErr("lru: unknown op line: " + line))
	}
	r.cur = obs.post
	obs.changed = obs.pre.l != obs.post.l
	nontrivial := obs.changed || strings.Contains(obs.res, "h:") || strings.Contains(obs.res, "w:")
	r.c.Emit(line, obs.res+r.suffix(obs.post), nontrivial)
	return
}

func (r *lruRig) replay(lines []string) {
	r.replaying = true
	for _, l := range lines {
		switch {
		case strings.HasPrefix(l, "!ttls"):
			if r.lastTTLs[0] != "" {
				r.c.Emit("!ttls "+r.lastTTLs[0], r.lastTTLs[1], false)
			} else {
				r.c.Emit(l, "ok", false)
			}
		case strings.HasPrefix(l, "!") && r.dead:
			r.c.Emit(l, "skipped", false)
		case strings.HasPrefix(l, "!"):
			r.c.Emit(l, "ok", false)
		default:
			r.exec(l)
		}
	}
}

// ---------------------------------------------------------------- oracle lines

func (r *lruRig) bound(v lruView) {
	sum := 0
	for _, e := range v.list {
		if !e.pend {
			sum += e.size
		}
	}
	cl := 0
	if v.closed {
		cl = 1
	}
	r.c.Emit(fmt.Sprintf("!bound %d %d %d %d", v.size, r.max, sum, cl), "ok", false)
}

// do = exec + the oracle lines that judge the observation
func (r *lruRig) do(line string) lruObs {
	c := r.c
	obs := r.exec(line)
	if obs.panicked || obs.skipped {
		return obs
	}
	w := strings.Fields(line)
	switch obs.kind {
	case "flight":
		c.Emit(fmt.Sprintf("!flight %s %s %s %s %s", w[1], w[2], w[3], w[4], obs.res), "ok", false)
		pre := obs.pre.find(unhx(w[1]), unhx(w[2]))
		switch {
		case strings.HasPrefix(obs.res, "h:"):
			c.Hit("flight:hit")
		case strings.HasPrefix(obs.res, "w:"):
			c.Hit("flight:wait")
		case obs.pre.closed:
			c.Hit("flight:send:closed")
		case pre != nil:
			c.Hit("flight:send:expired-entry-replaced")
		default:
			c.Hit("flight:send:absent")
		}
		if obs.res != "s" && pre != nil {
			back := obs.pre.list[len(obs.pre.list)-1].ptr == pre.ptr
			fired := false
			for _, k := range obs.post.store {
				if k.Key == pre.key && k.Hits&1023 == 0 {
					fired = true
				}
			}
			switch {
			case fired && back:
				c.Hit("flight:threshold:already-back")
			case fired && obs.changed:
				c.Hit("flight:threshold:moved-to-back")
			case fired:
				c.Hit("flight:threshold:not-moved?")
			case obs.changed:
				c.Hit("flight:moved-without-threshold?")
			}
		}
	case "flights":
		// no trailing blank: the driver's word splitter would turn "=> \n" into an extra empty word
		c.Emit(strings.TrimRight(fmt.Sprintf("!flights %s => %s", strings.Join(w[1:], " "), strings.Join(obs.per, " ")), " "), "ok", false)
		seen := map[string]bool{}
		for i, p := range obs.per {
			k, cm := unhx(w[2+3*i]), unhx(w[3+3*i])
			pre := obs.pre.find(k, cm)
			dup := seen[k+"\x00"+cm]
			seen[k+"\x00"+cm] = true
			switch {
			case strings.HasPrefix(p, "h:"):
				c.Hit("flights:hit")
			case strings.HasPrefix(p, "w:") && dup && pre == nil:
				c.Hit("flights:wait-on-entry-created-in-same-call")
			case strings.HasPrefix(p, "w:"):
				c.Hit("flights:wait")
			case p == "s" && obs.pre.closed:
				c.Hit("flights:send:closed")
			case p == "s" && pre != nil:
				c.Hit("flights:send:expired-entry-replaced")
			case p == "s":
				c.Hit("flights:send:absent")
			default:
				c.Hit("flights:anomaly:" + p)
			}
		}
		if len(obs.per) == 0 {
			c.Hit("flights:empty")
		}
		sent := strings.Count(obs.res, "s")
		if obs.changed && sent == 0 {
			c.Hit("flights:threshold:moved-to-back")
		}
	case "update":
		k, cm := unhx(w[1]), unhx(w[2])
		c.Emit(fmt.Sprintf("!update %s %s %s %s %d", w[1], w[2], w[3], w[5], obs.pxat), "ok", false)
		pre := obs.pre.find(k, cm)
		switch {
		case obs.pre.closed:
			c.Hit("update:closed")
		case pre == nil:
			c.Hit("update:absent")
		case pre.pend:
			c.Hit("update:pending")
			_, packed := rueidis.VerifPack(i64(w[5]))
			switch {
			case packed == 0:
				c.Hit("update:pxat:no-server-expiry")
			case obs.pxat == packed && packed < pre.exp:
				c.Hit("update:pxat:server-shortens")
			case obs.pxat == pre.exp:
				c.Hit("update:pxat:client-wins")
			}
		default:
			c.Hit("update:completed")
		}
		if pre != nil && !obs.pre.closed {
			size := obs.pre.size
			evs := make([]string, 0, len(obs.pre.list))
			for _, e := range obs.pre.list {
				pc, sz := "C", e.size
				if e.pend {
					pc = "P"
				}
				if e.ptr == pre.ptr && e.pend {
					pc = "C"
					sz = rueidis.VerifEntryBaseSize + 2*(len(k)+len(cm)) + int(i64(w[4]))
					size += sz
				}
				evs = append(evs, fmt.Sprintf("%d:%s:%d", e.id, pc, sz))
			}
			kept := make([]string, 0, len(obs.post.list))
			self := false
			for _, e := range obs.post.list {
				kept = append(kept, strconv.Itoa(e.id))
				if e.ptr == pre.ptr {
					self = true
				}
			}
			c.Emit(strings.TrimRight(fmt.Sprintf("!evict %d %d %s => %s", r.max, size, strings.Join(evs, " "), strings.Join(kept, " ")), " "), "ok", false)
			n := len(obs.pre.list) - len(obs.post.list)
			switch {
			case n >= 3:
				c.Hit("update:evicted>=3")
			default:
				c.Hit(fmt.Sprintf("update:evicted=%d", n))
			}
			if !self {
				c.Hit("update:evicted-itself")
			}
		}
	case "cancel":
		pre := obs.pre.find(unhx(w[1]), unhx(w[2]))
		switch {
		case obs.pre.closed:
			c.Hit("cancel:closed")
		case pre == nil:
			c.Hit("cancel:absent")
		case pre.pend:
			c.Hit("cancel:pending")
		default:
			c.Hit("cancel:completed")
		}
	case "delete", "flush":
		pend := false
		for _, e := range obs.post.list {
			for _, k := range w[1:] {
				if e.pend && e.key == unhx(k) {
					pend = true
				}
			}
			if obs.kind == "flush" && e.pend {
				pend = true
			}
		}
		switch {
		case obs.pre.closed:
			c.Hit(obs.kind + ":closed")
		case obs.changed:
			c.Hit(obs.kind + ":removed-completed")
		default:
			c.Hit(obs.kind + ":nothing-to-remove")
		}
		if pend {
			c.Hit(obs.kind + ":kept-pending")
		}
	case "close":
		np := 0
		var pendingIDs []int
		behind := false // a completed entry sits behind (nearer to the back than) a pending one
		for _, e := range obs.pre.list {
			if e.pend {
				np++
				pendingIDs = append(pendingIDs, e.id)
			} else if np > 0 {
				behind = true
			}
		}
		if behind {
			c.Hit("close:completed-behind-pending")
		}
		defer closeOracle(c, "lru:close-skipped-pending", pendingIDs, r.lastDone, w[1]) // after the !bound line
		switch {
		case obs.pre.closed:
			c.Hit("close:again")
		case np > 0:
			c.Hit("close:fails-pending")
		default:
			c.Hit("close:no-pending")
		}
	case "sethits":
		c.Hit("sethits")
	default:
		return obs
	}
	r.bound(obs.post)
	return obs
}

// ---------------------------------------------------------------- generator

func lruStateless(c *Ctx, r *lruRig) {
	nowMs := time.Now().UnixMilli()
	packs := []int64{0, 1, 255, 256, 65535, 65536, 1 << 24, 1<<32 - 1, 1 << 32, 1 << 40, 1<<48 - 1, 1 << 48, 1<<56 - 1, 1 << 56, 1<<56 + 1,
		1 << 62, math.MaxInt64, -1, -255, -256, -257, -65536, -(1 << 56), -(1<<56 + 1), math.MinInt64, nowMs}
	for i := 0; i < 24; i++ {
		v := int64(c.Rng.Uint64())
		if i%2 == 0 {
			v >>= uint(c.Rng.IntN(63))
		}
		packs = append(packs, v)
	}
	for _, v := range packs {
		r.exec("pack " + itoa(v))
	}
	exps := []int64{0, 1, nowMs - 5000, nowMs - 1, nowMs, nowMs + 1, nowMs + 2, nowMs + 999, nowMs + 1000, nowMs + 1001, nowMs + 1002, nowMs + 1500,
		nowMs + 2000, nowMs + 2001, nowMs + 3600000, 1<<56 - 1}
	for i := 0; i < 12; i++ {
		exps = append(exps, nowMs+int64(c.Rng.IntN(8000))-2000)
	}
	for _, e := range exps {
		r.exec("ttls " + itoa(e) + " 0")
		c.Emit("!ttls "+r.lastTTLs[0], r.lastTTLs[1], false)
	}
	arrivals := []int64{0, 1, 999999, 1000000, 1700000000000000000, 1700000000000999999, 1700000000000000001, -1, -1000001, time.Now().UnixNano()}
	pttls := []int64{-2, -1, 0, 1, 999, 1000, 1001, 86400000, 1 << 40}
	for _, a := range arrivals {
		for _, p := range pttls {
			if c.Rng.IntN(3) == 0 || a == arrivals[4] {
				r.exec(fmt.Sprintf("srvexp %d %d", a, p))
			}
		}
	}
}

var (
	lruKeyPool = []string{"k", "kk", "k2", "x", "xHGET", "", "kG", "xH"}
	lruCmdPool = []string{"GET", "HGETf", "GETk", "G", "ETk", "HGET", "ETf"}
	// weighted by repetition
	lruTTLs = []int64{1000000, 1000000, 1000000000, 1000000000, 1000000000, 10000000000, 10000000000, 10000000000, 10000000000, 10000000000,
		3600000000000, 3600000000000, 3600000000000, 3600000000000, 999999, 0, -1, -1000000, 1500000000, 2000000000}
	lruMaxes = []int{0, 0, 400, 400, 400, 800, 800, 800, 800, 1452, 1452, 1452, 1452, 1452, 1452, 3000, 3000, 3000, 3000, 3000, 20000, 20000, 20000, 20000, -1}
)

type lruGen struct {
	c     *Ctx
	r     *lruRig
	keys  []string
	cmds  []string
	now   int64
	valID uint64
	errNo int
}

func pickN(c *Ctx, pool []string, n int) []string {
	p := c.Rng.Perm(len(pool))
	out := make([]string, n)
	for i := range out {
		out[i] = pool[p[i]]
	}
	return out
}

func (g *lruGen) rnd(n int) int { return g.c.Rng.IntN(n) }

func (g *lruGen) tick() {
	switch x := g.rnd(100); {
	case x < 14:
	case x < 28:
		g.now += int64(1 + g.rnd(999999))
	case x < 54:
		g.now += int64(1000000 + g.rnd(100000000))
	case x < 80:
		g.now += int64(1000000 + g.rnd(3000000000))
	case x < 88:
		g.now -= int64(1 + g.rnd(2000000000))
	case x < 92:
		g.now += int64(10000000000 + g.rnd(7200)*1000000000)
	default:
		g.now += 1000000 * int64(1+g.rnd(3)) // whole milliseconds
	}
}

func (g *lruGen) ents(pend bool) []lruEnt {
	var out []lruEnt
	for _, e := range g.r.cur.list {
		if e.pend == pend {
			out = append(out, e)
		}
	}
	return out
}

// target picks (key, cmd): wP% a pending entry, wC% a completed one, else random over the alphabets
func (g *lruGen) target(wP, wC int) (string, string) {
	x := g.rnd(100)
	if x < wP {
		if p := g.ents(true); len(p) > 0 {
			e := p[g.rnd(len(p))]
			return e.key, e.cmd
		}
	} else if x < wP+wC {
		if p := g.ents(false); len(p) > 0 {
			e := p[g.rnd(len(p))]
			return e.key, e.cmd
		}
	}
	return g.keys[g.rnd(len(g.keys))], g.cmds[g.rnd(len(g.cmds))]
}

func (g *lruGen) ttl() int64 { return lruTTLs[g.rnd(len(lruTTLs))] }

func (g *lruGen) flight(k, c string) lruObs { return g.flightTTL(k, c, g.ttl()) }

func (g *lruGen) flightTTL(k, c string, ttl int64) lruObs {
	g.tick()
	return g.r.do(fmt.Sprintf("flight %s %s %d %d", hx(k), hx(c), ttl, g.now))
}

func (g *lruGen) flights(first [][2]string) lruObs {
	g.tick()
	n := 1 + g.rnd(6)
	if g.rnd(40) == 0 {
		n = 0
	}
	kcs := append([][2]string{}, first...)
	for len(kcs) < n {
		if len(kcs) > 0 && g.rnd(100) < 30 {
			kcs = append(kcs, kcs[g.rnd(len(kcs))]) // duplicate inside one call
			continue
		}
		k, c := g.target(20, 35)
		kcs = append(kcs, [2]string{k, c})
	}
	g.c.Rng.Shuffle(len(kcs), func(i, j int) { kcs[i], kcs[j] = kcs[j], kcs[i] })
	var sb strings.Builder
	fmt.Fprintf(&sb, "flights %d", g.now)
	for _, kc := range kcs {
		fmt.Fprintf(&sb, " %s %s %d", hx(kc[0]), hx(kc[1]), g.ttl())
	}
	return g.r.do(sb.String())
}

func (g *lruGen) update() lruObs {
	k, c := g.target(72, 12)
	max := g.r.max
	var vsz int
	switch x := g.rnd(100); {
	case x < 44:
		vsz = rueidis.VerifMessageStructSize + 8 + g.rnd(13)
	case x < 80:
		vsz = 100 + g.rnd(501)
	case x < 92:
		vsz = max/2 + 1 + g.rnd(100)
	default:
		vsz = max + 1 + g.rnd(200)
	}
	return g.updateKC(k, c, vsz, g.rnd(100))
}

// updateKC: rawKind < 33 means "no server expiry", see the table below
func (g *lruGen) updateKC(k, c string, vsz int, rawKind int) lruObs {
	g.valID++
	minSz := rueidis.VerifMessageStructSize + len(strconv.FormatUint(g.valID, 10)) + 1
	if vsz < minSz {
		vsz = minSz
	}
	nowMs := g.now / 1000000
	cexp := nowMs + 1000
	if e := g.r.cur.find(k, c); e != nil && e.exp < 1<<50 {
		cexp = e.exp
	}
	var raw int64
	switch x := rawKind; {
	case x < 33:
		raw = 0
	case x < 40:
		raw = nowMs
	case x < 54:
		raw = nowMs + 1 + int64(g.rnd(2000))
	case x < 63:
		raw = nowMs + 10000000
	case x < 73:
		raw = cexp + 1 + int64(g.rnd(5000))
	case x < 84:
		raw = cexp - 1 - int64(g.rnd(500))
	case x < 89:
		raw = cexp
	case x < 92:
		raw = nowMs - 1000
	case x < 94:
		raw = -1
	case x < 96:
		raw = 1 << 56
	case x < 98:
		raw = 1<<56 + nowMs + 5
	default:
		raw = int64(g.c.Rng.Uint64())
	}
	return g.r.do(fmt.Sprintf("update %s %s %d %d %d", hx(k), hx(c), g.valID, vsz, raw))
}

func (g *lruGen) step() {
	r := g.r
	if r.dead {
		return
	}
	switch x := g.rnd(100); {
	case x < 30:
		k, c := g.target(15, 35)
		g.flight(k, c)
	case x < 42:
		g.flights(nil)
	case x < 68:
		g.update()
	case x < 74:
		k, c := g.target(60, 15)
		g.errNo++
		r.do(fmt.Sprintf("cancel %s %s %d", hx(k), hx(c), g.errNo))
	case x < 80:
		n := 1 + g.rnd(3)
		if g.rnd(10) == 0 {
			n = 0
		}
		ws := []string{"delete"}
		for i := 0; i < n; i++ {
			k := g.keys[g.rnd(len(g.keys))]
			if g.rnd(12) == 0 {
				k = "zz"
			}
			ws = append(ws, hx(k))
		}
		r.do(strings.Join(ws, " "))
	case x < 82:
		r.do("flush")
	case x < 92:
		// force keyCache.hits next to a multiple of 1024, then look an entry of that key up
		var k string
		var e *lruEnt
		if len(r.cur.list) > 0 && g.rnd(10) > 0 {
			e = &r.cur.list[g.rnd(len(r.cur.list))]
			k = e.key
		} else {
			k = g.keys[g.rnd(len(g.keys))]
		}
		j := int64(1 + g.rnd(4000000))
		ns := []int64{1022, 1023, 2047, 4294967295, 1024*j - 1, 1024*j - 2, 1024*j - 1, 1023, 0, 4294967294}
		r.do(fmt.Sprintf("sethits %s %d", hx(k), ns[g.rnd(len(ns))]))
		if e != nil && g.rnd(10) > 0 {
			if g.rnd(3) == 0 {
				g.flights([][2]string{{e.key, e.cmd}})
			} else {
				g.flight(e.key, e.cmd)
			}
		}
	case x < 96:
		k, c := g.target(20, 50)
		if e := r.cur.find(k, c); e != nil && e.exp >= 1<<43 {
			return // (exp-now)*1e6 would overflow time.Duration; the model works on unbounded integers
		}
		r.exec(fmt.Sprintf("getttl %s %s 0", hx(k), hx(c)))
	case x < 98:
		// a burst of flights on every (key, cmd): builds long lists
		for i := 0; i < 2+g.rnd(5); i++ {
			k, c := g.target(0, 0)
			g.flight(k, c)
		}
	default:
		// several small completed entries, then one reply that only fits after several evictions
		g.c.Hit("scenario:fill-then-large-update")
		for i := 0; i < 3+g.rnd(5); i++ {
			k, c := g.target(0, 0)
			if obs := g.flightTTL(k, c, 3600000000000); obs.res == "s" {
				sz := rueidis.VerifMessageStructSize + 8 + g.rnd(13)
				if g.rnd(3) == 0 {
					sz = 100 + g.rnd(300)
				}
				g.updateKC(k, c, sz, 0)
			}
		}
		for try := 0; try < 6; try++ {
			k, c := g.target(0, 0)
			if obs := g.flightTTL(k, c, 3600000000000); obs.res == "s" {
				g.updateKC(k, c, r.max*(55+g.rnd(44))/100-rueidis.VerifEntryBaseSize, g.rnd(50))
				break
			}
		}
	}
}

// close: Close(err); half of the time a completed, still valid entry is first promoted behind the pending
// ones (hits forced to a multiple of 1024 by the hit), so that Close sees pending entries that are NOT the
// newest list elements
func (g *lruGen) close() {
	r := g.r
	if r.dead {
		return
	}
	if g.rnd(2) == 0 && len(g.ents(true)) > 0 {
		nowMs := g.now / 1000000
		var valid []lruEnt
		for _, e := range g.ents(false) {
			if e.exp > nowMs {
				valid = append(valid, e)
			}
		}
		if len(valid) > 0 {
			e := valid[g.rnd(len(valid))]
			r.do(fmt.Sprintf("sethits %s %d", hx(e.key), 1024*int64(1+g.rnd(1000))-1))
			if g.rnd(3) == 0 {
				r.do(fmt.Sprintf("flights %d %s %s %d", g.now, hx(e.key), hx(e.cmd), g.ttl()))
			} else {
				r.do(fmt.Sprintf("flight %s %s %d %d", hx(e.key), hx(e.cmd), g.ttl(), g.now))
			}
		}
	}
	g.errNo++
	r.do(fmt.Sprintf("close %d", g.errNo))
}

func lruEpisode(c *Ctx, r *lruRig) {
	g := &lruGen{c: c, r: r}
	max := lruMaxes[c.Rng.IntN(len(lruMaxes))]
	g.keys = pickN(c, lruKeyPool, 4+c.Rng.IntN(2))
	g.cmds = pickN(c, lruCmdPool, 3+c.Rng.IntN(2))
	switch x := c.Rng.IntN(100); {
	case x < 62:
		g.now = 1700000000000000000 + int64(c.Rng.IntN(1000000000))
		c.Hit("episode:clock=fixed-past")
	case x < 80:
		g.now = time.Now().UnixNano()
		c.Hit("episode:clock=real")
	case x < 90:
		g.now = 1500000000 + int64(c.Rng.IntN(3000000000))
		c.Hit("episode:clock=near-zero")
	default:
		g.now = 4000000000000000000
		c.Hit("episode:clock=future")
	}
	nOps := 20 + c.Rng.IntN(181)
	if c.Tier == "thorough" {
		nOps = 20 + c.Rng.IntN(301)
	}
	closeAt := -1
	if c.Rng.IntN(20) == 0 {
		closeAt = c.Rng.IntN(nOps/2 + 1)
		c.Hit("episode:closes-early")
	}
	r.do(fmt.Sprintf("reset %d %d", max, rueidis.VerifEntryBaseSize))
	for i := 0; i < nOps && !r.dead; i++ {
		if i == closeAt {
			g.close()
		}
		g.step()
	}
	if c.Rng.IntN(4) == 0 {
		g.close()
		if c.Rng.IntN(2) == 0 {
			g.step()
			g.close()
		}
	}
	if r.dead {
		c.Hit("episode:abandoned-after-panic")
	}
}

// lruPrologue: max 1452, three small completed entries, then one large reply: a single
// Update has to evict all three (an earlier Update evicted at most one entry per call).
func lruPrologue(r *lruRig) {
	now := int64(1700000000000000000)
	r.do(fmt.Sprintf("reset 1452 %d", rueidis.VerifEntryBaseSize))
	for i, k := range []string{"a", "b", "c"} {
		now += 1000000
		r.do(fmt.Sprintf("flight %s %s 10000000000 %d", hx(k), hx("GET"), now))
		r.do(fmt.Sprintf("update %s %s %d %d 0", hx(k), hx("GET"), i+1, rueidis.VerifMessageStructSize+8))
	}
	now += 1000000
	r.do(fmt.Sprintf("flight %s %s 10000000000 %d", hx("d"), hx("GET"), now))
	r.do(fmt.Sprintf("update %s %s 4 1000 0", hx("d"), hx("GET")))
	r.do(fmt.Sprintf("flight %s %s 10000000000 %d", hx("a"), hx("GET"), now))
	r.do(fmt.Sprintf("flight %s %s 10000000000 %d", hx("d"), hx("GET"), now))
}

// lruPrologueClose: Close with a completed entry BEHIND a pending one. B is completed, A pending (list [B, A]);
// B's 1024th hit moves it to the back (list [A, B]) - once through Flight's fast path, once through the
// first loop of Flights; a second caller waits on A; Close must fail A's flight.
func lruPrologueClose(r *lruRig) {
	now := int64(1700000000000000000)
	const hour = 3600000000000
	for _, via := range []string{"flight", "flights"} {
		r.do(fmt.Sprintf("reset 20000 %d", rueidis.VerifEntryBaseSize))
		now += 1000000
		r.do(fmt.Sprintf("flight %s %s %d %d", hx("B"), hx("GET"), hour, now))
		r.do(fmt.Sprintf("update %s %s 1 %d 0", hx("B"), hx("GET"), rueidis.VerifMessageStructSize+8))
		r.do(fmt.Sprintf("flight %s %s %d %d", hx("A"), hx("GET"), hour, now))
		r.do(fmt.Sprintf("sethits %s 1023", hx("B")))
		if via == "flight" {
			r.do(fmt.Sprintf("flight %s %s %d %d", hx("B"), hx("GET"), hour, now))
		} else {
			r.do(fmt.Sprintf("flights %d %s %s %d", now, hx("B"), hx("GET"), hour))
		}
		r.do(fmt.Sprintf("flight %s %s %d %d", hx("A"), hx("GET"), hour, now))
		r.do("close 7")
	}
}

func runLru(c *Ctx) {
	r := &lruRig{c: c}
	r.reset(0)
	lruStateless(c, r)
	lruPrologue(r)
	lruPrologueClose(r)
	for ep := 0; ep < c.N; ep++ {
		lruEpisode(c, r)
	}
}
