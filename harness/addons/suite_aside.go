package main

import (
	"context"
	"errors"
	"fmt"
	"sort"
	"strings"
	"sync"
	"time"

	"github.com/redis/rueidis"
	"github.com/redis/rueidis/rueidisaside"
)

func init() {
	suites["aside"] = suite{
		rule: "C39: (1) script-level: acquireLock / setkey / delkey on the fake with own, foreign and missing placeholders and values vs the Lean script models; (2) end-to-end episodes: real rueidisaside clients (UseLuaLock on/off, typed client wrapper) over the fake server with client-side caching and invalidation pushes; concurrent Gets (goroutines) of up to three clients on one key with harness-controlled loaders (success, failure, success followed by a failing store of the value, values carrying the placeholder prefix), two concurrent first Gets of a fresh client with the first liveness-marker SET held back while another client checks the holder's liveness (`fresh-race`), two live clients releasing the same dead holder's lock with the second release delayed until the first client is loading (`dead-race`, ordered by gates; the release must be the delkey script on the placeholder value, never a plain DEL), a read/finish race (`get-race`: the holder stores its value exactly between a waiter's read of the placeholder and the waiter's next action, ordered by a hook in the fake), Del, key expiry, foreign writes, client death (liveness key expiry) and refresh, context cancellation of parked Gets; after every event the system runs to quiescence and the anonymous state (key kind, loading/parked counts, sorted results, loader count) is compared with the Lean automaton run to quiescence; '!results' oracle lines are judged by the specification (every returned value is a loader output or a stored value and never a placeholder); the harness itself flags two simultaneous loaders, placeholder leaks and lost wake-ups (a Get still parked when the key no longer holds a placeholder); non-trivial = distinct op within its episode prefix",
		run:  runAside,
		replay: func(c *Ctx, lines []string) {
			ep := &asEp{}
			for _, l := range lines {
				ep.op(c, l)
			}
			ep.close()
		},
	}
}

type asGet struct {
	client  int
	cancel  context.CancelFunc
	loading bool
	release chan loadRes
	done    bool
	val     string
	err     error
}

type loadRes struct {
	val string
	err error
}

type asEp struct {
	srv     *fakeServer
	lua     bool
	typed   bool
	admin   *fakeClient
	clients map[int]rueidisaside.CacheAsideClient
	fcs     map[int]*fakeClient
	mu      sync.Mutex
	gets    []*asGet
	loads   int
	// a Del, expiry, foreign write, holder death or loader failure happened while a loader ran: the
	// property's hypothesis (holder alive, lock in place) no longer holds until the loaders are done
	contested bool
	stolen    []string
	stolen2   []string
	dead      bool
	deadCl    map[int]bool // clients whose liveness key expired and was not refreshed since: holders by the protocol's definition dead
}

const asKey = "ck"

func (e *asEp) close() {
	for _, g := range e.gets {
		if g.cancel != nil {
			g.cancel()
		}
	}
	e.mu.Lock()
	for _, g := range e.gets {
		if g.loading {
			g.loading = false
			g.release <- loadRes{err: errors.New("episode over")}
		}
	}
	e.mu.Unlock()
	settle()
}

func (e *asEp) client(c int) rueidisaside.CacheAsideClient {
	if cc, ok := e.clients[c]; ok {
		return cc
	}
	cc, err := rueidisaside.NewClient(rueidisaside.ClientOption{
		ClientBuilder: func(opt rueidis.ClientOption) (rueidis.Client, error) {
			fc := newFakeClient(e.srv, c+1, opt)
			e.fcs[c] = fc
			return fc, nil
		},
		ClientTTL:  time.Hour,
		UseLuaLock: e.lua,
	})
	if err != nil {
		panic(err)
	}
	e.clients[c] = cc
	return cc
}

// liveness key of client c (the only rueidisid: key its connection has SET)
func (e *asEp) idsOf(c int) []string {
	e.srv.mu.Lock()
	defer e.srv.mu.Unlock()
	return append([]string{}, e.srv.owner[c+1]...)
}

func (e *asEp) state() string {
	e.srv.mu.Lock()
	key := "none"
	if v := e.srv.keys[asKey]; v != nil {
		if strings.HasPrefix(v.s, rueidisaside.PlaceholderPrefix) {
			key = "ph"
		} else {
			key = "v:" + hx(v.s)
		}
	}
	e.srv.mu.Unlock()
	e.mu.Lock()
	defer e.mu.Unlock()
	loading, parked := 0, 0
	var res []string
	for _, g := range e.gets {
		switch {
		case g.done && g.err == nil:
			res = append(res, "ok:"+hx(g.val))
		case g.done:
			res = append(res, "err")
		case g.loading:
			loading++
		default:
			parked++
		}
	}
	sort.Strings(res)
	return fmt.Sprintf("key=%s loading=%d parked=%d done=[%s] loads=%d", key, loading, parked, strings.Join(res, ","), e.loads)
}

func (e *asEp) judge(c *Ctx, line string) {
	e.mu.Lock()
	defer e.mu.Unlock()
	n := 0
	deadHolder := false
	who := ""
	for _, g := range e.gets {
		if g.loading {
			n++
			// dead by the protocol's definition: one of the liveness markers this client ever set is gone (also
			// read from the server, not only from the harness' own bookkeeping of `death` events)
			gone := e.deadCl[g.client]
			e.srv.mu.Lock()
			for _, id := range e.srv.owner[g.client+1] {
				gone = gone || e.srv.keys[id] == nil
			}
			e.srv.mu.Unlock()
			deadHolder = deadHolder || gone
			who += fmt.Sprintf(" client%d(dead=%v)", g.client, gone)
		}
		if g.done && g.err == nil && strings.HasPrefix(g.val, rueidisaside.PlaceholderPrefix) {
			c.Fail("aside:placeholder-returned", line, "Get returned the lock placeholder "+g.val)
		}
	}
	if n == 0 {
		e.contested = false
	}
	for _, x := range e.stolen {
		c.Fail("aside:live-placeholder-deleted-by-other-client", line, x)
	}
	e.stolen = nil
	for _, x := range e.stolen2 {
		c.Fail("aside:placeholder-without-liveness-marker", line, x)
	}
	e.stolen2 = nil
	e.srv.mu.Lock()
	kv := e.srv.keys[asKey]
	locked := kv != nil && strings.HasPrefix(kv.s, rueidisaside.PlaceholderPrefix)
	e.srv.mu.Unlock()
	parked := 0
	for _, g := range e.gets {
		if !g.done && !g.loading {
			parked++
		}
	}
	if locked {
		// whose placeholder is it? a live client (its liveness key exists) none of whose Gets is in its loader
		// has left the lock behind
		e.srv.mu.Lock()
		owner := -1
		for conn, ids := range e.srv.owner {
			for _, id := range ids {
				if id == kv.s {
					owner = conn - 1
				}
			}
		}
		alive := e.srv.keys[kv.s] != nil
		e.srv.mu.Unlock()
		busy := false
		for _, g := range e.gets {
			busy = busy || (g.client == owner && g.loading)
		}
		if owner >= 0 && alive && !busy {
			c.Fail("aside:placeholder-left-after-failed-store", line, fmt.Sprintf("the key still holds the lock placeholder of client %d, which is alive and runs no loader: its Get returned without storing a value or giving the lock back", owner))
		}
	}
	if parked > 0 && !locked {
		c.Fail("aside:lost-wakeup", line, fmt.Sprintf("%d Get(s) still wait although the key holds no lock placeholder any more: the holder's result (or the release of the lock) never woke them", parked))
	}
	if n > 1 && deadHolder {
		// the second loader started while the first holder was dead: a later refresh of that holder's marker does
		// not turn this into a violation
		e.contested = true
	}
	if n > 1 && !e.contested && !deadHolder {
		c.Fail("aside:two-loaders", line, fmt.Sprintf("%d loaders run at the same time for one key:%s contested=%v", n, who, e.contested))
	}
}

func (e *asEp) op(c *Ctx, line string) {
	if e.dead {
		return // the real code hung earlier in this run: nothing after that is meaningful
	}
	w := strings.Fields(line)
	emit := func() {
		if !settle() {
			e.dead = true
			c.Emit(line, "not-quiescent", true)
			return
		}
		e.judge(c, line)
		c.Emit(line, e.state(), true)
	}
	switch w[0] {
	case "reset":
		if e.srv != nil {
			e.close()
		}
		e.srv = newFakeServer(func() int64 { return 1000000 })
		e.lua = len(w) > 1 && w[1] == "lua=1"
		e.typed = len(w) > 2 && w[2] == "typed=1"
		e.admin = newFakeClient(e.srv, 99, rueidis.ClientOption{})
		e.stolen, e.stolen2 = nil, nil
		e.srv.onExec = func(l *logged) {
			// (under the server mutex) a cache-aside client removed the key while it held the placeholder of
			// ANOTHER client whose liveness key exists
			if (l.name == "set" || l.name == "as.acquire") && l.cl != nil && l.cl.id != 99 && len(l.keys) > 0 && l.keys[0] == asKey && len(l.args) > 0 &&
				strings.HasPrefix(l.args[0], rueidisaside.PlaceholderPrefix) && l.rep.typ == '_' {
				// the key was locked with placeholder args[0]: its liveness marker must have been SET by this connection before
				ever := false
				for _, k := range e.srv.owner[l.cl.id] {
					ever = ever || k == l.args[0]
				}
				if !ever {
					e.stolen2 = append(e.stolen2, fmt.Sprintf("connection %d locked the key with placeholder %s whose liveness marker has never been set", l.cl.id, l.args[0]))
				}
			}
			if (l.name == "del" || l.name == "as.delkey") && l.cl != nil && l.cl.id != 99 && l.rep.typ == ':' && l.rep.n == 1 &&
				len(l.keys) > 0 && l.keys[0] == asKey {
				prev := l.prev
				if l.name == "as.delkey" && len(l.args) > 0 {
					prev = l.args[0]
				}
				if strings.HasPrefix(prev, rueidisaside.PlaceholderPrefix) && e.srv.keys[prev] != nil {
					mine := false
					for _, k := range e.srv.owner[l.cl.id] {
						mine = mine || k == prev
					}
					if !mine {
						e.stolen = append(e.stolen, fmt.Sprintf("connection %d removed the lock placeholder %s of a client whose liveness key exists (%s)", l.cl.id, prev, l.name))
					}
				}
			}
		}
		e.clients, e.fcs, e.gets, e.loads, e.contested, e.deadCl = map[int]rueidisaside.CacheAsideClient{}, map[int]*fakeClient{}, nil, 0, false, map[int]bool{}
		c.Emit(line, "ok", false)
	case "s.acq", "s.set", "s.del": // script level: s.acq id | s.set id val | s.del id   (ids and values are plain words)
		name := map[string]string{"s.acq": "as.acquire", "s.set": "as.setkey", "s.del": "as.delkey"}[w[0]]
		args := []string{rueidisaside.PlaceholderPrefix + w[1]}
		if w[0] == "s.acq" {
			args = append(args, "5000")
		}
		if w[0] == "s.set" {
			args = append(args, unhx(w[2]), "5000")
		}
		e.srv.mu.Lock()
		r := e.srv.runScript(e.admin, name, []string{asKey}, args)
		e.srv.mu.Unlock()
		e.srv.flush()
		rs := r.String()
		if r.typ == '$' && strings.HasPrefix(r.s, rueidisaside.PlaceholderPrefix) {
			rs = "ph:" + strings.TrimPrefix(r.s, rueidisaside.PlaceholderPrefix)
		}
		c.Hit(w[0] + ":" + string(r.typ))
		st := e.state()
		if strings.HasPrefix(st, "key=ph") {
			e.srv.mu.Lock()
			st = "key=ph:" + strings.TrimPrefix(e.srv.keys[asKey].s, rueidisaside.PlaceholderPrefix) + st[6:]
			e.srv.mu.Unlock()
		}
		c.Emit(line, rs+" "+strings.Fields(st)[0], true)
	case "get": // get c: a new Get on client c
		ci := int(w[1][0] - '0')
		cc := e.client(ci)
		ctx, cancel := context.WithCancel(context.Background())
		g := &asGet{client: ci, cancel: cancel, release: make(chan loadRes)}
		e.mu.Lock()
		e.gets = append(e.gets, g)
		e.mu.Unlock()
		loader := func(ctx context.Context, key string) (string, error) {
			e.mu.Lock()
			g.loading = true
			e.loads++
			e.mu.Unlock()
			r := <-g.release
			return r.val, r.err
		}
		go func() {
			var val string
			var err error
			if e.typed {
				tc := rueidisaside.NewTypedCacheAsideClient[string](cc,
					func(s *string) (string, error) { return *s, nil },
					func(s string) (*string, error) { return &s, nil })
				var p *string
				p, err = tc.Get(ctx, time.Hour, asKey, func(ctx context.Context, key string) (*string, error) {
					s, err := loader(ctx, key)
					return &s, err
				})
				if p != nil {
					val = *p
				}
			} else {
				val, err = cc.Get(ctx, time.Hour, asKey, loader)
			}
			e.mu.Lock()
			g.done, g.val, g.err = true, val, err
			e.mu.Unlock()
		}()
		c.Hit("get")
		emit()
	case "get-race": // get-race c val: a Get on client c; right after its read of the key returned the holder's
		// placeholder (before the Get does anything else) the holder's loader finishes with val and stores it
		ci := int(w[1][0] - '0')
		cc := e.client(ci)
		fc := e.fcs[ci]
		reached, resume := make(chan struct{}), make(chan struct{})
		armed := true
		e.srv.afterReply = func(cl *fakeClient, cmd []string, r reply) {
			if armed && cl == fc && len(cmd) == 2 && strings.ToUpper(cmd[0]) == "GET" && cmd[1] == asKey &&
				r.typ == '$' && strings.HasPrefix(r.s, rueidisaside.PlaceholderPrefix) {
				armed = false
				reached <- struct{}{}
				<-resume
			}
		}
		ctx, cancel := context.WithCancel(context.Background())
		g := &asGet{client: ci, cancel: cancel, release: make(chan loadRes)}
		e.mu.Lock()
		e.gets = append(e.gets, g)
		e.mu.Unlock()
		go func() {
			val, err := cc.Get(ctx, time.Hour, asKey, func(ctx context.Context, key string) (string, error) {
				e.mu.Lock()
				g.loading = true
				e.loads++
				e.mu.Unlock()
				r := <-g.release
				return r.val, r.err
			})
			e.mu.Lock()
			g.done, g.val, g.err = true, val, err
			e.mu.Unlock()
		}()
		select {
		case <-reached:
			// the waiter sits inside its read; now the holder finishes
			e.mu.Lock()
			var h *asGet
			for _, x := range e.gets {
				if x.loading {
					h = x
					break
				}
			}
			if h != nil {
				h.loading = false
			}
			e.mu.Unlock()
			if h != nil {
				h.release <- loadRes{val: unhx(w[2])}
			}
			settle()
			close(resume)
			c.Hit("get-race:interleaved")
		case <-time.After(10 * time.Second):
			c.Hit("get-race:no-placeholder")
		}
		armed = false
		e.srv.afterReply = nil
		emit()
	case "fresh-race": // fresh-race a b: client a has never been used. Its first Get (another key) is held at the
		// gate of its liveness-marker SET; a second Get on a takes the lock of the cache key; a Get on client b then
		// reads that placeholder and checks the holder's liveness; only then the first marker SET goes through
		ca, cb := int(w[1][0]-'0'), int(w[2][0]-'0')
		cca := e.client(ca)
		fca := e.fcs[ca]
		gate := make(chan struct{})
		first := true
		e.srv.beforeExec = func(cl *fakeClient, cmd []string) {
			if first && cl == fca && len(cmd) > 1 && strings.ToUpper(cmd[0]) == "SET" && strings.HasPrefix(cmd[1], rueidisaside.PlaceholderPrefix) {
				first = false
				<-gate
			}
		}
		sideDone := make(chan struct{})
		go func() {
			_, _ = cca.Get(context.Background(), time.Hour, "other-key", func(ctx context.Context, key string) (string, error) { return "side", nil })
			close(sideDone)
		}()
		settle()
		e.op(c, fmt.Sprintf("get %d", ca))
		e.op(c, fmt.Sprintf("get %d", cb))
		close(gate)
		e.srv.beforeExec = nil
		select {
		case <-sideDone:
		case <-time.After(10 * time.Second):
		}
		c.Hit("fresh-race")
		emit()
	case "dead-race": // dead-race c1 c2: the key holds the placeholder of a dead client. Gets on c1 and c2 both read it
		// and the missing liveness key; their releases of the dead lock are held at a gate; c1's goes first (c1 then
		// locks and loads), c2's lands only then
		cis := []int{int(w[1][0] - '0'), int(w[2][0] - '0')}
		gates := map[*fakeClient]chan struct{}{}
		var gmu sync.Mutex
		var rel []string
		isRelease := func(cmd []string) bool {
			up := strings.ToUpper(cmd[0])
			if up == "DEL" {
				return len(cmd) == 2 && cmd[1] == asKey
			}
			return strings.HasPrefix(up, "EVAL") && len(cmd) > 4 && cmd[3] == asKey &&
				(cmd[1] == "7726c7be95e2a0ed082ec1da1e26b562f5c8903f" || (strings.Contains(cmd[1], `redis.call("DEL"`) && !strings.Contains(cmd[1], `"SET"`)))
		}
		e.srv.beforeExec = func(cl *fakeClient, cmd []string) {
			if len(cmd) == 0 || !isRelease(cmd) {
				return
			}
			gmu.Lock()
			ch := gates[cl]
			delete(gates, cl) // one release per client is ordered
			if ch != nil {
				if strings.ToUpper(cmd[0]) == "DEL" {
					rel = append(rel, "del")
				} else {
					rel = append(rel, "as.delkey")
				}
			}
			gmu.Unlock()
			if ch != nil {
				<-ch
			}
		}
		var chans []chan struct{}
		for _, ci := range cis {
			cc := e.client(ci)
			ch := make(chan struct{})
			chans = append(chans, ch)
			gmu.Lock()
			gates[e.fcs[ci]] = ch
			gmu.Unlock()
			ctx, cancel := context.WithCancel(context.Background())
			g := &asGet{client: ci, cancel: cancel, release: make(chan loadRes)}
			e.mu.Lock()
			e.gets = append(e.gets, g)
			e.mu.Unlock()
			go func() {
				val, err := cc.Get(ctx, time.Hour, asKey, func(ctx context.Context, key string) (string, error) {
					e.mu.Lock()
					g.loading = true
					e.loads++
					e.mu.Unlock()
					r := <-g.release
					return r.val, r.err
				})
				e.mu.Lock()
				g.done, g.val, g.err = true, val, err
				e.mu.Unlock()
			}()
			settle()
		}
		for _, ch := range chans {
			close(ch)
			settle()
		}
		e.srv.beforeExec = nil
		if !settle() {
			e.dead = true
			c.Emit(line, "not-quiescent", true)
			return
		}
		e.judge(c, line)
		c.Hit("dead-race:" + strings.Join(rel, ","))
		c.Emit(line, "release="+strings.Join(rel, ",")+" "+e.state(), true)
	case "load-ok", "load-err", "load-ok-storefail":
		if w[0] != "load-ok" {
			e.contested = true
		}
		if w[0] == "load-ok-storefail" {
			// the loader succeeds, the setkey script call that follows never reaches the server (connection lost /
			// context done while the loader ran): Get must give the lock back
			armed := true
			e.srv.fault = func(cl *fakeClient, cmd []string) int {
				if armed && len(cmd) > 3 && strings.HasPrefix(strings.ToUpper(cmd[0]), "EVAL") && cmd[3] == asKey &&
					(cmd[1] == "3913f9de2aab2b98021c6f9b04f7293af86e2c61" || strings.Contains(cmd[1], `"SET",KEYS[1],ARGV[2]`)) {
					armed = false
					return 1
				}
				return 0
			}
			defer func() { e.srv.fault = nil }()
		}
		e.mu.Lock()
		var g *asGet
		for _, x := range e.gets {
			if x.loading {
				g = x
				break
			}
		}
		if g != nil {
			g.loading = false
		}
		e.mu.Unlock()
		if g == nil {
			c.Emit(line, "no-loader", false)
			return
		}
		if w[0] == "load-ok" || w[0] == "load-ok-storefail" {
			g.release <- loadRes{val: unhx(w[1])}
		} else {
			g.release <- loadRes{err: errors.New("loader failed")}
		}
		c.Hit(w[0])
		emit()
	case "del":
		e.contested = true
		_ = e.admin.Do(context.Background(), e.admin.B().Del().Key(asKey).Build())
		c.Hit("del")
		emit()
	case "expire":
		e.contested = true
		e.srv.mu.Lock()
		if e.srv.keys[asKey] != nil {
			delete(e.srv.keys, asKey)
			e.srv.touched(asKey, nil)
		}
		e.srv.mu.Unlock()
		e.srv.flush()
		c.Hit("expire")
		emit()
	case "put":
		e.contested = true
		_ = e.admin.Do(context.Background(), e.admin.B().Set().Key(asKey).Value(unhx(w[1])).Build())
		c.Hit("put")
		emit()
	case "death": // the liveness key of client c expires
		e.contested = true
		if len(e.idsOf(int(w[1][0]-'0'))) > 0 {
			e.deadCl[int(w[1][0]-'0')] = true
		}
		for _, id := range e.idsOf(int(w[1][0] - '0')) {
			e.srv.mu.Lock()
			if e.srv.keys[id] != nil {
				delete(e.srv.keys, id)
				e.srv.touched(id, nil)
			}
			e.srv.mu.Unlock()
			e.srv.flush()
		}
		c.Hit("death")
		emit()
	case "refresh": // what the refresh goroutine does every ClientTTL/2
		ci := int(w[1][0] - '0')
		delete(e.deadCl, ci)
		for _, id := range e.idsOf(ci) {
			fc := e.fcs[ci]
			_ = fc.Do(context.Background(), fc.B().Set().Key(id).Value("").Px(time.Hour).Build())
		}
		c.Hit("refresh")
		emit()
	case "cancel-parked":
		e.mu.Lock()
		var g *asGet
		for _, x := range e.gets {
			if !x.done && !x.loading {
				g = x
				break
			}
		}
		e.mu.Unlock()
		if g == nil {
			c.Emit(line, "no-parked", false)
			return
		}
		g.cancel()
		c.Hit("cancel-parked")
		emit()
	case "!results": // the values returned so far, judged by the specification
		e.mu.Lock()
		var res []string
		for _, g := range e.gets {
			if g.done && g.err == nil {
				res = append(res, hx(g.val))
			}
		}
		e.mu.Unlock()
		sort.Strings(res)
		c.Emit(strings.TrimSpace("!results "+strings.Join(res, " ")), "ok", true)
	default:
		c.Emit(line, "bad-op", false)
	}
}

func runAside(c *Ctx) {
	r := c.Rng
	ep := &asEp{}
	vals := []string{"v1", "v2", "", "x", "rueidisid:user"}
	// (1) script level
	for i := 0; i < 3+c.N/50; i++ {
		ep.op(c, "reset lua=1")
		for j := 0; j < 10; j++ {
			id := []string{"a", "b", "c"}[r.IntN(3)]
			switch r.IntN(5) {
			case 0, 1:
				ep.op(c, "s.acq "+id)
			case 2:
				ep.op(c, "s.set "+id+" "+hx(vals[r.IntN(len(vals))]))
			case 3:
				ep.op(c, "s.del "+id)
			default:
				ep.op(c, []string{"del", "expire", "put " + hx(vals[r.IntN(4)])}[r.IntN(3)])
			}
		}
	}
	// (2) fixed scenarios, then random ones
	fixed := [][]string{
		{"reset lua=0", "get 0", "get 1", "get 1", "load-ok " + hx("v1"), "!results", "get 2"},
		{"reset lua=1", "get 0", "get 1", "load-err", "load-ok " + hx("v2"), "!results"},
		{"reset lua=0", "get 0", "get 1", "death 0", "load-ok " + hx("late"), "load-ok " + hx("v3"), "!results"},
		{"reset lua=1", "get 0", "get 1", "del", "load-ok " + hx("a"), "load-ok " + hx("b"), "!results"},
		{"reset lua=0", "get 0", "get 1", "cancel-parked", "expire", "load-ok " + hx("a"), "get 1", "load-ok " + hx("b"), "!results"},
		{"reset lua=0", "put " + hx("stored"), "get 0", "get 1", "del", "get 0", "load-ok " + hx("rueidisid:user"), "load-ok " + hx("ok"), "!results"},
		{"reset lua=1 typed=1", "get 0", "get 1", "load-ok " + hx("t"), "!results"},
		{"reset lua=0", "get 0", "get-race 1 " + hx("raced"), "!results", "get 2"},
		{"reset lua=0", "get 0", "get 1", "load-ok-storefail " + hx("lost"), "load-ok " + hx("v"), "get 2", "!results"},
		{"reset lua=1", "get 2", "load-ok-storefail " + hx("lost2"), "get 0", "load-ok " + hx("w"), "!results"},
		{"reset lua=0", "fresh-race 0 1", "load-ok " + hx("f1"), "!results"},
		{"reset lua=1", "fresh-race 2 0", "get 1", "load-ok " + hx("f2"), "!results"},
		{"reset lua=0", "get 0", "death 0", "dead-race 1 2", "load-ok " + hx("a"), "load-ok " + hx("b"), "!results"},
		{"reset lua=1", "get 0", "death 0", "dead-race 2 1", "load-err", "load-ok " + hx("c"), "load-ok " + hx("d"), "!results"},
		{"reset lua=1", "get 0", "get 1", "get-race 1 " + hx("r2"), "!results"},
		{"reset lua=0", "get 0", "get-race 0 " + hx("same-client"), "!results"},
		{"reset lua=0", "get 0", "get 0", "get 0", "death 0", "refresh 0", "load-ok " + hx("x"), "load-ok " + hx("y"), "!results"},
	}
	for _, sc := range fixed {
		for _, l := range sc {
			ep.op(c, l)
		}
	}
	for i := 0; i < 3+c.N/12; i++ {
		ep.op(c, fmt.Sprintf("reset lua=%d typed=%d", r.IntN(2), r.IntN(4)/3))
		waiterClient := -1 // at most one client has parked Gets while the key is contended (see the suite rule)
		for j := 0; j < 6+r.IntN(10); j++ {
			ep.mu.Lock()
			loading, parked := 0, 0
			holder := -1
			for _, g := range ep.gets {
				if g.loading {
					loading++
					holder = g.client
				} else if !g.done {
					parked++
				}
			}
			ep.mu.Unlock()
			if parked == 0 {
				waiterClient = -1
			}
			switch x := r.IntN(14); {
			case x < 5:
				ci := r.IntN(3)
				if loading > 0 || parked > 0 {
					if waiterClient < 0 {
						waiterClient = ci
						if ci == holder {
							waiterClient = (ci + 1) % 3
						}
					}
					ci = waiterClient
				}
				ep.op(c, fmt.Sprintf("get %d", ci))
			case x < 7:
				if loading == 1 && parked == 0 {
					ep.op(c, "load-ok "+hx(vals[r.IntN(len(vals))]))
				} else if loading > 0 {
					// several loaders or waiters of another client: a value with the placeholder prefix would send its
					// loader back into a race for the lock whose winner the scheduler picks
					ep.op(c, "load-ok "+hx(vals[r.IntN(4)]))
				}
			case x == 7:
				if loading == 1 && !ep.contested {
					ci := waiterClient
					if ci < 0 {
						ci = (holder + 1) % 3
						waiterClient = ci
					}
					ep.op(c, fmt.Sprintf("get-race %d %s", ci, hx(vals[r.IntN(4)])))
				}
			case x == 8:
				if loading > 0 {
					if r.IntN(2) == 0 {
						ep.op(c, "load-err")
					} else {
						ep.op(c, "load-ok-storefail "+hx(vals[r.IntN(4)]))
					}
				}
			case x == 9:
				ep.op(c, "del")
			case x == 10:
				ep.op(c, "expire")
			case x == 11:
				if holder >= 0 {
					ep.op(c, fmt.Sprintf("death %d", holder))
				} else {
					ep.op(c, "put "+hx(vals[r.IntN(4)]))
				}
			case x == 12:
				if parked > 0 {
					ep.op(c, "cancel-parked")
				}
			default:
				ep.op(c, fmt.Sprintf("refresh %d", r.IntN(3)))
			}
		}
		ep.op(c, "!results")
	}
	ep.close()
}
