package main

// A hand-written in-process fake of a Redis server behind rueidis.Client values, for the
// commands rueidislock / rueidisaside / om use, including server-assisted client-side
// caching: per-connection key tracking (OPTIN through DoCache, OPTOUT for keys read by
// commands and scripts, NOLOOP) and invalidation pushes delivered through the
// ClientOption.OnInvalidations callback whenever a tracked key is written, deleted or
// expires. Each script is recognised by the SHA-1 of its text (the texts pinned in
// Rv/Props/C34, C39, C40) and executed by a Go re-implementation that is validated against
// the Lean script models by the `s.*` lines of every suite. A script whose text is not one
// of the pinned ones is executed by the mini Lua interpreter harness/luamini on the same
// server state (see luamini.go).

import (
	"context"
	"crypto/sha1"
	"encoding/hex"
	"encoding/json"
	"errors"
	"sort"
	"strconv"
	"strings"
	"sync"
	"sync/atomic"
	"time"

	"github.com/redis/rueidis"
	"github.com/redis/rueidis/internal/cmds"
	"github.com/redis/rueidis/mock"
)

// SHA-1 of the script texts the handlers below re-implement (see Rv/Gen/LuaScripts.lean).
var scriptBySha = map[string]string{
	"3875d208d9e377969d2022550302cc83ad17b584": "lk.acqat",
	"fa3d1aaa7e4145457755016a3d5daf72fa7a11bf": "lk.acqms",
	"9eb62214c9af87ae5f9a9f12bb4520281c0d2ae1": "lk.delkey",
	"852ba6ec6104340ced36643283c856d4698569e4": "lk.extend",
	"c10e8119872659b926e8e28002d9b7fccbf15617": "lk.fcqat",
	"4384ed08baff4dd7071b6c78c516a2fded4ee3e7": "lk.fcqms",
	"fb80ce0e2c4327e6b8b4818dcf4591eec0ebbc2c": "as.acquire",
	"7726c7be95e2a0ed082ec1da1e26b562f5c8903f": "as.delkey",
	"3913f9de2aab2b98021c6f9b04f7293af86e2c61": "as.setkey",
	"57cb87169b4f86f0e1b751c3c0d250a94f5f152a": "om.hashsave",
	"c98f8d514faf6338abeccc9e18fc6bd19c75577b": "om.jsonsave",
}

type fval struct {
	kind byte // 's' string, 'h' hash, 'j' JSON document (text)
	s    string
	h    map[string]string
	exp  int64 // absolute expiry in server ms; 0 = none
}

type reply struct {
	typ byte // ':' '_' '$' '+' '-' '*'
	n   int64
	s   string
	arr []reply
}

func rInt(n int64) reply    { return reply{typ: ':', n: n} }
func rNil() reply           { return reply{typ: '_'} }
func rStr(s string) reply   { return reply{typ: '$', s: s} }
func rOK() reply            { return reply{typ: '+', s: "OK"} }
func rErr(s string) reply   { return reply{typ: '-', s: s} }
func rArr(a ...reply) reply { return reply{typ: '*', arr: a} }
func (r reply) isErr() bool { return r.typ == '-' }

// canonical text used on the line protocol (byte strings in hex)
func (r reply) String() string {
	switch r.typ {
	case ':':
		return ":" + strconv.FormatInt(r.n, 10)
	case '_':
		return "_"
	case '$':
		return "$" + hx(r.s)
	case '+':
		return "+" + r.s
	case '-':
		return "-" + strings.SplitN(r.s, " ", 2)[0]
	}
	parts := make([]string, len(r.arr))
	for i, e := range r.arr {
		parts[i] = e.String()
	}
	return "*[" + strings.Join(parts, ",") + "]"
}

func (r reply) msg() rueidis.RedisMessage {
	switch r.typ {
	case ':':
		return mock.RedisInt64(r.n)
	case '_':
		return mock.RedisNil()
	case '$':
		return mock.RedisBlobString(r.s)
	case '+':
		return mock.RedisString(r.s)
	case '-':
		return mock.RedisError(r.s)
	}
	ms := make([]rueidis.RedisMessage, len(r.arr))
	for i, e := range r.arr {
		ms[i] = e.msg()
	}
	return mock.RedisArray(ms...)
}

type logged struct {
	cl   *fakeClient
	name string
	keys []string
	args []string
	rep  reply
	ctx  context.Context
	srv  int64
	hit  bool // answered from the client-side cache
	prev string // DEL / as.delkey: the string value of the (first) key before the command
}

type inval struct {
	to  *fakeClient
	key string
}

type fakeServer struct {
	mu      sync.Mutex
	clock   func() int64
	keys    map[string]*fval
	loaded  map[string]bool
	track   map[string]map[*fakeClient]bool
	log     []logged
	hits    map[string]int
	pending []inval
	hold    bool               // queue invalidations until flush() instead of delivering after each command
	cmdSeq  int64              // number of commands executed (for settle)
	onExec  func(l *logged)    // observer, called under mu
	onInval func(i inval)      // observer, called before delivery (no lock held)
	failCmd func(cmd []string) string // fault injection: non-empty = error text to answer instead of executing
	// afterReply runs in the caller's goroutine after a command's reply is final and its invalidations
	// are delivered, before the reply is handed back: lets a suite order another client's step exactly
	// between a read and the reader's next action
	afterReply func(cl *fakeClient, cmd []string, r reply)
	// beforeExec runs in the caller's goroutine before a command reaches the server (no lock held): a
	// suite can hold a command back (a gate) to fix the order of commands of different goroutines
	beforeExec func(cl *fakeClient, cmd []string)
	// fault: transport faults as the client sees them. 0 = none, 1 = the command never reaches the server,
	// 2 = the server executes it and the reply is lost. Either way the caller gets a non-Redis error, and -
	// like singleClient.Do - the fake client re-sends a command that is marked retryable.
	fault   func(cl *fakeClient, cmd []string) int
	owner   map[int][]string          // connection id -> the rueidisid: keys it SET (liveness keys; concurrent keepalives may create a spare one)
}

func newFakeServer(clock func() int64) *fakeServer {
	return &fakeServer{clock: clock, keys: map[string]*fval{}, loaded: map[string]bool{}, hits: map[string]int{},
		track: map[string]map[*fakeClient]bool{}, owner: map[int][]string{}}
}

func (f *fakeServer) takeLog() []logged {
	f.mu.Lock()
	defer f.mu.Unlock()
	l := f.log
	f.log = nil
	return l
}

// ---- keyspace primitives (caller holds mu)

// touched: key was written/deleted/expired: every tracking connection gets one invalidation
// and is forgotten (Redis' tracking table is one-shot). NOLOOP connections are not told about their own writes.
func (f *fakeServer) touched(key string, by *fakeClient) {
	cls := f.track[key]
	if len(cls) == 0 {
		return
	}
	delete(f.track, key)
	order := make([]*fakeClient, 0, len(cls))
	for c := range cls {
		order = append(order, c)
	}
	sort.Slice(order, func(i, j int) bool { return order[i].id < order[j].id })
	for _, c := range order {
		if c == by && c.noloop {
			// Redis keeps nothing for the writer either: the table entry is freed as a whole
			continue
		}
		f.pending = append(f.pending, inval{to: c, key: key})
	}
}

func (f *fakeServer) remember(key string, cl *fakeClient) {
	if cl == nil || cl.closed {
		return
	}
	m := f.track[key]
	if m == nil {
		m = map[*fakeClient]bool{}
		f.track[key] = m
	}
	m[cl] = true
}

func (f *fakeServer) look(key string, now int64) *fval {
	v := f.keys[key]
	if v != nil && v.exp != 0 && now > v.exp { // Redis: expired iff now > when
		delete(f.keys, key)
		f.touched(key, nil)
		return nil
	}
	return v
}

func (f *fakeServer) del(key string, now int64, by *fakeClient) bool {
	if f.look(key, now) == nil {
		return false
	}
	delete(f.keys, key)
	f.touched(key, by)
	return true
}

func (f *fakeServer) put(key string, v *fval, by *fakeClient) {
	f.keys[key] = v
	f.touched(key, by)
}

// expireDue removes every key whose expiry has passed (the active expiry cycle), oldest first.
func (f *fakeServer) expireDue() []string {
	f.mu.Lock()
	now := f.clock()
	var ks []string
	for k, v := range f.keys {
		if v.exp != 0 && now > v.exp {
			ks = append(ks, k)
		}
	}
	sort.Strings(ks)
	for _, k := range ks {
		f.look(k, now)
	}
	f.mu.Unlock()
	f.flush()
	return ks
}

// flush delivers queued invalidations in order: the connection drops the cached entries of the
// key, then its OnInvalidations callback runs (the order pipe.go uses).
func (f *fakeServer) flush() {
	for {
		f.mu.Lock()
		if len(f.pending) == 0 {
			f.mu.Unlock()
			return
		}
		iv := f.pending[0]
		f.pending = f.pending[1:]
		cb := iv.to.onInval
		closed := iv.to.closed
		for ck := range iv.to.cache {
			if strings.HasPrefix(ck, iv.key+"\x00") {
				delete(iv.to.cache, ck)
			}
		}
		f.mu.Unlock()
		if closed {
			continue
		}
		if f.onInval != nil {
			f.onInval(iv)
		}
		if cb != nil {
			cb([]rueidis.RedisMessage{mock.RedisBlobString(iv.key)})
		}
	}
}

func parseI(s string) (int64, bool) {
	i, err := strconv.ParseInt(s, 10, 64)
	return i, err == nil
}

// canonical decimal (what strconv.FormatInt prints): the only numerals the script models cover
func canonDec(s string) (int64, bool) {
	i, err := strconv.ParseInt(s, 10, 64)
	return i, err == nil && strconv.FormatInt(i, 10) == s
}

const errWrong = "ERR fake: wrong type or argument"
const errDomain = "ERR fake: arguments outside the modelled domain"
const errExpire = "ERR invalid expire time in 'set' command"

// setString: SET key val [NX] [PX ms | PXAT at]; ok=false → NX refused. An expiry that is not in the
// future removes the key (Redis 7 checkAlreadyExpired).
func (f *fakeServer) setString(key, val string, nx bool, exp int64, now int64, by *fakeClient) bool {
	if nx && f.look(key, now) != nil {
		return false
	}
	if exp != 0 && exp <= now {
		f.del(key, now, by)
		return true
	}
	f.put(key, &fval{kind: 's', s: val, exp: exp}, by)
	return true
}

// getString: GET as seen by a script / command (nil, string, or wrong type)
func (f *fakeServer) getString(key string, now int64) (string, bool, bool) {
	v := f.look(key, now)
	if v == nil {
		return "", false, true
	}
	if v.kind != 's' {
		return "", false, false
	}
	return v.s, true, true
}

// ---- script handlers: Go re-implementations of the pinned Lua texts

func (f *fakeServer) runScript(cl *fakeClient, name string, keys, args []string) reply {
	now := f.clock()
	need := func(nk, na int) bool { return len(keys) >= nk && len(args) >= na }
	// a script's GET makes the calling connection track the key when it is in OPTOUT mode
	scriptGet := func(key string) (string, bool, bool) {
		s, ok, typ := f.getString(key, now)
		if cl != nil && cl.optout {
			f.remember(key, cl)
		}
		return s, ok, typ
	}
	switch name {
	case "lk.acqms", "lk.acqat", "lk.fcqms", "lk.fcqat":
		if !need(1, 2) {
			return rErr(errWrong)
		}
		t, ok := canonDec(args[1])
		if !ok {
			return rErr(errDomain)
		}
		exp := t
		if strings.HasSuffix(name, "ms") {
			exp = now + t
		}
		if t <= 0 {
			return rErr(errExpire)
		}
		if v := f.look(keys[0], now); v != nil && v.kind != 's' {
			return rErr(errWrong)
		}
		set := f.setString(keys[0], args[0], strings.HasPrefix(name, "lk.acq"), exp, now, cl)
		scriptGet(keys[0])
		if set {
			return rOK()
		}
		return rNil()
	case "lk.extend":
		if !need(1, 2) {
			return rErr(errWrong)
		}
		at, ok := canonDec(args[1])
		if !ok {
			return rErr(errDomain)
		}
		cur, have, typ := scriptGet(keys[0])
		if !typ {
			return rErr(errWrong)
		}
		if have && cur == args[0] {
			if at <= now {
				f.del(keys[0], now, cl)
			} else {
				f.keys[keys[0]].exp = at
				f.touched(keys[0], cl)
			}
			scriptGet(keys[0])
			return rInt(1)
		}
		return rInt(0)
	case "lk.delkey", "as.delkey":
		if !need(1, 1) {
			return rErr(errWrong)
		}
		get := scriptGet
		if name == "as.delkey" {
			get = func(k string) (string, bool, bool) { return f.getString(k, now) }
		}
		cur, have, typ := get(keys[0])
		if !typ {
			return rErr(errWrong)
		}
		if have && cur == args[0] {
			f.del(keys[0], now, cl)
			return rInt(1)
		}
		return rInt(0)
	case "as.acquire":
		if !need(1, 2) {
			return rErr(errWrong)
		}
		t, ok := canonDec(args[1])
		if !ok {
			return rErr(errDomain)
		}
		if t <= 0 {
			return rErr(errExpire)
		}
		if v := f.look(keys[0], now); v != nil && v.kind != 's' {
			return rErr(errWrong)
		}
		if f.setString(keys[0], args[0], true, now+t, now, cl) {
			return rNil()
		}
		cur, _, _ := f.getString(keys[0], now)
		return rStr(cur)
	case "as.setkey":
		if !need(1, 3) {
			return rErr(errWrong)
		}
		t, ok := canonDec(args[2])
		if !ok {
			return rErr(errDomain)
		}
		cur, have, typ := f.getString(keys[0], now)
		if !typ {
			return rErr(errWrong)
		}
		if have && cur == args[0] {
			if t <= 0 {
				return rErr(errExpire)
			}
			f.setString(keys[0], args[1], false, now+t, now, cl)
			return rOK()
		}
		return rInt(0)
	case "om.hashsave":
		if !need(1, 2) {
			return rErr(errWrong)
		}
		argv := append([]string{}, args...)
		v := f.look(keys[0], now)
		if v != nil && v.kind != 'h' {
			return rErr(errWrong)
		}
		store := func() bool { // e = (#ARGV % 2 == 1) and table.remove(ARGV) or nil; HSET; PEXPIREAT
			e := ""
			if len(argv)%2 == 1 {
				e = argv[len(argv)-1]
				argv = argv[:len(argv)-1]
			}
			at := int64(0)
			if e != "" {
				var ok bool
				if at, ok = canonDec(e); !ok {
					return false
				}
			}
			if v == nil {
				v = &fval{kind: 'h', h: map[string]string{}}
			}
			for i := 0; i+1 < len(argv); i += 2 {
				v.h[argv[i]] = argv[i+1]
			}
			f.put(keys[0], v, cl)
			if e != "" {
				if at <= now {
					f.del(keys[0], now, cl)
				} else {
					v.exp = at
				}
			}
			return true
		}
		if argv[0] == "" {
			if !store() {
				return rErr(errDomain)
			}
			return rStr(argv[1])
		}
		cur, have := "", false
		if v != nil {
			cur, have = v.h[argv[0]]
		}
		if !have || cur == argv[1] {
			n, ok := canonDec(argv[1])
			if !ok || n+1 >= 100000000000000 || n+1 <= -100000000000000 {
				return rErr(errDomain) // tostring() prints %.14g: exact only below 10^14
			}
			argv[1] = strconv.FormatInt(n+1, 10)
			if !store() {
				return rErr(errDomain)
			}
			return rStr(argv[1])
		}
		return rNil()
	case "om.jsonsave":
		if !need(1, 3) || len(args) > 4 {
			return rErr(errWrong)
		}
		v := f.look(keys[0], now)
		if v != nil && v.kind != 'j' {
			return rErr(errWrong)
		}
		at := int64(0)
		if len(args) == 4 {
			var ok bool
			if at, ok = canonDec(args[3]); !ok {
				return rErr(errDomain)
			}
		}
		var doc map[string]json.RawMessage
		if err := json.Unmarshal([]byte(args[2]), &doc); err != nil || doc == nil {
			return rErr(errDomain) // only JSON objects are modelled
		}
		expire := func() {
			if len(args) == 4 {
				if at <= now {
					f.del(keys[0], now, cl)
				} else {
					f.keys[keys[0]].exp = at
				}
			}
		}
		if args[0] == "" {
			f.put(keys[0], &fval{kind: 'j', s: args[2]}, cl)
			expire()
			return rStr(args[1])
		}
		match := v == nil
		if v != nil {
			var old map[string]json.RawMessage
			_ = json.Unmarshal([]byte(v.s), &old)
			ov, ok := old[args[0]]
			if !ok {
				return rErr("ERR Path '$." + args[0] + "' does not exist")
			}
			match = string(ov) == args[1]
		}
		if match {
			nv, ok := doc[args[0]]
			if !ok {
				return rErr("ERR Path '$." + args[0] + "' does not exist")
			}
			n, ok := canonDec(string(nv))
			if !ok || n+1 >= 1<<53 {
				return rErr(errDomain)
			}
			doc[args[0]] = json.RawMessage(strconv.FormatInt(n+1, 10))
			bs, _ := json.Marshal(doc)
			f.put(keys[0], &fval{kind: 'j', s: string(bs)}, cl)
			expire()
			return rStr(strconv.FormatInt(n+1, 10))
		}
		return rNil()
	}
	return rErr("ERR fake: unknown script")
}

// ---- command dispatch

func (f *fakeServer) exec(cl *fakeClient, ctx context.Context, cmd []string, cacheTTL time.Duration, cached bool) reply {
	if f.beforeExec != nil {
		f.beforeExec(cl, cmd)
	}
	r := f.exec1(cl, ctx, cmd, cacheTTL, cached)
	if !f.hold {
		f.flush()
	}
	if f.afterReply != nil {
		f.afterReply(cl, cmd, r)
	}
	return r
}

func (f *fakeServer) exec1(cl *fakeClient, ctx context.Context, cmd []string, cacheTTL time.Duration, cached bool) reply {
	f.mu.Lock()
	defer f.mu.Unlock()
	f.cmdSeq++
	if len(cmd) == 0 {
		return rErr("ERR empty command")
	}
	now := f.clock()
	cp := make([]string, len(cmd))
	for i, x := range cmd {
		cp[i] = strings.Clone(x)
	}
	cmd = cp
	record := func(name string, keys, args []string, r reply) reply {
		l := logged{cl: cl, name: name, keys: keys, args: args, rep: r, ctx: ctx, srv: now}
		f.log = append(f.log, l)
		if f.onExec != nil {
			f.onExec(&l)
		}
		return r
	}
	if cl != nil && cl.closed {
		return record("closed", nil, nil, rErr("ERR fake: connection closed"))
	}
	if f.failCmd != nil {
		if e := f.failCmd(cmd); e != "" {
			return record("fail:"+strings.ToLower(cmd[0]), nil, nil, rErr(e))
		}
	}
	op := strings.ToUpper(cmd[0])
	// client-side cache lookup
	ck := ""
	if cached && len(cmd) >= 2 {
		ck = cmd[1] + "\x00" + strings.Join(cmd, "\x00")
		if e, ok := cl.cache[ck]; ok {
			if now < e.exp {
				f.hits["csc-hit"]++
				l := logged{cl: cl, name: strings.ToLower(op), keys: cmd[1:2], args: cmd[2:], rep: e.rep, ctx: ctx, srv: now, hit: true}
				f.log = append(f.log, l)
				if f.onExec != nil {
					f.onExec(&l)
				}
				return e.rep
			}
			delete(cl.cache, ck)
		}
	}
	fill := func(r reply) reply {
		if cached && !r.isErr() {
			exp := now + cacheTTL.Milliseconds()
			if v := f.keys[cmd[1]]; v != nil && v.exp != 0 && v.exp < exp {
				exp = v.exp + 1
			}
			cl.cache[ck] = centry{rep: r, exp: exp}
			f.remember(cmd[1], cl)
		}
		return r
	}
	readTrack := func(key string) {
		if cl != nil && cl.optout && !cached {
			f.remember(key, cl)
		}
	}
	switch op {
	case "EVALSHA", "EVAL":
		if len(cmd) < 3 {
			return rErr("ERR wrong number of arguments")
		}
		sha := cmd[1]
		if op == "EVALSHA" {
			if !f.loaded[sha] {
				f.hits["noscript"]++
				return rErr("NOSCRIPT No matching script. Please use EVAL.")
			}
			f.hits["evalsha"]++
		} else {
			sum := sha1.Sum([]byte(cmd[1]))
			sha = hex.EncodeToString(sum[:])
			f.loaded[sha] = true
			scriptTexts.Store(sha, cmd[1])
			f.hits["eval"]++
		}
		nk, err := strconv.Atoi(cmd[2])
		if err != nil || nk < 0 || 3+nk > len(cmd) {
			return rErr("ERR Number of keys can't be greater than number of args")
		}
		name, ok := scriptBySha[sha]
		if !ok {
			// not one of the pinned texts: interpreted; logged under the name of the known script it resembles
			text, _ := scriptTexts.Load(sha)
			label := labelOf(sha, text.(string))
			luaUnknownRuns.Add(1)
			cnt, _ := luaUnknownAs.LoadOrStore(label, new(atomic.Int64))
			cnt.(*atomic.Int64).Add(1)
			return record(label, cmd[3:3+nk], cmd[3+nk:], f.runLua(cl, sha, text.(string), cmd[3:3+nk], cmd[3+nk:]))
		}
		return record(name, cmd[3:3+nk], cmd[3+nk:], f.runScript(cl, name, cmd[3:3+nk], cmd[3+nk:]))
	case "SCRIPT":
		if len(cmd) == 3 && strings.ToUpper(cmd[1]) == "LOAD" {
			sum := sha1.Sum([]byte(cmd[2]))
			sha := hex.EncodeToString(sum[:])
			f.loaded[sha] = true
			scriptTexts.Store(sha, cmd[2])
			return rStr(sha)
		}
	case "GET":
		if len(cmd) != 2 {
			return rErr("ERR wrong number of arguments for 'get' command")
		}
		s, have, typ := f.getString(cmd[1], now)
		readTrack(cmd[1])
		if !typ {
			return record("get", cmd[1:2], nil, rErr("WRONGTYPE Operation against a key holding the wrong kind of value"))
		}
		if !have {
			return record("get", cmd[1:2], nil, fill(rNil()))
		}
		return record("get", cmd[1:2], nil, fill(rStr(s)))
	case "SET":
		// SET key value [NX] [GET] [PX ms]
		if len(cmd) < 3 {
			return rErr("ERR wrong number of arguments for 'set' command")
		}
		nx, get, exp := false, false, int64(0)
		for i := 3; i < len(cmd); i++ {
			switch strings.ToUpper(cmd[i]) {
			case "NX":
				nx = true
			case "GET":
				get = true
			case "PX", "PXAT":
				if i+1 >= len(cmd) {
					return rErr("ERR syntax error")
				}
				t, ok := parseI(cmd[i+1])
				if !ok || t <= 0 {
					return record("set", cmd[1:2], cmd[2:], rErr(errExpire))
				}
				if strings.ToUpper(cmd[i]) == "PX" {
					exp = now + t
				} else {
					exp = t
				}
				i++
			default:
				return rErr("ERR syntax error")
			}
		}
		old, have, typ := f.getString(cmd[1], now)
		if !typ && (get || nx) {
			return record("set", cmd[1:2], cmd[2:], rErr("WRONGTYPE Operation against a key holding the wrong kind of value"))
		}
		set := f.setString(cmd[1], cmd[2], nx, exp, now, cl)
		if cl != nil && strings.HasPrefix(cmd[1], "rueidisid:") {
			dup := false
			for _, k := range f.owner[cl.id] {
				dup = dup || k == cmd[1]
			}
			if !dup {
				f.owner[cl.id] = append(f.owner[cl.id], cmd[1])
			}
		}
		switch {
		case get && have:
			return record("set", cmd[1:2], cmd[2:], rStr(old))
		case get:
			return record("set", cmd[1:2], cmd[2:], rNil())
		case set:
			return record("set", cmd[1:2], cmd[2:], rOK())
		}
		return record("set", cmd[1:2], cmd[2:], rNil())
	case "DEL":
		n := int64(0)
		prev := ""
		if len(cmd) > 1 {
			if v := f.look(cmd[1], now); v != nil {
				prev = v.s
			}
		}
		for _, k := range cmd[1:] {
			if f.del(k, now, cl) {
				n++
			}
		}
		l := logged{cl: cl, name: "del", keys: cmd[1:], rep: rInt(n), ctx: ctx, srv: now, prev: prev}
		f.log = append(f.log, l)
		if f.onExec != nil {
			f.onExec(&l)
		}
		return l.rep
	case "HGETALL":
		if len(cmd) != 2 {
			return rErr("ERR wrong number of arguments for 'hgetall' command")
		}
		v := f.look(cmd[1], now)
		readTrack(cmd[1])
		if v != nil && v.kind != 'h' {
			return record("hgetall", cmd[1:2], nil, rErr("WRONGTYPE Operation against a key holding the wrong kind of value"))
		}
		out := []reply{}
		if v != nil {
			ks := make([]string, 0, len(v.h))
			for k := range v.h {
				ks = append(ks, k)
			}
			sort.Strings(ks)
			for _, k := range ks {
				out = append(out, rStr(k), rStr(v.h[k]))
			}
		}
		return record("hgetall", cmd[1:2], nil, fill(rArr(out...)))
	case "JSON.GET":
		// JSON.GET key . (legacy root path): the whole document
		if len(cmd) != 3 || cmd[2] != "." {
			return rErr("ERR fake: only JSON.GET key . is supported")
		}
		v := f.look(cmd[1], now)
		readTrack(cmd[1])
		if v != nil && v.kind != 'j' {
			return record("json.get", cmd[1:2], cmd[2:], rErr("WRONGTYPE Operation against a key holding the wrong kind of value"))
		}
		if v == nil {
			return record("json.get", cmd[1:2], cmd[2:], fill(rNil()))
		}
		return record("json.get", cmd[1:2], cmd[2:], fill(rStr(v.s)))
	}
	return record("unsupported:"+cmd[0], nil, nil, rErr("ERR fake: unsupported command "+cmd[0]))
}

// ---- rueidis.Client on top of the fake server

type centry struct {
	rep reply
	exp int64
}

type fakeClient struct {
	rueidis.Client // nil: any method the packages are not expected to use panics
	srv            *fakeServer
	id             int
	optout         bool // CLIENT TRACKING … OPTOUT: every key read is tracked
	noloop         bool
	onInval        func([]rueidis.RedisMessage)
	cache          map[string]centry
	closed         bool
}

func newFakeClient(srv *fakeServer, id int, opt rueidis.ClientOption) *fakeClient {
	c := &fakeClient{srv: srv, id: id, onInval: opt.OnInvalidations, cache: map[string]centry{}}
	for _, o := range opt.ClientTrackingOptions {
		switch strings.ToUpper(o) {
		case "OPTOUT":
			c.optout = true
		case "NOLOOP":
			c.noloop = true
		}
	}
	if opt.DisableCache {
		c.optout, c.onInval = false, nil
	}
	return c
}

func (c *fakeClient) B() rueidis.Builder { return cmds.NewBuilder(cmds.NoSlot) }

var errTransport = errors.New("fake: connection lost")

func (c *fakeClient) Do(ctx context.Context, cmd rueidis.Completed) rueidis.RedisResult {
	for attempt := 0; ; attempt++ {
		if err := ctx.Err(); err != nil {
			return mock.ErrorResult(err)
		}
		kind := 0
		if f := c.srv.fault; f != nil {
			kind = f(c, cmd.Commands())
		}
		if kind == 0 {
			return mock.Result(c.srv.exec(c, ctx, cmd.Commands(), 0, false).msg())
		}
		if kind == 2 {
			c.srv.exec(c, ctx, cmd.Commands(), 0, false) // executed, the reply never arrives
		}
		c.srv.mu.Lock()
		c.srv.hits["transport-fault"]++
		c.srv.mu.Unlock()
		if !(&cmd).IsRetryable() || attempt >= 3 {
			return mock.ErrorResult(errTransport)
		}
		c.srv.mu.Lock()
		c.srv.hits["client-retry"]++
		c.srv.mu.Unlock()
	}
}

func (c *fakeClient) DoMulti(ctx context.Context, multi ...rueidis.Completed) []rueidis.RedisResult {
	out := make([]rueidis.RedisResult, len(multi))
	for i, m := range multi {
		out[i] = c.Do(ctx, m)
	}
	return out
}

func (c *fakeClient) DoCache(ctx context.Context, cmd rueidis.Cacheable, ttl time.Duration) rueidis.RedisResult {
	if err := ctx.Err(); err != nil {
		return mock.ErrorResult(err)
	}
	return mock.Result(c.srv.exec(c, ctx, cmd.Commands(), ttl, true).msg())
}

func (c *fakeClient) Nodes() map[string]rueidis.Client { return map[string]rueidis.Client{"fake": c} }

func (c *fakeClient) Close() {
	c.srv.mu.Lock()
	c.closed = true
	for k, m := range c.srv.track {
		delete(m, c)
		if len(m) == 0 {
			delete(c.srv.track, k)
		}
	}
	c.srv.mu.Unlock()
}

// connLost: the connection broke and was re-established: the cache is flushed, tracking is gone
// and the callback is told with a nil slice (what pipe.go does on reconnect).
func (c *fakeClient) connLost() {
	c.srv.mu.Lock()
	c.cache = map[string]centry{}
	for k, m := range c.srv.track {
		delete(m, c)
		if len(m) == 0 {
			delete(c.srv.track, k)
		}
	}
	cb := c.onInval
	c.srv.mu.Unlock()
	if cb != nil {
		cb(nil)
	}
	c.srv.flush()
}

func errClass(err error) string {
	if err == nil {
		return "ok"
	}
	if rueidis.IsRedisNil(err) {
		return "err:nil"
	}
	if _, ok := rueidis.IsRedisErr(err); ok {
		return "err:redis"
	}
	return "err:other"
}
