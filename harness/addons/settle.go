package main

import (
	"regexp"
	"runtime"
	"time"
)

var goroutineHdr = regexp.MustCompile(`(?m)^goroutine \d+ \[([^\]]+)\]:`)

// quiescent reports whether every goroutine except the caller is blocked (on a channel, select,
// mutex, condition or timer). The suites drive real goroutines of the add-on packages with all
// their timers set far in the future, so "everything is blocked" means the reaction to the
// last event is complete. No sleeps are used to decide an oracle: the loop below only yields.
func quiescent() bool {
	buf := make([]byte, 1<<20)
	n := runtime.Stack(buf, true)
	running := 0
	for _, m := range goroutineHdr.FindAllSubmatch(buf[:n], -1) {
		st := string(m[1])
		for i := 0; i < len(st); i++ { // strip ", 2 minutes" / ", locked to thread"
			if st[i] == ',' {
				st = st[:i]
				break
			}
		}
		switch st {
		case "chan receive", "chan send", "select", "select (no cases)", "sync.Mutex.Lock", "sync.RWMutex.RLock",
			"sync.RWMutex.Lock", "sync.Cond.Wait", "sync.WaitGroup.Wait", "semacquire", "IO wait", "chan receive (nil chan)",
			"chan send (nil chan)", "GC worker (idle)", "finalizer wait", "GC sweep wait", "GC scavenge wait", "force gc (idle)", "cleanup wait":
		default:
			running++
		}
	}
	return running <= 1 // the caller itself
}

// settle waits until the system is quiescent on three consecutive looks.
func settle() bool {
	deadline := time.Now().Add(20 * time.Second)
	ok := 0
	for ok < 3 {
		runtime.Gosched()
		if quiescent() {
			ok++
		} else {
			ok = 0
			if time.Now().After(deadline) {
				return false
			}
		}
	}
	return true
}
